(** C04 — pool contents follow add/remove semantics with per-sender ordering and limits.
    Statements only; proofs in Txcache/SenderList_proofs.v, Pool_proofs.v, Pool_props.v. *)
From Coq Require Import List NArith ZArith Lia Permutation Sorting.Sorted.
From Verif Require Import Base.BStr Txcache.TxTypes Txcache.SenderList Txcache.Selection Txcache.Pool
  Txcache.SenderList_proofs Txcache.Pool_proofs Txcache.Pool_props Props.C05.
Import ListNotations.
Open Scope Z_scope.

(** after any history of AddTx / RemoveTxByHash / Clear (any limits, eviction on or off): every sender's list is
    STRICTLY ordered by nonce asc / gas price desc / hash asc, no hash occurs twice in the pool *)
Theorem C04_sorted_nodup : forall cfg ops, hist_ok ops ->
  (forall a, StronglySorted precedes (pool_for_sender (run_pool cfg ops) a)) /\
  NoDup (map hash (pool_txs (run_pool cfg ops))).
Proof.
  intros cfg ops H. pose proof (run_pool_inv cfg ops H) as HI. split; [intros a; apply inv_sorted; exact HI|apply inv_hash_NoDup; exact HI].
Qed.

(** the strict order is total on distinct hashes, so a sender's list is determined by the SET of its transactions *)
Theorem C04_order_total : forall a b, hash a <> hash b -> precedes a b \/ precedes b a.
Proof. exact precedes_total. Qed.

Theorem C04_list_determined_by_set : forall l1 l2,
  StronglySorted precedes l1 -> StronglySorted precedes l2 -> Permutation l1 l2 -> l1 = l2.
Proof. exact sorted_perm_unique. Qed.

(** the insertion proper (what AddTx does after the optional eviction), on any pool satisfying the invariant, for a
    transaction consistent with "hash determines content":
    - hash already pooled: nothing changes, added = false;
    - otherwise added = true and the sender's list becomes the sorted list l' of (t :: old list), minus its LAST
      (highest-ordered) element if l' exceeds the count or byte limit; no other sender is touched.
    (At most ONE element is dropped: see C04_limit_drop_partial / _refuted.) *)
Theorem C04_add : forall cfg p t, Inv p -> agrees p t -> tx_wf t ->
  let p' := fst (add_core cfg p t) in
  Inv p' /\
  match alookup (byHash p) (hash t) with
  | Some _ => p' = p /\ snd (add_core cfg p t) = false
  | None =>
      snd (add_core cfg p t) = true /\
      exists l', StronglySorted precedes l' /\ Permutation l' (t :: pool_for_sender p (sender t)) /\
        forall b, pool_for_sender p' b =
                  if beqb (sender t) b then (if over_limits cfg l' then removelast l' else l') else pool_for_sender p b
  end.
Proof. exact add_core_spec. Qed.

(** AddTx reports added = true exactly when the hash was not pooled at insertion *)
Theorem C04_added_flag : forall cfg p t, Inv p -> agrees p t -> tx_wf t ->
  snd (add_core cfg p t) = match alookup (byHash p) (hash t) with Some _ => false | None => true end.
Proof.
  intros cfg p t HI Hag Hwf. destruct (add_core_spec cfg p t HI Hag Hwf) as (_ & H).
  destruct (alookup (byHash p) (hash t)); [apply H|apply H].
Qed.

(** when ONE drop suffices (always for the count limit; for the byte limit when the dropped transaction is at least
    as large as the excess), the sender holds the longest prefix of l' that fits *)
Theorem C04_limit_drop_partial : forall cfg l', over_limits cfg l' = true -> over_limits cfg (removelast l') = false ->
  let kept := removelast l' in
  over_limits cfg kept = false /\ exists x, l' = kept ++ [x].
Proof.
  intros cfg l' H1 H2. cbv zeta. split; [exact H2|].
  destruct l' as [|y l]; [simpl in H2; congruence|].
  exists (last (y :: l) y). apply app_removelast_last. discriminate.
Qed.

(** the full "dropped until it fits" statement is FALSE of the code: applySizeConstraints reads element.Prev()
    after list.Remove(element), so at most one transaction is dropped (finding F4; an existing test asserts it) *)
Open Scope N_scope.
Definition f4_tx h n (sz : Z) : tx := mkTx h [65] n 50000 100 sz 100000%Z None [].
Definition f4_cfg : config := mkConfig false 1000000%Z 300%Z 1000%Z 1000%Z 1.
Open Scope Z_scope.
Theorem C04_limit_drop_refuted :
  exists cfg ops, hist_ok ops /\
    numBytesPerSenderThreshold cfg < sum_sizes (pool_for_sender (run_pool cfg ops) [65%N]).
Proof.
  exists f4_cfg, [PAdd (f4_tx [1%N] 1%N 100); PAdd (f4_tx [2%N] 2%N 100); PAdd (f4_tx [3%N] 3%N 100); PAdd (f4_tx [4%N] 0%N 128)].
  split; [|vm_compute; reflexivity]. split.
  - intros t t' Ht Ht' E. simpl in Ht, Ht'.
    repeat (destruct Ht as [<-|Ht]; [repeat (destruct Ht' as [<-|Ht']; [first [reflexivity | discriminate E]|]); destruct Ht'|]); destruct Ht.
  - intros t Ht. simpl in Ht. repeat (destruct Ht as [<-|Ht]; [vm_compute; reflexivity|]). destruct Ht.
Qed.

(** RemoveTxByHash h: not pooled -> false, nothing changes; pooled (transaction t) -> true, the sender of t loses
    exactly its transactions with nonce <= nonce t, every other sender is untouched *)
Theorem C04_remove : forall p h, Inv p ->
  let p' := fst (remove_tx p h) in
  Inv p' /\
  match alookup (byHash p) h with
  | None => p' = p /\ snd (remove_tx p h) = false
  | Some t =>
      snd (remove_tx p h) = true /\
      forall b, pool_for_sender p' b =
                if beqb (sender t) b then filter (fun x => (nonce t <? nonce x)%N) (pool_for_sender p b) else pool_for_sender p b
  end.
Proof. exact remove_tx_spec. Qed.

(** lookups by hash agree with the lists: Keys = the hashes of the listed transactions; GetByTxHash/Has/Peek/Get
    find h iff a listed transaction has hash h, and return that transaction *)
Theorem C04_lookups : forall cfg ops, hist_ok ops ->
  let p := run_pool cfg ops in
  Permutation (keys p) (map hash (pool_txs p)) /\
  (forall t, alookup (byHash p) (hash t) = Some t <-> In t (pool_txs p)) /\
  (forall h t, alookup (byHash p) h = Some t -> hash t = h).
Proof.
  intros cfg ops H. pose proof (run_pool_inv cfg ops H) as HI. cbv zeta. split; [apply inv_keys; exact HI|]. split.
  - intros t. rewrite <- (listed_iff_in _ _ (proj1 (proj2 HI))). apply HI.
  - apply HI.
Qed.

Example C04_nonvacuous :
  map hash (pool_for_sender (run_pool C05.ex_cfg C05.ex_ops) [65%N]) = [[3%N]; [2%N]; [8%N]].
Proof. vm_compute. reflexivity. Qed.

Print Assumptions C04_sorted_nodup.
Print Assumptions C04_order_total.
Print Assumptions C04_list_determined_by_set.
Print Assumptions C04_add.
Print Assumptions C04_added_flag.
Print Assumptions C04_limit_drop_partial.
Print Assumptions C04_limit_drop_refuted.
Print Assumptions C04_remove.
Print Assumptions C04_lookups.
