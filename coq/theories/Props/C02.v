(** C02 — selection stays within gas, count, balance and guard constraints.
    Statements only; proofs in Txcache/Selection_proofs.v, for the envelope: ANY choice oracle
    [pick], any stopping point [fuel]. The deterministic selection is an instance (the C02_select theorems). *)
From Coq Require Import List NArith ZArith Lia Bool.
From Verif Require Import Base.BStr Txcache.TxTypes Txcache.Selection Txcache.Judge Txcache.Selection_proofs
  Txcache.Pool Txcache.Pool_proofs Txcache.Pool_props Txcache.Judge_proofs.
Import ListNotations.
Open Scope N_scope.

Section C02.
  Variable sess : session.
  Variable gasRequested : N.          (* any value; a uint64 in the code *)
  Variable maxNum : nat.
  Variable pick : nat -> st -> option nat.
  Variable fuel : nat.
  Variable bs : list (list tx).
  Hypothesis Hok : bunches_ok bs.

  Let final := loop sess gasRequested maxNum pick fuel (init_st bs).
  Let result := rev (selected final).

  (** members of the pool ... *)
  Theorem C02_members : forall t, In t result -> In t (concat bs).
  Proof. exact (env_C02_members sess gasRequested maxNum pick fuel bs Hok). Qed.

  (** ... distinct (pooled hashes are distinct: the pool invariant C05) *)
  Theorem C02_distinct : NoDup (map hash (concat bs)) -> NoDup (map hash result).
  Proof. exact (env_C02_distinct sess gasRequested maxNum pick fuel bs Hok). Qed.

  Theorem C02_count : (length result <= maxNum)%nat.
  Proof. exact (env_C02_count sess gasRequested maxNum pick fuel bs Hok). Qed.

  (** the gas limits sum (true integer sum, no modulus) to the returned accumulated gas <= gasRequested *)
  Theorem C02_gas : sum_gas result = accGas final /\ accGas final <= gasRequested.
  Proof. exact (env_C02_gas sess gasRequested maxNum pick fuel bs Hok). Qed.

  Theorem C02_guard : forall t, In t result -> guarded sess t = false.
  Proof. exact (env_C02_guard sess gasRequested maxNum pick fuel bs Hok). Qed.

  (** walking the result in order: the fee payer's balance covers this fee on top of every fee (as
      payer) and transferred value (as sender) committed to that account by earlier results;
      all Z balances, shared relayers, an account that is both sender and relayer *)
  Theorem C02_balance : forall pre t post, result = pre ++ t :: post ->
    (committed pre (feePayer t) + fee t <= sess_balance sess (feePayer t))%Z.
  Proof. exact (env_C02_balance sess gasRequested maxNum pick fuel bs Hok). Qed.
End C02.

(** the deterministic selection is an instance of the envelope *)
Theorem C02_select_gas : forall sess bs gasRequested maxNum, bunches_ok bs ->
  sum_gas (fst (select sess bs gasRequested maxNum)) = snd (select sess bs gasRequested maxNum) /\
  snd (select sess bs gasRequested maxNum) <= gasRequested.
Proof. intros sess bs g m Hok. rewrite select_is_loop. apply env_C02_gas. exact Hok. Qed.

Theorem C02_select_count : forall sess bs gasRequested maxNum, bunches_ok bs ->
  (length (fst (select sess bs gasRequested maxNum)) <= maxNum)%nat.
Proof. intros sess bs g m Hok. rewrite select_is_loop. apply env_C02_count. exact Hok. Qed.

(** for every reachable pool the selected transactions are distinct members of the pool *)
Theorem C02_reachable_members_distinct : forall cfg ops sess gasRequested maxNum, hist_ok ops ->
  let result := fst (select_txs (run_pool cfg ops) sess gasRequested maxNum) in
  NoDup (map hash result) /\ forall t, In t result -> In t (pool_txs (run_pool cfg ops)).
Proof.
  intros cfg ops sess g m H. cbv zeta. pose proof (run_pool_inv cfg ops H) as HI. unfold select_txs. rewrite select_is_loop. cbn [fst]. split.
  - apply env_C02_distinct; [apply inv_bunches_ok; exact HI|apply inv_hash_NoDup; exact HI].
  - apply env_C02_members. apply inv_bunches_ok. exact HI.
Qed.

(** the executable twins evaluated on the implementation's results are sound *)
Theorem C02_checker_balance_sound : forall sess result, c02_balanceb sess result = true ->
  forall pre t post, result = pre ++ t :: post ->
    (committed pre (feePayer t) + fee t <= sess_balance sess (feePayer t))%Z.
Proof. intros sess result H. apply balance_walkb_spec. exact H. Qed.

Theorem C02_checker_gas_sound : forall gasRequested acc result, c02_gasb gasRequested acc result = true ->
  sum_gas result = acc /\ acc <= gasRequested.
Proof.
  intros g acc result H. unfold c02_gasb in H. apply andb_true_iff in H. destruct H as (H1 & H2).
  apply N.eqb_eq in H1. apply N.leb_le in H2. auto.
Qed.

(** all five judges together (labels 22-26 of the pool component): a verdict [true] on the IMPLEMENTATION's result is the statement *)
Theorem C02_checkers_sound : forall sess gasRequested acc maxNum result,
  c02_allb sess gasRequested acc maxNum result = true <-> c02_result sess gasRequested acc maxNum result.
Proof. exact c02_allb_iff. Qed.

(** ... and they accept the model's own selection over every reachable pool: no alarm on a conforming implementation *)
Theorem C02_checkers_accept_model : forall cfg ops sess gasRequested maxNum, hist_ok ops ->
  let r := select_txs (run_pool cfg ops) sess gasRequested maxNum in
  c02_allb sess gasRequested (snd r) maxNum (fst r) = true.
Proof. exact run_pool_selection_accepted. Qed.

(** [committed] is the sum the property speaks of *)
Theorem C02_committed_meaning : forall pre a,
  committed pre a =
  fold_right (fun t acc => ((if beqb (sender t) a then match value t with Some v => v | None => 0 end else 0)
                            + (if beqb (feePayer t) a then fee t else 0) + acc)%Z) 0%Z pre.
Proof. reflexivity. Qed.

(** non-vacuity: a shared relayer whose balance is exhausted by the first two relayed transactions,
    gas limits near 2^63 that would have wrapped a uint64 sum, a fee beyond 2^64 *)
Definition ex_tx h s n gl fee_ rel : tx := mkTx h s n gl 100 100 fee_ (Some 5%Z) rel.
Definition ex_bunches : list (list tx) :=
  [ [ex_tx [1] [65] 0 9223372036854775808 100 [82]; ex_tx [2] [65] 1 50000 100 [82]];
    [ex_tx [3] [66] 0 9223372036854775813 100 [82]];
    [ex_tx [4] [67] 0 50000 18446744073709651616 []] ].
Definition ex_session : session :=
  mkSession (fun a => if beqb a [82] then Some (0, 250%Z)
                      else if beqb a [67] then Some (0, 18446744073709651616%Z) else Some (0, 0%Z))
            (fun _ => false).
Example C02_nonvacuous :
  bunches_ok ex_bunches /\
  (let r := select ex_session ex_bunches 18446744073709551615 10 in
   map hash (fst r) = [[4]; [3]] /\ snd r = 9223372036854825813).
Proof. split; [apply bunches_okb_sound; vm_compute; reflexivity|vm_compute; split; reflexivity]. Qed.

Print Assumptions C02_members.
Print Assumptions C02_distinct.
Print Assumptions C02_count.
Print Assumptions C02_gas.
Print Assumptions C02_guard.
Print Assumptions C02_balance.
Print Assumptions C02_select_gas.
Print Assumptions C02_select_count.
Print Assumptions C02_reachable_members_distinct.
Print Assumptions C02_checker_balance_sound.
Print Assumptions C02_checker_gas_sound.
Print Assumptions C02_committed_meaning.
Print Assumptions C02_checkers_sound.
Print Assumptions C02_checkers_accept_model.
