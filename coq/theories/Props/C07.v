(** C07 — eviction removes only least-valuable per-sender suffixes, no more than needed.
    Statements only; proofs in Txcache/Pool_proofs.v, Pool_props.v, Order_proofs.v.
    The operational model (Pool.v: do_eviction / evict_passes / take_batch / worst_index / lowest_by_sender /
    evict_sender_suffix) IS the documented procedure: walks over the reversed sender lists, repeated extraction of
    the least valuable head in batches of NumItemsToPreemptivelyEvict, passes while capacity is exceeded. *)
From Coq Require Import List NArith ZArith Lia Bool Permutation Sorting.Sorted.
From Verif Require Import Base.BStr Txcache.TxTypes Txcache.SenderList Txcache.Selection Txcache.Pool
  Txcache.SenderList_proofs Txcache.Pool_proofs Txcache.Pool_props Txcache.Order_proofs Props.C05.
Import ListNotations.
Open Scope Z_scope.

(** nothing is evicted while the pool is within thresholds *)
Theorem C07_idle : forall cfg p, capacity_exceeded cfg p = false -> do_eviction cfg p = p.
Proof. exact do_eviction_idle. Qed.

(** passes stop at the first point where the pool is within thresholds: no more than needed ... *)
Theorem C07_stops_when_within : forall cfg fuel cs p, capacity_exceeded cfg p = false -> evict_passes cfg fuel cs p = p.
Proof. exact evict_passes_stops. Qed.

(** ... and they do not stop earlier: after eviction the pool IS within thresholds (for every reachable pool) *)
Theorem C07_runs_until_within : forall cfg ops, hist_ok ops -> thresholds_ok cfg ->
  capacity_exceeded cfg (do_eviction cfg (run_pool cfg ops)) = false.
Proof. intros cfg ops H HT. apply do_eviction_post; [apply run_pool_inv; exact H|exact HT]. Qed.

(** each take is the LEAST valuable transaction at the head of the walks (lowest fee per gas unit; ties: smaller gas
    limit, then larger hash): every other head is more valuable *)
Theorem C07_take_least_valuable : forall k cs b rest cs',
  NoDup (map (fun c => hash (ecur c)) cs) -> take_batch (S k) cs = (b :: rest, cs') ->
  exists c, In c cs /\ ecur c = b /\ forall c', In c' cs -> c' = c \/ more_valuable (ecur c') b = true.
Proof. exact take_batch_least. Qed.

(** the order used is a strict total order on distinct hashes, so "the least valuable" is well defined *)
Theorem C07_order : (forall a, more_valuable a a = false) /\
  (forall a b c, more_valuable a b = true -> more_valuable b c = true -> more_valuable a c = true) /\
  (forall a b, hash a <> hash b -> more_valuable a b = true \/ more_valuable b a = true).
Proof.
  split; [intros a; destruct (more_valuable a a) eqn:E; [exfalso; exact (mv_irrefl a E)|reflexivity]|].
  split; [exact mv_trans|exact mv_total].
Qed.

(** whenever a transaction is taken, every transaction of that sender with the same or a higher nonce goes with it *)
Theorem C07_victim_takes_suffix : forall cfg P0 cs p batch cs', Inv P0 -> pass_inv P0 cs p ->
  take_batch (numItemsToPreemptivelyEvict cfg) cs = (batch, cs') ->
  let p2 := byhash_remove_bulk (fold_left (fun q sn => evict_sender_suffix q (fst sn) (snd sn)) (lowest_by_sender batch []) p) (map hash batch) in
  forall b x, In b batch -> listed p2 x -> sender x = sender b -> (nonce x < nonce b)%N.
Proof. exact pass_takes_suffix. Qed.

(** so each sender loses a suffix of its nonce order: its list is cut at a nonce boundary — it keeps a PREFIX, and
    everything kept has a strictly smaller nonce than everything removed (no gap is opened, no same-nonce survivor) *)
Theorem C07_suffix : forall cfg ops a, hist_ok ops ->
  let p := run_pool cfg ops in
  exists rest, pool_for_sender p a = pool_for_sender (do_eviction cfg p) a ++ rest /\
    forall x y, In x (pool_for_sender (do_eviction cfg p) a) -> In y rest -> (nonce x < nonce y)%N.
Proof.
  intros cfg ops a H. cbv zeta. pose proof (run_pool_inv cfg ops H) as HI.
  apply cut_prefix; [apply inv_sorted; exact HI|apply do_eviction_cut; exact HI].
Qed.

(** evicted transactions disappear from every view; the invariant (C05) holds after eviction *)
Theorem C07_gone_everywhere : forall cfg ops x, hist_ok ops ->
  let p := run_pool cfg ops in
  In x (pool_txs p) -> ~ In x (pool_txs (do_eviction cfg p)) ->
  alookup (byHash (do_eviction cfg p)) (hash x) = None /\ Inv (do_eviction cfg p).
Proof.
  intros cfg ops x H. cbv zeta. pose proof (run_pool_inv cfg ops H) as HI. destruct (Inv_do_eviction cfg _ HI) as (HI' & _).
  intros Hin Hnot. split; [|exact HI']. apply evicted_gone; [exact HI|apply (listed_iff_in _ _ (proj1 (proj2 HI))); exact Hin|].
  intros Hl. apply Hnot. apply (listed_iff_in _ _ (proj1 (proj2 HI'))). exact Hl.
Qed.

(** eviction only removes *)
Theorem C07_only_removes : forall cfg ops x, hist_ok ops ->
  In x (pool_txs (do_eviction cfg (run_pool cfg ops))) -> In x (pool_txs (run_pool cfg ops)).
Proof.
  intros cfg ops x H Hin. pose proof (run_pool_inv cfg ops H) as HI. destruct (Inv_do_eviction cfg _ HI) as (HI' & Hsub).
  apply (listed_iff_in _ _ (proj1 (proj2 HI))). apply Hsub. apply (listed_iff_in _ _ (proj1 (proj2 HI'))). exact Hin.
Qed.

(** non-vacuity: three senders with PPU 1 < 2 < 3 and a byte threshold that needs two batches of one:
    the PPU-1 and PPU-2 transactions go, the PPU-3 one stays *)
Open Scope N_scope.
Definition ev_tx h s (fee_ : Z) : tx := mkTx h s 0 50000 100 100%Z fee_ None [].
Definition ev_cfg : config := mkConfig true 150%Z 1000%Z 100%Z 100%Z 1.
Definition ev_ops : list pop := [PAdd (ev_tx [1] [65] 50000%Z); PAdd (ev_tx [2] [66] 100000%Z); PAdd (ev_tx [3] [67] 150000%Z)].
Open Scope Z_scope.
Example C07_nonvacuous :
  capacity_exceeded ev_cfg (run_pool ev_cfg ev_ops) = true /\
  map hash (pool_txs (do_eviction ev_cfg (run_pool ev_cfg ev_ops))) = [[3%N]].
Proof. vm_compute. split; reflexivity. Qed.

Print Assumptions C07_idle.
Print Assumptions C07_stops_when_within.
Print Assumptions C07_runs_until_within.
Print Assumptions C07_take_least_valuable.
Print Assumptions C07_order.
Print Assumptions C07_victim_takes_suffix.
Print Assumptions C07_suffix.
Print Assumptions C07_gone_everywhere.
Print Assumptions C07_only_removes.
