(** C05 — the two indexes and the three counters agree after every operation, incl. eviction and Clear.
    Statements only; proofs in Txcache/Pool_proofs.v and Txcache/Pool_props.v. *)
From Coq Require Import List NArith ZArith Lia Permutation.
From Verif Require Import Base.BStr Txcache.TxTypes Txcache.SenderList Txcache.Selection Txcache.Pool
  Txcache.SenderList_proofs Txcache.Pool_proofs Txcache.Pool_props Txcache.Judge Txcache.Judge_proofs Base.Generic Txcache.PoolComp Txcache.PoolComp_proofs.
Import ListNotations.
Open Scope Z_scope.

(** For every sequential history of AddTx (with or without eviction, any thresholds, any batch size),
    RemoveTxByHash, SelectTransactions and Clear over transactions whose hash determines their content:
    the invariant [Inv] holds:
      - hash index: unique keys, the transaction stored under h has hash h, CountTx = |index|, NumBytes = sum of sizes;
      - sender map: unique senders, every stored list non-empty, strictly ordered, owned by its sender,
        its byte counter exact, CountSenders = number of stored lists;
      - Link: reachable by hash <-> reachable through a sender's list. *)
Theorem C05_inv : forall (cfg : config) (ops : list pop), hist_ok ops -> Inv (run_pool cfg ops).
Proof. exact run_pool_inv. Qed.

(** the set reachable by hash equals the set reachable through the senders' lists (as multisets, no duplicates) *)
Theorem C05_same_set : forall cfg ops, hist_ok ops ->
  Permutation (map snd (byHash (run_pool cfg ops))) (pool_txs (run_pool cfg ops)) /\
  NoDup (pool_txs (run_pool cfg ops)) /\ NoDup (keys (run_pool cfg ops)).
Proof.
  intros cfg ops H. pose proof (run_pool_inv cfg ops H) as HI. split; [apply inv_same_set; exact HI|].
  split; [apply pool_txs_NoDup; apply HI|apply HI].
Qed.

(** CountTx/Len = size of that set, NumBytes = sum of their Size fields, CountSenders = number of senders
    owning at least one pooled transaction (every stored list is non-empty) *)
Theorem C05_counters : forall cfg ops, hist_ok ops ->
  let p := run_pool cfg ops in
  cntTx p = Z.of_nat (length (pool_txs p)) /\ numBytes p = sum_sizes (pool_txs p) /\
  cntSenders p = Z.of_nat (length (senders p)) /\ (forall a sl, In (a, sl) (senders p) -> items sl <> []).
Proof. intros cfg ops H. apply inv_counters. apply run_pool_inv. exact H. Qed.

(** an emptied pool reports zero for all of them *)
Theorem C05_empty_is_zero : forall cfg ops, hist_ok ops -> pool_txs (run_pool cfg ops) = [] ->
  let p := run_pool cfg ops in cntTx p = 0 /\ numBytes p = 0 /\ cntSenders p = 0 /\ keys p = [].
Proof. intros cfg ops H. apply inv_empty_is_zero. apply run_pool_inv. exact H. Qed.

(** no transaction remains that can be neither selected nor evicted: reachable by hash => in its sender's list *)
Theorem C05_no_orphan : forall cfg ops h t, hist_ok ops ->
  alookup (byHash (run_pool cfg ops)) h = Some t -> In t (pool_for_sender (run_pool cfg ops) (sender t)).
Proof.
  intros cfg ops h t H Hl. pose proof (run_pool_inv cfg ops H) as HI.
  assert (hash t = h) by (apply HI; exact Hl). subst h. apply (proj2 (proj2 HI)) in Hl.
  apply (pool_for_sender_in _ _ _ (proj1 (proj2 HI))). auto.
Qed.

(** The tie.  The harness reads Keys, the per-sender lists and the three counters off the IMPLEMENTATION after every operation and hands
    them to [Judge.c05_viewsb] (labels 30 and 32 of the pool component).  A verdict [true] means exactly the property statement on
    those views: Keys without duplicates, the hashes in the lists without duplicates, the same set on both sides, every listed
    transaction in the list of its own sender, CountTx = |Keys|, NumBytes = the sum of the Size fields, CountSenders = the number
    of non-empty lists. *)
Theorem C05_checker_sound : forall known v, c05_viewsb known v = true <-> c05_views known v.
Proof. exact c05_viewsb_iff. Qed.

(** ... and the judge never raises an alarm on the model: the model's own views of every reachable pool are accepted
    (alpha: the senders the harness asks about, covering every sender of the pool; known: the transactions the history added) *)
Theorem C05_checker_accepts_model : forall cfg ops alpha known,
  hist_ok ops -> NoDup alpha ->
  (forall a, In a (map fst (senders (run_pool cfg ops))) -> In a alpha) ->
  (forall t, In t (added_txs ops) -> lookup_tx known (hash t) = Some t) ->
  c05_viewsb known (views_of alpha (run_pool cfg ops)) = true.
Proof. exact run_pool_views_accepted. Qed.

(** The executable driver (PoolComp.pool_step: the function the extracted runner folds over the wire history) computes exactly
    [run_pool] of the operations the wire steps stand for -- the theorems above are therefore about what the runner runs ... *)
Theorem C05_driver_is_model : forall cfgargs s0 steps, pool_init cfgargs = Some s0 ->
  ps_pool (comp_run s0 steps) = run_pool (ps_cfg s0) (decode_ops steps) /\
  ps_cfg (comp_run s0 steps) = ps_cfg s0 /\ ps_alpha (comp_run s0 steps) = ps_alpha s0.
Proof. exact driver_is_run_pool. Qed.

(** ... and what it prints under label 32 (C05 judged on the model's own views; the harness answers [true] for it, so that any other
    value shows as a mismatch) is [true] at every point of every history whose added transactions are determined by their hashes,
    have uint64 nonces and senders in the (duplicate-free) alphabet of the configuration *)
Theorem C05_driver_prints_true_under_32 : forall cfgargs s0 steps args v, pool_init cfgargs = Some s0 ->
  hist_ok (decode_ops steps) -> NoDup (ps_alpha s0) ->
  (forall t, In t (added_txs (decode_ops steps)) -> In (sender t) (ps_alpha s0)) ->
  In (32%N, v) (snd (pool_step (comp_run s0 steps) 6%N args)) -> v = g_bool true.
Proof. exact driver_prints_true_under_32. Qed.

(** non-vacuity: a history with same-nonce alternatives, eviction by count in two batches, a transaction larger
    than the per-sender byte limit, a removal and a Clear reaches non-trivial states *)
Open Scope N_scope.
Definition ex_tx h s n gp (sz fee_ : Z) : tx := mkTx h s n 50000 gp sz fee_ (Some 1%Z) [].
Definition ex_cfg : config := mkConfig true 100000%Z 300%Z 4%Z 3%Z 1.
Definition ex_ops : list pop :=
  [PAdd (ex_tx [1] [65] 0 100 100%Z 100000%Z); PAdd (ex_tx [2] [65] 1 100 100%Z 150000%Z); PAdd (ex_tx [3] [65] 1 200 100%Z 100000%Z);
   PAdd (ex_tx [4] [66] 0 100 100%Z 50000%Z); PAdd (ex_tx [5] [67] 0 100 400%Z 200000%Z); PAdd (ex_tx [6] [66] 1 100 100%Z 100000%Z);
   PAdd (ex_tx [7] [68] 3 100 100%Z 100000%Z); PRemove [1]; PAdd (ex_tx [8] [65] 5 100 100%Z 100000%Z)].
Open Scope Z_scope.
Example C05_nonvacuous :
  hist_ok ex_ops /\
  (let p := run_pool ex_cfg ex_ops in cntTx p = 5 /\ cntSenders p = 3 /\ numBytes p = 500) /\
  (let p := run_pool ex_cfg (ex_ops ++ [PClear]) in cntTx p = 0 /\ cntSenders p = 0 /\ numBytes p = 0).
Proof.
  split; [|vm_compute; repeat split; reflexivity].
  split.
  - intros t t' Ht Ht' E. simpl in Ht, Ht'.
    repeat (destruct Ht as [<-|Ht]; [repeat (destruct Ht' as [<-|Ht']; [first [reflexivity | discriminate E]|]); destruct Ht'|]); destruct Ht.
  - intros t Ht. simpl in Ht. repeat (destruct Ht as [<-|Ht]; [vm_compute; reflexivity|]). destruct Ht.
Qed.

Print Assumptions C05_inv.
Print Assumptions C05_same_set.
Print Assumptions C05_counters.
Print Assumptions C05_empty_is_zero.
Print Assumptions C05_no_orphan.
Print Assumptions C05_checker_sound.
Print Assumptions C05_checker_accepts_model.
Print Assumptions C05_driver_is_model.
Print Assumptions C05_driver_prints_true_under_32.
