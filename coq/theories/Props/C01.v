(** C01 — selection yields, per sender, a gap-free nonce run starting at the account nonce.
    Statements only; proofs are in Txcache/Selection_proofs.v (envelope: ANY choice oracle [pick],
    any stopping point [fuel]) and Txcache/Pool_proofs.v (reachable pools satisfy the hypothesis). *)
From Coq Require Import List NArith ZArith Lia.
From Verif Require Import Base.BStr Txcache.TxTypes Txcache.Selection Txcache.Judge Txcache.Selection_proofs
  Txcache.Pool Txcache.Pool_proofs Txcache.Pool_props.
Import ListNotations.
Open Scope N_scope.

(** For every list of bunches (one sender each, nonce-nondecreasing, uint64 nonces — no reachability
    assumed), every session, every gasRequested / maxNum, every order in which senders are served and
    every stopping point: for every sender, the selected nonces are exactly
    account nonce, account nonce + 1, ... in that order (account nonce = 0 on lookup failure). *)
Theorem C01_run :
  forall (sess : session) (gasRequested : N) (maxNum : nat) (pick : nat -> st -> option nat) (fuel : nat)
         (bs : list (list tx)),
    bunches_ok bs ->
    forall a : bytes,
      run_from (sess_nonce sess a)
               (map nonce (of_sender a (rev (selected (loop sess gasRequested maxNum pick fuel (init_st bs)))))).
Proof. exact env_C01_run. Qed.

(** hence strictly increasing: no two returned transactions share a sender and a nonce *)
Theorem C01_strictly_increasing :
  forall sess gasRequested maxNum pick fuel bs, bunches_ok bs ->
  forall a i j x y, (i < j)%nat ->
    nth_error (map nonce (of_sender a (rev (selected (loop sess gasRequested maxNum pick fuel (init_st bs)))))) i = Some x ->
    nth_error (map nonce (of_sender a (rev (selected (loop sess gasRequested maxNum pick fuel (init_st bs)))))) j = Some y ->
    x < y.
Proof.
  intros sess g m pick fuel bs Hok a. apply (run_from_lt (sess_nonce sess a)). apply env_C01_run. exact Hok.
Qed.

(** the deterministic selection (what SelectTransactions computes) is an instance *)
Theorem C01_select :
  forall sess bs gasRequested maxNum, bunches_ok bs ->
  forall a, run_from (sess_nonce sess a) (map nonce (of_sender a (fst (select sess bs gasRequested maxNum)))).
Proof. intros sess bs g m Hok a. rewrite select_is_loop. apply env_C01_run. exact Hok. Qed.

(** composition with the pool invariant (C05/C04): for EVERY history of AddTx / RemoveTxByHash / Clear / Select
    (any limits, eviction on or off, hash determines content) the bunches handed to the selection satisfy the
    hypothesis, so the guarantee holds for every reachable pool *)
Theorem C01_reachable :
  forall cfg ops sess gasRequested maxNum, hist_ok ops ->
  forall a, run_from (sess_nonce sess a)
              (map nonce (of_sender a (fst (select_txs (run_pool cfg ops) sess gasRequested maxNum)))).
Proof.
  intros cfg ops sess g m H a. unfold select_txs. rewrite select_is_loop. apply env_C01_run.
  apply inv_bunches_ok. apply run_pool_inv. exact H.
Qed.

(** the executable twin evaluated by the correspondence check on the implementation's results *)
Theorem C01_checker_sound :
  forall sess result, c01_holdsb sess result = true ->
  forall t, In t result -> run_from (sess_nonce sess (sender t)) (map nonce (of_sender (sender t) result)).
Proof.
  intros sess result H t Ht. unfold c01_holdsb in H. rewrite forallb_forall in H.
  apply run_fromb_spec. apply H. exact Ht.
Qed.

Theorem C01_checker_accepts_model :
  forall sess bs gasRequested maxNum, bunches_ok bs ->
  c01_holdsb sess (fst (select sess bs gasRequested maxNum)) = true.
Proof. intros sess bs g m Hok. rewrite select_is_loop. apply env_C01_holdsb. exact Hok. Qed.

(** non-vacuity: a pool with a stale nonce, a same-nonce duplicate, a middle gap, a wrongly guarded
    transaction and two competing senders selects a non-empty run *)
Definition ex_tx h s n gl fee_ : tx := mkTx h s n gl 100 100 fee_ (Some 1%Z) [].
Definition ex_bunches : list (list tx) :=
  [ [ex_tx [1] [65] 0 50000 100000; ex_tx [2] [65] 1 50000 150000; ex_tx [3] [65] 1 50000 100000;
     ex_tx [4] [65] 2 50000 100000; ex_tx [5] [65] 4 50000 100000];
    [ex_tx [6] [66] 7 50000 200000; ex_tx [7] [66] 8 50000 100000] ].
Definition ex_session : session :=
  mkSession (fun a => if beqb a [65] then Some (1, 1000000000%Z) else if beqb a [66] then Some (7, 1000000000%Z) else None)
            (fun t => beqb (hash t) [7]).
Example C01_nonvacuous :
  bunches_ok ex_bunches /\
  map hash (fst (select ex_session ex_bunches 10000000 100)) = [[6]; [2]; [4]].
Proof. split; [apply bunches_okb_sound; vm_compute; reflexivity|vm_compute; reflexivity]. Qed.

Print Assumptions C01_run.
Print Assumptions C01_strictly_increasing.
Print Assumptions C01_select.
Print Assumptions C01_reachable.
Print Assumptions C01_checker_sound.
Print Assumptions C01_checker_accepts_model.
