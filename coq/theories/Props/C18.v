(** C18 — time caches keep a key for at least its span, then drop it at the next sweep.  (claimed PARTIAL)

    Proved here: the logic, on the operational model of timecache/*.go in which every operation
    receives the clock reading it takes ([now : Z], nanoseconds) as an input and the background
    goroutine of timeCacher is an explicit [OSweep] event.  NOT proved (validated by the harness:
    virtual-time differential runs and real-time runs with monotonic-clock brackets): that
    [time.Now]/[time.Since] deliver non-decreasing readings and that the goroutine sweeps every
    CacheExpiry.

    Vocabulary.  [run d ops] is the state after the history [ops] of a cache with default span [d];
    [life_of d k ops = Some (t, sp)] is the bookkeeping of the property text: the latest add/upsert
    of [k] was at clock reading [t] and its effective span is [sp] ([None]: never added, removed by
    hand, or dropped by a sweep).  [C18_bookkeeping] ties that bookkeeping to the model's entries;
    [C18_add_replaces] / [C18_upsert_max] / [C18_hasoradd_no_refresh] say what each adding operation
    does to it.  Only statements here; each is closed by [exact] of a lemma of Time/TimeCache_proofs.v. *)
From Coq Require Import List NArith ZArith Lia Bool.
From Verif Require Import Base.BStr Time.TimeCache Time.TimeCache_proofs.
Import ListNotations.
Open Scope Z_scope.

(** every history (any clock readings, any spans of any sign, any keys): the entry the model holds
    for [k] carries exactly the time of the latest add/upsert and the effective span *)
Theorem C18_bookkeeping : forall (d : Z) (ops : list op) (k : bytes),
  proj (lk (run d ops) k) = life_of d k ops.
Proof. exact bookkeeping. Qed.

(** RETAINED.  A key whose latest add/upsert (after [pre]) was at [t] with effective span [sp] is
    reported by every query made at a reading [nowq <= t + sp], whatever ran in between ([post]:
    any number of sweeps, HasOrAdd of k, operations on other keys, queries) as long as nobody
    re-added / upserted / removed k or cleared the cache (then (t, sp) would not be the latest). *)
Theorem C18_retained : forall (d : Z) (pre post : list op) (nowq : Z) (q : query) (k : bytes) (t sp : Z),
  clock_mono (pre ++ post ++ [OQuery nowq q]) ->
  life_of d k pre = Some (t, sp) ->
  Forall (fun o => rewrites k o = false) post ->
  nowq <= t + sp ->
  reports_present k q (snd (step (run d (pre ++ post)) (OQuery nowq q))).
Proof. exact retained. Qed.

(** the same, split at the operation that made the latest add: [o] is Add / AddWithSpan / Put of the
    non-empty key [k] asking for span [sp] ([adds d k o = Some sp]; the default [d] for Add and Put) *)
Theorem C18_retained_after_add : forall (d : Z) (pre : list op) (o : op) (post : list op) (nowq : Z) (q : query) (k : bytes) (sp : Z),
  adds d k o = Some sp ->
  clock_mono (pre ++ o :: post ++ [OQuery nowq q]) ->
  Forall (fun o' => rewrites k o' = false) post ->
  nowq <= op_now o + sp ->
  reports_present k q (snd (step (run d (pre ++ o :: post)) (OQuery nowq q))).
Proof. exact retained_after_add. Qed.

(** after an Upsert asking for [sp] the key is retained for at least [sp] (more if its old span was larger) *)
Theorem C18_retained_after_upsert : forall (d : Z) (pre : list op) (now : Z) (k : bytes) (sp : Z) (post : list op) (nowq : Z) (q : query),
  k <> [] ->
  clock_mono (pre ++ OUpsert now k sp :: post ++ [OQuery nowq q]) ->
  Forall (fun o' => rewrites k o' = false) post ->
  nowq <= now + sp ->
  reports_present k q (snd (step (run d (pre ++ OUpsert now k sp :: post)) (OQuery nowq q))).
Proof. exact retained_after_upsert. Qed.

(** the same without the query: time of latest refresh and span are untouched by whatever [post] does *)
Theorem C18_retained_life : forall (d : Z) (pre post : list op) (k : bytes) (t sp : Z),
  life_of d k pre = Some (t, sp) ->
  Forall (fun o => rewrites k o = false) post ->
  Forall (fun o => op_now o <= t + sp) post ->
  life_of d k (pre ++ post) = Some (t, sp).
Proof. exact retained_life. Qed.

(** DROPPED.  A sweep at a reading [nows > t + sp] removes the key: afterwards Has is false, Get/Peek
    miss, Keys does not list it.  (No clock hypothesis is needed.) *)
Theorem C18_dropped : forall (d : Z) (pre post : list op) (nows : Z) (k : bytes) (t sp : Z),
  life_of d k pre = Some (t, sp) ->
  Forall (fun o => touches k o = false) post ->
  nows > t + sp ->
  has (run d (pre ++ post ++ [OSweep nows])) k = false /\
  forall nowq q, reports_absent k q (snd (step (run d (pre ++ post ++ [OSweep nows])) (OQuery nowq q))).
Proof. exact dropped. Qed.

Theorem C18_dropped_after_add : forall (d : Z) (pre : list op) (o : op) (post : list op) (nows : Z) (k : bytes) (sp : Z),
  adds d k o = Some sp ->
  Forall (fun o' => touches k o' = false) post ->
  nows > op_now o + sp ->
  has (run d (pre ++ o :: post ++ [OSweep nows])) k = false.
Proof. exact dropped_after_add. Qed.

Theorem C18_dropped_after_upsert : forall (d : Z) (pre : list op) (now : Z) (k : bytes) (sp : Z) (post : list op) (nows : Z),
  k <> [] ->
  Forall (fun o' => touches k o' = false) post ->
  nows > now + match life_of d k pre with Some (_, sp0) => Z.max sp0 sp | None => sp end ->
  has (run d (pre ++ OUpsert now k sp :: post ++ [OSweep nows])) k = false.
Proof. exact dropped_after_upsert. Qed.

(** and it stays out until an operation adds it again *)
Theorem C18_stays_out : forall (d : Z) (pre post : list op) (k : bytes),
  life_of d k pre = None ->
  Forall (fun o => touches k o = false) post ->
  has (run d (pre ++ post)) k = false.
Proof. exact stays_out. Qed.

(** a sweep deletes exactly the entries whose span has elapsed (strictly) *)
Theorem C18_sweep_exact : forall (c : core) (now : Z) (k : bytes), wf c ->
  lk (sweep c now) k =
  match lk c k with
  | Some e => if now >? e_ts e + e_span e then None else Some e
  | None => None
  end.
Proof. exact sweep_spec. Qed.

(** the Go loop reads the clock once per visited element; with per-element readings [clk k'] that are
    not earlier than the start [now] of the sweep the two facts above are unchanged *)
Theorem C18_sweep_clock_readings : forall (c : core) (clk : bytes -> Z) (now : Z) (k : bytes) (e : entry),
  wf c -> (forall k', now <= clk k') -> lk c k = Some e ->
  (now > e_ts e + e_span e -> lk (sweep_clk c clk) k = None) /\
  (clk k <= e_ts e + e_span e -> lk (sweep_clk c clk) k = Some e) /\
  (lk (sweep_clk c clk) k = None \/ lk (sweep_clk c clk) k = Some e).
Proof. exact sweep_clk_spec. Qed.

(** ADD REPLACES.  Add / AddWithSpan / Put of a non-empty key: whatever the history before, the span
    becomes the requested one (possibly shorter than the old one) and the countdown restarts *)
Theorem C18_add_replaces : forall (d : Z) (pre : list op) (o : op) (k : bytes) (sp : Z),
  adds d k o = Some sp ->
  life_of d k (pre ++ [o]) = Some (op_now o, sp) /\
  exists e, lk (run d (pre ++ [o])) k = Some e /\ e_ts e = op_now o /\ e_span e = sp.
Proof. exact add_replaces. Qed.

(** UPSERT.  The span becomes the maximum of old and new, the countdown restarts ... *)
Theorem C18_upsert_max : forall (d : Z) (pre : list op) (now : Z) (k : bytes) (sp : Z), k <> [] ->
  life_of d k (pre ++ [OUpsert now k sp]) =
  Some (now, match life_of d k pre with Some (_, sp0) => Z.max sp0 sp | None => sp end).
Proof. exact upsert_life. Qed.

(** ... so on a history with non-decreasing clock readings the expiry never moves earlier through Upsert,
    and is never earlier than what the Upsert asked for *)
Theorem C18_upsert_monotone : forall (d : Z) (pre : list op) (now : Z) (k : bytes) (sp t0 sp0 : Z), k <> [] ->
  clock_mono (pre ++ [OUpsert now k sp]) ->
  life_of d k pre = Some (t0, sp0) ->
  life_of d k (pre ++ [OUpsert now k sp]) = Some (now, Z.max sp0 sp) /\
  t0 + sp0 <= now + Z.max sp0 sp /\ now + sp <= now + Z.max sp0 sp.
Proof. exact upsert_monotone. Qed.

(** HasOrAdd does not refresh a key that is there, and adds an absent one with the default span *)
Theorem C18_hasoradd_no_refresh : forall (d : Z) (pre : list op) (now : Z) (k : bytes) (v : value), k <> [] ->
  life_of d k (pre ++ [OHasOrAdd now k v]) =
  match life_of d k pre with Some l => Some l | None => Some (now, d) end.
Proof. exact hasoradd_life. Qed.

Theorem C18_hasoradd_answer : forall (d : Z) (pre : list op) (now : Z) (k : bytes) (v : value), k <> [] ->
  snd (step (run d pre) (OHasOrAdd now k v)) =
  match life_of d k pre with Some _ => RHasOrAdd true false | None => RHasOrAdd false true end.
Proof. exact hasoradd_out. Qed.

(** the cacher returns the value of the latest Put for as long as the key is owed its (default) span *)
Theorem C18_cacher_value_retained : forall (d : Z) (pre : list op) (now : Z) (k : bytes) (v : value) (post : list op),
  k <> [] ->
  Forall (fun o => rewrites k o = false) post ->
  Forall (fun o => op_now o <= now + d) post ->
  cacher_Get (run d (pre ++ OPut now k v :: post)) k = (v, true).
Proof. exact cacher_put_value. Qed.

(** FRONT-ENDS.  On histories made of the operations a front-end offers, the front-end is the core
    automaton, so everything above holds for TimeCache, peerTimeCache and timeCacher *)
Theorem C18_frontend_is_core : forall (kd : kind) (d : Z) (ops : list op),
  Forall (fun o => allowed kd o = true) ops -> krun kd d ops = run d ops.
Proof. exact krun_run. Qed.

Theorem C18_frontend_retained : forall (kd : kind) (d : Z) (pre post : list op) (nowq : Z) (q : query) (k : bytes) (t sp : Z),
  Forall (fun o => allowed kd o = true) (pre ++ post) -> allowed kd (OQuery nowq q) = true ->
  clock_mono (pre ++ post ++ [OQuery nowq q]) ->
  life_of d k pre = Some (t, sp) ->
  Forall (fun o => rewrites k o = false) post ->
  nowq <= t + sp ->
  reports_present k q (snd (kstep kd (krun kd d (pre ++ post)) (OQuery nowq q))).
Proof. exact frontend_retained. Qed.

Theorem C18_frontend_dropped : forall (kd : kind) (d : Z) (pre post : list op) (nows nowq : Z) (q : query) (k : bytes) (t sp : Z),
  Forall (fun o => allowed kd o = true) (pre ++ post) -> allowed kd (OSweep nows) = true ->
  allowed kd (OQuery nowq q) = true ->
  life_of d k pre = Some (t, sp) ->
  Forall (fun o => touches k o = false) post ->
  nows > t + sp ->
  reports_absent k q (snd (kstep kd (krun kd d (pre ++ post ++ [OSweep nows])) (OQuery nowq q))).
Proof. exact frontend_dropped. Qed.

(** peerTimeCache (Upsert / Sweep / Has) *)
Theorem C18_peer_retained : forall (d : Z) (pre post : list op) (nowq : Z) (k : bytes) (t sp : Z),
  Forall (fun o => allowed KPeer o = true) (pre ++ post) ->
  clock_mono (pre ++ post ++ [OQuery nowq (QHas k)]) ->
  life_of d k pre = Some (t, sp) ->
  Forall (fun o => rewrites k o = false) post ->
  nowq <= t + sp ->
  peer_Has (krun KPeer d (pre ++ post)) k = true.
Proof. exact peer_retained. Qed.

Theorem C18_peer_dropped : forall (d : Z) (pre post : list op) (nows : Z) (k : bytes) (t sp : Z),
  Forall (fun o => allowed KPeer o = true) (pre ++ post) ->
  life_of d k pre = Some (t, sp) ->
  Forall (fun o => touches k o = false) post ->
  nows > t + sp ->
  peer_Has (krun KPeer d (pre ++ post ++ [OSweep nows])) k = false.
Proof. exact peer_dropped. Qed.

(** timeCacher: one round of its goroutine at a reading beyond the span removes the entry without
    anybody asking.  PARTIAL: that the goroutine does run such a round within CacheExpiry of real
    time is outside the model (validated by the real-time runs of the harness). *)
Theorem C18_cacher_self_sweep_partial : forall (d : Z) (pre post : list op) (nows : Z) (k : bytes) (t sp : Z),
  Forall (fun o => allowed KCacher o = true) (pre ++ post) ->
  life_of d k pre = Some (t, sp) ->
  Forall (fun o => touches k o = false) post ->
  nows > t + sp ->
  let c := fst (kstep KCacher (krun KCacher d (pre ++ post)) (OSweep nows)) in
  cacher_Has c k = false /\ cacher_Get c k = (None, false) /\ ~ In k (cacher_Keys c).
Proof. exact cacher_self_sweep. Qed.

(** non-vacuity: a concrete history (units: minutes).  "a" is added with span 90, upserted with the smaller
    span 30 at minute 10 (span stays 90, countdown restarts), "b" is added with the default span 30.
    Sweeps at 40 and 100 keep "a" (100 <= 10 + 90) while the one at 40 drops "b" (40 > 0 + 30); a sweep at 101 drops "a". *)
Definition ka : bytes := [97%N].
Definition kb : bytes := [98%N].
Definition ex_pre : list op := [OAddWithSpan 0 ka 90; OAdd 0 kb; OUpsert 10 ka 30].
Definition ex_post : list op := [OSweep 40; OQuery 50 (QHas kb); OHasOrAdd 60 ka None; OSweep 100].

Example C18_nonvacuous :
  clock_mono (ex_pre ++ ex_post ++ [OQuery 100 (QHas ka)]) /\
  life_of 30 ka ex_pre = Some (10, 90) /\
  forallb (fun o => negb (rewrites ka o)) ex_post = true /\
  has (run 30 (ex_pre ++ ex_post)) ka = true /\
  has (run 30 (ex_pre ++ ex_post)) kb = false /\
  has (run 30 (ex_pre ++ ex_post ++ [OSweep 101])) ka = false /\
  life_of 30 ka (ex_pre ++ [OAdd 20 ka]) = Some (20, 30).
Proof. vm_compute. repeat split; try reflexivity; discriminate. Qed.

Example C18_nonvacuous_frontends :
  forallb (allowed KPeer) [OUpsert 0 ka 90; OSweep 50; OQuery 60 (QHas ka)] = true /\
  peer_Has (krun KPeer 30 [OUpsert 0 ka 90; OSweep 50]) ka = true /\
  peer_Has (krun KPeer 30 [OUpsert 0 ka 90; OSweep 50; OSweep 91]) ka = false /\
  forallb (allowed KCacher) [OPut 0 ka (Some [1%N]); OHasOrAdd 10 ka None; OSweep 30] = true /\
  cacher_Get (krun KCacher 30 [OPut 0 ka (Some [1%N]); OHasOrAdd 10 ka None; OSweep 30]) ka = (Some [1%N], true) /\
  cacher_Get (krun KCacher 30 [OPut 0 ka (Some [1%N]); OHasOrAdd 10 ka None; OSweep 31]) ka = (None, false).
Proof. vm_compute. repeat split; reflexivity. Qed.

Print Assumptions C18_bookkeeping.
Print Assumptions C18_retained.
Print Assumptions C18_retained_after_add.
Print Assumptions C18_retained_after_upsert.
Print Assumptions C18_retained_life.
Print Assumptions C18_dropped.
Print Assumptions C18_dropped_after_add.
Print Assumptions C18_dropped_after_upsert.
Print Assumptions C18_stays_out.
Print Assumptions C18_sweep_exact.
Print Assumptions C18_sweep_clock_readings.
Print Assumptions C18_add_replaces.
Print Assumptions C18_upsert_max.
Print Assumptions C18_upsert_monotone.
Print Assumptions C18_hasoradd_no_refresh.
Print Assumptions C18_hasoradd_answer.
Print Assumptions C18_cacher_value_retained.
Print Assumptions C18_frontend_is_core.
Print Assumptions C18_frontend_retained.
Print Assumptions C18_frontend_dropped.
Print Assumptions C18_peer_retained.
Print Assumptions C18_peer_dropped.
Print Assumptions C18_cacher_self_sweep_partial.
