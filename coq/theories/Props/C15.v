(** C15 — LRU and size-bounded LRU caches refine the reference LRU, flags and handlers too.
    Only statements, each closed by [exact] of a lemma proved in Lru/*_proofs.v.

    Everywhere: [sized = false] is lrucache.NewCache(cap) (hashicorp LRU behind simpleLRUCacheAdapter),
    [sized = true] is lrucache.NewCacheWithSizeInBytes(cap, mb) (capacityLRU); [init_cache] is [Some]
    exactly for cap >= 1 (and mb >= 1); [ops] is an ARBITRARY history of Put/HasOrAdd/Get/Peek/Has/
    Remove/Clear/RegisterHandler/UnRegisterHandler with arbitrary keys, values and sizes (negative
    included); [run c0 ops] is the state the model reaches after it. *)
From Coq Require Import List ZArith Bool.
From Verif Require Import Base.BStr Lru.LruTypes Lru.LruSpec Lru.LruSpec_proofs
  Lru.CapacityLru Lru.SimpleLru Lru.LruCache Lru.LruCache_proofs.
Import ListNotations.
Open Scope Z_scope.

(** (a) invariants after every history: keys unique, Len <= capacity; sized variant: the byte counter
    is exactly the sum of the resident sizes, sizes are non-negative, bytes <= byte capacity or a single
    resident, and the eviction loop always terminated (no out-of-fuel) *)
Theorem C15_invariant : forall sized cap mb c0 ops, init_cache sized cap mb = Some c0 ->
  let c := run c0 ops in
  NoDup (cache_keys c) /\ 0 <= b_Len (be c) <= cap /\
  match be c with
  | BSimple s => s_size s = cap
  | BCap cc =>
      maxSize cc = cap /\ maxBytes cc = mb /\ stuck cc = false /\
      curBytes cc = sum_sizes (entries cc) /\
      Forall (fun e => 0 <= e_size e) (entries cc) /\
      (curBytes cc <= mb \/ Len cc <= 1)
  end.
Proof. exact invariant. Qed.

(** (c) refinement: over every history the return values of all operations equal the reference LRU's,
    Keys() is the reference's recency order (least recently used first), Len/Peek/Has agree *)
Theorem C15_refines_lru : forall sized cap mb c0 ops, init_cache sized cap mb = Some c0 ->
  let P := spec_params sized cap mb in
  let c := run c0 ops in
  outs c0 ops = sp_outs P [] ops /\
  cache_keys c = sp_keys (sp_run P [] ops) /\
  b_Len (be c) = Z.of_nat (length (sp_run P [] ops)) /\
  (forall k, b_Peek (be c) k = option_map e_val (sp_find k (sp_run P [] ops))) /\
  (forall k, b_Contains (be c) k = sp_has k (sp_run P [] ops)).
Proof. exact refines_lru. Qed.

(** (b) SizeInBytesContained (sized variant) = sum of the resident sizes of the reference LRU
    (as a uint64; the sum is non-negative) *)
Theorem C15_bytes : forall cap mb c0 ops, init_cache true cap mb = Some c0 ->
  let P := spec_params true cap mb in
  0 <= sum_sizes (sp_run P [] ops) /\
  b_SizeInBytesContained (be (run c0 ops)) = sum_sizes (sp_run P [] ops) mod 18446744073709551616.
Proof. exact bytes_exact. Qed.

(** (b) Put returns true iff some entry resident before the call is not resident after it *)
Theorem C15_flags_put : forall sized cap mb c0 ops, init_cache sized cap mb = Some c0 ->
  forall k v sz c' ev inv, step (run c0 ops) (OpPut k v sz) = (c', RPut ev, inv) ->
  (ev = true <-> exists k', In k' (cache_keys (run c0 ops)) /\ ~ In k' (cache_keys c')).
Proof. exact put_flag. Qed.

(** (b) HasOrAdd: has iff the key was resident; added iff it was not and now is; when nothing was
    added the cache is unchanged *)
Theorem C15_flags_hasoradd : forall sized cap mb c0 ops, init_cache sized cap mb = Some c0 ->
  forall k v sz c' has added inv, step (run c0 ops) (OpHasOrAdd k v sz) = (c', RHasOrAdd has added, inv) ->
  (has = true <-> In k (cache_keys (run c0 ops))) /\
  (added = true <-> ~ In k (cache_keys (run c0 ops)) /\ In k (cache_keys c')) /\
  (added = false -> cache_keys c' = cache_keys (run c0 ops) /\
                    forall k', b_Peek (be c') k' = b_Peek (be (run c0 ops)) k').
Proof. exact hasoradd_flags. Qed.

(** (b) the most recently written entry always stays, and only least recently used entries leave:
    after a Put that is not rejected (negative size on the sized variant), Keys() is a most-recent
    part [q] of the previous Keys() (without k) followed by k; the evicted part [p] is the oldest one;
    the flag is true iff [p] is non-empty; the key is served with the written value *)
Theorem C15_mru_stays : forall sized cap mb c0 ops, init_cache sized cap mb = Some c0 ->
  forall k v sz c' ev inv, rejected (spec_params sized cap mb) sz = false ->
  step (run c0 ops) (OpPut k v sz) = (c', RPut ev, inv) ->
  exists p q, filter (fun x => negb (beqb x k)) (cache_keys (run c0 ops)) = p ++ q /\
              cache_keys c' = q ++ [k] /\ (ev = true <-> p <> []) /\ b_Peek (be c') k = Some v.
Proof. exact write_shape. Qed.

Theorem C15_mru_stays_hasoradd : forall sized cap mb c0 ops, init_cache sized cap mb = Some c0 ->
  forall k v sz c' inv, step (run c0 ops) (OpHasOrAdd k v sz) = (c', RHasOrAdd false true, inv) ->
  exists p q, cache_keys (run c0 ops) = p ++ q /\ cache_keys c' = q ++ [k] /\ b_Peek (be c') k = Some v.
Proof. exact hasoradd_inserted. Qed.

(** (d) handlers: the registered set after a history is what the history registered (last
    (un)registration of an id wins, nil funcs ignored), without duplicates ... *)
Theorem C15_handlers_registered : forall sized cap mb c0 ops, init_cache sized cap mb = Some c0 ->
  NoDup (handlers (run c0 ops)) /\ forall id, In id (handlers (run c0 ops)) <-> registered ops id = true.
Proof. exact handlers_registered. Qed.

(** ... and Put and an inserting HasOrAdd start exactly one invocation per registered handler with the
    written key and value; every other operation (HasOrAdd that adds nothing included) starts none.
    NOTE: a Put whose negative size is rejected by the sized variant ALSO starts the handlers
    (lruCache.Put calls callAddedDataHandlers unconditionally); C15 constrains insertions only. *)
Theorem C15_handlers : forall c0 ops o c' r inv, step (run c0 ops) o = (c', r, inv) ->
  match o, r with
  | OpPut k v _, _ => inv = inv_for (handlers (run c0 ops)) k v
  | OpHasOrAdd k v _, RHasOrAdd _ true => inv = inv_for (handlers (run c0 ops)) k v
  | _, _ => inv = []
  end.
Proof. exact handler_invocations. Qed.

(** non-vacuity: a sized cache (2 items, 100 bytes); a, b of 40 bytes; the overwrite of b with 90 bytes
    evicts a (by bytes, through update/adjustSize + evictIfNeeded) and Put says so; a negative size is
    rejected by HasOrAdd (nothing added); two handlers registered, one unregistered *)
Definition ka : bytes := [97%N]. Definition kb : bytes := [98%N]. Definition kc : bytes := [99%N].
Definition v1 : bytes := [1%N]. Definition v2 : bytes := [2%N].
Definition h1 : bytes := [104%N; 49%N]. Definition h2 : bytes := [104%N; 50%N].
Definition ex_ops : list op :=
  [OpRegister h1 false; OpRegister h2 false; OpUnRegister h1;
   OpPut ka v1 40; OpPut kb v1 40; OpGet ka; OpPut kb v2 90; OpHasOrAdd kc v1 (-1); OpHasOrAdd kc v1 5].

Example C15_nonvacuous :
  match init_cache true 2 100 with
  | Some c0 =>
      outs c0 ex_ops = [RNone; RNone; RNone; RPut false; RPut false; RGet (Some v1); RPut true;
                        RHasOrAdd false false; RHasOrAdd false true] /\
      cache_keys (run c0 ex_ops) = [kb; kc] /\
      b_SizeInBytesContained (be (run c0 ex_ops)) = 95 /\
      handlers (run c0 ex_ops) = [h2] /\
      snd (step (run c0 ex_ops) (OpPut ka v2 1)) = [(h2, ka, v2)]
  | None => False
  end.
Proof. vm_compute. repeat split; reflexivity. Qed.

Print Assumptions C15_invariant.
Print Assumptions C15_refines_lru.
Print Assumptions C15_bytes.
Print Assumptions C15_flags_put.
Print Assumptions C15_flags_hasoradd.
Print Assumptions C15_mru_stays.
Print Assumptions C15_mru_stays_hasoradd.
Print Assumptions C15_handlers_registered.
Print Assumptions C15_handlers.
