(** C10 -- a crash loses at most the unflushed batch; flushed batches survive whole.   (claimed PARTIAL)
    Only statements, each closed by [exact] of a lemma of Persist/Crash_proofs.v.

    PROVED here, on the log/sync/crash model of Persist/Crash.v: the disk is a log of journal records (one per
    db.Write of a non-empty batch), each with a synced flag; a crash ([crash_ok]) keeps every synced record plus
    an arbitrary prefix (in time) of the unsynced tail, whole records only; the flush logic of DB and SerialDB
    (size-triggered flush, Tick, Close+reopen) is run as a micro-step machine whose EVERY intermediate state
    ([crash_points]: between two operations, batch updated, counter incremented, write started, write completed,
    batch reset) is a crash point.  `Sync: true` (leveldb.go putBatch, serialActions.go doPutRequest) is the
    model parameter [c_sync].

    VALIDATED, not proved (harness/crash: crash images of a recording storage.Storage reopened with the
    unmodified leveldb.NewDB / NewSerialDB): real fsync semantics, goleveldb's journal format, CRC handling of a
    torn record, its recovery / table / manifest code, and the real-time bound of the timer (the timer is the
    event Tick in the model). *)
From Coq Require Import List NArith ZArith Bool.
From Verif Require Import Base.Generic Base.BStr Persist.Batch Persist.MapSpec Persist.LevelDb Persist.SerialDb Persist.MemDb Persist.ShardId
  Persist.ShardedDb Persist.PersistSpec Persist.PersistComp Persist.CrashComp Persist.CrashComp_proofs Persist.Crash Persist.Crash_proofs.
Import ListNotations.
Open Scope Z_scope.

(** vocabulary (Persist/Crash.v):
    [flush_pos max 0 0 ops]  positions of the flushes of a history by the property text (MaxBatchSize writes
                             accumulated / timer / Close);  [nflush max ops] their number;
    [boundary max m0 ops j]  the map after exactly j flushes = [spec_run2] of the PREFIX of [ops] ending at
                             the j-th flush (so: batches applied in order, none partially);
    [c_started], [c_completed]  number of putBatch -> db.Write calls entered / returned. *)

(** every history of Put/Remove/Get/Has/Tick/Close+reopen, every MaxBatchSize (any integer), both persisters,
    every crash point, every surviving tail: the recovered map is the map after exactly j flushes, for some j
    between the number of completed and the number of started flushes *)
Theorem C10_flush_boundary : forall (kind : pkind) (max : Z) (l0 : ldisk),
  all_synced l0 ->
  forall (ops : list op2) (s : cst) (l' : ldisk),
  In s (crash_points (c_init kind true max l0) ops) ->
  crash_ok (c_log s) l' ->
  exists j, (c_completed s <= j <= c_started s)%nat /\ (c_started s <= nflush max ops)%nat
            /\ forall k, dget k (recover l') = boundary max (disk_map (recover l0)) ops j k.
Proof. exact flush_boundary. Qed.

(** whole batches, in order, for ANY write option (this half does not depend on Sync) *)
Theorem C10_atomic_in_order : forall (kind : pkind) (max : Z) (l0 : ldisk),
  all_synced l0 ->
  forall (sync : bool) (ops : list op2) (s : cst) (l' : ldisk),
  In s (crash_points (c_init kind sync max l0) ops) ->
  crash_ok (c_log s) l' ->
  exists j, (j <= c_started s)%nat /\ (c_started s <= nflush max ops)%nat
            /\ forall k, dget k (recover l') = boundary max (disk_map (recover l0)) ops j k.
Proof. exact atomic_in_order. Qed.

(** with Sync: true every completed flush survives even if ALL unsynced data is lost *)
Theorem C10_synced_survive : forall (kind : pkind) (max : Z) (l0 : ldisk),
  all_synced l0 ->
  forall (ops : list op2) (s : cst),
  In s (crash_points (c_init kind true max l0) ops) ->
  exists j, (c_completed s <= j <= c_started s)%nat
            /\ forall k, dget k (recover (lose_all_unsynced (c_log s))) = boundary max (disk_map (recover l0)) ops j k.
Proof. exact synced_survive. Qed.

(** ... and the statement is sensitive to the option: with Sync: false a completed flush is lost
    (DB, MaxBatchSize 1, one Put, crash after the Put returned, all unsynced data lost) *)
Theorem C10_synced_survive_nosync_refuted :
  exists (kind : pkind) (max : Z) (ops : list op2) (s : cst) (k : key),
    In s (crash_points (c_init kind false max []) ops) /\ c_completed s = 1%nat
    /\ forall j, (c_completed s <= j <= c_started s)%nat ->
       dget k (recover (lose_all_unsynced (c_log s))) <> boundary max (disk_map (recover [])) ops j k.
Proof.
  exists KDb, 1, [O2 (OPut [97%N] (Some [1%N]))], (c_run (c_init KDb false 1 []) [O2 (OPut [97%N] (Some [1%N]))]), [97%N].
  split; [vm_compute; tauto|]. split; [reflexivity|].
  intros j Hj. assert (j = 1%nat) by (vm_compute in Hj; destruct Hj; apply Nat.le_antisymm; assumption).
  subst j. vm_compute. discriminate.
Qed.

(** between two operations no flush is in flight: started = completed = the number of flushes of the history
    so far, the log recovers to the newest boundary, and with Sync: true a crash changes nothing *)
Theorem C10_between_operations : forall (kind : pkind) (max : Z) (l0 : ldisk) (sync : bool) (ops : list op2),
  all_synced l0 ->
  let s := c_run (c_init kind sync max l0) ops in
  c_started s = nflush max ops /\ c_completed s = nflush max ops
  /\ (forall k, dget k (recover (c_log s)) = boundary max (disk_map (recover l0)) ops (nflush max ops) k)
  /\ (sync = true -> forall l', crash_ok (c_log s) l' -> l' = c_log s).
Proof. intros kind max l0 sync ops H. exact (boundary_state kind max l0 H sync ops). Qed.

(** inside operation o (after the history ops1) the counters are bracketed by the flush counts of the
    property text, and one operation starts at most one flush *)
Theorem C10_counters : forall (kind : pkind) (max : Z) (l0 : ldisk) (sync : bool) (ops1 : list op2) (o : op2) (s : cst),
  all_synced l0 ->
  In s (op_trace (c_run (c_init kind sync max l0) ops1) o) ->
  (nflush max ops1 <= c_completed s <= c_started s)%nat /\ (c_started s <= nflush max (ops1 ++ [o]))%nat
  /\ (nflush max (ops1 ++ [o]) <= S (nflush max ops1))%nat.
Proof. intros kind max l0 sync ops1 o s H. exact (counters_inside_op kind max l0 H sync ops1 o s). Qed.

(** exposure: once an acknowledged write o has been followed by MaxBatchSize - 1 further writes, or by a Tick
    (or a Close), every later crash -- at any crash point of any continuation [rest], with any surviving
    tail -- recovers the map after a prefix of the history that CONTAINS o.
    (No guard on MaxBatchSize is needed: for MaxBatchSize <= 1 every write is flushed at once.) *)
Theorem C10_exposure : forall (kind : pkind) (max : Z) (l0 : ldisk) (ops1 : list op2) (o : op2) (ops2 rest : list op2)
                              (s : cst) (l' : ldisk),
  all_synced l0 -> is_write o = true ->
  (existsb is_flush_op ops2 = true \/ max - 1 <= writes ops2) ->
  In s (crash_points (c_run (c_init kind true max l0) (ops1 ++ o :: ops2)) rest) ->
  crash_ok (c_log s) l' ->
  exists n, (length ops1 < n <= length ((ops1 ++ o :: ops2) ++ rest))%nat
            /\ forall k, dget k (recover l') = state_after (disk_map (recover l0)) ((ops1 ++ o :: ops2) ++ rest) n k.
Proof. exact exposure. Qed.

(** the crash relation is exactly "lose the n newest records, never a synced one" (what CrashComp.v enumerates) *)
Theorem C10_crash_is_drop : forall (l l' : ldisk), crash_ok l l' <-> exists n, l' = crash_drop n l.
Proof. intros l l'. split; [apply crash_ok_drop|intros (n & ->); apply crash_drop_ok]. Qed.

(** without a crash the log model IS the persister model of C08/C09 (the one the `persist` component runs
    against /repo): recovering the whole log gives that model's LevelDB content, operation by operation *)
Theorem C10_refines_persist_models : forall (s : cst) (o : op2), to_pers (c_step s o) = fst (p_step2 (to_pers s) o).
Proof. exact refines_persist. Qed.

(** non-vacuity: SerialDB, MaxBatchSize 2, Put a; Put b; Remove a; Tick; Put a nil; Close+reopen.
    Flushes at positions 2, 4, 6; crash points with a flush in flight (started = completed + 1) exist, there the
    two tail choices recover different boundaries; listed per crash point:
    (started, completed, number of keys recovered with the whole tail, ... with all unsynced data lost) *)
Example C10_nonvacuous :
  let ops := [O2 (OPut [97%N] (Some [1%N])); O2 (OPut [98%N] (Some [2%N])); O2 (ORemove [97%N]); O2 OTick;
              O2 (OPut [97%N] None); OCycle] in
  flush_pos 2 0 0 ops = [2; 4; 6]%nat
  /\ map (fun s => (c_started s, c_completed s, length (recover (c_log s)), length (recover (lose_all_unsynced (c_log s)))))
         (crash_points (c_init KSerial true 2 []) ops)
     = [(0,0,0,0); (0,0,0,0); (0,0,0,0); (0,0,0,0); (0,0,0,0); (1,0,2,0); (1,1,2,2); (1,1,2,2); (1,1,2,2); (1,1,2,2);
        (2,1,1,2); (2,2,1,1); (2,2,1,1); (2,2,1,1); (2,2,1,1); (3,2,2,1); (3,3,2,2); (3,3,2,2); (3,3,2,2)]%nat.
Proof. vm_compute. split; reflexivity. Qed.

(** The tie for TORN crash images.  The harness reopens images whose unsynced tail was cut at a random byte and hands the recovered maps
    to the model (op 9 of the crash component).  After any operation the driver's set of allowed maps is exactly
    { recover (crash_drop n log) | crash point of that operation, n <= |log| } -- the states C10_crash_is_drop and the theorems above
    speak about ... *)
Theorem C10_judge_allowed_set : forall st code args, (1 <= code <= 6)%N ->
  exists o, let tr := op_trace (cr_s st) o in
    cr_s (fst (crash_step st code args)) = last tr (cr_s st) /\
    forall m, In m (cr_allowed (fst (crash_step st code args))) <-> allowed_by (cr_s st :: tr) m.
Proof. exact allowed_after_op. Qed.

(** ... and its verdict is [true] exactly when every recovered map it was given is in that set *)
Theorem C10_judge_verdict : forall st args v, In (1%N, v) (snd (crash_step st 9%N args)) ->
  v = g_bool true <->
  forall m, In m (map (fun m => psort (unpair (arg_L m))) (arg_L (nth_arg args 0))) -> In m (cr_allowed st).
Proof. exact judge_verdict. Qed.

Print Assumptions C10_flush_boundary.
Print Assumptions C10_atomic_in_order.
Print Assumptions C10_synced_survive.
Print Assumptions C10_synced_survive_nosync_refuted.
Print Assumptions C10_between_operations.
Print Assumptions C10_counters.
Print Assumptions C10_exposure.
Print Assumptions C10_crash_is_drop.
Print Assumptions C10_refines_persist_models.
Print Assumptions C10_judge_allowed_set.
Print Assumptions C10_judge_verdict.
