(** C13 — the immunity cache is a bounded FIFO map with exact accounting.
    Only statements; proofs are in Immunity/*_proofs.v.  Vocabulary as in Props/C12.v.
    All theorems hold for EVERY configuration the constructor accepts (the property's guard
    ">= 1 item and >= 1 evictable item per chunk" is not even needed: with a chunk capacity or a
    batch of 0 every add to that chunk is refused, which keeps all the statements true). *)
From Coq Require Import List NArith ZArith Bool.
From Verif Require Import Base.BStr Immunity.Chunk Immunity.Cache Immunity.FifoSpec
  Immunity.Chunk_proofs Immunity.Cache_proofs Immunity.Immunity_proofs Immunity.Fifo_proofs.
Import ListNotations.

(** Count <= NumChunks * (MaxNumItems / NumChunks) <= MaxNumItems *)
Theorem C13_bound : forall cfg ops, cfg_valid cfg = true -> Forall op_ok ops ->
  (cache_count (run cfg ops) <= cf_numChunks cfg * (cf_maxItems cfg / cf_numChunks cfg))%N /\
  (cf_numChunks cfg * (cf_maxItems cfg / cf_numChunks cfg) <= cf_maxItems cfg)%N.
Proof. exact h_bound. Qed.

(** Count (= Len) = |Keys|; Keys = keys of ForEachItem; no key twice; Has k <-> k in Keys <-> Get k finds *)
Theorem C13_views : forall cfg ops, cfg_valid cfg = true -> Forall op_ok ops ->
  cache_count (run cfg ops) = N.of_nat (length (cache_keys (run cfg ops))) /\
  cache_keys (run cfg ops) = map i_key (cache_items (run cfg ops)) /\
  NoDup (cache_keys (run cfg ops)) /\
  (forall k, cache_has (run cfg ops) k = true <-> In k (cache_keys (run cfg ops))) /\
  (forall k, cache_has (run cfg ops) k = true <-> exists q, cache_get (run cfg ops) k = Some q).
Proof. exact h_views. Qed.

(** NumBytes (the separately maintained counter, with its clamp) = sum of the sizes of the residents,
    and each resident's size/payload is the one given by an add of this history *)
Theorem C13_bytes : forall cfg ops, cfg_valid cfg = true -> Forall op_ok ops ->
  cache_num_bytes (run cfg ops) = sum_sizes (cache_items (run cfg ops)) /\
  (forall it, In it (cache_items (run cfg ops)) ->
     In (OAdd (i_key it) (i_payload it) (i_size it)) ops /\ (0 <= i_size it)%Z).
Proof. exact h_bytes. Qed.

(** CountImmune = number of accepted immune keys not since removed: [imm_spec] computes that set
    from the history alone (accepted = the capacity gate |set| + |keys| <= MaxNumItems let the call through) *)
Theorem C13_immune_count : forall cfg ops, cfg_valid cfg = true -> Forall op_ok ops ->
  cache_count_immune (run cfg ops) = N.of_nat (length (imm_spec (cf_maxItems cfg) ops)) /\
  (forall x, In x (cache_immune_keys (run cfg ops)) <-> In x (imm_spec (cf_maxItems cfg) ops)).
Proof. exact immune_count. Qed.

(** has = true exactly when the key was present; added = true exactly when it became present
    (and then Get returns the payload just given) *)
Theorem C13_flags : forall cfg ops, cfg_valid cfg = true -> Forall op_ok ops -> forall k p sz,
  add_has (run cfg ops) k p sz = cache_has (run cfg ops) k /\
  add_added (run cfg ops) k p sz = negb (cache_has (run cfg ops) k) && cache_has (step (run cfg ops) (OAdd k p sz)) k /\
  (add_added (run cfg ops) k p sz = true -> cache_get (step (run cfg ops) (OAdd k p sz)) k = Some p).
Proof. exact h_flags. Qed.

(** NumChunks = 1: the cache IS the FIFO queue of FifoSpec.v — same resident sequence (key, payload,
    size, in order), same immune set, same answers of Get / HasOrAdd / Remove — after every history *)
Theorem C13_fifo_one_chunk : forall cfg ops, cfg_valid cfg = true -> cf_numChunks cfg = 1%N -> Forall op_ok ops ->
  let s := run cfg ops in
  let f := fifo_run (fifo_cfg_of cfg) (cf_maxItems cfg) ops in
  map strip (cache_items s) = f_q f /\
  cache_immune_keys s = f_imm f /\
  (forall k, cache_get s k = fifo_get f k) /\
  (forall k p sz, (add_has s k p sz, add_added s k p sz) =
                  (snd (fst (fifo_add (fifo_cfg_of cfg) f k p sz)), snd (fifo_add (fifo_cfg_of cfg) f k p sz))) /\
  (forall k, snd (cache_remove s k) = snd (fifo_remove f k)).
Proof. exact h_fifo. Qed.

(** Remove k: reports whether k was present, k is gone, its immunity (current or future) is gone,
    every other key keeps payload and immunity *)
Theorem C13_remove : forall cfg ops, cfg_valid cfg = true -> Forall op_ok ops -> forall k,
  snd (cache_remove (run cfg ops) k) = cache_has (run cfg ops) k /\
  cache_get (step (run cfg ops) (ORemove k)) k = None /\
  ~ In k (cache_immune_keys (step (run cfg ops) (ORemove k))) /\
  (forall k', k' <> k ->
     cache_get (step (run cfg ops) (ORemove k)) k' = cache_get (run cfg ops) k' /\
     (In k' (cache_immune_keys (step (run cfg ops) (ORemove k))) <-> In k' (cache_immune_keys (run cfg ops)))).
Proof. exact h_remove. Qed.

(** after Remove k, as long as no ImmunizeKeys names k again, k is not immune and any item stored
    under k later is not flagged (hence evictable, by C12_flag_iff_immune_key / removeOldest) *)
Theorem C13_remove_withdraws : forall cfg ops1 k ops2,
  cfg_valid cfg = true -> Forall op_ok ops1 -> Forall op_ok ops2 -> Forall (no_immunize k) ops2 ->
  let s := run cfg (ops1 ++ ORemove k :: ops2) in
  ~ In k (cache_immune_keys s) /\ (forall it, In it (cache_items s) -> i_key it = k -> i_immune it = false).
Proof. exact remove_withdraws. Qed.

(* ---- non-vacuity, by computation *)
Definition ka : bytes := [97%N].
Definition kb : bytes := [98%N].
Definition kc : bytes := [99%N].
Definition kd : bytes := [100%N].
Definition cfg1 : cache_cfg := mkCfg 1 4 8 2.    (* one chunk, 4 items, 8 bytes, batch 2 *)
Definition cfg2 : cache_cfg := mkCfg 2 4 100 2.  (* two chunks of 2 items, batch 1 each *)

(** byte pressure, batch of 2, one immune key skipped: the queue and the cache agree, a and d remain *)
Example C13_ex_fifo :
  let ops := [OAdd ka [1%N] 3; OAdd kb [2%N] 3; OImmunize [ka]; OAdd kc [3%N] 3; OAdd kd [4%N] 1; OAdd kb [5%N] 1] in
  cf_numChunks cfg1 = 1%N /\
  f_q (fifo_run (fifo_cfg_of cfg1) (cf_maxItems cfg1) ops) = [(ka, [1%N], 3%Z); (kd, [4%N], 1%Z); (kb, [5%N], 1%Z)] /\
  map strip (cache_items (run cfg1 ops)) = [(ka, [1%N], 3%Z); (kd, [4%N], 1%Z); (kb, [5%N], 1%Z)] /\
  cache_num_bytes (run cfg1 ops) = 5%Z /\ cache_count_immune (run cfg1 ops) = 1%N.
Proof. vm_compute. repeat split; reflexivity. Qed.

(** Remove withdraws future immunity: a is immunised, removed, added, and then evicted like anyone else *)
Example C13_ex_withdraw :
  let ops := [OImmunize [ka]; ORemove ka; OAdd ka [1%N] 4; OAdd kb [2%N] 4; OAdd kc [3%N] 1] in
  imm_spec (cf_maxItems cfg1) ops = [] /\ cache_keys (run cfg1 ops) = [kc] /\ cache_count_immune (run cfg1 ops) = 0%N.
Proof. vm_compute. repeat split; reflexivity. Qed.

(** two chunks of 2 items: a, c, e share chunk 0 (a is evicted by e although the cache holds 2 < 4 items);
    the gate of ImmunizeKeys counts duplicates (5 x a refused; b, b accepted and counted once) *)
Example C13_ex_chunks :
  let ops := [OAdd ka [1%N] 1; OAdd kc [3%N] 1; OAdd [101%N] [5%N] 1; OAdd kb [2%N] 1;
              OImmunize [ka; ka; ka; ka; ka]; OImmunize [kb; kb]] in
  cache_count (run cfg2 ops) = 3%N /\ cache_keys (run cfg2 ops) = [kc; [101%N]; kb] /\
  cache_immune_keys (run cfg2 ops) = [kb] /\ imm_spec (cf_maxItems cfg2) ops = [kb].
Proof. vm_compute. repeat split; reflexivity. Qed.

Print Assumptions C13_bound.
Print Assumptions C13_views.
Print Assumptions C13_bytes.
Print Assumptions C13_immune_count.
Print Assumptions C13_flags.
Print Assumptions C13_fifo_one_chunk.
Print Assumptions C13_remove.
Print Assumptions C13_remove_withdraws.
