(** C14b — the eviction gate of the mempool (txcache/eviction.go, doEviction) under concurrent AddTx calls: part of
    "size bounds hold, evictions are serialised" of C14 and of "the excess is gone after the next eviction" of C06.
    Statements only; model in Conc/EvictionGate.v (one small step per flag / mutex / capacity access, any number of
    threads, arbitrary schedule, arbitrary answers of isCapacityExceeded), proofs in Conc/EvictionGate_proofs.v.
    PARTIAL in the sense of C14: the steps are atomic because the flag is an atomic and the mutex a mutex; the
    refinement of this model by the Go code is validated (stress phases txcache-evict / txcache-limits with the
    post-quiescence bound), not proved. *)
From Coq Require Import List Arith Bool.
From Verif Require Import Conc.EvictionGate Conc.EvictionGate_proofs.
Import ListNotations.

(** at every instant of every schedule: at most one thread between Lock and Unlock, the flag is set exactly while one
    thread is between Set and Reset, the mutex is held exactly while one thread is between Lock and Unlock *)
Theorem C14_eviction_gate_exclusion : forall n sched, let s := grun false n sched in
  count holds_mutex (pcs s) <= 1 /\ (flag s = true <-> count flag_owner (pcs s) = 1) /\ (mtx s = true <-> count holds_mutex (pcs s) = 1).
Proof. exact gate_exclusion. Qed.

(** the gate is never left closed: whenever no thread is inside the critical section the flag is clear and the mutex free *)
Theorem C14_eviction_gate_never_left_closed : forall n sched, let s := grun false n sched in
  count holds_mutex (pcs s) = 0 -> flag s = false /\ mtx s = false.
Proof. exact gate_never_left_closed. Qed.

(** in particular once every doEviction call has returned *)
Theorem C14_eviction_gate_open_when_all_returned : forall n sched, gate_all_done (grun false n sched) = true ->
  flag (grun false n sched) = false /\ mtx (grun false n sched) = false.
Proof. exact gate_open_when_all_returned. Qed.

(** the variant with Reset deferred only after the second capacity test (a seeded change, seeded/C06-eviction-flag-left-set)
    violates it ... *)
Theorem C14_eviction_gate_reset_late_refuted : exists n sched, gate_all_done (grun true n sched) = true /\ flag (grun true n sched) = true.
Proof. exact gate_reset_late_refuted. Qed.

(** ... and a gate left closed turns every later caller away at its first test: no eviction ever runs again *)
Theorem C14_closed_gate_disables_eviction : forall v s ie, gate_all_done s = true -> flag s = true -> gstep v s ie = s.
Proof. exact closed_gate_turns_everyone_away. Qed.

(** non-vacuity: three threads, a schedule in which two of them evict one after the other and the third is turned away
    by the flag; all return, two evictions ran, the gate is open *)
Example C14_eviction_gate_runs :
  let sched := [(1, true); (1, true); (0, true); (0, true); (0, true); (0, true); (2, true); (1, true);
                (0, true); (0, true); (0, true); (0, true); (1, true); (1, true); (1, true); (1, true); (1, true); (1, true)] in
  let s := grun false 3 sched in
  gate_all_done s = true /\ evictions s = 2 /\ flag s = false /\ mtx s = false.
Proof. vm_compute. repeat split. Qed.

Print Assumptions C14_eviction_gate_exclusion.
Print Assumptions C14_eviction_gate_never_left_closed.
Print Assumptions C14_eviction_gate_open_when_all_returned.
Print Assumptions C14_eviction_gate_reset_late_refuted.
Print Assumptions C14_closed_gate_disables_eviction.
