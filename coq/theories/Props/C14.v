(** C14 — mempool and caches stay safe and self-consistent under concurrent use.   CLAIMED PARTIAL.

    PROVED here (statements only; proofs in Conc/*_proofs.v): what an interleaving model carries —
      (a) quiescent consistency of the hash index's counters, for EVERY schedule, by invariant;
      (b) the selection guarantees C01/C02 for ANY per-sender snapshots taken at different instants;
      (c) concurrent AddTx calls (no removal, no eviction, limits not hit) commute: all present, sorted;
      (d) "every public operation is one critical section" => every concurrent execution is the
          sequential run of an interleaving => what is proved over ALL sequential histories (C12, C13,
          the sender-list invariants) holds at every instant; instantiated for the immunity cache,
          also with ImmunizeKeys split into its per-chunk sections (the code's real granularity).
    NOT proved, VALIDATED by the race-detector stress harness (harness/stress): absence of data races
    (which is what licenses the atomic-section abstraction), of panics inside Go runtime structures,
    of goroutine deadlocks; preemption; the lock-order graph (Conc/LockOrder.v) covers circular waits
    among mutexes only. *)
From Coq Require Import List NArith ZArith Lia Bool Permutation Sorting.Sorted.
From Verif Require Import Base.BStr Txcache.TxTypes Txcache.SenderList Txcache.Selection Txcache.Pool Txcache.Judge
  Txcache.SenderList_proofs Txcache.Selection_proofs Txcache.Pool_proofs Txcache.Insertion_order_proofs
  Immunity.Chunk Immunity.Cache Immunity.Cache_proofs Immunity.Immunity_proofs
  Conc.Atomic Conc.Atomic_proofs Conc.Snapshot_proofs Conc.Adds_proofs Conc.ImmunityConc Conc.ImmunityConc_proofs.
Import ListNotations.

(** ------------------------------------------------------------------ (a) quiescent counters *)

(** txByHashMap: the map step of addTx / removeTx (under the chunk lock) and each counter update are
    SEPARATE atomic steps of the calling thread.  Threads = arbitrary lists of addTx / removeTx calls
    (any keys, any sizes), schedule = arbitrary list of thread ids (scheduling a finished thread is a
    no-op), any consistent initial state.  For EVERY schedule: once all threads have finished,
    counter = |map| and numBytes = sum of the sizes of the map's values. *)
Theorem C14_quiescent_counters :
  forall (sched : list nat) (g0 : hstate) (calls : list (list call)),
    consistent g0 -> no_clear calls ->
    quiescent (snd (run_counters sched g0 calls)) ->
    h_cnt (fst (run_counters sched g0 calls)) = Z.of_nat (length (h_map (fst (run_counters sched g0 calls)))) /\
    h_bytes (fst (run_counters sched g0 calls)) = sum_sz (h_map (fst (run_counters sched g0 calls))).
Proof. exact quiescent_counters. Qed.

(** the invariant behind it, at EVERY instant of EVERY schedule:
    counter + increments owed - decrements owed = |map|, and the same for the bytes *)
Theorem C14_counters_every_instant :
  forall sched g0 calls, consistent g0 -> no_clear calls ->
    let g := fst (run_counters sched g0 calls) in let ths := snd (run_counters sched g0 calls) in
    (h_cnt g + owed_cnt ths = Z.of_nat (length (h_map g)))%Z /\ (h_bytes g + owed_bytes ths = sum_sz (h_map g))%Z.
Proof. intros sched g0 calls H0 Hnc. exact (proj2 (counters_every_instant sched g0 calls H0 Hnc)). Qed.

(** Clear is excluded for a reason: a removal whose map step precedes a concurrent clear() and whose
    counter updates follow it leaves counter = -1, numBytes = -Size over an empty map *)
Theorem C14_quiescent_counters_with_clear_refuted :
  exists sched g0 calls,
    consistent g0 /\ quiescent (snd (run_counters sched g0 calls)) /\
    h_cnt (fst (run_counters sched g0 calls)) <> Z.of_nat (length (h_map (fst (run_counters sched g0 calls)))).
Proof.
  exists wit_sched, empty_h, wit_calls. destruct clear_breaks_quiescence as (A & B & C & D & _).
  split; [exact A|]. split; [exact B|]. rewrite C, D. discriminate.
Qed.

(** non-vacuity: three threads, 10 calls over colliding keys, a schedule that finishes them all *)
Definition ex_t (h s : N) (sz : Z) : tx := mkTx [h] [s] 0 50000 100 sz 100 None [].
Definition ex_calls : list (list call) :=
  [[CAdd (ex_t 1 65 10); CAdd (ex_t 2 65 20); CRem [1%N]; CAdd (ex_t 1 65 10)];
   [CAdd (ex_t 1 65 10); CRem [2%N]; CAdd (ex_t 3 66 7)];
   [CRem [1%N]; CAdd (ex_t 2 65 20); CRem [3%N]]].
Definition ex_sched : list nat := [0; 1; 2; 1; 0; 0; 2; 2; 1; 0; 1; 2; 0; 1; 2; 0; 1; 2; 0; 1; 2; 0; 1; 2; 0; 1; 2; 0; 0; 0; 1; 2; 7]%nat.
Example C14_quiescent_nonvacuous :
  no_clear ex_calls /\ quiescentb (snd (run_counters ex_sched empty_h ex_calls)) = true /\
  length (h_map (fst (run_counters ex_sched empty_h ex_calls))) = 2%nat /\
  h_cnt (fst (run_counters ex_sched empty_h ex_calls)) = 2%Z /\
  h_bytes (fst (run_counters ex_sched empty_h ex_calls)) = 30%Z.
Proof. split; [repeat constructor; discriminate|]. vm_compute. repeat split; reflexivity. Qed.

(** ------------------------------------------------------------------ (b) selection on any snapshots *)

(** bridge: the list of sender [a] copied under its lock from a pool state whose sender lists satisfy
    the sender-list invariant ([list_ok]: sorted, one sender, uint64 nonces) is a legal bunch *)
Theorem C14_snapshot_is_bunch : forall a sl, list_ok a sl -> bunch_ok (items sl).
Proof. exact list_ok_bunch_ok. Qed.

(** every list reached by ANY sequence of the three per-sender list operations (each one critical
    section of the list's mutex; the eviction's suffix removal included) is a legal bunch *)
Theorem C14_sender_list_every_instant : forall cfg a ops, Forall (lop_ok a) ops -> bunch_ok (items (lrun cfg ops)).
Proof. intros cfg a ops H. eapply snap_ok_bunch_ok. apply lrun_snap_ok. exact H. Qed.

(** snapshots of DISTINCT senders taken from DIFFERENT pool states form legal bunches *)
Theorem C14_snapshots_are_bunches : forall snaps : list (bytes * pool),
  NoDup (map fst snaps) -> (forall a p, In (a, p) snaps -> SL p) -> bunches_ok (pool_snaps snaps).
Proof. exact pool_snaps_bunches_ok. Qed.

(** hence C01 and C02 for a selection working on such snapshots — any session, any budgets, any order
    in which the senders are served, any stopping point (time budget) *)
Theorem C14_selection_any_snapshot :
  forall (snaps : list (bytes * pool)) sess gasRequested maxNum pick fuel,
    NoDup (map fst snaps) -> (forall a p, In (a, p) snaps -> SL p) ->
    let final := loop sess gasRequested maxNum pick fuel (init_st (pool_snaps snaps)) in
    let result := rev (selected final) in
    (forall a, Selection_proofs.run_from (sess_nonce sess a) (map nonce (of_sender a result))) /\
    (forall t, In t result -> In t (concat (pool_snaps snaps))) /\
    (length result <= maxNum)%nat /\
    (sum_gas result = accGas final /\ (accGas final <= gasRequested)%N) /\
    (forall t, In t result -> guarded sess t = false) /\
    (forall pre t post, result = pre ++ t :: post -> (committed pre (feePayer t) + fee t <= sess_balance sess (feePayer t))%Z).
Proof.
  intros snaps sess g m pick fuel Hnd Hall. pose proof (pool_snaps_bunches_ok snaps Hnd Hall) as Hok. cbv zeta.
  split; [intros a; apply env_C01_run; exact Hok|]. split; [apply env_C02_members; exact Hok|].
  split; [apply env_C02_count; exact Hok|]. split; [apply env_C02_gas; exact Hok|].
  split; [apply env_C02_guard; exact Hok|apply env_C02_balance; exact Hok].
Qed.

(** the deterministic selection (what SelectTransactions computes) on such snapshots *)
Theorem C14_select_any_snapshot :
  forall (snaps : list (bytes * pool)) sess gasRequested maxNum,
    NoDup (map fst snaps) -> (forall a p, In (a, p) snaps -> SL p) ->
    (forall a, Selection_proofs.run_from (sess_nonce sess a) (map nonce (of_sender a (fst (select sess (pool_snaps snaps) gasRequested maxNum))))) /\
    (length (fst (select sess (pool_snaps snaps) gasRequested maxNum)) <= maxNum)%nat /\
    sum_gas (fst (select sess (pool_snaps snaps) gasRequested maxNum)) = snd (select sess (pool_snaps snaps) gasRequested maxNum) /\
    (snd (select sess (pool_snaps snaps) gasRequested maxNum) <= gasRequested)%N.
Proof.
  intros snaps sess g m Hnd Hall. pose proof (pool_snaps_bunches_ok snaps Hnd Hall) as Hok.
  rewrite select_is_loop. cbn [fst snd].
  split; [intros a; apply env_C01_run; exact Hok|]. split; [apply env_C02_count; exact Hok|].
  destruct (env_C02_gas sess g m pick_best (S (total_len (pool_snaps snaps))) (pool_snaps snaps) Hok) as (A & B). split; assumption.
Qed.

(** the per-sender count bound (C06 per sender) after any sequence of list operations *)
Theorem C14_sender_count_every_instant : forall cfg ops, (0 <= countPerSenderThreshold cfg)%Z ->
  (Z.of_nat (length (items (lrun cfg ops))) <= countPerSenderThreshold cfg)%Z.
Proof. exact lrun_count. Qed.

(** ------------------------------------------------------------------ (c) concurrent adds commute *)

(** any two orders of the same add calls (duplicates allowed: hash determines content) give the same
    per-sender lists — eviction disabled, limits roomy *)
Theorem C14_adds_commute_lists : forall cfg l l',
  hist_ok (adds l) -> roomy cfg l -> Permutation l l' ->
  forall a, pool_for_sender (run_pool cfg (adds l)) a = pool_for_sender (run_pool cfg (adds l')) a.
Proof. exact adds_commute_lists. Qed.

(** every concurrent execution of add-only threads, under ANY schedule, once all have finished:
    the per-sender lists are those of the sequential run, every added transaction is present in its
    sender's list, every list is sorted and holds nothing else *)
Theorem C14_adds_commute : forall cfg (ths : list (list tx)) sched,
  hist_ok (adds (concat ths)) -> roomy cfg (concat ths) ->
  all_done (conc_rest (pstep cfg) sched empty_pool (map adds ths)) ->
  let p := conc_state (pstep cfg) sched empty_pool (map adds ths) in
  (forall a, pool_for_sender p a = pool_for_sender (run_pool cfg (adds (concat ths))) a) /\
  (forall t, In t (concat ths) -> In t (pool_for_sender p (sender t))) /\
  (forall a, sorted (pool_for_sender p a)) /\
  (forall a x, In x (pool_for_sender p a) -> In x (concat ths) /\ sender x = a).
Proof. exact concurrent_adds_commute. Qed.

(** ------------------------------------------------------------------ (d) atomic sections *)

(** interleaving of atomic steps = some sequential history: for ANY state machine, ANY threads (lists
    of atomic actions), ANY schedule, the state reached is the sequential run of a history that
    (i) respects every thread's program order and (ii) is made of the threads' actions *)
Theorem C14_atomic_sections : forall (S A : Type) (step : S -> A -> S) sched s0 (ths : list (list A)),
  conc_state step sched s0 ths = fold_left step (conc_history step sched s0 ths) s0 /\
  (forall j, proj j (conc_trace step sched s0 ths) ++ nth j (conc_rest step sched s0 ths) [] = nth j ths []) /\
  Permutation (conc_history step sched s0 ths ++ concat (conc_rest step sched s0 ths)) (concat ths).
Proof.
  intros S A step sched s0 ths. split; [apply conc_is_sequential|]. split; [intros j; apply conc_program_order|apply conc_history_perm].
Qed.

(** hence whatever holds after ALL sequential histories holds at EVERY instant of EVERY concurrent
    execution (an instant = the end of a schedule; prefixes of schedules are schedules) *)
Theorem C14_atomic_sections_every_instant :
  forall (S A : Type) (step : S -> A -> S) (Q : A -> Prop) (P : S -> Prop) s0,
    (forall l, Forall Q l -> P (fold_left step l s0)) ->
    forall ths, Forall (Forall Q) ths -> forall sched, P (conc_state step sched s0 ths).
Proof. exact conc_every_instant. Qed.

(** "every instant": the history of a longer schedule extends the history of each of its prefixes *)
Theorem C14_instants_are_prefixes : forall (S A : Type) (step : S -> A -> S) s1 s2 s0 (ths : list (list A)),
  exists l2, conc_history step (s1 ++ s2) s0 ths = conc_history step s1 s0 ths ++ l2.
Proof. exact conc_prefix_state. Qed.

(** immunity cache, coarse view (every operation of Immunity/Cache.v atomic): C13_bound at every instant *)
Theorem C14_bounds_every_instant : forall cfg ths sched,
  cfg_valid cfg = true -> Forall (Forall op_ok) ths ->
  (cache_count (conc_state step sched (new_cache cfg) ths) <= cf_maxItems cfg)%N.
Proof. exact coarse_bound. Qed.

(** ... and C12_survives_present / C12_survives_added_later on the history of the execution *)
Theorem C14_immune_survive : forall cfg ths sched ops1 ks ops3 k q,
  cfg_valid cfg = true -> Forall (Forall op_ok) ths ->
  conc_history step sched (new_cache cfg) ths = ops1 ++ OImmunize ks :: ops3 ->
  accepted (run cfg ops1) ks -> In k ks -> cache_get (run cfg ops1) k = Some q ->
  Forall (no_withdraw k) ops3 ->
  cache_get (conc_state step sched (new_cache cfg) ths) k = Some q.
Proof. exact coarse_survive_present. Qed.

Theorem C14_immune_survive_added_later : forall cfg ths sched ops1 ks ops2 k p sz ops3,
  cfg_valid cfg = true -> Forall (Forall op_ok) ths ->
  conc_history step sched (new_cache cfg) ths = ops1 ++ OImmunize ks :: ops2 ++ OAdd k p sz :: ops3 ->
  accepted (run cfg ops1) ks -> In k ks -> Forall (no_withdraw k) ops2 ->
  add_added (run cfg (ops1 ++ OImmunize ks :: ops2)) k p sz = true ->
  Forall (no_withdraw k) ops3 ->
  cache_get (conc_state step sched (new_cache cfg) ths) k = Some p.
Proof. exact coarse_survive_later. Qed.

(** immunity cache, fine view: ImmunizeKeys is NOT one critical section in the code — a gate read,
    then one section per chunk.  With the per-chunk sections as atomic actions ([FImmGroup], no gate):
    the bound and the invariant at every instant ... *)
Theorem C14_bounds_every_instant_fine : forall cfg ths sched,
  cfg_valid cfg = true -> Forall (Forall fact_ok) ths ->
  (cache_count (conc_state fstep sched (new_cache cfg) ths) <= cf_maxItems cfg)%N /\
  cache_inv (conc_state fstep sched (new_cache cfg) ths).
Proof. exact fine_bound_every_instant. Qed.

(** ... and survival from instant to instant: immune and present with payload q after [s1] => still so
    after [s1 ++ s2], provided what ran in between neither removes k nor clears *)
Theorem C14_immune_survive_fine : forall cfg ths s1 s2 k q between,
  cfg_valid cfg = true -> Forall (Forall fact_ok) ths ->
  conc_history fstep (s1 ++ s2) (new_cache cfg) ths = conc_history fstep s1 (new_cache cfg) ths ++ between ->
  Forall (fno_withdraw k) between ->
  In k (cache_immune_keys (conc_state fstep s1 (new_cache cfg) ths)) ->
  cache_get (conc_state fstep s1 (new_cache cfg) ths) k = Some q ->
  In k (cache_immune_keys (conc_state fstep (s1 ++ s2) (new_cache cfg) ths)) /\
  cache_get (conc_state fstep (s1 ++ s2) (new_cache cfg) ths) k = Some q.
Proof. exact fine_survive_every_instant. Qed.

(** history form of the fine view: the key's chunk section ran, later an add stored p under it *)
Theorem C14_immune_survive_fine_added_later : forall cfg l1 ks l2 k p sz l3,
  cfg_valid cfg = true -> Forall fact_ok l1 -> Forall fact_ok l2 -> Forall fact_ok l3 -> (0 <= sz)%Z -> In k ks ->
  Forall (fno_withdraw k) l2 ->
  add_added (frun cfg (l1 ++ FImmGroup ks :: l2)) k p sz = true ->
  Forall (fno_withdraw k) l3 ->
  cache_get (frun cfg (l1 ++ FImmGroup ks :: l2 ++ FOp (OAdd k p sz) :: l3)) k = Some p.
Proof. exact fine_survive_later. Qed.

(** a limit of the SEQUENTIAL statement C13_immune_count under concurrency (not part of C14's text):
    the capacity gate of ImmunizeKeys is check-then-act, two calls that both pass a stale gate mark
    6 keys on a cache whose MaxNumItems is 4 *)
Theorem C14_stale_gate_exceeds_refuted :
  exists cfg ks1 ks2, cfg_valid cfg = true /\
    immunize_refused (new_cache cfg) ks1 = false /\ immunize_refused (new_cache cfg) ks2 = false /\
    (cf_maxItems cfg < cache_count_immune (frun cfg [FImmGroup ks1; FImmGroup ks2]))%N.
Proof.
  exists gate_cfg, [[1%N]; [2%N]; [3%N]], [[4%N]; [5%N]; [6%N]]. destruct stale_gate_exceeds as (A & B & C & D).
  split; [exact A|]. split; [exact B|]. split; [exact C|]. rewrite D. reflexivity.
Qed.

(** non-vacuity of the concurrent immunity statements: two threads, a schedule, a surviving key *)
Definition kA : bytes := [97%N].
Definition kB : bytes := [98%N].
Definition kC : bytes := [99%N].
Definition cfgI : cache_cfg := mkCfg 1 4 4 1.
Definition ex_ths : list (list fact) :=
  [[FImmGroup [kA]; FOp (OAdd kA [1%N] 2)]; [FOp (OAdd kB [2%N] 2); FOp (OAdd kC [3%N] 3); FOp (OAdd kB [4%N] 2)]].
Example C14_immune_nonvacuous :
  cfg_valid cfgI = true /\
  map fst (conc_trace fstep [1; 0; 0; 1; 1; 0]%nat (new_cache cfgI) ex_ths) = [1; 0; 0; 1; 1]%nat /\
  cache_get (conc_state fstep [1; 0; 0; 1; 1; 0]%nat (new_cache cfgI) ex_ths) kA = Some [1%N] /\
  cache_get (conc_state fstep [1; 0; 0; 1; 1; 0]%nat (new_cache cfgI) ex_ths) kC = None /\
  all_done (conc_rest fstep [1; 0; 0; 1; 1; 0]%nat (new_cache cfgI) ex_ths).
Proof. vm_compute. repeat split; try reflexivity. repeat constructor. Qed.

Print Assumptions C14_quiescent_counters.
Print Assumptions C14_counters_every_instant.
Print Assumptions C14_quiescent_counters_with_clear_refuted.
Print Assumptions C14_snapshot_is_bunch.
Print Assumptions C14_sender_list_every_instant.
Print Assumptions C14_snapshots_are_bunches.
Print Assumptions C14_selection_any_snapshot.
Print Assumptions C14_select_any_snapshot.
Print Assumptions C14_sender_count_every_instant.
Print Assumptions C14_adds_commute_lists.
Print Assumptions C14_adds_commute.
Print Assumptions C14_atomic_sections.
Print Assumptions C14_atomic_sections_every_instant.
Print Assumptions C14_instants_are_prefixes.
Print Assumptions C14_bounds_every_instant.
Print Assumptions C14_immune_survive.
Print Assumptions C14_immune_survive_added_later.
Print Assumptions C14_bounds_every_instant_fine.
Print Assumptions C14_immune_survive_fine.
Print Assumptions C14_immune_survive_fine_added_later.
Print Assumptions C14_stale_gate_exceeds_refuted.
