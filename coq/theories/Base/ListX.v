(** Small list lemmas missing from the 8.16 standard library. *)
From Coq Require Import List Lia Permutation.
Import ListNotations.

Lemma NoDup_app_l {A} (a b : list A) : NoDup (a ++ b) -> NoDup a.
Proof.
  induction a as [|x a IH]; intros H; [constructor|].
  simpl in H. inversion H; subst. constructor.
  - intros Hin. apply H2. apply in_or_app. left. exact Hin.
  - apply IH. exact H3.
Qed.

Lemma NoDup_app_r {A} (a b : list A) : NoDup (a ++ b) -> NoDup b.
Proof.
  induction a as [|x a IH]; intros H; [exact H|].
  simpl in H. inversion H; subst. apply IH. exact H3.
Qed.

Lemma NoDup_app_disj {A} (a b : list A) : NoDup (a ++ b) -> forall x, In x a -> In x b -> False.
Proof.
  induction a as [|y a IH]; intros H x Ha Hb; [destruct Ha|].
  simpl in H. inversion H; subst. destruct Ha as [->|Ha].
  - apply H2. apply in_or_app. right. exact Hb.
  - eapply IH; eassumption.
Qed.

Lemma NoDup_app_intro {A} (a b : list A) :
  NoDup a -> NoDup b -> (forall x, In x a -> In x b -> False) -> NoDup (a ++ b).
Proof.
  induction a as [|y a IH]; intros Ha Hb Hd; [exact Hb|].
  simpl. inversion Ha; subst. constructor.
  - intros Hin. apply in_app_or in Hin. destruct Hin as [Hin|Hin]; [contradiction|].
    apply (Hd y); [left; reflexivity|exact Hin].
  - apply IH; [assumption|assumption|]. intros x Hx Hx'. apply (Hd x); [right; exact Hx|exact Hx'].
Qed.
