(** Generic wire format shared by every executable model.

    A history file is a sequence of lines; each operation line carries an
    opcode and a list of [garg]; the model answers with a list of labelled
    [garg]s.  Decoding of operations and encoding of answers is written in
    Gallina, per component, so that the OCaml driver is one generic file. *)
From Coq Require Import List NArith ZArith Bool.
Import ListNotations.

Inductive garg : Type :=
| GN (z : Z)              (* a number (any sign, any size) *)
| GB (b : list N)         (* a byte string, every element < 256 *)
| GNil                    (* nil / absent *)
| GL (l : list garg).     (* a list *)

Definition bytes := list N.

(** A labelled observable: the label says which observable it is, so that a
    property's correspondence can project on the ones it constrains. *)
Definition obs := (N * garg)%type.

Record component : Type := {
  c_state : Type;
  c_init  : list garg -> option c_state;
  c_step  : c_state -> N -> list garg -> c_state * list obs
}.

(** Run a component over a whole history; [None] when the configuration is
    rejected. *)
Fixpoint run_steps (c : component) (s : c_state c) (ops : list (N * list garg))
  : list (list obs) :=
  match ops with
  | [] => []
  | (code, args) :: rest =>
      let '(s', o) := c_step c s code args in
      o :: run_steps c s' rest
  end.

Definition run_history (c : component) (cfg : list garg) (ops : list (N * list garg))
  : option (list (list obs)) :=
  match c_init c cfg with
  | None => None
  | Some s => Some (run_steps c s ops)
  end.

(** Small decoding helpers *)
Definition arg_N (a : garg) : N := match a with GN z => Z.to_N z | _ => 0%N end.
Definition arg_Z (a : garg) : Z := match a with GN z => z | _ => 0%Z end.
Definition arg_B (a : garg) : bytes := match a with GB b => b | _ => [] end.
Definition arg_L (a : garg) : list garg := match a with GL l => l | _ => [] end.
Definition arg_bool (a : garg) : bool := match a with GN z => negb (Z.eqb z 0) | _ => false end.
Definition arg_optB (a : garg) : option bytes := match a with GB b => Some b | _ => None end.
Definition nth_arg (l : list garg) (i : nat) : garg := nth i l GNil.

Definition g_bool (b : bool) : garg := GN (if b then 1%Z else 0%Z).
Definition g_N (n : N) : garg := GN (Z.of_N n).
Definition g_optB (o : option bytes) : garg := match o with Some b => GB b | None => GNil end.
Definition g_listB (l : list bytes) : garg := GL (map GB l).

(** Boolean equality on wire values (used by the in-Coq cross-check of the extracted runner). *)
Fixpoint garg_eqb (a b : garg) : bool :=
  match a, b with
  | GN x, GN y => Z.eqb x y
  | GB x, GB y => (fix leq (l1 l2 : list N) : bool :=
                     match l1, l2 with
                     | [], [] => true
                     | u :: r1, v :: r2 => N.eqb u v && leq r1 r2
                     | _, _ => false
                     end) x y
  | GNil, GNil => true
  | GL x, GL y => (fix leq (l1 l2 : list garg) : bool :=
                     match l1, l2 with
                     | [], [] => true
                     | u :: r1, v :: r2 => garg_eqb u v && leq r1 r2
                     | _, _ => false
                     end) x y
  | _, _ => false
  end.

Definition obs_eqb (a b : obs) : bool := N.eqb (fst a) (fst b) && garg_eqb (snd a) (snd b).

Fixpoint list_eqb {A} (eqb : A -> A -> bool) (l1 l2 : list A) : bool :=
  match l1, l2 with
  | [], [] => true
  | u :: r1, v :: r2 => eqb u v && list_eqb eqb r1 r2
  | _, _ => false
  end.

(** [agrees c cfg ops expected] : running the component inside Coq gives exactly the expected observations *)
Definition agrees_with (c : component) (cfg : list garg) (ops : list (N * list garg)) (expected : list (list obs)) : bool :=
  match run_history c cfg ops with
  | None => match expected with [] => true | _ => false end
  | Some outs => list_eqb (list_eqb obs_eqb) outs expected
  end.
