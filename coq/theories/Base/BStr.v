(** Byte strings as [list N]; [bytes.Compare]; FNV-1 32 bit (used by the chunked maps). *)
From Coq Require Import List NArith PeanoNat Lia Bool ZifyN ZifyNat.
Import ListNotations.
Open Scope N_scope.

Definition bytes := list N.

Fixpoint bcmp (a b : bytes) : comparison :=
  match a, b with
  | [], [] => Eq
  | [], _ :: _ => Lt
  | _ :: _, [] => Gt
  | x :: a', y :: b' => match x ?= y with Eq => bcmp a' b' | c => c end
  end.

Definition beqb (a b : bytes) : bool := match bcmp a b with Eq => true | _ => false end.

Lemma bcmp_eq a b : bcmp a b = Eq <-> a = b.
Proof.
  revert b; induction a as [|x a IH]; intros [|y b]; simpl; try (split; congruence).
  destruct (N.compare_spec x y) as [->|H|H].
  - rewrite IH. split; congruence.
  - split; [discriminate|]. intros E; inversion E; lia.
  - split; [discriminate|]. intros E; inversion E; lia.
Qed.

Lemma bcmp_refl a : bcmp a a = Eq.
Proof. apply bcmp_eq. reflexivity. Qed.

Lemma beqb_spec a b : reflect (a = b) (beqb a b).
Proof.
  unfold beqb. destruct (bcmp a b) eqn:E.
  - constructor. apply bcmp_eq. exact E.
  - constructor. intros ->. rewrite bcmp_refl in E. discriminate.
  - constructor. intros ->. rewrite bcmp_refl in E. discriminate.
Qed.

Lemma beqb_refl a : beqb a a = true.
Proof. destruct (beqb_spec a a); congruence. Qed.

Lemma beqb_eq a b : beqb a b = true <-> a = b.
Proof. destruct (beqb_spec a b); split; congruence. Qed.

Lemma beqb_neq a b : beqb a b = false <-> a <> b.
Proof. destruct (beqb_spec a b); split; congruence. Qed.

Lemma beqb_sym a b : beqb a b = beqb b a.
Proof. destruct (beqb_spec a b), (beqb_spec b a); congruence. Qed.

Lemma bcmp_antisym a b : bcmp b a = CompOpp (bcmp a b).
Proof.
  revert b; induction a as [|x a IH]; intros [|y b]; simpl; try reflexivity.
  rewrite (N.compare_antisym x y). destruct (x ?= y); simpl; auto.
Qed.

Lemma bcmp_lt_trans a b c : bcmp a b = Lt -> bcmp b c = Lt -> bcmp a c = Lt.
Proof.
  revert b c; induction a as [|x a IH]; intros [|y b] [|z c]; simpl; try congruence.
  destruct (N.compare_spec x y) as [->|H|H]; try discriminate.
  - destruct (N.compare_spec y z) as [->|H'|H']; try discriminate; [apply IH|reflexivity].
  - intros _. destruct (N.compare_spec y z) as [->|H'|H']; try discriminate; intros _.
    + destruct (N.compare_spec x z); try lia; reflexivity.
    + destruct (N.compare_spec x z); try lia; reflexivity.
Qed.

Lemma bcmp_total a b : a <> b -> bcmp a b = Lt \/ bcmp b a = Lt.
Proof.
  intros Hne. destruct (bcmp a b) eqn:E.
  - apply bcmp_eq in E. contradiction.
  - left; reflexivity.
  - right. rewrite bcmp_antisym, E. reflexivity.
Qed.

(** FNV-1 (multiply, then xor), 32 bit, as in the chunked maps' [fnv32]. *)
Definition two32 : N := 4294967296.
Definition fnv_prime : N := 16777619.
Definition fnv_offset : N := 2166136261.
Definition fnv32 (key : bytes) : N :=
  fold_left (fun h b => N.lxor ((h * fnv_prime) mod two32) b) key fnv_offset.

(** insertion sort of byte strings (canonicalisation of map-ordered outputs) *)
Fixpoint binsert (x : bytes) (l : list bytes) : list bytes :=
  match l with
  | [] => [x]
  | y :: r => match bcmp x y with Gt => y :: binsert x r | _ => x :: l end
  end.
Definition bsort (l : list bytes) : list bytes := fold_right binsert [] l.
