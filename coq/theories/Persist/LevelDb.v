(** Model of leveldb/leveldb.go (type DB), sequential behaviour, as the code is after the
    fix commits F10/F11 (C08, C09).  One function per Go method, same order of tests.

    The timer goroutine [batchTimeoutHandle] is the explicit event [db_tick].
    [d_open = false] stands for `baseLevelDb.db == nil` (after Close). The content of the
    LevelDB directory ([d_disk]) outlives the object: [db_reopen] is NewDB on the same path. *)
From Coq Require Import List NArith ZArith Bool.
From Verif Require Import Base.BStr Persist.Batch.
Import ListNotations.
Open Scope Z_scope.

Record db : Type := {
  d_batch : batch;
  d_size : Z;       (* sizeBatch *)
  d_max : Z;        (* maxBatchSize *)
  d_disk : disk;    (* what goleveldb holds *)
  d_open : bool     (* getDbPointer() != nil *)
}.

(** NewDB(path, _, maxBatchSize, _) on a directory holding [d] *)
Definition new_db (max : Z) (d : disk) : db :=
  {| d_batch := new_batch; d_size := 0; d_max := max; d_disk := d; d_open := true |}.

Definition set_batch (s : db) (b : batch) : db :=
  {| d_batch := b; d_size := d_size s; d_max := d_max s; d_disk := d_disk s; d_open := d_open s |}.
Definition set_size (s : db) (n : Z) : db :=
  {| d_batch := d_batch s; d_size := n; d_max := d_max s; d_disk := d_disk s; d_open := d_open s |}.

(** putBatch: ErrDBIsClosed when the pointer is nil, otherwise db.Write(batch) *)
Definition db_put_batch (s : db) : option disk :=
  if d_open s then Some (apply_log (b_log (d_batch s)) (d_disk s)) else None.

(** updateBatchWithIncrement *)
Definition db_update_batch_with_increment (s : db) : db * rclass :=
  let s1 := set_size s (d_size s + 1) in
  if d_size s1 <? d_max s1 then (s1, ROk)
  else match db_put_batch s1 with
       | None => (s1, RClosed)
       | Some d' =>
           ({| d_batch := batch_reset (d_batch s1); d_size := 0; d_max := d_max s1;
               d_disk := d'; d_open := d_open s1 |}, ROk)
       end.

(** Put: batch.Put never fails; no test of the closed state before the batch is touched *)
Definition db_put (s : db) (k : key) (v : val) : db * rclass :=
  db_update_batch_with_increment (set_batch s (batch_put (d_batch s) k v)).

Definition db_remove (s : db) (k : key) : db * rclass :=
  db_update_batch_with_increment (set_batch s (batch_delete (d_batch s) k)).

(** Get: closed?, removed in the batch?, pending in the batch (data != nil)?, LevelDB *)
Definition db_get (s : db) (k : key) : rclass * val :=
  if negb (d_open s) then (RClosed, None)
  else if batch_is_removed (d_batch s) k then (RNotFound, None)
  else match batch_get (d_batch s) k with
       | Some data => (ROk, Some data)
       | None =>
           match dget k (d_disk s) with
           | None => (RNotFound, None)
           | Some data => (ROk, Some data)
           end
       end.

Definition db_has (s : db) (k : key) : rclass :=
  if negb (d_open s) then RClosed
  else if batch_is_removed (d_batch s) k then RNotFound
  else match batch_get (d_batch s) k with
       | Some _ => ROk
       | None =>
           match dget k (d_disk s) with
           | None => RNotFound
           | Some _ => ROk
           end
       end.

(** one firing of the timer: putBatch; on error `continue`; else Reset and sizeBatch = 0.
    (after Close the goroutine has returned or its putBatch fails: nothing changes) *)
Definition db_tick (s : db) : db :=
  match db_put_batch s with
  | None => s
  | Some d' =>
      {| d_batch := batch_reset (d_batch s); d_size := 0; d_max := d_max s; d_disk := d'; d_open := d_open s |}
  end.

(** Close: `_ = putBatch(batch)`; sizeBatch = 0 (the batch is NOT reset); cancel; pointer := nil; db.Close() *)
Definition db_close (s : db) : db * rclass :=
  let d' := match db_put_batch s with Some d' => d' | None => d_disk s end in
  ({| d_batch := d_batch s; d_size := 0; d_max := d_max s; d_disk := d'; d_open := false |}, ROk).

(** RangeKeys: nothing when the pointer is nil, otherwise every pair LevelDB holds *)
Definition db_range (s : db) : list (key * bytes) :=
  if d_open s then d_disk s else [].

(** NewDB on the same path (only meaningful once the previous object is closed) *)
Definition db_reopen (s : db) : db := new_db (d_max s) (d_disk s).

(** RangeKeys(handler): nothing when the pointer is nil; otherwise the iterator (ascending keys) is walked
    until it is exhausted or the handler answers false (`break`) *)
Definition db_range_with {St : Type} (h : St -> key * bytes -> St * bool) (st : St) (s : db) : St :=
  if d_open s then iter_with h st (ksort (d_disk s)) else st.

(** Destroy: batch.Reset(); sizeBatch = 0; cancel; pointer := nil; db.Close() (if the pointer was not nil already);
    os.RemoveAll(path).  The pending batch is discarded, not written.  No step of it fails in the model. *)
Definition db_destroy (s : db) : db * rclass :=
  ({| d_batch := batch_reset (d_batch s); d_size := 0; d_max := d_max s; d_disk := []; d_open := false |}, ROk).

(** DestroyClosed: os.RemoveAll(path), nothing else (the object is not touched).  Only meaningful once the
    pointer is nil: on an open DB the directory would be removed under a running goleveldb, which is outside
    the model (the wire component refuses the call unless Close or Destroy came first). *)
Definition db_destroy_closed (s : db) : db * rclass :=
  ({| d_batch := d_batch s; d_size := d_size s; d_max := d_max s; d_disk := []; d_open := d_open s |}, ROk).
