(** The persister theorems at the level of [pers] (any of the four kinds), by induction over
    arbitrary operation lists. *)
From Coq Require Import List NArith ZArith Bool Lia PeanoNat.
From Verif Require Import Base.BStr Persist.Batch Persist.LevelDb Persist.SerialDb Persist.MemDb Persist.MapSpec
  Persist.ShardId Persist.ShardId_proofs Persist.ShardedDb Persist.PersistSpec
  Persist.Batch_proofs Persist.LevelDb_proofs Persist.SerialDb_proofs Persist.MemDb_proofs Persist.ShardedDb_proofs.
Import ListNotations.

Ltac sp := repeat match goal with |- _ /\ _ => split end.

Lemma p_get_spec p k : p_ok p -> canon_get (p_get p k) = m_get (p_abs p) k.
Proof. destruct p as [b|s]; cbn [p_ok p_get p_abs]; [apply b_get_spec|apply sh_get_spec]. Qed.

Lemma p_has_spec p k : p_ok p -> p_has p k = m_has (p_abs p) k.
Proof. destruct p as [b|s]; cbn [p_ok p_has p_abs]; [apply b_has_spec|apply sh_has_spec]. Qed.

(** Has agrees with Get *)
Lemma p_has_agrees_get p k : p_ok p -> p_has p k = fst (p_get p k).
Proof.
  intros Hok. rewrite (p_has_spec p k Hok). pose proof (p_get_spec p k Hok) as H.
  unfold canon_get, m_get, m_has in *. destruct (p_abs p k); inversion H; congruence.
Qed.

Lemma p_step_spec p o :
  p_ok p ->
  p_ok (fst (p_step p o)) /\ snd (p_step p o) = snd (spec_step (p_abs p) o)
  /\ (forall k, p_abs (fst (p_step p o)) k = fst (spec_step (p_abs p) o) k)
  /\ (p_durable p -> p_durable (fst (p_step p o))).
Proof.
  intros Hok. destruct o as [k v|k|k|k|]; cbn [p_step spec_step fst snd].
  - destruct p as [b|s]; cbn [p_put p_ok p_abs p_durable] in *.
    + destruct (b_put_spec b k v Hok) as (H1 & H2 & H3 & _ & H5). destruct (b_put b k v) as [b' r]. cbn [fst snd] in *.
      subst r. sp; auto.
    + destruct (sh_put_spec s k v Hok) as (H1 & H2 & H3 & _ & H5). destruct (sh_put s k v) as [s' r]. cbn [fst snd] in *.
      subst r. sp; auto.
  - destruct p as [b|s]; cbn [p_remove p_ok p_abs p_durable] in *.
    + destruct (b_remove_spec b k Hok) as (H1 & H2 & H3 & _ & H5). destruct (b_remove b k) as [b' r]. cbn [fst snd] in *.
      subst r. sp; auto.
    + destruct (sh_remove_spec s k Hok) as (H1 & H2 & H3 & _ & H5). destruct (sh_remove s k) as [s' r]. cbn [fst snd] in *.
      subst r. sp; auto.
  - sp; auto. apply p_get_spec. exact Hok.
  - sp; auto. rewrite (p_has_spec p k Hok). reflexivity.
  - destruct p as [b|s]; cbn [p_tick p_ok p_abs p_durable] in *.
    + destruct (b_tick_spec b Hok) as (H1 & H2 & _ & _ & H5). sp; auto.
    + destruct (sh_tick_spec s Hok) as (H1 & H2 & _ & H5). sp; auto.
Qed.

(** C08: any history over Put/Remove/Get/Has/Tick from any well-formed open state answers as the map does *)
Lemma p_run_spec ops : forall p,
  p_ok p ->
  p_ok (fst (p_run p ops)) /\ snd (p_run p ops) = snd (spec_run (p_abs p) ops)
  /\ (forall k, p_abs (fst (p_run p ops)) k = fst (spec_run (p_abs p) ops) k)
  /\ (p_durable p -> p_durable (fst (p_run p ops))).
Proof.
  induction ops as [|o ops IH]; intros p Hok; cbn [p_run spec_run].
  - sp; auto.
  - destruct (p_step_spec p o Hok) as (H1 & H2 & H3 & H4).
    destruct (p_step p o) as [p1 a]. cbn [fst snd] in *.
    destruct (IH p1 H1) as (I1 & I2 & I3 & I4).
    destruct (p_run p1 ops) as [p2 l]. cbn [fst snd] in *.
    destruct (spec_step (p_abs p) o) as [m1 a'] eqn:Es. cbn [fst snd] in *.
    destruct (spec_run_ext ops (p_abs p1) m1 H3) as (E1 & E2).
    destruct (spec_run m1 ops) as [m2 l']. cbn [fst snd] in *.
    sp; auto.
    + congruence.
    + intros k. rewrite I3. apply E2.
Qed.

(** the timers firing leave LevelDB equal to the abstraction *)
Lemma p_tick_flushed p : p_ok p -> forall k, p_flushed (p_tick p) k = p_abs p k.
Proof.
  destruct p as [b|s]; cbn [p_ok p_tick p_flushed p_abs]; intros Hok.
  - apply b_tick_spec. exact Hok.
  - apply sh_tick_spec. exact Hok.
Qed.

Lemma p_range_spec p : p_ok p -> presents (p_range p) (p_flushed p).
Proof. destruct p as [b|s]; cbn [p_ok p_range p_flushed]; [apply b_range_spec|apply sh_range_spec]. Qed.

(** Close then the constructor on the same path *)
Lemma p_cycle_spec p :
  p_ok p -> p_durable p ->
  snd (p_cycle p) = ROk /\ p_ok (fst (p_cycle p)) /\ p_durable (fst (p_cycle p))
  /\ (forall k, p_abs (fst (p_cycle p)) k = p_abs p k)
  /\ (forall k, p_flushed (fst (p_cycle p)) k = p_abs p k).
Proof.
  unfold p_cycle. destruct p as [b|s]; cbn [p_ok p_durable p_close]; intros Hok Hd.
  - pose proof (b_close_ok b) as Hc. pose proof (b_cycle_spec b Hok Hd) as H. unfold b_cycle in H.
    destruct (b_close b) as [b1 r]. cbn [fst snd p_reopen p_ok p_durable p_abs p_flushed] in *.
    destruct H as (H1 & H2 & H3 & _ & H5). sp; auto.
  - pose proof (sh_cycle_spec s Hok Hd) as H. destruct (sh_close s) as [s1 r].
    cbn [fst snd p_reopen p_ok p_durable p_abs p_flushed] in *. cbv zeta in H.
    destruct H as (H0 & H1 & H2 & H3 & H5). sp; auto.
Qed.

Lemma presents_ext l m m' : (forall k, m k = m' k) -> presents l m -> presents l m'.
Proof. intros H (H1 & H2). split; [exact H1|]. intros k v. rewrite <- H. apply H2. Qed.

(** C09: after Close + reopen, Get/Has/RangeKeys present exactly the map before Close *)
Lemma p_cycle_presents p :
  p_ok p -> p_durable p ->
  let p' := fst (p_cycle p) in
  snd (p_cycle p) = ROk
  /\ presents (p_range p') (p_abs p)
  /\ (forall k, canon_get (p_get p' k) = m_get (p_abs p) k)
  /\ (forall k, p_has p' k = m_has (p_abs p) k).
Proof.
  intros Hok Hd p'. destruct (p_cycle_spec p Hok Hd) as (H0 & H1 & H2 & H3 & H4). fold p' in H1, H2, H3, H4. sp.
  - exact H0.
  - apply (presents_ext _ (p_flushed p')); [exact H4|]. apply p_range_spec. exact H1.
  - intros k. rewrite (p_get_spec p' k H1). unfold m_get. rewrite H3. reflexivity.
  - intros k. rewrite (p_has_spec p' k H1). unfold m_has. rewrite H3. reflexivity.
Qed.

Lemma spec_run2_ext ops : forall m m',
  (forall k, m k = m' k) ->
  snd (spec_run2 m ops) = snd (spec_run2 m' ops) /\ forall k, fst (spec_run2 m ops) k = fst (spec_run2 m' ops) k.
Proof.
  induction ops as [|o ops IH]; intros m m' H; cbn [spec_run2].
  - split; [reflexivity|exact H].
  - assert (Hs : snd (spec_step2 m o) = snd (spec_step2 m' o) /\ forall k, fst (spec_step2 m o) k = fst (spec_step2 m' o) k).
    { destruct o as [o|]; cbn [spec_step2]; [apply spec_step_ext; exact H|split; [reflexivity|exact H]]. }
    destruct Hs as (Ha & Hm).
    destruct (spec_step2 m o) as [m1 a1]. destruct (spec_step2 m' o) as [m1' a1']. cbn [fst snd] in *.
    destruct (IH m1 m1' Hm) as (Hl & Hf).
    destruct (spec_run2 m1 ops) as [m2 l2]. destruct (spec_run2 m1' ops) as [m2' l2']. cbn [fst snd] in *.
    split; [congruence|exact Hf].
Qed.

(** C09: histories split by any number of Close;Reopen cycles at arbitrary points follow the map
    in which a cycle changes nothing *)
Lemma p_run2_spec ops : forall p,
  p_ok p -> p_durable p ->
  p_ok (fst (p_run2 p ops)) /\ p_durable (fst (p_run2 p ops))
  /\ snd (p_run2 p ops) = snd (spec_run2 (p_abs p) ops)
  /\ (forall k, p_abs (fst (p_run2 p ops)) k = fst (spec_run2 (p_abs p) ops) k).
Proof.
  induction ops as [|o ops IH]; intros p Hok Hd; cbn [p_run2 spec_run2].
  - sp; auto.
  - assert (Hs : p_ok (fst (p_step2 p o)) /\ p_durable (fst (p_step2 p o))
                 /\ snd (p_step2 p o) = snd (spec_step2 (p_abs p) o)
                 /\ forall k, p_abs (fst (p_step2 p o)) k = fst (spec_step2 (p_abs p) o) k).
    { destruct o as [o|]; cbn [p_step2 spec_step2].
      - destruct (p_step_spec p o Hok) as (H1 & H2 & H3 & H4). sp; auto.
      - destruct (p_cycle_spec p Hok Hd) as (H0 & H1 & H2 & H3 & _).
        destruct (p_cycle p) as [p' r]. cbn [fst snd] in *. subst r. sp; auto. }
    destruct Hs as (H1 & H2 & H3 & H4).
    destruct (p_step2 p o) as [p1 a]. cbn [fst snd] in *.
    destruct (IH p1 H1 H2) as (I1 & I2 & I3 & I4).
    destruct (p_run2 p1 ops) as [p2 l]. cbn [fst snd] in *.
    destruct (spec_step2 (p_abs p) o) as [m1 a'] eqn:Es. cbn [fst snd] in *.
    destruct (spec_run2_ext ops (p_abs p1) m1 H4) as (E1 & E2).
    destruct (spec_run2 m1 ops) as [m2 l']. cbn [fst snd] in *.
    sp; auto.
    + congruence.
    + intros k. rewrite I4. apply E2.
Qed.

(** the constructors give well-formed, empty, open persisters *)
Lemma new_pers_ok kind max n p :
  new_pers kind max n = Some p -> p_ok p /\ (forall k, p_abs p k = None) /\ ((kind = 0 \/ kind = 1 \/ kind = 3 \/ kind = 4)%N -> p_durable p).
Proof.
  unfold new_pers. destruct (N.ltb_spec kind 3) as [Hk|Hk].
  - destruct (new_base kind max) as [b|] eqn:Eb; [|discriminate]. intros H. inversion H; subst p.
    destruct (new_base_ok kind max b Eb) as (H1 & H2 & _). cbn [p_ok p_abs p_durable]. sp; auto.
    intros Hd. unfold new_base in Eb. destruct Hd as [-> | [-> | [-> | ->]]]; inversion Eb; subst; exact I || lia.
  - destruct (N.ltb_spec n 2) as [Hn|Hn]; [discriminate|].
    destruct (new_base (kind - 3) max) as [b|] eqn:Eb; [|discriminate]. intros H. inversion H; subst p.
    destruct (new_base_ok (kind - 3) max b Eb) as (H1 & H2 & H3). cbn [p_ok p_abs p_durable].
    destruct (new_sharded_ok n b Hn H1 H3) as (Hok & Habs). sp; auto.
    + intros k. rewrite Habs. apply H2.
    + intros Hd. unfold new_sharded. cbn [sh_shards]. apply Forall_forall. intros x Hx. apply repeat_spec in Hx. subst x.
      unfold new_base in Eb. destruct Hd as [-> | [-> | [-> | ->]]]; try lia; inversion Eb; subst; exact I.
Qed.

(** C19: a sharded persister sends every operation on a key to the shard [shard_of k] and to no other *)
Lemma sh_single_shard s k v :
  sh_ok s ->
  (shard_of s k < length (sh_shards s))%nat
  /\ (forall j, j <> shard_of s k -> get_shard (fst (sh_put s k v)) j = get_shard s j)
  /\ (forall j, j <> shard_of s k -> get_shard (fst (sh_remove s k)) j = get_shard s j)
  /\ sh_get s k = b_get (get_shard s (shard_of s k)) k
  /\ sh_has s k = b_has (get_shard s (shard_of s k)) k
  /\ shard_of (fst (sh_put s k v)) k = shard_of s k
  /\ shard_of (fst (sh_remove s k)) k = shard_of s k.
Proof.
  intros Hok. sp.
  - apply shard_lt. exact Hok.
  - apply sh_put_spec. exact Hok.
  - apply sh_remove_spec. exact Hok.
  - reflexivity.
  - reflexivity.
  - unfold sh_put. destruct (b_put (get_shard s (shard_of s k)) k v). reflexivity.
  - unfold sh_remove. destruct (b_remove (get_shard s (shard_of s k)) k). reflexivity.
Qed.

(** the batch invariant on every state reachable in a DB / SerialDB: pending puts and pending
    removals are disjoint *)
Lemma reachable_disjoint p ops :
  p_ok p ->
  match fst (p_run p ops) with
  | PBase (BDb s) => forall k, smem k (b_removed (d_batch s)) = true -> alookup k (b_cached (d_batch s)) = None
  | PBase (BSer s) => forall k, smem k (b_removed (s_batch s)) = true -> alookup k (b_cached (s_batch s)) = None
  | _ => True
  end.
Proof.
  intros Hok. destruct (p_run_spec ops p Hok) as (H & _).
  destruct (fst (p_run p ops)) as [[s|s|s]|s]; auto; cbn [p_ok b_ok] in H.
  - destruct H as (_ & (Hd & _) & _). exact Hd.
  - destruct H as (_ & (Hd & _) & _). exact Hd.
Qed.

(** a history run on a freshly constructed persister answers as the empty map does *)
Lemma p_run_from_new kind max n p ops :
  new_pers kind max n = Some p ->
  snd (p_run p ops) = snd (spec_run m_empty ops)
  /\ (forall k, p_abs (fst (p_run p ops)) k = fst (spec_run m_empty ops) k).
Proof.
  intros Hn. destruct (new_pers_ok kind max n p Hn) as (Hok & Hempty & _).
  destruct (p_run_spec ops p Hok) as (_ & H2 & H3 & _).
  destruct (spec_run_ext ops (p_abs p) m_empty Hempty) as (E1 & E2).
  split; [congruence|]. intros k. rewrite H3. apply E2.
Qed.

(** any history with cycles, then Close + reopen: exactly the specified map is presented *)
Lemma p_run2_then_cycle p ops :
  p_ok p -> p_durable p ->
  let q := fst (p_run2 p ops) in
  let q' := fst (p_cycle q) in
  let m := fst (spec_run2 (p_abs p) ops) in
  snd (p_cycle q) = ROk /\ presents (p_range q') m
  /\ (forall k, canon_get (p_get q' k) = m_get m k) /\ (forall k, p_has q' k = m_has m k).
Proof.
  intros Hok Hd q q' m. destruct (p_run2_spec ops p Hok Hd) as (H1 & H2 & _ & H4). fold q in H1, H2, H4. fold m in H4.
  destruct (p_cycle_presents q H1 H2) as (C0 & C1 & C2 & C3). fold q' in C1, C2, C3. sp.
  - exact C0.
  - apply (presents_ext _ (p_abs q)); [exact H4|exact C1].
  - intros k. rewrite C2. unfold m_get. rewrite H4. reflexivity.
  - intros k. rewrite C3. unfold m_has. rewrite H4. reflexivity.
Qed.

Lemma p_range_reachable p ops :
  p_ok p -> p_durable p ->
  presents (p_range (fst (p_run2 p ops))) (p_flushed (fst (p_run2 p ops))).
Proof. intros Hok Hd. apply p_range_spec. apply p_run2_spec; assumption. Qed.

(** the sharded RangeKeys is the union of the shards' RangeKeys, no key twice *)
Lemma sh_range_union s :
  sh_ok s ->
  NoDup (map fst (sh_range s))
  /\ (forall x, In x (sh_range s) <-> exists b, In b (sh_shards s) /\ In x (b_range b))
  /\ (forall k v, In (k, v) (sh_range s) <-> In (k, v) (b_range (get_shard s (shard_of s k)))).
Proof.
  intros Hok. pose proof (sh_range_spec s Hok) as (Hnd & Hp). sp.
  - exact Hnd.
  - intros x. unfold sh_range. apply in_flat_map.
  - intros k v. rewrite Hp. unfold sh_flushed.
    destruct (b_range_spec _ (sh_shard_ok s k Hok)) as (_ & Hb). rewrite Hb. reflexivity.
Qed.
