(** Proofs about the crash model (C10). *)
From Coq Require Import List NArith ZArith Bool Lia PeanoNat ZifyBool.
From Verif Require Import Base.BStr Persist.Batch Persist.MapSpec Persist.PersistSpec Persist.Batch_proofs
  Persist.LevelDb Persist.SerialDb Persist.MemDb Persist.ShardId Persist.ShardedDb Persist.Crash.
Import ListNotations.
Open Scope Z_scope.

(** ---- the log disk ---- *)
Lemma recover_sync l : recover (ld_sync l) = recover l.
Proof. induction l as [|w l IH]; simpl; [reflexivity|]. rewrite IH. reflexivity. Qed.

Lemma all_synced_sync l : all_synced (ld_sync l).
Proof.
  unfold all_synced, ld_sync. apply Forall_forall. intros w Hw. apply in_map_iff in Hw.
  destruct Hw as (w0 & <- & _). reflexivity.
Qed.

Lemma recover_write_start l recs : recover (ld_write_start l recs) = apply_log recs (recover l).
Proof. destruct recs; reflexivity. Qed.

Lemma recover_write_done sync l recs : recover (ld_write_done sync l recs) = recover l.
Proof. destruct recs; [reflexivity|]. simpl. destruct sync; [apply recover_sync|reflexivity]. Qed.

Lemma crash_all_synced l l' : all_synced l -> crash_ok l l' -> l' = l.
Proof.
  intros Ha (lost & -> & Hl). destruct lost as [|w lost]; [reflexivity|].
  simpl in Ha. apply Forall_inv in Ha. apply Forall_inv in Hl. unfold unsynced in Hl. congruence.
Qed.

Lemma crash_ok_refl l : crash_ok l l.
Proof. exists []. split; [reflexivity|constructor]. Qed.

Lemma crash_drop_ok n : forall l, crash_ok l (crash_drop n l).
Proof.
  induction n as [|n IH]; intros l; [apply crash_ok_refl|].
  destruct l as [|w r]; simpl; [apply crash_ok_refl|].
  destruct (w_synced w) eqn:E; [apply crash_ok_refl|].
  destruct (IH r) as (lost & Hl & Hf). exists (w :: lost). simpl. split; [congruence|].
  constructor; [exact E|exact Hf].
Qed.

Lemma crash_ok_drop l l' : crash_ok l l' -> exists n, l' = crash_drop n l.
Proof.
  intros (lost & -> & Hf). exists (length lost). induction lost as [|w lost IH]; simpl; [reflexivity|].
  inversion Hf as [|x xs Hx Hxs]; subst. unfold unsynced in Hx. rewrite Hx. apply IH. exact Hxs.
Qed.

Lemma lose_all_unsynced_ok l : crash_ok l (lose_all_unsynced l).
Proof. apply crash_drop_ok. Qed.

Lemma crash_drop_all_synced n l : all_synced l -> crash_drop n l = l.
Proof. intros H. apply crash_all_synced; [exact H|apply crash_drop_ok]. Qed.

(** ---- the specification side: flush positions ---- *)
Fixpoint pend_after (max pend : Z) (ops : list op2) : Z :=
  match ops with
  | [] => pend
  | o :: r =>
      if is_write o then (if pend + 1 <? max then pend_after max (pend + 1) r else pend_after max 0 r)
      else if is_flush_op o then pend_after max 0 r else pend_after max pend r
  end.

Lemma flush_pos_app max a : forall pend i b,
  flush_pos max pend i (a ++ b) = flush_pos max pend i a ++ flush_pos max (pend_after max pend a) (i + length a) b.
Proof.
  induction a as [|o a IH]; intros pend i b; cbn [app flush_pos pend_after length].
  - rewrite Nat.add_0_r. reflexivity.
  - replace (i + S (length a))%nat with (S i + length a)%nat by lia.
    destruct (is_write o).
    + destruct (pend + 1 <? max); rewrite IH; reflexivity.
    + destruct (is_flush_op o); rewrite IH; reflexivity.
Qed.

Lemma pend_after_app max a : forall pend b, pend_after max pend (a ++ b) = pend_after max (pend_after max pend a) b.
Proof.
  induction a as [|o a IH]; intros pend b; cbn [app pend_after]; [reflexivity|].
  destruct (is_write o); [destruct (pend + 1 <? max)|destruct (is_flush_op o)]; apply IH.
Qed.

Lemma flush_pos_bounds max ops : forall pend i p,
  In p (flush_pos max pend i ops) -> (i < p <= i + length ops)%nat.
Proof.
  induction ops as [|o ops IH]; intros pend i p H; cbn [flush_pos length] in *; [contradiction|].
  destruct (is_write o).
  - destruct (pend + 1 <? max).
    + apply IH in H. lia.
    + destruct H as [H|H]; [lia|]. apply IH in H. lia.
  - destruct (is_flush_op o).
    + destruct H as [H|H]; [lia|]. apply IH in H. lia.
    + apply IH in H. lia.
Qed.

Lemma nth_pos_bound max ops j : (nth j (0%nat :: flush_pos max 0 0 ops) 0%nat <= length ops)%nat.
Proof.
  destruct j as [|j]; [simpl; lia|]. cbn [nth].
  destruct (Nat.lt_ge_cases j (length (flush_pos max 0 0 ops))) as [H|H].
  - apply (nth_In _ 0%nat) in H. apply flush_pos_bounds in H. lia.
  - rewrite nth_overflow by exact H. lia.
Qed.

Lemma spec_run2_app a : forall m b, fst (spec_run2 m (a ++ b)) = fst (spec_run2 (fst (spec_run2 m a)) b).
Proof.
  induction a as [|o a IH]; intros m b; simpl; [reflexivity|].
  destruct (spec_step2 m o) as [m1 x]. specialize (IH m1 b).
  destruct (spec_run2 m1 (a ++ b)) as [m2 l2]. destruct (spec_run2 m1 a) as [m3 l3]. simpl in *. exact IH.
Qed.

Lemma spec_run2_snoc m a o : fst (spec_run2 m (a ++ [o])) = fst (spec_step2 (fst (spec_run2 m a)) o).
Proof. rewrite spec_run2_app. simpl. destruct (spec_step2 (fst (spec_run2 m a)) o). reflexivity. Qed.

Lemma state_after_app m0 a b n : (n <= length a)%nat -> state_after m0 (a ++ b) n = state_after m0 a n.
Proof.
  intros H. unfold state_after. rewrite firstn_app. replace (n - length a)%nat with 0%nat by lia.
  simpl. rewrite app_nil_r. reflexivity.
Qed.

Lemma nflush_app max a b : (nflush max a <= nflush max (a ++ b))%nat.
Proof. unfold nflush. rewrite flush_pos_app, app_length. lia. Qed.

Lemma boundary_app max m0 a b j : (j <= nflush max a)%nat -> boundary max m0 (a ++ b) j = boundary max m0 a j.
Proof.
  intros H. unfold boundary, nflush in *. rewrite flush_pos_app.
  set (fa := flush_pos max 0 0 a) in *. set (fb := flush_pos _ _ _ b).
  change (0%nat :: fa ++ fb) with ((0%nat :: fa) ++ fb). rewrite app_nth1 by (simpl; lia).
  apply state_after_app. apply nth_pos_bound.
Qed.

Definition flushes (max p : Z) (o : op2) : bool :=
  if is_write o then negb (p + 1 <? max) else is_flush_op o.

Lemma flush_pos_snoc max a o :
  flush_pos max 0 0 (a ++ [o]) =
  flush_pos max 0 0 a ++ (if flushes max (pend_after max 0 a) o then [S (length a)] else []).
Proof.
  rewrite flush_pos_app. f_equal. unfold flushes. cbn [flush_pos Nat.add].
  destruct (is_write o); [destruct (pend_after max 0 a + 1 <? max)|destruct (is_flush_op o)]; reflexivity.
Qed.

Lemma pend_after_snoc max a o :
  pend_after max 0 (a ++ [o]) =
  let p := pend_after max 0 a in
  if is_write o then (if p + 1 <? max then p + 1 else 0) else if is_flush_op o then 0 else p.
Proof.
  rewrite pend_after_app. cbn [pend_after].
  destruct (is_write o); [destruct (pend_after max 0 a + 1 <? max)|destruct (is_flush_op o)]; reflexivity.
Qed.

Lemma nflush_snoc max a o :
  nflush max (a ++ [o]) = if flushes max (pend_after max 0 a) o then S (nflush max a) else nflush max a.
Proof.
  unfold nflush. rewrite flush_pos_snoc, app_length.
  destruct (flushes max (pend_after max 0 a) o); simpl; lia.
Qed.

(** when the last operation flushes, the newest boundary is the map after the whole history *)
Lemma boundary_last max m0 a o :
  flushes max (pend_after max 0 a) o = true ->
  boundary max m0 (a ++ [o]) (S (nflush max a)) = fst (spec_run2 m0 (a ++ [o])).
Proof.
  intros H. unfold boundary, nflush. rewrite flush_pos_snoc, H. cbn [nth].
  rewrite nth_middle. unfold state_after.
  replace (S (length a)) with (length (a ++ [o])) by (rewrite app_length; simpl; lia).
  rewrite firstn_all. reflexivity.
Qed.

(** ---- invariants ---- *)
Section Inv.
Variables (max : Z) (m0 : mapspec) (sync : bool).

(** every crash image of the log [l] recovers to a flush boundary [j <= hi]; the undamaged log to [hi];
    with sync at least to [lo] *)
Definition LInv (l : ldisk) (lo hi : nat) (B : nat -> mapspec) : Prop :=
  forall lost l', l = lost ++ l' -> Forall unsynced lost ->
  exists j, (j <= hi)%nat /\ (lost = [] -> j = hi) /\ (sync = true -> (lo <= j)%nat)
            /\ forall k, dget k (recover l') = B j k.

Lemma LInv_ext l lo hi B B' :
  (forall j k, (j <= hi)%nat -> B j k = B' j k) -> LInv l lo hi B -> LInv l lo hi B'.
Proof.
  intros HB H lost l' E Hu. destruct (H lost l' E Hu) as (j & Hj & He & Hlo & Hk).
  exists j. repeat split; auto. intros k. rewrite Hk. apply HB. exact Hj.
Qed.

Lemma LInv_start l F B recs :
  LInv l F F B ->
  (forall k, dget k (apply_log recs (recover l)) = B (S F) k) ->
  LInv (ld_write_start l recs) F (S F) B.
Proof.
  intros H Hn lost l' E Hu. destruct lost as [|w lost0].
  - simpl in E. subst l'. exists (S F). repeat split; auto.
    intros k. rewrite recover_write_start. apply Hn.
  - destruct recs as [|r recs].
    + simpl in E. destruct (H (w :: lost0) l' E Hu) as (j & Hj & _ & Hlo & Hk).
      exists j. repeat split; auto; try discriminate; try lia.
    + simpl in E. unfold ld_append in E. injection E as Ew El.
      inversion Hu as [|x xs _ Hu0]; subst x xs.
      destruct (H lost0 l' El Hu0) as (j & Hj & _ & Hlo & Hk).
      exists j. repeat split; auto; try discriminate; try lia.
Qed.

Lemma LInv_done l F B recs :
  LInv l F F B -> (sync = true -> all_synced l) ->
  (forall k, dget k (apply_log recs (recover l)) = B (S F) k) ->
  let l2 := ld_write_done sync (ld_write_start l recs) recs in
  LInv l2 (S F) (S F) B /\ (sync = true -> all_synced l2).
Proof.
  intros H Hs Hn. destruct recs as [|r recs].
  - cbn [ld_write_done ld_write_start]. split; [|exact Hs].
    intros lost l' E Hu. destruct lost as [|w lost0].
    + simpl in E. subst l'. exists (S F). repeat split; auto; try (intros k; apply (Hn k)).
    + destruct sync eqn:Es.
      * exfalso. specialize (Hs eq_refl). rewrite E in Hs. simpl in Hs.
        apply Forall_inv in Hs. apply Forall_inv in Hu. unfold unsynced in Hu. congruence.
      * destruct (H (w :: lost0) l' E Hu) as (j & Hj & _ & _ & Hk).
        exists j. repeat split; auto; try discriminate; try lia.
  - cbn [ld_write_done ld_write_start]. destruct sync eqn:Es.
    + split; [|intros _; apply all_synced_sync].
      intros lost l' E Hu. destruct lost as [|w lost0].
      * cbn [app] in E. subst l'. exists (S F). repeat split; auto.
        intros k. rewrite recover_sync. apply (Hn k).
      * exfalso. simpl in E. injection E as Ew _. inversion Hu as [|y ys Hy _]; subst y ys.
        unfold unsynced in Hy. rewrite <- Ew in Hy. discriminate.
    + split; [|discriminate].
      intros lost l' E Hu. destruct lost as [|w lost0].
      * simpl in E. subst l'. exists (S F). repeat split; auto; try (intros k; apply (Hn k)).
      * unfold ld_append in E. simpl in E. injection E as Ew El.
        inversion Hu as [|x xs _ Hu0]; subst x xs.
        destruct (H lost0 l' El Hu0) as (j & Hj & _ & _ & Hk).
        exists j. repeat split; auto; try discriminate; try lia.
Qed.

Lemma LInv_sync l lo hi B : LInv l lo hi B -> LInv (ld_sync l) lo hi B.
Proof.
  intros H lost l' E Hu. destruct lost as [|w lost0].
  - simpl in E. subst l'. destruct (H [] l eq_refl (Forall_nil _)) as (j & Hj & He & Hlo & Hk).
    exists j. repeat split; auto. intros k. rewrite recover_sync. apply Hk.
  - exfalso. pose proof (all_synced_sync l) as Ha. rewrite E in Ha. simpl in Ha.
    apply Forall_inv in Ha. apply Forall_inv in Hu. unfold unsynced in Hu. congruence.
Qed.

(** invariant of a state between two operations, after the history [ops] *)
Definition BInv (ops : list op2) (s : cst) : Prop :=
  c_sync s = sync /\ c_max s = max /\ batch_ok (c_batch s)
  /\ c_started s = nflush max ops /\ c_completed s = nflush max ops
  /\ c_size s = pend_after max 0 ops
  /\ (sync = true -> all_synced (c_log s))
  /\ LInv (c_log s) (nflush max ops) (nflush max ops) (boundary max m0 ops)
  /\ (forall k, batch_abs (c_batch s) (recover (c_log s)) k = fst (spec_run2 m0 ops) k).

Lemma mk_BInv ops s :
  c_sync s = sync -> c_max s = max -> batch_ok (c_batch s) ->
  c_started s = nflush max ops -> c_completed s = nflush max ops -> c_size s = pend_after max 0 ops ->
  (sync = true -> all_synced (c_log s)) ->
  LInv (c_log s) (nflush max ops) (nflush max ops) (boundary max m0 ops) ->
  (forall k, batch_abs (c_batch s) (recover (c_log s)) k = fst (spec_run2 m0 ops) k) ->
  BInv ops s.
Proof. unfold BInv. tauto. Qed.

(** invariant of every state (between operations or inside one) *)
Definition Good (ops : list op2) (lo hi : nat) (s : cst) : Prop :=
  c_sync s = sync
  /\ (lo <= c_completed s)%nat /\ (c_completed s <= c_started s)%nat /\ (c_started s <= hi)%nat
  /\ LInv (c_log s) (c_completed s) (c_started s) (boundary max m0 ops).

Lemma Good_weaken ops ops' lo lo' hi hi' s :
  (lo' <= lo)%nat -> (hi <= hi')%nat -> (hi <= nflush max ops)%nat ->
  Good ops lo hi s -> Good (ops ++ ops') lo' hi' s.
Proof.
  intros Hl Hh Hn (Hs & H1 & H2 & H3 & HL). repeat split; try lia; try exact Hs.
  eapply LInv_ext; [|exact HL]. intros j k Hj. symmetry. rewrite boundary_app; [reflexivity|lia].
Qed.

Lemma BInv_Good ops s : BInv ops s -> Good ops (nflush max ops) (nflush max ops) s.
Proof.
  intros (Hs & _ & _ & H1 & H2 & _ & _ & HL & _). unfold Good. rewrite H1, H2. repeat split; auto.
Qed.

Lemma BInv_sync_log ops s : BInv ops s -> BInv ops (sync_log s).
Proof.
  intros (H1 & H2 & H3 & H4 & H5 & H6 & H7 & H8 & H9).
  apply mk_BInv; cbn [sync_log c_sync c_max c_batch c_started c_completed c_size c_log]; auto.
  - intros _. apply all_synced_sync.
  - apply LInv_sync. exact H8.
  - intros k. rewrite recover_sync. apply H9.
Qed.

Lemma Good_sync_log ops lo hi s : Good ops lo hi s -> Good ops lo hi (sync_log s).
Proof.
  intros (H1 & H2 & H3 & H4 & H5). unfold Good. cbn [sync_log c_sync c_started c_completed c_log].
  repeat split; auto. apply LInv_sync. exact H5.
Qed.

(** a state inside operation [o] whose log and counters are still those of the state before it *)
Lemma Good_same_log ops o s s' :
  BInv ops s -> c_sync s' = c_sync s -> c_log s' = c_log s ->
  c_started s' = c_started s -> c_completed s' = c_completed s ->
  Good (ops ++ [o]) (nflush max ops) (nflush max (ops ++ [o])) s'.
Proof.
  intros HB Es El E1 E2. pose proof (BInv_Good _ _ HB) as (Hs & H1 & H2 & H3 & HL).
  pose proof (nflush_app max ops [o]) as Hle.
  unfold Good. rewrite Es, El, E1, E2. repeat split; try lia; try exact Hs.
  eapply LInv_ext; [|exact HL]. intros j k Hj. symmetry. rewrite boundary_app; [reflexivity|].
  destruct HB as (_ & _ & _ & Hst & _). lia.
Qed.

(** the flush: putBatch (two micro-steps) from a state [s] whose batch holds everything since the last flush *)
Lemma flush_lemma ops o s :
  flushes max (pend_after max 0 ops) o = true ->
  c_sync s = sync -> batch_ok (c_batch s) ->
  c_started s = nflush max ops -> c_completed s = nflush max ops ->
  (sync = true -> all_synced (c_log s)) ->
  LInv (c_log s) (nflush max ops) (nflush max ops) (boundary max m0 ops) ->
  (forall k, batch_abs (c_batch s) (recover (c_log s)) k = fst (spec_run2 m0 (ops ++ [o])) k) ->
  let s1 := write_start s in
  let s2 := write_done s1 in
  let F := nflush max ops in
  Good (ops ++ [o]) F (S F) s1 /\ Good (ops ++ [o]) F (S F) s2
  /\ c_started s2 = S F /\ c_completed s2 = S F
  /\ (sync = true -> all_synced (c_log s2))
  /\ LInv (c_log s2) (S F) (S F) (boundary max m0 (ops ++ [o]))
  /\ (forall k, dget k (recover (c_log s2)) = fst (spec_run2 m0 (ops ++ [o])) k).
Proof.
  intros Hf Hs Hb H1 H2 Ha HL Habs. cbv zeta.
  set (F := nflush max ops) in *.
  set (B' := boundary max m0 (ops ++ [o])).
  assert (HL' : LInv (c_log s) F F B').
  { eapply LInv_ext; [|exact HL]. intros j k Hj. symmetry. unfold B'. rewrite boundary_app; [reflexivity|exact Hj]. }
  assert (Hn : forall k, dget k (apply_log (b_log (c_batch s)) (recover (c_log s))) = B' (S F) k).
  { intros k. unfold B', F. rewrite boundary_last by exact Hf. rewrite <- Habs.
    destruct Hb as (_ & _ & Hl). rewrite Hl. reflexivity. }
  pose proof (LInv_start _ _ _ _ HL' Hn) as Hst.
  pose proof (LInv_done _ _ _ _ HL' Ha Hn) as (Hdn & Hdn_s).
  unfold Good. cbn [write_start write_done c_sync c_started c_completed c_log c_batch].
  rewrite Hs, H1, H2.
  repeat split; try lia; try assumption; try reflexivity.
  intros k. rewrite recover_write_done, recover_write_start. rewrite Hn.
    unfold B', F. rewrite boundary_last by exact Hf. reflexivity.
Qed.

Lemma abs_ext_put (m m' : mapspec) k v : (forall a, m a = m' a) -> forall a, m_put m k v a = m_put m' k v a.
Proof. intros H a. unfold m_put, m_upd. destruct (beqb a k); auto. Qed.
Lemma abs_ext_remove (m m' : mapspec) k : (forall a, m a = m' a) -> forall a, m_remove m k a = m_remove m' k a.
Proof. intros H a. unfold m_remove, m_upd. destruct (beqb a k); auto. Qed.

(** after the reset that follows a flush *)
Lemma BInv_after_flush ops o s2 :
  flushes max (pend_after max 0 ops) o = true ->
  c_sync s2 = sync -> c_max s2 = max ->
  c_started s2 = S (nflush max ops) -> c_completed s2 = S (nflush max ops) ->
  (sync = true -> all_synced (c_log s2)) ->
  LInv (c_log s2) (S (nflush max ops)) (S (nflush max ops)) (boundary max m0 (ops ++ [o])) ->
  (forall k, dget k (recover (c_log s2)) = fst (spec_run2 m0 (ops ++ [o])) k) ->
  BInv (ops ++ [o]) (reset_batch s2).
Proof.
  intros Hf Hs Hm H1 H2 Ha HL Hd.
  assert (En : nflush max (ops ++ [o]) = S (nflush max ops)) by (rewrite nflush_snoc, Hf; reflexivity).
  assert (Ep : pend_after max 0 (ops ++ [o]) = 0).
  { rewrite pend_after_snoc. cbv zeta. unfold flushes in Hf.
    destruct (is_write o); [destruct (pend_after max 0 ops + 1 <? max); [discriminate|reflexivity]|].
    rewrite Hf. reflexivity. }
  unfold BInv. rewrite En, Ep.
  cbn [reset_batch with_size with_batch c_sync c_max c_batch c_started c_completed c_size c_log].
  repeat split; auto; try apply new_batch_ok.
Qed.

(** updateBatchWithIncrement after the batch received operation [o] *)
Lemma update_lemma ops o s s1 :
  is_write o = true ->
  BInv ops s ->
  c_kind s1 = c_kind s -> c_sync s1 = c_sync s -> c_size s1 = c_size s -> c_max s1 = c_max s -> c_log s1 = c_log s ->
  c_started s1 = c_started s -> c_completed s1 = c_completed s ->
  batch_ok (c_batch s1) ->
  (forall k, batch_abs (c_batch s1) (recover (c_log s1)) k = fst (spec_run2 m0 (ops ++ [o])) k) ->
  Forall (Good (ops ++ [o]) (nflush max ops) (nflush max (ops ++ [o]))) (s1 :: update_trace s1)
  /\ BInv (ops ++ [o]) (last (s1 :: update_trace s1) s).
Proof.
  intros Hw HB Ek Es Ez Em El E1 E2 Hbo Habs.
  pose proof HB as (Hsy & Hmx & _ & Hst & Hco & Hsz & Hal & HL & _).
  assert (G1 : Good (ops ++ [o]) (nflush max ops) (nflush max (ops ++ [o])) s1)
    by (apply (Good_same_log ops o s s1); auto).
  unfold update_trace. cbn [with_size c_size c_max].
  set (s2 := with_size s1 (c_size s1 + 1)).
  assert (G2 : Good (ops ++ [o]) (nflush max ops) (nflush max (ops ++ [o])) s2)
    by (apply (Good_same_log ops o s s2); auto).
  rewrite Ez, Em, Hsz, Hmx.
  destruct (pend_after max 0 ops + 1 <? max) eqn:Elt.
  - (* below the threshold *)
    split; [apply Forall_cons; [exact G1|apply Forall_cons; [exact G2|apply Forall_nil]]|].
    cbn [last].
    assert (Ef : flushes max (pend_after max 0 ops) o = false) by (unfold flushes; rewrite Hw, Elt; reflexivity).
    apply mk_BInv; rewrite ?nflush_snoc, ?Ef, ?pend_after_snoc; cbv zeta; rewrite ?Hw, ?Elt;
      unfold s2; cbn [with_size c_sync c_max c_batch c_started c_completed c_size c_log];
      rewrite ?Es, ?Em, ?E1, ?E2, ?Ez, ?El in *; auto; try lia.
    eapply LInv_ext; [|exact HL]. intros j k Hj. symmetry. rewrite boundary_app; [reflexivity|exact Hj].
  - (* the batch is full: flush *)
    assert (Ef : flushes max (pend_after max 0 ops) o = true) by (unfold flushes; rewrite Hw, Elt; reflexivity).
    assert (En : nflush max (ops ++ [o]) = S (nflush max ops)) by (rewrite nflush_snoc, Ef; reflexivity).
    pose proof (flush_lemma ops o s2 Ef) as HF.
    unfold s2 in HF. cbn [with_size c_sync c_batch c_started c_completed c_log] in HF.
    rewrite Es, E1, E2, El in HF. rewrite El in Habs.
    specialize (HF Hsy Hbo Hst Hco Hal HL Habs). cbv zeta in HF.
    destruct HF as (Ga & Gb & F1 & F2 & F3 & F4 & F5).
    fold s2 in Ga, Gb, F1, F2, F3, F4, F5.
    rewrite En in *. unfold flush_trace.
    split.
    + apply Forall_cons; [exact G1|]. apply Forall_cons; [exact G2|].
      apply Forall_cons; [exact Ga|]. apply Forall_cons; [exact Gb|]. apply Forall_cons; [|apply Forall_nil].
      (* the reset state has the log and counters of the state before it *)
      destruct Gb as (Gs & Gc1 & Gc2 & Gc3 & GL). unfold Good.
      cbn [reset_batch with_size with_batch c_sync c_started c_completed c_log]. repeat split; auto.
    + cbn [last]. fold s2. apply BInv_after_flush; auto.
      * cbn [write_done write_start c_sync]. unfold s2. cbn [with_size c_sync]. congruence.
      * cbn [write_done write_start c_max]. unfold s2. cbn [with_size c_max]. congruence.
Qed.

Lemma op_lemma ops s o :
  BInv ops s ->
  Forall (Good (ops ++ [o]) (nflush max ops) (nflush max (ops ++ [o]))) (op_trace s o)
  /\ BInv (ops ++ [o]) (c_step s o).
Proof.
  intros HB. pose proof HB as (Hsy & Hmx & Hbo & Hst & Hco & Hsz & Hal & HL & Habs).
  unfold c_step. destruct o as [[k v|k|k|k|]|]; cbn [op_trace].
  - (* Put *)
    apply update_lemma; auto.
    + apply batch_put_ok. exact Hbo.
    + intros a. cbn [with_batch c_batch c_log]. rewrite batch_abs_put, spec_run2_snoc.
      cbn [spec_step2 spec_step fst]. apply abs_ext_put. exact Habs.
  - (* Remove *)
    apply update_lemma; auto.
    + apply batch_delete_ok. exact Hbo.
    + intros a. cbn [with_batch c_batch c_log]. rewrite batch_abs_delete, spec_run2_snoc.
      cbn [spec_step2 spec_step fst]. apply abs_ext_remove. exact Habs.
  - (* Get *)
    assert (Ef : flushes max (pend_after max 0 ops) (O2 (OGet k)) = false) by reflexivity.
    split.
    + apply Forall_cons; [|apply Forall_nil]. apply (Good_same_log ops _ s s); auto.
    + cbn [last]. apply mk_BInv; rewrite ?nflush_snoc, ?Ef, ?pend_after_snoc; cbn [is_write is_flush_op]; auto.
      * eapply LInv_ext; [|exact HL]. intros j a Hj. symmetry. rewrite boundary_app; [reflexivity|exact Hj].
      * intros a. rewrite spec_run2_snoc. cbn [spec_step2 spec_step fst]. apply Habs.
  - (* Has *)
    assert (Ef : flushes max (pend_after max 0 ops) (O2 (OHas k)) = false) by reflexivity.
    split.
    + apply Forall_cons; [|apply Forall_nil]. apply (Good_same_log ops _ s s); auto.
    + cbn [last]. apply mk_BInv; rewrite ?nflush_snoc, ?Ef, ?pend_after_snoc; cbn [is_write is_flush_op]; auto.
      * eapply LInv_ext; [|exact HL]. intros j a Hj. symmetry. rewrite boundary_app; [reflexivity|exact Hj].
      * intros a. rewrite spec_run2_snoc. cbn [spec_step2 spec_step fst]. apply Habs.
  - (* Tick *)
    assert (Ef : flushes max (pend_after max 0 ops) (O2 OTick) = true) by reflexivity.
    assert (En : nflush max (ops ++ [O2 OTick]) = S (nflush max ops)) by (rewrite nflush_snoc, Ef; reflexivity).
    assert (Habs' : forall a, batch_abs (c_batch s) (recover (c_log s)) a = fst (spec_run2 m0 (ops ++ [O2 OTick])) a).
    { intros a. rewrite spec_run2_snoc. cbn [spec_step2 spec_step fst]. apply Habs. }
    pose proof (flush_lemma ops _ s Ef Hsy Hbo Hst Hco Hal HL Habs') as HF. cbv zeta in HF.
    destruct HF as (Ga & Gb & F1 & F2 & F3 & F4 & F5).
    rewrite En. unfold flush_trace. split.
    + apply Forall_cons; [exact Ga|]. apply Forall_cons; [exact Gb|]. apply Forall_cons; [|apply Forall_nil].
      destruct Gb as (Gs & Gc1 & Gc2 & Gc3 & GL). unfold Good.
      cbn [reset_batch with_size with_batch c_sync c_started c_completed c_log]. repeat split; auto.
    + cbn [last]. apply BInv_after_flush; auto.
  - (* Close + reopen *)
    assert (Ef : flushes max (pend_after max 0 ops) OCycle = true) by reflexivity.
    assert (En : nflush max (ops ++ [OCycle]) = S (nflush max ops)) by (rewrite nflush_snoc, Ef; reflexivity).
    assert (Habs' : forall a, batch_abs (c_batch s) (recover (c_log s)) a = fst (spec_run2 m0 (ops ++ [OCycle])) a).
    { intros a. rewrite spec_run2_snoc. cbn [spec_step2 fst]. apply Habs. }
    pose proof (flush_lemma ops _ s Ef Hsy Hbo Hst Hco Hal HL Habs') as HF. cbv zeta in HF.
    destruct HF as (Ga & Gb & F1 & F2 & F3 & F4 & F5).
    rewrite En. unfold cycle_trace.
    set (s2 := write_done (write_start s)) in *.
    set (closed := match c_kind s with KDb => with_size s2 0 | KSerial => reset_batch s2 end).
    assert (Ec : c_sync closed = c_sync s2 /\ c_max closed = c_max s2 /\ c_log closed = c_log s2
                 /\ c_started closed = c_started s2 /\ c_completed closed = c_completed s2).
    { unfold closed. destruct (c_kind s); repeat split. }
    destruct Ec as (C1 & C2 & C3 & C4 & C5).
    assert (Gc : Good (ops ++ [OCycle]) (nflush max ops) (S (nflush max ops)) closed).
    { destruct Gb as (Gs & Gc1 & Gc2 & Gc3 & GL). unfold Good. rewrite C1, C3, C4, C5. repeat split; auto. }
    split.
    + apply Forall_cons; [exact Ga|]. apply Forall_cons; [exact Gb|]. apply Forall_cons; [exact Gc|].
      apply Forall_cons; [|apply Forall_nil].
      unfold reopen. apply Good_sync_log.
      destruct Gc as (Gs & Gc1 & Gc2 & Gc3 & GL). unfold Good.
      cbn [reset_batch with_size with_batch c_sync c_started c_completed c_log]. repeat split; auto.
    + cbn [last]. unfold reopen. apply BInv_sync_log.
      apply BInv_after_flush; auto; rewrite ?C1, ?C2, ?C3, ?C4, ?C5; auto.
Qed.

(** the state reached by any history, from a freshly opened persister over a synced log [l0] *)
Variables (kind : pkind) (l0 : ldisk).
Hypothesis Hl0 : all_synced l0.
Hypothesis Hm0 : forall k, m0 k = disk_map (recover l0) k.

Lemma BInv_init : BInv [] (c_init kind sync max l0).
Proof.
  apply mk_BInv; unfold c_init; cbn [c_sync c_max c_batch c_started c_completed c_size c_log]; auto;
    try apply new_batch_ok.
  intros lost l' E Hu. assert (l' = l0) by (apply crash_all_synced; [exact Hl0|exists lost; auto]).
  subst l'. exists 0%nat. repeat split; auto.
  intros k. unfold boundary, state_after. simpl. rewrite Hm0. reflexivity.
Qed.

Lemma c_run_snoc s ops o : c_run s (ops ++ [o]) = c_step (c_run s ops) o.
Proof. unfold c_run. rewrite fold_left_app. reflexivity. Qed.

Lemma BInv_run ops : BInv ops (c_run (c_init kind sync max l0) ops).
Proof.
  induction ops as [|o ops IH] using rev_ind; [apply BInv_init|].
  rewrite c_run_snoc. apply op_lemma. exact IH.
Qed.

Lemma in_c_trace ops : forall s0 s,
  In s (c_trace s0 ops) -> exists ops1 o ops2, ops = ops1 ++ o :: ops2 /\ In s (op_trace (c_run s0 ops1) o).
Proof.
  induction ops as [|o ops IH]; intros s0 s H; cbn [c_trace] in H; [contradiction|].
  apply in_app_or in H. destruct H as [H|H].
  - exists [], o, ops. split; [reflexivity|exact H].
  - apply IH in H. destruct H as (ops1 & o' & ops2 & -> & H).
    exists (o :: ops1), o', ops2. split; [reflexivity|exact H].
Qed.

(** every crash point of every history is [Good] with respect to the WHOLE history *)
Lemma crash_points_good ops s :
  In s (crash_points (c_init kind sync max l0) ops) ->
  exists lo hi, (hi <= nflush max ops)%nat /\ Good ops lo hi s.
Proof.
  intros [H|H].
  - subst s. exists 0%nat, 0%nat. split; [lia|].
    apply (Good_weaken [] ops 0 0 0 0); try lia. apply (BInv_Good [] _ BInv_init).
  - apply in_c_trace in H. destruct H as (ops1 & o & ops2 & -> & H).
    pose proof (op_lemma ops1 _ o (BInv_run ops1)) as (HG & _).
    rewrite Forall_forall in HG. specialize (HG s H).
    exists (nflush max ops1), (nflush max (ops1 ++ [o])).
    replace (ops1 ++ o :: ops2) with ((ops1 ++ [o]) ++ ops2) by (rewrite <- app_assoc; reflexivity).
    split; [apply nflush_app|].
    apply (Good_weaken _ _ (nflush max ops1) _ (nflush max (ops1 ++ [o])) _); try lia. exact HG.
Qed.

Lemma c_run_app s a b : c_run s (a ++ b) = c_run (c_run s a) b.
Proof. unfold c_run. apply fold_left_app. Qed.

(** ... and the crash points after a prefix [a] of the history have at least the flushes of [a] completed *)
Lemma crash_points_good_from a b s :
  In s (crash_points (c_run (c_init kind sync max l0) a) b) ->
  exists lo hi, (nflush max a <= lo)%nat /\ (hi <= nflush max (a ++ b))%nat /\ Good (a ++ b) lo hi s.
Proof.
  intros [H|H].
  - subst s. exists (nflush max a), (nflush max a). split; [lia|]. split; [apply nflush_app|].
    apply (Good_weaken a b (nflush max a) _ (nflush max a) _); try lia. apply BInv_Good. apply BInv_run.
  - apply in_c_trace in H. destruct H as (b1 & o & b2 & -> & H). rewrite <- c_run_app in H.
    pose proof (op_lemma (a ++ b1) _ o (BInv_run (a ++ b1))) as (HG & _).
    rewrite Forall_forall in HG. specialize (HG s H).
    exists (nflush max (a ++ b1)), (nflush max ((a ++ b1) ++ [o])).
    replace (a ++ b1 ++ o :: b2) with (((a ++ b1) ++ [o]) ++ b2) by (rewrite <- !app_assoc; reflexivity).
    split; [apply nflush_app|]. split; [apply nflush_app|].
    apply (Good_weaken _ _ (nflush max (a ++ b1)) _ (nflush max ((a ++ b1) ++ [o])) _); try lia. exact HG.
Qed.

End Inv.

(** ---- the theorems of C10 ---- *)
Section Theorems.
Variables (kind : pkind) (max : Z) (l0 : ldisk).
Hypothesis Hl0 : all_synced l0.
Let m0 : mapspec := disk_map (recover l0).

(** any write option: a crash image recovers to the map after exactly j flushes, j <= started *)
Lemma atomic_in_order sync ops s l' :
  In s (crash_points (c_init kind sync max l0) ops) -> crash_ok (c_log s) l' ->
  exists j, (j <= c_started s)%nat /\ (c_started s <= nflush max ops)%nat
            /\ forall k, dget k (recover l') = boundary max m0 ops j k.
Proof.
  intros Hin (lost & E & Hu).
  destruct (crash_points_good max m0 sync kind l0 Hl0 (fun k => eq_refl) ops s Hin) as (lo & hi & Hhi & (_ & _ & _ & H3 & HL)).
  destruct (HL lost l' E Hu) as (j & Hj & _ & _ & Hk). exists j. repeat split; auto; lia.
Qed.

(** Sync: true -- completed <= j <= started *)
Lemma flush_boundary ops s l' :
  In s (crash_points (c_init kind true max l0) ops) -> crash_ok (c_log s) l' ->
  exists j, (c_completed s <= j <= c_started s)%nat /\ (c_started s <= nflush max ops)%nat
            /\ forall k, dget k (recover l') = boundary max m0 ops j k.
Proof.
  intros Hin (lost & E & Hu).
  destruct (crash_points_good max m0 true kind l0 Hl0 (fun k => eq_refl) ops s Hin) as (lo & hi & Hhi & (_ & _ & _ & H3 & HL)).
  destruct (HL lost l' E Hu) as (j & Hj & _ & Hlo & Hk). specialize (Hlo eq_refl).
  exists j. repeat split; auto; lia.
Qed.

Lemma synced_survive ops s :
  In s (crash_points (c_init kind true max l0) ops) ->
  exists j, (c_completed s <= j <= c_started s)%nat
            /\ forall k, dget k (recover (lose_all_unsynced (c_log s))) = boundary max m0 ops j k.
Proof.
  intros Hin. destruct (flush_boundary ops s _ Hin (lose_all_unsynced_ok (c_log s))) as (j & Hj & _ & Hk).
  exists j. split; assumption.
Qed.

(** between two operations nothing is in flight: exactly the flushes of the history so far, all of them *)
Lemma boundary_state sync ops :
  let s := c_run (c_init kind sync max l0) ops in
  c_started s = nflush max ops /\ c_completed s = nflush max ops
  /\ (forall k, dget k (recover (c_log s)) = boundary max m0 ops (nflush max ops) k)
  /\ (sync = true -> forall l', crash_ok (c_log s) l' -> l' = c_log s).
Proof.
  cbv zeta. pose proof (BInv_run max m0 sync kind l0 Hl0 (fun k => eq_refl) ops) as (_ & _ & _ & H1 & H2 & _ & Ha & HL & _).
  repeat split; auto.
  - intros k. destruct (HL [] _ eq_refl (Forall_nil _)) as (j & _ & Hj & _ & Hk). rewrite Hk, (Hj eq_refl). reflexivity.
  - intros Es l' Hc. apply crash_all_synced; auto.
Qed.

(** the ghost counters are the flush counts of the property text *)
Lemma counters_inside_op sync ops1 o s :
  In s (op_trace (c_run (c_init kind sync max l0) ops1) o) ->
  (nflush max ops1 <= c_completed s <= c_started s)%nat /\ (c_started s <= nflush max (ops1 ++ [o]))%nat
  /\ (nflush max (ops1 ++ [o]) <= S (nflush max ops1))%nat.
Proof.
  intros H.
  pose proof (op_lemma max m0 sync ops1 _ o (BInv_run max m0 sync kind l0 Hl0 (fun k => eq_refl) ops1)) as (HG & _).
  rewrite Forall_forall in HG. destruct (HG s H) as (_ & A & B & C & _).
  repeat split; try lia. rewrite nflush_snoc. destruct (flushes max (pend_after max 0 ops1) o); lia.
Qed.
End Theorems.

(** ---- exposure ---- *)
Lemma pend_after_nonneg max ops : forall pend, 0 <= pend -> 0 <= pend_after max pend ops.
Proof.
  induction ops as [|o ops IH]; intros pend H; cbn [pend_after]; [exact H|].
  destruct (is_write o); [destruct (pend + 1 <? max)|destruct (is_flush_op o)]; apply IH; lia.
Qed.

Lemma flush_soon max ops : forall pend i,
  pend < max -> (existsb is_flush_op ops = true \/ max - pend <= writes ops) ->
  flush_pos max pend i ops <> [].
Proof.
  induction ops as [|o ops IH]; intros pend i Hp H; cbn [flush_pos existsb writes] in *.
  - destruct H as [H|H]; [discriminate|lia].
  - destruct (is_write o) eqn:Ew.
    + destruct (pend + 1 <? max) eqn:El; [|discriminate].
      apply IH; [lia|]. destruct H as [H|H].
      * left. destruct o as [[| | | |]|]; try discriminate; exact H.
      * right. lia.
    + destruct (is_flush_op o) eqn:Ef; [discriminate|].
      apply IH; [exact Hp|]. destruct H as [H|H]; [left; exact H|right; lia].
Qed.

Lemma exposure_spec max ops1 o ops2 :
  is_write o = true -> (existsb is_flush_op ops2 = true \/ max - 1 <= writes ops2) ->
  (nflush max ops1 < nflush max (ops1 ++ o :: ops2))%nat.
Proof.
  intros Hw H. unfold nflush. rewrite flush_pos_app, app_length.
  set (p := pend_after max 0 ops1). assert (Hp : 0 <= p) by (apply pend_after_nonneg; lia).
  assert (Hne : flush_pos max p (0 + length ops1) (o :: ops2) <> []).
  { cbn [flush_pos]. rewrite Hw. destruct (p + 1 <? max) eqn:El; [|discriminate].
    apply flush_soon; [lia|]. destruct H as [H|H]; [left; exact H|right; lia]. }
  destruct (flush_pos max p (0 + length ops1) (o :: ops2)); [congruence|]. simpl. lia.
Qed.

(** a flush boundary beyond the flushes of a prefix lies beyond that prefix *)
Lemma late_boundary max ops1 tail j :
  (nflush max ops1 < j <= nflush max (ops1 ++ tail))%nat ->
  (length ops1 < nth j (0%nat :: flush_pos max 0 0 (ops1 ++ tail)) 0%nat)%nat.
Proof.
  unfold nflush. rewrite flush_pos_app, app_length. intros H.
  destruct j as [|j]; [lia|]. cbn [nth]. rewrite app_nth2 by lia.
  set (f2 := flush_pos _ _ _ tail) in *.
  assert (Hin : In (nth (j - length (flush_pos max 0 0 ops1)) f2 0%nat) f2) by (apply nth_In; lia).
  apply flush_pos_bounds in Hin. lia.
Qed.

Lemma exposure kind max l0 ops1 o ops2 rest s l' :
  all_synced l0 -> is_write o = true ->
  (existsb is_flush_op ops2 = true \/ max - 1 <= writes ops2) ->
  In s (crash_points (c_run (c_init kind true max l0) (ops1 ++ o :: ops2)) rest) ->
  crash_ok (c_log s) l' ->
  exists n, (length ops1 < n <= length ((ops1 ++ o :: ops2) ++ rest))%nat
            /\ forall k, dget k (recover l') = state_after (disk_map (recover l0)) ((ops1 ++ o :: ops2) ++ rest) n k.
Proof.
  intros Hl0 Hw Hc Hin (lost & E & Hu).
  set (ops := ops1 ++ o :: ops2) in *.
  destruct (crash_points_good_from max (disk_map (recover l0)) true kind l0 Hl0 (fun k => eq_refl) ops rest s Hin)
    as (lo & hi & Hlo & Hhi & (_ & A & B & C & HL)).
  destruct (HL lost l' E Hu) as (j & Hj & _ & Hge & Hk). specialize (Hge eq_refl).
  pose proof (exposure_spec max ops1 o ops2 Hw Hc) as Hex. fold ops in Hex.
  exists (nth j (0%nat :: flush_pos max 0 0 (ops ++ rest)) 0%nat). split; [split|].
  - unfold ops. rewrite <- app_assoc. apply late_boundary. rewrite app_assoc. fold ops. lia.
  - apply nth_pos_bound.
  - exact Hk.
Qed.

(** ---- tie to the persister models of C08/C09 (LevelDb.v, SerialDb.v) ----
    Without a crash the log model is the association-list model: recovering the whole log gives
    the [d_disk] of the persister model that the `persist` component runs against /repo. *)
Definition to_pers (s : cst) : pers :=
  match c_kind s with
  | KDb => PBase (BDb {| d_batch := c_batch s; d_size := c_size s; d_max := c_max s;
                         d_disk := recover (c_log s); d_open := true |})
  | KSerial => PBase (BSer {| s_batch := c_batch s; s_size := c_size s; s_max := c_max s;
                              s_disk := recover (c_log s); s_open := true |})
  end.

Lemma recover_flush sync l recs :
  recover (ld_write_done sync (ld_write_start l recs) recs) = apply_log recs (recover l).
Proof. rewrite recover_write_done, recover_write_start. reflexivity. Qed.

Lemma refines_persist s o : to_pers (c_step s o) = fst (p_step2 (to_pers s) o).
Proof.
  Local Opaque ld_write_start ld_write_done recover apply_log batch_put batch_delete.
  unfold c_step, to_pers.
  destruct o as [[k v|k|k|k|]|]; destruct (c_kind s) eqn:Ek;
    unfold op_trace, update_trace, flush_trace, cycle_trace, reopen, sync_log, p_step2, p_step, p_cycle, p_put, p_remove, p_tick, p_close,
      p_reopen, b_put, b_remove, b_tick, b_close, b_reopen, db_put, db_remove, db_tick, db_close, db_reopen, sdb_put,
      sdb_remove, sdb_tick, sdb_close, sdb_reopen, db_update_batch_with_increment, sdb_update_batch_with_increment,
      db_put_batch, sdb_put_batch, new_db, new_sdb;
    simpl; rewrite ?Ek; try (destruct (c_size s + 1 <? c_max s)); simpl; rewrite ?Ek, ?recover_sync, ?recover_flush; reflexivity.
Qed.
