(** Model of leveldb/leveldbSerial.go + serialActions.go (type SerialDB), sequential behaviour,
    as the code is after the fix commits F10/F11/F14 (C08, C09).

    The process loop is sequentially transparent: a request written into `dbAccess` is executed
    at once against LevelDB ([doPutRequest/doGetRequest/doHasRequest]); after Close the context is
    cancelled and the closer is closed, so [tryWriteInDbAccessChan] answers ErrDBIsClosed. *)
From Coq Require Import List NArith ZArith Bool.
From Verif Require Import Base.BStr Persist.Batch.
Import ListNotations.
Open Scope Z_scope.

Record sdb : Type := {
  s_batch : batch;
  s_size : Z;
  s_max : Z;
  s_disk : disk;
  s_open : bool
}.

Definition new_sdb (max : Z) (d : disk) : sdb :=
  {| s_batch := new_batch; s_size := 0; s_max := max; s_disk := d; s_open := true |}.

(** putBatch (under mutBatch): send the CURRENT batch to the process loop, wait for the answer;
    on success sizeBatch = 0 and batch = NewBatch(); on error nothing changes *)
Definition sdb_put_batch (s : sdb) : sdb * rclass :=
  if s_open s then
    ({| s_batch := new_batch; s_size := 0; s_max := s_max s;
        s_disk := apply_log (b_log (s_batch s)) (s_disk s); s_open := s_open s |}, ROk)
  else (s, RClosed).

(** updateBatchWithIncrement *)
Definition sdb_update_batch_with_increment (s : sdb) : sdb * rclass :=
  let s1 := {| s_batch := s_batch s; s_size := s_size s + 1; s_max := s_max s; s_disk := s_disk s; s_open := s_open s |} in
  if s_size s1 <? s_max s1 then (s1, ROk) else sdb_put_batch s1.

Definition sdb_set_batch (s : sdb) (b : batch) : sdb :=
  {| s_batch := b; s_size := s_size s; s_max := s_max s; s_disk := s_disk s; s_open := s_open s |}.

(** Put / Remove: isClosed() first *)
Definition sdb_put (s : sdb) (k : key) (v : val) : sdb * rclass :=
  if negb (s_open s) then (s, RClosed)
  else sdb_update_batch_with_increment (sdb_set_batch s (batch_put (s_batch s) k v)).

Definition sdb_remove (s : sdb) (k : key) : sdb * rclass :=
  if negb (s_open s) then (s, RClosed)
  else sdb_update_batch_with_increment (sdb_set_batch s (batch_delete (s_batch s) k)).

Definition sdb_get (s : sdb) (k : key) : rclass * val :=
  if negb (s_open s) then (RClosed, None)
  else if batch_is_removed (s_batch s) k then (RNotFound, None)
  else match batch_get (s_batch s) k with
       | Some data => (ROk, Some data)
       | None =>
           (* getAct through the process loop *)
           match dget k (s_disk s) with
           | None => (RNotFound, None)
           | Some data => (ROk, Some data)
           end
       end.

Definition sdb_has (s : sdb) (k : key) : rclass :=
  if negb (s_open s) then RClosed
  else if batch_is_removed (s_batch s) k then RNotFound
  else match batch_get (s_batch s) k with
       | Some _ => ROk
       | None =>
           match dget k (s_disk s) with
           | None => RNotFound
           | Some _ => ROk
           end
       end.

(** one firing of the timer: putBatch(), error only logged *)
Definition sdb_tick (s : sdb) : sdb := fst (sdb_put_batch s).

(** Close = doClose: `_ = putBatch()`; cancel; pointer := nil; db.Close() *)
Definition sdb_close (s : sdb) : sdb * rclass :=
  let s1 := fst (sdb_put_batch s) in
  ({| s_batch := s_batch s1; s_size := s_size s1; s_max := s_max s1; s_disk := s_disk s1; s_open := false |}, ROk).

Definition sdb_range (s : sdb) : list (key * bytes) :=
  if s_open s then s_disk s else [].

Definition sdb_reopen (s : sdb) : sdb := new_sdb (s_max s) (s_disk s).

Definition sdb_range_with {St : Type} (h : St -> key * bytes -> St * bool) (st : St) (s : sdb) : St :=
  if s_open s then iter_with h st (ksort (s_disk s)) else st.

(** Destroy: doClose (`_ = putBatch()`: the pending batch IS written first; cancel; pointer := nil; db.Close());
    when that returned nil, os.RemoveAll(path); the closer is closed last *)
Definition sdb_destroy (s : sdb) : sdb * rclass :=
  let s1 := fst (sdb_put_batch s) in
  ({| s_batch := s_batch s1; s_size := s_size s1; s_max := s_max s1; s_disk := []; s_open := false |}, ROk).

(** DestroyClosed: os.RemoveAll(path), nothing else (see [db_destroy_closed]) *)
Definition sdb_destroy_closed (s : sdb) : sdb * rclass :=
  ({| s_batch := s_batch s; s_size := s_size s; s_max := s_max s; s_disk := []; s_open := s_open s |}, ROk).
