(** Wire-format wrapper of the persister models (component `persist`, C08 / C09 / C19).

    config: kind maxBatchSize numShards batchDelaySeconds [ alphabet of keys ]
            (batchDelaySeconds is for the Go side only: the timer is the explicit op 5 here)
    ops:    1 Put k v (v = `-` nil, `b` empty)   2 Remove k   3 Get k   4 Has k
            5 Tick (every timer fires once)      6 Close      7 Reopen (the constructor again on the same path;
            refused with class 3 unless Close was called on the current object)   8 RangeKeys
    answer after EVERY op:
            1 = result class of the op (0 ok, 1 notfound, 2 closed, 3 other)
            2 = bytes returned by Get (nil and empty both `b`; `-` when nothing is returned)
            3 = [ class of Get k for every k of the alphabet ]   4 = [ bytes of Get k ... ]
            5 = [ class of Has k for every k of the alphabet ]
            6 = (op 8 only) [ k1 v1 k2 v2 ... ] sorted by key (then value)
    C09 additions (codes 1-8 and labels 1-6 unchanged):
            9 RangeKeys n   -- RangeKeys with a handler that answers `calls so far < n` (stops after n visits; n = 0
                               and n = 1 both stop at the first pair).  7 = number of calls of the handler (unsharded
                               persisters only: for the sharded one it depends on the order in which Go walks the map of
                               shards); 8 = [ k1 v1 ... ] in the order of the calls (DB / SerialDB only: ascending keys)
            10 Destroy      -- on the current object, open or not; the constructor may be called afterwards (op 7)
            11 DestroyClosed -- refused with class 3 unless Close or Destroy was called on the current object
            12 Judge n [ k1 v1 ... ] -- inserted by the Go driver after every op 9: the pairs the implementation's
                               handler was given, in call order; 9 = 1 iff the model can explain them (some order of the
                               shards / of the Go map), see [p_accept_stop] *)
From Coq Require Import List NArith ZArith Bool.
From Verif Require Import Base.Generic Base.BStr Persist.Batch Persist.LevelDb Persist.SerialDb Persist.MemDb
  Persist.ShardId Persist.ShardedDb.
Import ListNotations.
Open Scope N_scope.

Record pstate : Type := {
  ps_alpha : list bytes;
  ps_closed : bool;       (* Close was called on the current object (harness protocol, not persister state) *)
  ps_p : pers
}.

Definition class_N (c : rclass) : N :=
  match c with ROk => 0 | RNotFound => 1 | RClosed => 2 | ROther => 3 end.
Definition g_class (c : rclass) : garg := g_N (class_N c).
Definition g_ret (r : rclass * val) : garg :=
  match fst r with ROk => GB (val_bytes (snd r)) | _ => GNil end.

Definition pair_cmp (a b : key * bytes) : comparison :=
  match bcmp (fst a) (fst b) with Eq => bcmp (snd a) (snd b) | c => c end.
Fixpoint pinsert (x : key * bytes) (l : list (key * bytes)) : list (key * bytes) :=
  match l with
  | [] => [x]
  | y :: r => match pair_cmp x y with Gt => y :: pinsert x r | _ => x :: l end
  end.
Definition psort (l : list (key * bytes)) : list (key * bytes) := fold_right pinsert [] l.
Definition g_pairs (l : list (key * bytes)) : garg :=
  GL (flat_map (fun p => [GB (fst p); GB (snd p)]) (psort l)).

Definition g_pairs_in_order (l : list (key * bytes)) : garg :=
  GL (flat_map (fun p => [GB (fst p); GB (snd p)]) l).
Fixpoint kv_of_args (l : list garg) : list (key * bytes) :=
  match l with
  | GB k :: GB v :: r => (k, v) :: kv_of_args r
  | _ => []
  end.
(** what op 9 prints beside the class: only what does not depend on an order the implementation chooses *)
Definition stop_obs (n : nat) (p : pers) : list obs :=
  match p with
  | PBase (BMem _) => [(7, g_N (N.of_nat (length (p_range_stop n p))))]
  | PBase _ => [(7, g_N (N.of_nat (length (p_range_stop n p)))); (8, g_pairs_in_order (p_range_stop n p))]
  | PSharded _ => []
  end.

Definition probes (s : pstate) : list obs :=
  [ (3, GL (map (fun k => g_class (fst (p_get (ps_p s) k))) (ps_alpha s)));
    (4, GL (map (fun k => g_ret (p_get (ps_p s) k)) (ps_alpha s)));
    (5, GL (map (fun k => g_class (p_has (ps_p s) k)) (ps_alpha s))) ].

Definition with_p (s : pstate) (p : pers) : pstate :=
  {| ps_alpha := ps_alpha s; ps_closed := ps_closed s; ps_p := p |}.

Definition persist_step (s : pstate) (code : N) (args : list garg) : pstate * list obs :=
  let k := arg_B (nth_arg args 0) in
  let '(s', out) :=
    match code with
    | 1 => let (p', r) := p_put (ps_p s) k (arg_optB (nth_arg args 1)) in
           (with_p s p', [(1, g_class r); (2, GNil)])
    | 2 => let (p', r) := p_remove (ps_p s) k in
           (with_p s p', [(1, g_class r); (2, GNil)])
    | 3 => let r := p_get (ps_p s) k in (s, [(1, g_class (fst r)); (2, g_ret r)])
    | 4 => (s, [(1, g_class (p_has (ps_p s) k)); (2, GNil)])
    | 5 => (with_p s (p_tick (ps_p s)), [(1, g_class ROk); (2, GNil)])
    | 6 => let (p', r) := p_close (ps_p s) in
           ({| ps_alpha := ps_alpha s; ps_closed := true; ps_p := p' |}, [(1, g_class r); (2, GNil)])
    | 7 => if ps_closed s
           then ({| ps_alpha := ps_alpha s; ps_closed := false; ps_p := p_reopen (ps_p s) |}, [(1, g_class ROk); (2, GNil)])
           else (s, [(1, g_class ROther); (2, GNil)])
    | 8 => (s, [(1, g_class ROk); (2, GNil); (6, g_pairs (p_range (ps_p s)))])
    | 9 => (s, [(1, g_class ROk); (2, GNil)] ++ stop_obs (N.to_nat (arg_N (nth_arg args 0))) (ps_p s))
    | 10 => let (p', r) := p_destroy (ps_p s) in
            ({| ps_alpha := ps_alpha s; ps_closed := true; ps_p := p' |}, [(1, g_class r); (2, GNil)])
    | 11 => if ps_closed s
            then let (p', r) := p_destroy_closed (ps_p s) in (with_p s p', [(1, g_class r); (2, GNil)])
            else (s, [(1, g_class ROther); (2, GNil)])
    | 12 => (s, [(1, g_class ROk); (2, GNil);
                 (9, g_bool (p_accept_stop (N.to_nat (arg_N (nth_arg args 0))) (ps_p s) (kv_of_args (arg_L (nth_arg args 1)))))])
    | _ => (s, [])
    end in
  (s', out ++ probes s').

Definition persist_init (cfg : list garg) : option pstate :=
  let kind := arg_N (nth_arg cfg 0) in
  let max := arg_Z (nth_arg cfg 1) in
  let nsh := arg_N (nth_arg cfg 2) in
  let alpha := map arg_B (arg_L (nth_arg cfg 4)) in
  match new_pers kind max nsh with
  | Some p => Some {| ps_alpha := alpha; ps_closed := false; ps_p := p |}
  | None => None
  end.

Definition persist_component : component :=
  {| c_state := pstate; c_init := persist_init; c_step := persist_step |}.
