(** Model of leveldb/batch.go (C08, C09) and of the part of goleveldb the persisters rely on.

    Go maps become association lists (`alookup/aset/aremove`), the removal set a list of keys.
    A Go []byte is a [val]: [None] is the nil slice, [Some []] the empty non-nil slice -- the
    code tests `data != nil`, so the difference is kept exactly where the code looks at it.

    goleveldb is NOT modelled, it is stood in for by (modelling assumption, see TEXTS note):
      - a [leveldb.Batch] is the list of its Put/Delete records in the order they were appended,
      - [db.Write batch] applies the records in that order, atomically,
      - the content of a database is an association list [disk]; a cleanly closed database
        reopens with the same content. *)
From Coq Require Import List NArith Bool.
From Verif Require Import Base.BStr.
Import ListNotations.

Definition key := bytes.
Definition val := option bytes.
Definition val_bytes (v : val) : bytes := match v with Some b => b | None => [] end.

(** Go map[string]X *)
Fixpoint alookup {A} (k : key) (l : list (key * A)) : option A :=
  match l with
  | [] => None
  | (k', v) :: r => if beqb k k' then Some v else alookup k r
  end.
Fixpoint aremove {A} (k : key) (l : list (key * A)) : list (key * A) :=
  match l with
  | [] => []
  | (k', v) :: r => if beqb k k' then aremove k r else (k', v) :: aremove k r
  end.
Definition aset {A} (k : key) (v : A) (l : list (key * A)) : list (key * A) := (k, v) :: aremove k l.

(** Go map[string]struct{} *)
Definition smem (k : key) (l : list key) : bool := existsb (beqb k) l.
Definition sremove (k : key) (l : list key) : list key := filter (fun x => negb (beqb k x)) l.
Definition sadd (k : key) (l : list key) : list key := k :: sremove k l.

(** ---- goleveldb stand-in ---- *)
Inductive brec : Type := BPut (k : key) (v : bytes) | BDel (k : key).
Definition disk := list (key * bytes).

Definition apply_rec (r : brec) (d : disk) : disk :=
  match r with
  | BPut k v => aset k v d
  | BDel k => aremove k d
  end.
(** the log is kept newest first; [fold_right] therefore applies the oldest record first *)
Definition apply_log (log : list brec) (d : disk) : disk := fold_right apply_rec d log.
Definition dget (k : key) (d : disk) : option bytes := alookup k d.

(** ---- leveldb/batch.go ---- *)
Record batch : Type := {
  b_log : list brec;            (* batch.batch, the goleveldb Batch; newest record first *)
  b_cached : list (key * val);  (* cachedData  map[string][]byte *)
  b_removed : list key          (* removedData map[string]struct{} *)
}.

Definition new_batch : batch := {| b_log := []; b_cached := []; b_removed := [] |}.

(** Put: `if val == nil { val = make([]byte, 0) }`; batch.Put; cachedData[key] = val; delete(removedData, key) *)
Definition batch_put (b : batch) (k : key) (v : val) : batch :=
  let v' := match v with None => Some [] | Some _ => v end in
  {| b_log := BPut k (val_bytes v') :: b_log b;
     b_cached := aset k v' (b_cached b);
     b_removed := sremove k (b_removed b) |}.

(** Delete: batch.Delete; removedData[key] = {}; delete(cachedData, key) *)
Definition batch_delete (b : batch) (k : key) : batch :=
  {| b_log := BDel k :: b_log b;
     b_cached := aremove k (b_cached b);
     b_removed := sadd k (b_removed b) |}.

Definition batch_reset (b : batch) : batch := new_batch.

(** Get returns cachedData[key]: the nil slice when the key is absent *)
Definition batch_get (b : batch) (k : key) : val :=
  match alookup k (b_cached b) with Some v => v | None => None end.

Definition batch_is_removed (b : batch) (k : key) : bool := smem k (b_removed b).

(** result classes of the persister API: nil / ErrKeyNotFound / ErrDBIsClosed / anything else *)
Inductive rclass : Type := ROk | RNotFound | RClosed | ROther.

(** ---- RangeKeys with a handler that may stop the iteration (C09) ----
    goleveldb's iterator delivers the pairs in ascending key order (bytes.Compare): the association
    list standing for the directory is sorted by key before it is walked. *)
Fixpoint kinsert (x : key * bytes) (l : list (key * bytes)) : list (key * bytes) :=
  match l with
  | [] => [x]
  | y :: r => match bcmp (fst x) (fst y) with Gt => y :: kinsert x r | _ => x :: l end
  end.
Definition ksort (l : list (key * bytes)) : list (key * bytes) := fold_right kinsert [] l.

(** the loop `for iterator.Next() { if !handler(key, value) { break } }` over the pairs [l], for a handler
    with a state of its own (a Go closure) *)
Fixpoint iter_with {St : Type} (h : St -> key * bytes -> St * bool) (st : St) (l : list (key * bytes)) : St :=
  match l with
  | [] => st
  | p :: r => let (st', go) := h st p in if go then iter_with h st' r else st'
  end.

(** the handler of the harness: it remembers every pair it is given (newest first) and answers
    `number of calls so far < n`: n = 0 and n = 1 both ask to stop at the first pair *)
Definition visits := list (key * bytes).
Definition stop_handler (n : nat) (st : visits) (p : key * bytes) : visits * bool :=
  let st' := p :: st in (st', Nat.ltb (length st') n).

(** how many pairs a persister holding [len] pairs delivers to [stop_handler n] after [c] earlier calls *)
Definition expected_run (n c len : nat) : nat :=
  match len with O => O | _ => Nat.min len (Nat.max 1 (n - c)) end.
