From Coq Require Import List NArith Bool Lia.
From Verif Require Import Base.BStr Persist.Batch Persist.MemDb Persist.MapSpec Persist.PersistSpec Persist.Batch_proofs.
Import ListNotations.

Lemma mem_put_abs s k v a : mem_abs (fst (mem_put s k v)) a = m_put (mem_abs s) k v a.
Proof.
  unfold mem_abs, mem_put, m_put, m_upd. cbn [fst]. rewrite alookup_aset. destruct (beqb a k); reflexivity.
Qed.

Lemma mem_remove_abs s k a : mem_abs (fst (mem_remove s k)) a = m_remove (mem_abs s) k a.
Proof.
  unfold mem_abs, mem_remove, m_remove, m_upd. cbn [fst]. rewrite alookup_aremove. destruct (beqb a k); reflexivity.
Qed.

Lemma mem_get_spec s k : canon_get (mem_get s k) = m_get (mem_abs s) k.
Proof. unfold mem_get, m_get, mem_abs. destruct (alookup k s); reflexivity. Qed.

Lemma mem_has_spec s k : mem_has s k = m_has (mem_abs s) k.
Proof. unfold mem_has, m_has, mem_abs. destruct (alookup k s); reflexivity. Qed.

Lemma mem_range_spec (s : mem) :
  NoDup (map fst s) -> presents (map (fun p => (fst p, val_bytes (snd p))) (mem_range s)) (mem_abs s).
Proof.
  intros H. unfold mem_range. split.
  - rewrite map_map. simpl. exact H.
  - intros k v. unfold mem_abs. rewrite in_map_iff. split.
    + intros ([k0 w] & E & Hin). simpl in E. inversion E; subst.
      apply (alookup_In k w s H) in Hin. rewrite Hin. reflexivity.
    + intros E. destruct (alookup k s) as [w|] eqn:El; [|discriminate]. simpl in E. inversion E; subst.
      exists (k, w). split; [reflexivity|]. apply (alookup_In k w s H). exact El.
Qed.
