From Coq Require Import List NArith Bool Lia.
From Verif Require Import Base.BStr Persist.Batch Persist.MapSpec Persist.PersistSpec.
Import ListNotations.

(** ---- association lists ---- *)
Section Assoc.
Context {A : Type}.
Implicit Types (l : list (key * A)) (k : key).

Lemma alookup_aremove k k' l :
  alookup k (aremove k' l) = if beqb k k' then None else alookup k l.
Proof.
  induction l as [|[k0 v0] l IH]; simpl.
  - destruct (beqb k k'); reflexivity.
  - destruct (beqb_spec k' k0) as [E|E].
    + subst k0. rewrite IH. destruct (beqb_spec k k'); reflexivity.
    + simpl. rewrite IH. destruct (beqb_spec k k0) as [E1|E1]; [|reflexivity].
      subst k0. destruct (beqb_spec k k') as [E2|E2]; [|reflexivity]. subst k'. congruence.
Qed.

Lemma alookup_aset k k' (v : A) l :
  alookup k (aset k' v l) = if beqb k k' then Some v else alookup k l.
Proof.
  unfold aset. simpl. destruct (beqb_spec k k') as [E|E]; [reflexivity|].
  rewrite alookup_aremove. destruct (beqb_spec k k'); congruence.
Qed.

Lemma keys_aremove k a l : In a (map fst (aremove k l)) <-> In a (map fst l) /\ a <> k.
Proof.
  induction l as [|[k0 v0] l IH]; simpl.
  - tauto.
  - destruct (beqb_spec k k0) as [E|E].
    + subst k0. rewrite IH. split; [tauto|]. intros [[H|H] Hn]; [congruence|tauto].
    + simpl. rewrite IH. split; [|tauto]. intros [H|H]; [|tauto]. subst a. split; [tauto|congruence].
Qed.

Lemma NoDup_aremove k l : NoDup (map fst l) -> NoDup (map fst (aremove k l)).
Proof.
  induction l as [|[k0 v0] l IH]; simpl; intros H; [constructor|].
  inversion H as [|x xs Hn Hd]; subst.
  destruct (beqb k k0); [auto|]. simpl. constructor; [|auto].
  rewrite keys_aremove. tauto.
Qed.

Lemma NoDup_aset k (v : A) l : NoDup (map fst l) -> NoDup (map fst (aset k v l)).
Proof.
  intros H. unfold aset. simpl. constructor; [|apply NoDup_aremove; exact H].
  rewrite keys_aremove. tauto.
Qed.

Lemma alookup_None k l : alookup k l = None <-> ~ In k (map fst l).
Proof.
  induction l as [|[k0 v0] l IH]; simpl; [tauto|].
  destruct (beqb_spec k k0) as [E|E].
  - subst. split; [discriminate|tauto].
  - rewrite IH. split; [intros H [H1|H1]; [congruence|tauto]|tauto].
Qed.

Lemma alookup_In k (v : A) l : NoDup (map fst l) -> (In (k, v) l <-> alookup k l = Some v).
Proof.
  induction l as [|[k0 v0] l IH]; simpl; intros H.
  - split; [tauto|discriminate].
  - inversion H as [|x xs Hn Hd]; subst.
    destruct (beqb_spec k k0) as [E|E].
    + subst k0. split.
      * intros [H1|H1]; [congruence|]. exfalso. apply Hn. apply (in_map fst) in H1. exact H1.
      * intros H1. left. congruence.
    + rewrite <- (IH Hd). split; [intros [H1|H1]; [congruence|exact H1]|tauto].
Qed.

Lemma alookup_Some_In k (v : A) l : alookup k l = Some v -> In k (map fst l).
Proof.
  intros H. destruct (in_dec (list_eq_dec N.eq_dec) k (map fst l)) as [Hi|Hi]; [exact Hi|].
  apply alookup_None in Hi. congruence.
Qed.
End Assoc.

(** ---- key sets ---- *)
Lemma smem_sremove a k l : smem a (sremove k l) = negb (beqb a k) && smem a l.
Proof.
  unfold smem, sremove. induction l as [|x l IH]; simpl.
  - rewrite andb_false_r. reflexivity.
  - destruct (beqb_spec k x) as [E|E]; simpl.
    + subst x. rewrite IH. destruct (beqb_spec a k); simpl; reflexivity.
    + rewrite IH. destruct (beqb_spec a x) as [E1|E1]; simpl.
      * subst x. destruct (beqb_spec a k); [congruence|reflexivity].
      * reflexivity.
Qed.

Lemma smem_sadd a k l : smem a (sadd k l) = beqb a k || smem a l.
Proof.
  unfold sadd. change (smem a (k :: sremove k l)) with (beqb a k || smem a (sremove k l)).
  rewrite smem_sremove. destruct (beqb a k); reflexivity.
Qed.

(** ---- goleveldb stand-in ---- *)
Lemma dget_apply_rec k r d :
  dget k (apply_rec r d) =
  match r with
  | BPut k' v => if beqb k k' then Some v else dget k d
  | BDel k' => if beqb k k' then None else dget k d
  end.
Proof. destruct r; simpl; unfold dget; [rewrite alookup_aset|rewrite alookup_aremove]; reflexivity. Qed.

Lemma NoDup_apply_rec r d : NoDup (map fst d) -> NoDup (map fst (apply_rec r d)).
Proof. destruct r; cbn [apply_rec]; [apply NoDup_aset|apply NoDup_aremove]. Qed.

Lemma NoDup_apply_log log d : NoDup (map fst d) -> NoDup (map fst (apply_log log d)).
Proof. induction log as [|r log IH]; simpl; intros H; [exact H|]. apply NoDup_apply_rec. auto. Qed.

Lemma keys_apply_rec r d a : In a (map fst (apply_rec r d)) -> a = rec_key r \/ In a (map fst d).
Proof.
  destruct r; simpl.
  - intros [H|H]; [left; congruence|]. apply keys_aremove in H. tauto.
  - intros H. apply keys_aremove in H. tauto.
Qed.

Lemma keys_apply_log log d a :
  In a (map fst (apply_log log d)) -> In a (map fst d) \/ In a (map rec_key log).
Proof.
  induction log as [|r log IH]; simpl; [tauto|].
  intros H. apply keys_apply_rec in H. destruct H as [H|H]; [right; left; congruence|].
  apply IH in H. tauto.
Qed.

(** ---- the batch invariant ---- *)
Lemma new_batch_ok : batch_ok new_batch.
Proof. unfold batch_ok; simpl. split; [discriminate|]. split; [discriminate|]. reflexivity. Qed.

Lemma batch_put_ok b k v : batch_ok b -> batch_ok (batch_put b k v).
Proof.
  intros (Hd & Hn & Hl). unfold batch_put. repeat split; cbn [b_removed b_cached b_log].
  - intros a Ha. rewrite smem_sremove in Ha. rewrite alookup_aset.
    destruct (beqb a k); [discriminate|]. apply Hd. exact Ha.
  - intros a w Ha. rewrite alookup_aset in Ha. destruct (beqb a k).
    + inversion Ha. destruct v; discriminate.
    + eapply Hn. exact Ha.
  - intros d a. cbn [apply_log fold_right]. fold (apply_log (b_log b) d).
    rewrite dget_apply_rec. unfold overlay. rewrite smem_sremove, alookup_aset.
    destruct (beqb a k); simpl.
    + destruct v; reflexivity.
    + apply Hl.
Qed.

Lemma batch_delete_ok b k : batch_ok b -> batch_ok (batch_delete b k).
Proof.
  intros (Hd & Hn & Hl). unfold batch_delete. repeat split; cbn [b_removed b_cached b_log].
  - intros a Ha. rewrite smem_sadd in Ha. rewrite alookup_aremove.
    destruct (beqb a k); [reflexivity|]. apply Hd. exact Ha.
  - intros a w Ha. rewrite alookup_aremove in Ha. destruct (beqb a k); [discriminate|].
    eapply Hn. exact Ha.
  - intros d a. cbn [apply_log fold_right]. fold (apply_log (b_log b) d).
    rewrite dget_apply_rec. unfold overlay. rewrite smem_sadd, alookup_aremove.
    destruct (beqb a k); simpl; [reflexivity|apply Hl].
Qed.

(** abstraction of put / delete / flush *)
Lemma batch_abs_put b d k v a :
  batch_abs (batch_put b k v) d a = m_put (batch_abs b d) k v a.
Proof.
  unfold batch_abs, overlay, m_put, m_upd, batch_put. cbn [b_removed b_cached].
  rewrite smem_sremove, alookup_aset. destruct (beqb a k); simpl; [destruct v; reflexivity|reflexivity].
Qed.

Lemma batch_abs_delete b d k a :
  batch_abs (batch_delete b k) d a = m_remove (batch_abs b d) k a.
Proof.
  unfold batch_abs, overlay, m_remove, m_upd, batch_delete. cbn [b_removed b_cached].
  rewrite smem_sadd, alookup_aremove. destruct (beqb a k); simpl; reflexivity.
Qed.

Lemma batch_abs_flush b d a :
  batch_ok b -> batch_abs new_batch (apply_log (b_log b) d) a = batch_abs b d a.
Proof.
  intros (_ & _ & Hl). unfold batch_abs at 1. unfold overlay. simpl. unfold disk_map. apply Hl.
Qed.

(** what the read path computes is the abstraction *)
Lemma read_path_get b d k :
  batch_ok b ->
  canon_get (if batch_is_removed b k then (RNotFound, None)
             else match batch_get b k with
                  | Some data => (ROk, Some data)
                  | None => match dget k d with None => (RNotFound, None) | Some data => (ROk, Some data) end
                  end)
  = m_get (batch_abs b d) k.
Proof.
  intros (Hd & Hn & _). unfold batch_is_removed, batch_get, m_get, batch_abs, overlay, disk_map.
  destruct (smem k (b_removed b)) eqn:Er; [reflexivity|].
  destruct (alookup k (b_cached b)) as [w|] eqn:Ec.
  - destruct w as [w|]; [reflexivity|]. exfalso. eapply Hn; [exact Ec|reflexivity].
  - destruct (dget k d); reflexivity.
Qed.

Lemma read_path_has b d k :
  batch_ok b ->
  (if batch_is_removed b k then RNotFound
   else match batch_get b k with
        | Some _ => ROk
        | None => match dget k d with None => RNotFound | Some _ => ROk end
        end)
  = m_has (batch_abs b d) k.
Proof.
  intros (Hd & Hn & _). unfold batch_is_removed, batch_get, m_has, batch_abs, overlay, disk_map.
  destruct (smem k (b_removed b)) eqn:Er; [reflexivity|].
  destruct (alookup k (b_cached b)) as [w|] eqn:Ec.
  - destruct w as [w|]; [reflexivity|]. exfalso. eapply Hn; [exact Ec|reflexivity].
  - destruct (dget k d); reflexivity.
Qed.

(** a disk presents its own map *)
Lemma disk_presents d : NoDup (map fst d) -> presents d (disk_map d).
Proof. intros H. split; [exact H|]. intros k v. unfold disk_map, dget. apply alookup_In. exact H. Qed.

(** ---- the specification respects pointwise equality of maps ---- *)
Lemma spec_step_ext m m' o :
  (forall k, m k = m' k) ->
  snd (spec_step m o) = snd (spec_step m' o) /\ forall k, fst (spec_step m o) k = fst (spec_step m' o) k.
Proof.
  intros H. destruct o; simpl; unfold m_put, m_remove, m_upd, m_get, m_has.
  - split; [reflexivity|]. intros a. destruct (beqb a k); auto.
  - split; [reflexivity|]. intros a. destruct (beqb a k); auto.
  - rewrite H. split; [reflexivity|exact H].
  - rewrite H. split; [reflexivity|exact H].
  - split; [reflexivity|exact H].
Qed.

Lemma spec_run_ext ops : forall m m',
  (forall k, m k = m' k) ->
  snd (spec_run m ops) = snd (spec_run m' ops) /\ forall k, fst (spec_run m ops) k = fst (spec_run m' ops) k.
Proof.
  induction ops as [|o ops IH]; intros m m' H; simpl.
  - split; [reflexivity|exact H].
  - destruct (spec_step_ext m m' o H) as (Ha & Hm).
    destruct (spec_step m o) as [m1 a1]. destruct (spec_step m' o) as [m1' a1']. simpl in *.
    destruct (IH m1 m1' Hm) as (Hl & Hf).
    destruct (spec_run m1 ops) as [m2 l2]. destruct (spec_run m1' ops) as [m2' l2']. simpl in *.
    split; [congruence|exact Hf].
Qed.
