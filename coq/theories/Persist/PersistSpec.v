(** Vocabulary of the persister theorems (definitions only): abstraction functions into
    [mapspec], well-formedness of the states reachable from the constructors, and the run
    of an operation list on a persister. *)
From Coq Require Import List NArith ZArith Bool Permutation.
From Verif Require Import Base.BStr Persist.Batch Persist.LevelDb Persist.SerialDb Persist.MemDb Persist.MapSpec
  Persist.ShardId Persist.ShardedDb.
Import ListNotations.

(** what a read sees: pending removals, then pending puts, then LevelDB *)
Definition overlay (removed : list key) (cached : list (key * val)) (d : mapspec) : mapspec :=
  fun k => if smem k removed then None
           else match alookup k cached with
                | Some v => Some (val_bytes v)
                | None => d k
                end.
Definition disk_map (d : disk) : mapspec := fun k => dget k d.
Definition batch_abs (b : batch) (d : disk) : mapspec := overlay (b_removed b) (b_cached b) (disk_map d).

(** invariant of a batch: removal set and pending puts are disjoint, no pending value is the nil
    slice, and writing the goleveldb batch has exactly the effect the two maps announce *)
Definition batch_ok (b : batch) : Prop :=
  (forall k, smem k (b_removed b) = true -> alookup k (b_cached b) = None)
  /\ (forall k v, alookup k (b_cached b) = Some v -> v <> None)
  /\ (forall d k, dget k (apply_log (b_log b) d) = overlay (b_removed b) (b_cached b) (disk_map d) k).

Definition rec_key (r : brec) : key := match r with BPut k _ => k | BDel k => k end.

Definition db_abs (s : db) : mapspec := batch_abs (d_batch s) (d_disk s).
Definition db_ok (s : db) : Prop := d_open s = true /\ batch_ok (d_batch s) /\ NoDup (map fst (d_disk s)).
Definition sdb_abs (s : sdb) : mapspec := batch_abs (s_batch s) (s_disk s).
Definition sdb_ok (s : sdb) : Prop := s_open s = true /\ batch_ok (s_batch s) /\ NoDup (map fst (s_disk s)).
Definition mem_abs (s : mem) : mapspec := fun k => option_map val_bytes (alookup k s).

Definition b_abs (b : base) : mapspec :=
  match b with BDb s => db_abs s | BSer s => sdb_abs s | BMem s => mem_abs s end.
Definition b_ok (b : base) : Prop :=
  match b with BDb s => db_ok s | BSer s => sdb_ok s | BMem s => NoDup (map fst s) end.
(** what LevelDB holds (memorydb: everything) *)
Definition b_flushed (b : base) : mapspec :=
  match b with BDb s => disk_map (d_disk s) | BSer s => disk_map (s_disk s) | BMem s => mem_abs s end.
(** keys a persister has ever been given (on disk or in the pending goleveldb batch) *)
Definition b_dom (b : base) : list key :=
  match b with
  | BDb s => map fst (d_disk s) ++ map rec_key (b_log (d_batch s))
  | BSer s => map fst (s_disk s) ++ map rec_key (b_log (s_batch s))
  | BMem s => map fst s
  end.
(** persisters with a path (Close/reopen keeps the content) *)
Definition b_durable (b : base) : Prop := match b with BMem _ => False | _ => True end.

Definition sh_abs (s : sharded) : mapspec := fun k => b_abs (get_shard s (shard_of s k)) k.
Definition sh_flushed (s : sharded) : mapspec := fun k => b_flushed (get_shard s (shard_of s k)) k.
Definition sh_ok (s : sharded) : Prop :=
  (2 <= sh_n s)%N /\ length (sh_shards s) = N.to_nat (sh_n s)
  /\ forall i b, nth_error (sh_shards s) i = Some b -> b_ok b /\ Forall (fun k => shard_of s k = i) (b_dom b).

Definition p_abs (p : pers) : mapspec := match p with PBase b => b_abs b | PSharded s => sh_abs s end.
Definition p_flushed (p : pers) : mapspec := match p with PBase b => b_flushed b | PSharded s => sh_flushed s end.
Definition p_ok (p : pers) : Prop := match p with PBase b => b_ok b | PSharded s => sh_ok s end.
Definition p_durable (p : pers) : Prop :=
  match p with PBase b => b_durable b | PSharded s => Forall b_durable (sh_shards s) end.

(** canonical answer of a Get: class, and the bytes (nil = empty) when the class is ok *)
Definition canon_get (r : rclass * val) : answer :=
  (fst r, match fst r with ROk => Some (val_bytes (snd r)) | _ => None end).

Definition b_step (b : base) (o : op) : base * answer :=
  match o with
  | OPut k v => let (b', r) := b_put b k v in (b', (r, None))
  | ORemove k => let (b', r) := b_remove b k in (b', (r, None))
  | OGet k => (b, canon_get (b_get b k))
  | OHas k => (b, (b_has b k, None))
  | OTick => (b_tick b, (ROk, None))
  end.

Definition p_step (p : pers) (o : op) : pers * answer :=
  match o with
  | OPut k v => let (p', r) := p_put p k v in (p', (r, None))
  | ORemove k => let (p', r) := p_remove p k in (p', (r, None))
  | OGet k => (p, canon_get (p_get p k))
  | OHas k => (p, (p_has p k, None))
  | OTick => (p_tick p, (ROk, None))
  end.

Fixpoint p_run (p : pers) (ops : list op) : pers * list answer :=
  match ops with
  | [] => (p, [])
  | o :: r => let '(p1, a) := p_step p o in
              let '(p2, l) := p_run p1 r in (p2, a :: l)
  end.

(** histories split by Close;Reopen (C09) *)
Inductive op2 : Type := O2 (o : op) | OCycle.

Definition p_cycle (p : pers) : pers * rclass :=
  let (p1, r) := p_close p in (p_reopen p1, r).

Definition p_step2 (p : pers) (o : op2) : pers * answer :=
  match o with
  | O2 o => p_step p o
  | OCycle => let (p', r) := p_cycle p in (p', (r, None))
  end.
Fixpoint p_run2 (p : pers) (ops : list op2) : pers * list answer :=
  match ops with
  | [] => (p, [])
  | o :: r => let '(p1, a) := p_step2 p o in
              let '(p2, l) := p_run2 p1 r in (p2, a :: l)
  end.

Definition spec_step2 (m : mapspec) (o : op2) : mapspec * answer :=
  match o with
  | O2 o => spec_step m o
  | OCycle => (m, (ROk, None))
  end.
Fixpoint spec_run2 (m : mapspec) (ops : list op2) : mapspec * list answer :=
  match ops with
  | [] => (m, [])
  | o :: r => let '(m1, a) := spec_step2 m o in
              let '(m2, l) := spec_run2 m1 r in (m2, a :: l)
  end.

(** ================= C09 additions: early-stopping RangeKeys, Destroy / DestroyClosed ================= *)

(** strictly ascending keys (bytes.Compare) *)
Definition klt (a b : key * bytes) : Prop := bcmp (fst a) (fst b) = Lt.

(** [run] is what one persister may deliver when [m] calls of the handler are due: [m] different pairs it
    holds; for a LevelDB directory exactly the first [m] of the ascending iteration *)
Definition run_ok (b : base) (m : nat) (run : list (key * bytes)) : Prop :=
  length run = m /\ NoDup (map fst run) /\ incl run (b_iter b) /\ (b_durable b -> run = firstn m (b_iter b)).

(** the visits of a sharded RangeKeys that walks the shards in the order [order], [c] calls having been made
    before: every shard delivers [expected_run n c' len] pairs, c' the calls made when its turn comes *)
Inductive runs_ok (s : sharded) (n : nat) : nat -> list nat -> list (key * bytes) -> Prop :=
| runs_nil : forall c, runs_ok s n c [] []
| runs_cons : forall c i order run rest,
    run_ok (get_shard s i) (expected_run n c (length (b_iter (get_shard s i)))) run ->
    runs_ok s n (c + length run) order rest ->
    runs_ok s n c (i :: order) (run ++ rest).

(** a visit sequence the model explains: for the sharded persister under SOME order of the shards *)
Definition stop_explained (n : nat) (p : pers) (vs : list (key * bytes)) : Prop :=
  match p with
  | PBase b => run_ok b (expected_run n 0 (length (b_iter b))) vs
  | PSharded s => exists order, Permutation order (seq 0 (length (sh_shards s))) /\ runs_ok s n 0 order vs
  end.

(** what the constructor gives on an empty path for a persister of the same kind and configuration *)
Definition b_fresh (b : base) : base :=
  match b with
  | BDb s => BDb (new_db (d_max s) [])
  | BSer s => BSer (new_sdb (s_max s) [])
  | BMem _ => BMem new_mem
  end.
Definition p_fresh (p : pers) : pers :=
  match p with
  | PBase b => PBase (b_fresh b)
  | PSharded s => PSharded {| sh_n := sh_n s; sh_shards := map b_fresh (sh_shards s) |}
  end.

(** whatever can be called on an object (dead or alive) *)
Inductive dop : Type := DOp (o : op) | DClose | DDestroy | DDestroyClosed.
Definition p_dstep (p : pers) (o : dop) : pers :=
  match o with
  | DOp o => fst (p_step p o)
  | DClose => fst (p_close p)
  | DDestroy => fst (p_destroy p)
  | DDestroyClosed => fst (p_destroy_closed p)
  end.
(** the object does not hold a LevelDB handle and its path holds nothing (memorydb: no handle, no path) *)
Definition b_dead (b : base) : Prop :=
  match b with
  | BDb s => d_open s = false /\ d_disk s = []
  | BSer s => s_open s = false /\ s_disk s = []
  | BMem _ => True
  end.
Definition p_dead (p : pers) : Prop :=
  match p with PBase b => b_dead b | PSharded s => Forall b_dead (sh_shards s) end.

(** histories with Close;Reopen cycles AND destroy cycles (Destroy; constructor / Close; DestroyClosed; constructor) *)
Inductive op3 : Type := O3 (o : op2) | ODestroyCycle | OCloseDestroyCycle.
Definition p_destroy_cycle (p : pers) : pers * rclass :=
  let (p1, r) := p_destroy p in (p_reopen p1, r).
Definition p_close_destroy_cycle (p : pers) : pers * rclass :=
  let (p1, r1) := p_close p in
  let (p2, r2) := p_destroy_closed p1 in
  (p_reopen p2, match r1 with ROk => r2 | _ => r1 end).
Definition p_step3 (p : pers) (o : op3) : pers * answer :=
  match o with
  | O3 o => p_step2 p o
  | ODestroyCycle => let (p', r) := p_destroy_cycle p in (p', (r, None))
  | OCloseDestroyCycle => let (p', r) := p_close_destroy_cycle p in (p', (r, None))
  end.
Fixpoint p_run3 (p : pers) (ops : list op3) : pers * list answer :=
  match ops with
  | [] => (p, [])
  | o :: r => let '(p1, a) := p_step3 p o in
              let '(p2, l) := p_run3 p1 r in (p2, a :: l)
  end.
Definition spec_step3 (m : mapspec) (o : op3) : mapspec * answer :=
  match o with
  | O3 o => spec_step2 m o
  | ODestroyCycle | OCloseDestroyCycle => (m_empty, (ROk, None))
  end.
Fixpoint spec_run3 (m : mapspec) (ops : list op3) : mapspec * list answer :=
  match ops with
  | [] => (m, [])
  | o :: r => let '(m1, a) := spec_step3 m o in
              let '(m2, l) := spec_run3 m1 r in (m2, a :: l)
  end.
