(** Wire-format wrapper of the crash model (component `crash`, C10).

    config: kind (0 leveldb.NewDB, 1 leveldb.NewSerialDB)  maxBatchSize  sync (1 = `Sync: true`, read off the code)
            batchDelaySeconds (Go side only: the timer is the explicit op 5 here)
    ops:    1 Put k v      2 Remove k      3 Get k      4 Has k      5 Tick (the timer fires once)
            6 Cycle (Close, then the constructor again on the same directory)
            9 Judge [ map map ... ]   (INSERTED by the harness after an op: the maps it recovered from crash
              images with a TORN unsynced tail, at every crash point of that op; a map is [ k1 v1 k2 v2 ... ])
    answer to ops 1-6 -- crash points of an op: the state before it, every micro-state inside it ([op_trace]),
    the last one being the state between this op and the next:
            1 = result class (0)
            3 = map recovered at the op boundary when ALL unsynced data is lost      (sorted pairs)
            4 = map recovered at the op boundary when ALL unsynced data survives
            5 = [ maps ] recovered over the crash points of the op, in order, consecutive duplicates removed,
                all unsynced data lost          6 = the same, all unsynced data surviving
            7 = number of journal records the op wrote      8 = number of journal fsyncs of the op
    answer to op 9:  1 = 1 iff every listed map is recover (crash_drop n log) for some crash point of the
                         previous op and some n (the set of states the theorems allow), else 0 *)
From Coq Require Import List NArith ZArith Bool.
From Verif Require Import Base.Generic Base.BStr Persist.Batch Persist.MapSpec Persist.PersistSpec Persist.PersistComp Persist.Crash.
Import ListNotations.
Open Scope N_scope.

Definition pairs := list (key * bytes).

Record crstate : Type := {
  cr_s : cst;
  cr_allowed : list pairs     (* recovered maps the previous op allows, each sorted *)
}.

Fixpoint pairs_eqb (a b : pairs) : bool :=
  match a, b with
  | [], [] => true
  | (k, v) :: a', (k', v') :: b' => beqb k k' && beqb v v' && pairs_eqb a' b'
  | _, _ => false
  end.

Fixpoint dedup_consecutive (l : list pairs) : list pairs :=
  match l with
  | [] => []
  | x :: r => match r with
              | [] => [x]
              | y :: _ => if pairs_eqb x y then dedup_consecutive r else x :: dedup_consecutive r
              end
  end.

Definition rec_pairs (l : ldisk) : pairs := psort (recover l).
Definition g_map (p : pairs) : garg := GL (flat_map (fun x => [GB (fst x); GB (snd x)]) p).

Fixpoint unpair (l : list garg) : pairs :=
  match l with
  | GB k :: GB v :: r => (k, v) :: unpair r
  | _ => []
  end.

(** every recovery a crash at state [s] allows *)
Definition crash_images (s : cst) : list pairs :=
  map (fun n => rec_pairs (crash_drop n (c_log s))) (seq 0 (S (length (c_log s)))).

Definition crash_step (st : crstate) (code : N) (args : list garg) : crstate * list obs :=
  let s := cr_s st in
  let run (o : op2) : crstate * list obs :=
    let tr := op_trace s o in
    let s' := last tr s in
    let pts := s :: tr in
    let wrote := N.of_nat (length (c_log s') - length (c_log s)) in
    ({| cr_s := s'; cr_allowed := flat_map crash_images pts |},
     [ (1, g_N 0);
       (3, g_map (rec_pairs (lose_all_unsynced (c_log s'))));
       (4, g_map (rec_pairs (c_log s')));
       (5, GL (map g_map (dedup_consecutive (map (fun x => rec_pairs (lose_all_unsynced (c_log x))) pts))));
       (6, GL (map g_map (dedup_consecutive (map (fun x => rec_pairs (c_log x)) pts))));
       (7, g_N wrote);
       (8, g_N (if c_sync s then wrote else 0)) ]) in
  let k := arg_B (nth_arg args 0) in
  match code with
  | 1 => run (O2 (OPut k (arg_optB (nth_arg args 1))))
  | 2 => run (O2 (ORemove k))
  | 3 => run (O2 (OGet k))
  | 4 => run (O2 (OHas k))
  | 5 => run (O2 OTick)
  | 6 => run OCycle
  | 9 => let maps := map (fun m => psort (unpair (arg_L m))) (arg_L (nth_arg args 0)) in
         let ok := forallb (fun m => existsb (pairs_eqb m) (cr_allowed st)) maps in
         (st, [(1, g_bool ok)])
  | _ => (st, [])
  end.

Definition crash_init (cfg : list garg) : option crstate :=
  let kind := arg_N (nth_arg cfg 0) in
  let max := arg_Z (nth_arg cfg 1) in
  let sync := arg_bool (nth_arg cfg 2) in
  match kind with
  | 0 => Some {| cr_s := Crash.c_init KDb sync max []; cr_allowed := [] |}
  | 1 => Some {| cr_s := Crash.c_init KSerial sync max []; cr_allowed := [] |}
  | _ => None
  end.

Definition crash_component : component :=
  {| Generic.c_state := crstate; Generic.c_init := crash_init; Generic.c_step := crash_step |}.
