(** The judge of the crash component (op 9 of Persist/CrashComp.v), which decides whether the maps the harness recovered from
    TORN crash images are states the theorems of C10 allow: what its verdict means. *)
From Coq Require Import List NArith ZArith Bool Lia.
From Verif Require Import Base.Generic Base.BStr Persist.Batch Persist.MapSpec Persist.PersistSpec Persist.PersistComp Persist.Crash
  Persist.CrashComp.
Import ListNotations.

Lemma pairs_eqb_iff a b : pairs_eqb a b = true <-> a = b.
Proof.
  revert b; induction a as [|(k, v) a IH]; intros [|(k', v') b]; simpl; try (split; [discriminate|discriminate]); [split; reflexivity|].
  rewrite !andb_true_iff, !beqb_eq, IH. split.
  - intros ((-> & ->) & ->). reflexivity.
  - intros E. inversion E. auto.
Qed.

(** the crash points of the previous operation, as the driver keeps them: the state before it and every micro-state inside it *)
Definition allowed_by (pts : list cst) (m : pairs) : Prop :=
  exists x n, In x pts /\ (n <= length (c_log x))%nat /\ m = rec_pairs (crash_drop n (c_log x)).

Lemma in_crash_images s m : In m (crash_images s) <-> exists n, (n <= length (c_log s))%nat /\ m = rec_pairs (crash_drop n (c_log s)).
Proof.
  unfold crash_images. rewrite in_map_iff. split.
  - intros (n & <- & Hn). apply in_seq in Hn. exists n. split; [lia|reflexivity].
  - intros (n & Hn & ->). exists n. split; [reflexivity|apply in_seq; lia].
Qed.

Lemma allowed_iff pts m : In m (flat_map crash_images pts) <-> allowed_by pts m.
Proof.
  rewrite in_flat_map. unfold allowed_by. split.
  - intros (x & Hx & Hm). apply in_crash_images in Hm. destruct Hm as (n & Hn & ->). exists x, n. auto.
  - intros (x & n & Hx & Hn & ->). exists x. split; [exact Hx|]. apply in_crash_images. exists n. auto.
Qed.

(** the verdict of op 9 *)
Theorem judge_verdict st args v : In (1%N, v) (snd (crash_step st 9%N args)) ->
  v = g_bool true <->
  forall m, In m (map (fun m => psort (unpair (arg_L m))) (arg_L (nth_arg args 0))) -> In m (cr_allowed st).
Proof.
  cbn [crash_step snd]. intros [E|[]]. inversion E; subst v. clear E.
  set (maps := map (fun m => psort (unpair (arg_L m))) (arg_L (nth_arg args 0))).
  assert (Hb : forallb (fun m => existsb (pairs_eqb m) (cr_allowed st)) maps = true <-> forall m, In m maps -> In m (cr_allowed st)).
  { rewrite forallb_forall. split; intros H m Hm.
    - specialize (H m Hm). apply existsb_exists in H. destruct H as (y & Hy & E). apply pairs_eqb_iff in E. subst. exact Hy.
    - apply existsb_exists. exists m. split; [apply H; exact Hm|apply pairs_eqb_iff; reflexivity]. }
  rewrite <- Hb. generalize (forallb (fun m => existsb (pairs_eqb m) (cr_allowed st)) maps). intros b.
  destruct b; simpl; split; intros H; try reflexivity; discriminate H.
Qed.

(** after an operation (codes 1-6) the driver's [cr_allowed] is exactly: recover (crash_drop n log) over the crash points of that op *)
Theorem allowed_after_op st code args : (1 <= code <= 6)%N ->
  exists o, let tr := op_trace (cr_s st) o in
    cr_s (fst (crash_step st code args)) = last tr (cr_s st) /\
    forall m, In m (cr_allowed (fst (crash_step st code args))) <-> allowed_by (cr_s st :: tr) m.
Proof.
  intros Hc.
  assert (H : (code = 1 \/ code = 2 \/ code = 3 \/ code = 4 \/ code = 5 \/ code = 6)%N) by lia.
  destruct H as [E|[E|[E|[E|[E|E]]]]]; subst code; cbn [crash_step fst cr_s cr_allowed];
    eexists; (split; [reflexivity|intros m; apply allowed_iff]).
Qed.
