(** Wire-format wrapper of the shard id model.
    op 1 n key      -> 1=compute_id n key
    op 2 n          -> 2=mask_high 3=mask_low 4=bytes_needed
    op 3 n (int32, may be negative) -> 5=NewShardIDProvider accepts n *)
From Coq Require Import List NArith ZArith Bool.
From Verif Require Import Base.Generic Base.BStr Persist.ShardId.
Import ListNotations.
Open Scope N_scope.

Definition shardid_step (s : unit) (code : N) (args : list garg) : unit * list obs :=
  match code with
  | 1 => let n := arg_N (nth_arg args 0) in
         let k := arg_B (nth_arg args 1) in
         (s, [(1, g_N (compute_id n k))])
  | 2 => let n := arg_N (nth_arg args 0) in
         (s, [(2, g_N (mask_high n)); (3, g_N (mask_low n)); (4, g_N (bytes_needed n))])
  | 3 => (s, [(5, g_bool (provider_accepts (arg_Z (nth_arg args 0))))])
  | _ => (s, [])
  end.

Definition shardid_component : component :=
  {| c_state := unit; c_init := fun _ => Some tt; c_step := shardid_step |}.
