(** Model of memorydb/memorydb.go: a Go map under a mutex. Values are stored as given
    (a nil value stays nil); Close does nothing; the "not found" errors are ad-hoc error
    values (class [RNotFound] by their text). *)
From Coq Require Import List NArith Bool.
From Verif Require Import Base.BStr Persist.Batch.
Import ListNotations.

Definition mem := list (key * val).

Definition new_mem : mem := [].
Definition mem_put (s : mem) (k : key) (v : val) : mem * rclass := (aset k v s, ROk).
Definition mem_get (s : mem) (k : key) : rclass * val :=
  match alookup k s with
  | Some v => (ROk, v)
  | None => (RNotFound, None)
  end.
Definition mem_has (s : mem) (k : key) : rclass :=
  match alookup k s with
  | Some _ => ROk
  | None => RNotFound
  end.
Definition mem_remove (s : mem) (k : key) : mem * rclass := (aremove k s, ROk).
Definition mem_close (s : mem) : mem * rclass := (s, ROk).
Definition mem_range (s : mem) : list (key * val) := s.

(** RangeKeys(handler): `for k, v := range s.db { if !handler(k, v) { return } }` -- Go's map order is unspecified;
    the model walks its association list (only order-independent observables of it are compared) *)
Definition mem_range_with {St : Type} (h : St -> key * bytes -> St * bool) (st : St) (s : mem) : St :=
  iter_with h st (map (fun p => (fst p, val_bytes (snd p))) (mem_range s)).
(** Destroy: `s.db = make(map[string][]byte)`: the object stays usable (there is no closed state);
    DestroyClosed calls Destroy *)
Definition mem_destroy (s : mem) : mem * rclass := (new_mem, ROk).
Definition mem_destroy_closed (s : mem) : mem * rclass := mem_destroy s.
