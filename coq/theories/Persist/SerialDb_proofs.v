From Coq Require Import List NArith ZArith Bool Lia.
From Verif Require Import Base.BStr Persist.Batch Persist.SerialDb Persist.MapSpec Persist.PersistSpec Persist.Batch_proofs.
Import ListNotations.
Open Scope Z_scope.

Ltac sp := repeat match goal with |- _ /\ _ => split end.

Lemma mk_sdb_ok s : s_open s = true -> batch_ok (s_batch s) -> NoDup (map fst (s_disk s)) -> sdb_ok s.
Proof. intros. unfold sdb_ok. auto. Qed.

Definition sdb_dom (s : sdb) : list key := map fst (s_disk s) ++ map rec_key (b_log (s_batch s)).

Lemma new_sdb_ok max d : NoDup (map fst d) -> sdb_ok (new_sdb max d).
Proof. intros H. apply mk_sdb_ok; simpl; auto. apply new_batch_ok. Qed.

Lemma sdb_flush_dom s a :
  In a (map fst (apply_log (b_log (s_batch s)) (s_disk s)) ++ map rec_key (b_log new_batch)) -> In a (sdb_dom s).
Proof.
  simpl. rewrite app_nil_r. intros H. apply keys_apply_log in H. unfold sdb_dom. apply in_or_app. exact H.
Qed.

Lemma sdb_put_batch_spec s :
  sdb_ok s ->
  let (s', r) := sdb_put_batch s in
  sdb_ok s' /\ r = ROk /\ (forall a, sdb_abs s' a = sdb_abs s a)
  /\ (forall a, disk_map (s_disk s') a = sdb_abs s a)
  /\ incl (sdb_dom s') (sdb_dom s) /\ s_max s' = s_max s.
Proof.
  intros (Ho & Hb & Hd). unfold sdb_put_batch. rewrite Ho. sp; cbn [s_open s_batch s_disk s_max]; auto.
  - apply mk_sdb_ok; cbn [s_open s_batch s_disk s_max]; auto; [apply new_batch_ok|apply NoDup_apply_log; exact Hd].
  - intros a. unfold sdb_abs. cbn [s_batch s_disk]. apply batch_abs_flush. exact Hb.
  - intros a. apply (batch_abs_flush (s_batch s) (s_disk s) a Hb).
  - intros a Ha. apply sdb_flush_dom. exact Ha.
Qed.

Lemma sdb_update_spec s :
  sdb_ok s ->
  let (s', r) := sdb_update_batch_with_increment s in
  sdb_ok s' /\ r = ROk /\ (forall a, sdb_abs s' a = sdb_abs s a) /\ incl (sdb_dom s') (sdb_dom s) /\ s_max s' = s_max s.
Proof.
  intros Hok. pose proof Hok as (Ho & Hb & Hd). unfold sdb_update_batch_with_increment.
  cbn [s_size s_max]. destruct (s_size s + 1 <? s_max s) eqn:E.
  - sp; auto; try (apply mk_sdb_ok; auto); try (intros a Ha; exact Ha).
  - set (s1 := {| s_batch := s_batch s; s_size := s_size s + 1; s_max := s_max s; s_disk := s_disk s; s_open := s_open s |}).
    assert (H1 : sdb_ok s1) by (apply mk_sdb_ok; auto).
    pose proof (sdb_put_batch_spec s1 H1) as H. destruct (sdb_put_batch s1) as [s' r].
    destruct H as (H2 & Hr & Ha & _ & Hi & Hm). sp; auto.
Qed.

Lemma sdb_put_spec s k v :
  sdb_ok s ->
  let (s', r) := sdb_put s k v in
  sdb_ok s' /\ r = ROk /\ (forall a, sdb_abs s' a = m_put (sdb_abs s) k v a) /\ incl (sdb_dom s') (k :: sdb_dom s) /\ s_max s' = s_max s.
Proof.
  intros (Ho & Hb & Hd). unfold sdb_put. rewrite Ho. cbn [negb].
  set (s1 := sdb_set_batch s (batch_put (s_batch s) k v)).
  assert (H1 : sdb_ok s1) by (apply mk_sdb_ok; auto; apply batch_put_ok; exact Hb).
  pose proof (sdb_update_spec s1 H1) as H. destruct (sdb_update_batch_with_increment s1) as [s' r].
  destruct H as (Hok & Hr & Ha & Hi & Hm). sp; auto.
  - intros a. rewrite Ha. unfold sdb_abs, s1. cbn [sdb_set_batch s_batch s_disk]. apply batch_abs_put.
  - intros a Hin. apply Hi in Hin. unfold sdb_dom, s1 in Hin. cbn [sdb_set_batch s_batch s_disk batch_put b_log map rec_key] in Hin.
    apply in_app_or in Hin. simpl. unfold sdb_dom. rewrite in_app_iff. simpl in Hin. tauto.
Qed.

Lemma sdb_remove_spec s k :
  sdb_ok s ->
  let (s', r) := sdb_remove s k in
  sdb_ok s' /\ r = ROk /\ (forall a, sdb_abs s' a = m_remove (sdb_abs s) k a) /\ incl (sdb_dom s') (k :: sdb_dom s) /\ s_max s' = s_max s.
Proof.
  intros (Ho & Hb & Hd). unfold sdb_remove. rewrite Ho. cbn [negb].
  set (s1 := sdb_set_batch s (batch_delete (s_batch s) k)).
  assert (H1 : sdb_ok s1) by (apply mk_sdb_ok; auto; apply batch_delete_ok; exact Hb).
  pose proof (sdb_update_spec s1 H1) as H. destruct (sdb_update_batch_with_increment s1) as [s' r].
  destruct H as (Hok & Hr & Ha & Hi & Hm). sp; auto.
  - intros a. rewrite Ha. unfold sdb_abs, s1. cbn [sdb_set_batch s_batch s_disk]. apply batch_abs_delete.
  - intros a Hin. apply Hi in Hin. unfold sdb_dom, s1 in Hin. cbn [sdb_set_batch s_batch s_disk batch_delete b_log map rec_key] in Hin.
    apply in_app_or in Hin. simpl. unfold sdb_dom. rewrite in_app_iff. simpl in Hin. tauto.
Qed.

Lemma sdb_get_spec s k : sdb_ok s -> canon_get (sdb_get s k) = m_get (sdb_abs s) k.
Proof.
  intros (Ho & Hb & Hd). unfold sdb_get. rewrite Ho. cbn [negb]. apply read_path_get. exact Hb.
Qed.

Lemma sdb_has_spec s k : sdb_ok s -> sdb_has s k = m_has (sdb_abs s) k.
Proof.
  intros (Ho & Hb & Hd). unfold sdb_has. rewrite Ho. cbn [negb]. apply read_path_has. exact Hb.
Qed.

Lemma sdb_tick_spec s :
  sdb_ok s ->
  sdb_ok (sdb_tick s) /\ (forall a, sdb_abs (sdb_tick s) a = sdb_abs s a)
  /\ (forall a, disk_map (s_disk (sdb_tick s)) a = sdb_abs s a)
  /\ incl (sdb_dom (sdb_tick s)) (sdb_dom s) /\ s_max (sdb_tick s) = s_max s.
Proof.
  intros Hok. unfold sdb_tick. pose proof (sdb_put_batch_spec s Hok) as H.
  destruct (sdb_put_batch s) as [s' r]. cbn [fst]. destruct H as (H1 & _ & H2 & H3 & H4 & H5). auto.
Qed.

Lemma sdb_range_spec s : sdb_ok s -> presents (sdb_range s) (disk_map (s_disk s)).
Proof. intros (Ho & Hb & Hd). unfold sdb_range. rewrite Ho. apply disk_presents. exact Hd. Qed.

Lemma sdb_cycle_spec s :
  sdb_ok s ->
  let s' := sdb_reopen (fst (sdb_close s)) in
  snd (sdb_close s) = ROk /\ sdb_ok s' /\ (forall a, sdb_abs s' a = sdb_abs s a)
  /\ (forall a, disk_map (s_disk s') a = sdb_abs s a)
  /\ incl (sdb_dom s') (sdb_dom s) /\ s_max s' = s_max s.
Proof.
  intros Hok. unfold sdb_close, sdb_reopen. pose proof (sdb_put_batch_spec s Hok) as H.
  destruct (sdb_put_batch s) as [s1 r]. cbn [fst snd s_max s_disk].
  destruct H as ((Ho1 & Hb1 & Hd1) & _ & H2 & H3 & H4 & H5).
  sp; auto.
  - apply new_sdb_ok. exact Hd1.
  - intros a Ha. apply H4. unfold sdb_dom in *. cbn [new_sdb s_batch s_disk new_batch b_log map] in Ha.
    rewrite app_nil_r in Ha. apply in_or_app. left. exact Ha.
Qed.

Lemma sdb_closed_ops s k v :
  s_open s = false ->
  sdb_put s k v = (s, RClosed) /\ sdb_remove s k = (s, RClosed) /\ sdb_get s k = (RClosed, None)
  /\ sdb_has s k = RClosed /\ sdb_range s = [].
Proof. intros H. unfold sdb_put, sdb_remove, sdb_get, sdb_has, sdb_range. rewrite H. repeat split. Qed.

Lemma sdb_closed_ops_reopen s k v :
  s_open s = false ->
  fst (sdb_put s k v) = s /\ fst (sdb_remove s k) = s /\ sdb_tick s = s
  /\ (s_open (fst (sdb_close s)) = false /\ sdb_reopen (fst (sdb_close s)) = sdb_reopen s).
Proof.
  intros H. unfold sdb_put, sdb_remove, sdb_tick, sdb_close, sdb_put_batch, sdb_reopen. rewrite H.
  cbn [negb fst s_max s_disk s_open]. repeat split.
Qed.
