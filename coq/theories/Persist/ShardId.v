(** Model of sharded/shardIDProvider.go (C19). *)
From Coq Require Import List NArith ZArith PeanoNat Lia Bool ZifyN ZifyNat.
From Verif Require Import Base.BStr.
Import ListNotations.
Open Scope N_scope.

(** calculateMasks: n = ceil(log2 numOfShards); maskHigh = 2^n - 1; maskLow = 2^(n-1) - 1.
    calculateBytesNeeded: floor(log2 (n-1)) / 8 + 1.
    The Go code derives these with float64 Log2/Ceil/Floor; the integer
    definitions below are tied to it by an exhaustive sweep of the fields
    (see harness/shardid). *)
Definition mask_high (n : N) : N := 2 ^ (N.log2_up n) - 1.
Definition mask_low (n : N) : N := 2 ^ (N.log2_up n - 1) - 1.
Definition bytes_needed (n : N) : N := N.log2 (n - 1) / 8 + 1.

(** addr = addr<<8 + b on a uint32: the wrap is explicit. *)
Definition addr_of (bs : bytes) : N := fold_left (fun a b => (a * 256 + b) mod two32) bs 0.
Definition lastn {A} (k : nat) (l : list A) : list A := skipn (length l - k) l.

Definition compute_id (n : N) (key : bytes) : N :=
  let a := addr_of (lastn (N.to_nat (bytes_needed n)) key) in
  let i := N.land a (mask_high n) in
  if n - 1 <? i then N.land a (mask_low n) else i.

(** big-endian encoding of [i] on [k] bytes *)
Fixpoint encode (k : nat) (i : N) : bytes :=
  match k with O => [] | S k' => encode k' (i / 256) ++ [i mod 256] end.

(** NewShardIDProvider(numOfShards int32): `if numOfShards < minNumOfShards { return nil, ErrInvalidNumberOfShards }` *)
Definition provider_accepts (n : Z) : bool := negb (n <? 2)%Z.
