(** Model of sharded/shardedDB.go (C19, C08, C09): a map shard id -> persister, every
    operation on a key goes to `persisters[idProvider.ComputeId(key)]`.

    [base] is the types.Persister interface restricted to the three implementations of
    factory/db.go; [pers] adds the sharded persister over them. *)
From Coq Require Import List NArith ZArith Bool.
From Verif Require Import Base.BStr Persist.Batch Persist.LevelDb Persist.SerialDb Persist.MemDb Persist.ShardId.
Import ListNotations.

Inductive base : Type :=
| BDb (s : db)
| BSer (s : sdb)
| BMem (s : mem).

Definition b_put (b : base) (k : key) (v : val) : base * rclass :=
  match b with
  | BDb s => let (s', r) := db_put s k v in (BDb s', r)
  | BSer s => let (s', r) := sdb_put s k v in (BSer s', r)
  | BMem s => let (s', r) := mem_put s k v in (BMem s', r)
  end.
Definition b_remove (b : base) (k : key) : base * rclass :=
  match b with
  | BDb s => let (s', r) := db_remove s k in (BDb s', r)
  | BSer s => let (s', r) := sdb_remove s k in (BSer s', r)
  | BMem s => let (s', r) := mem_remove s k in (BMem s', r)
  end.
Definition b_get (b : base) (k : key) : rclass * val :=
  match b with
  | BDb s => db_get s k
  | BSer s => sdb_get s k
  | BMem s => mem_get s k
  end.
Definition b_has (b : base) (k : key) : rclass :=
  match b with
  | BDb s => db_has s k
  | BSer s => sdb_has s k
  | BMem s => mem_has s k
  end.
(** one firing of the persister's own timer (memorydb has none) *)
Definition b_tick (b : base) : base :=
  match b with
  | BDb s => BDb (db_tick s)
  | BSer s => BSer (sdb_tick s)
  | BMem s => BMem s
  end.
Definition b_close (b : base) : base * rclass :=
  match b with
  | BDb s => let (s', r) := db_close s in (BDb s', r)
  | BSer s => let (s', r) := sdb_close s in (BSer s', r)
  | BMem s => let (s', r) := mem_close s in (BMem s', r)
  end.
Definition b_range (b : base) : list (key * bytes) :=
  match b with
  | BDb s => db_range s
  | BSer s => sdb_range s
  | BMem s => map (fun p => (fst p, val_bytes (snd p))) (mem_range s)
  end.
(** the constructor called again on the same path; memorydb.New() has no path: a new empty map *)
Definition b_reopen (b : base) : base :=
  match b with
  | BDb s => BDb (db_reopen s)
  | BSer s => BSer (sdb_reopen s)
  | BMem _ => BMem new_mem
  end.

(** ---- sharded persister ---- *)
Record sharded : Type := {
  sh_n : N;                 (* idProvider.numOfShards *)
  sh_shards : list base     (* persisters[0], persisters[1], ... *)
}.

Definition shard_of (s : sharded) (k : key) : nat := N.to_nat (compute_id (sh_n s) k).
Definition get_shard (s : sharded) (i : nat) : base := nth i (sh_shards s) (BMem new_mem).
Fixpoint set_nth {A} (i : nat) (x : A) (l : list A) : list A :=
  match l, i with
  | [], _ => []
  | _ :: r, O => x :: r
  | y :: r, S i' => y :: set_nth i' x r
  end.
Definition set_shard (s : sharded) (i : nat) (b : base) : sharded :=
  {| sh_n := sh_n s; sh_shards := set_nth i b (sh_shards s) |}.

Definition sh_put (s : sharded) (k : key) (v : val) : sharded * rclass :=
  let i := shard_of s k in
  let (b', r) := b_put (get_shard s i) k v in (set_shard s i b', r).
Definition sh_remove (s : sharded) (k : key) : sharded * rclass :=
  let i := shard_of s k in
  let (b', r) := b_remove (get_shard s i) k in (set_shard s i b', r).
Definition sh_get (s : sharded) (k : key) : rclass * val := b_get (get_shard s (shard_of s k)) k.
Definition sh_has (s : sharded) (k : key) : rclass := b_has (get_shard s (shard_of s k)) k.

(** Close: close one persister after the other, stop at the first error
    (Go iterates the map in an unspecified order; no Close of a base persister fails) *)
Fixpoint close_all (l : list base) : list base * rclass :=
  match l with
  | [] => ([], ROk)
  | b :: r =>
      let (b', e) := b_close b in
      match e with
      | ROk => let (r', e') := close_all r in (b' :: r', e')
      | _ => (b' :: r, e)
      end
  end.
Definition sh_close (s : sharded) : sharded * rclass :=
  let (l, e) := close_all (sh_shards s) in ({| sh_n := sh_n s; sh_shards := l |}, e).

(** RangeKeys: every persister's RangeKeys, one after the other *)
Definition sh_range (s : sharded) : list (key * bytes) := flat_map b_range (sh_shards s).
Definition sh_tick (s : sharded) : sharded := {| sh_n := sh_n s; sh_shards := map b_tick (sh_shards s) |}.
(** NewShardedPersister on the same path: CreateBasePersister(path/i) for every shard id *)
Definition sh_reopen (s : sharded) : sharded := {| sh_n := sh_n s; sh_shards := map b_reopen (sh_shards s) |}.

(** NewShardedPersister(path, creator, NewShardIDProvider(n)) with a creator returning [mk] *)
Definition new_sharded (n : N) (mk : base) : sharded :=
  {| sh_n := n; sh_shards := repeat mk (N.to_nat n) |}.

(** ---- any persister ---- *)
Inductive pers : Type :=
| PBase (b : base)
| PSharded (s : sharded).

Definition p_put (p : pers) (k : key) (v : val) : pers * rclass :=
  match p with
  | PBase b => let (b', r) := b_put b k v in (PBase b', r)
  | PSharded s => let (s', r) := sh_put s k v in (PSharded s', r)
  end.
Definition p_remove (p : pers) (k : key) : pers * rclass :=
  match p with
  | PBase b => let (b', r) := b_remove b k in (PBase b', r)
  | PSharded s => let (s', r) := sh_remove s k in (PSharded s', r)
  end.
Definition p_get (p : pers) (k : key) : rclass * val :=
  match p with PBase b => b_get b k | PSharded s => sh_get s k end.
Definition p_has (p : pers) (k : key) : rclass :=
  match p with PBase b => b_has b k | PSharded s => sh_has s k end.
Definition p_tick (p : pers) : pers :=
  match p with PBase b => PBase (b_tick b) | PSharded s => PSharded (sh_tick s) end.
Definition p_close (p : pers) : pers * rclass :=
  match p with
  | PBase b => let (b', r) := b_close b in (PBase b', r)
  | PSharded s => let (s', r) := sh_close s in (PSharded s', r)
  end.
Definition p_range (p : pers) : list (key * bytes) :=
  match p with PBase b => b_range b | PSharded s => sh_range s end.
Definition p_reopen (p : pers) : pers :=
  match p with PBase b => PBase (b_reopen b) | PSharded s => PSharded (sh_reopen s) end.

(** the persister kinds of the harness: 0 leveldb.NewDB, 1 leveldb.NewSerialDB, 2 memorydb.New,
    3/4/5 sharded over 0/1/2 (NewShardIDProvider rejects fewer than 2 shards) *)
Definition new_base (kind : N) (max : Z) : option base :=
  match kind with
  | 0%N => Some (BDb (new_db max []))
  | 1%N => Some (BSer (new_sdb max []))
  | 2%N => Some (BMem new_mem)
  | _ => None
  end.
Definition new_pers (kind : N) (max : Z) (nshards : N) : option pers :=
  if (kind <? 3)%N then option_map PBase (new_base kind max)
  else if (nshards <? 2)%N then None
  else option_map (fun b => PSharded (new_sharded nshards b)) (new_base (kind - 3) max).

(** ================= RangeKeys with a stopping handler, Destroy, DestroyClosed (C09) ================= *)

Definition b_range_with {St : Type} (h : St -> key * bytes -> St * bool) (st : St) (b : base) : St :=
  match b with
  | BDb s => db_range_with h st s
  | BSer s => sdb_range_with h st s
  | BMem s => mem_range_with h st s
  end.
(** the sequence the persister's iteration walks ([b_range] in iteration order) *)
Definition b_iter (b : base) : list (key * bytes) :=
  match b with
  | BDb s => if d_open s then ksort (d_disk s) else []
  | BSer s => if s_open s then ksort (s_disk s) else []
  | BMem s => map (fun p => (fst p, val_bytes (snd p))) (mem_range s)
  end.
Definition b_destroy (b : base) : base * rclass :=
  match b with
  | BDb s => let (s', r) := db_destroy s in (BDb s', r)
  | BSer s => let (s', r) := sdb_destroy s in (BSer s', r)
  | BMem s => let (s', r) := mem_destroy s in (BMem s', r)
  end.
Definition b_destroy_closed (b : base) : base * rclass :=
  match b with
  | BDb s => let (s', r) := db_destroy_closed s in (BDb s', r)
  | BSer s => let (s', r) := sdb_destroy_closed s in (BSer s', r)
  | BMem s => let (s', r) := mem_destroy_closed s in (BMem s', r)
  end.

(** sharded RangeKeys: `for _, persister := range s.persisters { persister.RangeKeys(handler) }` -- the SAME
    handler (a closure, its state goes on) is handed to every shard; a `false` ends the iteration of the
    shard that received it, the loop over the shards goes on.  Go walks the map of shards in an unspecified
    order: [order] is that order (a permutation of the shard ids), the theorems quantify over it. *)
Definition sh_range_with_ord {St : Type} (order : list nat) (h : St -> key * bytes -> St * bool) (st : St) (s : sharded) : St :=
  fold_left (fun st i => b_range_with h st (get_shard s i)) order st.
Definition sh_range_with {St : Type} (h : St -> key * bytes -> St * bool) (st : St) (s : sharded) : St :=
  fold_left (fun st b => b_range_with h st b) (sh_shards s) st.

(** Destroy / DestroyClosed of the sharded persister: one shard after the other, stop at the first error
    (none of the base persisters' fails in the model, so the order does not matter) *)
Fixpoint all_until_error (f : base -> base * rclass) (l : list base) : list base * rclass :=
  match l with
  | [] => ([], ROk)
  | b :: r =>
      let (b', e) := f b in
      match e with
      | ROk => let (r', e') := all_until_error f r in (b' :: r', e')
      | _ => (b' :: r, e)
      end
  end.
Definition sh_destroy (s : sharded) : sharded * rclass :=
  let (l, e) := all_until_error b_destroy (sh_shards s) in ({| sh_n := sh_n s; sh_shards := l |}, e).
Definition sh_destroy_closed (s : sharded) : sharded * rclass :=
  let (l, e) := all_until_error b_destroy_closed (sh_shards s) in ({| sh_n := sh_n s; sh_shards := l |}, e).

Definition p_range_with {St : Type} (h : St -> key * bytes -> St * bool) (st : St) (p : pers) : St :=
  match p with PBase b => b_range_with h st b | PSharded s => sh_range_with h st s end.
Definition p_destroy (p : pers) : pers * rclass :=
  match p with
  | PBase b => let (b', r) := b_destroy b in (PBase b', r)
  | PSharded s => let (s', r) := sh_destroy s in (PSharded s', r)
  end.
Definition p_destroy_closed (p : pers) : pers * rclass :=
  match p with
  | PBase b => let (b', r) := b_destroy_closed b in (PBase b', r)
  | PSharded s => let (s', r) := sh_destroy_closed s in (PSharded s', r)
  end.

(** what the harness's handler has been given, in the order of the calls *)
Definition b_range_stop (n : nat) (b : base) : list (key * bytes) := rev (b_range_with (stop_handler n) [] b).
Definition sh_range_stop_ord (order : list nat) (n : nat) (s : sharded) : list (key * bytes) :=
  rev (sh_range_with_ord order (stop_handler n) [] s).
Definition p_range_stop (n : nat) (p : pers) : list (key * bytes) := rev (p_range_with (stop_handler n) [] p).

(** ---- acceptance of an observed visit sequence (the order of a Go map and the order in which the shards
    are walked are the implementation's choice: the harness sends what it saw, the model says whether some
    choice explains it) ---- *)
Definition pair_eqb (p q : key * bytes) : bool := beqb (fst p) (fst q) && beqb (snd p) (snd q).
Fixpoint pairs_eqb (a b : list (key * bytes)) : bool :=
  match a, b with
  | [], [] => true
  | x :: a', y :: b' => pair_eqb x y && pairs_eqb a' b'
  | _, _ => false
  end.
Fixpoint nodup_keysb (l : list (key * bytes)) : bool :=
  match l with
  | [] => true
  | p :: r => negb (existsb (fun q => beqb (fst p) (fst q)) r) && nodup_keysb r
  end.
(** the [m] pairs one shard (or an unsharded persister) delivered: LevelDB -- exactly the first [m] in ascending
    key order; memorydb -- any [m] different pairs it holds *)
Definition b_accept_run (b : base) (m : nat) (run : list (key * bytes)) : bool :=
  match b with
  | BMem _ => Nat.eqb (length run) m && nodup_keysb run && forallb (fun p => existsb (pair_eqb p) (b_iter b)) run
  | _ => pairs_eqb run (firstn m (b_iter b))
  end.
Definition is_nil {A} (l : list A) : bool := match l with [] => true | _ => false end.
(** [c] calls so far, [todo] the shards not yet walked *)
Fixpoint sh_accept (fuel : nat) (s : sharded) (n c : nat) (todo : list nat) (vs : list (key * bytes)) : bool :=
  match vs with
  | [] => forallb (fun i => is_nil (b_iter (get_shard s i))) todo
  | p :: _ =>
      match fuel with
      | O => false
      | S f =>
          let i := shard_of s (fst p) in
          let b := get_shard s i in
          let m := expected_run n c (length (b_iter b)) in
          existsb (Nat.eqb i) todo && negb (Nat.eqb m 0) && b_accept_run b m (firstn m vs)
          && sh_accept f s n (c + m) (filter (fun j => negb (Nat.eqb i j)) todo) (skipn m vs)
      end
  end.
Definition p_accept_stop (n : nat) (p : pers) (vs : list (key * bytes)) : bool :=
  match p with
  | PBase b => b_accept_run b (expected_run n 0 (length (b_iter b))) vs
  | PSharded s => sh_accept (S (length (sh_shards s))) s n 0 (seq 0 (length (sh_shards s))) vs
  end.
