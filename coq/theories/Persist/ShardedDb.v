(** Model of sharded/shardedDB.go (C19, C08, C09): a map shard id -> persister, every
    operation on a key goes to `persisters[idProvider.ComputeId(key)]`.

    [base] is the types.Persister interface restricted to the three implementations of
    factory/db.go; [pers] adds the sharded persister over them. *)
From Coq Require Import List NArith ZArith Bool.
From Verif Require Import Base.BStr Persist.Batch Persist.LevelDb Persist.SerialDb Persist.MemDb Persist.ShardId.
Import ListNotations.

Inductive base : Type :=
| BDb (s : db)
| BSer (s : sdb)
| BMem (s : mem).

Definition b_put (b : base) (k : key) (v : val) : base * rclass :=
  match b with
  | BDb s => let (s', r) := db_put s k v in (BDb s', r)
  | BSer s => let (s', r) := sdb_put s k v in (BSer s', r)
  | BMem s => let (s', r) := mem_put s k v in (BMem s', r)
  end.
Definition b_remove (b : base) (k : key) : base * rclass :=
  match b with
  | BDb s => let (s', r) := db_remove s k in (BDb s', r)
  | BSer s => let (s', r) := sdb_remove s k in (BSer s', r)
  | BMem s => let (s', r) := mem_remove s k in (BMem s', r)
  end.
Definition b_get (b : base) (k : key) : rclass * val :=
  match b with
  | BDb s => db_get s k
  | BSer s => sdb_get s k
  | BMem s => mem_get s k
  end.
Definition b_has (b : base) (k : key) : rclass :=
  match b with
  | BDb s => db_has s k
  | BSer s => sdb_has s k
  | BMem s => mem_has s k
  end.
(** one firing of the persister's own timer (memorydb has none) *)
Definition b_tick (b : base) : base :=
  match b with
  | BDb s => BDb (db_tick s)
  | BSer s => BSer (sdb_tick s)
  | BMem s => BMem s
  end.
Definition b_close (b : base) : base * rclass :=
  match b with
  | BDb s => let (s', r) := db_close s in (BDb s', r)
  | BSer s => let (s', r) := sdb_close s in (BSer s', r)
  | BMem s => let (s', r) := mem_close s in (BMem s', r)
  end.
Definition b_range (b : base) : list (key * bytes) :=
  match b with
  | BDb s => db_range s
  | BSer s => sdb_range s
  | BMem s => map (fun p => (fst p, val_bytes (snd p))) (mem_range s)
  end.
(** the constructor called again on the same path; memorydb.New() has no path: a new empty map *)
Definition b_reopen (b : base) : base :=
  match b with
  | BDb s => BDb (db_reopen s)
  | BSer s => BSer (sdb_reopen s)
  | BMem _ => BMem new_mem
  end.

(** ---- sharded persister ---- *)
Record sharded : Type := {
  sh_n : N;                 (* idProvider.numOfShards *)
  sh_shards : list base     (* persisters[0], persisters[1], ... *)
}.

Definition shard_of (s : sharded) (k : key) : nat := N.to_nat (compute_id (sh_n s) k).
Definition get_shard (s : sharded) (i : nat) : base := nth i (sh_shards s) (BMem new_mem).
Fixpoint set_nth {A} (i : nat) (x : A) (l : list A) : list A :=
  match l, i with
  | [], _ => []
  | _ :: r, O => x :: r
  | y :: r, S i' => y :: set_nth i' x r
  end.
Definition set_shard (s : sharded) (i : nat) (b : base) : sharded :=
  {| sh_n := sh_n s; sh_shards := set_nth i b (sh_shards s) |}.

Definition sh_put (s : sharded) (k : key) (v : val) : sharded * rclass :=
  let i := shard_of s k in
  let (b', r) := b_put (get_shard s i) k v in (set_shard s i b', r).
Definition sh_remove (s : sharded) (k : key) : sharded * rclass :=
  let i := shard_of s k in
  let (b', r) := b_remove (get_shard s i) k in (set_shard s i b', r).
Definition sh_get (s : sharded) (k : key) : rclass * val := b_get (get_shard s (shard_of s k)) k.
Definition sh_has (s : sharded) (k : key) : rclass := b_has (get_shard s (shard_of s k)) k.

(** Close: close one persister after the other, stop at the first error
    (Go iterates the map in an unspecified order; no Close of a base persister fails) *)
Fixpoint close_all (l : list base) : list base * rclass :=
  match l with
  | [] => ([], ROk)
  | b :: r =>
      let (b', e) := b_close b in
      match e with
      | ROk => let (r', e') := close_all r in (b' :: r', e')
      | _ => (b' :: r, e)
      end
  end.
Definition sh_close (s : sharded) : sharded * rclass :=
  let (l, e) := close_all (sh_shards s) in ({| sh_n := sh_n s; sh_shards := l |}, e).

(** RangeKeys: every persister's RangeKeys, one after the other *)
Definition sh_range (s : sharded) : list (key * bytes) := flat_map b_range (sh_shards s).
Definition sh_tick (s : sharded) : sharded := {| sh_n := sh_n s; sh_shards := map b_tick (sh_shards s) |}.
(** NewShardedPersister on the same path: CreateBasePersister(path/i) for every shard id *)
Definition sh_reopen (s : sharded) : sharded := {| sh_n := sh_n s; sh_shards := map b_reopen (sh_shards s) |}.

(** NewShardedPersister(path, creator, NewShardIDProvider(n)) with a creator returning [mk] *)
Definition new_sharded (n : N) (mk : base) : sharded :=
  {| sh_n := n; sh_shards := repeat mk (N.to_nat n) |}.

(** ---- any persister ---- *)
Inductive pers : Type :=
| PBase (b : base)
| PSharded (s : sharded).

Definition p_put (p : pers) (k : key) (v : val) : pers * rclass :=
  match p with
  | PBase b => let (b', r) := b_put b k v in (PBase b', r)
  | PSharded s => let (s', r) := sh_put s k v in (PSharded s', r)
  end.
Definition p_remove (p : pers) (k : key) : pers * rclass :=
  match p with
  | PBase b => let (b', r) := b_remove b k in (PBase b', r)
  | PSharded s => let (s', r) := sh_remove s k in (PSharded s', r)
  end.
Definition p_get (p : pers) (k : key) : rclass * val :=
  match p with PBase b => b_get b k | PSharded s => sh_get s k end.
Definition p_has (p : pers) (k : key) : rclass :=
  match p with PBase b => b_has b k | PSharded s => sh_has s k end.
Definition p_tick (p : pers) : pers :=
  match p with PBase b => PBase (b_tick b) | PSharded s => PSharded (sh_tick s) end.
Definition p_close (p : pers) : pers * rclass :=
  match p with
  | PBase b => let (b', r) := b_close b in (PBase b', r)
  | PSharded s => let (s', r) := sh_close s in (PSharded s', r)
  end.
Definition p_range (p : pers) : list (key * bytes) :=
  match p with PBase b => b_range b | PSharded s => sh_range s end.
Definition p_reopen (p : pers) : pers :=
  match p with PBase b => PBase (b_reopen b) | PSharded s => PSharded (sh_reopen s) end.

(** the persister kinds of the harness: 0 leveldb.NewDB, 1 leveldb.NewSerialDB, 2 memorydb.New,
    3/4/5 sharded over 0/1/2 (NewShardIDProvider rejects fewer than 2 shards) *)
Definition new_base (kind : N) (max : Z) : option base :=
  match kind with
  | 0%N => Some (BDb (new_db max []))
  | 1%N => Some (BSer (new_sdb max []))
  | 2%N => Some (BMem new_mem)
  | _ => None
  end.
Definition new_pers (kind : N) (max : Z) (nshards : N) : option pers :=
  if (kind <? 3)%N then option_map PBase (new_base kind max)
  else if (nshards <? 2)%N then None
  else option_map (fun b => PSharded (new_sharded nshards b)) (new_base (kind - 3) max).
