(** The specification every persister is measured against: a total map key -> option bytes
    (a nil value and an empty value are the same stored value: the empty byte string). *)
From Coq Require Import List NArith Bool.
From Verif Require Import Base.BStr Persist.Batch.
Import ListNotations.

Definition mapspec := key -> option bytes.

Definition m_empty : mapspec := fun _ => None.
Definition m_upd (m : mapspec) (k : key) (x : option bytes) : mapspec :=
  fun k' => if beqb k' k then x else m k'.
Definition m_put (m : mapspec) (k : key) (v : val) : mapspec := m_upd m k (Some (val_bytes v)).
Definition m_remove (m : mapspec) (k : key) : mapspec := m_upd m k None.

(** what Get / Has must answer in a map [m]: class and (canonical) bytes *)
Definition m_get (m : mapspec) (k : key) : rclass * option bytes :=
  match m k with Some v => (ROk, Some v) | None => (RNotFound, None) end.
Definition m_has (m : mapspec) (k : key) : rclass :=
  match m k with Some _ => ROk | None => RNotFound end.

(** a list of pairs presents a map exactly: every binding, once, nothing else *)
Definition presents (l : list (key * bytes)) (m : mapspec) : Prop :=
  NoDup (map fst l) /\ forall k v, In (k, v) l <-> m k = Some v.

(** the operations of a sequential history (C08) *)
Inductive op : Type :=
| OPut (k : key) (v : val)
| ORemove (k : key)
| OGet (k : key)
| OHas (k : key)
| OTick.

(** canonical answer of an operation: class + bytes (nil and empty identified, [None] = no bytes) *)
Definition answer := (rclass * option bytes)%type.

Definition spec_step (m : mapspec) (o : op) : mapspec * answer :=
  match o with
  | OPut k v => (m_put m k v, (ROk, None))
  | ORemove k => (m_remove m k, (ROk, None))
  | OGet k => (m, m_get m k)
  | OHas k => (m, (m_has m k, None))
  | OTick => (m, (ROk, None))
  end.

Fixpoint spec_run (m : mapspec) (ops : list op) : mapspec * list answer :=
  match ops with
  | [] => (m, [])
  | o :: r => let '(m1, a) := spec_step m o in
              let '(m2, l) := spec_run m1 r in (m2, a :: l)
  end.
