(** Crash model of the LevelDB persisters (C10) -- definitions only.

    The disk is no longer the association list of Batch.v but a LOG: one record per
    `db.Write(batch, wopt)` that reached goleveldb's journal (the batch's record list), each
    with a [w_synced] flag.  The log is kept newest first, like [b_log].

      write started   : the record is appended, not yet fsync'ed       ([ld_write_start])
      write completed : `journalWriter.Sync()` iff wopt.Sync, then db.Write returns nil  ([ld_write_done])
      crash           : every synced record survives, plus an arbitrary PREFIX (in time) of the
                        unsynced tail; a torn last record is dropped whole (journal CRC), so the
                        survivors are always a list of whole records  ([crash_ok] / [crash_drop])
      recover         : fold the surviving records with Batch.apply_log  ([recover])
      reopen          : the constructor on an existing directory; goleveldb replays the journal into an
                        fsync'ed table file + manifest, so afterwards every record is synced  ([reopen])

    The flush logic of leveldb.go (DB) and leveldbSerial.go + serialActions.go (SerialDB) is re-run over
    this disk as a MICRO-STEP machine: every operation yields the list of the states it goes through
    ([op_trace]); a crash may hit any of them.  The write option `Sync: true` the code passes
    (leveldb.go putBatch, serialActions.go doPutRequest) is the model parameter [c_sync].

    What is NOT modelled (validated by harness/crash instead): real fsync semantics, goleveldb's journal
    format / recovery code / table files, the real-time bound of the timer (the timer is the event Tick). *)
From Coq Require Import List NArith ZArith Bool.
From Verif Require Import Base.BStr Persist.Batch Persist.MapSpec Persist.PersistSpec.
Import ListNotations.
Open Scope Z_scope.

(** ---- the log disk ---- *)
Record wrec : Type := { w_recs : list brec; w_synced : bool }.
Definition ldisk := list wrec.   (* newest first *)

Definition unsynced (w : wrec) : Prop := w_synced w = false.
Definition all_synced (l : ldisk) : Prop := Forall (fun w => w_synced w = true) l.

Definition ld_append (l : ldisk) (recs : list brec) : ldisk := {| w_recs := recs; w_synced := false |} :: l.
Definition ld_sync (l : ldisk) : ldisk := map (fun w => {| w_recs := w_recs w; w_synced := true |}) l.

(** goleveldb db.Write: `if batch == nil || batch.Len() == 0 { return err }` -- an empty batch never
    reaches the journal; otherwise writeJournal = Next/Write/Flush, then `if sync { journalWriter.Sync() }` *)
Definition ld_write_start (l : ldisk) (recs : list brec) : ldisk :=
  match recs with [] => l | _ => ld_append l recs end.
Definition ld_write_done (sync : bool) (l : ldisk) (recs : list brec) : ldisk :=
  match recs with [] => l | _ => if sync then ld_sync l else l end.

(** crash: [lost] are the newest records, all of them unsynced *)
Definition crash_ok (l l' : ldisk) : Prop := exists lost, l = lost ++ l' /\ Forall unsynced lost.
(** executable: lose the [n] newest records, but never a synced one *)
Fixpoint crash_drop (n : nat) (l : ldisk) : ldisk :=
  match n, l with
  | S n', w :: r => if w_synced w then l else crash_drop n' r
  | _, _ => l
  end.
(** ALL unsynced data is lost *)
Definition lose_all_unsynced (l : ldisk) : ldisk := crash_drop (length l) l.

Definition recover (l : ldisk) : disk := fold_right (fun w d => apply_log (w_recs w) d) [] l.

(** ---- the persisters over the log disk ---- *)
Inductive pkind : Type := KDb | KSerial.

Record cst : Type := {
  c_kind : pkind;
  c_sync : bool;        (* wopt.Sync of putBatch / doPutRequest *)
  c_batch : batch;
  c_size : Z;           (* sizeBatch *)
  c_max : Z;            (* maxBatchSize *)
  c_log : ldisk;
  c_started : nat;      (* ghost: number of putBatch -> db.Write calls entered *)
  c_completed : nat     (* ghost: number of them that returned *)
}.

(** NewDB / NewSerialDB on a directory holding [l] *)
Definition c_init (kind : pkind) (sync : bool) (max : Z) (l : ldisk) : cst :=
  {| c_kind := kind; c_sync := sync; c_batch := new_batch; c_size := 0; c_max := max; c_log := l;
     c_started := 0; c_completed := 0 |}.

Definition with_batch (s : cst) (b : batch) : cst :=
  {| c_kind := c_kind s; c_sync := c_sync s; c_batch := b; c_size := c_size s; c_max := c_max s; c_log := c_log s;
     c_started := c_started s; c_completed := c_completed s |}.
Definition with_size (s : cst) (n : Z) : cst :=
  {| c_kind := c_kind s; c_sync := c_sync s; c_batch := c_batch s; c_size := n; c_max := c_max s; c_log := c_log s;
     c_started := c_started s; c_completed := c_completed s |}.

(** micro-step 1 of putBatch: db.Write entered, the journal record is in the file *)
Definition write_start (s : cst) : cst :=
  {| c_kind := c_kind s; c_sync := c_sync s; c_batch := c_batch s; c_size := c_size s; c_max := c_max s;
     c_log := ld_write_start (c_log s) (b_log (c_batch s));
     c_started := S (c_started s); c_completed := c_completed s |}.
(** micro-step 2: the journal is fsync'ed iff wopt.Sync; db.Write returns nil *)
Definition write_done (s : cst) : cst :=
  {| c_kind := c_kind s; c_sync := c_sync s; c_batch := c_batch s; c_size := c_size s; c_max := c_max s;
     c_log := ld_write_done (c_sync s) (c_log s) (b_log (c_batch s));
     c_started := c_started s; c_completed := S (c_completed s) |}.
(** micro-step 3: DB `s.batch.Reset(); s.sizeBatch = 0` / SerialDB `s.sizeBatch = 0; s.batch = NewBatch()` *)
Definition reset_batch (s : cst) : cst := with_size (with_batch s new_batch) 0.

(** putBatch + the reset that follows it in updateBatchWithIncrement / batchTimeoutHandle / SerialDB.putBatch *)
Definition flush_trace (s : cst) : list cst :=
  let s1 := write_start s in
  let s2 := write_done s1 in
  [s1; s2; reset_batch s2].

(** updateBatchWithIncrement: sizeBatch++; `if sizeBatch < maxBatchSize return nil`; putBatch; reset *)
Definition update_trace (s : cst) : list cst :=
  let s1 := with_size s (c_size s + 1) in
  if c_size s1 <? c_max s1 then [s1] else s1 :: flush_trace s1.

(** Close; then the constructor again on the same directory.
    DB.Close: `_ = putBatch(batch); sizeBatch = 0` (batch NOT reset); cancel; db.Close().
    SerialDB.doClose: `_ = putBatch()` (which resets on success); cancel; db.Close(). *)
Definition sync_log (s : cst) : cst :=
  {| c_kind := c_kind s; c_sync := c_sync s; c_batch := c_batch s; c_size := c_size s; c_max := c_max s;
     c_log := ld_sync (c_log s); c_started := c_started s; c_completed := c_completed s |}.
(** the constructor on an existing directory: a fresh object (empty batch, sizeBatch 0); goleveldb's
    recovery replays the journal into a table file and a manifest, both fsync'ed, whatever the write option was *)
Definition reopen (s : cst) : cst := sync_log (reset_batch s).
Definition cycle_trace (s : cst) : list cst :=
  let s1 := write_start s in
  let s2 := write_done s1 in
  let closed := match c_kind s with KDb => with_size s2 0 | KSerial => reset_batch s2 end in
  [s1; s2; closed; reopen closed].

(** the states an operation goes through, in order (never empty; the last one is the result) *)
Definition op_trace (s : cst) (o : op2) : list cst :=
  match o with
  | O2 (OPut k v) => let s1 := with_batch s (batch_put (c_batch s) k v) in s1 :: update_trace s1
  | O2 (ORemove k) => let s1 := with_batch s (batch_delete (c_batch s) k) in s1 :: update_trace s1
  | O2 OTick => flush_trace s
  | O2 (OGet _) | O2 (OHas _) => [s]
  | OCycle => cycle_trace s
  end.

Definition c_step (s : cst) (o : op2) : cst := last (op_trace s o) s.
Definition c_run (s : cst) (ops : list op2) : cst := fold_left c_step ops s.

(** every state a history goes through = every crash point *)
Fixpoint c_trace (s : cst) (ops : list op2) : list cst :=
  match ops with
  | [] => []
  | o :: r => op_trace s o ++ c_trace (c_step s o) r
  end.
Definition crash_points (s : cst) (ops : list op2) : list cst := s :: c_trace s ops.

(** ---- the specification: flush boundaries of a history, by the property text ----
    A flush happens when MaxBatchSize acknowledged writes have accumulated since the last one,
    when the timer fires, and at Close. [flush_pos] lists the positions (number of operations
    consumed) of the flushes of a history, in order. *)
Definition is_write (o : op2) : bool :=
  match o with O2 (OPut _ _) | O2 (ORemove _) => true | _ => false end.
Definition is_flush_op (o : op2) : bool :=
  match o with O2 OTick | OCycle => true | _ => false end.

Fixpoint flush_pos (max pend : Z) (i : nat) (ops : list op2) : list nat :=
  match ops with
  | [] => []
  | o :: r =>
      if is_write o then
        (if pend + 1 <? max then flush_pos max (pend + 1) (S i) r else S i :: flush_pos max 0 (S i) r)
      else if is_flush_op o then S i :: flush_pos max 0 (S i) r
      else flush_pos max pend (S i) r
  end.
Definition nflush (max : Z) (ops : list op2) : nat := length (flush_pos max 0 0 ops).

(** the map after the first [n] operations *)
Definition state_after (m0 : mapspec) (ops : list op2) (n : nat) : mapspec := fst (spec_run2 m0 (firstn n ops)).
(** the map after exactly [j] flushes (j = 0: the map the directory held when it was opened) *)
Definition boundary (max : Z) (m0 : mapspec) (ops : list op2) (j : nat) : mapspec :=
  state_after m0 ops (nth j (0%nat :: flush_pos max 0 0 ops) 0%nat).

Fixpoint writes (ops : list op2) : Z :=
  match ops with [] => 0 | o :: r => (if is_write o then 1 else 0) + writes r end.
