(** C09, second half: RangeKeys with a handler that stops the iteration, Destroy / DestroyClosed.
    Lemmas only; the statements are collected in Props/C09.v. *)
From Coq Require Import List NArith ZArith Bool Lia PeanoNat Permutation Sorted.
From Verif Require Import Base.BStr Persist.Batch Persist.LevelDb Persist.SerialDb Persist.MemDb Persist.MapSpec
  Persist.ShardId Persist.ShardId_proofs Persist.ShardedDb Persist.PersistSpec
  Persist.Batch_proofs Persist.LevelDb_proofs Persist.SerialDb_proofs Persist.MemDb_proofs Persist.ShardedDb_proofs
  Persist.PersistSpec_proofs.
Import ListNotations.

Ltac sp := repeat match goal with |- _ /\ _ => split end.

(** ================= lists ================= *)

Lemma NoDup_app_l {A} (l1 l2 : list A) : NoDup (l1 ++ l2) -> NoDup l1.
Proof.
  induction l1 as [|x l1 IH]; simpl; intros H; [constructor|].
  inversion H as [|y ys Hn Hd]; subst. constructor; [|apply IH; exact Hd].
  intros Hin. apply Hn. apply in_or_app. left. exact Hin.
Qed.

Lemma NoDup_firstn {A} m (l : list A) : NoDup l -> NoDup (firstn m l).
Proof. intros H. rewrite <- (firstn_skipn m l) in H. apply NoDup_app_l in H. exact H. Qed.

Lemma NoDup_app_intro {A} (l1 l2 : list A) :
  NoDup l1 -> NoDup l2 -> (forall x, In x l1 -> ~ In x l2) -> NoDup (l1 ++ l2).
Proof.
  induction l1 as [|x l1 IH]; simpl; intros H1 H2 Hd; [exact H2|].
  inversion H1 as [|y ys Hn Hd1]; subst. constructor.
  - rewrite in_app_iff. intros [H|H]; [contradiction|]. apply (Hd x); [left; reflexivity|exact H].
  - apply IH; auto.
Qed.

Lemma incl_firstn {A} m (l : list A) : incl (firstn m l) l.
Proof. intros x Hx. rewrite <- (firstn_skipn m l). apply in_or_app. left. exact Hx. Qed.

Lemma firstn_min_length {A} m (l : list A) : firstn (Nat.min (length l) m) l = firstn m l.
Proof.
  destruct (Nat.le_ge_cases m (length l)) as [H|H].
  - rewrite Nat.min_r by exact H. reflexivity.
  - rewrite Nat.min_l by exact H. rewrite firstn_all. symmetry. apply firstn_all2. exact H.
Qed.

(** ================= ascending key order ================= *)

Definition kle (a b : key * bytes) : Prop := bcmp (fst a) (fst b) <> Gt.

Lemma kle_trans a b c : kle a b -> kle b c -> kle a c.
Proof.
  unfold kle. intros H1 H2.
  destruct (bcmp (fst a) (fst b)) eqn:E1; [| |congruence].
  - apply bcmp_eq in E1. rewrite E1. exact H2.
  - destruct (bcmp (fst b) (fst c)) eqn:E2; [| |congruence].
    + apply bcmp_eq in E2. rewrite <- E2, E1. discriminate.
    + rewrite (bcmp_lt_trans _ _ _ E1 E2). discriminate.
Qed.

Lemma kinsert_perm x l : Permutation (kinsert x l) (x :: l).
Proof.
  induction l as [|y l IH]; simpl; [reflexivity|].
  destruct (bcmp (fst x) (fst y)); try reflexivity.
  rewrite IH. apply perm_swap.
Qed.

Lemma ksort_perm l : Permutation (ksort l) l.
Proof.
  induction l as [|x l IH]; simpl; [reflexivity|]. rewrite kinsert_perm. constructor. exact IH.
Qed.

Lemma kinsert_sorted x l : StronglySorted kle l -> StronglySorted kle (kinsert x l).
Proof.
  induction l as [|y l IH]; simpl; intros H.
  - constructor; constructor.
  - inversion H as [|y' l' Hs Hf]; subst.
    destruct (bcmp (fst x) (fst y)) eqn:E.
    + constructor; [exact H|]. constructor; [unfold kle; congruence|].
      rewrite Forall_forall in *. intros z Hz. apply (kle_trans x y z); [unfold kle; congruence|apply Hf; exact Hz].
    + constructor; [exact H|]. constructor; [unfold kle; congruence|].
      rewrite Forall_forall in *. intros z Hz. apply (kle_trans x y z); [unfold kle; congruence|apply Hf; exact Hz].
    + constructor; [apply IH; exact Hs|].
      assert (Hyx : kle y x). { unfold kle. rewrite bcmp_antisym, E. discriminate. }
      rewrite Forall_forall in *. intros z Hz.
      apply (Permutation_in _ (kinsert_perm x l)) in Hz. destruct Hz as [<-|Hz]; [exact Hyx|apply Hf; exact Hz].
Qed.

Lemma ksort_sorted l : StronglySorted kle (ksort l).
Proof. induction l as [|x l IH]; simpl; [constructor|apply kinsert_sorted; exact IH]. Qed.

(** with pairwise different keys the order is strict *)
Lemma sorted_strict l : NoDup (map fst l) -> StronglySorted kle l -> StronglySorted klt l.
Proof.
  induction l as [|x l IH]; simpl; intros Hn Hs; [constructor|].
  inversion Hn as [|k ks Hnin Hn']; subst. inversion Hs as [|x' l' Hs' Hf]; subst.
  constructor; [apply IH; assumption|].
  rewrite Forall_forall in *. intros z Hz. specialize (Hf z Hz). unfold kle in Hf. unfold klt.
  destruct (bcmp (fst x) (fst z)) eqn:E; [|reflexivity|congruence].
  apply bcmp_eq in E. exfalso. apply Hnin. rewrite E. apply in_map. exact Hz.
Qed.

Lemma ksort_keys_nodup l : NoDup (map fst l) -> NoDup (map fst (ksort l)).
Proof. intros H. apply (Permutation_NoDup (Permutation_map fst (Permutation_sym (ksort_perm l)))). exact H. Qed.

Lemma ksort_strict l : NoDup (map fst l) -> StronglySorted klt (ksort l).
Proof. intros H. apply sorted_strict; [apply ksort_keys_nodup; exact H|apply ksort_sorted]. Qed.

(** ================= the stopping handler ================= *)

Lemma expected_run_le n c len : (expected_run n c len <= len)%nat.
Proof. unfold expected_run. destruct len; [lia|]. apply Nat.le_min_l. Qed.

(** the loop with the harness's handler: the pairs delivered are a prefix of the iteration, of length
    [expected_run n (calls so far) (pairs held)] *)
Lemma iter_with_stop n l : forall st,
  iter_with (stop_handler n) st l = rev (firstn (expected_run n (length st) (length l)) l) ++ st.
Proof.
  induction l as [|p r IH]; intros st; [reflexivity|].
  cbn [iter_with stop_handler]. cbn [length].
  destruct (Nat.ltb_spec (S (length st)) n) as [Hlt|Hge].
  - rewrite IH. cbn [length].
    assert (E : expected_run n (length st) (S (length r)) = S (expected_run n (S (length st)) (length r))).
    { unfold expected_run. destruct (length r) as [|k]; lia. }
    rewrite E. cbn [firstn rev]. rewrite <- app_assoc. reflexivity.
  - assert (E : expected_run n (length st) (S (length r)) = 1%nat).
    { unfold expected_run. lia. }
    rewrite E. reflexivity.
Qed.

(** ================= one persister ================= *)

Lemma b_range_with_iter {St} (h : St -> key * bytes -> St * bool) st b :
  b_range_with h st b = iter_with h st (b_iter b).
Proof.
  destruct b as [s|s|s]; cbn [b_range_with b_iter].
  - unfold db_range_with. destruct (d_open s); reflexivity.
  - unfold sdb_range_with. destruct (s_open s); reflexivity.
  - reflexivity.
Qed.

(** the iteration walks exactly what RangeKeys presents *)
Lemma b_iter_perm b : Permutation (b_iter b) (b_range b).
Proof.
  destruct b as [s|s|s]; cbn [b_iter b_range].
  - unfold db_range. destruct (d_open s); [apply ksort_perm|reflexivity].
  - unfold sdb_range. destruct (s_open s); [apply ksort_perm|reflexivity].
  - reflexivity.
Qed.

Lemma b_iter_nodup b : b_ok b -> NoDup (map fst (b_iter b)).
Proof.
  intros Hok. destruct (b_range_spec b Hok) as (Hn & _).
  apply (Permutation_NoDup (Permutation_map fst (Permutation_sym (b_iter_perm b)))). exact Hn.
Qed.

Lemma b_iter_flushed b k v : b_ok b -> (In (k, v) (b_iter b) <-> b_flushed b k = Some v).
Proof.
  intros Hok. destruct (b_range_spec b Hok) as (_ & Hp). rewrite <- Hp. split; intros H.
  - apply (Permutation_in _ (b_iter_perm b)). exact H.
  - apply (Permutation_in _ (Permutation_sym (b_iter_perm b))). exact H.
Qed.

Lemma b_iter_sorted b : b_ok b -> b_durable b -> StronglySorted klt (b_iter b).
Proof.
  destruct b as [s|s|s]; cbn [b_ok b_durable b_iter]; intros Hok Hd; [| |contradiction].
  - destruct Hok as (Ho & _ & Hn). rewrite Ho. apply ksort_strict. exact Hn.
  - destruct Hok as (Ho & _ & Hn). rewrite Ho. apply ksort_strict. exact Hn.
Qed.

Lemma b_range_stop_eq n b : b_range_stop n b = firstn (expected_run n 0 (length (b_iter b))) (b_iter b).
Proof.
  unfold b_range_stop. rewrite b_range_with_iter, iter_with_stop. cbn [length]. rewrite app_nil_r. apply rev_involutive.
Qed.

Lemma expected_run_0 n len : expected_run n 0 len = Nat.min len (Nat.max 1 n).
Proof. unfold expected_run. destruct len; [reflexivity|]. rewrite Nat.sub_0_r. reflexivity. Qed.

Lemma b_range_stop_firstn n b : b_range_stop n b = firstn (Nat.max 1 n) (b_iter b).
Proof. rewrite b_range_stop_eq, expected_run_0. apply firstn_min_length. Qed.

(** the first [m] pairs of the iteration are an admissible run *)
Lemma run_ok_firstn b m : b_ok b -> (m <= length (b_iter b))%nat -> run_ok b m (firstn m (b_iter b)).
Proof.
  intros Hok Hm. unfold run_ok. sp.
  - apply firstn_length_le. exact Hm.
  - rewrite <- firstn_map. apply NoDup_firstn. apply b_iter_nodup. exact Hok.
  - apply incl_firstn.
  - reflexivity.
Qed.

Lemma run_ok_flushed b m run k v : b_ok b -> run_ok b m run -> In (k, v) run -> b_flushed b k = Some v.
Proof. intros Hok (_ & _ & Hi & _) Hin. apply (b_iter_flushed b k v Hok). apply Hi. exact Hin. Qed.

Lemma b_iter_length b : length (b_iter b) = length (b_range b).
Proof. apply Permutation_length. apply b_iter_perm. Qed.

(** (a) for DB, SerialDB, memorydb: exactly min(max(n,1), flushed keys) visits, each a flushed pair, no key twice *)
Lemma b_range_stop_spec n b :
  b_ok b ->
  length (b_range_stop n b) = Nat.min (Nat.max 1 n) (length (b_range b))
  /\ NoDup (map fst (b_range_stop n b))
  /\ (forall k v, In (k, v) (b_range_stop n b) -> b_flushed b k = Some v)
  /\ run_ok b (expected_run n 0 (length (b_iter b))) (b_range_stop n b).
Proof.
  intros Hok.
  assert (Hr : run_ok b (expected_run n 0 (length (b_iter b))) (b_range_stop n b)).
  { rewrite b_range_stop_eq. apply run_ok_firstn; [exact Hok|apply expected_run_le]. }
  sp.
  - destruct Hr as (Hl & _). rewrite Hl, expected_run_0, b_iter_length. apply Nat.min_comm.
  - apply Hr.
  - intros k v. apply (run_ok_flushed b _ _ k v Hok Hr).
  - exact Hr.
Qed.

(** ... and for the LevelDB directories: the first max(n,1) pairs in strictly ascending key order *)
Lemma b_range_stop_ascending n b :
  b_ok b -> b_durable b ->
  b_range_stop n b = firstn (Nat.max 1 n) (b_iter b)
  /\ StronglySorted klt (b_iter b)
  /\ Permutation (b_iter b) (b_range b).
Proof.
  intros Hok Hd. sp; [apply b_range_stop_firstn|apply b_iter_sorted; assumption|apply b_iter_perm].
Qed.

(** ================= the sharded persister ================= *)

Lemma get_shard_ok s i : sh_ok s -> b_ok (get_shard s i).
Proof.
  intros (_ & _ & Hall). unfold get_shard.
  destruct (nth_error (sh_shards s) i) as [b|] eqn:E.
  - rewrite (nth_error_nth _ _ _ E). apply (Hall i b E).
  - apply nth_error_None in E. rewrite nth_overflow by exact E. cbn [b_ok]. constructor.
Qed.

Lemma get_shard_overflow s i : (length (sh_shards s) <= i)%nat -> b_iter (get_shard s i) = [].
Proof. intros H. unfold get_shard. rewrite nth_overflow by exact H. reflexivity. Qed.

(** a key LevelDB (or the Go map) holds has been given to the persister *)
Lemma b_range_dom b k v : b_ok b -> In (k, v) (b_range b) -> In k (b_dom b).
Proof.
  intros Hok Hin. destruct b as [d|d|d]; cbn [b_range b_dom b_ok] in *.
  - unfold db_range in Hin. destruct Hok as (Ho & _). rewrite Ho in Hin. apply in_or_app. left. apply (in_map fst) in Hin. exact Hin.
  - unfold sdb_range in Hin. destruct Hok as (Ho & _). rewrite Ho in Hin. apply in_or_app. left. apply (in_map fst) in Hin. exact Hin.
  - apply in_map_iff in Hin. destruct Hin as ([k1 w] & E & Hin). simpl in E. inversion E; subst. apply (in_map fst) in Hin. exact Hin.
Qed.

(** every pair shard [i] delivers is routed to shard [i], and [i] is a shard id *)
Lemma shard_iter_routed s i k v :
  sh_ok s -> In (k, v) (b_iter (get_shard s i)) -> shard_of s k = i /\ (i < length (sh_shards s))%nat.
Proof.
  intros Hok Hin.
  destruct (Nat.lt_ge_cases i (length (sh_shards s))) as [Hi|Hi].
  - split; [|exact Hi]. pose proof Hok as (_ & _ & Hall).
    pose proof (nth_error_get_shard s i Hi) as E. destruct (Hall i _ E) as (Hbok & Hdom).
    rewrite Forall_forall in Hdom. apply Hdom. apply (b_range_dom _ k v Hbok).
    apply (Permutation_in _ (b_iter_perm _)). exact Hin.
  - rewrite get_shard_overflow in Hin by exact Hi. contradiction.
Qed.

Lemma shard_iter_flushed s i k v : sh_ok s -> In (k, v) (b_iter (get_shard s i)) -> sh_flushed s k = Some v.
Proof.
  intros Hok Hin. destruct (shard_iter_routed s i k v Hok Hin) as (Hr & _).
  unfold sh_flushed. rewrite Hr. apply (b_iter_flushed _ k v (get_shard_ok s i Hok)). exact Hin.
Qed.

(** the model: with the shards walked in the order [order], the handler's state grows by admissible runs *)
Lemma sh_range_with_ord_runs s n order : sh_ok s -> forall st,
  exists vs, sh_range_with_ord order (stop_handler n) st s = rev vs ++ st /\ runs_ok s n (length st) order vs.
Proof.
  intros Hok. induction order as [|i order IH]; intros st.
  - exists []. split; [reflexivity|constructor].
  - unfold sh_range_with_ord. cbn [fold_left]. rewrite b_range_with_iter, iter_with_stop.
    set (b := get_shard s i). set (m := expected_run n (length st) (length (b_iter b))).
    set (run := firstn m (b_iter b)).
    destruct (IH (rev run ++ st)) as (vs & E & Hr). unfold sh_range_with_ord in E.
    exists (run ++ vs). split.
    + rewrite E. rewrite rev_app_distr, <- app_assoc. reflexivity.
    + apply runs_cons.
      * apply run_ok_firstn; [apply get_shard_ok; exact Hok|apply expected_run_le].
      * rewrite app_length, rev_length, Nat.add_comm in Hr. exact Hr.
Qed.

Lemma sh_range_stop_ord_runs s n order : sh_ok s -> runs_ok s n 0 order (sh_range_stop_ord order n s).
Proof.
  intros Hok. destruct (sh_range_with_ord_runs s n order Hok []) as (vs & E & Hr).
  unfold sh_range_stop_ord. rewrite E, app_nil_r, rev_involutive. exact Hr.
Qed.

(** Go's `for _, persister := range s.persisters` in the order 0, 1, ... is the model's own walk *)
Lemma fold_left_nth {A St} (f : St -> A -> St) (d : A) (l : list A) : forall pre st,
  fold_left (fun st i => f st (nth i (pre ++ l) d)) (seq (length pre) (length l)) st = fold_left f l st.
Proof.
  induction l as [|b r IH]; intros pre st; [reflexivity|].
  cbn [length seq fold_left]. rewrite app_nth2 by lia. rewrite Nat.sub_diag. cbn [nth].
  specialize (IH (pre ++ [b]) (f st b)). rewrite app_length in IH. cbn [length] in IH.
  rewrite Nat.add_1_r in IH. rewrite <- app_assoc in IH. exact IH.
Qed.

Lemma sh_range_with_is_ord {St} (h : St -> key * bytes -> St * bool) st s :
  sh_range_with h st s = sh_range_with_ord (seq 0 (length (sh_shards s))) h st s.
Proof.
  unfold sh_range_with, sh_range_with_ord, get_shard.
  symmetry. apply (fold_left_nth (fun st b => b_range_with h st b) (BMem new_mem) (sh_shards s) [] st).
Qed.

(** ---- what every explained visit sequence satisfies ---- *)

Lemma runs_ok_in s n c order vs k v :
  runs_ok s n c order vs -> In (k, v) vs -> exists i, In i order /\ In (k, v) (b_iter (get_shard s i)).
Proof.
  induction 1 as [c|c i order run rest Hrun Hrest IH]; intros Hin; [contradiction|].
  apply in_app_or in Hin. destruct Hin as [Hin|Hin].
  - exists i. split; [left; reflexivity|]. destruct Hrun as (_ & _ & Hi & _). apply Hi. exact Hin.
  - destruct (IH Hin) as (j & Hj & Hk). exists j. split; [right; exact Hj|exact Hk].
Qed.

Lemma runs_ok_flushed s n c order vs k v :
  sh_ok s -> runs_ok s n c order vs -> In (k, v) vs -> sh_flushed s k = Some v.
Proof.
  intros Hok Hr Hin. destruct (runs_ok_in s n c order vs k v Hr Hin) as (i & _ & Hi).
  apply (shard_iter_flushed s i k v Hok Hi).
Qed.

Lemma runs_ok_nodup s n c order vs :
  sh_ok s -> NoDup order -> runs_ok s n c order vs -> NoDup (map fst vs).
Proof.
  intros Hok Hnd Hr. induction Hr as [c|c i order run rest Hrun Hrest IH]; [constructor|].
  inversion Hnd as [|x xs Hni Hnd']; subst. rewrite map_app. apply NoDup_app_intro.
  - apply Hrun.
  - apply IH. exact Hnd'.
  - intros k Hk1 Hk2. apply in_map_iff in Hk1. destruct Hk1 as ([k1 v1] & E1 & H1). simpl in E1. subst k1.
    apply in_map_iff in Hk2. destruct Hk2 as ([k2 v2] & E2 & H2). simpl in E2. subst k2.
    destruct Hrun as (_ & _ & Hi & _). apply Hi in H1.
    destruct (shard_iter_routed s i k v1 Hok H1) as (R1 & _).
    destruct (runs_ok_in s n _ order rest k v2 Hrest H2) as (j & Hj & Hkj).
    destruct (shard_iter_routed s j k v2 Hok Hkj) as (R2 & _).
    apply Hni. rewrite <- R1, R2. exact Hj.
Qed.

(** number of pairs the shards of [order] hold *)
Definition held (s : sharded) (order : list nat) : nat :=
  list_sum (map (fun i => length (b_iter (get_shard s i))) order).

Lemma runs_ok_count s n c order vs :
  runs_ok s n c order vs ->
  (Nat.min (Nat.max 1 n) (c + held s order) <= c + length vs)%nat
  /\ (length vs <= held s order)%nat
  /\ (c + length vs <= Nat.max c (Nat.max 1 n - 1) + length order)%nat.
Proof.
  induction 1 as [c|c i order run rest Hrun Hrest IH].
  - unfold held, list_sum. cbn [map fold_right length]. lia.
  - destruct Hrun as (Hl & _). destruct IH as (I1 & I2 & I3).
    unfold held, list_sum in *. cbn [map fold_right length]. rewrite app_length.
    set (len := length (b_iter (get_shard s i))) in *.
    set (T := fold_right Nat.add 0%nat (map (fun i0 => length (b_iter (get_shard s i0))) order)) in *.
    rewrite Hl in *. pose proof (expected_run_le n c len) as Hle.
    assert (Hm : expected_run n c len = len \/ (expected_run n c len = Nat.max 1 (n - c) /\ Nat.max 1 (n - c) < len)%nat).
    { unfold expected_run. destruct len; [left; reflexivity|]. lia. }
    assert (Hup : (expected_run n c len <= Nat.max 1 (n - c))%nat).
    { unfold expected_run. destruct len; lia. }
    sp; lia.
Qed.

Lemma list_sum_perm l l' : Permutation l l' -> list_sum l = list_sum l'.
Proof. induction 1; simpl; lia. Qed.

Lemma length_flat_map_sum {A B} (f : A -> list B) l : length (flat_map f l) = list_sum (map (fun x => length (f x)) l).
Proof. induction l as [|x l IH]; simpl; [reflexivity|]. rewrite app_length, IH. reflexivity. Qed.

Lemma map_nth_seq {A B} (g : A -> B) (d : A) (l : list A) : forall pre,
  map (fun i => g (nth i (pre ++ l) d)) (seq (length pre) (length l)) = map g l.
Proof.
  induction l as [|b r IH]; intros pre; [reflexivity|].
  cbn [length seq map]. rewrite app_nth2 by lia. rewrite Nat.sub_diag. cbn [nth]. f_equal.
  specialize (IH (pre ++ [b])). rewrite app_length in IH. cbn [length] in IH.
  rewrite Nat.add_1_r in IH. rewrite <- app_assoc in IH. exact IH.
Qed.

(** walking every shard once: the shards together hold what RangeKeys presents *)
Lemma held_all s order :
  Permutation order (seq 0 (length (sh_shards s))) -> held s order = length (sh_range s).
Proof.
  intros Hp. unfold held. rewrite (list_sum_perm _ _ (Permutation_map _ Hp)).
  unfold sh_range. rewrite length_flat_map_sum. f_equal. unfold get_shard.
  pose proof (map_nth_seq (fun b => length (b_iter b)) (BMem new_mem) (sh_shards s) []) as E.
  cbn [app length] in E. rewrite E.
  apply map_ext. intros b. apply b_iter_length.
Qed.

(** (a) for the sharded persister, whatever the order in which Go walks the shards: every visited pair is a
    flushed pair, no key twice, at least min(max(n,1), flushed) visits and at most max(n,1) + shards - 1:
    after the handler's `false` every further shard still delivers its first pair *)
Lemma runs_ok_spec s n order vs :
  sh_ok s -> Permutation order (seq 0 (length (sh_shards s))) -> runs_ok s n 0 order vs ->
  (forall k v, In (k, v) vs -> sh_flushed s k = Some v)
  /\ NoDup (map fst vs)
  /\ (Nat.min (Nat.max 1 n) (length (sh_range s)) <= length vs)%nat
  /\ (length vs <= length (sh_range s))%nat
  /\ (length vs + 1 <= Nat.max 1 n + length (sh_shards s))%nat.
Proof.
  intros Hok Hp Hr. destruct (runs_ok_count s n 0 order vs Hr) as (C1 & C2 & C3).
  rewrite (held_all s order Hp) in *. rewrite (Permutation_length Hp), seq_length in C3. sp.
  - intros k v. apply (runs_ok_flushed s n 0 order vs k v Hok Hr).
  - apply (runs_ok_nodup s n 0 order vs Hok); [|exact Hr].
    apply (Permutation_NoDup (Permutation_sym Hp)). apply seq_NoDup.
  - exact C1.
  - exact C2.
  - lia.
Qed.

(** ================= the acceptor used by the correspondence check is sound ================= *)

Lemma pair_eqb_eq p q : pair_eqb p q = true <-> p = q.
Proof.
  destruct p as [k v], q as [k' v']. unfold pair_eqb. cbn [fst snd]. rewrite andb_true_iff, !beqb_eq.
  split; [intros (-> & ->); reflexivity|intros E; inversion E; auto].
Qed.

Lemma pairs_eqb_eq a : forall b, pairs_eqb a b = true <-> a = b.
Proof.
  induction a as [|x a IH]; intros [|y b]; cbn [pairs_eqb]; try (split; [discriminate|discriminate]); [tauto|].
  rewrite andb_true_iff, pair_eqb_eq, IH. split; [intros (-> & ->); reflexivity|intros E; inversion E; auto].
Qed.

Lemma nodup_keysb_sound l : nodup_keysb l = true -> NoDup (map fst l).
Proof.
  induction l as [|p r IH]; cbn [nodup_keysb map]; intros H; [constructor|].
  apply andb_true_iff in H. destruct H as (H1 & H2). constructor; [|apply IH; exact H2].
  intros Hin. apply in_map_iff in Hin. destruct Hin as (q & E & Hq).
  apply negb_true_iff in H1. assert (Hex : existsb (fun q => beqb (fst p) (fst q)) r = true).
  { apply existsb_exists. exists q. split; [exact Hq|]. apply beqb_eq. symmetry. exact E. }
  congruence.
Qed.

Lemma b_accept_run_sound b m run :
  b_ok b -> (m <= length (b_iter b))%nat -> b_accept_run b m run = true -> run_ok b m run.
Proof.
  intros Hok Hm H.
  assert (Hlev : pairs_eqb run (firstn m (b_iter b)) = true -> run_ok b m run).
  { intros E. apply pairs_eqb_eq in E. subst run. apply run_ok_firstn; assumption. }
  destruct b as [s|s|s]; cbn [b_accept_run] in H; [apply Hlev; exact H|apply Hlev; exact H|].
  apply andb_true_iff in H. destruct H as (H & H3). apply andb_true_iff in H. destruct H as (H1 & H2).
  unfold run_ok. sp.
  - apply Nat.eqb_eq. exact H1.
  - apply nodup_keysb_sound. exact H2.
  - intros p Hp. rewrite forallb_forall in H3. specialize (H3 p Hp). apply existsb_exists in H3.
    destruct H3 as (q & Hq & E). apply pair_eqb_eq in E. subst q. exact Hq.
  - cbn [b_durable]. contradiction.
Qed.

Lemma runs_ok_empty s n c todo :
  (forall i, In i todo -> b_iter (get_shard s i) = []) -> runs_ok s n c todo [].
Proof.
  revert c. induction todo as [|i todo IH]; intros c H; [constructor|].
  change (@nil (key * bytes)) with (@nil (key * bytes) ++ []). apply runs_cons.
  - rewrite (H i (or_introl eq_refl)). unfold run_ok. cbn [length expected_run map firstn].
    split; [reflexivity|]. split; [constructor|]. split; [intros x Hx; destruct Hx|]. intros _. reflexivity.
  - cbn [length]. rewrite Nat.add_0_r. apply IH. intros j Hj. apply H. right. exact Hj.
Qed.

Lemma perm_filter_out i todo :
  NoDup todo -> In i todo -> Permutation (i :: filter (fun j => negb (Nat.eqb i j)) todo) todo.
Proof.
  induction todo as [|x todo IH]; intros Hn Hin; [contradiction|].
  inversion Hn as [|y ys Hni Hn']; subst. cbn [filter].
  destruct (Nat.eqb_spec i x) as [->|Hne]; cbn [negb].
  - constructor. clear IH Hin Hn Hn'. induction todo as [|y todo IH]; [reflexivity|].
    cbn [filter]. destruct (Nat.eqb_spec x y) as [->|Hxy]; cbn [negb].
    + exfalso. apply Hni. left. reflexivity.
    + constructor. apply IH. intros H. apply Hni. right. exact H.
  - destruct Hin as [->|Hin]; [congruence|]. rewrite perm_swap. constructor. apply IH; assumption.
Qed.

Lemma sh_accept_sound s n : sh_ok s -> forall fuel c todo vs,
  NoDup todo -> sh_accept fuel s n c todo vs = true ->
  exists order, Permutation order todo /\ runs_ok s n c order vs.
Proof.
  intros Hok. induction fuel as [|f IH]; intros c todo vs Hn H.
  - destruct vs as [|p r]; [|discriminate H]. cbn [sh_accept] in H. exists todo. split; [reflexivity|].
    apply runs_ok_empty. intros i Hi. rewrite forallb_forall in H. specialize (H i Hi).
    destruct (b_iter (get_shard s i)); [reflexivity|discriminate H].
  - destruct vs as [|p r].
    + cbn [sh_accept] in H. exists todo. split; [reflexivity|].
      apply runs_ok_empty. intros i Hi. rewrite forallb_forall in H. specialize (H i Hi).
      destruct (b_iter (get_shard s i)); [reflexivity|discriminate H].
    + cbn [sh_accept] in H. set (vs := p :: r) in *. set (i := shard_of s (fst p)) in *.
      set (b := get_shard s i) in *. set (m := expected_run n c (length (b_iter b))) in *.
      apply andb_true_iff in H. destruct H as (H & H4). apply andb_true_iff in H. destruct H as (H & H3).
      apply andb_true_iff in H. destruct H as (H1 & H2).
      apply existsb_exists in H1. destruct H1 as (j & Hj & E). apply Nat.eqb_eq in E. subst j.
      assert (Hrun : run_ok b m (firstn m vs)).
      { apply b_accept_run_sound; [apply get_shard_ok; exact Hok|apply expected_run_le|exact H3]. }
      destruct (IH (c + m)%nat _ (skipn m vs) (NoDup_filter _ Hn) H4) as (order & Hp & Hr).
      exists (i :: order). split.
      * rewrite Hp. apply perm_filter_out; assumption.
      * rewrite <- (firstn_skipn m vs). apply runs_cons; [exact Hrun|].
        destruct Hrun as (Hl & _). rewrite Hl. exact Hr.
Qed.

(** ================= any persister ================= *)

Lemma p_range_stop_explained n p : p_ok p -> stop_explained n p (p_range_stop n p).
Proof.
  destruct p as [b|s]; cbn [p_ok stop_explained]; intros Hok.
  - apply (b_range_stop_spec n b Hok).
  - exists (seq 0 (length (sh_shards s))). split; [reflexivity|].
    unfold p_range_stop. cbn [p_range_with]. rewrite sh_range_with_is_ord. apply sh_range_stop_ord_runs. exact Hok.
Qed.

Lemma p_accept_stop_sound n p vs : p_ok p -> p_accept_stop n p vs = true -> stop_explained n p vs.
Proof.
  destruct p as [b|s]; cbn [p_ok stop_explained p_accept_stop]; intros Hok H.
  - apply b_accept_run_sound; [exact Hok|apply expected_run_le|exact H].
  - apply (sh_accept_sound s n Hok _ 0%nat _ vs (seq_NoDup _ _) H).
Qed.

(** the model's own visits are accepted by the acceptor (it is not vacuous) -- for the unsharded persisters *)
Lemma pairs_eqb_refl a : pairs_eqb a a = true.
Proof. apply pairs_eqb_eq. reflexivity. Qed.

(** (a) at the level of [pers]: whatever sequence is explained (the model's own, or one the acceptor let through) *)
Lemma stop_explained_spec n p vs :
  p_ok p -> stop_explained n p vs ->
  (forall k v, In (k, v) vs -> p_flushed p k = Some v)
  /\ NoDup (map fst vs)
  /\ (Nat.min (Nat.max 1 n) (length (p_range p)) <= length vs)%nat
  /\ (length vs <= length (p_range p))%nat
  /\ match p with
     | PBase _ => length vs = Nat.min (Nat.max 1 n) (length (p_range p))
     | PSharded s => (length vs + 1 <= Nat.max 1 n + length (sh_shards s))%nat
     end.
Proof.
  destruct p as [b|s]; cbn [p_ok stop_explained p_flushed p_range]; intros Hok H.
  - assert (Hl : length vs = Nat.min (Nat.max 1 n) (length (b_range b))).
    { destruct H as (Hl & _). rewrite Hl, expected_run_0, b_iter_length. apply Nat.min_comm. }
    sp.
    + intros k v. apply (run_ok_flushed b _ vs k v Hok H).
    + apply H.
    + lia.
    + lia.
    + exact Hl.
  - destruct H as (order & Hp & Hr). apply (runs_ok_spec s n order vs Hok Hp Hr).
Qed.

(** the reading "a false from the handler stops the whole iteration" is false of the sharded persister:
    two memorydb shards holding one key each, the handler answers false at once, and is called twice *)
Lemma p_range_stop_sharded_refuted :
  exists p n, p_ok p /\ length (p_range_stop n p) <> Nat.min (Nat.max 1 n) (length (p_range p)).
Proof.
  destruct (new_pers 5 1 2) as [p0|] eqn:E; [|discriminate E].
  exists (fst (p_run p0 [OPut [97%N] (Some [1%N]); OPut [98%N] (Some [2%N])])), 1%nat. split.
  - apply p_run_spec. apply (new_pers_ok 5 1 2). exact E.
  - inversion E; subst p0. vm_compute. discriminate.
Qed.

(** ================= Destroy / DestroyClosed ================= *)

Lemma all_until_error_map f l :
  (forall b, snd (f b) = ROk) -> all_until_error f l = (map (fun b => fst (f b)) l, ROk).
Proof.
  intros Hf. induction l as [|b l IH]; simpl; [reflexivity|].
  pose proof (Hf b) as H. destruct (f b) as [b' e]. simpl in H. subst e. rewrite IH. reflexivity.
Qed.

Lemma b_destroy_ok b : snd (b_destroy b) = ROk.
Proof. destruct b as [s|s|s]; reflexivity. Qed.
Lemma b_destroy_closed_ok b : snd (b_destroy_closed b) = ROk.
Proof. destruct b as [s|s|s]; reflexivity. Qed.

Lemma sdb_put_batch_max s : s_max (fst (sdb_put_batch s)) = s_max s.
Proof. unfold sdb_put_batch. destruct (s_open s); reflexivity. Qed.

(** Destroy, then the constructor on the same path: the persister the constructor gives on an empty path *)
Lemma b_destroy_reopen b : b_reopen (fst (b_destroy b)) = b_fresh b.
Proof.
  destruct b as [s|s|s]; cbn [b_destroy b_fresh]; try reflexivity.
  cbn [sdb_destroy fst b_reopen sdb_reopen s_max s_disk]. rewrite sdb_put_batch_max. reflexivity.
Qed.

(** Close, DestroyClosed, then the constructor *)
Lemma b_close_destroy_reopen b : b_reopen (fst (b_destroy_closed (fst (b_close b)))) = b_fresh b.
Proof.
  destruct b as [s|s|s]; cbn [b_close b_fresh]; try reflexivity.
  cbn [sdb_close sdb_destroy_closed fst b_destroy_closed b_reopen sdb_reopen s_max s_disk].
  rewrite sdb_put_batch_max. reflexivity.
Qed.

Lemma p_destroy_cycle_eq p : p_destroy_cycle p = (p_fresh p, ROk).
Proof.
  unfold p_destroy_cycle. destruct p as [b|s]; cbn [p_destroy p_fresh].
  - pose proof (b_destroy_reopen b) as H. pose proof (b_destroy_ok b) as Hr.
    destruct (b_destroy b) as [b' r]. cbn [fst snd] in *. subst r. cbn [p_reopen]. rewrite H. reflexivity.
  - unfold sh_destroy. rewrite (all_until_error_map b_destroy _ b_destroy_ok). cbn [p_reopen]. unfold sh_reopen. cbn [sh_n sh_shards].
    rewrite map_map. do 3 f_equal. apply map_ext. intros b. apply b_destroy_reopen.
Qed.

Lemma p_close_destroy_cycle_eq p : p_close_destroy_cycle p = (p_fresh p, ROk).
Proof.
  unfold p_close_destroy_cycle. destruct p as [b|s]; cbn [p_close p_fresh].
  - pose proof (b_close_destroy_reopen b) as H. pose proof (b_close_ok b) as Hr.
    destruct (b_close b) as [b1 r1]. cbn [fst snd p_destroy_closed] in *. subst r1.
    pose proof (b_destroy_closed_ok b1) as Hr2. destruct (b_destroy_closed b1) as [b2 r2]. cbn [fst snd] in *. subst r2.
    cbn [p_reopen]. rewrite H. reflexivity.
  - unfold sh_close. rewrite close_all_map. cbn [p_destroy_closed]. unfold sh_destroy_closed. cbn [sh_shards sh_n].
    rewrite (all_until_error_map b_destroy_closed _ b_destroy_closed_ok). cbn [p_reopen]. unfold sh_reopen. cbn [sh_n sh_shards].
    rewrite !map_map. do 3 f_equal. apply map_ext. intros b. apply b_close_destroy_reopen.
Qed.

(** the persister on the empty path: well-formed, open, holding nothing *)
Lemma b_fresh_spec b :
  b_ok (b_fresh b) /\ (forall a, b_abs (b_fresh b) a = None) /\ (forall a, b_flushed (b_fresh b) a = None)
  /\ b_dom (b_fresh b) = [] /\ b_range (b_fresh b) = [] /\ (b_durable b -> b_durable (b_fresh b)).
Proof.
  destruct b as [s|s|s]; cbn [b_fresh b_ok b_abs b_flushed b_dom b_range b_durable]; sp; try reflexivity; auto.
  - apply new_db_ok. constructor.
  - apply new_sdb_ok. constructor.
  - constructor.
Qed.

Lemma fresh_range_nil l : flat_map b_range (map b_fresh l) = [].
Proof.
  induction l as [|b l IH]; [reflexivity|].
  cbn [map flat_map]. rewrite IH. destruct (b_fresh_spec b) as (_ & _ & _ & _ & H5 & _). rewrite H5. reflexivity.
Qed.

Lemma get_shard_map (f : base -> base) s i :
  f (BMem new_mem) = BMem new_mem ->
  get_shard {| sh_n := sh_n s; sh_shards := map f (sh_shards s) |} i = f (get_shard s i).
Proof. intros Hd. unfold get_shard. cbn [sh_shards]. rewrite <- Hd at 1. apply map_nth. Qed.

Lemma p_fresh_spec p :
  p_ok p ->
  p_ok (p_fresh p) /\ (forall k, p_abs (p_fresh p) k = None) /\ (forall k, p_flushed (p_fresh p) k = None)
  /\ p_range (p_fresh p) = [] /\ (p_durable p -> p_durable (p_fresh p)).
Proof.
  destruct p as [b|s]; cbn [p_ok p_fresh p_abs p_flushed p_range p_durable]; intros Hok.
  - destruct (b_fresh_spec b) as (H1 & H2 & H3 & _ & H5 & H6). sp; auto.
  - destruct Hok as (Hn & Hl & _). sp.
    + unfold sh_ok. cbn [sh_n sh_shards]. sp; [exact Hn|rewrite map_length; exact Hl|].
      intros i b Hi. rewrite nth_error_map in Hi. destruct (nth_error (sh_shards s) i) as [b0|]; [|discriminate].
      inversion Hi; subst b. destruct (b_fresh_spec b0) as (H1 & _ & _ & H4 & _). split; [exact H1|]. rewrite H4. constructor.
    + intros k. unfold sh_abs. rewrite (get_shard_map b_fresh s _ eq_refl).
      destruct (b_fresh_spec (get_shard s (shard_of {| sh_n := sh_n s; sh_shards := map b_fresh (sh_shards s) |} k))) as (_ & H2 & _). apply H2.
    + intros k. unfold sh_flushed. rewrite (get_shard_map b_fresh s _ eq_refl).
      destruct (b_fresh_spec (get_shard s (shard_of {| sh_n := sh_n s; sh_shards := map b_fresh (sh_shards s) |} k))) as (_ & _ & H3 & _). apply H3.
    + unfold sh_range. cbn [sh_shards]. apply fresh_range_nil.
    + intros Hd. rewrite Forall_forall in *. intros b' Hb'. apply in_map_iff in Hb'. destruct Hb' as (b & <- & Hb).
      destruct (b_fresh_spec b) as (_ & _ & _ & _ & _ & H6). apply H6. apply Hd. exact Hb.
Qed.

(** (b) Destroy on an open persister / Close;DestroyClosed, then the constructor on the same path: an EMPTY
    persister -- Get and Has answer not-found for every key, RangeKeys (stopping or not) visits nothing *)
Lemma p_fresh_empty p :
  p_ok p ->
  let q := p_fresh p in
  p_ok q /\ (forall k, p_abs q k = None) /\ p_range q = []
  /\ (forall k, canon_get (p_get q k) = (RNotFound, None)) /\ (forall k, p_has q k = RNotFound)
  /\ (forall n, p_range_stop n q = []) /\ (p_durable p -> p_durable q).
Proof.
  intros Hok q. destruct (p_fresh_spec p Hok) as (H1 & H2 & H3 & H4 & H5). fold q in H1, H2, H3, H4, H5. sp; auto.
  - intros k. rewrite (p_get_spec q k H1). unfold m_get. rewrite H2. reflexivity.
  - intros k. rewrite (p_has_spec q k H1). unfold m_has. rewrite H2. reflexivity.
  - intros n. destruct (stop_explained_spec n q _ H1 (p_range_stop_explained n q H1)) as (_ & _ & _ & Hle & _).
    rewrite H4 in Hle. cbn [length] in Hle. destruct (p_range_stop n q); [reflexivity|cbn [length] in Hle; lia].
Qed.

Lemma p_destroy_reopen_empty p :
  p_ok p ->
  let q := fst (p_destroy_cycle p) in
  snd (p_destroy_cycle p) = ROk
  /\ p_ok q /\ (forall k, p_abs q k = None) /\ p_range q = []
  /\ (forall k, canon_get (p_get q k) = (RNotFound, None)) /\ (forall k, p_has q k = RNotFound)
  /\ (forall n, p_range_stop n q = []) /\ (p_durable p -> p_durable q).
Proof. intros Hok. rewrite p_destroy_cycle_eq. cbn [fst snd]. split; [reflexivity|]. apply p_fresh_empty. exact Hok. Qed.

Lemma p_close_destroy_reopen_empty p :
  p_ok p ->
  let q := fst (p_close_destroy_cycle p) in
  snd (p_close_destroy_cycle p) = ROk
  /\ p_ok q /\ (forall k, p_abs q k = None) /\ p_range q = []
  /\ (forall k, canon_get (p_get q k) = (RNotFound, None)) /\ (forall k, p_has q k = RNotFound)
  /\ (forall n, p_range_stop n q = []) /\ (p_durable p -> p_durable q).
Proof. intros Hok. rewrite p_close_destroy_cycle_eq. cbn [fst snd]. split; [reflexivity|]. apply p_fresh_empty. exact Hok. Qed.

(** ---- no operation changes the kind or the configuration: [p_fresh] is invariant ---- *)

Lemma db_update_max s : d_max (fst (db_update_batch_with_increment s)) = d_max s.
Proof.
  unfold db_update_batch_with_increment, db_put_batch, set_size. cbn [d_size d_max d_open d_batch d_disk].
  destruct (d_size s + 1 <? d_max s)%Z; [reflexivity|]. destruct (d_open s); reflexivity.
Qed.

Lemma sdb_update_max s : s_max (fst (sdb_update_batch_with_increment s)) = s_max s.
Proof.
  unfold sdb_update_batch_with_increment. cbn [s_size s_max].
  destruct (s_size s + 1 <? s_max s)%Z; [reflexivity|]. rewrite sdb_put_batch_max. reflexivity.
Qed.

Lemma b_fresh_put b k v : b_fresh (fst (b_put b k v)) = b_fresh b.
Proof.
  destruct b as [s|s|s]; cbn [b_put]; [| |reflexivity].
  - unfold db_put. pose proof (db_update_max (set_batch s (batch_put (d_batch s) k v))) as H.
    destruct (db_update_batch_with_increment _) as [s' r]. cbn [fst b_fresh] in *. rewrite H. reflexivity.
  - unfold sdb_put. destruct (s_open s); cbn [negb]; [|reflexivity].
    pose proof (sdb_update_max (sdb_set_batch s (batch_put (s_batch s) k v))) as H.
    destruct (sdb_update_batch_with_increment _) as [s' r]. cbn [fst b_fresh] in *. rewrite H. reflexivity.
Qed.

Lemma b_fresh_remove b k : b_fresh (fst (b_remove b k)) = b_fresh b.
Proof.
  destruct b as [s|s|s]; cbn [b_remove]; [| |reflexivity].
  - unfold db_remove. pose proof (db_update_max (set_batch s (batch_delete (d_batch s) k))) as H.
    destruct (db_update_batch_with_increment _) as [s' r]. cbn [fst b_fresh] in *. rewrite H. reflexivity.
  - unfold sdb_remove. destruct (s_open s); cbn [negb]; [|reflexivity].
    pose proof (sdb_update_max (sdb_set_batch s (batch_delete (s_batch s) k))) as H.
    destruct (sdb_update_batch_with_increment _) as [s' r]. cbn [fst b_fresh] in *. rewrite H. reflexivity.
Qed.

Lemma b_fresh_tick b : b_fresh (b_tick b) = b_fresh b.
Proof.
  destruct b as [s|s|s]; cbn [b_tick b_fresh]; [| |reflexivity].
  - unfold db_tick, db_put_batch. destruct (d_open s); reflexivity.
  - unfold sdb_tick. rewrite sdb_put_batch_max. reflexivity.
Qed.

Lemma b_fresh_close b : b_fresh (fst (b_close b)) = b_fresh b.
Proof.
  destruct b as [s|s|s]; cbn [b_close fst b_fresh]; [reflexivity| |reflexivity].
  cbn [sdb_close fst s_max]. rewrite sdb_put_batch_max. reflexivity.
Qed.

Lemma b_fresh_reopen b : b_fresh (b_reopen b) = b_fresh b.
Proof. destruct b as [s|s|s]; reflexivity. Qed.

Lemma b_fresh_destroy b : b_fresh (fst (b_destroy b)) = b_fresh b.
Proof.
  destruct b as [s|s|s]; cbn [b_destroy fst b_fresh]; [reflexivity| |reflexivity].
  cbn [sdb_destroy fst s_max]. rewrite sdb_put_batch_max. reflexivity.
Qed.

Lemma b_fresh_destroy_closed b : b_fresh (fst (b_destroy_closed b)) = b_fresh b.
Proof. destruct b as [s|s|s]; reflexivity. Qed.

Lemma b_fresh_idem b : b_fresh (b_fresh b) = b_fresh b.
Proof. destruct b as [s|s|s]; reflexivity. Qed.

Lemma map_set_nth {A B} (f : A -> B) (d : A) i x (l : list A) :
  f x = f (nth i l d) -> map f (set_nth i x l) = map f l.
Proof.
  revert i. induction l as [|y l IH]; intros [|i] H; cbn [set_nth map nth] in *; try reflexivity.
  - rewrite H. reflexivity.
  - rewrite (IH i H). reflexivity.
Qed.

Lemma sh_fresh_update s i (f : base -> base * rclass) :
  (forall b, b_fresh (fst (f b)) = b_fresh b) ->
  map b_fresh (sh_shards (set_shard s i (fst (f (get_shard s i))))) = map b_fresh (sh_shards s).
Proof.
  intros Hf. unfold set_shard. cbn [sh_shards]. apply (map_set_nth b_fresh (BMem new_mem)). apply Hf.
Qed.

Lemma map_fresh_through (g : base -> base) l :
  (forall b, b_fresh (g b) = b_fresh b) -> map b_fresh (map g l) = map b_fresh l.
Proof. intros H. rewrite map_map. apply map_ext. exact H. Qed.

Lemma p_fresh_step p o : p_fresh (fst (p_step p o)) = p_fresh p.
Proof.
  destruct o as [k v|k|k|k|]; cbn [p_step fst]; try reflexivity.
  - destruct p as [b|s]; cbn [p_put].
    + pose proof (b_fresh_put b k v) as H. destruct (b_put b k v) as [b' r]. cbn [fst p_fresh] in *. rewrite H. reflexivity.
    + unfold sh_put. pose proof (sh_fresh_update s (shard_of s k) (fun b => b_put b k v) (fun b => b_fresh_put b k v)) as H.
      destruct (b_put (get_shard s (shard_of s k)) k v) as [b' r]. cbn [fst p_fresh set_shard sh_n sh_shards] in *. rewrite H. reflexivity.
  - destruct p as [b|s]; cbn [p_remove].
    + pose proof (b_fresh_remove b k) as H. destruct (b_remove b k) as [b' r]. cbn [fst p_fresh] in *. rewrite H. reflexivity.
    + unfold sh_remove. pose proof (sh_fresh_update s (shard_of s k) (fun b => b_remove b k) (fun b => b_fresh_remove b k)) as H.
      destruct (b_remove (get_shard s (shard_of s k)) k) as [b' r]. cbn [fst p_fresh set_shard sh_n sh_shards] in *. rewrite H. reflexivity.
  - destruct p as [b|s]; cbn [p_tick p_fresh].
    + rewrite b_fresh_tick. reflexivity.
    + unfold sh_tick. cbn [sh_n sh_shards]. rewrite (map_fresh_through b_tick _ b_fresh_tick). reflexivity.
Qed.

Lemma p_fresh_idem p : p_fresh (p_fresh p) = p_fresh p.
Proof.
  destruct p as [b|s]; cbn [p_fresh sh_n sh_shards]; [rewrite b_fresh_idem; reflexivity|].
  rewrite (map_fresh_through b_fresh _ b_fresh_idem). reflexivity.
Qed.

Lemma p_fresh_cycle p : p_fresh (fst (p_cycle p)) = p_fresh p.
Proof.
  unfold p_cycle. destruct p as [b|s]; cbn [p_close].
  - pose proof (b_fresh_close b) as H. destruct (b_close b) as [b' r]. cbn [fst p_reopen p_fresh] in *.
    rewrite b_fresh_reopen, H. reflexivity.
  - unfold sh_close. rewrite close_all_map. cbn [fst p_reopen p_fresh]. unfold sh_reopen. cbn [sh_n sh_shards].
    rewrite (map_fresh_through b_reopen _ b_fresh_reopen). rewrite (map_fresh_through _ _ b_fresh_close). reflexivity.
Qed.

Lemma p_fresh_step3 p o : p_fresh (fst (p_step3 p o)) = p_fresh p.
Proof.
  destruct o as [[o|]| |]; cbn [p_step3 p_step2].
  - apply p_fresh_step.
  - pose proof (p_fresh_cycle p) as H. destruct (p_cycle p) as [p' r]. exact H.
  - rewrite p_destroy_cycle_eq. cbn [fst]. apply p_fresh_idem.
  - rewrite p_close_destroy_cycle_eq. cbn [fst]. apply p_fresh_idem.
Qed.

Lemma p_fresh_run3 ops : forall p, p_fresh (fst (p_run3 p ops)) = p_fresh p.
Proof.
  induction ops as [|o ops IH]; intros p; [reflexivity|]. cbn [p_run3].
  pose proof (p_fresh_step3 p o) as H. destruct (p_step3 p o) as [p1 a]. cbn [fst] in H.
  specialize (IH p1). destruct (p_run3 p1 ops) as [p2 l]. cbn [fst] in *. congruence.
Qed.

Lemma map_repeat' {A B} (f : A -> B) x n : map f (repeat x n) = repeat (f x) n.
Proof. induction n as [|n IH]; simpl; [reflexivity|]. rewrite IH. reflexivity. Qed.

(** the constructor's persister is its own fresh persister *)
Lemma new_pers_fresh kind max n p : new_pers kind max n = Some p -> p_fresh p = p.
Proof.
  unfold new_pers. destruct (kind <? 3)%N.
  - unfold new_base. destruct kind as [|[q|[q|q|]|]]; try discriminate; intros H; inversion H; reflexivity.
  - destruct (n <? 2)%N; [discriminate|].
    unfold new_base. destruct (kind - 3)%N as [|[q|[q|q|]|]]; try discriminate; intros H; inversion H;
      unfold new_sharded; cbn [p_fresh sh_n sh_shards]; rewrite map_repeat'; reflexivity.
Qed.

(** (b), strongest form: after ANY history (with Close;Reopen cycles and earlier destroy cycles) on a persister
    the constructor gave, Destroy + constructor (or Close; DestroyClosed + constructor) gives back the very
    state the constructor gave on the empty path: nothing whatsoever survives *)
Lemma destroy_after_any_history kind max n p ops :
  new_pers kind max n = Some p ->
  p_destroy_cycle (fst (p_run3 p ops)) = (p, ROk) /\ p_close_destroy_cycle (fst (p_run3 p ops)) = (p, ROk).
Proof.
  intros Hn. rewrite p_destroy_cycle_eq, p_close_destroy_cycle_eq, p_fresh_run3, (new_pers_fresh _ _ _ _ Hn). split; reflexivity.
Qed.

(** histories with destroy cycles follow the map that a destroy cycle empties *)
Lemma p_step3_spec p o :
  p_ok p -> p_durable p ->
  p_ok (fst (p_step3 p o)) /\ p_durable (fst (p_step3 p o))
  /\ snd (p_step3 p o) = snd (spec_step3 (p_abs p) o)
  /\ forall k, p_abs (fst (p_step3 p o)) k = fst (spec_step3 (p_abs p) o) k.
Proof.
  intros Hok Hd. destruct o as [o| |]; cbn [p_step3 spec_step3].
  - destruct o as [o|]; cbn [p_step2 spec_step2].
    + destruct (p_step_spec p o Hok) as (H1 & H2 & H3 & H4). sp; auto.
    + destruct (p_cycle_spec p Hok Hd) as (H0 & H1 & H2 & H3 & _).
      destruct (p_cycle p) as [p' r]. cbn [fst snd] in *. subst r. sp; auto.
  - rewrite p_destroy_cycle_eq. cbn [fst snd]. destruct (p_fresh_spec p Hok) as (H1 & H2 & _ & _ & H5). sp; auto.
  - rewrite p_close_destroy_cycle_eq. cbn [fst snd]. destruct (p_fresh_spec p Hok) as (H1 & H2 & _ & _ & H5). sp; auto.
Qed.

Lemma spec_run3_ext ops : forall m m',
  (forall k, m k = m' k) ->
  snd (spec_run3 m ops) = snd (spec_run3 m' ops) /\ forall k, fst (spec_run3 m ops) k = fst (spec_run3 m' ops) k.
Proof.
  induction ops as [|o ops IH]; intros m m' H; cbn [spec_run3].
  - split; [reflexivity|exact H].
  - assert (Hs : snd (spec_step3 m o) = snd (spec_step3 m' o) /\ forall k, fst (spec_step3 m o) k = fst (spec_step3 m' o) k).
    { destruct o as [[o|]| |]; cbn [spec_step3 spec_step2]; try (split; [reflexivity|auto]).
      apply spec_step_ext; exact H. }
    destruct Hs as (Ha & Hm).
    destruct (spec_step3 m o) as [m1 a1]. destruct (spec_step3 m' o) as [m1' a1']. cbn [fst snd] in *.
    destruct (IH m1 m1' Hm) as (Hl & Hf).
    destruct (spec_run3 m1 ops) as [m2 l2]. destruct (spec_run3 m1' ops) as [m2' l2']. cbn [fst snd] in *.
    split; [congruence|exact Hf].
Qed.

Lemma p_run3_spec ops : forall p,
  p_ok p -> p_durable p ->
  p_ok (fst (p_run3 p ops)) /\ p_durable (fst (p_run3 p ops))
  /\ snd (p_run3 p ops) = snd (spec_run3 (p_abs p) ops)
  /\ (forall k, p_abs (fst (p_run3 p ops)) k = fst (spec_run3 (p_abs p) ops) k).
Proof.
  induction ops as [|o ops IH]; intros p Hok Hd; cbn [p_run3 spec_run3].
  - sp; auto.
  - destruct (p_step3_spec p o Hok Hd) as (H1 & H2 & H3 & H4).
    destruct (p_step3 p o) as [p1 a]. cbn [fst snd] in *.
    destruct (IH p1 H1 H2) as (I1 & I2 & I3 & I4).
    destruct (p_run3 p1 ops) as [p2 l]. cbn [fst snd] in *.
    destruct (spec_step3 (p_abs p) o) as [m1 a'] eqn:Es. cbn [fst snd] in *.
    destruct (spec_run3_ext ops (p_abs p1) m1 H4) as (E1 & E2).
    destruct (spec_run3 m1 ops) as [m2 l']. cbn [fst snd] in *.
    sp; auto.
    + congruence.
    + intros k. rewrite I4. apply E2.
Qed.

(** ================= (c) operations on a destroyed object ================= *)

(** leveldb.DB after Destroy: reads answer ErrDBIsClosed, RangeKeys visits nothing (the handler is never called),
    Close / Destroy / DestroyClosed answer nil and change nothing, the timer does nothing;
    the FIRST Put / Remove is acknowledged with nil iff MaxBatchSize > 1 (the write is dropped) and answers
    ErrDBIsClosed otherwise -- the same as on a closed DB, the batch having been reset *)
Lemma db_destroyed_ops s k v :
  let d := fst (db_destroy s) in
  snd (db_destroy s) = ROk
  /\ db_get d k = (RClosed, None) /\ db_has d k = RClosed /\ db_range d = []
  /\ (forall St (h : St -> key * bytes -> St * bool) st, db_range_with h st d = st)
  /\ db_close d = (d, ROk) /\ db_destroy d = (d, ROk) /\ db_destroy_closed d = (d, ROk) /\ db_tick d = d
  /\ snd (db_put d k v) = (if (1 <? d_max s)%Z then ROk else RClosed)
  /\ snd (db_remove d k) = (if (1 <? d_max s)%Z then ROk else RClosed)
  /\ d_disk (fst (db_put d k v)) = [] /\ d_disk (fst (db_remove d k)) = [].
Proof.
  cbn zeta. unfold db_destroy, db_put, db_remove, db_update_batch_with_increment, db_put_batch, set_size, set_batch.
  cbn [fst snd d_open d_size d_max d_batch d_disk batch_reset]. change (0 + 1)%Z with 1%Z.
  destruct (1 <? d_max s)%Z; repeat split.
Qed.

(** leveldb.SerialDB after Destroy: every operation answers ErrDBIsClosed and changes nothing; RangeKeys visits
    nothing; Close / Destroy / DestroyClosed answer nil *)
Lemma sdb_destroyed_ops s k v :
  let d := fst (sdb_destroy s) in
  snd (sdb_destroy s) = ROk
  /\ sdb_put d k v = (d, RClosed) /\ sdb_remove d k = (d, RClosed)
  /\ sdb_get d k = (RClosed, None) /\ sdb_has d k = RClosed /\ sdb_range d = []
  /\ (forall St (h : St -> key * bytes -> St * bool) st, sdb_range_with h st d = st)
  /\ sdb_close d = (d, ROk) /\ sdb_destroy d = (d, ROk) /\ sdb_destroy_closed d = (d, ROk) /\ sdb_tick d = d.
Proof. cbn zeta. repeat split. Qed.

(** memorydb after Destroy (= DestroyClosed): a working, empty persister -- there is no closed state *)
Lemma mem_destroyed s : mem_destroy s = (new_mem, ROk) /\ mem_destroy_closed s = (new_mem, ROk).
Proof. split; reflexivity. Qed.

(** at the level of [pers], for the persisters with a path: on the destroyed object every read answers
    ErrDBIsClosed, RangeKeys (stopping or not) visits nothing, Close / Destroy / DestroyClosed answer nil *)
Lemma b_dead_reads b k : b_dead b -> b_durable b -> b_get b k = (RClosed, None) /\ b_has b k = RClosed /\ b_iter b = [] /\ b_range b = [].
Proof.
  destruct b as [s|s|s]; cbn [b_dead b_durable b_get b_has b_iter b_range]; intros Hd Hp; [| |contradiction].
  - destruct Hd as (Ho & _). unfold db_get, db_has, db_range. rewrite Ho. repeat split.
  - destruct Hd as (Ho & _). unfold sdb_get, sdb_has, sdb_range. rewrite Ho. repeat split.
Qed.

Lemma b_dead_destroy b : b_dead (fst (b_destroy b)).
Proof. destruct b as [s|s|s]; cbn; auto. Qed.

Lemma b_dead_close_destroy b : b_dead (fst (b_destroy_closed (fst (b_close b)))).
Proof. destruct b as [s|s|s]; cbn; auto. Qed.

Lemma b_durable_destroy b : b_durable b -> b_durable (fst (b_destroy b)).
Proof. destruct b as [s|s|s]; cbn; auto. Qed.
Lemma b_durable_close_destroy b : b_durable b -> b_durable (fst (b_destroy_closed (fst (b_close b)))).
Proof. destruct b as [s|s|s]; cbn; auto. Qed.

Lemma db_dead_update s :
  d_open s = false -> d_disk s = [] ->
  d_open (fst (db_update_batch_with_increment s)) = false /\ d_disk (fst (db_update_batch_with_increment s)) = [].
Proof.
  intros Ho Hd. unfold db_update_batch_with_increment, db_put_batch, set_size. cbn [d_size d_max d_open d_batch d_disk].
  rewrite Ho. destruct (d_size s + 1 <? d_max s)%Z; cbn [fst d_open d_disk]; auto.
Qed.

(** nothing that can be called on a dead object brings it back or writes to its path *)
Lemma b_dead_put b k v : b_dead b -> b_dead (fst (b_put b k v)).
Proof.
  destruct b as [s|s|s]; cbn [b_dead b_put]; [| |auto].
  - intros (Ho & Hd). unfold db_put.
    pose proof (db_dead_update (set_batch s (batch_put (d_batch s) k v)) Ho Hd) as H.
    destruct (db_update_batch_with_increment _) as [s' r]. exact H.
  - intros (Ho & Hd). unfold sdb_put. rewrite Ho. cbn [negb fst b_dead]. auto.
Qed.

Lemma b_dead_remove b k : b_dead b -> b_dead (fst (b_remove b k)).
Proof.
  destruct b as [s|s|s]; cbn [b_dead b_remove]; [| |auto].
  - intros (Ho & Hd). unfold db_remove.
    pose proof (db_dead_update (set_batch s (batch_delete (d_batch s) k)) Ho Hd) as H.
    destruct (db_update_batch_with_increment _) as [s' r]. exact H.
  - intros (Ho & Hd). unfold sdb_remove. rewrite Ho. cbn [negb fst b_dead]. auto.
Qed.

Lemma b_dead_tick b : b_dead b -> b_dead (b_tick b).
Proof.
  destruct b as [s|s|s]; cbn [b_dead b_tick]; [| |auto].
  - intros (Ho & Hd). unfold db_tick, db_put_batch. rewrite Ho. auto.
  - intros (Ho & Hd). unfold sdb_tick, sdb_put_batch. rewrite Ho. auto.
Qed.

Lemma b_dead_close b : b_dead b -> b_dead (fst (b_close b)).
Proof.
  destruct b as [s|s|s]; cbn [b_dead b_close]; [| |auto].
  - intros (Ho & Hd). unfold db_close, db_put_batch. rewrite Ho. cbn [fst b_dead d_open d_disk]. auto.
  - intros (Ho & Hd). unfold sdb_close, sdb_put_batch. rewrite Ho. cbn [fst b_dead s_open s_disk]. auto.
Qed.

Lemma b_dead_destroy_closed b : b_dead b -> b_dead (fst (b_destroy_closed b)).
Proof. destruct b as [s|s|s]; cbn; tauto. Qed.

Lemma b_dead_reopen b : b_dead b -> b_reopen b = b_fresh b.
Proof.
  destruct b as [s|s|s]; cbn [b_dead b_reopen b_fresh]; [| |reflexivity].
  - intros (_ & Hd). unfold db_reopen. rewrite Hd. reflexivity.
  - intros (_ & Hd). unfold sdb_reopen. rewrite Hd. reflexivity.
Qed.

Lemma Forall_dead_update s i (f : base -> base * rclass) :
  (forall b, b_dead b -> b_dead (fst (f b))) ->
  Forall b_dead (sh_shards s) -> Forall b_dead (sh_shards (set_shard s i (fst (f (get_shard s i))))).
Proof.
  intros Hf Hd. unfold set_shard. cbn [sh_shards]. apply Forall_set_nth; [exact Hd|]. apply Hf.
  unfold get_shard. destruct (nth_error (sh_shards s) i) as [b|] eqn:E.
  - rewrite (nth_error_nth _ _ _ E). rewrite Forall_forall in Hd. apply Hd. eapply nth_error_In. exact E.
  - apply nth_error_None in E. rewrite nth_overflow by exact E. exact I.
Qed.

Lemma Forall_dead_map (g : base -> base) l :
  (forall b, b_dead b -> b_dead (g b)) -> Forall b_dead l -> Forall b_dead (map g l).
Proof. intros Hg H. apply Forall_map. eapply Forall_impl; [|exact H]. exact Hg. Qed.

Lemma p_dead_dstep p o : p_dead p -> p_dead (p_dstep p o).
Proof.
  intros Hd. destruct o as [o| | |]; cbn [p_dstep].
  - destruct o as [k v|k|k|k|]; cbn [p_step fst]; try exact Hd.
    + destruct p as [b|s]; cbn [p_put p_dead] in *.
      * pose proof (b_dead_put b k v Hd) as H. destruct (b_put b k v) as [b' r]. exact H.
      * unfold sh_put. pose proof (Forall_dead_update s (shard_of s k) (fun b => b_put b k v) (fun b => b_dead_put b k v) Hd) as H.
        destruct (b_put (get_shard s (shard_of s k)) k v) as [b' r]. exact H.
    + destruct p as [b|s]; cbn [p_remove p_dead] in *.
      * pose proof (b_dead_remove b k Hd) as H. destruct (b_remove b k) as [b' r]. exact H.
      * unfold sh_remove. pose proof (Forall_dead_update s (shard_of s k) (fun b => b_remove b k) (fun b => b_dead_remove b k) Hd) as H.
        destruct (b_remove (get_shard s (shard_of s k)) k) as [b' r]. exact H.
    + destruct p as [b|s]; cbn [p_tick p_dead] in *; [apply b_dead_tick; exact Hd|].
      unfold sh_tick. cbn [sh_shards]. apply Forall_dead_map; [exact b_dead_tick|exact Hd].
  - destruct p as [b|s]; cbn [p_close p_dead] in *.
    + pose proof (b_dead_close b Hd) as H. destruct (b_close b) as [b' r]. exact H.
    + unfold sh_close. rewrite close_all_map. cbn [fst p_dead sh_shards]. apply Forall_dead_map; [exact b_dead_close|exact Hd].
  - destruct p as [b|s]; cbn [p_destroy p_dead] in *.
    + pose proof (b_dead_destroy b) as H. destruct (b_destroy b) as [b' r]. exact H.
    + unfold sh_destroy. rewrite (all_until_error_map b_destroy _ b_destroy_ok). cbn [fst p_dead sh_shards].
      apply Forall_dead_map; [intros b _; apply b_dead_destroy|exact Hd].
  - destruct p as [b|s]; cbn [p_destroy_closed p_dead] in *.
    + pose proof (b_dead_destroy_closed b Hd) as H. destruct (b_destroy_closed b) as [b' r]. exact H.
    + unfold sh_destroy_closed. rewrite (all_until_error_map b_destroy_closed _ b_destroy_closed_ok). cbn [fst p_dead sh_shards].
      apply Forall_dead_map; [exact b_dead_destroy_closed|exact Hd].
Qed.

Lemma p_fresh_dstep p o : p_fresh (p_dstep p o) = p_fresh p.
Proof.
  destruct o as [o| | |]; cbn [p_dstep].
  - apply p_fresh_step.
  - destruct p as [b|s]; cbn [p_close].
    + pose proof (b_fresh_close b) as H. destruct (b_close b) as [b' r]. cbn [fst p_fresh] in *. rewrite H. reflexivity.
    + unfold sh_close. rewrite close_all_map. cbn [fst p_fresh sh_n sh_shards].
      rewrite (map_fresh_through _ _ b_fresh_close). reflexivity.
  - destruct p as [b|s]; cbn [p_destroy].
    + pose proof (b_fresh_destroy b) as H. destruct (b_destroy b) as [b' r]. cbn [fst p_fresh] in *. rewrite H. reflexivity.
    + unfold sh_destroy. rewrite (all_until_error_map b_destroy _ b_destroy_ok). cbn [fst p_fresh sh_n sh_shards].
      rewrite (map_fresh_through _ _ b_fresh_destroy). reflexivity.
  - destruct p as [b|s]; cbn [p_destroy_closed].
    + pose proof (b_fresh_destroy_closed b) as H. destruct (b_destroy_closed b) as [b' r]. cbn [fst p_fresh] in *. rewrite H. reflexivity.
    + unfold sh_destroy_closed. rewrite (all_until_error_map b_destroy_closed _ b_destroy_closed_ok). cbn [fst p_fresh sh_n sh_shards].
      rewrite (map_fresh_through _ _ b_fresh_destroy_closed). reflexivity.
Qed.

Lemma p_dead_reopen p : p_dead p -> p_reopen p = p_fresh p.
Proof.
  destruct p as [b|s]; cbn [p_dead p_reopen p_fresh]; intros Hd.
  - rewrite (b_dead_reopen b Hd). reflexivity.
  - unfold sh_reopen. do 2 f_equal. apply map_ext_in. intros b Hb. apply b_dead_reopen.
    rewrite Forall_forall in Hd. apply Hd. exact Hb.
Qed.

Lemma p_dead_destroy p : p_dead (fst (p_destroy p)).
Proof.
  destruct p as [b|s]; cbn [p_destroy].
  - pose proof (b_dead_destroy b) as H. destruct (b_destroy b) as [b' r]. exact H.
  - unfold sh_destroy. rewrite (all_until_error_map b_destroy _ b_destroy_ok). cbn [fst p_dead sh_shards].
    apply Forall_map. apply Forall_forall. intros b _. apply b_dead_destroy.
Qed.

Lemma p_dead_close_destroy p : p_dead (fst (p_destroy_closed (fst (p_close p)))).
Proof.
  destruct p as [b|s]; cbn [p_close].
  - pose proof (b_dead_close_destroy b) as H. destruct (b_close b) as [b1 r1]. cbn [fst p_destroy_closed] in *.
    destruct (b_destroy_closed b1) as [b2 r2]. exact H.
  - unfold sh_close. rewrite close_all_map. cbn [fst p_destroy_closed]. unfold sh_destroy_closed. cbn [sh_shards sh_n].
    rewrite (all_until_error_map b_destroy_closed _ b_destroy_closed_ok). cbn [fst p_dead sh_shards]. rewrite map_map.
    apply Forall_map. apply Forall_forall. intros b _. apply b_dead_close_destroy.
Qed.

Lemma dsteps_dead ops : forall d,
  p_dead d -> p_dead (fold_left p_dstep ops d) /\ p_fresh (fold_left p_dstep ops d) = p_fresh d.
Proof.
  induction ops as [|o ops IH]; intros d Hd; cbn [fold_left]; [split; [exact Hd|reflexivity]|].
  destruct (IH (p_dstep d o) (p_dead_dstep d o Hd)) as (H1 & H2). split; [exact H1|].
  rewrite H2. apply p_fresh_dstep.
Qed.

(** (c) whatever is called on the destroyed object, in any order and number -- Put, Remove, Get, Has, the timer,
    Close, Destroy, DestroyClosed -- the constructor on the path afterwards gives the empty persister *)
Lemma destroyed_object_reopen p ops :
  p_reopen (fold_left p_dstep ops (fst (p_destroy p))) = p_fresh p
  /\ p_reopen (fold_left p_dstep ops (fst (p_destroy_closed (fst (p_close p))))) = p_fresh p.
Proof.
  split.
  - destruct (dsteps_dead ops _ (p_dead_destroy p)) as (H1 & H2).
    rewrite (p_dead_reopen _ H1), H2. apply (p_fresh_dstep p DDestroy).
  - destruct (dsteps_dead ops _ (p_dead_close_destroy p)) as (H1 & H2).
    rewrite (p_dead_reopen _ H1), H2.
    change (p_fresh (p_dstep (p_dstep p DClose) DDestroyClosed) = p_fresh p). rewrite !p_fresh_dstep. reflexivity.
Qed.

(** the answers of a dead object with a path *)
Definition p_shaped (p : pers) : Prop :=
  match p with PBase _ => True | PSharded s => (2 <= sh_n s)%N /\ length (sh_shards s) = N.to_nat (sh_n s) end.

Lemma p_close_ok p : snd (p_close p) = ROk.
Proof.
  destruct p as [b|s]; cbn [p_close].
  - pose proof (b_close_ok b) as H. destruct (b_close b). exact H.
  - unfold sh_close. rewrite close_all_map. reflexivity.
Qed.
Lemma p_destroy_ok p : snd (p_destroy p) = ROk.
Proof.
  destruct p as [b|s]; cbn [p_destroy].
  - pose proof (b_destroy_ok b) as H. destruct (b_destroy b). exact H.
  - unfold sh_destroy. rewrite (all_until_error_map b_destroy _ b_destroy_ok). reflexivity.
Qed.
Lemma p_destroy_closed_ok p : snd (p_destroy_closed p) = ROk.
Proof.
  destruct p as [b|s]; cbn [p_destroy_closed].
  - pose proof (b_destroy_closed_ok b) as H. destruct (b_destroy_closed b). exact H.
  - unfold sh_destroy_closed. rewrite (all_until_error_map b_destroy_closed _ b_destroy_closed_ok). reflexivity.
Qed.

Lemma fold_range_with_nil {St} (h : St -> key * bytes -> St * bool) l : forall st,
  (forall b, In b l -> b_iter b = []) -> fold_left (fun st b => b_range_with h st b) l st = st.
Proof.
  induction l as [|b l IH]; intros st H; [reflexivity|]. cbn [fold_left].
  rewrite b_range_with_iter, (H b (or_introl eq_refl)). cbn [iter_with]. apply IH. intros b' Hb'. apply H. right. exact Hb'.
Qed.

Lemma flat_range_nil l : (forall b, In b l -> b_range b = []) -> flat_map b_range l = [].
Proof.
  induction l as [|b l IH]; intros H; [reflexivity|]. cbn [flat_map].
  rewrite (H b (or_introl eq_refl)), IH; [reflexivity|]. intros b' Hb'. apply H. right. exact Hb'.
Qed.

Lemma p_dead_answers d k n :
  p_dead d -> p_durable d -> p_shaped d ->
  p_get d k = (RClosed, None) /\ p_has d k = RClosed /\ p_range d = [] /\ p_range_stop n d = []
  /\ snd (p_close d) = ROk /\ snd (p_destroy d) = ROk /\ snd (p_destroy_closed d) = ROk.
Proof.
  intros Hd Hp Hs. sp; try apply p_close_ok; try apply p_destroy_ok; try apply p_destroy_closed_ok;
    destruct d as [b|s]; cbn [p_dead p_durable p_shaped p_get p_has p_range] in *.
  - apply (b_dead_reads b k Hd Hp).
  - assert (Hi : In (get_shard s (shard_of s k)) (sh_shards s)).
    { destruct Hs as (Hn & Hl). unfold get_shard. apply nth_In. rewrite Hl. unfold shard_of.
      pose proof (in_range (sh_n s) k Hn). lia. }
    rewrite Forall_forall in Hd, Hp. unfold sh_get. apply (b_dead_reads _ k (Hd _ Hi) (Hp _ Hi)).
  - apply (b_dead_reads b k Hd Hp).
  - assert (Hi : In (get_shard s (shard_of s k)) (sh_shards s)).
    { destruct Hs as (Hn & Hl). unfold get_shard. apply nth_In. rewrite Hl. unfold shard_of.
      pose proof (in_range (sh_n s) k Hn). lia. }
    rewrite Forall_forall in Hd, Hp. unfold sh_has. apply (b_dead_reads _ k (Hd _ Hi) (Hp _ Hi)).
  - apply (b_dead_reads b k Hd Hp).
  - unfold sh_range. rewrite Forall_forall in Hd, Hp. apply flat_range_nil. intros b Hb.
    apply (b_dead_reads b k (Hd b Hb) (Hp b Hb)).
  - unfold p_range_stop. cbn [p_range_with]. rewrite b_range_with_iter.
    destruct (b_dead_reads b k Hd Hp) as (_ & _ & Hr & _). rewrite Hr. reflexivity.
  - unfold p_range_stop. cbn [p_range_with]. unfold sh_range_with. rewrite fold_range_with_nil; [reflexivity|].
    rewrite Forall_forall in Hd, Hp. intros b Hb. apply (b_dead_reads b k (Hd b Hb) (Hp b Hb)).
Qed.

Lemma p_durable_dstep_destroy p : p_durable p -> p_durable (fst (p_destroy p)) /\ p_durable (fst (p_destroy_closed (fst (p_close p)))).
Proof.
  destruct p as [b|s]; cbn [p_durable p_destroy p_close]; intros Hd.
  - pose proof (b_durable_destroy b Hd) as H1. pose proof (b_durable_close_destroy b Hd) as H2.
    destruct (b_destroy b) as [b' r]. destruct (b_close b) as [b1 r1]. cbn [fst p_destroy_closed] in *.
    destruct (b_destroy_closed b1) as [b2 r2]. split; assumption.
  - unfold sh_destroy, sh_close. rewrite (all_until_error_map b_destroy _ b_destroy_ok), close_all_map.
    cbn [fst p_destroy_closed]. unfold sh_destroy_closed. cbn [sh_shards sh_n].
    rewrite (all_until_error_map b_destroy_closed _ b_destroy_closed_ok). cbn [fst p_durable sh_shards]. rewrite map_map.
    split; apply Forall_map; (eapply Forall_impl; [|exact Hd]); intros b Hb;
      [apply b_durable_destroy|apply b_durable_close_destroy]; exact Hb.
Qed.

Lemma p_shaped_destroy p : p_ok p -> p_shaped (fst (p_destroy p)) /\ p_shaped (fst (p_destroy_closed (fst (p_close p)))).
Proof.
  destruct p as [b|s]; cbn [p_ok p_destroy p_close]; intros Hok.
  - destruct (b_destroy b) as [b' r]. destruct (b_close b) as [b1 r1]. cbn [fst p_destroy_closed].
    destruct (b_destroy_closed b1) as [b2 r2]. split; exact I.
  - destruct Hok as (Hn & Hl & _).
    unfold sh_destroy, sh_close. rewrite (all_until_error_map b_destroy _ b_destroy_ok), close_all_map.
    cbn [fst p_destroy_closed]. unfold sh_destroy_closed. cbn [sh_shards sh_n].
    rewrite (all_until_error_map b_destroy_closed _ b_destroy_closed_ok). cbn [fst p_shaped sh_shards sh_n].
    rewrite !map_length. auto.
Qed.

Lemma destroyed_object_answers p k n :
  p_ok p -> p_durable p ->
  forall d, d = fst (p_destroy p) \/ d = fst (p_destroy_closed (fst (p_close p))) ->
  p_get d k = (RClosed, None) /\ p_has d k = RClosed /\ p_range d = [] /\ p_range_stop n d = []
  /\ snd (p_close d) = ROk /\ snd (p_destroy d) = ROk /\ snd (p_destroy_closed d) = ROk.
Proof.
  intros Hok Hp d [->| ->]; apply p_dead_answers;
    first [apply p_dead_destroy|apply p_dead_close_destroy|apply p_durable_dstep_destroy; exact Hp|apply p_shaped_destroy; exact Hok].
Qed.

(** ================= corollaries in the form the property file states them ================= *)

Lemma p_range_stop_spec n p :
  p_ok p ->
  let vs := p_range_stop n p in
  (forall k v, In (k, v) vs -> p_flushed p k = Some v)
  /\ NoDup (map fst vs)
  /\ (Nat.min (Nat.max 1 n) (length (p_range p)) <= length vs)%nat
  /\ (length vs <= length (p_range p))%nat
  /\ match p with
     | PBase _ => length vs = Nat.min (Nat.max 1 n) (length (p_range p))
     | PSharded s => (length vs + 1 <= Nat.max 1 n + length (sh_shards s))%nat
     end.
Proof. intros Hok vs. apply stop_explained_spec; [exact Hok|apply p_range_stop_explained; exact Hok]. Qed.

Lemma p_range_stop_reachable n p ops :
  p_ok p -> p_durable p ->
  let q := fst (p_run3 p ops) in
  let vs := p_range_stop n q in
  (forall k v, In (k, v) vs -> p_flushed q k = Some v)
  /\ NoDup (map fst vs)
  /\ (Nat.min (Nat.max 1 n) (length (p_range q)) <= length vs)%nat
  /\ (length vs <= length (p_range q))%nat
  /\ match q with
     | PBase _ => length vs = Nat.min (Nat.max 1 n) (length (p_range q))
     | PSharded s => (length vs + 1 <= Nat.max 1 n + length (sh_shards s))%nat
     end.
Proof. intros Hok Hd q. apply p_range_stop_spec. apply p_run3_spec; assumption. Qed.

Lemma sh_range_stop_ord_spec s n order :
  sh_ok s -> Permutation order (seq 0 (length (sh_shards s))) ->
  let vs := sh_range_stop_ord order n s in
  runs_ok s n 0 order vs
  /\ (forall k v, In (k, v) vs -> sh_flushed s k = Some v)
  /\ NoDup (map fst vs)
  /\ (Nat.min (Nat.max 1 n) (length (sh_range s)) <= length vs)%nat
  /\ (length vs <= length (sh_range s))%nat
  /\ (length vs + 1 <= Nat.max 1 n + length (sh_shards s))%nat.
Proof.
  intros Hok Hp vs. pose proof (sh_range_stop_ord_runs s n order Hok) as Hr. split; [exact Hr|].
  apply (runs_ok_spec s n order vs Hok Hp Hr).
Qed.

Lemma p_range_stop_sharded_is_ord n s :
  p_range_stop n (PSharded s) = sh_range_stop_ord (seq 0 (length (sh_shards s))) n s.
Proof. unfold p_range_stop, sh_range_stop_ord. cbn [p_range_with]. rewrite sh_range_with_is_ord. reflexivity. Qed.

Lemma destroy_cycles_are_fresh p :
  p_destroy_cycle p = (p_fresh p, ROk) /\ p_close_destroy_cycle p = (p_fresh p, ROk).
Proof. split; [apply p_destroy_cycle_eq|apply p_close_destroy_cycle_eq]. Qed.
