From Coq Require Import List NArith ZArith PeanoNat Lia Bool ZifyN ZifyNat.
From Verif Require Import Base.BStr Persist.ShardId.
Import ListNotations.
Open Scope N_scope.

Lemma land_mask a k : N.land a (2 ^ k - 1) = a mod 2 ^ k.
Proof. rewrite <- N.land_ones. f_equal. rewrite N.ones_equiv. lia. Qed.

Lemma in_range n key : 2 <= n -> compute_id n key < n.
Proof.
  intros Hn. unfold compute_id, mask_high, mask_low. cbv zeta.
  set (a := addr_of _). rewrite !land_mask.
  destruct (N.ltb_spec (n - 1) (a mod 2 ^ N.log2_up n)) as [H|H]; [|lia].
  assert (Hs : 2 ^ N.pred (N.log2_up n) < n <= 2 ^ N.log2_up n) by (apply N.log2_up_spec; lia).
  replace (N.log2_up n - 1) with (N.pred (N.log2_up n)) by lia.
  assert (a mod 2 ^ N.pred (N.log2_up n) < 2 ^ N.pred (N.log2_up n)).
  { apply N.mod_lt. apply N.pow_nonzero. lia. }
  lia.
Qed.

Lemma lastn_lastn {A} k (l : list A) : lastn k (lastn k l) = lastn k l.
Proof.
  unfold lastn. rewrite skipn_length.
  replace (length l - (length l - k) - k)%nat with 0%nat by lia. reflexivity.
Qed.

Lemma suffix_only n key : compute_id n key = compute_id n (lastn (N.to_nat (bytes_needed n)) key).
Proof. unfold compute_id. rewrite lastn_lastn. reflexivity. Qed.

Lemma lastn_app {A} k (p l : list A) : (k <= length l)%nat -> lastn k (p ++ l) = lastn k l.
Proof.
  intros Hk. unfold lastn. rewrite app_length.
  replace (length p + length l - k)%nat with (length p + (length l - k))%nat by lia.
  rewrite skipn_app. rewrite skipn_all2 by lia. simpl.
  f_equal. lia.
Qed.

(** two keys with the same trailing [bytes_needed n] bytes go to the same shard *)
Lemma same_suffix_same_id n p1 p2 suffix :
  (N.to_nat (bytes_needed n) <= length suffix)%nat ->
  compute_id n (p1 ++ suffix) = compute_id n (p2 ++ suffix).
Proof.
  intros H. rewrite (suffix_only n (p1 ++ suffix)), (suffix_only n (p2 ++ suffix)).
  rewrite !lastn_app by exact H. reflexivity.
Qed.

Lemma encode_length k i : length (encode k i) = k.
Proof. revert i; induction k as [|k IH]; intros i; simpl; [reflexivity|]. rewrite app_length, IH. simpl. lia. Qed.

Lemma addr_of_app l b : addr_of (l ++ [b]) = (addr_of l * 256 + b) mod two32.
Proof. unfold addr_of. rewrite fold_left_app. reflexivity. Qed.

Lemma addr_encode k i : i < 256 ^ N.of_nat k -> i < two32 -> addr_of (encode k i) = i.
Proof.
  revert i; induction k as [|k IH]; intros i Hi H32.
  - simpl in Hi. assert (i = 0) by lia. subst. reflexivity.
  - simpl encode. rewrite addr_of_app. rewrite IH.
    + rewrite N.mul_comm, <- N.div_mod' . apply N.mod_small. exact H32.
    + replace (N.of_nat (S k)) with (N.succ (N.of_nat k)) in Hi by lia. rewrite N.pow_succ_r' in Hi.
      apply N.div_lt_upper_bound; lia.
    + assert (i / 256 <= i) by (apply N.div_le_upper_bound; lia). lia.
Qed.

Lemma bytes_needed_covers n : 2 <= n -> n - 1 < 256 ^ bytes_needed n.
Proof.
  intros Hn. unfold bytes_needed. set (m := n - 1). assert (0 < m) by lia.
  pose proof (N.log2_spec m H) as (_ & Hlt).
  assert (N.succ (N.log2 m) <= 8 * (N.log2 m / 8 + 1)).
  { pose proof (N.div_mod' (N.log2 m) 8). pose proof (N.mod_lt (N.log2 m) 8). lia. }
  replace 256 with (2 ^ 8) by reflexivity. rewrite <- N.pow_mul_r.
  eapply N.lt_le_trans; [exact Hlt|]. apply N.pow_le_mono_r; lia.
Qed.

Lemma lastn_all {A} k (l : list A) : length l = k -> lastn k l = l.
Proof. intros <-. unfold lastn. rewrite Nat.sub_diag. reflexivity. Qed.

Lemma onto n i : 2 <= n -> n < 2147483648 -> i < n ->
  compute_id n (encode (N.to_nat (bytes_needed n)) i) = i.
Proof.
  intros Hn Hmax Hi. unfold compute_id.
  rewrite lastn_all by apply encode_length.
  rewrite addr_encode.
  - cbv zeta. unfold mask_high. rewrite land_mask.
    assert (Hs : 2 ^ N.pred (N.log2_up n) < n <= 2 ^ N.log2_up n) by (apply N.log2_up_spec; lia).
    rewrite N.mod_small by lia.
    destruct (N.ltb_spec (n - 1) i); [lia|reflexivity].
  - rewrite N2Nat.id. pose proof (bytes_needed_covers n Hn). lia.
  - unfold two32. lia.
Qed.

Lemma bytes_needed_le4 n : 2 <= n -> n < 2147483648 -> bytes_needed n <= 4.
Proof.
  intros Hn Hmax. unfold bytes_needed.
  assert (N.log2 (n - 1) < 31).
  { apply N.log2_lt_pow2; [lia|]. change (2 ^ 31) with 2147483648. lia. }
  assert (N.log2 (n - 1) / 8 < 4) by (apply N.div_lt_upper_bound; lia).
  lia.
Qed.

(** the derived fields are constant on (2^j, 2^(j+1)] : the bridge to the float code *)
Lemma steps_up n j : 2 ^ j < n <= 2 ^ (j + 1) -> N.log2_up n = j + 1.
Proof.
  intros (H1 & H2). apply N.log2_up_unique; [lia|]. replace (N.pred (j + 1)) with j by lia. split; lia.
Qed.

Lemma steps_fields n j : 2 ^ j < n <= 2 ^ (j + 1) ->
  mask_high n = 2 ^ (j + 1) - 1 /\ mask_low n = 2 ^ j - 1 /\ bytes_needed n = j / 8 + 1.
Proof.
  intros H. unfold mask_high, mask_low, bytes_needed. rewrite (steps_up n j H).
  replace (j + 1 - 1) with j by lia. repeat split.
  f_equal. f_equal. apply N.log2_unique; [lia|].
  rewrite <- N.add_1_r. lia.
Qed.

Lemma provider_accepts_spec (z : Z) : (-2147483648 <= z < 2147483648)%Z ->
  (provider_accepts z = true <-> 2 <= Z.to_N z /\ Z.to_N z < 2147483648 /\ (0 <= z)%Z).
Proof.
  intros Hz. unfold provider_accepts. rewrite Bool.negb_true_iff, Z.ltb_ge. split.
  - intros H. split; [|split]; lia.
  - intros (H & _ & H0). lia.
Qed.
