From Coq Require Import List NArith ZArith Bool Lia.
From Verif Require Import Base.BStr Persist.Batch Persist.LevelDb Persist.MapSpec Persist.PersistSpec Persist.Batch_proofs.
Import ListNotations.
Open Scope Z_scope.

Ltac sp := repeat match goal with |- _ /\ _ => split end.

Lemma mk_db_ok s : d_open s = true -> batch_ok (d_batch s) -> NoDup (map fst (d_disk s)) -> db_ok s.
Proof. intros. unfold db_ok. auto. Qed.

Definition db_dom (s : db) : list key := map fst (d_disk s) ++ map rec_key (b_log (d_batch s)).

Lemma new_db_ok max d : NoDup (map fst d) -> db_ok (new_db max d).
Proof. intros H. apply mk_db_ok; simpl; auto. apply new_batch_ok. Qed.

Lemma new_db_abs max d a : db_abs (new_db max d) a = disk_map d a.
Proof. reflexivity. Qed.

(** flushing keeps the abstraction; afterwards the disk alone is the abstraction *)
Lemma db_flush_dom s a :
  In a (map fst (apply_log (b_log (d_batch s)) (d_disk s)) ++ map rec_key (b_log new_batch)) -> In a (db_dom s).
Proof.
  simpl. rewrite app_nil_r. intros H. apply keys_apply_log in H. unfold db_dom. apply in_or_app. exact H.
Qed.

Lemma db_update_spec s :
  db_ok s ->
  let (s', r) := db_update_batch_with_increment s in
  db_ok s' /\ r = ROk /\ (forall a, db_abs s' a = db_abs s a) /\ incl (db_dom s') (db_dom s) /\ d_max s' = d_max s.
Proof.
  intros (Ho & Hb & Hd). unfold db_update_batch_with_increment, db_put_batch, set_size.
  cbn [d_size d_max d_open d_batch d_disk]. rewrite Ho.
  destruct (d_size s + 1 <? d_max s) eqn:E.
  - sp; auto. + apply mk_db_ok; auto. + intros a Ha; exact Ha.
  - sp; cbn [d_open d_batch d_disk d_max]; auto.
    + apply mk_db_ok; cbn [d_open d_batch d_disk d_max]; auto; [apply new_batch_ok|apply NoDup_apply_log; exact Hd].
    + intros a. unfold db_abs. cbn [d_batch d_disk]. apply batch_abs_flush. exact Hb.
    + intros a Ha. unfold db_dom in Ha. cbn [d_batch d_disk batch_reset] in Ha. apply db_flush_dom. exact Ha.
Qed.

Lemma db_put_spec s k v :
  db_ok s ->
  let (s', r) := db_put s k v in
  db_ok s' /\ r = ROk /\ (forall a, db_abs s' a = m_put (db_abs s) k v a) /\ incl (db_dom s') (k :: db_dom s) /\ d_max s' = d_max s.
Proof.
  intros (Ho & Hb & Hd). unfold db_put.
  set (s1 := set_batch s (batch_put (d_batch s) k v)).
  assert (H1 : db_ok s1) by (apply mk_db_ok; auto; apply batch_put_ok; exact Hb).
  pose proof (db_update_spec s1 H1) as H. destruct (db_update_batch_with_increment s1) as [s' r].
  destruct H as (Hok & Hr & Ha & Hi & Hm). sp; auto.
  - intros a. rewrite Ha. unfold db_abs, s1. cbn [set_batch d_batch d_disk]. apply batch_abs_put.
  - intros a Hin. apply Hi in Hin. unfold db_dom, s1 in Hin. cbn [set_batch d_batch d_disk batch_put b_log map rec_key] in Hin.
    apply in_app_or in Hin. simpl. unfold db_dom. rewrite in_app_iff. simpl in Hin. tauto.
Qed.

Lemma db_remove_spec s k :
  db_ok s ->
  let (s', r) := db_remove s k in
  db_ok s' /\ r = ROk /\ (forall a, db_abs s' a = m_remove (db_abs s) k a) /\ incl (db_dom s') (k :: db_dom s) /\ d_max s' = d_max s.
Proof.
  intros (Ho & Hb & Hd). unfold db_remove.
  set (s1 := set_batch s (batch_delete (d_batch s) k)).
  assert (H1 : db_ok s1) by (apply mk_db_ok; auto; apply batch_delete_ok; exact Hb).
  pose proof (db_update_spec s1 H1) as H. destruct (db_update_batch_with_increment s1) as [s' r].
  destruct H as (Hok & Hr & Ha & Hi & Hm). sp; auto.
  - intros a. rewrite Ha. unfold db_abs, s1. cbn [set_batch d_batch d_disk]. apply batch_abs_delete.
  - intros a Hin. apply Hi in Hin. unfold db_dom, s1 in Hin. cbn [set_batch d_batch d_disk batch_delete b_log map rec_key] in Hin.
    apply in_app_or in Hin. simpl. unfold db_dom. rewrite in_app_iff. simpl in Hin. tauto.
Qed.

Lemma db_get_spec s k : db_ok s -> canon_get (db_get s k) = m_get (db_abs s) k.
Proof.
  intros (Ho & Hb & Hd). unfold db_get. rewrite Ho. cbn [negb]. apply read_path_get. exact Hb.
Qed.

Lemma db_has_spec s k : db_ok s -> db_has s k = m_has (db_abs s) k.
Proof.
  intros (Ho & Hb & Hd). unfold db_has. rewrite Ho. cbn [negb]. apply read_path_has. exact Hb.
Qed.

Lemma db_tick_spec s :
  db_ok s ->
  db_ok (db_tick s) /\ (forall a, db_abs (db_tick s) a = db_abs s a)
  /\ (forall a, disk_map (d_disk (db_tick s)) a = db_abs s a)
  /\ incl (db_dom (db_tick s)) (db_dom s) /\ d_max (db_tick s) = d_max s.
Proof.
  intros (Ho & Hb & Hd). unfold db_tick, db_put_batch. rewrite Ho.
  sp; cbn [d_open d_batch d_disk d_max]; auto.
  - apply mk_db_ok; cbn [d_open d_batch d_disk d_max]; auto; [apply new_batch_ok|apply NoDup_apply_log; exact Hd].
  - intros a. unfold db_abs. cbn [d_batch d_disk]. apply batch_abs_flush. exact Hb.
  - intros a. apply (batch_abs_flush (d_batch s) (d_disk s) a Hb).
  - intros a Ha. apply db_flush_dom. exact Ha.
Qed.

Lemma db_range_spec s : db_ok s -> presents (db_range s) (disk_map (d_disk s)).
Proof. intros (Ho & Hb & Hd). unfold db_range. rewrite Ho. apply disk_presents. exact Hd. Qed.

(** Close, then the constructor again on the same directory *)
Lemma db_cycle_spec s :
  db_ok s ->
  let s' := db_reopen (fst (db_close s)) in
  snd (db_close s) = ROk /\ db_ok s' /\ (forall a, db_abs s' a = db_abs s a)
  /\ (forall a, disk_map (d_disk s') a = db_abs s a)
  /\ incl (db_dom s') (db_dom s) /\ d_max s' = d_max s.
Proof.
  intros (Ho & Hb & Hd). unfold db_close, db_reopen, db_put_batch. rewrite Ho. cbn [fst snd d_disk d_max].
  sp; cbn [new_db d_open d_batch d_disk d_max]; auto.
  - apply mk_db_ok; cbn [d_open d_batch d_disk d_max]; auto; [apply new_batch_ok|apply NoDup_apply_log; exact Hd].
  - intros a. unfold db_abs. cbn [d_batch d_disk]. apply batch_abs_flush. exact Hb.
  - intros a. apply (batch_abs_flush (d_batch s) (d_disk s) a Hb).
  - intros a Ha. apply db_flush_dom. exact Ha.
Qed.

(** a closed DB: reads answer ErrDBIsClosed, RangeKeys visits nothing *)
Lemma db_closed_reads s k :
  d_open s = false -> db_get s k = (RClosed, None) /\ db_has s k = RClosed /\ db_range s = [].
Proof. intros H. unfold db_get, db_has, db_range. rewrite H. repeat split. Qed.

Lemma db_close_closed s : d_open (fst (db_close s)) = false.
Proof. reflexivity. Qed.

(** operations on a closed DB never reach LevelDB: whatever happens between Close and the next
    NewDB on the path, the reopened persister is the same *)
Lemma db_closed_ops_reopen s k v :
  d_open s = false ->
  (d_open (fst (db_put s k v)) = false /\ db_reopen (fst (db_put s k v)) = db_reopen s)
  /\ (d_open (fst (db_remove s k)) = false /\ db_reopen (fst (db_remove s k)) = db_reopen s)
  /\ (d_open (db_tick s) = false /\ db_reopen (db_tick s) = db_reopen s)
  /\ (d_open (fst (db_close s)) = false /\ db_reopen (fst (db_close s)) = db_reopen s).
Proof.
  intros H. unfold db_put, db_remove, db_tick, db_close, db_update_batch_with_increment, db_put_batch, db_reopen, set_size, set_batch.
  cbn [d_size d_max d_open d_batch d_disk]. rewrite H.
  destruct (d_size s + 1 <? d_max s); cbn [fst d_open d_max d_disk]; rewrite ?H; repeat split.
Qed.

(** observation (outside the text of C09, which speaks of writes acknowledged BEFORE Close): a Put on a
    closed DB is acknowledged with nil as long as it does not fill the batch, and is dropped *)
Lemma db_put_on_closed_acknowledged :
  exists s k v, d_open s = false /\ snd (db_put s k v) = ROk /\ db_reopen (fst (db_put s k v)) = db_reopen s.
Proof.
  exists (fst (db_close (new_db 3 []))), [1%N], (Some [2%N]). repeat split.
Qed.
