From Coq Require Import List NArith ZArith Bool Lia PeanoNat.
From Verif Require Import Base.BStr Persist.Batch Persist.LevelDb Persist.SerialDb Persist.MemDb Persist.MapSpec
  Persist.ShardId Persist.ShardId_proofs Persist.ShardedDb Persist.PersistSpec
  Persist.Batch_proofs Persist.LevelDb_proofs Persist.SerialDb_proofs Persist.MemDb_proofs.
Import ListNotations.

Ltac sp := repeat match goal with |- _ /\ _ => split end.

(** ================= base persisters ================= *)

Lemma keys_aset {A} k (v : A) l a : In a (map fst (aset k v l)) -> a = k \/ In a (map fst l).
Proof. unfold aset. simpl. intros [H|H]; [left; congruence|]. apply keys_aremove in H. tauto. Qed.

Lemma b_put_spec b k v :
  b_ok b ->
  b_ok (fst (b_put b k v)) /\ snd (b_put b k v) = ROk
  /\ (forall a, b_abs (fst (b_put b k v)) a = m_upd (b_abs b) k (Some (val_bytes v)) a)
  /\ incl (b_dom (fst (b_put b k v))) (k :: b_dom b)
  /\ (b_durable b -> b_durable (fst (b_put b k v))).
Proof.
  destruct b as [s|s|s]; cbn [b_ok b_put]; intros Hok.
  - pose proof (db_put_spec s k v Hok) as H. destruct (db_put s k v) as [s' r]. cbn [fst snd b_ok b_abs b_dom b_durable].
    destruct H as (H1 & H2 & H3 & H4 & _). sp; auto.
  - pose proof (sdb_put_spec s k v Hok) as H. destruct (sdb_put s k v) as [s' r]. cbn [fst snd b_ok b_abs b_dom b_durable].
    destruct H as (H1 & H2 & H3 & H4 & _). sp; auto.
  - cbn [mem_put fst snd b_ok b_abs b_dom b_durable]. sp; auto.
    + apply NoDup_aset. exact Hok.
    + intros a. apply (mem_put_abs s k v a).
    + intros a Ha. apply keys_aset in Ha. destruct Ha as [->|Ha]; simpl; auto.
Qed.

Lemma b_remove_spec b k :
  b_ok b ->
  b_ok (fst (b_remove b k)) /\ snd (b_remove b k) = ROk
  /\ (forall a, b_abs (fst (b_remove b k)) a = m_upd (b_abs b) k None a)
  /\ incl (b_dom (fst (b_remove b k))) (k :: b_dom b)
  /\ (b_durable b -> b_durable (fst (b_remove b k))).
Proof.
  destruct b as [s|s|s]; cbn [b_ok b_remove]; intros Hok.
  - pose proof (db_remove_spec s k Hok) as H. destruct (db_remove s k) as [s' r]. cbn [fst snd b_ok b_abs b_dom b_durable].
    destruct H as (H1 & H2 & H3 & H4 & _). sp; auto.
  - pose proof (sdb_remove_spec s k Hok) as H. destruct (sdb_remove s k) as [s' r]. cbn [fst snd b_ok b_abs b_dom b_durable].
    destruct H as (H1 & H2 & H3 & H4 & _). sp; auto.
  - cbn [mem_remove fst snd b_ok b_abs b_dom b_durable]. sp; auto.
    + apply NoDup_aremove. exact Hok.
    + intros a. apply (mem_remove_abs s k a).
    + intros a Ha. apply keys_aremove in Ha. simpl. tauto.
Qed.

Lemma b_get_spec b k : b_ok b -> canon_get (b_get b k) = m_get (b_abs b) k.
Proof.
  destruct b as [s|s|s]; cbn [b_ok b_get b_abs]; intros Hok;
    [apply db_get_spec|apply sdb_get_spec|apply mem_get_spec]; exact Hok.
Qed.

Lemma b_has_spec b k : b_ok b -> b_has b k = m_has (b_abs b) k.
Proof.
  destruct b as [s|s|s]; cbn [b_ok b_has b_abs]; intros Hok;
    [apply db_has_spec|apply sdb_has_spec|apply mem_has_spec]; exact Hok.
Qed.

Lemma b_tick_spec b :
  b_ok b ->
  b_ok (b_tick b) /\ (forall a, b_abs (b_tick b) a = b_abs b a)
  /\ (forall a, b_flushed (b_tick b) a = b_abs b a)
  /\ incl (b_dom (b_tick b)) (b_dom b) /\ (b_durable b -> b_durable (b_tick b)).
Proof.
  destruct b as [s|s|s]; cbn [b_ok b_tick b_abs b_flushed b_dom b_durable]; intros Hok.
  - destruct (db_tick_spec s Hok) as (H1 & H2 & H3 & H4 & _). sp; auto.
  - destruct (sdb_tick_spec s Hok) as (H1 & H2 & H3 & H4 & _). sp; auto.
  - sp; auto. intros a Ha; exact Ha.
Qed.

Lemma b_range_spec b : b_ok b -> presents (b_range b) (b_flushed b).
Proof.
  destruct b as [s|s|s]; cbn [b_ok b_range b_flushed]; intros Hok;
    [apply db_range_spec|apply sdb_range_spec|apply mem_range_spec]; exact Hok.
Qed.

Lemma b_close_ok b : snd (b_close b) = ROk.
Proof. destruct b as [s|s|s]; reflexivity. Qed.

Definition b_cycle (b : base) : base := b_reopen (fst (b_close b)).

Lemma b_cycle_spec b :
  b_ok b -> b_durable b ->
  b_ok (b_cycle b) /\ (forall a, b_abs (b_cycle b) a = b_abs b a)
  /\ (forall a, b_flushed (b_cycle b) a = b_abs b a)
  /\ incl (b_dom (b_cycle b)) (b_dom b) /\ b_durable (b_cycle b).
Proof.
  unfold b_cycle. destruct b as [s|s|s]; cbn [b_ok b_close b_durable]; intros Hok Hd; [| |contradiction].
  - pose proof (db_cycle_spec s Hok) as H. destruct (db_close s) as [s1 r].
    cbn [fst snd b_reopen b_ok b_abs b_flushed b_dom b_durable] in *.
    destruct H as (_ & H1 & H2 & H3 & H4 & _). sp; auto.
  - pose proof (sdb_cycle_spec s Hok) as H. destruct (sdb_close s) as [s1 r].
    cbn [fst snd b_reopen b_ok b_abs b_flushed b_dom b_durable] in *.
    destruct H as (_ & H1 & H2 & H3 & H4 & _). sp; auto.
Qed.

(** when the pending batch is empty, LevelDB alone is the abstraction (state right after any flush) *)
Lemma new_base_ok kind max b : new_base kind max = Some b -> b_ok b /\ (forall a, b_abs b a = None) /\ b_dom b = [].
Proof.
  unfold new_base. intros H. destruct kind as [|[p|[p|p|]|]]; try discriminate H; inversion H; subst; cbn [b_ok b_abs b_dom].
  - sp; [apply new_db_ok; constructor|reflexivity|reflexivity].
  - sp; [constructor|reflexivity|reflexivity].
  - sp; [apply new_sdb_ok; constructor|reflexivity|reflexivity].
Qed.

(** ================= lists ================= *)

Lemma length_set_nth {A} i (x : A) l : length (set_nth i x l) = length l.
Proof. revert i; induction l as [|y l IH]; intros [|i]; simpl; auto. Qed.

Lemma nth_error_set_nth_eq {A} i (x : A) l : (i < length l)%nat -> nth_error (set_nth i x l) i = Some x.
Proof.
  revert i; induction l as [|y l IH]; intros [|i] H; simpl in *; try lia; [reflexivity|]. apply IH. lia.
Qed.

Lemma nth_error_set_nth_neq {A} i j (x : A) l : i <> j -> nth_error (set_nth i x l) j = nth_error l j.
Proof.
  revert i j; induction l as [|y l IH]; intros [|i] [|j] H; simpl; try reflexivity; try congruence.
  apply IH. congruence.
Qed.

Lemma Forall_set_nth {A} (P : A -> Prop) i x l : Forall P l -> P x -> Forall P (set_nth i x l).
Proof.
  revert i; induction l as [|y l IH]; intros [|i] H Hx; simpl; auto; inversion H; subst; constructor; auto.
Qed.

(** ================= sharded persister ================= *)

Lemma shard_lt s k : sh_ok s -> (shard_of s k < length (sh_shards s))%nat.
Proof.
  intros (Hn & Hl & _). rewrite Hl. unfold shard_of.
  pose proof (in_range (sh_n s) k Hn). lia.
Qed.

Lemma get_shard_nth_error s i b : nth_error (sh_shards s) i = Some b -> get_shard s i = b.
Proof. intros H. unfold get_shard. apply nth_error_nth. exact H. Qed.

Lemma nth_error_get_shard s i : (i < length (sh_shards s))%nat -> nth_error (sh_shards s) i = Some (get_shard s i).
Proof. intros H. unfold get_shard. apply nth_error_nth'. exact H. Qed.

(** one operation on key [k]: only the shard [shard_of s k] is touched, and the whole behaves as one map *)
Lemma sh_update_spec s k x (f : base -> base * rclass) :
  sh_ok s ->
  (forall b, b_ok b ->
     b_ok (fst (f b)) /\ snd (f b) = ROk
     /\ (forall a, b_abs (fst (f b)) a = m_upd (b_abs b) k x a)
     /\ incl (b_dom (fst (f b))) (k :: b_dom b)
     /\ (b_durable b -> b_durable (fst (f b)))) ->
  let i := shard_of s k in
  let s' := set_shard s i (fst (f (get_shard s i))) in
  sh_ok s' /\ snd (f (get_shard s i)) = ROk
  /\ (forall a, sh_abs s' a = m_upd (sh_abs s) k x a)
  /\ (forall j, j <> i -> get_shard s' j = get_shard s j)
  /\ (Forall b_durable (sh_shards s) -> Forall b_durable (sh_shards s')).
Proof.
  intros Hok Hf i s'. pose proof Hok as (Hn & Hl & Hall).
  assert (Hi : (i < length (sh_shards s))%nat) by (apply shard_lt; exact Hok).
  pose proof (nth_error_get_shard s i Hi) as Hb. set (b := get_shard s i) in *.
  destruct (Hall i b Hb) as (Hbok & Hbdom).
  destruct (Hf b Hbok) as (H1 & H2 & H3 & H4 & H5).
  assert (Hother : forall j, j <> i -> get_shard s' j = get_shard s j).
  { intros j Hj. unfold s', get_shard, set_shard. cbn [sh_shards].
    destruct (nth_error (sh_shards s) j) as [bj|] eqn:Ej.
    - apply nth_error_nth. rewrite nth_error_set_nth_neq by congruence. rewrite Ej. f_equal. symmetry. apply nth_error_nth. exact Ej.
    - apply nth_error_None in Ej. rewrite !nth_overflow; [reflexivity|exact Ej|rewrite length_set_nth; exact Ej]. }
  assert (Hsame : get_shard s' i = fst (f b)).
  { apply get_shard_nth_error. unfold s', set_shard. cbn [sh_shards]. apply nth_error_set_nth_eq. exact Hi. }
  sp.
  - unfold sh_ok, s', set_shard. cbn [sh_n sh_shards]. sp; [exact Hn|rewrite length_set_nth; exact Hl|].
    intros j bj Hj. destruct (Nat.eq_dec j i) as [->|Hne].
    + rewrite nth_error_set_nth_eq in Hj by exact Hi. inversion Hj; subst bj. split; [exact H1|].
      apply Forall_forall. intros a Ha. apply H4 in Ha. destruct Ha as [<-|Ha]; [reflexivity|].
      rewrite Forall_forall in Hbdom. apply Hbdom. exact Ha.
    + rewrite nth_error_set_nth_neq in Hj by congruence. apply Hall. exact Hj.
  - exact H2.
  - intros a. unfold sh_abs. change (shard_of s' a) with (shard_of s a).
    destruct (Nat.eq_dec (shard_of s a) i) as [E|E].
    + rewrite E, Hsame. rewrite H3. unfold m_upd. destruct (beqb a k); [reflexivity|]. rewrite E. reflexivity.
    + rewrite Hother by exact E. unfold m_upd. destruct (beqb_spec a k) as [->|Hne]; [contradiction E; reflexivity|reflexivity].
  - exact Hother.
  - intros Hd. unfold s', set_shard. cbn [sh_shards]. apply Forall_set_nth; [exact Hd|].
    apply H5. rewrite Forall_forall in Hd. apply Hd. eapply nth_error_In. exact Hb.
Qed.

Lemma sh_put_spec s k v :
  sh_ok s ->
  sh_ok (fst (sh_put s k v)) /\ snd (sh_put s k v) = ROk
  /\ (forall a, sh_abs (fst (sh_put s k v)) a = m_put (sh_abs s) k v a)
  /\ (forall j, j <> shard_of s k -> get_shard (fst (sh_put s k v)) j = get_shard s j)
  /\ (Forall b_durable (sh_shards s) -> Forall b_durable (sh_shards (fst (sh_put s k v)))).
Proof.
  intros Hok. pose proof (sh_update_spec s k (Some (val_bytes v)) (fun b => b_put b k v) Hok (fun b => b_put_spec b k v)) as H.
  unfold sh_put. cbv zeta in H. destruct (b_put (get_shard s (shard_of s k)) k v) as [b' r]. exact H.
Qed.

Lemma sh_remove_spec s k :
  sh_ok s ->
  sh_ok (fst (sh_remove s k)) /\ snd (sh_remove s k) = ROk
  /\ (forall a, sh_abs (fst (sh_remove s k)) a = m_remove (sh_abs s) k a)
  /\ (forall j, j <> shard_of s k -> get_shard (fst (sh_remove s k)) j = get_shard s j)
  /\ (Forall b_durable (sh_shards s) -> Forall b_durable (sh_shards (fst (sh_remove s k)))).
Proof.
  intros Hok. pose proof (sh_update_spec s k None (fun b => b_remove b k) Hok (fun b => b_remove_spec b k)) as H.
  unfold sh_remove. cbv zeta in H. destruct (b_remove (get_shard s (shard_of s k)) k) as [b' r]. exact H.
Qed.

Lemma sh_shard_ok s k : sh_ok s -> b_ok (get_shard s (shard_of s k)).
Proof.
  intros Hok. pose proof Hok as (_ & _ & Hall).
  apply (Hall (shard_of s k)). apply nth_error_get_shard. apply shard_lt. exact Hok.
Qed.

Lemma sh_get_spec s k : sh_ok s -> canon_get (sh_get s k) = m_get (sh_abs s) k.
Proof. intros Hok. unfold sh_get. rewrite b_get_spec by (apply sh_shard_ok; exact Hok). reflexivity. Qed.

Lemma sh_has_spec s k : sh_ok s -> sh_has s k = m_has (sh_abs s) k.
Proof. intros Hok. unfold sh_has. rewrite b_has_spec by (apply sh_shard_ok; exact Hok). reflexivity. Qed.

(** the same function applied to every shard (all timers fire; Close + reopen of every shard) *)
Lemma sh_map_spec s (h : base -> base) (Q : base -> Prop) :
  sh_ok s ->
  (forall b, b_ok b -> Q b ->
     b_ok (h b) /\ (forall a, b_abs (h b) a = b_abs b a) /\ (forall a, b_flushed (h b) a = b_abs b a)
     /\ incl (b_dom (h b)) (b_dom b) /\ Q (h b)) ->
  Forall Q (sh_shards s) ->
  let s' := {| sh_n := sh_n s; sh_shards := map h (sh_shards s) |} in
  sh_ok s' /\ (forall a, sh_abs s' a = sh_abs s a) /\ (forall a, sh_flushed s' a = sh_abs s a) /\ Forall Q (sh_shards s').
Proof.
  intros Hok Hh HQ s'. pose proof Hok as (Hn & Hl & Hall).
  assert (Hget : forall a, get_shard s' (shard_of s a) = h (get_shard s (shard_of s a))).
  { intros a. apply get_shard_nth_error. unfold s'. cbn [sh_shards]. apply map_nth_error.
    apply nth_error_get_shard. apply shard_lt. exact Hok. }
  assert (Hsh : forall a, b_ok (get_shard s (shard_of s a)) /\ Q (get_shard s (shard_of s a))).
  { intros a. split; [apply sh_shard_ok; exact Hok|]. rewrite Forall_forall in HQ. apply HQ.
    eapply nth_error_In. apply nth_error_get_shard. apply shard_lt. exact Hok. }
  sp.
  - unfold sh_ok, s'. cbn [sh_n sh_shards]. sp; [exact Hn|rewrite map_length; exact Hl|].
    intros j bj Hj. rewrite nth_error_map in Hj. destruct (nth_error (sh_shards s) j) as [b|] eqn:Eb; [|discriminate].
    inversion Hj; subst bj. destruct (Hall j b Eb) as (Hbok & Hbdom).
    assert (HQb : Q b) by (rewrite Forall_forall in HQ; apply HQ; eapply nth_error_In; exact Eb).
    destruct (Hh b Hbok HQb) as (H1 & _ & _ & H4 & _). split; [exact H1|].
    apply Forall_forall. intros a Ha. apply H4 in Ha. rewrite Forall_forall in Hbdom. apply Hbdom. exact Ha.
  - intros a. unfold sh_abs. change (shard_of s' a) with (shard_of s a). rewrite Hget.
    destruct (Hsh a) as (H1 & H2). destruct (Hh _ H1 H2) as (_ & H3 & _). apply H3.
  - intros a. unfold sh_flushed, sh_abs. change (shard_of s' a) with (shard_of s a). rewrite Hget.
    destruct (Hsh a) as (H1 & H2). destruct (Hh _ H1 H2) as (_ & _ & H3 & _). apply H3.
  - unfold s'. cbn [sh_shards]. rewrite Forall_forall in *. intros b' Hb'. apply in_map_iff in Hb'.
    destruct Hb' as (b & <- & Hin). destruct (In_nth_error _ _ Hin) as (j & Ej).
    destruct (Hall j b Ej) as (Hbok & _). destruct (Hh b Hbok (HQ b Hin)) as (_ & _ & _ & _ & H5). exact H5.
Qed.

Lemma sh_tick_spec s :
  sh_ok s ->
  sh_ok (sh_tick s) /\ (forall a, sh_abs (sh_tick s) a = sh_abs s a) /\ (forall a, sh_flushed (sh_tick s) a = sh_abs s a)
  /\ (Forall b_durable (sh_shards s) -> Forall b_durable (sh_shards (sh_tick s))).
Proof.
  intros Hok. sp.
  - apply (sh_map_spec s b_tick (fun _ => True) Hok).
    + intros b Hb _. destruct (b_tick_spec b Hb) as (H1 & H2 & H3 & H4 & _). auto.
    + apply Forall_forall. auto.
  - apply (sh_map_spec s b_tick (fun _ => True) Hok).
    + intros b Hb _. destruct (b_tick_spec b Hb) as (H1 & H2 & H3 & H4 & _). auto.
    + apply Forall_forall. auto.
  - apply (sh_map_spec s b_tick (fun _ => True) Hok).
    + intros b Hb _. destruct (b_tick_spec b Hb) as (H1 & H2 & H3 & H4 & _). auto.
    + apply Forall_forall. auto.
  - intros Hd. unfold sh_tick. cbn [sh_shards]. rewrite Forall_forall in *. intros b' Hb'. apply in_map_iff in Hb'.
    destruct Hb' as (b & <- & Hin). specialize (Hd b Hin). destruct b; simpl in *; auto.
Qed.

Lemma close_all_map l : close_all l = (map (fun b => fst (b_close b)) l, ROk).
Proof.
  induction l as [|b l IH]; simpl; [reflexivity|].
  pose proof (b_close_ok b) as H. destruct (b_close b) as [b' e]. simpl in H. subst e. rewrite IH. reflexivity.
Qed.

Lemma sh_cycle_eq s :
  sh_reopen (fst (sh_close s)) = {| sh_n := sh_n s; sh_shards := map b_cycle (sh_shards s) |} /\ snd (sh_close s) = ROk.
Proof.
  unfold sh_close, sh_reopen. rewrite close_all_map. cbn [fst snd sh_n sh_shards]. rewrite map_map. split; reflexivity.
Qed.

Lemma sh_cycle_spec s :
  sh_ok s -> Forall b_durable (sh_shards s) ->
  let s' := sh_reopen (fst (sh_close s)) in
  snd (sh_close s) = ROk /\ sh_ok s' /\ (forall a, sh_abs s' a = sh_abs s a) /\ (forall a, sh_flushed s' a = sh_abs s a)
  /\ Forall b_durable (sh_shards s').
Proof.
  intros Hok Hd s'. destruct (sh_cycle_eq s) as (E & Er). unfold s'. rewrite E. split; [exact Er|].
  apply (sh_map_spec s b_cycle b_durable Hok); [|exact Hd].
  intros b Hb Hdb. apply b_cycle_spec; assumption.
Qed.

(** RangeKeys of the sharded persister presents the union of what the shards hold *)
Lemma NoDup_keys_concat (f : key -> nat) (ls : list (list (key * bytes))) : forall off,
  (forall i r, nth_error ls i = Some r -> NoDup (map fst r) /\ forall k, In k (map fst r) -> f k = (off + i)%nat) ->
  NoDup (map fst (concat ls)).
Proof.
  induction ls as [|r ls IH]; intros off H; simpl; [constructor|].
  rewrite map_app. destruct (H 0%nat r eq_refl) as (Hr & Hk).
  assert (Hrest : NoDup (map fst (concat ls))).
  { apply (IH (S off)). intros i r' Hi. destruct (H (S i) r' Hi) as (H1 & H2). split; [exact H1|].
    intros k Hin. rewrite (H2 k Hin). lia. }
  assert (Hdisj : forall k, In k (map fst r) -> ~ In k (map fst (concat ls))).
  { intros k Hin Hin'. rewrite (concat_map) in Hin'. apply in_concat in Hin'. destruct Hin' as (ks & Hks & Hk').
    apply in_map_iff in Hks. destruct Hks as (r' & <- & Hr').
    destruct (In_nth_error _ _ Hr') as (i & Ei).
    destruct (H (S i) r' Ei) as (_ & H2). pose proof (H2 k Hk'). pose proof (Hk k Hin). lia. }
  clear - Hr Hrest Hdisj. induction (map fst r) as [|x xs IHx]; simpl; [exact Hrest|].
  inversion Hr; subst. constructor.
  - rewrite in_app_iff. intros [H|H]; [contradiction|]. apply (Hdisj x); [left; reflexivity|exact H].
  - apply IHx; [assumption|]. intros k Hk. apply Hdisj. right. exact Hk.
Qed.

Lemma sh_range_spec s : sh_ok s -> presents (sh_range s) (sh_flushed s).
Proof.
  intros Hok. pose proof Hok as (Hn & Hl & Hall). unfold sh_range. rewrite flat_map_concat_map. split.
  - apply (NoDup_keys_concat (shard_of s) _ 0%nat). intros i r Hi. rewrite nth_error_map in Hi.
    destruct (nth_error (sh_shards s) i) as [b|] eqn:Eb; [|discriminate]. inversion Hi; subst r.
    destruct (Hall i b Eb) as (Hbok & Hbdom). destruct (b_range_spec b Hbok) as (Hnd & Hpres). split; [exact Hnd|].
    intros k Hk. apply in_map_iff in Hk. destruct Hk as ([k0 v] & <- & Hin). simpl.
    rewrite Forall_forall in Hbdom. apply Hbdom.
    (* a key LevelDB holds is in the domain *)
    destruct b as [d|d|d]; cbn [b_range b_dom b_ok] in *.
    + unfold db_range in Hin. destruct Hbok as (Ho & _). rewrite Ho in Hin. apply in_or_app. left. apply (in_map fst) in Hin. exact Hin.
    + unfold sdb_range in Hin. destruct Hbok as (Ho & _). rewrite Ho in Hin. apply in_or_app. left. apply (in_map fst) in Hin. exact Hin.
    + apply in_map_iff in Hin. destruct Hin as ([k1 w] & E & Hin). simpl in E. inversion E; subst. apply (in_map fst) in Hin. exact Hin.
  - intros k v. rewrite in_concat. split.
    + intros (r & Hr & Hin). apply in_map_iff in Hr. destruct Hr as (b & <- & Hb).
      destruct (In_nth_error _ _ Hb) as (i & Ei). destruct (Hall i b Ei) as (Hbok & Hbdom).
      destruct (b_range_spec b Hbok) as (_ & Hpres).
      assert (Hi : shard_of s k = i).
      { rewrite Forall_forall in Hbdom. apply Hbdom.
        destruct b as [d|d|d]; cbn [b_range b_dom b_ok] in *.
        - unfold db_range in Hin. destruct Hbok as (Ho & _). rewrite Ho in Hin. apply in_or_app. left. apply (in_map fst) in Hin. exact Hin.
        - unfold sdb_range in Hin. destruct Hbok as (Ho & _). rewrite Ho in Hin. apply in_or_app. left. apply (in_map fst) in Hin. exact Hin.
        - apply in_map_iff in Hin. destruct Hin as ([k1 w] & E & Hin). simpl in E. inversion E; subst. apply (in_map fst) in Hin. exact Hin. }
      unfold sh_flushed. rewrite Hi. rewrite (get_shard_nth_error s i b Ei). apply Hpres. exact Hin.
    + intros Hf. unfold sh_flushed in Hf. set (i := shard_of s k) in *.
      assert (Hi : (i < length (sh_shards s))%nat) by (apply shard_lt; exact Hok).
      pose proof (nth_error_get_shard s i Hi) as Eb. set (b := get_shard s i) in *.
      destruct (Hall i b Eb) as (Hbok & _). destruct (b_range_spec b Hbok) as (_ & Hpres).
      exists (b_range b). split; [apply in_map; eapply nth_error_In; exact Eb|]. apply Hpres. exact Hf.
Qed.

Lemma new_sharded_ok n mk :
  (2 <= n)%N -> b_ok mk -> b_dom mk = [] -> sh_ok (new_sharded n mk) /\ (forall a, sh_abs (new_sharded n mk) a = b_abs mk a).
Proof.
  intros Hn Hmk Hdom. split.
  - unfold sh_ok, new_sharded. cbn [sh_n sh_shards]. sp; [exact Hn|apply repeat_length|].
    intros i b Hi. apply nth_error_In in Hi. apply repeat_spec in Hi. subst b. split; [exact Hmk|]. rewrite Hdom. constructor.
  - intros a. unfold sh_abs. f_equal.
    assert (Hlt : (shard_of (new_sharded n mk) a < length (sh_shards (new_sharded n mk)))%nat).
    { unfold new_sharded, shard_of. cbn [sh_n sh_shards]. rewrite repeat_length. pose proof (in_range n a Hn). lia. }
    apply nth_error_get_shard in Hlt. apply nth_error_In in Hlt. unfold new_sharded in Hlt at 1. cbn [sh_shards] in Hlt.
    apply repeat_spec in Hlt. exact Hlt.
Qed.
