(** C11 -- small-step interleaving model of the two batching LevelDB persisters
    (leveldb/leveldb.go [DB], leveldb/leveldbSerial.go + serialActions.go [SerialDB]).
    Definitions only; lemmas are in PersistConc_proofs.v, property theorems in Props/C11.v.

    WHAT IS MODELLED.  Any number of user goroutines, each running a LIST of API calls
    (Put / Remove / Get / Has) one after the other, the timer goroutine [batchTimeoutHandle] and,
    for SerialDB, the goroutine [processLoop].  A call is a short program of ATOMIC ACTIONS; one
    action = one section of the code that is protected by [mutBatch] held exclusively, or one
    batch-internal critical section ([batch.Put], [IsRemoved], [batch.Get] -- they run under
    [mutBatch.RLock], which does NOT exclude other readers, so [IsRemoved ; batch.Get] are TWO actions
    between which Puts of other goroutines may run), or one goleveldb call ([db.Write], [db.Get],
    [db.Has]; goleveldb is internally synchronised -- each call is taken as atomic, the same
    stand-in as in Persist/Batch.v).  The RW-lock [mutBatch] is explicit state: [c_wl] is the
    goroutine holding it exclusively, [c_rl] the goroutines holding it shared; an action that
    needs the lock and cannot get it is BLOCKED (the step is a no-op, time still advances), so
    every schedule is total.  (Go's writer preference -- a waiting Lock() keeps new RLock()s out --
    only removes schedules; it is not modelled, the theorems cover the larger set.)

    The unbuffered channel [dbAccess]: a goroutine with a request is parked at [PGetDisk] /
    [PBEnq]; the schedule label [Serve a] is "processLoop receives a's request and executes it
    against LevelDB" -- ANY parked sender may be served next.  The loop then blocks in the
    request's result channel ([c_busy]) until the sender takes the answer.

    VARIANTS.  [VDb] and [VSerial] are the code as it is now (after the fix commits F11, F14).
    [VDbOld] (Get/Has read the batch without [mutBatch]) and [VSerialOld] (putBatch swaps the
    batch out BEFORE it is written and releases the lock) are the pre-fix code, kept only for the
    [_refuted] witnesses.

    NOT MODELLED: Close/Destroy, LevelDB errors, the Go memory model (each action is atomic and
    sequentially consistent: licensed by data-race freedom, which is validated under -race by the
    harness, not proved), real time (the timer may fire at any step). *)
From Coq Require Import List NArith ZArith Bool Lia PeanoNat.
From Verif Require Import Base.BStr Persist.Batch Persist.MapSpec Persist.PersistSpec.
Import ListNotations.
Open Scope Z_scope.

Inductive variant : Type := VDb | VSerial | VDbOld | VSerialOld.
Definition serial (v : variant) : bool := match v with VSerial | VSerialOld => true | _ => false end.
Definition old (v : variant) : bool := match v with VDbOld | VSerialOld => true | _ => false end.

Inductive call : Type :=
| CPut (k : key) (v : val)
| CRemove (k : key)
| CGet (k : key)
| CHas (k : key).

Definition ckey (c : call) : key :=
  match c with CPut k _ => k | CRemove k => k | CGet k => k | CHas k => k end.
Definition is_write (c : call) : bool := match c with CPut _ _ | CRemove _ => true | _ => false end.
Definition is_read (c : call) : bool := negb (is_write c).

Inductive agent : Type := Timer | User (i : nat).
Definition agent_eq_dec (a b : agent) : {a = b} + {a <> b}.
Proof. decide equality. apply Nat.eq_dec. Defined.

(** a schedule is a list of labels: [Step a] = goroutine a performs its next action;
    [Serve a] = processLoop serves the request goroutine a has parked in dbAccess *)
Inductive label : Type := Step (a : agent) | Serve (a : agent).

(** program counter of a goroutine inside its current call *)
Inductive pc : Type :=
| PIdle                         (* between calls *)
| PInc                          (* Put/Remove: batch mutated; next: updateBatchWithIncrement *)
| PGetMid                       (* Get/Has: RLock held, IsRemoved answered false; next: batch.Get *)
| PGetDisk                      (* Get/Has: batch missed; DB: next db.Get; SerialDB: getAct/hasAct parked in dbAccess *)
| PGetRecv (x : option bytes)   (* SerialDB: the loop has executed the request, blocked in resChan *)
| PBLock                        (* SerialDB.putBatch: next mutBatch.Lock() *)
| PBEnq (b : batch)             (* putBatchAct{b} parked in dbAccess (new code: Lock held) *)
| PBRecv                        (* the loop has written the batch, blocked in resChan *)
| PBFin.                        (* new code: answer taken; next: sizeBatch = 0; batch = NewBatch(); Unlock *)

(** the shared variables *)
Record core : Type := mkC {
  c_batch : batch;           (* s.batch (the object the pointer designates) *)
  c_disk : disk;             (* LevelDB *)
  c_size : Z;                (* s.sizeBatch *)
  c_wl : option agent;       (* mutBatch held exclusively by *)
  c_rl : list agent;         (* mutBatch held shared by *)
  c_busy : bool              (* processLoop is blocked in a result channel *)
}.

Definition set_batch (c : core) (b : batch) : core := mkC b (c_disk c) (c_size c) (c_wl c) (c_rl c) (c_busy c).
Definition set_disk (c : core) (d : disk) : core := mkC (c_batch c) d (c_size c) (c_wl c) (c_rl c) (c_busy c).
Definition set_size (c : core) (n : Z) : core := mkC (c_batch c) (c_disk c) n (c_wl c) (c_rl c) (c_busy c).
Definition set_wl (c : core) (w : option agent) : core := mkC (c_batch c) (c_disk c) (c_size c) w (c_rl c) (c_busy c).
Definition set_rl (c : core) (r : list agent) : core := mkC (c_batch c) (c_disk c) (c_size c) (c_wl c) r (c_busy c).
Definition set_busy (c : core) (b : bool) : core := mkC (c_batch c) (c_disk c) (c_size c) (c_wl c) (c_rl c) b.

(** RLock() succeeds iff nobody holds the lock exclusively; Lock() iff nobody holds it at all *)
Definition can_r (c : core) : bool := match c_wl c with None => true | Some _ => false end.
Definition can_w (c : core) : bool :=
  match c_wl c, c_rl c with None, [] => true | _, _ => false end.

(** DB, under Lock: putBatch(s.batch) ; s.batch.Reset() ; s.sizeBatch = 0 *)
Definition flush_now (c : core) : core :=
  set_size (set_batch (set_disk c (apply_log (b_log (c_batch c)) (c_disk c))) (batch_reset (c_batch c))) 0.

(** what a call answers for a register content [x] of its key *)
Definition to_ans (c : call) (x : option bytes) : answer :=
  match c with
  | CGet _ => match x with Some v => (ROk, Some v) | None => (RNotFound, None) end
  | CHas _ => match x with Some _ => (ROk, None) | None => (RNotFound, None) end
  | _ => (ROk, None)
  end.
Definition ans_ok : answer := (ROk, None).

Inductive outcome : Type :=
| Blocked
| Goto (c : core) (p : pc)
| Return (c : core) (r : answer).

(** one action of goroutine [a] (current call [cl]; [None] for the timer) at [p] *)
Definition act (v : variant) (max : Z) (a : agent) (cl : option call) (p : pc) (c : core) : outcome :=
  match p with
  | PIdle =>
      match cl with
      | None =>
          (* the timer fires *)
          if serial v then
            (* SerialDB: s.putBatch() -- same as PBLock below *)
            if can_w c then
              if old v then Goto (set_batch (set_size c 0) new_batch) (PBEnq (c_batch c))
              else Goto (set_wl c (Some a)) (PBEnq (c_batch c))
            else Blocked
          else
            (* DB: Lock ; putBatch ; Reset ; sizeBatch = 0 ; Unlock *)
            if can_w c then Return (flush_now c) ans_ok else Blocked
      | Some (CPut k x) =>
          (* RLock ; batch.Put ; RUnlock *)
          if can_r c then Goto (set_batch c (batch_put (c_batch c) k x)) PInc else Blocked
      | Some (CRemove k) =>
          (* Lock ; batch.Delete ; Unlock *)
          if can_w c then Goto (set_batch c (batch_delete (c_batch c) k)) PInc else Blocked
      | Some rd =>
          (* Get / Has.  new: RLock ; IsRemoved -> (RUnlock ; ErrKeyNotFound) | stay locked.
             VDbOld: the same without the lock *)
          if old v && negb (serial v) then
            if batch_is_removed (c_batch c) (ckey rd) then Return c (to_ans rd None) else Goto c PGetMid
          else if can_r c then
            if batch_is_removed (c_batch c) (ckey rd) then Return c (to_ans rd None)
            else Goto (set_rl c (a :: c_rl c)) PGetMid
          else Blocked
      end
  | PGetMid =>
      (* batch.Get ; RUnlock ; data != nil -> return data *)
      match cl with
      | None => Blocked
      | Some rd =>
          let c' := set_rl c (remove agent_eq_dec a (c_rl c)) in
          match batch_get (c_batch c) (ckey rd) with
          | Some data => Return c' (to_ans rd (Some data))
          | None => Goto c' PGetDisk
          end
      end
  | PGetDisk =>
      match cl with
      | None => Blocked
      | Some rd =>
          if serial v then Blocked   (* parked in dbAccess: only [Serve] moves it *)
          else Return c (to_ans rd (dget (ckey rd) (c_disk c)))   (* db.Get / db.Has *)
      end
  | PGetRecv x =>
      match cl with
      | None => Blocked
      | Some rd => Return (set_busy c false) (to_ans rd x)
      end
  | PInc =>
      (* updateBatchWithIncrement *)
      if can_w c then
        let c1 := set_size c (c_size c + 1) in
        if c_size c1 <? max then Return c1 ans_ok
        else if serial v then Goto c1 PBLock   (* Unlock ; putBatch() *)
        else Return (flush_now c1) ans_ok      (* putBatch ; Reset ; sizeBatch = 0 under the same Lock *)
      else Blocked
  | PBLock =>
      if can_w c then
        if old v then
          (* Lock ; dbBatch = s.batch ; sizeBatch = 0 ; s.batch = NewBatch() ; Unlock *)
          Goto (set_batch (set_size c 0) new_batch) (PBEnq (c_batch c))
        else
          (* Lock (kept) ; dbBatch = s.batch *)
          Goto (set_wl c (Some a)) (PBEnq (c_batch c))
      else Blocked
  | PBEnq _ => Blocked   (* parked in dbAccess *)
  | PBRecv =>
      if old v then Return (set_busy c false) ans_ok
      else Goto (set_busy c false) PBFin
  | PBFin =>
      (* sizeBatch = 0 ; s.batch = NewBatch() ; Unlock *)
      Return (set_wl (set_batch (set_size c 0) new_batch) None) ans_ok
  end.

(** processLoop receives the request goroutine [a] has parked and executes it *)
Definition serve (v : variant) (a : agent) (cl : option call) (p : pc) (c : core) : outcome :=
  if negb (serial v) || c_busy c then Blocked
  else match p with
       | PGetDisk =>
           match cl with
           | Some rd => Goto (set_busy c true) (PGetRecv (dget (ckey rd) (c_disk c)))
           | None => Blocked
           end
       | PBEnq b => Goto (set_busy (set_disk c (apply_log (b_log b) (c_disk c))) true) PBRecv
       | _ => Blocked
       end.

(** ---- histories ---- *)
Inductive ev : Type :=
| EvCall (a : agent) (c : call)                            (* invocation (stamped at the call's first effective action) *)
| EvLin (a : agent) (c : call)                             (* the batch mutation of a Put / Remove *)
| EvRet (a : agent) (c : call) (tcall : nat) (r : answer). (* response; carries the time of its invocation *)

Definition trace := list (nat * ev).   (* newest first *)

Record uthread : Type := mkU { u_todo : list call; u_pc : pc; u_tcall : nat }.

Record st : Type := mkS {
  g_core : core;
  g_timer : pc;
  g_users : list uthread;
  g_now : nat;
  g_trace : trace
}.

Fixpoint upd_nth {A} (l : list A) (i : nat) (x : A) : list A :=
  match l, i with
  | [], _ => []
  | _ :: r, O => x :: r
  | y :: r, S j => y :: upd_nth r j x
  end.

Definition is_idle (p : pc) : bool := match p with PIdle => true | _ => false end.

Definition start_events (n : nat) (a : agent) (p : pc) (cl : call) : trace :=
  if is_idle p then (if is_write cl then [(n, EvLin a cl)] else []) ++ [(n, EvCall a cl)] else [].

Definition tick (s : st) : st := mkS (g_core s) (g_timer s) (g_users s) (S (g_now s)) (g_trace s).

Definition outcome_of (v : variant) (max : Z) (l : label) (cl : option call) (p : pc) (c : core) : outcome :=
  match l with
  | Step a => act v max a cl p c
  | Serve a => serve v a cl p c
  end.
Definition label_agent (l : label) : agent := match l with Step a => a | Serve a => a end.

(** one step of the schedule; the action of step number n (1-based) is stamped n *)
Definition step (v : variant) (max : Z) (s : st) (l : label) : st :=
  let n := S (g_now s) in
  match label_agent l with
  | Timer =>
      match outcome_of v max l None (g_timer s) (g_core s) with
      | Blocked => tick s
      | Goto c p => mkS c p (g_users s) n (g_trace s)
      | Return c _ => mkS c PIdle (g_users s) n (g_trace s)
      end
  | User i =>
      match nth_error (g_users s) i with
      | None => tick s
      | Some u =>
          match u_todo u with
          | [] => tick s
          | cl :: rest =>
              let tc := if is_idle (u_pc u) then n else u_tcall u in
              match outcome_of v max l (Some cl) (u_pc u) (g_core s) with
              | Blocked => tick s
              | Goto c p =>
                  mkS c (g_timer s) (upd_nth (g_users s) i (mkU (cl :: rest) p tc)) n
                      (start_events n (User i) (u_pc u) cl ++ g_trace s)
              | Return c r =>
                  mkS c (g_timer s) (upd_nth (g_users s) i (mkU rest PIdle 0)) n
                      ((n, EvRet (User i) cl tc r) :: start_events n (User i) (u_pc u) cl ++ g_trace s)
              end
          end
      end
  end.

Definition init_core (d0 : disk) : core := mkC new_batch d0 0 None [] false.
Definition init_st (d0 : disk) (progs : list (list call)) : st :=
  mkS (init_core d0) PIdle (map (fun p => mkU p PIdle 0) progs) 0 [].

(** [run v max d0 progs sched]: persister variant, MaxBatchSize, initial LevelDB content,
    one program per user goroutine, schedule *)
Definition run (v : variant) (max : Z) (d0 : disk) (progs : list (list call)) (sched : list label) : st :=
  fold_left (step v max) sched (init_st d0 progs).

(** ---- the abstract register, defined from the history alone ----
    it changes exactly at the [EvLin] events (the batch mutation of each Put / Remove) *)
Definition apply_ev (e : ev) (m : mapspec) : mapspec :=
  match e with
  | EvLin _ (CPut k x) => m_put m k x
  | EvLin _ (CRemove k) => m_remove m k
  | _ => m
  end.

(** the register after the action of instant [t] ([m0] = content at instant 0) *)
Fixpoint reg_at (m0 : mapspec) (tr : trace) (t : nat) : mapspec :=
  match tr with
  | [] => m0
  | (t', e) :: r => if (t' <=? t)%nat then apply_ev e (reg_at m0 r t) else reg_at m0 r t
  end.

(** what the code's state presents as the register *)
Definition abs (c : core) : mapspec := batch_abs (c_batch c) (c_disk c).

(** ---- the property: every completed read returned what the register held at some
    instant between its invocation and its response ---- *)
Definition read_ok (m0 : mapspec) (tr : trace) (e : nat * ev) : Prop :=
  match e with
  | (tret, EvRet a c tc r) =>
      is_read c = true ->
      exists t, (tc <= t <= tret)%nat /\ r = to_ans c (reg_at m0 tr t (ckey c))
  | _ => True
  end.
Definition lin_reads (m0 : mapspec) (tr : trace) : Prop := forall e, In e tr -> read_ok m0 tr e.

(** every response has its invocation, at or before it, by the same goroutine; a write has its
    linearization point -- at its invocation instant -- and answers nil *)
Definition ret_wf (tr : trace) (e : nat * ev) : Prop :=
  match e with
  | (tret, EvRet a c tc r) =>
      (1 <= tc <= tret)%nat /\ In (tc, EvCall a c) tr
      /\ (is_write c = true -> In (tc, EvLin a c) tr /\ r = ans_ok)
  | (t, EvLin a c) => is_write c = true /\ In (t, EvCall a c) tr
  | _ => True
  end.
Definition wf_history (tr : trace) : Prop := forall e, In e tr -> ret_wf tr e.

(** executable twin of [lin_reads] *)
Definition rclass_eqb (a b : rclass) : bool :=
  match a, b with ROk, ROk | RNotFound, RNotFound | RClosed, RClosed | ROther, ROther => true | _, _ => false end.
Definition obytes_eqb (a b : option bytes) : bool :=
  match a, b with None, None => true | Some x, Some y => beqb x y | _, _ => false end.
Definition answer_eqb (a b : answer) : bool := rclass_eqb (fst a) (fst b) && obytes_eqb (snd a) (snd b).

Definition read_okb (m0 : mapspec) (tr : trace) (e : nat * ev) : bool :=
  match e with
  | (tret, EvRet a c tc r) =>
      if is_read c then
        existsb (fun t => answer_eqb r (to_ans c (reg_at m0 tr t (ckey c)))) (seq tc (S tret - tc))
      else true
  | _ => true
  end.
Definition lin_readsb (m0 : mapspec) (tr : trace) : bool := forallb (read_okb m0 tr) tr.

(** all user goroutines have finished their programs, the timer is idle *)
Definition quiescent (s : st) : bool :=
  is_idle (g_timer s) && forallb (fun u => match u_todo u with [] => true | _ => false end) (g_users s).

(** the last write to [k] linearised at or before [t]: (its instant, the call) *)
Fixpoint last_write (tr : trace) (t : nat) (k : key) : option (nat * call) :=
  match tr with
  | [] => None
  | (t', EvLin _ c) :: r =>
      if (t' <=? t)%nat && is_write c && beqb k (ckey c) then Some (t', c) else last_write r t k
  | _ :: r => last_write r t k
  end.
Definition write_value (c : call) : option bytes :=
  match c with CPut _ x => Some (val_bytes x) | _ => None end.
Definition value_of (m0 : mapspec) (k : key) (w : option (nat * call)) : option bytes :=
  match w with Some (_, c) => write_value c | None => m0 k end.
Definition wtime (w : option (nat * call)) : nat := match w with Some (t, _) => t | None => O end.
