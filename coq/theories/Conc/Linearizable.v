(** C11 -- linearizability in the classical sense (Herlihy & Wing) of the histories produced by
    Conc/PersistConc.v, against the sequential map specification [spec_run] of Persist/MapSpec.v.
    Definitions only; proofs in Linearizable_proofs.v.

    A history is linearizable iff its operations -- all completed ones, and those pending ones
    that are kept -- can be arranged in ONE sequence that (1) is a permutation of them, (2) is
    legal for the sequential specification: every operation answers what [spec_run] answers at
    its place, (3) keeps the real-time order: an operation that returned before another was
    invoked comes first. *)
From Coq Require Import List NArith ZArith Bool Lia PeanoNat Permutation.
From Verif Require Import Base.BStr Persist.Batch Persist.MapSpec Persist.PersistSpec Conc.PersistConc.
Import ListNotations.

(** one operation of a history: what was asked, when it was invoked, when it returned
    ([None] = still pending), what it answered *)
Record opr : Type := mkO { o_op : op; o_inv : nat; o_res : option nat; o_ans : answer }.

Definition precedes (x y : opr) : Prop :=
  match o_res x with Some r => (r < o_inv y)%nat | None => False end.

Definition seq_legal (m0 : mapspec) (S : list opr) : Prop :=
  snd (spec_run m0 (map o_op S)) = map o_ans S.

Definition linearization (m0 : mapspec) (H S : list opr) : Prop :=
  Permutation S H /\ seq_legal m0 S
  /\ forall i j x y, nth_error S i = Some x -> nth_error S j = Some y -> precedes x y -> (i < j)%nat.

Definition linearizable (m0 : mapspec) (H : list opr) : Prop := exists S, linearization m0 H S.

(** ---- the operations of a trace ---- *)
Definition op_of (c : call) : op :=
  match c with CPut k x => OPut k x | CRemove k => ORemove k | CGet k => OGet k | CHas k => OHas k end.

Definition agent_eqb (a b : agent) : bool := if agent_eq_dec a b then true else false.

(** when the call goroutine [a] started at [tc] returned, if it has *)
Definition ret_time (tr : trace) (a : agent) (tc : nat) : option nat :=
  match find (fun e => match e with
                       | (_, EvRet a' _ tc' _) => agent_eqb a a' && (tc =? tc')%nat
                       | _ => false
                       end) tr with
  | Some (t, _) => Some t
  | None => None
  end.

(** the writes that have taken effect (completed or still pending), in chronological order, each
    with the instant of its batch mutation; a write is invoked at that instant *)
Fixpoint write_ops (full tr : trace) : list (nat * opr) :=
  match tr with
  | [] => []
  | (t, EvLin a c) :: r => write_ops full r ++ [(t, mkO (op_of c) t (ret_time full a t) ans_ok)]
  | _ :: r => write_ops full r
  end.

(** the completed reads, each with an instant chosen by [w] *)
Fixpoint read_ops (w : nat * ev -> nat) (tr : trace) : list (nat * opr) :=
  match tr with
  | [] => []
  | (t, EvRet a c tc ans) :: r =>
      if is_read c then (w (t, EvRet a c tc ans), mkO (op_of c) tc (Some t) ans) :: read_ops w r
      else read_ops w r
  | _ :: r => read_ops w r
  end.

(** the history: every write that has reached its batch mutation and every completed read
    (pending reads are dropped, as the definition of linearizability allows) *)
Definition history_ops (tr : trace) : list opr :=
  map snd (write_ops tr tr) ++ map snd (read_ops (fun _ => O) tr).

(** the linearization order exhibited: instant by instant, the write linearised at that instant
    (its batch mutation), then the reads whose chosen instant it is *)
Definition bucket (P : list (nat * opr)) (t : nat) : list (nat * opr) := filter (fun x => (fst x =? t)%nat) P.
Definition buckets (P : list (nat * opr)) (a len : nat) : list (nat * opr) := flat_map (bucket P) (seq a len).
