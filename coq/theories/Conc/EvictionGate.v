(** txcache/eviction.go, [doEviction]: the protocol that keeps evictions from running concurrently — an unlocked
    look at the flag [isEvictionInProgress] and at the capacity, then [evictionMutex], the flag set, the capacity
    looked at again under the mutex, the eviction, and the two deferred calls (Reset of the flag, then Unlock: defers
    run last-in first-out).  Small-step model: any number of threads, each running doEviction once, interleaved by an
    arbitrary schedule; what [isCapacityExceeded] answers is an arbitrary boolean supplied with each step (the pool
    changes under the feet of the protocol).  Definitions only. *)
From Coq Require Import List Arith Bool.
Import ListNotations.

Inductive pc : Type :=
| PFlag      (* if cache.isEvictionInProgress.IsSet() { return nil } *)
| PCap       (* if !cache.isCapacityExceeded() { return nil } *)
| PLock      (* cache.evictionMutex.Lock() *)
| PSet       (* cache.isEvictionInProgress.SetReturningPrevious() *)
| PCap2      (* if !cache.isCapacityExceeded() { return nil }  (deferred calls run) *)
| PEvict     (* evictLeastLikelyToSelectTransactions() *)
| PReset     (* deferred: cache.isEvictionInProgress.Reset() *)
| PUnlock    (* deferred: cache.evictionMutex.Unlock() *)
| PDone.

Record gate := mkGate { flag : bool; mtx : bool; pcs : list pc; evictions : nat (* completed runs of PEvict *) }.

Fixpoint set_pc (l : list pc) (i : nat) (p : pc) : list pc :=
  match l, i with
  | [], _ => []
  | _ :: r, O => p :: r
  | x :: r, S j => x :: set_pc r j p
  end.

(** one step of thread [i]; [exceeded] is what isCapacityExceeded() answers if this step asks.  A thread that
    cannot move (waiting for the mutex, finished, unknown index) leaves the state unchanged. *)
Definition gstep (variant_reset_late : bool) (s : gate) (ie : nat * bool) : gate :=
  let '(i, exceeded) := ie in
  match nth_error (pcs s) i with
  | None => s
  | Some p =>
      let go q := mkGate (flag s) (mtx s) (set_pc (pcs s) i q) (evictions s) in
      match p with
      | PFlag => if flag s then go PDone else go PCap
      | PCap => if exceeded then go PLock else go PDone
      | PLock => if mtx s then s else mkGate (flag s) true (set_pc (pcs s) i PSet) (evictions s)
      | PSet => mkGate true (mtx s) (set_pc (pcs s) i PCap2) (evictions s)
      | PCap2 => if exceeded then go PEvict
                 else if variant_reset_late then go PUnlock   (* the seeded variant: Reset deferred only after this test *)
                 else go PReset
      | PEvict => mkGate (flag s) (mtx s) (set_pc (pcs s) i PReset) (S (evictions s))
      | PReset => mkGate false (mtx s) (set_pc (pcs s) i PUnlock) (evictions s)
      | PUnlock => mkGate (flag s) false (set_pc (pcs s) i PDone) (evictions s)
      | PDone => s
      end
  end.

Definition ginit (n : nat) : gate := mkGate false false (repeat PFlag n) 0.
Definition grun (v : bool) (n : nat) (sched : list (nat * bool)) : gate := fold_left (gstep v) sched (ginit n).

Definition holds_mutex (p : pc) : bool :=
  match p with PSet | PCap2 | PEvict | PReset | PUnlock => true | _ => false end.
Definition flag_owner (p : pc) : bool :=
  match p with PCap2 | PEvict | PReset => true | _ => false end.
Definition count (f : pc -> bool) (l : list pc) : nat := length (filter f l).
Definition gate_all_done (s : gate) : bool := forallb (fun p => match p with PDone => true | _ => false end) (pcs s).
