(** Conc/ImmunityConc.v — the immunity cache under concurrent use (C14, part d). Definitions only.

    Coarse view: every public operation of Immunity/Cache.v ([step]) is one atomic action.
    That is exact for HasOrAdd / Put / AddTx, Remove and Clear (one critical section of one chunk,
    resp. of the cache mutex).  ImmunizeKeys is NOT one critical section in the code
    (immunitycache/cache.go:62-83): it reads CountImmune() chunk by chunk (the capacity gate), then
    calls chunk.ImmunizeKeys(group) for each chunk, each under that chunk's mutex only.

    Fine view: the atomic actions are the coarse operations plus [FImmGroup ks] = the per-chunk
    section of an ImmunizeKeys call whose gate was evaluated EARLIER (possibly on a stale count):
    the keys are marked without a gate.  A concurrent ImmunizeKeys(keys) is the action list
    [FImmGroup g1; ...; FImmGroup gn] (the groups, in any order) when the gate let it through and
    the empty list when it did not. *)
From Coq Require Import List NArith ZArith Bool.
From Verif Require Import Base.BStr Immunity.Chunk Immunity.Cache.
Import ListNotations.

Inductive fact : Type :=
| FOp (o : op)                  (* HasOrAdd/Put/AddTx, Remove, Clear, (gated, atomic) ImmunizeKeys *)
| FImmGroup (ks : list bytes).  (* chunk.ImmunizeKeys(group), no gate *)

(** the ungated marking (= [Cache_proofs.immunized_cache]) *)
Definition mark_keys (s : cache) (ks : list bytes) : cache :=
  mkCache (ca_cfg s) (fst (fst (immunize_chunks (ca_cfg s) ks 0 (ca_chunks s)))).

Definition fstep (s : cache) (a : fact) : cache :=
  match a with
  | FOp o => step s o
  | FImmGroup ks => mark_keys s ks
  end.

Definition frun (cfg : cache_cfg) (l : list fact) : cache := fold_left fstep l (new_cache cfg).

Definition fact_ok (a : fact) : Prop := match a with FOp (OAdd _ _ sz) => (0 <= sz)%Z | _ => True end.

(** the action neither removes [k] nor clears *)
Definition fno_withdraw (k : bytes) (a : fact) : Prop :=
  match a with FOp o => o <> OClear /\ o <> ORemove k | FImmGroup _ => True end.
