(** Conc/ImmunityConc_proofs.v — immunity and bounds at every instant of every concurrent execution. *)
From Coq Require Import List NArith ZArith Lia Bool Permutation.
From Verif Require Import Base.BStr Immunity.Chunk Immunity.Cache Immunity.Chunk_proofs Immunity.Cache_proofs
  Immunity.Immunity_proofs Conc.Atomic Conc.Atomic_proofs Conc.ImmunityConc.
Import ListNotations.

(** ---------- coarse view: corollaries of the sequential theorems (C12 / C13) ---------- *)

Lemma Forall_app_inv {A} (P : A -> Prop) a b : Forall P (a ++ b) -> Forall P a /\ Forall P b.
Proof. intros H. rewrite Forall_app in H. exact H. Qed.

Lemma conc_history_ok cfg ths sched :
  Forall (Forall op_ok) ths -> Forall op_ok (conc_history step sched (new_cache cfg) ths).
Proof.
  intros HQ. apply Forall_forall. intros a Ha. destruct (conc_history_in _ _ step _ _ _ _ Ha) as (th & Hth & Hin).
  rewrite Forall_forall in HQ. specialize (HQ _ Hth). rewrite Forall_forall in HQ. exact (HQ _ Hin).
Qed.

Lemma conc_state_run cfg ths sched :
  conc_state step sched (new_cache cfg) ths = run cfg (conc_history step sched (new_cache cfg) ths).
Proof. apply conc_is_sequential. Qed.

(** the C13 bound at every instant of every concurrent execution *)
Lemma coarse_bound cfg ths sched : cfg_valid cfg = true -> Forall (Forall op_ok) ths ->
  (cache_count (conc_state step sched (new_cache cfg) ths) <= cf_maxItems cfg)%N.
Proof.
  intros Hv Hok. rewrite conc_state_run.
  destruct (h_bound cfg _ Hv (conc_history_ok cfg ths sched Hok)) as (H1 & H2). lia.
Qed.

(** the mempool-wide invariant of C12 at every instant *)
Lemma coarse_inv cfg ths sched : cfg_valid cfg = true -> Forall (Forall op_ok) ths ->
  cache_inv (conc_state step sched (new_cache cfg) ths).
Proof. intros Hv Hok. rewrite conc_state_run. apply run_inv; [exact Hv|apply conc_history_ok; exact Hok]. Qed.

(** survival: whatever the interleaving, if its history reads  ops1 ++ ImmunizeKeys ks :: ops3  with
    the call accepted, k in ks present with payload q at that point, and no Remove k / Clear in ops3,
    then Get k = q in the state reached *)
Lemma coarse_survive_present cfg ths sched ops1 ks ops3 k q :
  cfg_valid cfg = true -> Forall (Forall op_ok) ths ->
  conc_history step sched (new_cache cfg) ths = ops1 ++ OImmunize ks :: ops3 ->
  accepted (run cfg ops1) ks -> In k ks -> cache_get (run cfg ops1) k = Some q ->
  Forall (no_withdraw k) ops3 ->
  cache_get (conc_state step sched (new_cache cfg) ths) k = Some q.
Proof.
  intros Hv Hok Eh Hacc Hin Hg Hnw. pose proof (conc_history_ok cfg ths sched Hok) as Hh.
  rewrite conc_state_run, Eh. rewrite Eh in Hh. apply Forall_app_inv in Hh. destruct Hh as (H1 & H3).
  inversion H3; subst. apply survives_present; assumption.
Qed.

Lemma coarse_survive_later cfg ths sched ops1 ks ops2 k p sz ops3 :
  cfg_valid cfg = true -> Forall (Forall op_ok) ths ->
  conc_history step sched (new_cache cfg) ths = ops1 ++ OImmunize ks :: ops2 ++ OAdd k p sz :: ops3 ->
  accepted (run cfg ops1) ks -> In k ks -> Forall (no_withdraw k) ops2 ->
  add_added (run cfg (ops1 ++ OImmunize ks :: ops2)) k p sz = true ->
  Forall (no_withdraw k) ops3 ->
  cache_get (conc_state step sched (new_cache cfg) ths) k = Some p.
Proof.
  intros Hv Hok Eh Hacc Hin Hnw2 Hadd Hnw3. pose proof (conc_history_ok cfg ths sched Hok) as Hh.
  rewrite conc_state_run, Eh. rewrite Eh in Hh. apply Forall_app_inv in Hh. destruct Hh as (H1 & H3).
  inversion H3 as [|? ? _ H4]; subst. apply Forall_app_inv in H4. destruct H4 as (H2 & H5).
  inversion H5 as [|? ? Hsz H6]; subst. apply survives_later; assumption.
Qed.

(** ---------- fine view: ImmunizeKeys split into its per-chunk sections, gate possibly stale ---------- *)

Lemma mark_keys_eq s ks : mark_keys s ks = immunized_cache s ks.
Proof. reflexivity. Qed.

Lemma fstep_inv s a : cache_inv s -> fact_ok a -> cache_inv (fstep s a).
Proof.
  intros Hinv Hok. destruct a as [o|ks]; simpl.
  - apply step_inv; [exact Hinv|]. destruct o; simpl in *; auto.
  - rewrite mark_keys_eq. apply immunized_cache_inv. exact Hinv.
Qed.

Lemma fold_fstep_inv l : forall s, cache_inv s -> Forall fact_ok l -> cache_inv (fold_left fstep l s).
Proof.
  induction l as [|a l IH]; intros s Hinv Hok; [exact Hinv|]. inversion Hok; subst. simpl. apply IH; [|assumption].
  apply fstep_inv; assumption.
Qed.

Lemma fold_fstep_cfg l : forall s, ca_cfg (fold_left fstep l s) = ca_cfg s.
Proof.
  induction l as [|a l IH]; intros s; [reflexivity|]. simpl. rewrite IH. destruct a as [o|ks]; simpl; [apply step_cfg|reflexivity].
Qed.

Lemma frun_inv cfg l : cfg_valid cfg = true -> Forall fact_ok l -> cache_inv (frun cfg l).
Proof. intros Hv Hok. apply fold_fstep_inv; [apply new_cache_inv; exact Hv|exact Hok]. Qed.

Lemma frun_bound cfg l : cfg_valid cfg = true -> Forall fact_ok l -> (cache_count (frun cfg l) <= cf_maxItems cfg)%N.
Proof.
  intros Hv Hok. pose proof (cache_count_bound _ (frun_inv cfg l Hv Hok)) as H.
  unfold frun in H at 2 3 4. rewrite fold_fstep_cfg in H. simpl in H.
  pose proof (cfg_valid_nc _ Hv). pose proof (N.mul_div_le (cf_maxItems cfg) (cf_numChunks cfg)). lia.
Qed.

(** per chunk too: no chunk ever holds more than its share *)
Lemma frun_chunk_bound cfg l i : cfg_valid cfg = true -> Forall fact_ok l -> (i < length (ca_chunks (frun cfg l)))%nat ->
  (chunk_count (get_chunk (frun cfg l) i) <= cf_maxItems cfg / cf_numChunks cfg)%N.
Proof.
  intros Hv Hok Hi. pose proof (frun_inv cfg l Hv Hok) as Hinv.
  destruct (cv_chunks _ Hinv _ Hi) as [Hc Hcfg]. pose proof (ci_count _ _ Hc) as Hb.
  rewrite Hcfg in Hb. unfold frun in Hb at 2. rewrite fold_fstep_cfg in Hb. unfold chunk_config in Hb. simpl in Hb.
  pose proof (cfg_valid_nc _ Hv). rewrite N.max_l in Hb by lia. exact Hb.
Qed.

Lemma fsurvive_step s a k q : cache_inv s -> fno_withdraw k a ->
  In k (cache_immune_keys s) -> cache_get s k = Some q ->
  In k (cache_immune_keys (fstep s a)) /\ cache_get (fstep s a) k = Some q.
Proof.
  intros Hinv Hnw Himm Hg. destruct a as [o|ks]; simpl.
  - apply survive_step; assumption.
  - rewrite mark_keys_eq. split; [apply immunized_immune; [exact Hinv|left; exact Himm]|rewrite immunized_get by exact Hinv; exact Hg].
Qed.

Lemma fsurvive_run l : forall s k q, cache_inv s -> Forall fact_ok l -> Forall (fno_withdraw k) l ->
  In k (cache_immune_keys s) -> cache_get s k = Some q ->
  In k (cache_immune_keys (fold_left fstep l s)) /\ cache_get (fold_left fstep l s) k = Some q.
Proof.
  induction l as [|a l IH]; intros s k q Hinv Hok Hnw Himm Hg; [split; assumption|].
  inversion Hok; subst. inversion Hnw; subst. simpl.
  destruct (fsurvive_step s a k q Hinv H3 Himm Hg) as (A & B). apply IH; auto. apply fstep_inv; assumption.
Qed.

Lemma fimmune_stays_step s a k : cache_inv s -> fno_withdraw k a -> In k (cache_immune_keys s) -> In k (cache_immune_keys (fstep s a)).
Proof.
  intros Hinv Hnw Himm. destruct a as [o|ks]; simpl.
  - apply immune_stays_step; assumption.
  - rewrite mark_keys_eq. apply immunized_immune; [exact Hinv|left; exact Himm].
Qed.

Lemma fimmune_stays_run l : forall s k, cache_inv s -> Forall fact_ok l -> Forall (fno_withdraw k) l ->
  In k (cache_immune_keys s) -> In k (cache_immune_keys (fold_left fstep l s)).
Proof.
  induction l as [|a l IH]; intros s k Hinv Hok Hnw Himm; [assumption|].
  inversion Hok; subst. inversion Hnw; subst. simpl. apply IH; auto; [apply fstep_inv; assumption|apply fimmune_stays_step; assumption].
Qed.

(** a per-chunk section marks its keys *)
Lemma fmark_immune s ks k : cache_inv s -> In k ks -> In k (cache_immune_keys (fstep s (FImmGroup ks))).
Proof. intros Hinv Hin. simpl. rewrite mark_keys_eq. apply immunized_immune; [exact Hinv|right; exact Hin]. Qed.

(** fine-grained survival, item present when its chunk section runs:
    history = l1 ++ FImmGroup ks :: l3, k in ks, Get k = q after l1, no Remove k / Clear in l3 *)
Lemma fine_survive_present cfg l1 ks l3 k q :
  cfg_valid cfg = true -> Forall fact_ok l1 -> Forall fact_ok l3 -> In k ks ->
  cache_get (frun cfg l1) k = Some q -> Forall (fno_withdraw k) l3 ->
  cache_get (frun cfg (l1 ++ FImmGroup ks :: l3)) k = Some q.
Proof.
  intros Hv H1 H3 Hin Hg Hnw. unfold frun. rewrite fold_left_app. simpl. fold (frun cfg l1).
  pose proof (frun_inv cfg l1 Hv H1) as Hinv.
  apply fsurvive_run; auto.
  - rewrite mark_keys_eq. apply immunized_cache_inv. exact Hinv.
  - apply (fmark_immune (frun cfg l1)); assumption.
  - rewrite mark_keys_eq, immunized_get by exact Hinv. exact Hg.
Qed.

(** fine-grained survival, future immunity: the key is marked, later an add stores payload p under it *)
Lemma fine_survive_later cfg l1 ks l2 k p sz l3 :
  cfg_valid cfg = true -> Forall fact_ok l1 -> Forall fact_ok l2 -> Forall fact_ok l3 -> (0 <= sz)%Z -> In k ks ->
  Forall (fno_withdraw k) l2 ->
  add_added (frun cfg (l1 ++ FImmGroup ks :: l2)) k p sz = true ->
  Forall (fno_withdraw k) l3 ->
  cache_get (frun cfg (l1 ++ FImmGroup ks :: l2 ++ FOp (OAdd k p sz) :: l3)) k = Some p.
Proof.
  intros Hv H1 H2 H3 Hsz Hin Hnw2 Hadd Hnw3.
  assert (Hok12 : Forall fact_ok (l1 ++ FImmGroup ks :: l2)).
  { apply Forall_app. split; [exact H1|constructor; [exact I|exact H2]]. }
  pose proof (frun_inv cfg _ Hv Hok12) as Hinv2.
  assert (Himm2 : In k (cache_immune_keys (frun cfg (l1 ++ FImmGroup ks :: l2)))).
  { unfold frun. rewrite fold_left_app. simpl. fold (frun cfg l1). pose proof (frun_inv cfg l1 Hv H1) as Hinv1.
    apply fimmune_stays_run; auto.
    - rewrite mark_keys_eq. apply immunized_cache_inv. exact Hinv1.
    - apply (fmark_immune (frun cfg l1)); assumption. }
  replace (l1 ++ FImmGroup ks :: l2 ++ FOp (OAdd k p sz) :: l3) with ((l1 ++ FImmGroup ks :: l2) ++ FOp (OAdd k p sz) :: l3)
    by (rewrite <- app_assoc; reflexivity).
  unfold frun. rewrite fold_left_app. fold (frun cfg (l1 ++ FImmGroup ks :: l2)). cbn [fold_left fstep]. rewrite step_add.
  apply fsurvive_run; auto.
  - rewrite <- step_add. apply step_inv; [exact Hinv2|exact Hsz].
  - rewrite add_immune_keys; assumption.
  - apply add_added_get; assumption.
Qed.

(** lifted to concurrent executions over fine-grained threads *)
Lemma fine_state_run cfg ths sched :
  conc_state fstep sched (new_cache cfg) ths = frun cfg (conc_history fstep sched (new_cache cfg) ths).
Proof. apply conc_is_sequential. Qed.

Lemma fine_history_ok cfg ths sched :
  Forall (Forall fact_ok) ths -> Forall fact_ok (conc_history fstep sched (new_cache cfg) ths).
Proof.
  intros HQ. apply Forall_forall. intros a Ha. destruct (conc_history_in _ _ fstep _ _ _ _ Ha) as (th & Hth & Hin).
  rewrite Forall_forall in HQ. specialize (HQ _ Hth). rewrite Forall_forall in HQ. exact (HQ _ Hin).
Qed.

Lemma fine_bound_every_instant cfg ths sched : cfg_valid cfg = true -> Forall (Forall fact_ok) ths ->
  (cache_count (conc_state fstep sched (new_cache cfg) ths) <= cf_maxItems cfg)%N /\
  cache_inv (conc_state fstep sched (new_cache cfg) ths).
Proof.
  intros Hv Hok. rewrite fine_state_run. pose proof (fine_history_ok cfg ths sched Hok) as Hh.
  split; [apply frun_bound; assumption|apply frun_inv; assumption].
Qed.

(** once immune and present at the instant reached by [s1], still present with the same payload at
    every later instant [s1 ++ s2], as long as what ran in between neither removes k nor clears *)
Lemma fine_survive_every_instant cfg ths s1 s2 k q between :
  cfg_valid cfg = true -> Forall (Forall fact_ok) ths ->
  conc_history fstep (s1 ++ s2) (new_cache cfg) ths = conc_history fstep s1 (new_cache cfg) ths ++ between ->
  Forall (fno_withdraw k) between ->
  In k (cache_immune_keys (conc_state fstep s1 (new_cache cfg) ths)) ->
  cache_get (conc_state fstep s1 (new_cache cfg) ths) k = Some q ->
  In k (cache_immune_keys (conc_state fstep (s1 ++ s2) (new_cache cfg) ths)) /\
  cache_get (conc_state fstep (s1 ++ s2) (new_cache cfg) ths) k = Some q.
Proof.
  intros Hv Hok Eh Hnw Himm Hg. rewrite !fine_state_run in *. rewrite Eh. unfold frun. rewrite fold_left_app.
  fold (frun cfg (conc_history fstep s1 (new_cache cfg) ths)).
  pose proof (fine_history_ok cfg ths (s1 ++ s2) Hok) as Hh. rewrite Eh in Hh. apply Forall_app_inv in Hh. destruct Hh as (Hh1 & Hh2).
  apply fsurvive_run; auto. apply frun_inv; assumption.
Qed.

(** the capacity gate of ImmunizeKeys is check-then-act: with a stale gate the immune set can exceed
    MaxNumItems (two accepted calls of 3 keys each on a cache of 4): a documented limit of the
    sequential statement C13_immune_count under concurrency, not part of C14's text *)
Definition gate_cfg : cache_cfg := mkCfg 1 4 100 1.
Lemma stale_gate_exceeds :
  cfg_valid gate_cfg = true /\
  immunize_refused (new_cache gate_cfg) [[1%N]; [2%N]; [3%N]] = false /\
  immunize_refused (new_cache gate_cfg) [[4%N]; [5%N]; [6%N]] = false /\
  cache_count_immune (frun gate_cfg [FImmGroup [[1%N]; [2%N]; [3%N]]; FImmGroup [[4%N]; [5%N]; [6%N]]]) = 6%N.
Proof. vm_compute. repeat split; reflexivity. Qed.
