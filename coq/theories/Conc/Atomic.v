(** Conc/Atomic.v — interleaving models for C14. Definitions only.

    1. [Sched]: a generic scheduler.  A concurrent system is a shared state [G], a list of
       threads with a thread-local state [L], and a function [tstep] giving the next ATOMIC step of
       a thread ([None] = the thread has finished).  A schedule is an ARBITRARY list of thread
       identifiers; scheduling a finished (or non-existent) thread is a no-op.
    2. [Interleave]: the instance where every thread is a list of atomic actions of one sequential
       state machine [step : S -> A -> S] (every public operation = ONE critical section under ONE
       mutex).  The run records the trace (who did what, in which order).
    3. The hash index of the mempool with its two atomic counters (txcache/txByHashMap.go):
       the map mutation (under the chunk lock of maps.ConcurrentMap) and each counter update are
       SEPARATE atomic steps of the calling thread. *)
From Coq Require Import List NArith ZArith Bool.
From Verif Require Import Base.BStr Txcache.TxTypes Txcache.SenderList Txcache.Selection Txcache.Pool.
Import ListNotations.

(** ---------- 1. generic scheduler ---------- *)

Section Sched.
  Variables (G L : Type).
  Variable tstep : nat -> G -> L -> option (G * L).

  Fixpoint upd_nth (i : nat) (x : L) (l : list L) : list L :=
    match l, i with
    | [], _ => []
    | _ :: r, O => x :: r
    | y :: r, S j => y :: upd_nth j x r
    end.

  (** one scheduling decision: thread [i] performs its next atomic step, if it has one *)
  Definition sstep (c : G * list L) (i : nat) : G * list L :=
    match nth_error (snd c) i with
    | None => c
    | Some l =>
        match tstep i (fst c) l with
        | None => c
        | Some (g', l') => (g', upd_nth i l' (snd c))
        end
    end.

  Definition run_sched (sched : list nat) (c : G * list L) : G * list L := fold_left sstep sched c.
End Sched.

Arguments upd_nth {L} i x l.
Arguments sstep {G L} tstep c i.
Arguments run_sched {G L} tstep sched c.

(** ---------- 2. threads = lists of atomic actions of one sequential machine ---------- *)

Section Interleave.
  Variables (S A : Type).
  Variable step : S -> A -> S.

  (** shared state = (machine state, trace so far, most recent first) *)
  Definition istep (i : nat) (g : S * list (nat * A)) (th : list A) : option ((S * list (nat * A)) * list A) :=
    match th with
    | [] => None
    | a :: r => Some ((step (fst g) a, (i, a) :: snd g), r)
    end.

  Definition conc_run (sched : list nat) (s0 : S) (ths : list (list A)) : (S * list (nat * A)) * list (list A) :=
    run_sched istep sched ((s0, []), ths).

  (** the machine state after the schedule, the trace (oldest first), what is left to do *)
  Definition conc_state (sched : list nat) (s0 : S) (ths : list (list A)) : S := fst (fst (conc_run sched s0 ths)).
  Definition conc_trace (sched : list nat) (s0 : S) (ths : list (list A)) : list (nat * A) := rev (snd (fst (conc_run sched s0 ths))).
  Definition conc_rest (sched : list nat) (s0 : S) (ths : list (list A)) : list (list A) := snd (conc_run sched s0 ths).

  (** the sequential history a concurrent run amounts to *)
  Definition conc_history (sched : list nat) (s0 : S) (ths : list (list A)) : list A := map snd (conc_trace sched s0 ths).

  (** what thread [i] did, in order *)
  Definition proj (i : nat) (tr : list (nat * A)) : list A := map snd (filter (fun x => Nat.eqb (fst x) i) tr).

  Definition all_done (ths : list (list A)) : Prop := Forall (fun th => th = []) ths.
End Interleave.

Arguments istep {S A} step i g th.
Arguments conc_run {S A} step sched s0 ths.
Arguments conc_state {S A} step sched s0 ths.
Arguments conc_trace {S A} step sched s0 ths.
Arguments conc_rest {S A} step sched s0 ths.
Arguments conc_history {S A} step sched s0 ths.
Arguments proj {A} i tr.
Arguments all_done {A} ths.

(** ---------- 3. txByHashMap: chunk-locked map + two atomic counters ---------- *)

(** calls a thread makes: txByHashMap.addTx, txByHashMap.removeTx, txByHashMap.clear *)
Inductive call : Type :=
| CAdd (t : tx)
| CRem (h : bytes)
| CClear.

(** the counter updates that follow a map mutation, each one atomic on its own *)
Inductive micro : Type :=
| MInc                 (* counter.Increment() *)
| MAddB (z : Z)        (* numBytes.Add(tx.Size) *)
| MDec                 (* counter.Decrement() *)
| MSubB (z : Z)        (* numBytes.Subtract(tx.Size) *)
| MSetC0               (* counter.Set(0) *)
| MSetB0.              (* numBytes.Set(0) *)

Record hstate : Type := mkH { h_map : list (bytes * tx); h_cnt : Z; h_bytes : Z }.

(** thread-local state: counter updates still owed for the call in progress, calls still to make *)
Definition thread : Type := (list micro * list call)%type.

Definition do_micro (g : hstate) (m : micro) : hstate :=
  match m with
  | MInc => mkH (h_map g) (h_cnt g + 1) (h_bytes g)
  | MAddB z => mkH (h_map g) (h_cnt g) (h_bytes g + z)
  | MDec => mkH (h_map g) (h_cnt g - 1) (h_bytes g)
  | MSubB z => mkH (h_map g) (h_cnt g) (h_bytes g - z)
  | MSetC0 => mkH (h_map g) 0 (h_bytes g)
  | MSetB0 => mkH (h_map g) (h_cnt g) 0
  end%Z.

(** the next atomic step of a thread:
    - a counter update owed, if any;
    - else the map step of the next call: SetIfAbsent (addTx), Remove (removeTx), Clear (clear),
      each under the chunk lock / map lock, i.e. atomic; it decides which counter updates follow *)
Definition cstep (_ : nat) (g : hstate) (th : thread) : option (hstate * thread) :=
  match th with
  | (m :: ms, cs) => Some (do_micro g m, (ms, cs))
  | ([], []) => None
  | ([], CAdd t :: cs) =>
      match alookup (h_map g) (hash t) with
      | Some _ => Some (g, ([], cs))                                   (* SetIfAbsent = false *)
      | None => Some (mkH ((hash t, t) :: h_map g) (h_cnt g) (h_bytes g), ([MInc; MAddB (size t)], cs))
      end
  | ([], CRem h :: cs) =>
      match alookup (h_map g) h with
      | None => Some (g, ([], cs))                                     (* Remove: not found *)
      | Some t => Some (mkH (aremove (h_map g) h) (h_cnt g) (h_bytes g), ([MDec; MSubB (size t)], cs))
      end
  | ([], CClear :: cs) => Some (mkH [] (h_cnt g) (h_bytes g), ([MSetC0; MSetB0], cs))
  end.

Definition start (calls : list (list call)) : list thread := map (fun cs => ([], cs)) calls.

Definition run_counters (sched : list nat) (g0 : hstate) (calls : list (list call)) : hstate * list thread :=
  run_sched cstep sched (g0, start calls).

Definition quiescent (ths : list thread) : Prop := Forall (fun th => th = ([], [])) ths.
Fixpoint quiescentb (ths : list thread) : bool :=
  match ths with
  | [] => true
  | ([], []) :: r => quiescentb r
  | _ :: _ => false
  end.

Definition no_clear (calls : list (list call)) : Prop := Forall (Forall (fun c => c <> CClear)) calls.

Definition empty_h : hstate := mkH [] 0 0.
