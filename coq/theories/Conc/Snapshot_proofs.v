(** Conc/Snapshot_proofs.v — what a concurrent selection is handed (C14, part b).

    SelectTransactions first collects the *txListForSender objects (IterCb visits each key of the
    sender map once), then copies each list under THAT list's read lock (getTxs).  The copies are
    therefore taken at different instants.  Every mutation of a sender's list (AddTx,
    removeTransactionsWithLowerOrEqualNonce..., removeTransactionsWithHigherOrEqualNonce, the last
    one called by the eviction WITHOUT mutTxOperation) is one critical section under the list's
    mutex, so a copy is the list after SOME sequence of those three operations.  This file proves
    that every such list is a legal bunch for the selection, and that copies of distinct senders
    taken from different states form legal bunches. *)
From Coq Require Import List NArith ZArith Lia Bool Permutation Sorting.Sorted ZifyN ZifyNat ZifyBool.
From Verif Require Import Base.BStr Base.ListX Txcache.TxTypes Txcache.SenderList Txcache.Selection Txcache.Pool
  Txcache.Judge Txcache.SenderList_proofs Txcache.Selection_proofs Txcache.Pool_proofs.
Import ListNotations.
Open Scope N_scope.

(** what a copy of the list of sender [a] satisfies: the ordering part of [list_ok], empty allowed
    (an emptied list may still be seen before it is unlinked from the map) *)
Definition snap_ok (a : bytes) (l : list tx) : Prop :=
  sorted l /\ forall t, In t l -> sender t = a /\ nonce t < two64.

Lemma list_ok_snap_ok a sl : list_ok a sl -> snap_ok a (items sl).
Proof. intros (_ & Hs & Hsnd & _). split; assumption. Qed.

Lemma sorted_nth_precedes l : sorted l ->
  forall i j ti tj, (i < j)%nat -> nth_error l i = Some ti -> nth_error l j = Some tj -> precedes ti tj.
Proof.
  induction 1 as [|x l Hs IH Hall]; intros i j ti tj Hij Hi Hj; [destruct i; discriminate|].
  destruct j as [|j]; [lia|]. simpl in Hj. destruct i as [|i]; simpl in Hi.
  - inversion Hi; subst. rewrite Forall_forall in Hall. apply Hall. eapply nth_error_In. exact Hj.
  - apply (IH i j); [lia|exact Hi|exact Hj].
Qed.

(** the bridge: a copy taken under the list's lock is a bunch the selection theorems accept *)
Lemma snap_ok_bunch_ok a l : snap_ok a l -> bunch_ok l.
Proof.
  intros (Hs & Hsnd). split; [intros t Ht; apply Hsnd; exact Ht|]. split.
  - intros t t' Ht Ht'. rewrite (proj1 (Hsnd t Ht)), (proj1 (Hsnd t' Ht')). reflexivity.
  - intros i j ti tj Hij Hi Hj. apply precedes_nonce. eapply sorted_nth_precedes; eassumption.
Qed.

Lemma list_ok_bunch_ok a sl : list_ok a sl -> bunch_ok (items sl).
Proof. intros H. eapply snap_ok_bunch_ok. apply list_ok_snap_ok. exact H. Qed.

(** the copy of sender [a]'s list taken from pool state [p] (empty if [a] has no list) *)
Lemma pool_snapshot_ok p a : SL p -> snap_ok a (pool_for_sender p a).
Proof.
  intros (_ & Hok & _). unfold pool_for_sender. destruct (alookup (senders p) a) as [sl|] eqn:E.
  - apply list_ok_snap_ok. apply (Hok _ _ E).
  - split; [constructor|intros t []].
Qed.

(** copies of DISTINCT senders, each satisfying [snap_ok] for its own sender — no matter from
    which state each was taken — form legal bunches *)
Lemma snaps_bunches_ok (snaps : list (bytes * list tx)) :
  NoDup (map fst snaps) -> (forall a l, In (a, l) snaps -> snap_ok a l) -> bunches_ok (map snd snaps).
Proof.
  intros Hnd Hall. unfold bunches_ok.
  assert (G : Forall bunch_ok (map snd snaps) /\ NoDup (map csender (mk_cursors (map snd snaps))) /\
              (forall s, In s (map csender (mk_cursors (map snd snaps))) -> In s (map fst snaps))).
  { induction snaps as [|(a, l) snaps IH]; simpl.
    - split; [constructor|]. split; [constructor|intros s []].
    - inversion Hnd as [|? ? Hnotin Hnd']; subst.
      destruct (IH Hnd' (fun a0 l0 H => Hall a0 l0 (or_intror H))) as (I1 & I2 & I3).
      pose proof (Hall a l (or_introl eq_refl)) as Hal.
      split; [constructor; [eapply snap_ok_bunch_ok; exact Hal|exact I1]|].
      destruct l as [|t r]; simpl.
      + split; [exact I2|]. intros s Hs. right. apply I3. exact Hs.
      + destruct Hal as (_ & Hsnd). assert (Ea : sender t = a) by (apply Hsnd; left; reflexivity).
        split.
        * constructor; [|exact I2]. rewrite Ea. intros Hin. apply Hnotin. apply I3. exact Hin.
        * intros s [<-|Hs']; [left; symmetry; exact Ea|right; apply I3; exact Hs']. }
  destruct G as (A & B & _). split; assumption.
Qed.

(** snapshots of distinct senders taken from DIFFERENT pool states, each satisfying the sender-list
    part [SL] of the mempool invariant *)
Definition pool_snaps (snaps : list (bytes * pool)) : list (list tx) :=
  map (fun ap => pool_for_sender (snd ap) (fst ap)) snaps.

Lemma pool_snaps_bunches_ok (snaps : list (bytes * pool)) :
  NoDup (map fst snaps) -> (forall a p, In (a, p) snaps -> SL p) -> bunches_ok (pool_snaps snaps).
Proof.
  intros Hnd Hall. unfold pool_snaps.
  replace (map (fun ap => pool_for_sender (snd ap) (fst ap)) snaps)
    with (map snd (map (fun ap => (fst ap, pool_for_sender (snd ap) (fst ap))) snaps))
    by (rewrite map_map; reflexivity).
  apply snaps_bunches_ok.
  - rewrite map_map. simpl. exact Hnd.
  - intros a l Hin. apply in_map_iff in Hin. destruct Hin as ((a', p) & E & Hin). simpl in E. inversion E; subst a l.
    apply pool_snapshot_ok. apply (Hall a' p). exact Hin.
Qed.

(** ---------- the per-sender list as an atomic object: every operation is one critical section ---------- *)

Inductive lop : Type :=
| LAdd (t : tx)          (* txListForSender.AddTx *)
| LRemLeq (n : N)        (* removeTransactionsWithLowerOrEqualNonceReturnHashes *)
| LRemGeq (n : N).       (* removeTransactionsWithHigherOrEqualNonce (eviction) *)

Definition lstep (cfg : config) (s : slist) (o : lop) : slist :=
  match o with
  | LAdd t => fst (fst (sl_add cfg s t))
  | LRemLeq n => fst (sl_remove_leq s n)
  | LRemGeq n => fst (sl_remove_geq s n)
  end.

(** only transactions of sender [a], with uint64 nonces, are ever handed to [a]'s list *)
Definition lop_ok (a : bytes) (o : lop) : Prop :=
  match o with LAdd t => sender t = a /\ nonce t < two64 | _ => True end.

Definition lrun (cfg : config) (ops : list lop) : slist := fold_left (lstep cfg) ops empty_slist.

Lemma snap_ok_sub a l l' : snap_ok a l -> sorted l' -> incl l' l -> snap_ok a l'.
Proof. intros (_ & Hsnd) Hs Hi. split; [exact Hs|]. intros t Ht. apply Hsnd. apply Hi. exact Ht. Qed.

Lemma lstep_snap_ok cfg a s o : snap_ok a (items s) -> lop_ok a o -> snap_ok a (items (lstep cfg s o)).
Proof.
  intros Hok Hop. pose proof Hok as (Hs & Hsnd). destruct o as [t|n|n]; simpl.
  - unfold sl_add. pose proof (insert_sorted_spec (items s) t Hs) as Hins.
    destruct (insert_sorted (items s) t) as [l'|]; [|exact Hok].
    destruct Hins as (Hs' & Hp' & _). simpl in Hop.
    assert (Hok' : snap_ok a l').
    { split; [exact Hs'|]. intros x Hx. apply (Permutation_in _ Hp') in Hx. destruct Hx as [<-|Hx]; [exact Hop|apply Hsnd; exact Hx]. }
    unfold apply_size_constraints. destruct (sl_exceeded cfg _); simpl; [|exact Hok'].
    destruct (rev l') as [|lastt rfront] eqn:Er; simpl; [exact Hok'|].
    apply rev_cons_inv in Er. subst l'. eapply snap_ok_sub; [exact Hok'|eapply sorted_app_l; exact Hs'|].
    intros x Hx. apply in_or_app. left. exact Hx.
  - unfold sl_remove_leq. pose proof (split_leq_spec (items s) n Hs) as Hsp.
    destruct (split_leq (items s) n) as (gone, kept). simpl. destruct Hsp as (E & _ & _).
    eapply snap_ok_sub; [exact Hok|rewrite E in Hs; eapply sorted_app_r; exact Hs|].
    intros x Hx. rewrite E. apply in_or_app. right. exact Hx.
  - unfold sl_remove_geq. pose proof (proj1 (sorted_rev _) Hs) as Hr.
    pose proof (split_geq_rev_spec (rev (items s)) n Hr) as Hsp.
    destruct (split_geq_rev (rev (items s)) n) as (gone, keptrev). simpl. destruct Hsp as (E & _ & _).
    assert (E' : items s = rev keptrev ++ rev gone) by (rewrite <- rev_app_distr, <- E, rev_involutive; reflexivity).
    eapply snap_ok_sub; [exact Hok|rewrite E' in Hs; eapply sorted_app_l; exact Hs|].
    intros x Hx. rewrite E'. apply in_or_app. left. exact Hx.
Qed.

(** after ANY sequence of list operations the list is a legal copy *)
Lemma lrun_snap_ok cfg a ops : Forall (lop_ok a) ops -> snap_ok a (items (lrun cfg ops)).
Proof.
  unfold lrun. assert (G : forall s, snap_ok a (items s) -> Forall (lop_ok a) ops -> snap_ok a (items (fold_left (lstep cfg) ops s))).
  { induction ops as [|o ops IH]; intros s Hs Hall; [exact Hs|]. inversion Hall; subst. simpl. apply IH; [|assumption].
    apply lstep_snap_ok; assumption. }
  apply G. split; [constructor|intros t []].
Qed.

(** the per-sender count bound (C06, per sender) after ANY sequence of list operations:
    one insertion, at most one over, one drop *)
Lemma removelast_rev_length {A} (x : A) (r : list A) : length (rev r) = length r.
Proof. apply rev_length. Qed.

Lemma lstep_count cfg s o : (0 <= countPerSenderThreshold cfg)%Z ->
  (Z.of_nat (length (items s)) <= countPerSenderThreshold cfg)%Z ->
  (Z.of_nat (length (items (lstep cfg s o))) <= countPerSenderThreshold cfg)%Z.
Proof.
  intros H0 Hle. destruct o as [t|n|n]; simpl.
  - unfold sl_add. destruct (insert_sorted (items s) t) as [l'|] eqn:Ei; [|exact Hle].
    assert (Hlen : length l' = Datatypes.S (length (items s))).
    { unfold insert_sorted in Ei. destruct (ins_rev (rev (items s)) t) as [rl|] eqn:Er; [|discriminate].
      simpl in Ei. inversion Ei; subst l'. rewrite rev_length.
      assert (G : forall rl0 rl1, ins_rev rl0 t = Some rl1 -> length rl1 = Datatypes.S (length rl0)).
      { induction rl0 as [|c r IH]; intros rl1 H; simpl in H; [inversion H; reflexivity|].
        assert (Hc : forall o, option_map (cons c) o = Some rl1 -> (forall x, o = Some x -> length x = Datatypes.S (length r)) -> length rl1 = Datatypes.S (length (c :: r))).
        { intros o Ho Hx. destruct o as [x|]; [|discriminate]. simpl in Ho. inversion Ho; subst. simpl. rewrite (Hx x eq_refl). reflexivity. }
        destruct (nonce c =? nonce t).
        - destruct (gasPrice t <? gasPrice c); [inversion H; reflexivity|].
          destruct (gasPrice c =? gasPrice t).
          + destruct (bcmp (hash c) (hash t)); [discriminate|inversion H; reflexivity|].
            apply (Hc _ H). intros x Hx. apply IH. exact Hx.
          + apply (Hc _ H). intros x Hx. apply IH. exact Hx.
        - destruct (nonce c <? nonce t); [inversion H; reflexivity|].
          apply (Hc _ H). intros x Hx. apply IH. exact Hx. }
      rewrite (G _ _ Er), rev_length. reflexivity. }
    unfold apply_size_constraints, sl_exceeded. cbn [items totalBytes].
    destruct ((numBytesPerSenderThreshold cfg <? totalBytes s + size t)%Z || (countPerSenderThreshold cfg <? Z.of_nat (length l'))%Z) eqn:Ex.
    + destruct (rev l') as [|lastt rfront] eqn:Er; simpl.
      * assert (length l' = 0%nat) by (rewrite <- rev_length, Er; reflexivity). lia.
      * assert (length l' = Datatypes.S (length rfront)) by (rewrite <- rev_length, Er; reflexivity).
        rewrite rev_length. lia.
    + simpl. apply orb_false_iff in Ex. destruct Ex as (_ & Ex). lia.
  - unfold sl_remove_leq. assert (G : forall l, (length (snd (split_leq l n)) <= length l)%nat).
    { induction l as [|x l IH]; simpl; [lia|]. destruct (n <? nonce x); simpl; [lia|].
      destruct (split_leq l n) as (g, k). simpl in *. lia. }
    specialize (G (items s)). destruct (split_leq (items s) n) as (gone, kept). simpl in *. lia.
  - unfold sl_remove_geq. assert (G : forall l, (length (snd (split_geq_rev l n)) <= length l)%nat).
    { induction l as [|x l IH]; simpl; [lia|]. destruct (nonce x <? n); simpl; [lia|].
      destruct (split_geq_rev l n) as (g, k). simpl in *. lia. }
    specialize (G (rev (items s))). destruct (split_geq_rev (rev (items s)) n) as (gone, keptrev). simpl in *.
    rewrite rev_length in *. lia.
Qed.

Lemma lrun_count cfg ops : (0 <= countPerSenderThreshold cfg)%Z ->
  (Z.of_nat (length (items (lrun cfg ops))) <= countPerSenderThreshold cfg)%Z.
Proof.
  intros H0. unfold lrun.
  assert (G : forall s, (Z.of_nat (length (items s)) <= countPerSenderThreshold cfg)%Z ->
                        (Z.of_nat (length (items (fold_left (lstep cfg) ops s))) <= countPerSenderThreshold cfg)%Z).
  { induction ops as [|o ops IH]; intros s Hs; [exact Hs|]. simpl. apply IH. apply lstep_count; assumption. }
  apply G. simpl. exact H0.
Qed.
