(** Conc/Adds_proofs.v — concurrent AddTx calls commute (C14, part c).

    AddTx's two index updates are one critical section of [mutTxOperation]; when no per-sender limit
    is hit nothing follows it (no bulk removal), and with eviction disabled nothing precedes it: the
    whole call is ONE atomic action, [pstep cfg _ (PAdd t)].  A concurrent execution of add-only
    threads is therefore an interleaving ([Conc/Atomic.v]), i.e. the sequential run of some
    permutation of all the calls — and every order of the same SET of transactions (the same
    transaction may be handed in several times, by several goroutines: "hash determines content")
    yields the same per-sender lists: the sorted set. *)
From Coq Require Import List NArith ZArith Lia Bool Permutation Sorting.Sorted ZifyN ZifyNat ZifyBool.
From Verif Require Import Base.BStr Base.ListX Txcache.TxTypes Txcache.SenderList Txcache.Selection Txcache.Pool
  Txcache.SenderList_proofs Txcache.Selection_proofs Txcache.Pool_proofs Txcache.Order_proofs Txcache.Pool_props
  Txcache.Insertion_order_proofs Conc.Atomic Conc.Atomic_proofs.
Import ListNotations.
Open Scope Z_scope.

(** after the adds [l0] (a prefix of an add-only history within the limits), sender [a]'s list holds
    exactly the transactions of [a] handed in so far — duplicates among the calls allowed *)
Lemma run_adds_sets cfg l : hist_ok (adds l) -> roomy cfg l ->
  forall l0, (exists l1, l = l0 ++ l1) ->
  forall a x, In x (pool_for_sender (run_pool cfg (adds l0)) a) <-> In x l0 /\ sender x = a.
Proof.
  intros Hok (Hev & Hc & Hb & Hpos). induction l0 as [|t l0 IH] using rev_ind; intros (l1 & El) a x.
  - simpl. split; [intros []|intros ([] & _)].
  - assert (Hpre : exists l1', l = l0 ++ l1') by (exists ([t] ++ l1); rewrite El, <- app_assoc; reflexivity).
    specialize (IH Hpre). unfold adds. rewrite map_app. simpl map. rewrite run_pool_snoc. fold (adds l0).
    assert (Hok0 : hist_ok (adds l0)).
    { destruct Hpre as (l1' & E). rewrite E in Hok. unfold adds in Hok. rewrite map_app in Hok. eapply hist_ok_prefix. exact Hok. }
    destruct (run_pool_inv2 cfg (adds l0) Hok0) as (HI & Hadds). rewrite added_txs_adds in Hadds.
    assert (Hsub0 : incl l0 l) by (intros y Hy; rewrite El; apply in_or_app; left; apply in_or_app; left; exact Hy).
    assert (Hin_t : In t l) by (rewrite El; apply in_or_app; left; apply in_or_app; right; left; reflexivity).
    assert (Hag : agrees (run_pool cfg (adds l0)) t).
    { intros t' Ht'. destruct Hok as (Hinj & _). rewrite added_txs_adds in Hinj. apply Hinj; [apply Hsub0; eapply Hadds; exact Ht'|exact Hin_t|].
      apply HI. exact Ht'. }
    assert (Hwf : tx_wf t) by (apply Hok; rewrite added_txs_adds; exact Hin_t).
    simpl pstep. unfold add_tx. rewrite Hev.
    destruct (add_core_spec cfg _ t HI Hag Hwf) as (_ & Hspec).
    rewrite in_app_iff. simpl.
    destruct (alookup (byHash (run_pool cfg (adds l0))) (hash t)) as [t'|] eqn:Eh.
    + (* handed in before: nothing changes, and t is already listed *)
      destruct Hspec as (-> & _). rewrite IH.
      assert (t' = t) by (apply Hag; exact Eh). subst t'.
      assert (Ht0 : In t l0) by (eapply Hadds; exact Eh).
      split; [intros (H1 & H2); auto|]. intros ([H1|[<-|[]]] & H2); auto.
    + destruct Hspec as (_ & l' & Hs' & Hp' & Hl). rewrite Hl.
      destruct (beqb_spec (sender t) a) as [Es|Hne].
      * assert (Hl'sub : incl l' l).
        { intros y Hy. apply (Permutation_in _ Hp') in Hy. destruct Hy as [<-|Hy]; [exact Hin_t|].
          apply Hsub0. apply (IH (sender t) y). exact Hy. }
        assert (Hnd' : NoDup l') by (apply sorted_NoDup; exact Hs').
        assert (Hover : over_limits cfg l' = false).
        { unfold over_limits. apply orb_false_iff. split; apply Z.ltb_ge.
          - pose proof (sum_sizes_incl l' l Hnd' Hl'sub Hpos). lia.
          - pose proof (NoDup_incl_length Hnd' Hl'sub). lia. }
        rewrite Hover. split.
        -- intros Hx. apply (Permutation_in _ Hp') in Hx. destruct Hx as [<-|Hx]; [split; [right; left; reflexivity|exact Es]|].
           apply (IH (sender t) x) in Hx. destruct Hx as (H1 & H2). split; [left; exact H1|congruence].
        -- intros ([H1|[<-|[]]] & H2).
           ++ eapply Permutation_in; [apply Permutation_sym; exact Hp'|]. right. apply (IH (sender t) x). split; [exact H1|congruence].
           ++ eapply Permutation_in; [apply Permutation_sym; exact Hp'|]. left. reflexivity.
      * rewrite IH. split; [intros (H1 & H2); auto|]. intros ([H1|[<-|[]]] & H2); auto. contradiction.
Qed.

Lemma hist_ok_perm l l' : Permutation l l' -> hist_ok (adds l) -> hist_ok (adds l').
Proof.
  intros Hp (H1 & H2). rewrite added_txs_adds in H1, H2. split; rewrite added_txs_adds.
  - intros t t' Ht Ht'. apply H1; eapply Permutation_in; try (apply Permutation_sym; exact Hp); assumption.
  - intros t Ht. apply H2. eapply Permutation_in; [apply Permutation_sym; exact Hp|exact Ht].
Qed.

Lemma roomy_perm cfg l l' : Permutation l l' -> roomy cfg l -> roomy cfg l'.
Proof.
  intros Hp (A & B & C & D). split; [exact A|]. split; [rewrite <- (Permutation_length Hp); exact B|].
  split; [rewrite <- (sum_sizes_perm _ _ Hp); exact C|]. intros t Ht. apply D. eapply Permutation_in; [apply Permutation_sym; exact Hp|exact Ht].
Qed.

(** all present, correctly ordered, whatever the order of the calls *)
Lemma adds_all_present cfg l : hist_ok (adds l) -> roomy cfg l ->
  (forall t, In t l -> In t (pool_for_sender (run_pool cfg (adds l)) (sender t))) /\
  (forall a, sorted (pool_for_sender (run_pool cfg (adds l)) a)) /\
  (forall a x, In x (pool_for_sender (run_pool cfg (adds l)) a) -> In x l /\ sender x = a).
Proof.
  intros Hok Hr. pose proof (run_adds_sets cfg l Hok Hr l (ex_intro _ [] (eq_sym (app_nil_r l)))) as Hset.
  split; [intros t Ht; apply Hset; auto|]. split; [intros a; apply inv_sorted, run_pool_inv; exact Hok|].
  intros a x Hx. apply Hset. exact Hx.
Qed.

(** any two orders of the same calls give the same per-sender lists *)
Lemma adds_commute_lists cfg l l' : hist_ok (adds l) -> roomy cfg l -> Permutation l l' ->
  forall a, pool_for_sender (run_pool cfg (adds l)) a = pool_for_sender (run_pool cfg (adds l')) a.
Proof.
  intros Hok Hr Hp a. pose proof (hist_ok_perm _ _ Hp Hok) as Hok'. pose proof (roomy_perm _ _ _ Hp Hr) as Hr'.
  assert (S1 : sorted (pool_for_sender (run_pool cfg (adds l)) a)) by (apply inv_sorted, run_pool_inv; exact Hok).
  assert (S2 : sorted (pool_for_sender (run_pool cfg (adds l')) a)) by (apply inv_sorted, run_pool_inv; exact Hok').
  apply sorted_perm_unique; [exact S1|exact S2|].
  apply NoDup_Permutation; [apply sorted_NoDup; exact S1|apply sorted_NoDup; exact S2|].
  intros x. rewrite (run_adds_sets cfg l Hok Hr l (ex_intro _ [] (eq_sym (app_nil_r l))) a x).
  rewrite (run_adds_sets cfg l' Hok' Hr' l' (ex_intro _ [] (eq_sym (app_nil_r l'))) a x).
  split; intros (H1 & H2); (split; [|exact H2]); eapply Permutation_in; try exact H1; [exact Hp|apply Permutation_sym; exact Hp].
Qed.

(** ---------- lifted to concurrent executions ---------- *)

Lemma added_txs_perm h h' : Permutation h h' -> Permutation (added_txs h) (added_txs h').
Proof.
  induction 1 as [|o h h' _ IH|o1 o2 h|h1 h2 h3 _ IH1 _ IH2]; simpl.
  - reflexivity.
  - destruct o; simpl; [constructor|..]; exact IH.
  - destruct o1, o2; simpl; try reflexivity. apply perm_swap.
  - etransitivity; eassumption.
Qed.

Lemma adds_of_added h : Forall (fun o => exists t, o = PAdd t) h -> h = adds (added_txs h).
Proof. induction 1 as [|o h (t & ->) _ IH]; simpl; [reflexivity|]. f_equal. exact IH. Qed.

Lemma concat_adds ths : concat (map adds ths) = adds (concat ths).
Proof. induction ths as [|th ths IH]; simpl; [reflexivity|]. rewrite IH. unfold adds. rewrite map_app. reflexivity. Qed.

(** the state reached by ANY schedule of add-only threads, once all of them have finished, has the
    per-sender lists of the sequential run  thread 1; thread 2; ...  — every transaction present,
    every list the sorted set *)
Theorem concurrent_adds_commute cfg (ths : list (list tx)) sched :
  hist_ok (adds (concat ths)) -> roomy cfg (concat ths) ->
  all_done (conc_rest (pstep cfg) sched empty_pool (map adds ths)) ->
  let p := conc_state (pstep cfg) sched empty_pool (map adds ths) in
  (forall a, pool_for_sender p a = pool_for_sender (run_pool cfg (adds (concat ths))) a) /\
  (forall t, In t (concat ths) -> In t (pool_for_sender p (sender t))) /\
  (forall a, sorted (pool_for_sender p a)) /\
  (forall a x, In x (pool_for_sender p a) -> In x (concat ths) /\ sender x = a).
Proof.
  intros Hok Hr Hdone p.
  pose proof (conc_complete_perm _ _ (pstep cfg) sched empty_pool (map adds ths) Hdone) as Hperm.
  rewrite concat_adds in Hperm.
  set (h := conc_history (pstep cfg) sched empty_pool (map adds ths)) in *.
  assert (Hall : Forall (fun o => exists t, o = PAdd t) h).
  { apply Forall_forall. intros o Ho. apply (Permutation_in _ Hperm) in Ho. unfold adds in Ho. apply in_map_iff in Ho.
    destruct Ho as (t & <- & _). exists t. reflexivity. }
  assert (Ep : p = run_pool cfg (adds (added_txs h))).
  { unfold p. rewrite conc_is_sequential. fold h. rewrite <- (adds_of_added h Hall). reflexivity. }
  assert (Hp : Permutation (concat ths) (added_txs h)).
  { apply Permutation_sym. rewrite <- (added_txs_adds (concat ths)). apply added_txs_perm. exact Hperm. }
  assert (Elists : forall a, pool_for_sender p a = pool_for_sender (run_pool cfg (adds (concat ths))) a).
  { intros a. rewrite Ep. symmetry. apply adds_commute_lists; assumption. }
  destruct (adds_all_present cfg (concat ths) Hok Hr) as (A & B & C).
  split; [exact Elists|]. split; [intros t Ht; rewrite Elists; apply A; exact Ht|].
  split; [intros a; rewrite Elists; apply B|]. intros a x Hx. rewrite Elists in Hx. apply C. exact Hx.
Qed.
