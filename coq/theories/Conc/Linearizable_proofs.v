(** C11 -- from "every read returned the register's content at an instant of its interval, writes
    take effect at their batch mutation" (Conc/PersistConc_proofs.v) to linearizability in the
    classical sense: the linearization order is exhibited (Conc/Linearizable.v, [buckets]). *)
From Coq Require Import List NArith ZArith Bool Lia PeanoNat Permutation Sorted.
From Verif Require Import Base.BStr Persist.Batch Persist.MapSpec Persist.PersistSpec Persist.Batch_proofs
  Conc.PersistConc Conc.PersistConc_proofs Conc.Linearizable.
Import ListNotations.

(** ---- buckets: a stable counting sort ---- *)
Section Buckets.
Variable P : list (nat * opr).

Lemma filter_disj_perm {A} (p q : A -> bool) (l : list A) :
  (forall x, p x = true -> q x = false) ->
  Permutation (filter p l ++ filter q l) (filter (fun x => p x || q x) l).
Proof.
  intros Hd. induction l as [|x l IH]; simpl; [constructor|].
  destruct (p x) eqn:Hp; simpl.
  - rewrite (Hd x Hp). simpl. constructor. exact IH.
  - destruct (q x); simpl; [|exact IH].
    eapply Permutation_trans; [apply Permutation_sym; apply Permutation_middle|]. constructor. exact IH.
Qed.

Lemma buckets_S a len : buckets P a (S len) = buckets P a len ++ bucket P (a + len).
Proof.
  unfold buckets. rewrite seq_S, flat_map_app. simpl. rewrite app_nil_r. reflexivity.
Qed.

Lemma buckets_perm_lt n : Permutation (buckets P 0 n) (filter (fun x => (fst x <? n)%nat) P).
Proof.
  induction n as [|n IH].
  - simpl. induction P as [|x l IHl]; simpl; [constructor|exact IHl].
  - rewrite buckets_S. simpl.
    eapply Permutation_trans; [apply Permutation_app_tail; exact IH|].
    eapply Permutation_trans.
    + apply (filter_disj_perm (fun x => (fst x <? n)%nat) (fun x => (fst x =? n)%nat)).
      intros x H. apply Nat.ltb_lt in H. apply Nat.eqb_neq. lia.
    + assert (E : forall l : list (nat * opr),
                filter (fun x => (fst x <? n)%nat || (fst x =? n)%nat) l = filter (fun x => (fst x <? S n)%nat) l).
      { intros l. apply filter_ext. intros x.
        destruct (Nat.ltb_spec (fst x) n), (Nat.eqb_spec (fst x) n), (Nat.ltb_spec (fst x) (S n)); simpl; try reflexivity; lia. }
      rewrite E. apply Permutation_refl.
Qed.

Lemma buckets_perm n : (forall x, In x P -> (fst x < n)%nat) -> Permutation (buckets P 0 n) P.
Proof.
  intros H. eapply Permutation_trans; [apply buckets_perm_lt|].
  assert (E : filter (fun x => (fst x <? n)%nat) P = P).
  { clear -H. induction P as [|x l IH]; simpl; [reflexivity|].
    assert (Hx : (fst x <? n)%nat = true) by (apply Nat.ltb_lt; apply H; left; reflexivity).
    rewrite Hx. f_equal. apply IH. intros y Hy. apply H. right. exact Hy. }
  rewrite E. apply Permutation_refl.
Qed.

Lemma in_buckets a len x : In x (buckets P a len) -> In x P /\ (a <= fst x < a + len)%nat.
Proof.
  unfold buckets. rewrite in_flat_map. intros (t & Ht & Hx). apply in_seq in Ht.
  unfold bucket in Hx. apply filter_In in Hx. destruct Hx as [Hx E]. apply Nat.eqb_eq in E. split; [exact Hx|lia].
Qed.

(** positions follow the instants *)
Lemma buckets_order a len : forall i j x y,
  nth_error (buckets P a len) i = Some x -> nth_error (buckets P a len) j = Some y ->
  (fst x < fst y)%nat -> (i < j)%nat.
Proof.
  induction len as [|len IH]; intros i j x y Hi Hj Hlt.
  - destruct i; discriminate.
  - rewrite buckets_S in Hi, Hj.
    set (L := buckets P a len) in *.
    destruct (Nat.lt_ge_cases i (length L)) as [Li|Li], (Nat.lt_ge_cases j (length L)) as [Lj|Lj].
    + rewrite nth_error_app1 in Hi, Hj by assumption. eapply IH; eauto.
    + lia.
    + exfalso. rewrite nth_error_app1 in Hj by assumption. rewrite nth_error_app2 in Hi by assumption.
      apply nth_error_In in Hi, Hj. unfold bucket in Hi. apply filter_In in Hi. destruct Hi as [_ E].
      apply Nat.eqb_eq in E. apply in_buckets in Hj. lia.
    + exfalso. rewrite nth_error_app2 in Hi, Hj by assumption.
      apply nth_error_In in Hi, Hj. unfold bucket in Hi, Hj. apply filter_In in Hi, Hj.
      destruct Hi as [_ E1], Hj as [_ E2]. apply Nat.eqb_eq in E1, E2. lia.
Qed.
End Buckets.

(** ---- running the sequential specification ---- *)
Definition legal_from (m : mapspec) (L : list opr) : Prop := snd (spec_run m (map o_op L)) = map o_ans L.
Definition final (m : mapspec) (L : list opr) : mapspec := fst (spec_run m (map o_op L)).

Lemma spec_run_app m l1 l2 :
  spec_run m (l1 ++ l2) =
  (fst (spec_run (fst (spec_run m l1)) l2), snd (spec_run m l1) ++ snd (spec_run (fst (spec_run m l1)) l2)).
Proof.
  revert m. induction l1 as [|o l1 IH]; intros m; simpl.
  - destruct (spec_run m l2); reflexivity.
  - destruct (spec_step m o) as [m1 a1]. rewrite IH.
    destruct (spec_run m1 l1) as [m2 a2]. simpl. destruct (spec_run m2 l2); reflexivity.
Qed.

Lemma legal_app m L1 L2 : legal_from m L1 -> legal_from (final m L1) L2 -> legal_from m (L1 ++ L2).
Proof.
  unfold legal_from, final. intros H1 H2. rewrite !map_app, spec_run_app. simpl. rewrite H1, H2. reflexivity.
Qed.

Lemma final_app m L1 L2 : final m (L1 ++ L2) = final (final m L1) L2.
Proof. unfold final. rewrite map_app, spec_run_app. reflexivity. Qed.

Lemma legal_ext m m' L : (forall k, m k = m' k) -> legal_from m L -> legal_from m' L.
Proof. unfold legal_from. intros E H. rewrite <- H. symmetry. apply (spec_run_ext (map o_op L) m m' E). Qed.

Lemma final_ext m m' L : (forall k, m k = m' k) -> forall k, final m L k = final m' L k.
Proof. unfold final. intros E. apply (spec_run_ext (map o_op L) m m' E). Qed.

Lemma legal_nil m : legal_from m []. Proof. reflexivity. Qed.

Lemma final_single m x : final m [x] = fst (spec_step m (o_op x)).
Proof. unfold final. simpl. destruct (spec_step m (o_op x)); reflexivity. Qed.
Lemma legal_single m x : snd (spec_step m (o_op x)) = o_ans x -> legal_from m [x].
Proof. unfold legal_from. simpl. destruct (spec_step m (o_op x)); simpl. intros ->. reflexivity. Qed.

(** ---- the register just before instant t ---- *)
Fixpoint reg_lt (m0 : mapspec) (tr : trace) (t : nat) : mapspec :=
  match tr with
  | [] => m0
  | (t', e) :: r => if (t' <? t)%nat then apply_ev e (reg_lt m0 r t) else reg_lt m0 r t
  end.

Lemma reg_lt_S m0 tr t : reg_lt m0 tr (S t) = reg_at m0 tr t.
Proof.
  induction tr as [|[t' e] tr IH]; simpl; [reflexivity|]. rewrite IH.
  replace (t' <? S t)%nat with (t' <=? t)%nat; [reflexivity|].
  destruct (Nat.leb_spec t' t), (Nat.ltb_spec t' (S t)); try reflexivity; lia.
Qed.

Lemma reg_lt_0 m0 tr : reg_lt m0 tr 0 = m0.
Proof. induction tr as [|[t' e] tr IH]; simpl; [reflexivity|exact IH]. Qed.

Lemma reg_lt_beyond m0 tr n t1 t2 :
  bounded tr n -> (n < t1)%nat -> (n < t2)%nat -> reg_lt m0 tr t1 = reg_lt m0 tr t2.
Proof.
  intros Hb H1 H2. induction tr as [|[t' e] tr IH]; simpl; [reflexivity|].
  pose proof (Forall_inv Hb) as Ht. pose proof (Forall_inv_tail Hb) as Hb'. simpl in Ht.
  destruct (Nat.ltb_spec t' t1); [|lia]. destruct (Nat.ltb_spec t' t2); [|lia].
  rewrite IH by exact Hb'. reflexivity.
Qed.

(** ---- the bucket of instant a: the writes linearised at a ---- *)
Definition lin_writes (tr : trace) : Prop := forall t a c, In (t, EvLin a c) tr -> is_write c = true.

Lemma write_ops_times full tr t o : In (t, o) (write_ops full tr) -> exists a c, In (t, EvLin a c) tr.
Proof.
  induction tr as [|[t' e] tr IH]; simpl; [intros []|].
  destruct e as [a c|a c|a c tc r].
  - intros H. destruct (IH H) as (a' & c' & Hi). exists a', c'. right. exact Hi.
  - intros H. apply in_app_or in H. destruct H as [H|[H|[]]].
    + destruct (IH H) as (a' & c' & Hi). exists a', c'. right. exact Hi.
    + inversion H; subst. exists a, c. left. reflexivity.
  - intros H. destruct (IH H) as (a' & c' & Hi). exists a', c'. right. exact Hi.
Qed.

Lemma bucket_app P1 P2 a : bucket (P1 ++ P2) a = bucket P1 a ++ bucket P2 a.
Proof. unfold bucket. apply filter_app. Qed.

Lemma bucket_empty P a : (forall x, In x P -> fst x <> a) -> bucket P a = [].
Proof.
  intros H. unfold bucket. induction P as [|x l IH]; simpl; [reflexivity|].
  destruct (Nat.eqb_spec (fst x) a) as [E|E].
  - exfalso. apply (H x); [left; reflexivity|exact E].
  - apply IH. intros y Hy. apply H. right. exact Hy.
Qed.

Lemma step_write m b c :
  is_write c = true ->
  snd (spec_step m (op_of c)) = ans_ok /\ forall k, fst (spec_step m (op_of c)) k = apply_ev (EvLin b c) m k.
Proof. destruct c; simpl; try discriminate; intros _; split; reflexivity. Qed.

Lemma apply_ev_ext e m m' : (forall k, m k = m' k) -> forall k, apply_ev e m k = apply_ev e m' k.
Proof.
  intros H k. destruct e as [b c|b c|b c tc r]; simpl; auto.
  destruct c; simpl; auto; unfold m_put, m_remove, m_upd; destruct (beqb k k0); auto.
Qed.

Lemma writes_bucket m0 full tr a :
  chron tr -> lin_writes tr ->
  forall m, (forall k, m k = reg_lt m0 tr a k) ->
  legal_from m (map snd (bucket (write_ops full tr) a))
  /\ forall k, final m (map snd (bucket (write_ops full tr) a)) k = reg_lt m0 tr (S a) k.
Proof.
  induction tr as [|[t' e] tr IH]; intros Hc Hw m Hm.
  - simpl. split; [reflexivity|exact Hm].
  - destruct Hc as [Hb Hc].
    assert (Hw' : lin_writes tr) by (intros t b c Hi; eapply Hw; right; exact Hi).
    assert (Hnolin : is_lin e = false ->
              legal_from m (map snd (bucket (write_ops full tr) a))
              /\ forall k, final m (map snd (bucket (write_ops full tr) a)) k = reg_lt m0 ((t', e) :: tr) (S a) k).
    { intros He. simpl in Hm. simpl. rewrite apply_ev_nolin in * by exact He.
      assert (Hm' : forall k, m k = reg_lt m0 tr a k) by (intros k; rewrite Hm; destruct (t' <? a)%nat; reflexivity).
      destruct (IH Hc Hw' m Hm') as [L F]. split; [exact L|]. intros k. rewrite F. destruct (t' <? S a)%nat; reflexivity. }
    destruct e as [b c|b c|b c tc r]; try (apply Hnolin; reflexivity). clear Hnolin.
    assert (W : is_write c = true) by (eapply Hw; left; reflexivity).
    cbn [write_ops]. rewrite bucket_app, map_app. simpl in Hm.
    destruct (lt_eq_lt_dec t' a) as [[Hlt|Heq]|Hgt].
    + (* the event is older than a: so is all the rest *)
      rewrite (bucket_empty (write_ops full tr) a).
      2:{ intros [t o] Hi. simpl. destruct (write_ops_times _ _ _ _ Hi) as (b' & c' & Hi').
          pose proof (bounded_in _ _ _ _ Hb Hi'). lia. }
      rewrite (bucket_empty [_] a) by (intros x [<-|[]]; simpl; lia). simpl.
      destruct (Nat.ltb_spec t' a); [|lia]. destruct (Nat.ltb_spec t' (S a)); [|lia].
      split; [reflexivity|]. intros k. unfold final. simpl. rewrite Hm.
      rewrite (reg_lt_beyond m0 tr t' a (S a)) by (auto; lia). reflexivity.
    + subst t'. destruct (Nat.ltb_spec a a); [lia|].
      destruct (IH Hc Hw' m Hm) as [L F].
      assert (E : bucket [(a, mkO (op_of c) a (ret_time full b a) ans_ok)] a = [(a, mkO (op_of c) a (ret_time full b a) ans_ok)]).
      { unfold bucket. simpl. rewrite Nat.eqb_refl. reflexivity. }
      rewrite E. cbn [map snd].
      destruct (step_write (final m (map snd (bucket (write_ops full tr) a))) b c W) as [S1 S2].
      split.
      * apply legal_app; [exact L|]. apply legal_single. exact S1.
      * intros k. rewrite final_app, final_single. cbn [o_op]. rewrite S2.
        cbn [reg_lt]. replace (a <? S a)%nat with true by (symmetry; apply Nat.ltb_lt; lia).
        apply apply_ev_ext. exact F.
    + destruct (Nat.ltb_spec t' a); [lia|]. cbn [reg_lt]. destruct (Nat.ltb_spec t' (S a)); [lia|].
      rewrite (bucket_empty [_] a) by (intros x [<-|[]]; simpl; lia). rewrite app_nil_r.
      apply IH; assumption.
Qed.

(** ---- the bucket of instant a: the reads whose chosen instant is a ---- *)
Definition read_at (m0 : mapspec) (full : trace) (w : nat * ev -> nat) (e : nat * ev) : Prop :=
  match e with
  | (tret, EvRet b c tc r) =>
      is_read c = true -> (tc <= w e <= tret)%nat /\ r = to_ans c (reg_at m0 full (w e) (ckey c))
  | _ => True
  end.

Lemma step_read m c :
  is_read c = true -> spec_step m (op_of c) = (m, to_ans c (m (ckey c))).
Proof.
  destruct c; simpl; try discriminate; intros _; unfold m_get, m_has; destruct (m k); reflexivity.
Qed.

Lemma reads_bucket m0 full w tr a m :
  (forall e, In e tr -> read_at m0 full w e) ->
  (forall k, m k = reg_at m0 full a k) ->
  legal_from m (map snd (bucket (read_ops w tr) a)) /\ final m (map snd (bucket (read_ops w tr) a)) = m.
Proof.
  intros Hr Hm. induction tr as [|[t e] tr IH]; simpl; [split; reflexivity|].
  assert (IH' := IH (fun e He => Hr e (or_intror He))). clear IH.
  destruct e as [b c|b c|b c tc r]; try exact IH'.
  destruct (is_read c) eqn:R; [|exact IH']. unfold bucket. simpl.
  destruct (Nat.eqb_spec (w (t, EvRet b c tc r)) a) as [E|E]; [|exact IH'].
  destruct IH' as [L F]. fold (bucket (read_ops w tr) a). simpl.
  destruct (Hr (t, EvRet b c tc r) (or_introl eq_refl) R) as [_ Er]. rewrite E in Er.
  unfold legal_from, final in *. simpl. rewrite (step_read m c R).
  destruct (spec_run m (map o_op (map snd (bucket (read_ops w tr) a)))) as [m2 l2] eqn:Es. simpl in *.
  split; [|exact F]. rewrite L. f_equal. rewrite Er, Hm. reflexivity.
Qed.

(** ---- all buckets ---- *)
Lemma buckets_cons P a len : buckets P a (S len) = bucket P a ++ buckets P (S a) len.
Proof. reflexivity. Qed.

Lemma buckets_legal m0 tr w :
  chron tr -> lin_writes tr -> (forall e, In e tr -> read_at m0 tr w e) ->
  forall len a m, (forall k, m k = reg_lt m0 tr a k) ->
  let L := map snd (buckets (write_ops tr tr ++ read_ops w tr) a len) in
  legal_from m L /\ forall k, final m L k = reg_lt m0 tr (a + len) k.
Proof.
  intros Hc Hw Hr. induction len as [|len IH]; intros a m Hm; cbv zeta.
  - simpl. split; [reflexivity|]. intros k. rewrite Nat.add_0_r. apply Hm.
  - rewrite buckets_cons, bucket_app, !map_app.
    destruct (writes_bucket m0 tr tr a Hc Hw m Hm) as [L1 F1].
    set (Lw := map snd (bucket (write_ops tr tr) a)) in *.
    assert (Hm1 : forall k, final m Lw k = reg_at m0 tr a k) by (intros k; rewrite F1, reg_lt_S; reflexivity).
    destruct (reads_bucket m0 tr w tr a (final m Lw) Hr Hm1) as [L2 F2].
    set (Lr := map snd (bucket (read_ops w tr) a)) in *.
    assert (Hm2 : forall k, final (final m Lw) Lr k = reg_lt m0 tr (S a) k) by (intros k; rewrite F2; apply F1).
    destruct (IH (S a) _ Hm2) as [L3 F3]. cbv zeta in L3, F3.
    split.
    + rewrite <- app_assoc. apply legal_app; [exact L1|]. apply legal_app; [exact L2|exact L3].
    + intros k. rewrite <- app_assoc, !final_app. rewrite F3. f_equal. lia.
Qed.

(** ---- choosing one instant per completed read ---- *)
Lemma bytes_eq_dec : forall x y : bytes, {x = y} + {x <> y}.
Proof. apply list_eq_dec. apply N.eq_dec. Defined.
Lemma obytes_eq_dec : forall x y : option bytes, {x = y} + {x <> y}.
Proof. decide equality. apply bytes_eq_dec. Defined.
Lemma call_eq_dec : forall x y : call, {x = y} + {x <> y}.
Proof. decide equality; try apply bytes_eq_dec; apply obytes_eq_dec. Defined.
Lemma answer_eq_dec : forall x y : answer, {x = y} + {x <> y}.
Proof. decide equality; [apply obytes_eq_dec|decide equality]. Defined.
Lemma ev_eq_dec : forall x y : nat * ev, {x = y} + {x <> y}.
Proof.
  decide equality; [|apply Nat.eq_dec].
  decide equality; try apply call_eq_dec; try apply agent_eq_dec; try apply answer_eq_dec; apply Nat.eq_dec.
Defined.

Lemma finite_choice (l : list (nat * ev)) (Q : nat * ev -> nat -> Prop) :
  (forall e, In e l -> exists t, Q e t) -> exists w, forall e, In e l -> Q e (w e).
Proof.
  induction l as [|x l IH]; intros H.
  - exists (fun _ => O). intros e [].
  - destruct IH as [w Hw]; [intros e He; apply H; right; exact He|].
    destruct (H x (or_introl eq_refl)) as [t Ht].
    exists (fun e => if ev_eq_dec e x then t else w e). intros e He.
    destruct (ev_eq_dec e x) as [->|Hne]; [exact Ht|].
    destruct He as [E|He]; [congruence|]. apply Hw. exact He.
Qed.

Lemma read_ops_snd w w' tr : map snd (read_ops w tr) = map snd (read_ops w' tr).
Proof.
  induction tr as [|[t e] tr IH]; simpl; [reflexivity|].
  destruct e as [b c|b c|b c tc r]; try exact IH. destruct (is_read c); simpl; [f_equal|]; exact IH.
Qed.

Lemma read_ops_in w tr p o :
  In (p, o) (read_ops w tr) ->
  exists t b c tc r, In (t, EvRet b c tc r) tr /\ is_read c = true
                     /\ p = w (t, EvRet b c tc r) /\ o_inv o = tc /\ o_res o = Some t.
Proof.
  induction tr as [|[t e] tr IH]; simpl; [intros []|].
  assert (Hrec : In (p, o) (read_ops w tr) ->
    exists t0 b c tc r, ((t, e) = (t0, EvRet b c tc r) \/ In (t0, EvRet b c tc r) tr) /\ is_read c = true
                     /\ p = w (t0, EvRet b c tc r) /\ o_inv o = tc /\ o_res o = Some t0).
  { intros H. destruct (IH H) as (t0 & b & c & tc & r & Hi & R). exists t0, b, c, tc, r. split; [right; exact Hi|exact R]. }
  destruct e as [b c|b c|b c tc r]; try exact Hrec.
  destruct (is_read c) eqn:R; [|exact Hrec]. intros [E|H]; [|apply Hrec; exact H].
  inversion E; subst. exists t, b, c, tc, r. simpl. auto.
Qed.

Lemma write_ops_in full tr p o :
  In (p, o) (write_ops full tr) ->
  exists b c, In (p, EvLin b c) tr /\ o_inv o = p /\ o_res o = ret_time full b p.
Proof.
  induction tr as [|[t e] tr IH]; simpl; [intros []|].
  assert (Hrec : In (p, o) (write_ops full tr) ->
    exists b c, ((t, e) = (p, EvLin b c) \/ In (p, EvLin b c) tr) /\ o_inv o = p /\ o_res o = ret_time full b p).
  { intros H. destruct (IH H) as (b & c & Hi & R). exists b, c. split; [right; exact Hi|exact R]. }
  destruct e as [b c|b c|b c tc r]; try exact Hrec.
  intros H. apply in_app_or in H. destruct H as [H|[E|[]]]; [apply Hrec; exact H|].
  inversion E; subst. exists b, c. simpl. auto.
Qed.

Lemma ret_time_ge tr a tc r : wf_history tr -> ret_time tr a tc = Some r -> (tc <= r)%nat.
Proof.
  unfold ret_time. intros Hwf H.
  destruct (find _ tr) as [[t e]|] eqn:Ef; [|discriminate]. inversion H; subst t.
  apply find_some in Ef. destruct Ef as [Hi Hm].
  destruct e as [b c|b c|b c tc' ans]; try discriminate.
  apply andb_true_iff in Hm. destruct Hm as [_ Hm]. apply Nat.eqb_eq in Hm. subst tc'.
  destruct (Hwf _ Hi) as [Hle _]. lia.
Qed.

(** ---- the theorem ---- *)
Theorem trace_linearizable m0 tr n :
  lin_reads m0 tr -> wf_history tr -> chron tr -> bounded tr n ->
  linearizable m0 (history_ops tr).
Proof.
  intros Hlin Hwf Hc Hb.
  (* one instant per completed read *)
  destruct (finite_choice tr (fun e t => match e with
              | (tret, EvRet b c tc r) => is_read c = true -> (tc <= t <= tret)%nat /\ r = to_ans c (reg_at m0 tr t (ckey c))
              | _ => True end)) as [w Hw].
  { intros [t e] Hi. destruct e as [b c|b c|b c tc r]; try (exists O; exact I).
    destruct (is_read c) eqn:R; [|exists O; discriminate].
    destruct (Hlin _ Hi R) as (t0 & Ht & E). exists t0. intros _. split; assumption. }
  assert (Hr : forall e, In e tr -> read_at m0 tr w e).
  { intros [t e] Hi. specialize (Hw _ Hi). destruct e; simpl; auto. }
  assert (Hlw : lin_writes tr).
  { intros t b c Hi. apply (Hwf _ Hi). }
  set (P := write_ops tr tr ++ read_ops w tr).
  (* every operation sits at an instant of its interval *)
  assert (Hint : forall p o, In (p, o) P ->
            (o_inv o <= p <= n)%nat /\ forall r, o_res o = Some r -> (p <= r)%nat).
  { intros p o Hi. unfold P in Hi. apply in_app_or in Hi. destruct Hi as [Hi|Hi].
    - destruct (write_ops_in _ _ _ _ Hi) as (b & c & Hi' & E1 & E2).
      pose proof (bounded_in _ _ _ _ Hb Hi'). split; [lia|]. intros r Er. rewrite E2 in Er.
      eapply ret_time_ge; eauto.
    - destruct (read_ops_in _ _ _ _ Hi) as (t & b & c & tc & r & Hi' & R & Ep & E1 & E2).
      pose proof (bounded_in _ _ _ _ Hb Hi'). destruct (Hw _ Hi' R) as [Ht _]. subst p.
      split; [lia|]. intros r' Er. rewrite E2 in Er. inversion Er; subst. lia. }
  exists (map snd (buckets P 0 (S n))). split; [|split].
  - unfold history_ops. rewrite (read_ops_snd (fun _ => O) w), <- map_app. apply Permutation_map.
    apply buckets_perm. intros [p o] Hi. simpl. destruct (Hint p o Hi). lia.
  - assert (Hm : forall k, m0 k = reg_lt m0 tr 0 k) by (intros k; rewrite reg_lt_0; reflexivity).
    destruct (buckets_legal m0 tr w Hc Hlw Hr (S n) 0 m0 Hm) as [L _]. exact L.
  - intros i j x y Hi Hj Hp.
    rewrite nth_error_map in Hi, Hj.
    destruct (nth_error (buckets P 0 (S n)) i) as [[px ox]|] eqn:Ei; [|discriminate].
    destruct (nth_error (buckets P 0 (S n)) j) as [[py oy]|] eqn:Ej; [|discriminate].
    simpl in Hi, Hj. inversion Hi; inversion Hj; subst ox oy.
    apply (buckets_order P 0 (S n) i j (px, x) (py, y) Ei Ej). simpl.
    apply nth_error_In in Ei, Ej. apply in_buckets in Ei, Ej. destruct Ei as [Ei _], Ej as [Ej _].
    destruct (Hint _ _ Ei) as [_ Hx]. destruct (Hint _ _ Ej) as [Hy _].
    unfold precedes in Hp. destruct (o_res x) as [r|]; [|destruct Hp]. specialize (Hx r eq_refl). lia.
Qed.

(** for every run of the current code *)
Theorem run_linearizable v max d0 progs sched :
  old v = false -> linearizable (disk_map d0) (history_ops (g_trace (run v max d0 progs sched))).
Proof.
  intros Hold. pose proof (run_inv v max d0 progs sched Hold) as HI.
  eapply trace_linearizable.
  - apply (inv_reads _ _ HI).
  - apply (inv_wf _ _ HI).
  - apply (inv_chron _ _ HI).
  - apply (inv_bounded _ _ HI).
Qed.
