(** Conc/Atomic_proofs.v — lemmas about the interleaving models of Conc/Atomic.v. *)
From Coq Require Import List NArith ZArith Lia Bool Permutation ZifyN ZifyNat ZifyBool.
From Verif Require Import Base.BStr Base.ListX Txcache.TxTypes Txcache.SenderList Txcache.Selection Txcache.Pool
  Txcache.SenderList_proofs Txcache.Selection_proofs Txcache.Pool_proofs Conc.Atomic.
Import ListNotations.

(** ---------- 1. the scheduler: invariants hold for EVERY schedule ---------- *)

Section SchedProofs.
  Variables (G L : Type).
  Variable tstep : nat -> G -> L -> option (G * L).

  Lemma upd_nth_length i (x : L) l : length (upd_nth i x l) = length l.
  Proof. revert i; induction l as [|y l IH]; intros [|i]; simpl; auto. Qed.

  Lemma nth_error_upd_same i (x : L) l y : nth_error l i = Some y -> nth_error (upd_nth i x l) i = Some x.
  Proof. revert i; induction l as [|z l IH]; intros [|i]; simpl; try discriminate; auto. Qed.

  Lemma nth_error_upd_other i j (x : L) l : j <> i -> nth_error (upd_nth i x l) j = nth_error l j.
  Proof.
    revert i j; induction l as [|z l IH]; intros [|i] [|j] H; simpl; auto; try congruence.
  Qed.

  (** the invariant rule: what every atomic step of every thread preserves holds after every schedule *)
  Lemma sched_invariant (I : G -> list L -> Prop) :
    (forall i g ls l g' l', I g ls -> nth_error ls i = Some l -> tstep i g l = Some (g', l') -> I g' (upd_nth i l' ls)) ->
    forall sched g ls, I g ls -> I (fst (run_sched tstep sched (g, ls))) (snd (run_sched tstep sched (g, ls))).
  Proof.
    intros Hstep sched. induction sched as [|i sched IH]; intros g ls HI; [exact HI|].
    change (run_sched tstep (i :: sched) (g, ls)) with (run_sched tstep sched (sstep tstep (g, ls) i)).
    assert (HI' : I (fst (sstep tstep (g, ls) i)) (snd (sstep tstep (g, ls) i))).
    { unfold sstep. simpl fst; simpl snd.
      destruct (nth_error ls i) as [l|] eqn:El; [|exact HI].
      destruct (tstep i g l) as [(g', l')|] eqn:Et; [|exact HI].
      simpl. eapply Hstep; eassumption. }
    destruct (sstep tstep (g, ls) i) as (g1, ls1). apply IH. exact HI'.
  Qed.

  Lemma run_sched_app s1 s2 c : run_sched tstep (s1 ++ s2) c = run_sched tstep s2 (run_sched tstep s1 c).
  Proof. unfold run_sched. apply fold_left_app. Qed.
End SchedProofs.

Arguments sched_invariant {G L} tstep I _ sched g ls _.

(** ---------- 2. interleaving of atomic actions = some sequential history ---------- *)

Section InterleaveProofs.
  Variables (S A : Type).
  Variable step : S -> A -> S.

  Lemma nth_upd_nth_same {X} i (x d : X) l : (i < length l)%nat -> nth i (upd_nth i x l) d = x.
  Proof. revert i; induction l as [|y l IH]; intros [|i] H; simpl in *; try lia; auto. apply IH. lia. Qed.

  Lemma nth_upd_nth_other {X} i j (x d : X) l : j <> i -> nth j (upd_nth i x l) d = nth j l d.
  Proof.
    revert i j; induction l as [|y l IH]; intros [|i] [|j] H; simpl; auto; try congruence.
  Qed.

  Lemma nth_error_nth' {X} (l : list X) i x d : nth_error l i = Some x -> nth i l d = x /\ (i < length l)%nat.
  Proof. revert i; induction l as [|y l IH]; intros [|i] H; simpl in *; try discriminate.
    - inversion H. split; [reflexivity|lia].
    - destruct (IH _ H). split; [assumption|lia]. Qed.

  Lemma concat_upd_perm (ls : list (list A)) i a r :
    nth_error ls i = Some (a :: r) -> Permutation (concat ls) (a :: concat (upd_nth i r ls)).
  Proof.
    revert i; induction ls as [|l ls IH]; intros [|i] H; simpl in *; try discriminate.
    - inversion H. subst l. reflexivity.
    - specialize (IH _ H). rewrite IH. symmetry. apply Permutation_middle.
  Qed.

  Lemma proj_app i (t1 t2 : list (nat * A)) : proj i (t1 ++ t2) = proj i t1 ++ proj i t2.
  Proof. unfold proj. rewrite filter_app, map_app. reflexivity. Qed.

  (** the three facts that make a concurrent run "an interleaving":
      (a) the state is the sequential run of the trace; (b) the trace restricted to thread [j],
      followed by what [j] still has to do, is [j]'s program; (c) same multiset of actions *)
  Definition RunInv (s0 : S) (ths0 : list (list A)) (g : S * list (nat * A)) (ls : list (list A)) : Prop :=
    fst g = fold_left step (map snd (rev (snd g))) s0 /\
    (forall j, proj j (rev (snd g)) ++ nth j ls [] = nth j ths0 []) /\
    Permutation (map snd (rev (snd g)) ++ concat ls) (concat ths0) /\
    length ls = length ths0.

  Lemma conc_run_inv sched s0 ths :
    RunInv s0 ths (fst (conc_run step sched s0 ths)) (snd (conc_run step sched s0 ths)).
  Proof.
    unfold conc_run. apply (sched_invariant (istep step) (RunInv s0 ths)).
    - intros i (s, tr) ls l (s', tr') l' (H1 & H2 & H3 & H4) Hn Hs. simpl in *.
      unfold istep in Hs. destruct l as [|a r]; [discriminate|]. simpl in Hs. inversion Hs; subst s' tr' l'. clear Hs.
      destruct (nth_error_nth' _ _ _ [] Hn) as (Hnth & Hlt).
      unfold RunInv; simpl. rewrite map_app, fold_left_app. simpl. split; [rewrite H1; reflexivity|]. split; [|split].
      + intros j. rewrite proj_app. unfold proj at 2. simpl. destruct (Nat.eqb_spec i j) as [->|Hne].
        * simpl. rewrite nth_upd_nth_same by exact Hlt. rewrite <- app_assoc. simpl. rewrite <- (H2 j), Hnth. reflexivity.
        * simpl. rewrite app_nil_r, nth_upd_nth_other by congruence. apply H2.
      + rewrite <- H3, <- app_assoc. apply Permutation_app_head. simpl.
        rewrite (concat_upd_perm ls i a r Hn). reflexivity.
      + rewrite upd_nth_length. exact H4.
    - unfold RunInv; simpl. split; [reflexivity|]. split; [intros j; reflexivity|]. split; reflexivity.
  Qed.

  (** every concurrent execution is the sequential execution of its history *)
  Lemma conc_is_sequential sched s0 ths :
    conc_state step sched s0 ths = fold_left step (conc_history step sched s0 ths) s0.
  Proof. apply (conc_run_inv sched s0 ths). Qed.

  (** the history respects each thread's program order: what thread [j] did, then what is left *)
  Lemma conc_program_order sched s0 ths j :
    proj j (conc_trace step sched s0 ths) ++ nth j (conc_rest step sched s0 ths) [] = nth j ths [].
  Proof. apply (conc_run_inv sched s0 ths). Qed.

  (** nothing invented, nothing lost *)
  Lemma conc_history_perm sched s0 ths :
    Permutation (conc_history step sched s0 ths ++ concat (conc_rest step sched s0 ths)) (concat ths).
  Proof. apply (conc_run_inv sched s0 ths). Qed.

  Lemma concat_all_done (ls : list (list A)) : all_done ls -> concat ls = [].
  Proof. induction 1 as [|l ls Hl _ IH]; simpl; [reflexivity|]. subst l. exact IH. Qed.

  (** once all threads have finished the history is a permutation of all the calls *)
  Lemma conc_complete_perm sched s0 ths :
    all_done (conc_rest step sched s0 ths) -> Permutation (conc_history step sched s0 ths) (concat ths).
  Proof.
    intros Hd. pose proof (conc_history_perm sched s0 ths) as H.
    rewrite (concat_all_done _ Hd), app_nil_r in H. exact H.
  Qed.

  Lemma conc_history_in sched s0 ths a :
    In a (conc_history step sched s0 ths) -> exists th, In th ths /\ In a th.
  Proof.
    intros H. assert (Hc : In a (concat ths)).
    { eapply Permutation_in; [apply conc_history_perm|]. apply in_or_app. left. exact H. }
    apply in_concat in Hc. exact Hc.
  Qed.

  (** hence: a property of ALL sequential histories (over the threads' actions) holds at EVERY
      instant of EVERY concurrent execution *)
  Lemma conc_every_instant (Q : A -> Prop) (P : S -> Prop) s0 :
    (forall l, Forall Q l -> P (fold_left step l s0)) ->
    forall ths, Forall (Forall Q) ths -> forall sched, P (conc_state step sched s0 ths).
  Proof.
    intros Hall ths HQ sched. rewrite conc_is_sequential. apply Hall.
    apply Forall_forall. intros a Ha. destruct (conc_history_in _ _ _ _ Ha) as (th & Hth & Hin).
    rewrite Forall_forall in HQ. specialize (HQ _ Hth). rewrite Forall_forall in HQ. exact (HQ _ Hin).
  Qed.

  (** a prefix of a schedule is a schedule: "every instant" = every prefix *)
  Lemma conc_prefix_state s1 s2 s0 ths :
    exists l2, conc_history step (s1 ++ s2) s0 ths = conc_history step s1 s0 ths ++ l2.
  Proof.
    unfold conc_history, conc_trace, conc_run. rewrite run_sched_app.
    destruct (run_sched (istep step) s1 (s0, [], ths)) as ((s, tr), ls).
    assert (Hgen : forall sched s tr ls, exists ext,
               snd (fst (run_sched (istep step) sched (s, tr, ls))) = ext ++ tr).
    { clear. induction sched as [|i sched IH]; intros s tr ls; [exists []; reflexivity|].
      unfold run_sched. simpl fold_left. unfold sstep at 2. simpl fst; simpl snd.
      destruct (nth_error ls i) as [l|]; [|apply IH].
      destruct l as [|a r]; simpl; [apply IH|].
      destruct (IH (step s a) ((i, a) :: tr) (upd_nth i r ls)) as (ext & E).
      exists (ext ++ [(i, a)]). unfold run_sched in E. rewrite E, <- app_assoc. reflexivity. }
    destruct (Hgen s2 s tr ls) as (ext & E). rewrite E. simpl.
    exists (map snd (rev ext)). rewrite rev_app_distr, map_app. reflexivity.
  Qed.
End InterleaveProofs.

(** ---------- 3. the hash index and its counters ---------- *)

Open Scope Z_scope.

Definition pend_cnt (ms : list micro) : Z :=
  fold_right (fun m a => match m with MInc => 1 | MDec => -1 | _ => 0 end + a) 0 ms.
Definition pend_bytes (ms : list micro) : Z :=
  fold_right (fun m a => match m with MAddB z => z | MSubB z => - z | _ => 0 end + a) 0 ms.

Lemma pend_cnt_cons m ms :
  pend_cnt (m :: ms) = match m with MInc => 1 | MDec => -1 | _ => 0 end + pend_cnt ms.
Proof. reflexivity. Qed.
Lemma pend_bytes_cons m ms :
  pend_bytes (m :: ms) = match m with MAddB z => z | MSubB z => - z | _ => 0 end + pend_bytes ms.
Proof. reflexivity. Qed.

(** counter updates owed by all the threads *)
Definition owed_cnt (ths : list thread) : Z := fold_right (fun th a => pend_cnt (fst th) + a) 0 ths.
Definition owed_bytes (ths : list thread) : Z := fold_right (fun th a => pend_bytes (fst th) + a) 0 ths.

Definition micro_nc (m : micro) : Prop := m <> MSetC0 /\ m <> MSetB0.
Definition thread_nc (th : thread) : Prop := Forall micro_nc (fst th) /\ Forall (fun c => c <> CClear) (snd th).

(** THE invariant: counter + increments owed - decrements owed = |map|, same for bytes *)
Definition CntInv (g : hstate) (ths : list thread) : Prop :=
  Forall thread_nc ths /\
  h_cnt g + owed_cnt ths = Z.of_nat (length (h_map g)) /\
  h_bytes g + owed_bytes ths = sum_sz (h_map g).

Lemma owed_cnt_upd ths i th th' : nth_error ths i = Some th ->
  owed_cnt (upd_nth i th' ths) = owed_cnt ths - pend_cnt (fst th) + pend_cnt (fst th').
Proof.
  revert i; induction ths as [|x ths IH]; intros [|i] H; simpl in *; try discriminate.
  - inversion H; subst. lia.
  - rewrite (IH _ H). lia.
Qed.

Lemma owed_bytes_upd ths i th th' : nth_error ths i = Some th ->
  owed_bytes (upd_nth i th' ths) = owed_bytes ths - pend_bytes (fst th) + pend_bytes (fst th').
Proof.
  revert i; induction ths as [|x ths IH]; intros [|i] H; simpl in *; try discriminate.
  - inversion H; subst. lia.
  - rewrite (IH _ H). lia.
Qed.

Lemma Forall_upd_nth {X} (P : X -> Prop) i x l : Forall P l -> P x -> Forall P (upd_nth i x l).
Proof.
  intros Hl Hx. revert i; induction Hl as [|y l Hy Hl IH]; intros [|i]; simpl; constructor; auto.
Qed.

Lemma Forall_nth_error {X} (P : X -> Prop) l i x : Forall P l -> nth_error l i = Some x -> P x.
Proof. intros H E. rewrite Forall_forall in H. apply H. eapply nth_error_In. exact E. Qed.

(** every atomic step of every thread preserves the invariant *)
Lemma CntInv_step i g ths th g' th' :
  CntInv g ths -> nth_error ths i = Some th -> cstep i g th = Some (g', th') -> CntInv g' (upd_nth i th' ths).
Proof.
  intros (Hnc & Hc & Hb) Hn Hs.
  pose proof (Forall_nth_error _ _ _ _ Hnc Hn) as (Hm & Hcalls).
  unfold CntInv. rewrite (owed_cnt_upd _ _ _ th' Hn), (owed_bytes_upd _ _ _ th' Hn).
  destruct th as (ms, cs). simpl in Hm, Hcalls. unfold cstep in Hs.
  destruct ms as [|m ms].
  - destruct cs as [|c cs]; [discriminate|]. inversion Hcalls as [|? ? Hc1 Hcs]; subst.
    destruct c as [t|h|]; [| |congruence].
    + destruct (alookup (h_map g) (hash t)) as [t0|] eqn:E; inversion Hs; subst g' th'; clear Hs.
      * split; [apply Forall_upd_nth; [exact Hnc|split; [constructor|exact Hcs]]|]. simpl. split; lia.
      * split; [apply Forall_upd_nth; [exact Hnc|split; [|exact Hcs]]|].
        { simpl. repeat constructor; discriminate. }
        simpl. unfold sum_sz in *. simpl. split; lia.
    + destruct (alookup (h_map g) h) as [t|] eqn:E; inversion Hs; subst g' th'; clear Hs.
      * split; [apply Forall_upd_nth; [exact Hnc|split; [|exact Hcs]]|].
        { simpl. repeat constructor; discriminate. }
        simpl. rewrite (aremove_length _ _ _ E) in Hc. rewrite (sum_sz_aremove _ _ _ E) in Hb. split; lia.
      * split; [apply Forall_upd_nth; [exact Hnc|split; [constructor|exact Hcs]]|]. simpl. split; lia.
  - inversion Hs; subst g' th'; clear Hs. inversion Hm as [|? ? (Hm1 & Hm2) Hms]; subst.
    split; [apply Forall_upd_nth; [exact Hnc|split; [exact Hms|exact Hcalls]]|].
    cbn [fst]. rewrite pend_cnt_cons, pend_bytes_cons.
    destruct m; cbn [do_micro h_cnt h_bytes h_map]; try congruence; split; lia.
Qed.

Lemma owed_quiescent ths : quiescent ths -> owed_cnt ths = 0 /\ owed_bytes ths = 0.
Proof. induction 1 as [|th ths Hth _ IH]; simpl; [split; reflexivity|]. subst th. simpl. lia. Qed.

Lemma start_nc calls : no_clear calls -> Forall thread_nc (start calls).
Proof.
  unfold no_clear, start. intros H. apply Forall_forall. intros th Hin. apply in_map_iff in Hin.
  destruct Hin as (cs & <- & Hcs). rewrite Forall_forall in H. split; [constructor|apply H; exact Hcs].
Qed.

Lemma start_owed calls : owed_cnt (start calls) = 0 /\ owed_bytes (start calls) = 0.
Proof. induction calls as [|c calls IH]; simpl; [split; reflexivity|]. lia. Qed.

Definition consistent (g : hstate) : Prop :=
  h_cnt g = Z.of_nat (length (h_map g)) /\ h_bytes g = sum_sz (h_map g).

(** the invariant holds at EVERY instant of EVERY schedule (Clear excluded) *)
Theorem counters_every_instant sched g0 calls :
  consistent g0 -> no_clear calls ->
  CntInv (fst (run_counters sched g0 calls)) (snd (run_counters sched g0 calls)).
Proof.
  intros (Hc & Hb) Hnc. unfold run_counters. apply (sched_invariant cstep CntInv).
  - intros i g ls l g' l'. apply CntInv_step.
  - destruct (start_owed calls) as (E1 & E2). split; [apply start_nc; exact Hnc|]. rewrite E1, E2. split; lia.
Qed.

(** quiescent consistency: for every schedule, once all threads have finished,
    counter = |map| and numBytes = sum of the sizes of the map's values *)
Theorem quiescent_counters sched g0 calls :
  consistent g0 -> no_clear calls ->
  quiescent (snd (run_counters sched g0 calls)) ->
  consistent (fst (run_counters sched g0 calls)).
Proof.
  intros H0 Hnc Hq. destruct (counters_every_instant sched g0 calls H0 Hnc) as (_ & Hc & Hb).
  destruct (owed_quiescent _ Hq) as (E1 & E2). rewrite E1 in Hc. rewrite E2 in Hb. split; lia.
Qed.

(** the hypothesis "all threads have finished" is reachable: running the threads one after the
    other (3 steps per call suffice) finishes them all — quiescence is not vacuous *)
Lemma quiescentb_spec ths : quiescentb ths = true <-> quiescent ths.
Proof.
  induction ths as [|th ths IH]; simpl; [split; [constructor|reflexivity]|].
  destruct th as (ms, cs). destruct ms as [|m ms]; [destruct cs as [|c cs]|].
  - rewrite IH. split; [intros H; constructor; [reflexivity|exact H]|intros H; inversion H; assumption].
  - split; [discriminate|intros H; inversion H; discriminate].
  - split; [discriminate|intros H; inversion H; discriminate].
Qed.

(** with a concurrent Clear the statement is FALSE: a removal whose map step precedes the Clear
    and whose counter updates follow it leaves counter = -1 with an empty map *)
Definition wit_tx : tx := mkTx [1%N] [65%N] 0 50000 100 7 100 None [].
Definition wit_calls : list (list call) := [[CAdd wit_tx; CRem [1%N]]; [CClear]].
Definition wit_sched : list nat := [0; 0; 0; 0; 1; 1; 1; 0; 0]%nat.

Lemma clear_breaks_quiescence :
  consistent empty_h /\
  quiescent (snd (run_counters wit_sched empty_h wit_calls)) /\
  h_map (fst (run_counters wit_sched empty_h wit_calls)) = [] /\
  h_cnt (fst (run_counters wit_sched empty_h wit_calls)) = -1 /\
  h_bytes (fst (run_counters wit_sched empty_h wit_calls)) = -7.
Proof.
  split; [split; reflexivity|]. split; [apply quiescentb_spec; vm_compute; reflexivity|].
  vm_compute. repeat split; reflexivity.
Qed.
