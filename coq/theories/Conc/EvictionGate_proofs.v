(** The eviction gate: mutual exclusion, and the flag is set exactly while its owner is between Set and Reset — so it
    is never left set: at every instant where no thread is inside doEviction's critical section the flag is clear and
    the mutex free.  For any number of threads, any schedule, any answers of isCapacityExceeded. *)
From Coq Require Import List Arith Bool Lia.
From Verif Require Import Conc.EvictionGate.
Import ListNotations.

Definition GInv (s : gate) : Prop :=
  count holds_mutex (pcs s) = (if mtx s then 1 else 0) /\
  count flag_owner (pcs s) = (if flag s then 1 else 0).

Lemma count_set_pc f l i p q : nth_error l i = Some p ->
  count f (set_pc l i q) + (if f p then 1 else 0) = count f l + (if f q then 1 else 0).
Proof.
  revert i; induction l as [|x l IH]; intros [|i] H; simpl in H; try discriminate.
  - inversion H; subst. unfold count. simpl. destruct (f p), (f q); simpl; lia.
  - specialize (IH i H). unfold count in *. simpl. destruct (f x); simpl; lia.
Qed.

Lemma length_set_pc l i q : length (set_pc l i q) = length l.
Proof. revert i; induction l as [|x l IH]; intros [|i]; simpl; auto. Qed.

Lemma flag_owner_holds p : flag_owner p = true -> holds_mutex p = true.
Proof. destruct p; simpl; auto. Qed.

Lemma count_le f g l : (forall p, f p = true -> g p = true) -> count f l <= count g l.
Proof.
  intros H. unfold count. induction l as [|x l IH]; simpl; [lia|].
  destruct (f x) eqn:E; [rewrite (H x E); simpl; lia|]. destruct (g x); simpl; lia.
Qed.

Lemma gstep_inv s ie : GInv s -> GInv (gstep false s ie).
Proof.
  intros (H1 & H2). destruct ie as (i, e). unfold gstep.
  destruct (nth_error (pcs s) i) as [p|] eqn:En; [|split; assumption].
  pose proof (fun q => count_set_pc holds_mutex (pcs s) i p q En) as C1.
  pose proof (fun q => count_set_pc flag_owner (pcs s) i p q En) as C2.
  pose proof (count_le flag_owner holds_mutex (pcs s) flag_owner_holds) as Hle.
  destruct p; simpl in C1, C2.
  - destruct (flag s) eqn:F; unfold GInv; cbn [pcs mtx flag]; rewrite ?F.
    + specialize (C1 PDone); specialize (C2 PDone); simpl in *. split; lia.
    + specialize (C1 PCap); specialize (C2 PCap); simpl in *. split; lia.
  - destruct e; unfold GInv; cbn [pcs mtx flag].
    + specialize (C1 PLock); specialize (C2 PLock); simpl in *. split; lia.
    + specialize (C1 PDone); specialize (C2 PDone); simpl in *. split; lia.
  - destruct (mtx s) eqn:M; [split; [rewrite M|]; assumption|]. unfold GInv; cbn [pcs mtx flag].
    specialize (C1 PSet); specialize (C2 PSet); simpl in *. split; lia.
  - (* PSet: this thread holds the mutex, so it is the only holder and nobody owns the flag *)
    unfold GInv; cbn [pcs mtx flag]. specialize (C1 PCap2); specialize (C2 PCap2); simpl in *.
    assert (mtx s = true) as M.
    { destruct (mtx s); [reflexivity|]. exfalso.
      assert (0 < count holds_mutex (pcs s)).
      { clear -En. revert i En. induction (pcs s) as [|x l IH]; intros [|i] En; simpl in En; try discriminate.
        - inversion En; subst. unfold count; simpl; lia.
        - specialize (IH i En). unfold count in *. simpl. destruct (holds_mutex x); simpl; lia. }
      lia. }
    rewrite M in *. assert (count flag_owner (pcs s) = 0) as Z.
    { (* every flag owner holds the mutex; the one holder is this thread, at PSet, not an owner *)
      assert (count flag_owner (set_pc (pcs s) i PCap2) <= count holds_mutex (set_pc (pcs s) i PCap2)) by (apply count_le, flag_owner_holds).
      lia. }
    destruct (flag s); split; lia.
  - destruct e; unfold GInv; cbn [pcs mtx flag].
    + specialize (C1 PEvict); specialize (C2 PEvict); simpl in *. split; lia.
    + specialize (C1 PReset); specialize (C2 PReset); simpl in *. split; lia.
  - unfold GInv; cbn [pcs mtx flag]. specialize (C1 PReset); specialize (C2 PReset); simpl in *. split; lia.
  - (* PReset: this thread is the flag owner *)
    unfold GInv; cbn [pcs mtx flag]. specialize (C1 PUnlock); specialize (C2 PUnlock); simpl in *.
    assert (flag s = true) as F.
    { destruct (flag s); [reflexivity|]. exfalso. lia. }
    rewrite F in *. split; lia.
  - unfold GInv; cbn [pcs mtx flag]. specialize (C1 PDone); specialize (C2 PDone); simpl in *.
    assert (mtx s = true) as M by (destruct (mtx s); [reflexivity|exfalso; lia]).
    rewrite M in *. split; [lia|]. destruct (flag s); lia.
  - split; assumption.
Qed.

Lemma ginit_inv n : GInv (ginit n).
Proof.
  unfold GInv, ginit; cbn [pcs mtx flag]. assert (forall f, f PFlag = false -> count f (repeat PFlag n) = 0) as H.
  { intros f Hf. unfold count. induction n; simpl; [reflexivity|]. rewrite Hf. exact IHn. }
  split; apply H; reflexivity.
Qed.

Theorem grun_inv n sched : GInv (grun false n sched).
Proof.
  unfold grun. generalize (ginit_inv n). generalize (ginit n). induction sched as [|ie sched IH]; intros s H; simpl; [exact H|].
  apply IH. apply gstep_inv. exact H.
Qed.

Lemma count_zero_of_done f s : (forall p, f p = true -> p <> PDone) -> gate_all_done s = true -> count f (pcs s) = 0.
Proof.
  intros Hf H. unfold gate_all_done in H. unfold count. induction (pcs s) as [|x l IH]; simpl in *; [reflexivity|].
  apply andb_prop in H. destruct H as (Hx & Hl). destruct x; try discriminate.
  destruct (f PDone) eqn:E; [exfalso; apply (Hf PDone E); reflexivity|]. apply IH, Hl.
Qed.

(** mutual exclusion, and the flag belongs to the thread between Set and Reset, at every instant *)
Theorem gate_exclusion n sched : let s := grun false n sched in
  count holds_mutex (pcs s) <= 1 /\ (flag s = true <-> count flag_owner (pcs s) = 1) /\ (mtx s = true <-> count holds_mutex (pcs s) = 1).
Proof.
  cbv zeta. destruct (grun_inv n sched) as (H1 & H2). set (s := grun false n sched) in *.
  split; [destruct (mtx s); lia|]. split.
  - destruct (flag s); split; intros H; try reflexivity; try discriminate; lia.
  - destruct (mtx s); split; intros H; try reflexivity; try discriminate; lia.
Qed.

(** the gate is never left closed: whenever no thread is inside the critical section — in particular once every call
    has returned — the flag is clear and the mutex free, so the next doEviction is not turned away *)
Theorem gate_never_left_closed n sched : let s := grun false n sched in
  count holds_mutex (pcs s) = 0 -> flag s = false /\ mtx s = false.
Proof.
  cbv zeta. intros Hz. destruct (grun_inv n sched) as (H1 & H2).
  pose proof (count_le flag_owner holds_mutex (pcs (grun false n sched)) flag_owner_holds).
  destruct (mtx (grun false n sched)), (flag (grun false n sched)); try lia; try (split; reflexivity).
Qed.

Theorem gate_open_when_all_returned n sched : gate_all_done (grun false n sched) = true ->
  flag (grun false n sched) = false /\ mtx (grun false n sched) = false.
Proof.
  intros H. apply gate_never_left_closed. apply count_zero_of_done; [|exact H]. intros p Hp ->. discriminate.
Qed.

(** the seeded variant (Reset deferred only after the second capacity test) leaves the gate closed for good as soon as
    the capacity test under the mutex answers differently from the unlocked one (in the code: another thread evicted
    or removed in between; here the answers are arbitrary, so one thread suffices as a witness) *)
Theorem gate_reset_late_refuted : exists n sched, gate_all_done (grun true n sched) = true /\ flag (grun true n sched) = true.
Proof.
  exists 1, [(0, true); (0, true); (0, true); (0, true); (0, false); (0, false)]. vm_compute. split; reflexivity.
Qed.

(** once the gate is closed and every thread has returned, every later doEviction is turned away at its first test:
    no eviction ever runs again (what "left closed for good" means) *)
Theorem closed_gate_turns_everyone_away v s ie : gate_all_done s = true -> flag s = true ->
  gstep v s ie = s.
Proof.
  intros Hd Hf. destruct ie as (i, e). unfold gstep. destruct (nth_error (pcs s) i) as [p|] eqn:En; [|reflexivity].
  assert (p = PDone).
  { unfold gate_all_done in Hd. rewrite forallb_forall in Hd. specialize (Hd p (nth_error_In _ _ En)). destruct p; try discriminate. reflexivity. }
  subst p. reflexivity.
Qed.
