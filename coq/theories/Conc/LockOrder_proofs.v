(** Conc/LockOrder_proofs.v — soundness of the acyclicity check. *)
From Coq Require Import List Arith Bool Lia.
From Verif Require Import Conc.LockOrder.
Import ListNotations.

Lemma ranked_no_cycle (g : graph) (rk : nat -> nat) :
  (forall u v, In (u, v) g -> rk u < rk v) -> no_cycle g.
Proof.
  intros Hr. assert (Hp : forall u v, path g u v -> rk u < rk v).
  { induction 1 as [u v Hin|u w v Hin _ IH]; [apply Hr; exact Hin|]. specialize (Hr _ _ Hin). lia. }
  intros u Hu. specialize (Hp _ _ Hu). lia.
Qed.

(** acyclicb g n = true -> no cycle (whatever n, whatever the relaxation computed) *)
Theorem acyclicb_sound (g : graph) (n : nat) : acyclicb g n = true -> no_cycle g.
Proof.
  unfold acyclicb. intros H. rewrite forallb_forall in H.
  apply (ranked_no_cycle g (fun x => nth x (ranks g n) 0)).
  intros u v Hin. specialize (H _ Hin). simpl in H. apply Nat.ltb_lt in H. exact H.
Qed.

(** the check is not vacuous: it rejects cycles and self-loops, accepts a diamond *)
Example acyclicb_examples :
  acyclicb [(0, 1); (1, 2); (0, 2); (3, 2)] 4 = true /\
  acyclicb [(0, 1); (1, 2); (2, 0)] 3 = false /\
  acyclicb [(1, 1)] 2 = false.
Proof. vm_compute. repeat split; reflexivity. Qed.

(** a graph with a cycle is never accepted *)
Lemma acyclicb_complete_on_cycles (g : graph) (n u : nat) : path g u u -> acyclicb g n = false.
Proof.
  intros Hp. destruct (acyclicb g n) eqn:E; [|reflexivity]. exfalso. exact (acyclicb_sound g n E u Hp).
Qed.
