(** Conc/LockOrder.v — lock-order graphs (C14, stretch). Definitions only.
    Nodes are mutex fields (numbered by the extractor harness/stress/lockgraph.go), an edge (u, v)
    says: somewhere in the code mutex v is acquired while mutex u is held (directly or through the
    static call graph).  No cycle in this graph => no circular wait among these mutexes. *)
From Coq Require Import List Arith Bool.
Import ListNotations.

Definition graph : Type := list (nat * nat).

Inductive path (g : graph) : nat -> nat -> Prop :=
| path_edge u v : In (u, v) g -> path g u v
| path_step u w v : In (u, w) g -> path g w v -> path g u v.

Definition no_cycle (g : graph) : Prop := forall u, ~ path g u u.

(** candidate ranks by longest-path relaxation (NOT trusted: only the final check below matters) *)
Definition relax (g : graph) (n : nat) (r : list nat) : list nat :=
  map (fun v => fold_left (fun acc e => if Nat.eqb (snd e) v then Nat.max acc (S (nth (fst e) r 0)) else acc) g (nth v r 0))
      (seq 0 n).

Fixpoint iter {A} (k : nat) (f : A -> A) (x : A) : A := match k with O => x | S k' => iter k' f (f x) end.

Definition ranks (g : graph) (n : nat) : list nat := iter (S n) (relax g n) (repeat 0 n).

(** the decision procedure: every edge goes strictly up in rank *)
Definition acyclicb (g : graph) (n : nat) : bool :=
  let r := ranks g n in forallb (fun e => Nat.ltb (nth (fst e) r 0) (nth (snd e) r 0)) g.
