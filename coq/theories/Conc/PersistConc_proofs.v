(** C11 -- proofs about the interleaving model of Conc/PersistConc.v.

    Structure (rely/guarantee over the shared variables):
      [core_inv]   invariant of the shared variables (batch well-formed, lock mutual exclusion);
      [agent_inv]  what is known about one goroutine at its program counter: which locks it holds,
                   and for a reader that has missed the batch, an instant of its interval at which
                   the register equalled what LevelDB holds NOW;
      [guar]       what a step of ANOTHER goroutine may do to the shared variables;
      [agent_inv_stable]  agent_inv survives any step satisfying guar;
      [outcome_sound]     every action of the current code establishes guar, keeps
                          "register = overlay(batch, disk)" and yields only reads that the
                          register justified inside their interval. *)
From Coq Require Import List NArith ZArith Bool Lia PeanoNat.
From Verif Require Import Base.BStr Persist.Batch Persist.MapSpec Persist.PersistSpec Persist.Batch_proofs
  Conc.PersistConc.
Import ListNotations.

(** ---- lists ---- *)
Lemma nth_error_upd_nth_eq {A} (l : list A) i x y :
  nth_error l i = Some y -> nth_error (upd_nth l i x) i = Some x.
Proof.
  revert i; induction l as [|z l IH]; intros [|i] H; simpl in *; try discriminate; auto.
Qed.

Lemma nth_error_upd_nth_neq {A} (l : list A) i j x :
  i <> j -> nth_error (upd_nth l i x) j = nth_error l j.
Proof.
  revert i j; induction l as [|z l IH]; intros [|i] [|j] H; simpl; auto; try congruence.
Qed.

(** ---- traces and the register ---- *)
Definition bounded (tr : trace) (n : nat) : Prop := Forall (fun e => (fst e <= n)%nat) tr.
Definition stamped (tr : trace) (n : nat) : Prop := Forall (fun e => fst e = n) tr.

Lemma bounded_mono tr n n' : bounded tr n -> (n <= n')%nat -> bounded tr n'.
Proof. unfold bounded. intros H Hle. eapply Forall_impl; [|exact H]. simpl. intros; lia. Qed.

Lemma bounded_app new tr n : stamped new n -> bounded tr n -> bounded (new ++ tr) n.
Proof.
  intros Hs Hb. apply Forall_app. split; [|exact Hb].
  eapply Forall_impl; [|exact Hs]. simpl. intros; lia.
Qed.

Lemma bounded_in tr n t e : bounded tr n -> In (t, e) tr -> (t <= n)%nat.
Proof. intros Hb Hi. unfold bounded in Hb. rewrite Forall_forall in Hb. apply (Hb _ Hi). Qed.

(** events stamped later than [t] do not change the register at [t] *)
Lemma reg_at_app_later m0 new tr n t :
  stamped new n -> (t < n)%nat -> reg_at m0 (new ++ tr) t = reg_at m0 tr t.
Proof.
  intros Hs Hlt. induction new as [|[t' e] new IH]; simpl; [reflexivity|].
  pose proof (Forall_inv Hs) as Ht. pose proof (Forall_inv_tail Hs) as Hs'. simpl in Ht. subst t'.
  destruct (Nat.leb_spec n t); [lia|]. apply IH. exact Hs'.
Qed.

(** nothing happens to the register after the last event *)
Lemma reg_at_beyond m0 tr n t :
  bounded tr n -> (n <= t)%nat -> reg_at m0 tr t = reg_at m0 tr n.
Proof.
  intros Hb Hle. induction tr as [|[t' e] tr IH]; simpl; [reflexivity|].
  pose proof (Forall_inv Hb) as Ht. pose proof (Forall_inv_tail Hb) as Hb'. simpl in Ht.
  destruct (Nat.leb_spec t' t); [|lia]. destruct (Nat.leb_spec t' n); [|lia].
  rewrite IH by exact Hb'. reflexivity.
Qed.

Definition is_lin (e : ev) : bool := match e with EvLin _ _ => true | _ => false end.

Lemma apply_ev_nolin e m : is_lin e = false -> apply_ev e m = m.
Proof. destruct e; simpl; try reflexivity. discriminate. Qed.

Lemma reg_at_cons_nolin m0 t e tr t' :
  is_lin e = false -> reg_at m0 ((t, e) :: tr) t' = reg_at m0 tr t'.
Proof. intros H. simpl. rewrite apply_ev_nolin by exact H. destruct (t <=? t')%nat; reflexivity. Qed.

(** the register right after the events [new] of instant [S n] *)
Lemma reg_at_new_now m0 new tr n :
  stamped new (S n) -> bounded tr n ->
  reg_at m0 (new ++ tr) (S n) = fold_right (fun e m => apply_ev (snd e) m) (reg_at m0 tr n) new.
Proof.
  intros Hs Hb. induction new as [|[t' e] new IH]; simpl.
  - apply reg_at_beyond; [exact Hb|lia].
  - pose proof (Forall_inv Hs) as Ht. pose proof (Forall_inv_tail Hs) as Hs'. simpl in Ht. subst t'.
    rewrite Nat.leb_refl. rewrite IH by exact Hs'. reflexivity.
Qed.

(** ---- the batch ---- *)
Lemma abs_write_same b d k :
  batch_ok b -> batch_abs b (apply_log (b_log b) d) k = batch_abs b d k.
Proof.
  intros (_ & _ & Hl). unfold batch_abs, overlay. unfold disk_map at 1. rewrite Hl.
  unfold overlay. destruct (smem k (b_removed b)); [reflexivity|].
  destruct (alookup k (b_cached b)); reflexivity.
Qed.

Lemma dget_written b d k :
  batch_ok b -> dget k (apply_log (b_log b) d) = batch_abs b d k.
Proof. intros (_ & _ & Hl). apply Hl. Qed.

Lemma abs_new_batch d k : batch_abs new_batch d k = dget k d.
Proof. reflexivity. Qed.

Lemma abs_removed b d k : batch_is_removed b k = true -> batch_abs b d k = None.
Proof. unfold batch_is_removed, batch_abs, overlay. intros ->. reflexivity. Qed.

Lemma abs_hit b d k data :
  batch_is_removed b k = false -> batch_get b k = Some data -> batch_abs b d k = Some data.
Proof.
  unfold batch_is_removed, batch_get, batch_abs, overlay. intros -> H.
  destruct (alookup k (b_cached b)) as [w|]; [|discriminate]. subst w. reflexivity.
Qed.

Lemma abs_miss b d k :
  batch_ok b -> batch_is_removed b k = false -> batch_get b k = None -> batch_abs b d k = dget k d.
Proof.
  intros (_ & Hn & _). unfold batch_is_removed, batch_get, batch_abs, overlay. intros -> H.
  destruct (alookup k (b_cached b)) as [w|] eqn:E; [|reflexivity].
  subst w. exfalso. eapply Hn; [exact E|reflexivity].
Qed.

Lemma removed_put b k x k' :
  batch_is_removed b k' = false -> batch_is_removed (batch_put b k x) k' = false.
Proof.
  unfold batch_is_removed, batch_put. cbn [b_removed]. rewrite smem_sremove. intros ->.
  apply andb_false_r.
Qed.

(** ---- invariants ---- *)
Definition holds_w (p : pc) : bool := match p with PBEnq _ | PBRecv | PBFin => true | _ => false end.

Record core_inv (c : core) : Prop := {
  ci_batch : batch_ok (c_batch c);
  ci_mutex : c_wl c <> None -> c_rl c = []
}.

(** which locks goroutine [b] holds is determined by its program counter *)
Definition locks_ok (c : core) (b : agent) (p : pc) : Prop :=
  (In b (c_rl c) <-> p = PGetMid) /\ (c_wl c = Some b <-> holds_w p = true).

(** LevelDB already has everything the pending batch announces *)
Definition written (c : core) : Prop := forall k, dget k (c_disk c) = abs c k.

Definition wcall (a : agent) (cl : option call) : Prop :=
  match a with Timer => True | User _ => exists c0, cl = Some c0 /\ is_write c0 = true end.
Definition rcall (cl : option call) (P : call -> Prop) : Prop :=
  exists rd, cl = Some rd /\ is_read rd = true /\ P rd.

Definition pc_inv (m0 : mapspec) (c : core) (tr : trace) (n : nat) (a : agent) (p : pc)
  (cl : option call) (tc : nat) : Prop :=
  match p with
  | PIdle => True
  | PInc | PBLock => wcall a cl
  | PGetMid => rcall cl (fun rd => batch_is_removed (c_batch c) (ckey rd) = false)
  | PGetDisk => rcall cl (fun rd => exists t, (tc <= t <= n)%nat /\ reg_at m0 tr t (ckey rd) = dget (ckey rd) (c_disk c))
  | PGetRecv x => rcall cl (fun rd => exists t, (tc <= t <= n)%nat /\ reg_at m0 tr t (ckey rd) = x)
  | PBEnq b => b = c_batch c /\ wcall a cl
  | PBRecv | PBFin => written c /\ wcall a cl
  end.

Definition call_inv (tr : trace) (n : nat) (a : agent) (p : pc) (cl : option call) (tc : nat) : Prop :=
  match a with
  | Timer => cl = None /\ tc = O
  | User _ =>
      p <> PIdle ->
      exists c0, cl = Some c0 /\ (1 <= tc <= n)%nat /\ In (tc, EvCall a c0) tr
                 /\ (is_write c0 = true -> In (tc, EvLin a c0) tr)
  end.

Definition agent_inv m0 c tr n a p cl tc : Prop :=
  locks_ok c a p /\ pc_inv m0 c tr n a p cl tc /\ call_inv tr n a p cl tc.

(** what a step of goroutine [a] may do to the shared variables, as seen by the others *)
Record guar (a : agent) (c c' : core) : Prop := {
  g_rl : forall b, b <> a -> (In b (c_rl c') <-> In b (c_rl c));
  g_wl : forall b, b <> a -> (c_wl c' = Some b <-> c_wl c = Some b);
  g_held : forall b, b <> a -> c_wl c = Some b -> c_batch c' = c_batch c /\ c_disk c' = c_disk c;
  g_removed : forall b k, b <> a -> In b (c_rl c) ->
      batch_is_removed (c_batch c) k = false -> batch_is_removed (c_batch c') k = false;
  g_disk : c_disk c' = c_disk c \/ written c'
}.

Lemma agent_inv_stable m0 a b c c' tr new n p cl tc :
  b <> a -> guar a c c' -> stamped new (S n) -> bounded tr n ->
  (forall k, reg_at m0 (new ++ tr) (S n) k = abs c' k) ->
  agent_inv m0 c tr n b p cl tc -> agent_inv m0 c' (new ++ tr) (S n) b p cl tc.
Proof.
  intros Hne G Hs Hb HB' (Hl & Hp & Hc). split; [|split].
  - destruct Hl as [H1 H2]. split.
    + rewrite <- H1. apply (g_rl _ _ _ G). exact Hne.
    + rewrite <- H2. apply (g_wl _ _ _ G). exact Hne.
  - destruct p; simpl in *; auto.
    + destruct Hp as (rd & E & R & Hr). exists rd. split; [exact E|]. split; [exact R|].
      eapply (g_removed _ _ _ G); [exact Hne| |exact Hr]. apply (proj1 Hl). reflexivity.
    + destruct Hp as (rd & E & R & t & Ht & Hreg). exists rd. split; [exact E|]. split; [exact R|].
      destruct (g_disk _ _ _ G) as [Hd|Hd].
      * exists t. split; [lia|]. rewrite (reg_at_app_later m0 new tr (S n)) by (auto; lia).
        rewrite Hd. exact Hreg.
      * exists (S n). split; [lia|]. rewrite HB'. symmetry. apply Hd.
    + destruct Hp as (rd & E & R & t & Ht & Hreg). exists rd. split; [exact E|]. split; [exact R|].
      exists t. split; [lia|]. rewrite (reg_at_app_later m0 new tr (S n)) by (auto; lia). exact Hreg.
    + destruct Hp as [Hp Hw]. split; [|exact Hw]. subst b0.
      symmetry. apply (g_held _ _ _ G b Hne). apply (proj2 Hl). reflexivity.
    + destruct Hp as [Hp Hw]. split; [|exact Hw].
      destruct (g_held _ _ _ G b Hne) as [E1 E2]; [apply (proj2 Hl); reflexivity|].
      unfold written, abs in *. rewrite E1, E2. exact Hp.
    + destruct Hp as [Hp Hw]. split; [|exact Hw].
      destruct (g_held _ _ _ G b Hne) as [E1 E2]; [apply (proj2 Hl); reflexivity|].
      unfold written, abs in *. rewrite E1, E2. exact Hp.
  - unfold call_inv in *. destruct b; [exact Hc|]. intros Hp0.
    destruct (Hc Hp0) as (c0 & E & Ht & Hi & Hw). exists c0. split; [exact E|]. split; [lia|].
    split; [apply in_or_app; right; exact Hi|]. intros W. apply in_or_app; right. exact (Hw W).
Qed.

(** a step on which nothing happens (blocked action, idle goroutine): only time passes *)
Lemma agent_inv_tick m0 c tr n b p cl tc :
  bounded tr n -> agent_inv m0 c tr n b p cl tc -> agent_inv m0 c tr (S n) b p cl tc.
Proof.
  intros Hb (Hl & Hp & Hc). split; [exact Hl|]. split.
  - destruct p; simpl in *; auto.
    + destruct Hp as (rd & E & R & t & Ht & Hreg). exists rd. split; [exact E|]. split; [exact R|].
      exists t. split; [lia|exact Hreg].
    + destruct Hp as (rd & E & R & t & Ht & Hreg). exists rd. split; [exact E|]. split; [exact R|].
      exists t. split; [lia|exact Hreg].
  - unfold call_inv in *. destruct b; [exact Hc|]. intros Hp0.
    destruct (Hc Hp0) as (c0 & E & Ht & Hi & Hw). exists c0. split; [exact E|]. split; [lia|]. auto.
Qed.

(** ---- every action of the current code ---- *)
Definition starts (n : nat) (a : agent) (p : pc) (cl : option call) : trace :=
  match a, cl with User _, Some c0 => start_events n a p c0 | _, _ => [] end.

Definition result_ok (m0 : mapspec) (tr : trace) (n tc : nat) (cl : option call) (r : answer) : Prop :=
  forall c0, cl = Some c0 ->
    (is_write c0 = true -> r = ans_ok) /\
    (is_read c0 = true -> exists t, (tc <= t <= n)%nat /\ r = to_ans c0 (reg_at m0 tr t (ckey c0))).

Definition post (m0 : mapspec) (a : agent) (cl : option call) (p : pc) (c : core) (tr : trace)
  (n tc : nat) (out : outcome) : Prop :=
  let n' := S n in
  let tr' := starts n' a p cl ++ tr in
  let tc' := if is_idle p then n' else tc in
  match out with
  | Blocked => True
  | Goto c' p' =>
      p' <> PIdle /\ core_inv c' /\ guar a c c' /\ (forall k, reg_at m0 tr' n' k = abs c' k)
      /\ locks_ok c' a p' /\ pc_inv m0 c' tr' n' a p' cl tc'
  | Return c' r =>
      core_inv c' /\ guar a c c' /\ (forall k, reg_at m0 tr' n' k = abs c' k)
      /\ locks_ok c' a PIdle /\ result_ok m0 tr' n' tc' cl r
  end.

Lemma can_r_true c : can_r c = true -> c_wl c = None.
Proof. unfold can_r. destruct (c_wl c); [discriminate|reflexivity]. Qed.
Lemma can_w_true c : can_w c = true -> c_wl c = None /\ c_rl c = [].
Proof. unfold can_w. destruct (c_wl c); [discriminate|]. destruct (c_rl c); [auto|discriminate]. Qed.

Lemma stamped_start n a p c0 : stamped (start_events n a p c0) n.
Proof. unfold start_events. destruct (is_idle p), (is_write c0); repeat constructor. Qed.
Lemma stamped_starts n a p cl : stamped (starts n a p cl) n.
Proof. unfold starts. destruct a; [constructor|]. destruct cl; [apply stamped_start|constructor]. Qed.

Lemma starts_nonidle n a p cl : is_idle p = false -> starts n a p cl = [].
Proof. unfold starts, start_events. intros ->. destruct a; [reflexivity|]. destruct cl; reflexivity. Qed.

Lemma to_ans_write c0 x : is_write c0 = true -> to_ans c0 x = ans_ok.
Proof. destruct c0; simpl; try discriminate; reflexivity. Qed.

Ltac csimpl := cbn [c_batch c_disk c_size c_wl c_rl c_busy set_batch set_disk set_size set_wl set_rl set_busy flush_now batch_reset] in *.

Section Sound.
Variables (v : variant) (max : Z) (m0 : mapspec) (a : agent) (c : core) (tr : trace) (n : nat).
Hypothesis Hold : old v = false.
Hypothesis HC : core_inv c.
Hypothesis HB : forall k, reg_at m0 tr n k = abs c k.
Hypothesis Hbd : bounded tr n.

(** the register does not move when nothing is linearised at this instant *)
Lemma reg_nonidle p cl k : is_idle p = false -> reg_at m0 (starts (S n) a p cl ++ tr) (S n) k = abs c k.
Proof.
  intros Hp. rewrite starts_nonidle by exact Hp. simpl.
  rewrite (reg_at_beyond m0 tr n (S n)) by (auto; lia). apply HB.
Qed.

Lemma reg_idle_read i rd k :
  a = User i -> is_read rd = true ->
  reg_at m0 (starts (S n) a PIdle (Some rd) ++ tr) (S n) k = abs c k.
Proof.
  intros -> Hr. rewrite reg_at_new_now; [|apply stamped_starts|exact Hbd].
  unfold starts, start_events. unfold is_read in Hr. apply negb_true_iff in Hr. rewrite Hr. simpl. apply HB.
Qed.

Lemma reg_nonidle_t p cl t k :
  is_idle p = false -> reg_at m0 (starts (S n) a p cl ++ tr) t k = reg_at m0 tr t k.
Proof. intros Hp. rewrite starts_nonidle by exact Hp. reflexivity. Qed.

(** guarantee of an action that leaves locks, batch and disk alone *)
Lemma guar_same c' :
  c_rl c' = c_rl c -> c_wl c' = c_wl c -> c_batch c' = c_batch c -> c_disk c' = c_disk c -> guar a c c'.
Proof.
  intros E1 E2 E3 E4. constructor.
  - intros b _. rewrite E1. tauto.
  - intros b _. rewrite E2. tauto.
  - intros b _ _. auto.
  - intros b k _ _. rewrite E3. auto.
  - left. exact E4.
Qed.

(** guarantee of an action run with the lock held exclusively from before to after *)
Lemma guar_excl c' :
  c_wl c = None -> c_rl c = [] -> c_wl c' = None -> c_rl c' = [] ->
  (c_disk c' = c_disk c \/ written c') -> guar a c c'.
Proof.
  intros E1 E2 E3 E4 Hd. constructor.
  - intros b _. rewrite E2, E4. tauto.
  - intros b _. rewrite E1, E3. tauto.
  - intros b _ H. rewrite E1 in H. discriminate.
  - intros b k _ H. rewrite E2 in H. destruct H.
  - exact Hd.
Qed.

Lemma core_inv_same_locks c' :
  batch_ok (c_batch c') -> c_wl c' = c_wl c -> c_rl c' = c_rl c -> core_inv c'.
Proof. intros Hb E1 E2. constructor; [exact Hb|]. rewrite E1, E2. apply (ci_mutex _ HC). Qed.

Lemma flush_sound c1 :
  c_batch c1 = c_batch c -> c_disk c1 = c_disk c -> c_wl c1 = c_wl c -> c_rl c1 = c_rl c ->
  c_wl c = None -> c_rl c = [] ->
  core_inv (flush_now c1) /\ guar a c (flush_now c1) /\ (forall k, abs (flush_now c1) k = abs c k).
Proof.
  intros E1 E2 E3 E4 W R.
  assert (Hw : written (flush_now c1)).
  { intros k. unfold abs. csimpl. reflexivity. }
  split; [|split].
  - constructor; csimpl; [apply new_batch_ok|]. rewrite E3, E4. apply (ci_mutex _ HC).
  - apply guar_excl; csimpl; auto; congruence.
  - intros k. unfold abs. csimpl. rewrite E1, E2. apply batch_abs_flush. apply (ci_batch _ HC).
Qed.

(** PIdle, Put: RLock ; batch.Put ; RUnlock *)
Lemma act_idle_put i k x tc :
  a = User i -> locks_ok c a PIdle ->
  post m0 a (Some (CPut k x)) PIdle c tr n tc (act v max a (Some (CPut k x)) PIdle c).
Proof.
  intros Ha [L1 L2]. unfold act. destruct (can_r c) eqn:Hr; [|exact I].
  apply can_r_true in Hr. unfold post. cbn [is_idle].
  split; [discriminate|]. split; [|split; [|split; [|split]]].
  - apply core_inv_same_locks; csimpl; auto. apply batch_put_ok. apply (ci_batch _ HC).
  - constructor; csimpl; try tauto.
    + intros b _ H. rewrite Hr in H. discriminate.
    + intros b k' _ _. apply removed_put.
  - intros k'. subst a. rewrite reg_at_new_now; [|apply stamped_starts|exact Hbd].
    unfold starts, start_events. simpl. unfold abs. csimpl. rewrite batch_abs_put.
    unfold m_put, m_upd. destruct (beqb k' k); [reflexivity|apply HB].
  - split; csimpl.
    + rewrite L1. split; discriminate.
    + rewrite Hr. split; discriminate.
  - simpl. subst a. exists (CPut k x). auto.
Qed.

(** PIdle, Remove: Lock ; batch.Delete ; Unlock *)
Lemma act_idle_remove i k tc :
  a = User i -> locks_ok c a PIdle ->
  post m0 a (Some (CRemove k)) PIdle c tr n tc (act v max a (Some (CRemove k)) PIdle c).
Proof.
  intros Ha [L1 L2]. unfold act. destruct (can_w c) eqn:Hw; [|exact I].
  apply can_w_true in Hw. destruct Hw as [W R]. unfold post. cbn [is_idle].
  split; [discriminate|]. split; [|split; [|split; [|split]]].
  - apply core_inv_same_locks; csimpl; auto. apply batch_delete_ok. apply (ci_batch _ HC).
  - apply guar_excl; csimpl; auto.
  - intros k'. subst a. rewrite reg_at_new_now; [|apply stamped_starts|exact Hbd].
    unfold starts, start_events. simpl. unfold abs. csimpl. rewrite batch_abs_delete.
    unfold m_remove, m_upd. destruct (beqb k' k); [reflexivity|apply HB].
  - split; csimpl.
    + rewrite R. simpl. split; [tauto|discriminate].
    + rewrite W. split; discriminate.
  - simpl. subst a. exists (CRemove k). auto.
Qed.

(** PIdle, Get/Has: RLock ; IsRemoved *)
Lemma act_idle_read i rd tc :
  a = User i -> is_read rd = true -> locks_ok c a PIdle ->
  post m0 a (Some rd) PIdle c tr n tc (act v max a (Some rd) PIdle c).
Proof.
  intros Ha Hrd [L1 L2].
  assert (Hact : act v max a (Some rd) PIdle c =
    if can_r c then
      if batch_is_removed (c_batch c) (ckey rd) then Return c (to_ans rd None)
      else Goto (set_rl c (a :: c_rl c)) PGetMid
    else Blocked).
  { unfold act. rewrite Hold. destruct rd; try discriminate; reflexivity. }
  rewrite Hact. clear Hact. destruct (can_r c) eqn:Hr; [|exact I]. apply can_r_true in Hr.
  destruct (batch_is_removed (c_batch c) (ckey rd)) eqn:Hrem; unfold post; cbn [is_idle].
  - split; [exact HC|]. split; [apply guar_same; reflexivity|].
    split; [intros k; eapply reg_idle_read; eauto|]. split; [split; assumption|].
    intros c0 E. inversion E; subst c0. split.
    + intros W. apply to_ans_write. exact W.
    + intros _. exists (S n). split; [lia|]. rewrite (reg_idle_read i rd) by auto.
      unfold abs. rewrite abs_removed by exact Hrem. reflexivity.
  - split; [discriminate|]. split; [|split; [|split; [|split]]].
    + constructor; csimpl; [apply (ci_batch _ HC)|]. intros H. contradiction.
    + constructor; csimpl; try tauto; auto.
      intros b Hne. split; [intros [E|H]; [congruence|exact H]|intros H; right; exact H].
    + intros k. rewrite (reg_idle_read i rd) by auto. reflexivity.
    + split; csimpl.
      * split; [reflexivity|intros _; left; reflexivity].
      * rewrite Hr. split; discriminate.
    + simpl. exists rd. auto.
Qed.

(** PGetMid: batch.Get ; RUnlock *)
Lemma act_getmid cl tc :
  locks_ok c a PGetMid -> pc_inv m0 c tr n a PGetMid cl tc -> (tc <= n)%nat ->
  post m0 a cl PGetMid c tr n tc (act v max a cl PGetMid c).
Proof.
  intros [L1 L2] (rd & E & Hrd & Hrem) Htc. subst cl. unfold act.
  assert (Hin : In a (c_rl c)) by (apply L1; reflexivity).
  assert (W : c_wl c = None).
  { destruct (c_wl c) eqn:Ew; [|reflexivity]. rewrite (ci_mutex _ HC) in Hin; [destruct Hin|congruence]. }
  set (c' := set_rl c (remove agent_eq_dec a (c_rl c))).
  assert (HC' : core_inv c').
  { constructor; unfold c'; csimpl; [apply (ci_batch _ HC)|]. intros H. contradiction. }
  assert (G : guar a c c').
  { constructor; unfold c'; csimpl; try tauto; auto.
    intros b Hne. split.
    - intros H. apply in_remove in H. tauto.
    - intros H. apply in_in_remove; auto. }
  assert (L' : forall p, p <> PGetMid -> holds_w p = false -> locks_ok c' a p).
  { intros p Hp Hw. split; unfold c'; csimpl.
    - split; [intros H; apply remove_In in H; destruct H|intros H; contradiction].
    - rewrite W, Hw. split; discriminate. }
  destruct (batch_get (c_batch c) (ckey rd)) as [data|] eqn:Hg; unfold post; cbn [is_idle].
  - split; [exact HC'|]. split; [exact G|]. split; [intros k; apply reg_nonidle; reflexivity|].
    split; [apply L'; [discriminate|reflexivity]|].
    intros c0 E0. inversion E0; subst c0. split; [intros Wr; apply to_ans_write; exact Wr|].
    intros _. exists (S n). split; [lia|]. rewrite reg_nonidle by reflexivity.
    unfold abs. rewrite (abs_hit _ _ _ data) by assumption. reflexivity.
  - split; [discriminate|]. split; [exact HC'|]. split; [exact G|].
    split; [intros k; apply reg_nonidle; reflexivity|]. split; [apply L'; [discriminate|reflexivity]|].
    simpl. exists rd. split; [reflexivity|]. split; [exact Hrd|]. exists (S n). split; [lia|].
    rewrite reg_nonidle by reflexivity. unfold c', abs. csimpl.
    apply abs_miss; auto. apply (ci_batch _ HC).
Qed.

(** PGetDisk, DB: db.Get / db.Has *)
Lemma act_getdisk cl tc :
  serial v = false ->
  locks_ok c a PGetDisk -> pc_inv m0 c tr n a PGetDisk cl tc ->
  post m0 a cl PGetDisk c tr n tc (act v max a cl PGetDisk c).
Proof.
  intros Hs L (rd & E & Hrd & t & Ht & Hreg). subst cl. unfold act. rewrite Hs.
  unfold post; cbn [is_idle]. split; [exact HC|]. split; [apply guar_same; reflexivity|].
  split; [intros k; apply reg_nonidle; reflexivity|]. split.
  - destruct L as [L1 L2]. split; [rewrite L1; split; discriminate|rewrite L2; split; discriminate].
  - intros c0 E0. inversion E0; subst c0. split; [intros Wr; apply to_ans_write; exact Wr|].
    intros _. exists t. split; [lia|]. rewrite reg_nonidle_t by reflexivity. rewrite Hreg. reflexivity.
Qed.

(** PGetRecv: take the answer out of the result channel *)
Lemma act_getrecv x cl tc :
  locks_ok c a (PGetRecv x) -> pc_inv m0 c tr n a (PGetRecv x) cl tc ->
  post m0 a cl (PGetRecv x) c tr n tc (act v max a cl (PGetRecv x) c).
Proof.
  intros L (rd & E & Hrd & t & Ht & Hreg). subst cl. unfold act.
  unfold post; cbn [is_idle]. split; [apply core_inv_same_locks; csimpl; auto; apply (ci_batch _ HC)|].
  split; [apply guar_same; reflexivity|].
  split; [intros k; rewrite reg_nonidle by reflexivity; reflexivity|]. split.
  - destruct L as [L1 L2]. split; csimpl; [rewrite L1; split; discriminate|rewrite L2; split; discriminate].
  - intros c0 E0. inversion E0; subst c0. split; [intros Wr; apply to_ans_write; exact Wr|].
    intros _. exists t. split; [lia|]. rewrite reg_nonidle_t by reflexivity. rewrite Hreg. reflexivity.
Qed.

Lemma result_ok_write tr' n' tc' cl : wcall a cl -> (a = Timer -> cl = None) -> result_ok m0 tr' n' tc' cl ans_ok.
Proof.
  intros Hw Ht c0 E. split; [reflexivity|]. intros Hr. exfalso. destruct a.
  - rewrite Ht in E by reflexivity. discriminate.
  - destruct Hw as (c1 & E1 & W). rewrite E in E1. inversion E1; subst c1.
    unfold is_read in Hr. rewrite W in Hr. discriminate.
Qed.

(** PInc: updateBatchWithIncrement *)
Lemma act_inc cl tc :
  locks_ok c a PInc -> wcall a cl -> (a = Timer -> cl = None) ->
  post m0 a cl PInc c tr n tc (act v max a cl PInc c).
Proof.
  intros [L1 L2] Hw Ht. unfold act. destruct (can_w c) eqn:Hcw; [|exact I].
  apply can_w_true in Hcw. destruct Hcw as [W R].
  assert (Lidle : forall c1, c_wl c1 = None -> c_rl c1 = [] -> forall p, p <> PGetMid -> holds_w p = false -> locks_ok c1 a p).
  { intros c1 W1 R1 p Hp Hh. split; [rewrite R1; simpl; tauto|rewrite W1, Hh; split; discriminate]. }
  csimpl. destruct (c_size c + 1 <? max)%Z.
  - unfold post; cbn [is_idle]. split; [apply core_inv_same_locks; csimpl; auto; apply (ci_batch _ HC)|].
    split; [apply guar_same; reflexivity|]. split; [intros k; rewrite reg_nonidle by reflexivity; reflexivity|].
    split; [apply Lidle; csimpl; auto; discriminate|]. apply result_ok_write; assumption.
  - destruct (serial v).
    + unfold post; cbn [is_idle]. split; [discriminate|].
      split; [apply core_inv_same_locks; csimpl; auto; apply (ci_batch _ HC)|].
      split; [apply guar_same; reflexivity|]. split; [intros k; rewrite reg_nonidle by reflexivity; reflexivity|].
      split; [apply Lidle; csimpl; auto; discriminate|]. exact Hw.
    + destruct (flush_sound (set_size c (c_size c + 1))) as (F1 & F2 & F3); auto.
      unfold post; cbn [is_idle]. split; [exact F1|]. split; [exact F2|].
      split; [intros k; rewrite reg_nonidle by reflexivity; symmetry; apply F3|].
      split; [apply Lidle; csimpl; auto; discriminate|]. apply result_ok_write; assumption.
Qed.

(** SerialDB.putBatch, first action: Lock (kept) ; dbBatch = s.batch *)
Lemma putbatch_lock_sound p cl tc :
  holds_w p = false -> is_idle p = false \/ cl = None ->
  locks_ok c a p -> wcall a cl -> can_w c = true ->
  post m0 a cl p c tr n tc (Goto (set_wl c (Some a)) (PBEnq (c_batch c))).
Proof.
  intros Hh Hp [L1 L2] Hw Hcw. apply can_w_true in Hcw. destruct Hcw as [W R].
  unfold post. split; [discriminate|]. split; [|split; [|split; [|split]]].
  - constructor; csimpl; [apply (ci_batch _ HC)|auto].
  - constructor; csimpl; try tauto; auto.
    intros b Hne. rewrite W. split; [intros E; inversion E; congruence|discriminate].
  - intros k. destruct Hp as [Hp|Hp].
    + rewrite reg_nonidle by exact Hp. reflexivity.
    + subst cl. unfold starts. destruct a; simpl; rewrite (reg_at_beyond m0 tr n (S n)) by (auto; lia); apply HB.
  - split; csimpl; [rewrite R; simpl; split; [tauto|discriminate]|split; reflexivity].
  - simpl. split; [reflexivity|exact Hw].
Qed.

(** PBRecv (current code): take the answer ; the lock is still held *)
Lemma act_brecv cl tc :
  locks_ok c a PBRecv -> pc_inv m0 c tr n a PBRecv cl tc ->
  post m0 a cl PBRecv c tr n tc (act v max a cl PBRecv c).
Proof.
  intros [L1 L2] [Hwr Hw]. unfold act. rewrite Hold. unfold post; cbn [is_idle].
  split; [discriminate|]. split; [apply core_inv_same_locks; csimpl; auto; apply (ci_batch _ HC)|].
  split; [apply guar_same; reflexivity|]. split; [intros k; rewrite reg_nonidle by reflexivity; reflexivity|].
  split; [split; csimpl; [rewrite L1; split; discriminate|rewrite L2; split; reflexivity]|].
  simpl. split; [exact Hwr|exact Hw].
Qed.

(** PBFin: sizeBatch = 0 ; s.batch = NewBatch() ; Unlock *)
Lemma act_bfin cl tc :
  locks_ok c a PBFin -> pc_inv m0 c tr n a PBFin cl tc -> (a = Timer -> cl = None) ->
  post m0 a cl PBFin c tr n tc (act v max a cl PBFin c).
Proof.
  intros [L1 L2] [Hwr Hw] Ht. unfold act. unfold post; cbn [is_idle].
  assert (W : c_wl c = Some a) by (apply L2; reflexivity).
  assert (R : c_rl c = []) by (apply (ci_mutex _ HC); congruence).
  split; [|split; [|split; [|split]]].
  - constructor; csimpl; [apply new_batch_ok|congruence].
  - constructor; csimpl; try tauto.
    + intros b Hne. rewrite W. split; [discriminate|intros E; inversion E; congruence].
    + intros b Hne E. rewrite W in E. inversion E. congruence.
  - intros k. rewrite reg_nonidle by reflexivity. unfold abs. csimpl. rewrite abs_new_batch.
    symmetry. apply Hwr.
  - split; csimpl; [rewrite R; simpl; split; [tauto|discriminate]|split; discriminate].
  - apply result_ok_write; assumption.
Qed.

(** the timer of DB fires: Lock ; putBatch ; Reset ; sizeBatch = 0 ; Unlock *)
Lemma act_timer_db tc :
  a = Timer -> serial v = false -> locks_ok c a PIdle ->
  post m0 a None PIdle c tr n tc (act v max a None PIdle c).
Proof.
  intros Ha Hs [L1 L2]. unfold act. rewrite Hs. destruct (can_w c) eqn:Hcw; [|exact I].
  apply can_w_true in Hcw. destruct Hcw as [W R].
  destruct (flush_sound c) as (F1 & F2 & F3); auto.
  unfold post. split; [exact F1|]. split; [exact F2|]. split.
  - intros k. subst a. simpl. rewrite (reg_at_beyond m0 tr n (S n)) by (auto; lia). rewrite HB. symmetry. apply F3.
  - split.
    + split; csimpl; [rewrite R; simpl; split; [tauto|discriminate]|rewrite W; split; discriminate].
    + intros c0 E. discriminate.
Qed.

(** processLoop serves a parked getAct / hasAct *)
Lemma serve_getdisk cl tc :
  locks_ok c a PGetDisk -> pc_inv m0 c tr n a PGetDisk cl tc ->
  post m0 a cl PGetDisk c tr n tc (serve v a cl PGetDisk c).
Proof.
  intros [L1 L2] (rd & E & Hrd & t & Ht & Hreg). subst cl. unfold serve.
  destruct (negb (serial v) || c_busy c); [exact I|]. unfold post; cbn [is_idle].
  split; [discriminate|]. split; [apply core_inv_same_locks; csimpl; auto; apply (ci_batch _ HC)|].
  split; [apply guar_same; reflexivity|]. split; [intros k; rewrite reg_nonidle by reflexivity; reflexivity|].
  split; [split; csimpl; [rewrite L1; split; discriminate|rewrite L2; split; discriminate]|].
  simpl. exists rd. split; [reflexivity|]. split; [exact Hrd|]. exists t. split; [lia|].
  rewrite reg_nonidle_t by reflexivity. exact Hreg.
Qed.

(** processLoop serves a parked putBatchAct: db.Write(batch) while the sender holds the lock *)
Lemma serve_benq b cl tc :
  locks_ok c a (PBEnq b) -> pc_inv m0 c tr n a (PBEnq b) cl tc ->
  post m0 a cl (PBEnq b) c tr n tc (serve v a cl (PBEnq b) c).
Proof.
  intros [L1 L2] [Eb Hw]. subst b. unfold serve.
  destruct (negb (serial v) || c_busy c); [exact I|]. unfold post; cbn [is_idle].
  assert (W : c_wl c = Some a) by (apply L2; reflexivity).
  assert (R : c_rl c = []) by (apply (ci_mutex _ HC); congruence).
  set (c' := set_busy (set_disk c (apply_log (b_log (c_batch c)) (c_disk c))) true).
  assert (Habs : forall k, abs c' k = abs c k).
  { intros k. unfold c', abs. csimpl. apply abs_write_same. apply (ci_batch _ HC). }
  assert (Hwr : written c').
  { intros k. rewrite Habs. unfold c', abs. csimpl. apply dget_written. apply (ci_batch _ HC). }
  split; [discriminate|]. split; [apply core_inv_same_locks; unfold c'; csimpl; auto; apply (ci_batch _ HC)|].
  split; [|split; [|split]].
  - constructor; unfold c'; csimpl; try tauto.
    + intros b Hne E. rewrite W in E. inversion E. congruence.
  - intros k. rewrite reg_nonidle by reflexivity. symmetry. apply Habs.
  - split; unfold c'; csimpl; [rewrite L1; split; discriminate|rewrite L2; split; reflexivity].
  - simpl. split; [exact Hwr|exact Hw].
Qed.

End Sound.

Lemma outcome_sound v max m0 l a cl p c tr n tc :
  old v = false -> label_agent l = a ->
  core_inv c -> (forall k, reg_at m0 tr n k = abs c k) -> bounded tr n ->
  agent_inv m0 c tr n a p cl tc ->
  (forall i, a = User i -> cl <> None) ->
  post m0 a cl p c tr n tc (outcome_of v max l cl p c).
Proof.
  intros Hold Hl HC HB Hbd (HL & HP & HCa) Hu.
  assert (Ht : a = Timer -> cl = None).
  { intros ->. simpl in HCa. tauto. }
  assert (Htc : p <> PIdle -> (tc <= n)%nat).
  { intros Hp. destruct a; simpl in HCa; [lia|]. destruct (HCa Hp) as (c0 & _ & H & _). lia. }
  destruct l as [a0|a0]; simpl in Hl; subst a0; unfold outcome_of.
  - destruct p.
    + (* PIdle *)
      destruct a as [|i].
      * rewrite (Ht eq_refl). destruct (serial v) eqn:Hs.
        -- unfold act. rewrite Hs, Hold. destruct (can_w c) eqn:Hcw; [|exact I].
           apply putbatch_lock_sound; simpl; auto.
        -- apply act_timer_db; auto.
      * destruct cl as [c0|]; [|exfalso; eapply Hu; reflexivity].
        destruct c0 as [k x|k|k|k].
        -- eapply act_idle_put; eauto.
        -- eapply act_idle_remove; eauto.
        -- eapply act_idle_read; eauto.
        -- eapply act_idle_read; eauto.
    + apply act_inc; auto.
    + apply act_getmid; auto. apply Htc. discriminate.
    + destruct (serial v) eqn:Hs.
      * unfold act. rewrite Hs. destruct cl; exact I.
      * apply act_getdisk; auto.
    + apply act_getrecv; auto.
    + unfold act. rewrite Hold. destruct (can_w c) eqn:Hcw; [|exact I].
      apply putbatch_lock_sound; auto.
    + exact I.
    + apply act_brecv; auto.
    + apply act_bfin; auto.
  - destruct p; try (unfold serve; destruct (negb (serial v) || c_busy c); exact I).
    + apply serve_getdisk; auto.
    + apply serve_benq; auto.
Qed.

(** ---- the global invariant ---- *)
Definition pcof (s : st) (a : agent) : pc :=
  match a with
  | Timer => g_timer s
  | User i => match nth_error (g_users s) i with Some u => u_pc u | None => PIdle end
  end.
Definition callof (s : st) (a : agent) : option call :=
  match a with
  | Timer => None
  | User i => match nth_error (g_users s) i with Some u => hd_error (u_todo u) | None => None end
  end.
Definition tcallof (s : st) (a : agent) : nat :=
  match a with
  | Timer => O
  | User i => match nth_error (g_users s) i with Some u => u_tcall u | None => O end
  end.

(** the trace is in chronological order (newest first) *)
Fixpoint chron (tr : trace) : Prop :=
  match tr with [] => True | (t, _) :: r => bounded r t /\ chron r end.

Lemma chron_app new tr n : stamped new (S n) -> bounded tr n -> chron tr -> chron (new ++ tr).
Proof.
  intros Hs Hb Hc. induction new as [|[t e] new IH]; simpl; [exact Hc|].
  pose proof (Forall_inv Hs) as Ht. pose proof (Forall_inv_tail Hs) as Hs'. simpl in Ht. subst t.
  split; [|apply IH; exact Hs'].
  apply bounded_app; [exact Hs'|]. eapply bounded_mono; [exact Hb|lia].
Qed.

Record Inv (m0 : mapspec) (s : st) : Prop := {
  inv_core : core_inv (g_core s);
  inv_abs : forall k, reg_at m0 (g_trace s) (g_now s) k = abs (g_core s) k;
  inv_bounded : bounded (g_trace s) (g_now s);
  inv_agents : forall a, agent_inv m0 (g_core s) (g_trace s) (g_now s) a (pcof s a) (callof s a) (tcallof s a);
  inv_reads : lin_reads m0 (g_trace s);
  inv_wf : wf_history (g_trace s);
  inv_chron : chron (g_trace s)
}.

Lemma read_ok_ext m0 new tr n e :
  bounded tr n -> stamped new (S n) -> In e tr -> read_ok m0 tr e -> read_ok m0 (new ++ tr) e.
Proof.
  intros Hb Hs Hi H. destruct e as [tret [a c|a c|a c tc r]]; simpl in *; auto.
  intros Hr. destruct (H Hr) as (t & Ht & E). exists t. split; [exact Ht|].
  rewrite (reg_at_app_later m0 new tr (S n)); [exact E|exact Hs|].
  pose proof (bounded_in _ _ _ _ Hb Hi). lia.
Qed.

Lemma ret_wf_ext new tr e : ret_wf tr e -> ret_wf (new ++ tr) e.
Proof.
  destruct e as [tret [a c|a c|a c tc r]]; simpl; auto.
  - intros [H1 H2]. split; [exact H1|]. apply in_or_app. right. exact H2.
  - intros (H1 & H2 & H3). split; [exact H1|]. split; [apply in_or_app; right; exact H2|].
    intros W. destruct (H3 W) as [H4 H5]. split; [apply in_or_app; right; exact H4|exact H5].
Qed.

Lemma inv_tick m0 s : Inv m0 s -> Inv m0 (tick s).
Proof.
  intros [H1 H2 H3 H4 H5 H6 H7]. constructor; simpl; auto.
  - intros k. rewrite (reg_at_beyond m0 _ (g_now s)) by (auto; lia). apply H2.
  - eapply bounded_mono; [exact H3|lia].
  - intros a. apply agent_inv_tick; [exact H3|]. apply (H4 a).
Qed.

Lemma inv_update m0 s s' a new :
  Inv m0 s ->
  g_now s' = S (g_now s) -> g_trace s' = new ++ g_trace s -> stamped new (S (g_now s)) ->
  core_inv (g_core s') -> guar a (g_core s) (g_core s') ->
  (forall k, reg_at m0 (g_trace s') (g_now s') k = abs (g_core s') k) ->
  (forall b, b <> a -> pcof s' b = pcof s b /\ callof s' b = callof s b /\ tcallof s' b = tcallof s b) ->
  agent_inv m0 (g_core s') (g_trace s') (g_now s') a (pcof s' a) (callof s' a) (tcallof s' a) ->
  (forall e, In e new -> read_ok m0 (g_trace s') e /\ ret_wf (g_trace s') e) ->
  Inv m0 s'.
Proof.
  intros [H1 H2 H3 H4 H5 H6 H7] En Et Hs HC G HB Hv Ha Hnew. constructor; auto.
  - rewrite En, Et. apply bounded_app; [exact Hs|]. eapply bounded_mono; [exact H3|lia].
  - intros b. destruct (agent_eq_dec b a) as [->|Hne]; [exact Ha|].
    destruct (Hv b Hne) as (E1 & E2 & E3). rewrite E1, E2, E3, En, Et.
    eapply agent_inv_stable; eauto. rewrite <- Et, <- En. exact HB.
  - intros e Hi. rewrite Et in Hi. apply in_app_or in Hi. destruct Hi as [Hi|Hi].
    + apply (Hnew e Hi).
    + rewrite Et. eapply read_ok_ext; eauto.
  - intros e Hi. rewrite Et in Hi. apply in_app_or in Hi. destruct Hi as [Hi|Hi].
    + apply (Hnew e Hi).
    + rewrite Et. apply ret_wf_ext. apply H6. exact Hi.
  - rewrite Et. eapply chron_app; eauto.
Qed.

Lemma is_idle_true p : is_idle p = true -> p = PIdle.
Proof. destruct p; simpl; try discriminate; reflexivity. Qed.
Lemma is_idle_false p : is_idle p = false -> p <> PIdle.
Proof. destruct p; simpl; try discriminate; intros _ H; discriminate. Qed.

Lemma call_facts tr n i p cl0 tc :
  call_inv tr n (User i) p (Some cl0) tc ->
  let n' := S n in
  let tc' := if is_idle p then n' else tc in
  let tr' := start_events n' (User i) p cl0 ++ tr in
  (1 <= tc' <= n')%nat /\ In (tc', EvCall (User i) cl0) tr'
  /\ (is_write cl0 = true -> In (tc', EvLin (User i) cl0) tr').
Proof.
  intros H. simpl. unfold start_events. destruct (is_idle p) eqn:Hp.
  - split; [lia|]. split.
    + apply in_or_app. left. apply in_or_app. right. left. reflexivity.
    + intros W. rewrite W. left. reflexivity.
  - apply is_idle_false in Hp. destruct (H Hp) as (c0 & E & Ht & Hi & Hw). inversion E; subst c0.
    simpl. split; [lia|]. split; [exact Hi|exact Hw].
Qed.

Lemma pc_inv_none_tc m0 c tr n a p tc tc' :
  pc_inv m0 c tr n a p None tc -> pc_inv m0 c tr n a p None tc'.
Proof.
  destruct p; simpl; auto; intros (rd & E & _); discriminate.
Qed.

Lemma views_upd s i u' c' n' tr' b :
  b <> User i ->
  let s' := mkS c' (g_timer s) (upd_nth (g_users s) i u') n' tr' in
  pcof s' b = pcof s b /\ callof s' b = callof s b /\ tcallof s' b = tcallof s b.
Proof.
  intros Hne. destruct b as [|j]; simpl; [auto|].
  assert (i <> j) by congruence.
  rewrite nth_error_upd_nth_neq by assumption. auto.
Qed.

Lemma start_events_ok m0 n a p cl0 tr'' e :
  In e (start_events n a p cl0) ->
  (forall e', In e' (start_events n a p cl0) -> In e' tr'') ->
  read_ok m0 tr'' e /\ ret_wf tr'' e.
Proof.
  unfold start_events. destruct (is_idle p); [|intros []].
  destruct (is_write cl0) eqn:W; simpl; intros Hi Hsub.
  - destruct Hi as [<-|[<-|[]]]; simpl; auto.
    split; [exact I|]. split; [exact W|]. apply Hsub. right. left. reflexivity.
  - destruct Hi as [<-|[]]; simpl; auto.
Qed.

Theorem step_inv v max m0 s l :
  old v = false -> Inv m0 s -> Inv m0 (step v max s l).
Proof.
  intros Hold HI. unfold step. destruct (label_agent l) as [|i] eqn:Ha.
  - (* the timer *)
    pose proof (inv_agents _ _ HI Timer) as HA. simpl in HA.
    pose proof (outcome_sound v max m0 l Timer None (g_timer s) (g_core s) (g_trace s) (g_now s) O
                  Hold Ha (inv_core _ _ HI) (inv_abs _ _ HI) (inv_bounded _ _ HI) HA) as HP.
    assert (Hu : forall i, Timer = User i -> @None call <> None) by (intros i E; discriminate).
    specialize (HP Hu). clear Hu.
    destruct (outcome_of v max l None (g_timer s) (g_core s)) as [|c' p'|c' r].
    + apply inv_tick. exact HI.
    + destruct HP as (Hp' & HC' & G & HB' & HL' & HP').
      apply (inv_update m0 s _ Timer []); simpl; auto.
      * constructor.
      * intros b Hne. destruct b; [congruence|]. simpl. auto.
      * split; [exact HL'|]. split; [|simpl; auto].
        eapply pc_inv_none_tc. exact HP'.
      * intros e [].
    + destruct HP as (HC' & G & HB' & HL' & _).
      apply (inv_update m0 s _ Timer []); simpl; auto.
      * constructor.
      * intros b Hne. destruct b; [congruence|]. simpl. auto.
      * split; [exact HL'|]. split; simpl; auto.
      * intros e [].
  - (* a user goroutine *)
    destruct (nth_error (g_users s) i) as [u|] eqn:Hn; [|apply inv_tick; exact HI].
    destruct (u_todo u) as [|cl0 rest] eqn:Htodo; [apply inv_tick; exact HI|].
    pose proof (inv_agents _ _ HI (User i)) as HA. simpl in HA. rewrite Hn, Htodo in HA. simpl in HA.
    pose proof (outcome_sound v max m0 l (User i) (Some cl0) (u_pc u) (g_core s) (g_trace s) (g_now s) (u_tcall u)
                  Hold Ha (inv_core _ _ HI) (inv_abs _ _ HI) (inv_bounded _ _ HI) HA) as HP.
    assert (Hu : forall j, User i = User j -> Some cl0 <> None) by (intros j _; discriminate).
    specialize (HP Hu). clear Hu.
    destruct HA as (_ & _ & HCa). pose proof (call_facts _ _ _ _ _ _ HCa) as (F1 & F2 & F3).
    destruct (outcome_of v max l (Some cl0) (u_pc u) (g_core s)) as [|c' p'|c' r].
    + apply inv_tick. exact HI.
    + destruct HP as (Hp' & HC' & G & HB' & HL' & HP'). unfold starts in *.
      eapply (inv_update m0 s _ (User i) (start_events (S (g_now s)) (User i) (u_pc u) cl0)); simpl; auto.
      * apply stamped_start.
      * intros b Hne. apply views_upd. exact Hne.
      * rewrite (nth_error_upd_nth_eq _ _ _ _ Hn). simpl.
        split; [exact HL'|]. split; [exact HP'|]. intros _. exists cl0. auto.
      * intros e Hi. eapply start_events_ok; [exact Hi|]. intros e' Hi'. apply in_or_app. left. exact Hi'.
    + destruct HP as (HC' & G & HB' & HL' & HR). unfold starts in *.
      set (tc' := if is_idle (u_pc u) then S (g_now s) else u_tcall u) in *.
      eapply (inv_update m0 s _ (User i)
                ((S (g_now s), EvRet (User i) cl0 tc' r) :: start_events (S (g_now s)) (User i) (u_pc u) cl0));
        simpl; auto.
      * constructor; [reflexivity|apply stamped_start].
      * intros k. rewrite Nat.leb_refl. simpl. apply HB'.
      * intros b Hne. apply views_upd. exact Hne.
      * rewrite (nth_error_upd_nth_eq _ _ _ _ Hn). simpl.
        split; [exact HL'|]. split; [exact I|]. intros H. congruence.
      * intros e [<-|Hi].
        -- destruct (HR cl0 eq_refl) as [HRw HRr]. split.
           ++ cbn [read_ok]. intros Hr. destruct (HRr Hr) as (t & Ht & E). exists t. split; [exact Ht|].
              rewrite reg_at_cons_nolin by reflexivity. exact E.
           ++ simpl. split; [exact F1|]. split; [right; exact F2|].
              intros W. split; [right; exact (F3 W)|exact (HRw W)].
        -- eapply start_events_ok; [exact Hi|]. intros e' Hi'. right. apply in_or_app. left. exact Hi'.
Qed.

(** ---- all runs ---- *)
Lemma pcof_init d0 progs a : pcof (init_st d0 progs) a = PIdle.
Proof.
  destruct a as [|i]; simpl; [reflexivity|].
  rewrite nth_error_map. destruct (nth_error progs i); reflexivity.
Qed.

Lemma inv_init d0 progs : Inv (disk_map d0) (init_st d0 progs).
Proof.
  constructor; simpl.
  - constructor; simpl; [apply new_batch_ok|congruence].
  - intros k. reflexivity.
  - constructor.
  - intros a. split; [|split].
    + rewrite pcof_init. split; simpl; split; try discriminate; intros [].
    + rewrite pcof_init. exact I.
    + unfold call_inv. destruct a; [simpl; auto|]. rewrite pcof_init. intros H. congruence.
  - intros e [].
  - intros e [].
  - exact I.
Qed.

Lemma fold_inv v max m0 sched : old v = false ->
  forall s, Inv m0 s -> Inv m0 (fold_left (step v max) sched s).
Proof.
  intros Hold. induction sched as [|l sched IH]; intros s H; simpl; [exact H|].
  apply IH. apply step_inv; assumption.
Qed.

Theorem run_inv v max d0 progs sched :
  old v = false -> Inv (disk_map d0) (run v max d0 progs sched).
Proof. intros Hold. unfold run. apply fold_inv; [exact Hold|apply inv_init]. Qed.

(** ---- the executable twin ---- *)
Lemma rclass_eqb_eq a b : rclass_eqb a b = true <-> a = b.
Proof. destruct a, b; simpl; split; congruence. Qed.
Lemma obytes_eqb_eq a b : obytes_eqb a b = true <-> a = b.
Proof.
  destruct a as [x|], b as [y|]; simpl; try (split; congruence).
  rewrite beqb_eq. split; congruence.
Qed.
Lemma answer_eqb_eq a b : answer_eqb a b = true <-> a = b.
Proof.
  destruct a as [a1 a2], b as [b1 b2]. unfold answer_eqb. simpl.
  rewrite andb_true_iff, rclass_eqb_eq, obytes_eqb_eq. split; [intros [-> ->]; reflexivity|].
  intros E; inversion E; auto.
Qed.

Lemma read_okb_iff m0 tr e : read_okb m0 tr e = true <-> read_ok m0 tr e.
Proof.
  destruct e as [tret [a c|a c|a c tc r]]; cbn [read_okb read_ok]; try tauto.
  destruct (is_read c); [|split; [discriminate|reflexivity]].
  rewrite existsb_exists. split.
  - intros (t & Hi & E) _. apply in_seq in Hi. apply answer_eqb_eq in E. exists t. split; [lia|exact E].
  - intros H. destruct (H eq_refl) as (t & Ht & E). exists t. split; [apply in_seq; lia|].
    apply answer_eqb_eq. exact E.
Qed.

Lemma lin_readsb_iff m0 tr : lin_readsb m0 tr = true <-> lin_reads m0 tr.
Proof.
  unfold lin_readsb, lin_reads. rewrite forallb_forall. split; intros H e Hi; apply read_okb_iff; auto.
Qed.

(** ---- the register in terms of the last linearised write ---- *)
Lemma reg_at_last_write m0 tr t k : reg_at m0 tr t k = value_of m0 k (last_write tr t k).
Proof.
  induction tr as [|[t' e] tr IH]; simpl; [reflexivity|].
  destruct e as [a c|a c|a c tc r].
  - destruct (t' <=? t)%nat; exact IH.
  - destruct (t' <=? t)%nat; simpl; [|exact IH].
    destruct c as [k0 x|k0|k0|k0]; simpl; try exact IH.
    + unfold m_put, m_upd. destruct (beqb k k0); [reflexivity|exact IH].
    + unfold m_remove, m_upd. destruct (beqb k k0); [reflexivity|exact IH].
  - destruct (t' <=? t)%nat; exact IH.
Qed.

Lemma last_write_le tr t k : (wtime (last_write tr t k) <= t)%nat.
Proof.
  induction tr as [|[t' e] tr IH]; simpl; [lia|].
  destruct e as [a c|a c|a c tc r]; try exact IH.
  destruct (Nat.leb_spec t' t); simpl; [|exact IH].
  destruct (is_write c && beqb k (ckey c)); simpl; [lia|exact IH].
Qed.

Lemma last_write_mono tr t1 t2 k :
  (t1 <= t2)%nat -> (wtime (last_write tr t1 k) <= wtime (last_write tr t2 k))%nat.
Proof.
  intros Hle. induction tr as [|[t' e] tr IH]; simpl; [lia|].
  destruct e as [a c|a c|a c tc r]; try exact IH.
  destruct (is_write c && beqb k (ckey c)) eqn:Hm.
  - destruct (Nat.leb_spec t' t1), (Nat.leb_spec t' t2); simpl; rewrite ?Hm; simpl; try lia; try exact IH.
    pose proof (last_write_le tr t1 k). lia.
  - destruct (t' <=? t1)%nat, (t' <=? t2)%nat; simpl; rewrite ?Hm; exact IH.
Qed.

Lemma last_write_in tr t k tl c :
  last_write tr t k = Some (tl, c) ->
  (tl <= t)%nat /\ is_write c = true /\ ckey c = k /\ exists a, In (tl, EvLin a c) tr.
Proof.
  induction tr as [|[t' e] tr IH]; simpl; [discriminate|].
  assert (Hrec : last_write tr t k = Some (tl, c) ->
     (tl <= t)%nat /\ is_write c = true /\ ckey c = k /\ exists a, (t', e) = (tl, EvLin a c) \/ In (tl, EvLin a c) tr).
  { intros H. destruct (IH H) as (H1 & H2 & H3 & a & H4). repeat split; auto. exists a. right. exact H4. }
  destruct e as [a c'|a c'|a c' tc r]; try exact Hrec.
  destruct ((t' <=? t)%nat && is_write c' && beqb k (ckey c')) eqn:Hm; [|exact Hrec].
  intros E. inversion E; subst t' c'. apply andb_true_iff in Hm. destruct Hm as [Hm H3].
  apply andb_true_iff in Hm. destruct Hm as [H1 H2]. apply Nat.leb_le in H1. apply beqb_eq in H3.
  repeat split; auto. exists a. left. reflexivity.
Qed.

(** in a chronological trace the last write is at least as recent as any given earlier one *)
Lemma last_write_ge tr t k tl a c :
  chron tr -> In (tl, EvLin a c) tr -> is_write c = true -> ckey c = k -> (tl <= t)%nat ->
  (tl <= wtime (last_write tr t k))%nat.
Proof.
  intros Hc Hi W K Hle. induction tr as [|[t' e] tr IH]; simpl in *; [destruct Hi|].
  destruct Hc as [Hb Hc]. destruct Hi as [E|Hi].
  - inversion E; subst t' e. apply Nat.leb_le in Hle. rewrite Hle, W, <- K, beqb_refl. simpl. lia.
  - pose proof (bounded_in _ _ _ _ Hb Hi) as Hlt.
    destruct e as [a' c'|a' c'|a' c' tc r]; try (apply IH; assumption).
    destruct ((t' <=? t)%nat && is_write c' && beqb k (ckey c')); simpl; [lia|apply IH; assumption].
Qed.

(** ---- the theorems ---- *)
Section Theorems.
Variables (v : variant) (max : Z) (d0 : disk) (progs : list (list call)) (sched : list label).
Hypothesis Hold : old v = false.
Let s := run v max d0 progs sched.
Let m0 := disk_map d0.
Let tr := g_trace s.

Theorem linearizable_reads : lin_reads m0 tr /\ wf_history tr.
Proof. pose proof (run_inv v max d0 progs sched Hold) as H. split; [apply (inv_reads _ _ H)|apply (inv_wf _ _ H)]. Qed.

(** the register defined by the history is what the code's state presents: overlay(batch, disk) *)
Theorem register_is_overlay : forall k, reg_at m0 tr (g_now s) k = abs (g_core s) k.
Proof. apply (inv_abs _ _ (run_inv v max d0 progs sched Hold)). Qed.

Theorem read_after_write :
  forall tw a w tcw rw tr2 b rd tcr r,
    In (tw, EvRet a w tcw rw) tr -> is_write w = true ->
    In (tr2, EvRet b rd tcr r) tr -> is_read rd = true -> ckey rd = ckey w ->
    (tw < tcr)%nat ->
    exists t, (tcr <= t <= tr2)%nat
      /\ r = to_ans rd (value_of m0 (ckey rd) (last_write tr t (ckey rd)))
      /\ (tcw <= wtime (last_write tr t (ckey rd)))%nat.
Proof.
  intros tw a w tcw rw tr2 b rd tcr r Hw W Hr R K Hlt.
  pose proof (run_inv v max d0 progs sched Hold) as HI.
  destruct (inv_wf _ _ HI _ Hw) as (Hb & _ & Hl). destruct (Hl W) as [Hlin _].
  destruct (inv_reads _ _ HI _ Hr R) as (t & Ht & E). exists t. split; [exact Ht|]. split.
  - rewrite <- reg_at_last_write. exact E.
  - eapply last_write_ge; [apply (inv_chron _ _ HI)|exact Hlin|exact W|congruence|lia].
Qed.

Theorem no_going_back :
  forall t1r a rd1 tc1 r1 t2r b rd2 tc2 r2,
    In (t1r, EvRet a rd1 tc1 r1) tr -> is_read rd1 = true ->
    In (t2r, EvRet b rd2 tc2 r2) tr -> is_read rd2 = true -> ckey rd2 = ckey rd1 ->
    (t1r < tc2)%nat ->
    exists t1 t2, (tc1 <= t1 <= t1r)%nat /\ (tc2 <= t2 <= t2r)%nat
      /\ r1 = to_ans rd1 (value_of m0 (ckey rd1) (last_write tr t1 (ckey rd1)))
      /\ r2 = to_ans rd2 (value_of m0 (ckey rd1) (last_write tr t2 (ckey rd1)))
      /\ (wtime (last_write tr t1 (ckey rd1)) <= wtime (last_write tr t2 (ckey rd1)))%nat.
Proof.
  intros t1r a rd1 tc1 r1 t2r b rd2 tc2 r2 H1 R1 H2 R2 K Hlt.
  pose proof (run_inv v max d0 progs sched Hold) as HI.
  destruct (inv_reads _ _ HI _ H1 R1) as (t1 & Ht1 & E1).
  destruct (inv_reads _ _ HI _ H2 R2) as (t2 & Ht2 & E2).
  exists t1, t2. split; [exact Ht1|]. split; [exact Ht2|]. split; [|split].
  - rewrite <- reg_at_last_write. exact E1.
  - rewrite <- reg_at_last_write. rewrite <- K. exact E2.
  - apply last_write_mono. lia.
Qed.

End Theorems.
