(** Extraction of every executable model. ExtrOcamlBasic only; numbers stay
    Coq's binary [positive]/[N]/[Z]; no Extract Constant. *)
From Coq Require Import Extraction ExtrOcamlBasic.
From Verif Require Import Persist.CrashComp Immunity.ImmunityComp Lru.AdapterComp Lru.LruComp Fifo.FifoComp Persist.PersistComp Unit.UnitComp Time.TimeCacheComp Base.Generic Persist.ShardIdComp Txcache.PoolComp.
Extraction Language OCaml.
Separate Extraction
  Generic.run_steps
  CrashComp.crash_component
  ImmunityComp.immunity_component
  AdapterComp.adapter_component
  LruComp.lru_component
  FifoComp.fifo_component
  PersistComp.persist_component
  UnitComp.unit_component
  TimeCacheComp.timecache_component
  ShardIdComp.shardid_component
  PoolComp.pool_component.
