(** Operational model of immunitycache/cache.go + config.go (C12, C13). Definitions only.
    The cache is a list of chunks; a key is routed to chunk [fnv32Hash(key) % NumChunks]
    (cache.go:110-123 = FNV-1, multiply then xor, on uint32 = [BStr.fnv32]). *)
From Coq Require Import List NArith ZArith Bool.
From Verif Require Import Base.BStr Immunity.Chunk.
Import ListNotations.

(** CacheConfig (uint32 fields; Name is not modelled, the harness always gives one) *)
Record cache_cfg : Type := mkCfg { cf_numChunks : N; cf_maxItems : N; cf_maxBytes : N; cf_evict : N }.

(** CacheConfig.Verify (and ConfigDestinationMe.verify, same bounds) on uint32 fields *)
Definition cfg_valid (cfg : cache_cfg) : bool :=
  ((1 <=? cf_numChunks cfg) && (cf_numChunks cfg <=? 128)
   && (4 <=? cf_maxItems cfg) && (cf_maxItems cfg <? two32)
   && (4 <=? cf_maxBytes cfg) && (cf_maxBytes cfg <=? 1073741824)
   && (1 <=? cf_evict cfg) && (cf_evict cfg <? two32))%N.

(** getChunkConfig: integer division by max(NumChunks, 1) *)
Definition chunk_config (cfg : cache_cfg) : chunk_cfg :=
  let nc := N.max (cf_numChunks cfg) 1 in
  mkCC (cf_maxItems cfg / nc) (cf_maxBytes cfg / nc) (cf_evict cfg / nc).

Record cache : Type := mkCache { ca_cfg : cache_cfg; ca_chunks : list chunk }.

(** initializeChunksWithLock *)
Definition init_chunks (cfg : cache_cfg) : list chunk :=
  repeat (new_chunk (chunk_config cfg)) (N.to_nat (cf_numChunks cfg)).
Definition new_cache (cfg : cache_cfg) : cache := mkCache cfg (init_chunks cfg).

(** getChunkIndexByKey *)
Definition chunk_index (cfg : cache_cfg) (k : bytes) : nat := N.to_nat (fnv32 k mod cf_numChunks cfg).

Definition get_chunk (s : cache) (i : nat) : chunk := nth i (ca_chunks s) (new_chunk (chunk_config (ca_cfg s))).

Fixpoint replace_nth {A} (i : nat) (x : A) (l : list A) : list A :=
  match l, i with
  | [], _ => []
  | _ :: r, O => x :: r
  | y :: r, S i' => y :: replace_nth i' x r
  end.

Definition set_chunk (s : cache) (i : nat) (c : chunk) : cache := mkCache (ca_cfg s) (replace_nth i c (ca_chunks s)).

(** observers *)
Definition cache_count (s : cache) : N := fold_right (fun c a => (chunk_count c + a)%N) 0%N (ca_chunks s).
Definition cache_count_immune (s : cache) : N := fold_right (fun c a => (chunk_count_immune c + a)%N) 0%N (ca_chunks s).
Definition cache_num_bytes (s : cache) : Z := fold_right (fun c a => (ch_numBytes c + a)%Z) 0%Z (ca_chunks s).
Definition cache_keys (s : cache) : list bytes := concat (map chunk_keys (ca_chunks s)).
Definition cache_items (s : cache) : list item := concat (map ch_items (ca_chunks s)).
Definition cache_immune_keys (s : cache) : list bytes := concat (map ch_immune (ca_chunks s)).

(** getItem / Get / Has *)
Definition cache_get_item (s : cache) (k : bytes) : option item :=
  find_item k (ch_items (get_chunk s (chunk_index (ca_cfg s) k))).
Definition cache_get (s : cache) (k : bytes) : option bytes :=
  match cache_get_item s k with Some it => Some (i_payload it) | None => None end.
Definition cache_has (s : cache) (k : bytes) : bool :=
  match cache_get_item s k with Some _ => true | None => false end.

(** HasOrAdd: (state, has, added, fuel_out) *)
Definition cache_add (s : cache) (k p : bytes) (sz : Z) : cache * bool * bool * bool :=
  let i := chunk_index (ca_cfg s) k in
  let r := add_item (get_chunk s i) k p sz in
  (set_chunk s i (ar_chunk r), ar_has r, ar_added r, ar_fuel_out r).

(** RemoveWithResult *)
Definition cache_remove (s : cache) (k : bytes) : cache * bool :=
  let i := chunk_index (ca_cfg s) k in
  let '(c, b) := remove_item (get_chunk s i) k in
  (set_chunk s i c, b).

(** the capacity gate of ImmunityCache.ImmunizeKeys *)
Definition immunize_refused (s : cache) (keys : list bytes) : bool :=
  (cf_maxItems (ca_cfg s) <? cache_count_immune s + N.of_nat (length keys))%N.

(** groupKeysByChunk + the loop over the groups: chunk [i] receives, in order, the keys routed
    to it (the iteration order over the groups is irrelevant: chunks are independent and
    the totals are sums; a chunk without a group is untouched = receives the empty list) *)
Fixpoint immunize_chunks (cfg : cache_cfg) (keys : list bytes) (i : nat) (l : list chunk) : list chunk * N * N :=
  match l with
  | [] => ([], 0%N, 0%N)
  | c :: r =>
      let group := filter (fun k => Nat.eqb (chunk_index cfg k) i) keys in
      let '(c', now, fut) := chunk_immunize_keys c group 0%N 0%N in
      let '(r', nowr, futr) := immunize_chunks cfg keys (S i) r in
      (c' :: r', (now + nowr)%N, (fut + futr)%N)
  end.

(** ImmunizeKeys: (state, numNowTotal, numFutureTotal) *)
Definition cache_immunize (s : cache) (keys : list bytes) : cache * N * N :=
  if immunize_refused s keys then (s, 0%N, 0%N)
  else let '(l, now, fut) := immunize_chunks (ca_cfg s) keys 0 (ca_chunks s) in
       (mkCache (ca_cfg s) l, now, fut).

(** Clear *)
Definition cache_clear (s : cache) : cache := new_cache (ca_cfg s).

(** state-changing operations, for the history theorems *)
Inductive op : Type :=
| OAdd (k p : bytes) (sz : Z)      (* HasOrAdd / Put / CrossTxCache.AddTx *)
| ORemove (k : bytes)              (* Remove / RemoveWithResult / RemoveTxByHash *)
| OImmunize (ks : list bytes)      (* ImmunizeKeys / ImmunizeTxsAgainstEviction *)
| OClear.

Definition step (s : cache) (o : op) : cache :=
  match o with
  | OAdd k p sz => let '(s', _, _, _) := cache_add s k p sz in s'
  | ORemove k => fst (cache_remove s k)
  | OImmunize ks => let '(s', _, _) := cache_immunize s ks in s'
  | OClear => cache_clear s
  end.

Definition run_from (s : cache) (ops : list op) : cache := fold_left step ops s.
Definition run (cfg : cache_cfg) (ops : list op) : cache := run_from (new_cache cfg) ops.
