(** Lemmas about the cache model (immunitycache/cache.go): invariant, frame lemmas per operation. *)
From Coq Require Import List NArith ZArith Bool Lia PeanoNat ZifyN ZifyNat ZifyBool.
From Verif Require Import Base.BStr Immunity.Chunk Immunity.Cache Immunity.Chunk_proofs.
Import ListNotations.
Local Open Scope nat_scope.

(* ------------------------------------------------------------------ lists *)

Lemma replace_nth_length {A} i (x : A) l : length (replace_nth i x l) = length l.
Proof. revert i; induction l as [|y r IH]; intros [|i]; simpl; auto. Qed.

Lemma nth_replace_same {A} i (x d : A) l : i < length l -> nth i (replace_nth i x l) d = x.
Proof. revert i; induction l as [|y r IH]; intros [|i] H; simpl in *; try lia; auto. apply IH. lia. Qed.

Lemma nth_replace_other {A} i j (x d : A) l : j <> i -> nth j (replace_nth i x l) d = nth j l d.
Proof. revert i j; induction l as [|y r IH]; intros [|i] [|j] H; simpl in *; try lia; auto. Qed.

Lemma replace_nth_id {A} i (d : A) l : i < length l -> replace_nth i (nth i l d) l = l.
Proof. revert i; induction l as [|y r IH]; intros [|i] H; simpl in *; try lia; auto. f_equal. apply IH. lia. Qed.

Lemma map_replace_same {A B} (f : A -> B) i (x d : A) l : i < length l -> f x = f (nth i l d) ->
  map f (replace_nth i x l) = map f l.
Proof. revert i; induction l as [|y r IH]; intros [|i] H E; simpl in *; try lia; f_equal; auto. apply IH; [lia|assumption]. Qed.

Lemma nth_repeat' {A} (a : A) n i : nth i (repeat a n) a = a.
Proof. revert i; induction n as [|n IH]; intros [|i]; simpl; auto. Qed.

Lemma in_concat_map_nth {A B} (f : A -> list B) (l : list A) (d : A) (x : B) :
  In x (concat (map f l)) <-> exists j, j < length l /\ In x (f (nth j l d)).
Proof.
  induction l as [|y r IH]; simpl.
  - split; [intros []|intros (j & H & _); lia].
  - rewrite in_app_iff, IH. split.
    + intros [H|(j & Hj & H)]; [exists 0; split; [lia|assumption]|exists (S j); split; [lia|assumption]].
    + intros ([|j] & Hj & H); [left; assumption|right; exists j; split; [lia|assumption]].
Qed.

Lemma NoDup_app_disj {A} (a b : list A) : NoDup a -> NoDup b -> (forall x, In x a -> ~ In x b) -> NoDup (a ++ b).
Proof.
  induction a as [|x a IH]; simpl; intros Ha Hb Hd; [assumption|].
  inversion Ha as [|? ? Hx Ha']; subst. constructor.
  - rewrite in_app_iff. intros [H|H]; [contradiction|]. apply (Hd x); [left; reflexivity|assumption].
  - apply IH; auto.
Qed.

Lemma NoDup_concat_routed {A B} (f : A -> list B) (g : B -> nat) : forall (l : list A) (d : A) (off : nat),
  (forall j, j < length l -> NoDup (f (nth j l d))) ->
  (forall j x, j < length l -> In x (f (nth j l d)) -> g x = off + j) ->
  NoDup (concat (map f l)).
Proof.
  induction l as [|y r IH]; intros d off Hnd Hg; simpl; [constructor|].
  apply NoDup_app_disj.
  - apply (Hnd 0). simpl; lia.
  - apply (IH d (S off)).
    + intros j Hj. apply (Hnd (S j)). simpl; lia.
    + intros j x Hj Hx. rewrite (Hg (S j) x); [lia|simpl; lia|assumption].
  - intros x Hx Hin. apply (in_concat_map_nth f r d x) in Hin. destruct Hin as (j & Hj & Hin).
    pose proof (Hg 0 x ltac:(simpl; lia) Hx). pose proof (Hg (S j) x ltac:(simpl; lia) Hin). lia.
Qed.

Lemma length_concat_map {A B} (f : A -> list B) (l : list A) :
  length (concat (map f l)) = fold_right (fun c a => length (f c) + a) 0 l.
Proof. induction l as [|y r IH]; simpl; [reflexivity|]. rewrite app_length, IH. reflexivity. Qed.

(* ------------------------------------------------------------------ the cache invariant *)

Definition routed (cfg : cache_cfg) (i : nat) (k : bytes) : Prop := chunk_index cfg k = i.

Record cache_inv (s : cache) : Prop := mkCV {
  cv_valid : cfg_valid (ca_cfg s) = true;
  cv_len : length (ca_chunks s) = N.to_nat (cf_numChunks (ca_cfg s));
  cv_chunks : forall i, i < length (ca_chunks s) ->
     chunk_inv (routed (ca_cfg s) i) (get_chunk s i) /\ ch_cfg (get_chunk s i) = chunk_config (ca_cfg s)
}.

Lemma cfg_valid_nc cfg : cfg_valid cfg = true -> (1 <= cf_numChunks cfg <= 128)%N.
Proof. unfold cfg_valid. intros H. repeat (apply andb_true_iff in H; destruct H as [H ?]). lia. Qed.

Lemma chunk_index_lt s k : cache_inv s -> chunk_index (ca_cfg s) k < length (ca_chunks s).
Proof.
  intros Hinv. rewrite (cv_len _ Hinv). pose proof (cfg_valid_nc _ (cv_valid _ Hinv)).
  unfold chunk_index. pose proof (N.mod_lt (fnv32 k) (cf_numChunks (ca_cfg s))). lia.
Qed.

Lemma new_cache_inv cfg : cfg_valid cfg = true -> cache_inv (new_cache cfg).
Proof.
  intros Hv. constructor; [assumption|unfold new_cache, init_chunks; cbn [ca_chunks ca_cfg]; apply repeat_length|].
  intros i Hi. unfold get_chunk, new_cache, init_chunks. cbn [ca_chunks ca_cfg]. rewrite nth_repeat'.
  split; [apply new_chunk_inv|reflexivity].
Qed.

Lemma get_set_same s i c : i < length (ca_chunks s) -> get_chunk (set_chunk s i c) i = c.
Proof. intros H. unfold get_chunk, set_chunk. simpl. apply nth_replace_same. assumption. Qed.

Lemma get_set_other s i j c : j <> i -> get_chunk (set_chunk s i c) j = get_chunk s j.
Proof. intros H. unfold get_chunk, set_chunk. simpl. apply nth_replace_other. assumption. Qed.

Lemma set_get_id s i : i < length (ca_chunks s) -> set_chunk s i (get_chunk s i) = s.
Proof. intros H. unfold set_chunk, get_chunk. rewrite replace_nth_id by assumption. destruct s; reflexivity. Qed.

Lemma set_chunk_inv s i c : cache_inv s -> i < length (ca_chunks s) ->
  chunk_inv (routed (ca_cfg s) i) c -> ch_cfg c = chunk_config (ca_cfg s) -> cache_inv (set_chunk s i c).
Proof.
  intros [V L C] Hi Hc Hcfg. constructor; simpl.
  - assumption.
  - rewrite replace_nth_length. assumption.
  - rewrite replace_nth_length. intros j Hj. destruct (Nat.eq_dec j i) as [->|Hne].
    + rewrite get_set_same by assumption. split; assumption.
    + rewrite get_set_other by assumption. apply C. assumption.
Qed.

(* ------------------------------------------------------------------ per-operation invariant preservation *)

Definition op_ok (o : op) : Prop := match o with OAdd _ _ sz => (0 <= sz)%Z | _ => True end.

Lemma cache_add_inv s k p sz : cache_inv s -> (0 <= sz)%Z -> cache_inv (fst (fst (fst (cache_add s k p sz)))).
Proof.
  intros Hinv Hsz. unfold cache_add. simpl.
  pose proof (chunk_index_lt s k Hinv) as Hi.
  destruct (cv_chunks _ Hinv _ Hi) as [Hc Hcfg].
  apply set_chunk_inv; auto.
  - apply add_item_inv; auto. reflexivity.
  - erewrite add_item_cfg; eauto.
Qed.

Lemma cache_remove_inv s k : cache_inv s -> cache_inv (fst (cache_remove s k)).
Proof.
  intros Hinv. unfold cache_remove.
  pose proof (chunk_index_lt s k Hinv) as Hi.
  destruct (cv_chunks _ Hinv _ Hi) as [Hc Hcfg].
  destruct (remove_item (get_chunk s (chunk_index (ca_cfg s) k)) k) as [c b] eqn:E. simpl.
  assert (Ec : c = fst (remove_item (get_chunk s (chunk_index (ca_cfg s) k)) k)) by (rewrite E; reflexivity).
  apply set_chunk_inv; auto.
  - rewrite Ec. apply remove_item_inv. assumption.
  - rewrite Ec, remove_item_cfg. assumption.
Qed.

Definition group (cfg : cache_cfg) (keys : list bytes) (i : nat) : list bytes :=
  filter (fun k => Nat.eqb (chunk_index cfg k) i) keys.

Lemma immunize_chunks_length cfg keys : forall l off, length (fst (fst (immunize_chunks cfg keys off l))) = length l.
Proof.
  induction l as [|c r IH]; intros off; simpl; [reflexivity|].
  destruct (chunk_immunize_keys c _ 0%N 0%N) as [[c' now] fut].
  specialize (IH (S off)). destruct (immunize_chunks cfg keys (S off) r) as [[r' nowr] futr]. simpl in *. congruence.
Qed.

Lemma immunize_chunks_nth cfg keys d : forall l off j, j < length l ->
  nth j (fst (fst (immunize_chunks cfg keys off l))) d =
  fst (fst (chunk_immunize_keys (nth j l d) (group cfg keys (off + j)) 0%N 0%N)).
Proof.
  induction l as [|c r IH]; intros off j Hj; simpl in Hj; [lia|].
  simpl. fold (group cfg keys off).
  destruct (chunk_immunize_keys c (group cfg keys off) 0%N 0%N) as [[c' now] fut] eqn:E.
  specialize (IH (S off)). destruct (immunize_chunks cfg keys (S off) r) as [[r' nowr] futr]. simpl in *.
  destruct j as [|j].
  - rewrite Nat.add_0_r, E. reflexivity.
  - rewrite IH by lia. replace (off + S j) with (S (off + j)) by lia. reflexivity.
Qed.

Lemma group_routed cfg keys i k : In k (group cfg keys i) <-> In k keys /\ chunk_index cfg k = i.
Proof. unfold group. rewrite filter_In, Nat.eqb_eq. tauto. Qed.

Definition immunized_cache (s : cache) (keys : list bytes) : cache :=
  mkCache (ca_cfg s) (fst (fst (immunize_chunks (ca_cfg s) keys 0 (ca_chunks s)))).

Lemma cache_immunize_state s keys :
  fst (fst (cache_immunize s keys)) = if immunize_refused s keys then s else immunized_cache s keys.
Proof.
  unfold cache_immunize, immunized_cache. destruct (immunize_refused s keys); [reflexivity|].
  destruct (immunize_chunks (ca_cfg s) keys 0 (ca_chunks s)) as [[l now] fut]. reflexivity.
Qed.

Lemma immunized_get_chunk s keys i : i < length (ca_chunks s) ->
  get_chunk (immunized_cache s keys) i =
  fst (fst (chunk_immunize_keys (get_chunk s i) (group (ca_cfg s) keys i) 0%N 0%N)).
Proof. intros Hi. unfold get_chunk, immunized_cache. simpl. rewrite immunize_chunks_nth by assumption. reflexivity. Qed.

Lemma immunized_cache_inv s keys : cache_inv s -> cache_inv (immunized_cache s keys).
Proof.
  intros Hinv. constructor.
  - exact (cv_valid _ Hinv).
  - simpl. rewrite immunize_chunks_length. exact (cv_len _ Hinv).
  - simpl. rewrite immunize_chunks_length. intros i Hi.
    rewrite immunized_get_chunk by assumption.
    destruct (cv_chunks _ Hinv _ Hi) as [Hc Hcfg].
    destruct (chunk_immunize_keys_spec (routed (ca_cfg s) i) (group (ca_cfg s) keys i) (get_chunk s i) 0%N 0%N Hc)
      as (A1 & A2 & _).
    + intros k Hk. apply group_routed in Hk. apply Hk.
    + split; [assumption|congruence].
Qed.

Lemma cache_immunize_inv s keys : cache_inv s -> cache_inv (fst (fst (cache_immunize s keys))).
Proof.
  intros Hinv. rewrite cache_immunize_state. destruct (immunize_refused s keys); [assumption|].
  apply immunized_cache_inv. assumption.
Qed.

Lemma cache_clear_inv s : cache_inv s -> cache_inv (cache_clear s).
Proof. intros Hinv. apply new_cache_inv. exact (cv_valid _ Hinv). Qed.

Lemma step_cfg s o : ca_cfg (step s o) = ca_cfg s.
Proof.
  destruct o as [k p sz|k|ks|]; simpl.
  - reflexivity.
  - unfold cache_remove. destruct (remove_item _ _). reflexivity.
  - unfold cache_immunize. destruct (immunize_refused s ks); [reflexivity|].
    destruct (immunize_chunks _ _ _ _) as [[l now] fut]. reflexivity.
  - reflexivity.
Qed.

Lemma step_add_eq s k p sz : step s (OAdd k p sz) = fst (fst (fst (cache_add s k p sz))).
Proof. reflexivity. Qed.

Lemma step_immunize_eq s ks : step s (OImmunize ks) = fst (fst (cache_immunize s ks)).
Proof. simpl. destruct (cache_immunize s ks) as [[s' a] b]. reflexivity. Qed.

Lemma step_inv s o : cache_inv s -> op_ok o -> cache_inv (step s o).
Proof.
  intros Hinv Hok. destruct o as [k p sz|k|ks|].
  - rewrite step_add_eq. apply cache_add_inv; assumption.
  - simpl. apply cache_remove_inv. assumption.
  - rewrite step_immunize_eq. apply cache_immunize_inv. assumption.
  - simpl. apply cache_clear_inv. assumption.
Qed.

Lemma run_from_app s a b : run_from s (a ++ b) = run_from (run_from s a) b.
Proof. unfold run_from. apply fold_left_app. Qed.

Lemma run_from_inv ops : forall s, cache_inv s -> Forall op_ok ops -> cache_inv (run_from s ops).
Proof.
  induction ops as [|o r IH]; intros s Hinv Hok; simpl; [assumption|].
  inversion Hok; subst. apply IH; [apply step_inv; assumption|assumption].
Qed.

Lemma run_inv cfg ops : cfg_valid cfg = true -> Forall op_ok ops -> cache_inv (run cfg ops).
Proof. intros Hv Hok. apply run_from_inv; [apply new_cache_inv; assumption|assumption]. Qed.

Lemma run_from_cfg ops : forall s, ca_cfg (run_from s ops) = ca_cfg s.
Proof. induction ops as [|o r IH]; intros s; simpl; [reflexivity|]. rewrite IH. apply step_cfg. Qed.

(* ------------------------------------------------------------------ views under the invariant *)

Definition dflt (s : cache) : chunk := new_chunk (chunk_config (ca_cfg s)).

Lemma cache_items_routed s it : cache_inv s ->
  (In it (cache_items s) <-> In it (ch_items (get_chunk s (chunk_index (ca_cfg s) (i_key it))))).
Proof.
  intros Hinv. unfold cache_items. rewrite (in_concat_map_nth ch_items (ca_chunks s) (dflt s)). split.
  - intros (j & Hj & Hin). destruct (cv_chunks _ Hinv _ Hj) as [Hc _].
    pose proof (ci_route_items _ _ Hc _ Hin) as Hr. unfold routed in Hr. rewrite Hr. exact Hin.
  - intros Hin. exists (chunk_index (ca_cfg s) (i_key it)). split; [apply chunk_index_lt; assumption|exact Hin].
Qed.

Lemma cache_immune_routed s k : cache_inv s ->
  (In k (cache_immune_keys s) <-> In k (ch_immune (get_chunk s (chunk_index (ca_cfg s) k)))).
Proof.
  intros Hinv. unfold cache_immune_keys. rewrite (in_concat_map_nth ch_immune (ca_chunks s) (dflt s)). split.
  - intros (j & Hj & Hin). destruct (cv_chunks _ Hinv _ Hj) as [Hc _].
    pose proof (ci_route_imm _ _ Hc _ Hin) as Hr. unfold routed in Hr. rewrite Hr. exact Hin.
  - intros Hin. exists (chunk_index (ca_cfg s) k). split; [apply chunk_index_lt; assumption|exact Hin].
Qed.

Lemma cache_keys_routed s k : cache_inv s ->
  (In k (cache_keys s) <-> In k (chunk_keys (get_chunk s (chunk_index (ca_cfg s) k)))).
Proof.
  intros Hinv. unfold cache_keys. rewrite (in_concat_map_nth chunk_keys (ca_chunks s) (dflt s)). split.
  - intros (j & Hj & Hin). destruct (cv_chunks _ Hinv _ Hj) as [Hc _].
    unfold chunk_keys, item_keys in Hin. apply in_map_iff in Hin. destruct Hin as (it & <- & Hin).
    pose proof (ci_route_items _ _ Hc _ Hin) as Hr. unfold routed in Hr. rewrite Hr.
    unfold chunk_keys, item_keys. apply in_map. exact Hin.
  - intros Hin. exists (chunk_index (ca_cfg s) k). split; [apply chunk_index_lt; assumption|exact Hin].
Qed.

Lemma cache_has_keys s k : cache_inv s -> (cache_has s k = true <-> In k (cache_keys s)).
Proof.
  intros Hinv. rewrite cache_keys_routed by assumption. unfold cache_has, cache_get_item, chunk_keys.
  rewrite <- find_item_is_some. destruct (find_item k _) as [it|]; split; intros H; eauto; try discriminate.
  destruct H as (x & H); discriminate.
Qed.

Lemma cache_get_has s k : cache_has s k = match cache_get s k with Some _ => true | None => false end.
Proof. unfold cache_has, cache_get. destruct (cache_get_item s k); reflexivity. Qed.

Lemma cache_keys_nodup s : cache_inv s -> NoDup (cache_keys s).
Proof.
  intros Hinv. unfold cache_keys.
  apply (NoDup_concat_routed chunk_keys (chunk_index (ca_cfg s)) (ca_chunks s) (dflt s) 0).
  - intros j Hj. destruct (cv_chunks _ Hinv _ Hj) as [Hc _]. apply (ci_nodup _ _ Hc).
  - intros j x Hj Hin. destruct (cv_chunks _ Hinv _ Hj) as [Hc _].
    unfold chunk_keys, item_keys in Hin. apply in_map_iff in Hin. destruct Hin as (it & <- & Hin).
    apply (ci_route_items _ _ Hc _ Hin).
Qed.

Lemma cache_immune_nodup s : cache_inv s -> NoDup (cache_immune_keys s).
Proof.
  intros Hinv. unfold cache_immune_keys.
  apply (NoDup_concat_routed ch_immune (chunk_index (ca_cfg s)) (ca_chunks s) (dflt s) 0).
  - intros j Hj. destruct (cv_chunks _ Hinv _ Hj) as [Hc _]. apply (ci_imm_nodup _ _ Hc).
  - intros j x Hj Hin. destruct (cv_chunks _ Hinv _ Hj) as [Hc _]. apply (ci_route_imm _ _ Hc _ Hin).
Qed.

Lemma cache_count_keys s : cache_count s = N.of_nat (length (cache_keys s)).
Proof.
  unfold cache_count, cache_keys. rewrite length_concat_map.
  induction (ca_chunks s) as [|c r IH]; simpl; [reflexivity|].
  rewrite IH. unfold chunk_count, chunk_keys, item_keys. rewrite map_length. lia.
Qed.

Lemma cache_count_items s : cache_count s = N.of_nat (length (cache_items s)).
Proof.
  unfold cache_count, cache_items. rewrite length_concat_map.
  induction (ca_chunks s) as [|c r IH]; simpl; [reflexivity|]. rewrite IH. unfold chunk_count. lia.
Qed.

Lemma cache_keys_items s : cache_keys s = map i_key (cache_items s).
Proof.
  unfold cache_keys, cache_items. induction (ca_chunks s) as [|c r IH]; simpl; [reflexivity|].
  rewrite map_app, IH. reflexivity.
Qed.

Lemma cache_count_immune_keys s : cache_count_immune s = N.of_nat (length (cache_immune_keys s)).
Proof.
  unfold cache_count_immune, cache_immune_keys. rewrite length_concat_map.
  induction (ca_chunks s) as [|c r IH]; simpl; [reflexivity|]. rewrite IH. unfold chunk_count_immune. lia.
Qed.

Lemma Forall_chunks s (Q : chunk -> Prop) : (forall i, i < length (ca_chunks s) -> Q (get_chunk s i)) -> Forall Q (ca_chunks s).
Proof. intros H. apply Forall_nth. intros i d Hi. rewrite (nth_indep _ d (dflt s) Hi). apply H. assumption. Qed.

Lemma cache_bytes_sum s : cache_inv s -> cache_num_bytes s = sum_sizes (cache_items s).
Proof.
  intros Hinv. assert (HF : Forall (fun c => ch_numBytes c = sum_sizes (ch_items c)) (ca_chunks s)).
  { apply Forall_chunks. intros i Hi. destruct (cv_chunks _ Hinv _ Hi) as [Hc _]. apply (ci_bytes _ _ Hc). }
  unfold cache_num_bytes, cache_items. induction HF as [|c r Hc HF IH]; simpl; [reflexivity|].
  rewrite sum_sizes_app, IH, Hc. reflexivity.
Qed.

Lemma cache_count_bound s : cache_inv s ->
  (cache_count s <= cf_numChunks (ca_cfg s) * (cf_maxItems (ca_cfg s) / cf_numChunks (ca_cfg s)))%N.
Proof.
  intros Hinv. pose proof (cfg_valid_nc _ (cv_valid _ Hinv)) as Hnc.
  assert (HF : Forall (fun c => (chunk_count c <= cf_maxItems (ca_cfg s) / cf_numChunks (ca_cfg s))%N) (ca_chunks s)).
  { apply Forall_chunks. intros i Hi. destruct (cv_chunks _ Hinv _ Hi) as [Hc Hcfg].
    pose proof (ci_count _ _ Hc) as Hb. rewrite Hcfg in Hb. unfold chunk_config in Hb. simpl in Hb.
    rewrite N.max_l in Hb by lia. exact Hb. }
  pose proof (cv_len _ Hinv) as Hlen.
  assert (Hgen : (cache_count s <= N.of_nat (length (ca_chunks s)) * (cf_maxItems (ca_cfg s) / cf_numChunks (ca_cfg s)))%N).
  { unfold cache_count. clear Hlen. induction HF as [|c r Hc HF IH]; simpl length; cbn [fold_right]; [lia|]. nia. }
  rewrite Hlen in Hgen. rewrite N2Nat.id in Hgen. exact Hgen.
Qed.

(* ------------------------------------------------------------------ frame lemmas: lookups *)

Lemma get_item_set_chunk s i c k : i < length (ca_chunks s) ->
  cache_get_item (set_chunk s i c) k =
  if Nat.eqb (chunk_index (ca_cfg s) k) i then find_item k (ch_items c) else cache_get_item s k.
Proof.
  intros Hi. unfold cache_get_item. simpl. destruct (Nat.eqb_spec (chunk_index (ca_cfg s) k) i) as [E|E].
  - rewrite E, get_set_same by assumption. reflexivity.
  - rewrite get_set_other by assumption. reflexivity.
Qed.

Lemma same_key_same_item l a b : NoDup (item_keys l) -> In a l -> In b l -> i_key a = i_key b -> a = b.
Proof.
  intros Hnd Ha Hb E. pose proof (find_item_in _ _ Hnd Ha) as H1. pose proof (find_item_in _ _ Hnd Hb) as H2.
  rewrite E in H1. congruence.
Qed.

Lemma find_item_app_new l k it : ~ In k (item_keys l) -> i_key it = k -> find_item k (l ++ [it]) = Some it.
Proof.
  intros Hn Hk. induction l as [|x r IH]; simpl.
  - rewrite <- Hk, beqb_refl. reflexivity.
  - destruct (beqb_spec k (i_key x)) as [E|E].
    + exfalso. apply Hn. left. symmetry; assumption.
    + apply IH. intros H. apply Hn. right; assumption.
Qed.
