(** The wire wrapper's universe observers (labels 20/21) read the model's Get/Has:
    the chunk index cached with every universe key at init stays the model's [chunk_index]. *)
From Coq Require Import List NArith ZArith Bool.
From Verif Require Import Base.Generic Base.BStr Immunity.Chunk Immunity.Cache Immunity.ImmunityComp
  Immunity.Chunk_proofs Immunity.Cache_proofs.
Import ListNotations.

Lemma probe_get s k : probe s (k, chunk_index (ca_cfg s) k) = cache_get_item s k.
Proof. reflexivity. Qed.

Definition universe_ok (st : istate) : Prop :=
  Forall (fun ki => snd ki = chunk_index (ca_cfg (is_cache st)) (fst ki)) (is_universe st).

Lemma init_universe_ok args st : immunity_init args = Some st -> universe_ok st.
Proof.
  unfold immunity_init. destruct (cfg_valid _); [|discriminate]. intros H; inversion H; subst; clear H.
  unfold universe_ok. simpl. apply Forall_forall. intros ki Hin. apply in_map_iff in Hin.
  destruct Hin as (a & <- & _). reflexivity.
Qed.

Lemma cache_add_cfg s k p sz : ca_cfg (fst (fst (fst (cache_add s k p sz)))) = ca_cfg s.
Proof. reflexivity. Qed.

Lemma cache_remove_cfg s k : ca_cfg (fst (cache_remove s k)) = ca_cfg s.
Proof. exact (step_cfg s (ORemove k)). Qed.

Lemma cache_immunize_cfg s ks : ca_cfg (fst (fst (cache_immunize s ks))) = ca_cfg s.
Proof. rewrite <- step_immunize_eq. apply step_cfg. Qed.

Lemma step_state_shape st code args :
  is_universe (fst (immunity_step st code args)) = is_universe st /\
  ca_cfg (is_cache (fst (immunity_step st code args))) = ca_cfg (is_cache st).
Proof.
  unfold immunity_step.
  pose proof (cache_add_cfg (is_cache st) (arg_B (nth_arg args 0)) (arg_B (nth_arg args 1)) (arg_Z (nth_arg args 2))) as Ha.
  pose proof (cache_remove_cfg (is_cache st) (arg_B (nth_arg args 0))) as Hr.
  pose proof (cache_immunize_cfg (is_cache st) (map arg_B (arg_L (nth_arg args 0)))) as Hi.
  destruct (cache_add _ _ _ _) as [[[sa ?] ?] ?]. destruct (cache_remove _ _) as [sr ?]. destruct (cache_immunize _ _) as [[si ?] ?].
  simpl in Ha, Hr, Hi.
  destruct code as [|p]; [split; reflexivity|].
  repeat (destruct p as [p|p|]; try (split; reflexivity); try (split; [reflexivity|assumption])).
Qed.

Lemma step_universe_ok st code args : universe_ok st -> universe_ok (fst (immunity_step st code args)).
Proof.
  unfold universe_ok. destruct (step_state_shape st code args) as [-> ->]. auto.
Qed.
