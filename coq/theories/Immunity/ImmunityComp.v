(** Wire-format wrapper of the immunity cache model (component "immunity", C12/C13).
    config  kind numChunks maxNumItems maxNumBytes numItemsToPreemptivelyEvict [ universe of keys ]
            kind 0 = immunitycache.ImmunityCache, 1 = txcache.CrossTxCache (thin pass-through:
            AddTx = HasOrAdd(tx.TxHash, tx, tx.Size), GetByTxHash/Get/Peek = Get,
            RemoveTxByHash = RemoveWithResult, ImmunizeTxsAgainstEviction = ImmunizeKeys without results)
    op 1 key payload size   HasOrAdd / AddTx        -> 1=has 2=added
    op 2 key payload size   Put                     -> 3=evicted (always false)
    op 3 key                Get                     -> 4=payload|nil 5=ok
    op 4 key                Has                     -> 6=has
    op 5 key                Peek                    -> 4=payload|nil 5=ok
    op 6 key                RemoveWithResult        -> 9=removed
    op 7 [ keys ]           ImmunizeKeys            -> 10=numNow 11=numFuture   (kind 0 only)
    op 8                    Clear
    after EVERY op: 12=Count 13=Len 14=NumBytes 15=CountImmune 16=sorted Keys 17=sorted ForEachItem keys
                    20=[Get k | k in universe] 21=[Has k | k in universe]
    990 = model ran out of fuel (never; model-only label) *)
From Coq Require Import List NArith ZArith Bool.
From Verif Require Import Base.Generic Base.BStr Immunity.Chunk Immunity.Cache.
Import ListNotations.
Open Scope N_scope.

(** [is_universe] carries, with every key, its chunk index [chunk_index cfg k] computed once at
    init (the hash is the expensive part of the observers); see [ImmunityComp_proofs.probe_get] and [step_universe_ok]. *)
Record istate : Type := mkIS { is_kind : N; is_universe : list (bytes * nat); is_cache : cache }.

Definition probe (s : cache) (ki : bytes * nat) : option item :=
  find_item (fst ki) (ch_items (get_chunk s (snd ki))).

Definition immunity_init (args : list garg) : option istate :=
  let cfg := mkCfg (arg_N (nth_arg args 1)) (arg_N (nth_arg args 2)) (arg_N (nth_arg args 3)) (arg_N (nth_arg args 4)) in
  if cfg_valid cfg
  then Some (mkIS (arg_N (nth_arg args 0)) (map (fun a => (arg_B a, chunk_index cfg (arg_B a))) (arg_L (nth_arg args 5))) (new_cache cfg))
  else None.

Definition observers (st : istate) : list obs :=
  let s := is_cache st in
  [ (12, g_N (cache_count s)); (13, g_N (cache_count s)); (14, GN (cache_num_bytes s));
    (15, g_N (cache_count_immune s)); (16, g_listB (bsort (cache_keys s)));
    (17, g_listB (bsort (map i_key (cache_items s))));
    (20, GL (map (fun ki => g_optB (option_map i_payload (probe s ki))) (is_universe st)));
    (21, GL (map (fun ki => g_bool (match probe s ki with Some _ => true | None => false end)) (is_universe st))) ].

Definition with_cache (st : istate) (s : cache) : istate := mkIS (is_kind st) (is_universe st) s.

Definition immunity_step (st : istate) (code : N) (args : list garg) : istate * list obs :=
  let s := is_cache st in
  let '(st', out) :=
    match code with
    | 1 => let '(s', has, added, fuel) := cache_add s (arg_B (nth_arg args 0)) (arg_B (nth_arg args 1)) (arg_Z (nth_arg args 2)) in
           (with_cache st s', [(1, g_bool has); (2, g_bool added)] ++ (if fuel then [(990, g_N 1)] else []))
    | 2 => let '(s', _, _, fuel) := cache_add s (arg_B (nth_arg args 0)) (arg_B (nth_arg args 1)) (arg_Z (nth_arg args 2)) in
           (with_cache st s', [(3, g_bool false)] ++ (if fuel then [(990, g_N 1)] else []))
    | 3 | 5 => let r := cache_get s (arg_B (nth_arg args 0)) in
           (st, [(4, g_optB r); (5, g_bool (match r with Some _ => true | None => false end))])
    | 4 => (st, [(6, g_bool (cache_has s (arg_B (nth_arg args 0))))])
    | 6 => let '(s', b) := cache_remove s (arg_B (nth_arg args 0)) in
           (with_cache st s', [(9, g_bool b)])
    | 7 => let '(s', now, fut) := cache_immunize s (map arg_B (arg_L (nth_arg args 0))) in
           (with_cache st s', if is_kind st =? 0 then [(10, g_N now); (11, g_N fut)] else [])
    | 8 => (with_cache st (cache_clear s), [])
    | _ => (st, [])
    end in
  (st', out ++ observers st').

Definition immunity_component : component :=
  {| c_state := istate; c_init := immunity_init; c_step := immunity_step |}.
