(** Lemmas about the chunk model (immunitycache/chunk.go). *)
From Coq Require Import List NArith ZArith Bool Lia ZifyN ZifyNat ZifyBool.
From Verif Require Import Base.BStr Immunity.Chunk.
Import ListNotations.

(* ------------------------------------------------------------------ small facts *)

Lemma bmem_In k l : bmem k l = true <-> In k l.
Proof.
  unfold bmem. rewrite existsb_exists. split.
  - intros (x & Hx & E). apply beqb_eq in E. subst; assumption.
  - intros H. exists k. split; [assumption|apply beqb_refl].
Qed.

Lemma bmem_false k l : bmem k l = false <-> ~ In k l.
Proof. rewrite <- bmem_In. destruct (bmem k l); split; congruence. Qed.

Lemma find_item_some k l it : find_item k l = Some it -> In it l /\ i_key it = k.
Proof.
  induction l as [|x r IH]; simpl; [discriminate|].
  destruct (beqb_spec k (i_key x)) as [E|E].
  - intros H; inversion H; subst. split; [left; reflexivity|reflexivity].
  - intros H. destruct (IH H) as [H1 H2]. split; [right; assumption|assumption].
Qed.

Lemma find_item_none k l : find_item k l = None <-> ~ In k (item_keys l).
Proof.
  induction l as [|x r IH]; simpl.
  - split; [intros _ []|reflexivity].
  - destruct (beqb_spec k (i_key x)) as [E|E].
    + split; [discriminate|]. intros H. exfalso. apply H. left. symmetry; assumption.
    + rewrite IH. split.
      * intros H [H1|H1]; [apply E; symmetry; assumption|apply H; assumption].
      * intros H H1. apply H. right; assumption.
Qed.

Lemma find_item_is_some k l : (exists it, find_item k l = Some it) <-> In k (item_keys l).
Proof.
  destruct (find_item k l) as [it|] eqn:E.
  - split; [|intros _; eauto]. intros _. apply find_item_some in E. destruct E as [H1 H2].
    unfold item_keys. rewrite <- H2. apply in_map. assumption.
  - split; [intros (it & H); discriminate|]. intros H. apply find_item_none in E. contradiction.
Qed.

Lemma find_item_in l it : NoDup (item_keys l) -> In it l -> find_item (i_key it) l = Some it.
Proof.
  induction l as [|x r IH]; simpl; intros Hnd Hin; [contradiction|].
  inversion Hnd as [|? ? Hx Hr]; subst.
  destruct Hin as [->|Hin].
  - rewrite beqb_refl. reflexivity.
  - destruct (beqb_spec (i_key it) (i_key x)) as [E|E].
    + exfalso. apply Hx. rewrite <- E. unfold item_keys. apply in_map. assumption.
    + apply IH; assumption.
Qed.

Definition sum_sizes (l : list item) : Z := fold_right (fun it a => (i_size it + a)%Z) 0%Z l.

Lemma sum_sizes_app a b : sum_sizes (a ++ b) = (sum_sizes a + sum_sizes b)%Z.
Proof. induction a as [|x a IH]; simpl; [reflexivity|]. rewrite IH. lia. Qed.

Lemma sum_sizes_nonneg l : Forall (fun it => (0 <= i_size it)%Z) l -> (0 <= sum_sizes l)%Z.
Proof. induction 1; simpl; lia. Qed.

Lemma item_keys_app a b : item_keys (a ++ b) = item_keys a ++ item_keys b.
Proof. apply map_app. Qed.

(* ------------------------------------------------------------------ removeOldestNoLock *)

(** the shape of a run of removeOldestNoLock: [RO l n kept removed] *)
Inductive RO : list item -> N -> list item -> list item -> Prop :=
| RO_nil n : RO [] n [] []
| RO_zero l : RO l 0%N l []
| RO_skip it r n kept rm : n <> 0%N -> i_immune it = true -> RO r n kept rm -> RO (it :: r) n (it :: kept) rm
| RO_take it r n kept rm : n <> 0%N -> i_immune it = false -> RO r (n - 1)%N kept rm -> RO (it :: r) n kept (it :: rm).

Lemma remove_oldest_RO l : forall n nb kept rm nb',
  remove_oldest l n nb = (kept, rm, nb') -> RO l n kept rm /\ nb' = fold_left track_remove rm nb.
Proof.
  induction l as [|it r IH]; intros n nb kept rm nb' H; simpl in H.
  - inversion H; subst. split; [constructor|reflexivity].
  - destruct (n =? 0)%N eqn:En.
    + inversion H; subst. apply N.eqb_eq in En. subst. split; [constructor|reflexivity].
    + apply N.eqb_neq in En. destruct (i_immune it) eqn:Ei.
      * destruct (remove_oldest r n nb) as [[k1 r1] n1] eqn:E. inversion H; subst.
        destruct (IH _ _ _ _ _ E) as [H1 H2]. split; [constructor; assumption|assumption].
      * destruct (remove_oldest r (n - 1)%N (track_remove nb it)) as [[k1 r1] n1] eqn:E. inversion H; subst.
        destruct (IH _ _ _ _ _ E) as [H1 H2]. split; [constructor; assumption|assumption].
Qed.

Ltac ro_ind H := induction H as [n0|l0|it r n0 k0 rm0 Hn Hi HR IH|it r n0 k0 rm0 Hn Hi HR IH].

Lemma RO_incl_kept l n kept rm (H : RO l n kept rm) : incl kept l.
Proof. ro_ind H; intros x Hx; simpl in *; intuition. Qed.

Lemma RO_incl_rm l n kept rm (H : RO l n kept rm) : incl rm l.
Proof. ro_ind H; intros x Hx; simpl in *; intuition. Qed.

Lemma RO_rm_not_immune l n kept rm (H : RO l n kept rm) : Forall (fun it => i_immune it = false) rm.
Proof. ro_ind H; auto. Qed.

Lemma RO_immune_kept l n kept rm (H : RO l n kept rm) : forall x, In x l -> i_immune x = true -> In x kept.
Proof.
  ro_ind H; intros x Hx Hix; simpl in *; auto.
  - destruct Hx as [->|Hx]; [left; reflexivity|right; auto].
  - destruct Hx as [->|Hx]; [congruence|auto].
Qed.

Lemma RO_length l n kept rm (H : RO l n kept rm) : (length kept + length rm = length l)%nat.
Proof. ro_ind H; simpl; lia. Qed.

Lemma RO_rm_le l n kept rm (H : RO l n kept rm) : (N.of_nat (length rm) <= n)%N.
Proof. ro_ind H; simpl; lia. Qed.

Lemma RO_sum l n kept rm (H : RO l n kept rm) : sum_sizes l = (sum_sizes kept + sum_sizes rm)%Z.
Proof. ro_ind H; simpl; lia. Qed.

Lemma RO_keys_incl l n kept rm (H : RO l n kept rm) : incl (item_keys kept) (item_keys l).
Proof. ro_ind H; intros x Hx; simpl in *; intuition. Qed.

Lemma RO_nodup l n kept rm (H : RO l n kept rm) : NoDup (item_keys l) -> NoDup (item_keys kept).
Proof.
  ro_ind H; intros Hnd; simpl in *; auto.
  - inversion Hnd as [|? ? Hx Hr]; subst. constructor; auto. intros Hin. apply Hx.
    apply (RO_keys_incl _ _ _ _ HR). assumption.
  - inversion Hnd; subst. auto.
Qed.

Lemma RO_short_all_immune l n kept rm (H : RO l n kept rm) :
  (N.of_nat (length rm) < n)%N -> Forall (fun it => i_immune it = true) kept.
Proof.
  ro_ind H; intros Hlt; simpl in *; auto.
  - lia.
  - apply IH. lia.
Qed.

Lemma RO_none_same l n kept rm (H : RO l n kept rm) : rm = [] -> kept = l.
Proof. ro_ind H; intros E; auto; try discriminate. f_equal. auto. Qed.

Lemma RO_all_immune_none l n kept rm (H : RO l n kept rm) :
  Forall (fun it => i_immune it = true) l -> rm = [] /\ kept = l.
Proof.
  ro_ind H; intros Ha; auto.
  - inversion Ha as [|? ? Hx Hr]; subst. destruct (IH Hr) as [-> ->]. auto.
  - inversion Ha as [|? ? Hx Hr]; subst. congruence.
Qed.

Lemma RO_kept_forall l n kept rm (H : RO l n kept rm) (Q : item -> Prop) : Forall Q l -> Forall Q kept.
Proof. intros Ha. rewrite Forall_forall in *. intros x Hx. apply Ha. apply (RO_incl_kept _ _ _ _ H). assumption. Qed.

Lemma track_fold rm : forall nb, Forall (fun it => (0 <= i_size it)%Z) rm -> (sum_sizes rm <= nb)%Z ->
  fold_left track_remove rm nb = (nb - sum_sizes rm)%Z.
Proof.
  induction rm as [|x r IH]; intros nb Hs Hle; simpl in *; [lia|].
  inversion Hs; subst. pose proof (sum_sizes_nonneg _ H2).
  rewrite IH; auto; unfold track_remove; lia.
Qed.

(* ------------------------------------------------------------------ the chunk invariant *)

(** [P] says which keys are routed to this chunk *)
Record chunk_inv (P : bytes -> Prop) (c : chunk) : Prop := mkCI {
  ci_nodup : NoDup (item_keys (ch_items c));
  ci_flag : forall it, In it (ch_items c) -> i_immune it = bmem (i_key it) (ch_immune c);
  ci_imm_nodup : NoDup (ch_immune c);
  ci_bytes : ch_numBytes c = sum_sizes (ch_items c);
  ci_sizes : Forall (fun it => (0 <= i_size it)%Z) (ch_items c);
  ci_count : (N.of_nat (length (ch_items c)) <= cc_maxItems (ch_cfg c))%N;
  ci_route_items : forall it, In it (ch_items c) -> P (i_key it);
  ci_route_imm : forall k, In k (ch_immune c) -> P k
}.

(** [c'] is [c] after some evictions: only non-immune items left, nothing else changed *)
Record shrinks (c c' : chunk) : Prop := mkSh {
  sh_cfg : ch_cfg c' = ch_cfg c;
  sh_imm : ch_immune c' = ch_immune c;
  sh_incl : incl (ch_items c') (ch_items c);
  sh_immune_stay : forall it, In it (ch_items c) -> i_immune it = true -> In it (ch_items c');
  sh_len : (length (ch_items c') <= length (ch_items c))%nat
}.

Lemma shrinks_refl c : shrinks c c.
Proof. constructor; auto. apply incl_refl. Qed.

Lemma shrinks_trans a b c : shrinks a b -> shrinks b c -> shrinks a c.
Proof.
  intros [A1 A2 A3 A4 A5] [B1 B2 B3 B4 B5]. constructor; try congruence.
  - eapply incl_tran; eassumption.
  - intros it Hin Hi. apply B4; auto.
  - lia.
Qed.

Lemma new_chunk_inv P cfg : chunk_inv P (new_chunk cfg).
Proof. constructor; simpl; try constructor; try contradiction; try reflexivity. lia. Qed.

Lemma chunk_remove_oldest_spec P c n c' r :
  chunk_inv P c -> chunk_remove_oldest c n = (c', r) ->
  chunk_inv P c' /\ shrinks c c' /\ (r <= n)%N /\
  (length (ch_items c') + N.to_nat r = length (ch_items c))%nat /\
  (r = 0%N -> c' = c) /\
  ((r < n)%N -> Forall (fun it => i_immune it = true) (ch_items c')) /\
  (Forall (fun it => i_immune it = true) (ch_items c) -> r = 0%N).
Proof.
  intros Hinv Hr. unfold chunk_remove_oldest in Hr.
  destruct (remove_oldest (ch_items c) n (ch_numBytes c)) as [[kept rm] nb] eqn:E.
  inversion Hr; subst; clear Hr.
  destruct (remove_oldest_RO _ _ _ _ _ _ E) as [HRO Hnb].
  destruct Hinv as [I1 I2 I3 I4 I5 I6 I7 I8].
  pose proof (RO_length _ _ _ _ HRO) as Hlen.
  pose proof (RO_sum _ _ _ _ HRO) as Hsum.
  pose proof (RO_incl_kept _ _ _ _ HRO) as Hik.
  assert (Hrs : Forall (fun it => (0 <= i_size it)%Z) rm).
  { rewrite Forall_forall in *. intros x Hx. apply I5. apply (RO_incl_rm _ _ _ _ HRO). assumption. }
  assert (Hks : Forall (fun it => (0 <= i_size it)%Z) kept) by (eapply RO_kept_forall; eauto).
  pose proof (sum_sizes_nonneg _ Hks) as Hk0.
  pose proof (RO_rm_le _ _ _ _ HRO) as Hrle.
  split.
  { constructor; simpl.
    - eapply RO_nodup; eauto.
    - intros it Hin. apply I2. apply Hik. assumption.
    - assumption.
    - rewrite Hnb, track_fold; auto; lia.
    - assumption.
    - lia.
    - intros it Hin. apply I7, Hik, Hin.
    - assumption. }
  split.
  { constructor; simpl; auto.
    - eapply RO_immune_kept; eauto.
    - lia. }
  split; [assumption|].
  split; [simpl; lia|].
  split.
  { intros H0. assert (rm = []) by (destruct rm; [reflexivity|simpl in H0; lia]). subst rm.
    rewrite (RO_none_same _ _ _ _ HRO eq_refl). simpl in Hnb. rewrite Hnb. destruct c; reflexivity. }
  split.
  { intros Hlt. simpl. eapply RO_short_all_immune; eauto. }
  intros Ha. destruct (RO_all_immune_none _ _ _ _ HRO Ha) as [-> _]. reflexivity.
Qed.

(* ------------------------------------------------------------------ evictItemsNoLock *)

Lemma chunk_remove_oldest_cfg c n c' r : chunk_remove_oldest c n = (c', r) -> ch_cfg c' = ch_cfg c.
Proof.
  unfold chunk_remove_oldest. destruct (remove_oldest _ _ _) as [[k rm] nb]. intros H; inversion H; reflexivity.
Qed.

(** the loop never runs out of fuel and only evicts non-immune items *)
Lemma evict_loop_spec P : forall fuel c last tot,
  chunk_inv P c -> (1 <= cc_evict (ch_cfg c))%N ->
  (last = cc_evict (ch_cfg c) -> (length (ch_items c) < fuel)%nat) ->
  exists c' tot', evict_loop fuel c last tot = Some (c', tot') /\ chunk_inv P c' /\ shrinks c c'.
Proof.
  induction fuel as [|f IH]; intros c last tot Hinv Hn Hfuel; simpl.
  - destruct (is_exceeded c && (last =? cc_evict (ch_cfg c))%N) eqn:Ec.
    + apply andb_true_iff in Ec. destruct Ec as [_ Ec]. apply N.eqb_eq in Ec. specialize (Hfuel Ec). lia.
    + eexists _, _. split; [reflexivity|]. split; [assumption|apply shrinks_refl].
  - destruct (is_exceeded c && (last =? cc_evict (ch_cfg c))%N) eqn:Ec.
    + apply andb_true_iff in Ec. destruct Ec as [_ Ec]. apply N.eqb_eq in Ec. specialize (Hfuel Ec).
      destruct (chunk_remove_oldest c (cc_evict (ch_cfg c))) as [c1 r] eqn:E1.
      destruct (chunk_remove_oldest_spec P _ _ _ _ Hinv E1) as (Hinv1 & Hsh1 & Hle & Hlen & _).
      pose proof (chunk_remove_oldest_cfg _ _ _ _ E1) as Hcfg.
      destruct (IH c1 r (tot + r)%N Hinv1) as (c' & tot' & Hl & Hinv' & Hsh').
      * rewrite Hcfg. assumption.
      * rewrite Hcfg. intros ->. lia.
      * exists c', tot'. split; [assumption|]. split; [assumption|]. eapply shrinks_trans; eassumption.
    + eexists _, _. split; [reflexivity|]. split; [assumption|apply shrinks_refl].
Qed.

Lemma evict_items_spec P c : chunk_inv P c ->
  (evict_items c = EvErr c /\
     (cc_evict (ch_cfg c) = 0%N \/ Forall (fun it => i_immune it = true) (ch_items c))) \/
  (exists c' tot, evict_items c = EvOk c' tot /\ chunk_inv P c' /\ shrinks c c' /\
     (length (ch_items c') < length (ch_items c))%nat).
Proof.
  intros Hinv. unfold evict_items.
  destruct (chunk_remove_oldest c (cc_evict (ch_cfg c))) as [c1 r1] eqn:E1.
  destruct (chunk_remove_oldest_spec P _ _ _ _ Hinv E1) as (Hinv1 & Hsh1 & Hle & Hlen & Hsame & Hshort & _).
  pose proof (chunk_remove_oldest_cfg _ _ _ _ E1) as Hcfg.
  destruct (r1 =? 0)%N eqn:E0.
  - apply N.eqb_eq in E0. left. rewrite (Hsame E0). split; [reflexivity|].
    destruct (N.eq_dec (cc_evict (ch_cfg c)) 0) as [Hz|Hz]; [left; assumption|right].
    rewrite <- (Hsame E0). apply Hshort. lia.
  - apply N.eqb_neq in E0. right.
    destruct (evict_loop_spec P (S (length (ch_items c1))) c1 r1 r1 Hinv1) as (c' & tot' & Hl & Hinv' & Hsh').
    + rewrite Hcfg. lia.
    + intros _. lia.
    + rewrite Hl. exists c', tot'. split; [reflexivity|]. split; [assumption|].
      split; [eapply shrinks_trans; eassumption|].
      pose proof (sh_len _ _ Hsh'). lia.
Qed.

(** evict_items refuses exactly when nothing is evictable *)
Lemma evict_items_all_immune P c : chunk_inv P c ->
  Forall (fun it => i_immune it = true) (ch_items c) -> evict_items c = EvErr c.
Proof.
  intros Hinv Ha. unfold evict_items.
  destruct (chunk_remove_oldest c (cc_evict (ch_cfg c))) as [c1 r1] eqn:E1.
  destruct (chunk_remove_oldest_spec P _ _ _ _ Hinv E1) as (_ & _ & _ & _ & Hsame & _ & Hall).
  rewrite (Hall Ha). simpl. rewrite (Hsame (Hall Ha)). reflexivity.
Qed.

(* ------------------------------------------------------------------ AddItem *)

Definition new_item (c : chunk) (k p : bytes) (sz : Z) : item := mkItem k p sz (bmem k (ch_immune c)).
Definition append_item (c : chunk) (it : item) : chunk :=
  mkChunk (ch_cfg c) (ch_items c ++ [it]) (ch_immune c) (ch_numBytes c + i_size it)%Z.

(** what an add does, case by case *)
Inductive add_spec (P : bytes -> Prop) (c : chunk) (k p : bytes) (sz : Z) : add_res -> Prop :=
| AS_dup it : find_item k (ch_items c) = Some it ->
    add_spec P c k p sz (mkAR c true false false)
| AS_refused : find_item k (ch_items c) = None -> is_exceeded c = true ->
    (cc_evict (ch_cfg c) = 0%N \/ Forall (fun it => i_immune it = true) (ch_items c)) ->
    add_spec P c k p sz (mkAR c false false false)
| AS_added c1 : find_item k (ch_items c) = None ->
    chunk_inv P c1 -> shrinks c c1 ->
    (N.of_nat (length (ch_items c1)) < cc_maxItems (ch_cfg c))%N ->
    (is_exceeded c = false -> c1 = c) ->
    add_spec P c k p sz (mkAR (append_item c1 (new_item c1 k p sz)) false true false).

Lemma add_item_spec P c k p sz : chunk_inv P c -> add_spec P c k p sz (add_item c k p sz).
Proof.
  intros Hinv. unfold add_item.
  destruct (find_item k (ch_items c)) as [it|] eqn:Ef.
  - eapply AS_dup; eassumption.
  - unfold evict_if_exceeded. destruct (is_exceeded c) eqn:Eex.
    + destruct (evict_items_spec P c Hinv) as [[He Hwhy]|(c' & tot & He & Hinv' & Hsh & Hlt)]; rewrite He.
      * apply AS_refused; assumption.
      * apply AS_added; [assumption|assumption|assumption| |congruence]. pose proof (ci_count _ _ Hinv). lia.
    + apply AS_added; [assumption|assumption|apply shrinks_refl| |reflexivity].
      unfold is_exceeded in Eex. apply orb_false_iff in Eex. destruct Eex as [E1 _]. lia.
Qed.

Lemma NoDup_snoc {A} (l : list A) x : NoDup l -> ~ In x l -> NoDup (l ++ [x]).
Proof.
  induction l as [|y l IH]; simpl; intros Hnd Hx.
  - constructor; [intros []|constructor].
  - inversion Hnd; subst. constructor.
    + rewrite in_app_iff. simpl. intros [H|[H|[]]]; [contradiction|subst; apply Hx; left; reflexivity].
    + apply IH; [assumption|]. intros H. apply Hx. right; assumption.
Qed.

Lemma append_item_inv (P : bytes -> Prop) c1 k p sz :
  chunk_inv P c1 -> P k -> (0 <= sz)%Z -> ~ In k (item_keys (ch_items c1)) ->
  (N.of_nat (length (ch_items c1)) < cc_maxItems (ch_cfg c1))%N ->
  chunk_inv P (append_item c1 (new_item c1 k p sz)).
Proof.
  intros [I1 I2 I3 I4 I5 I6 I7 I8] HP Hsz Hnew Hlt. constructor; simpl; auto.
  - rewrite item_keys_app. simpl. apply NoDup_snoc; assumption.
  - intros it Hin. apply in_app_iff in Hin. destruct Hin as [Hin|[<-|[]]]; [auto|reflexivity].
  - rewrite sum_sizes_app. simpl. lia.
  - apply Forall_app. split; [assumption|]. constructor; [assumption|constructor].
  - rewrite app_length. simpl. lia.
  - intros it Hin. apply in_app_iff in Hin. destruct Hin as [Hin|[<-|[]]]; [auto|assumption].
Qed.

Lemma shrinks_keys_incl c c1 : shrinks c c1 -> incl (item_keys (ch_items c1)) (item_keys (ch_items c)).
Proof.
  intros Hsh k Hk. unfold item_keys in *. apply in_map_iff in Hk. destruct Hk as (it & <- & Hin).
  apply in_map. apply (sh_incl _ _ Hsh). assumption.
Qed.

Lemma add_item_inv (P : bytes -> Prop) c k p sz :
  chunk_inv P c -> P k -> (0 <= sz)%Z -> chunk_inv P (ar_chunk (add_item c k p sz)).
Proof.
  intros Hinv HP Hsz. destruct (add_item_spec P c k p sz Hinv) as [it Hf|Hf Hex Hwhy|c1 Hf Hinv1 Hsh Hlt _]; simpl; auto.
  apply append_item_inv; auto.
  - apply find_item_none in Hf. intros Hin. apply Hf. eapply shrinks_keys_incl; eassumption.
  - rewrite (sh_cfg _ _ Hsh). assumption.
Qed.

Lemma add_item_no_fuel_out P c k p sz : chunk_inv P c -> ar_fuel_out (add_item c k p sz) = false.
Proof. intros Hinv. destruct (add_item_spec P c k p sz Hinv); reflexivity. Qed.

Lemma add_item_cfg P c k p sz : chunk_inv P c -> ch_cfg (ar_chunk (add_item c k p sz)) = ch_cfg c.
Proof. intros Hinv. destruct (add_item_spec P c k p sz Hinv) as [| |c1 ? ? Hsh]; simpl; auto. apply (sh_cfg _ _ Hsh). Qed.

Lemma add_item_immune P c k p sz : chunk_inv P c -> ch_immune (ar_chunk (add_item c k p sz)) = ch_immune c.
Proof. intros Hinv. destruct (add_item_spec P c k p sz Hinv) as [| |c1 ? ? Hsh]; simpl; auto. apply (sh_imm _ _ Hsh). Qed.

(* ------------------------------------------------------------------ RemoveItem *)

Lemma del_key_In k l x : In x (del_key k l) <-> In x l /\ x <> k.
Proof.
  unfold del_key. rewrite filter_In. destruct (beqb_spec k x) as [E|E]; simpl; split; intros [H1 H2]; split; auto; congruence.
Qed.

Lemma del_key_nodup k l : NoDup l -> NoDup (del_key k l).
Proof. apply NoDup_filter. Qed.

Lemma bmem_del_other k k' l : k' <> k -> bmem k' (del_key k l) = bmem k' l.
Proof.
  intros Hne. destruct (bmem k' l) eqn:E.
  - apply bmem_In. apply del_key_In. split; [apply bmem_In; assumption|assumption].
  - apply bmem_false. intros H. apply del_key_In in H. destruct H as [H _]. apply bmem_false in E. contradiction.
Qed.

Lemma remove_key_In k l it : NoDup (item_keys l) -> (In it (remove_key k l) <-> In it l /\ i_key it <> k).
Proof.
  induction l as [|x r IH]; simpl; intros Hnd.
  - tauto.
  - inversion Hnd as [|? ? Hx Hr]; subst. destruct (beqb_spec k (i_key x)) as [E|E].
    + split.
      * intros Hin. split; [right; assumption|]. intros E2. apply Hx. rewrite <- E, <- E2. apply in_map. assumption.
      * intros [[->|Hin] Hne]; [congruence|assumption].
    + simpl. rewrite (IH Hr). split.
      * intros [->|[Hin Hne]]; [split; [left; reflexivity|congruence]|split; [right; assumption|assumption]].
      * intros [[->|Hin] Hne]; [left; reflexivity|right; split; assumption].
Qed.

Lemma remove_key_keys k l : incl (item_keys (remove_key k l)) (item_keys l).
Proof.
  induction l as [|x r IH]; simpl; [apply incl_refl|].
  destruct (beqb k (i_key x)); simpl.
  - apply incl_tl, incl_refl.
  - intros y [->|Hy]; [left; reflexivity|right; apply IH; assumption].
Qed.

Lemma remove_key_nodup k l : NoDup (item_keys l) -> NoDup (item_keys (remove_key k l)).
Proof.
  induction l as [|x r IH]; simpl; intros Hnd; [constructor|].
  inversion Hnd; subst. destruct (beqb k (i_key x)); simpl; [assumption|].
  constructor; [|auto]. intros Hin. apply H1. apply (remove_key_keys k r). assumption.
Qed.

Lemma remove_key_sum k l it : find_item k l = Some it -> sum_sizes l = (sum_sizes (remove_key k l) + i_size it)%Z.
Proof.
  induction l as [|x r IH]; simpl; [discriminate|].
  destruct (beqb k (i_key x)).
  - intros E; inversion E; subst. lia.
  - intros E. simpl. rewrite (IH E). lia.
Qed.

Lemma remove_key_length k l it : find_item k l = Some it -> length l = S (length (remove_key k l)).
Proof.
  induction l as [|x r IH]; simpl; [discriminate|].
  destruct (beqb k (i_key x)); [reflexivity|]. intros E. simpl. rewrite (IH E). reflexivity.
Qed.

Lemma remove_item_inv (P : bytes -> Prop) c k : chunk_inv P c -> chunk_inv P (fst (remove_item c k)).
Proof.
  intros [I1 I2 I3 I4 I5 I6 I7 I8]. unfold remove_item.
  destruct (find_item k (ch_items c)) as [it|] eqn:Ef; simpl.
  - pose proof (find_item_some _ _ _ Ef) as [Hin Hk].
    pose proof (remove_key_sum _ _ _ Ef) as Hsum. pose proof (remove_key_length _ _ _ Ef) as Hlen.
    assert (Hs' : Forall (fun it0 => (0 <= i_size it0)%Z) (remove_key k (ch_items c))).
    { rewrite Forall_forall in *. intros x Hx. apply I5. apply (remove_key_In k _ x I1) in Hx. tauto. }
    pose proof (sum_sizes_nonneg _ Hs').
    constructor; simpl.
    + apply remove_key_nodup; assumption.
    + intros x Hx. apply (remove_key_In k _ x I1) in Hx. destruct Hx as [Hx Hne].
      rewrite bmem_del_other by assumption. auto.
    + apply del_key_nodup; assumption.
    + unfold track_remove. lia.
    + assumption.
    + lia.
    + intros x Hx. apply (remove_key_In k _ x I1) in Hx. apply I7. tauto.
    + intros x Hx. apply del_key_In in Hx. apply I8. tauto.
  - apply find_item_none in Ef. constructor; simpl; auto.
    + intros x Hx. rewrite bmem_del_other; auto. intros E. apply Ef. rewrite <- E. apply in_map. assumption.
    + apply del_key_nodup; assumption.
    + intros x Hx. apply del_key_In in Hx. apply I8. tauto.
Qed.

Lemma remove_item_result c k : snd (remove_item c k) = match find_item k (ch_items c) with Some _ => true | None => false end.
Proof. unfold remove_item. destruct (find_item k (ch_items c)); reflexivity. Qed.

Lemma remove_item_cfg c k : ch_cfg (fst (remove_item c k)) = ch_cfg c.
Proof. unfold remove_item. destruct (find_item k (ch_items c)); reflexivity. Qed.

Lemma remove_item_immune c k : ch_immune (fst (remove_item c k)) = del_key k (ch_immune c).
Proof. unfold remove_item. destruct (find_item k (ch_items c)); reflexivity. Qed.

Lemma remove_item_items P c k it : chunk_inv P c ->
  (In it (ch_items (fst (remove_item c k))) <-> In it (ch_items c) /\ i_key it <> k).
Proof.
  intros Hinv. unfold remove_item. destruct (find_item k (ch_items c)) as [x|] eqn:Ef; simpl.
  - apply remove_key_In. apply (ci_nodup _ _ Hinv).
  - apply find_item_none in Ef. split; [|tauto]. intros Hin. split; [assumption|].
    intros E. apply Ef. rewrite <- E. apply in_map. assumption.
Qed.

(* ------------------------------------------------------------------ ImmunizeKeys (chunk) *)

Definition flag_key (k : bytes) (it : item) : item := if beqb k (i_key it) then immunized it else it.

Lemma set_immune_map k l : NoDup (item_keys l) -> set_immune k l = map (flag_key k) l.
Proof.
  induction l as [|x r IH]; simpl; intros Hnd; [reflexivity|].
  inversion Hnd as [|? ? Hx Hr]; subst. unfold flag_key at 1.
  destruct (beqb_spec k (i_key x)) as [E|E].
  - f_equal. rewrite <- (map_id r) at 1. apply map_ext_in. intros y Hy. unfold flag_key.
    destruct (beqb_spec k (i_key y)) as [E2|E2]; [|reflexivity].
    exfalso. apply Hx. rewrite <- E, E2. apply in_map. assumption.
  - f_equal. apply IH. assumption.
Qed.

Lemma flag_key_key k it : i_key (flag_key k it) = i_key it.
Proof. unfold flag_key. destruct (beqb k (i_key it)); reflexivity. Qed.
Lemma flag_key_size k it : i_size (flag_key k it) = i_size it.
Proof. unfold flag_key. destruct (beqb k (i_key it)); reflexivity. Qed.
Lemma flag_key_payload k it : i_payload (flag_key k it) = i_payload it.
Proof. unfold flag_key. destruct (beqb k (i_key it)); reflexivity. Qed.

Lemma map_flag_keys k l : item_keys (map (flag_key k) l) = item_keys l.
Proof. unfold item_keys. rewrite map_map. apply map_ext. intros; apply flag_key_key. Qed.

Lemma map_flag_sum k l : sum_sizes (map (flag_key k) l) = sum_sizes l.
Proof. induction l as [|x r IH]; simpl; [reflexivity|]. rewrite IH, flag_key_size. reflexivity. Qed.

(** the items of a chunk, flags forgotten: (key, payload, size) in order *)
Definition strip (it : item) : bytes * bytes * Z := (i_key it, i_payload it, i_size it).

Lemma map_flag_strip k l : map strip (map (flag_key k) l) = map strip l.
Proof.
  rewrite map_map. apply map_ext. intros it. unfold strip. rewrite flag_key_key, flag_key_size, flag_key_payload. reflexivity.
Qed.

Definition add_key (k : bytes) (l : list bytes) : list bytes := if bmem k l then l else l ++ [k].

Lemma add_key_In k l x : In x (add_key k l) <-> In x l \/ x = k.
Proof.
  unfold add_key. destruct (bmem k l) eqn:E.
  - apply bmem_In in E. split; [auto|]. intros [H| ->]; assumption.
  - rewrite in_app_iff. simpl. split; [intros [H|[H|[]]]; auto|intros [H|H]; auto].
Qed.

Lemma add_key_nodup k l : NoDup l -> NoDup (add_key k l).
Proof.
  unfold add_key. destruct (bmem k l) eqn:E; [auto|]. intros H. apply NoDup_snoc; [assumption|]. apply bmem_false. assumption.
Qed.

Lemma bmem_add_key k l x : bmem x (add_key k l) = bmem x l || beqb x k.
Proof.
  destruct (bmem x (add_key k l)) eqn:E.
  - apply bmem_In in E. apply add_key_In in E. symmetry. apply orb_true_iff.
    destruct E as [E| ->]; [left; apply bmem_In; assumption|right; apply beqb_refl].
  - apply bmem_false in E. symmetry. apply orb_false_iff. split.
    + apply bmem_false. intros H. apply E. apply add_key_In. left; assumption.
    + apply beqb_neq. intros ->. apply E. apply add_key_In. right; reflexivity.
Qed.

Lemma immunize_key_shape P c k : chunk_inv P c ->
  fst (immunize_key c k) = mkChunk (ch_cfg c) (if bmem k (item_keys (ch_items c)) then map (flag_key k) (ch_items c) else ch_items c)
                                   (add_key k (ch_immune c)) (ch_numBytes c)
  /\ snd (immunize_key c k) = bmem k (item_keys (ch_items c)).
Proof.
  intros Hinv. unfold immunize_key. simpl.
  destruct (find_item k (ch_items c)) as [it|] eqn:Ef.
  - assert (Hm : bmem k (item_keys (ch_items c)) = true).
    { apply bmem_In. apply find_item_is_some. eauto. }
    rewrite Hm. rewrite set_immune_map by apply (ci_nodup _ _ Hinv). split; reflexivity.
  - assert (Hm : bmem k (item_keys (ch_items c)) = false).
    { apply bmem_false. apply find_item_none. assumption. }
    rewrite Hm. split; reflexivity.
Qed.

Lemma map_flag_absent k l : ~ In k (item_keys l) -> map (flag_key k) l = l.
Proof.
  intros Hn. rewrite <- (map_id l) at 2. apply map_ext_in. intros y Hy. unfold flag_key.
  destruct (beqb_spec k (i_key y)) as [E|E]; [|reflexivity]. exfalso. apply Hn. rewrite E. apply in_map. assumption.
Qed.

(** one key: items keep key/payload/size and order; the flag of [k] is set; [k] joins the immune keys *)
Lemma immunize_key_spec P c k : chunk_inv P c ->
  fst (immunize_key c k) = mkChunk (ch_cfg c) (map (flag_key k) (ch_items c)) (add_key k (ch_immune c)) (ch_numBytes c).
Proof.
  intros Hinv. destruct (immunize_key_shape P c k Hinv) as [H _]. rewrite H.
  destruct (bmem k (item_keys (ch_items c))) eqn:E; [reflexivity|].
  apply bmem_false in E. rewrite map_flag_absent by assumption. reflexivity.
Qed.

Lemma immunize_key_inv (P : bytes -> Prop) c k : chunk_inv P c -> P k -> chunk_inv P (fst (immunize_key c k)).
Proof.
  intros Hinv HP. rewrite (immunize_key_spec P c k Hinv).
  destruct Hinv as [I1 I2 I3 I4 I5 I6 I7 I8]. constructor; simpl.
  - rewrite map_flag_keys. assumption.
  - intros it Hin. apply in_map_iff in Hin. destruct Hin as (x & <- & Hx).
    rewrite flag_key_key, bmem_add_key. unfold flag_key.
    destruct (beqb_spec k (i_key x)) as [E|E]; simpl.
    + rewrite E, beqb_refl, orb_true_r. reflexivity.
    + rewrite (I2 _ Hx). assert (beqb (i_key x) k = false) by (apply beqb_neq; congruence).
      rewrite H, orb_false_r. reflexivity.
  - apply add_key_nodup; assumption.
  - rewrite map_flag_sum. assumption.
  - rewrite Forall_forall in *. intros it Hin. apply in_map_iff in Hin. destruct Hin as (x & <- & Hx).
    rewrite flag_key_size. auto.
  - rewrite map_length. assumption.
  - intros it Hin. apply in_map_iff in Hin. destruct Hin as (x & <- & Hx). rewrite flag_key_key. auto.
  - intros x Hx. apply add_key_In in Hx. destruct Hx as [Hx| ->]; auto.
Qed.

Lemma chunk_immunize_keys_spec (P : bytes -> Prop) : forall keys c now fut,
  chunk_inv P c -> (forall k, In k keys -> P k) ->
  chunk_inv P (fst (fst (chunk_immunize_keys c keys now fut))) /\
  ch_cfg (fst (fst (chunk_immunize_keys c keys now fut))) = ch_cfg c /\
  map strip (ch_items (fst (fst (chunk_immunize_keys c keys now fut)))) = map strip (ch_items c) /\
  ch_numBytes (fst (fst (chunk_immunize_keys c keys now fut))) = ch_numBytes c /\
  (forall x, In x (ch_immune (fst (fst (chunk_immunize_keys c keys now fut)))) <-> In x (ch_immune c) \/ In x keys).
Proof.
  induction keys as [|k r IH]; intros c now fut Hinv HP.
  - simpl. split; [assumption|]. split; [reflexivity|]. split; [reflexivity|]. split; [reflexivity|].
    intros x. tauto.
  - assert (Hinv1 : chunk_inv P (fst (immunize_key c k))) by (apply immunize_key_inv; [assumption|apply HP; left; reflexivity]).
    pose proof (immunize_key_spec P c k Hinv) as Hs.
    assert (HP' : forall k0, In k0 r -> P k0) by (intros; apply HP; right; assumption).
    assert (Hstep : exists now' fut', chunk_immunize_keys c (k :: r) now fut = chunk_immunize_keys (fst (immunize_key c k)) r now' fut').
    { cbn [chunk_immunize_keys]. destruct (immunize_key c k) as [c1 b]. destruct b; cbn [fst]; eexists _, _; reflexivity. }
    destruct Hstep as (now' & fut' & ->).
    destruct (IH (fst (immunize_key c k)) now' fut' Hinv1 HP') as (A1 & A2 & A3 & A4 & A5).
    split; [assumption|].
    split; [rewrite A2, Hs; reflexivity|].
    split; [rewrite A3, Hs; simpl; apply map_flag_strip|].
    split; [rewrite A4, Hs; reflexivity|].
    intros x. rewrite A5, Hs. simpl. rewrite add_key_In. intuition; subst; auto.
Qed.

(** lookups only see key and payload *)
Lemma find_item_strip k l l' : map strip l = map strip l' ->
  option_map i_payload (find_item k l) = option_map i_payload (find_item k l').
Proof.
  revert l'. induction l as [|x r IH]; intros [|y r'] H; simpl in *; try discriminate; [reflexivity|].
  inversion H as [[Hk Hp Hs Hr]]. rewrite Hk. destruct (beqb k (i_key y)); simpl; [congruence|auto].
Qed.

Lemma strip_keys l l' : map strip l = map strip l' -> item_keys l = item_keys l'.
Proof.
  intros H. unfold item_keys. assert (E : forall m, map i_key m = map (fun t => fst (fst t)) (map strip m)).
  { intros m. rewrite map_map. reflexivity. }
  rewrite (E l), (E l'), H. reflexivity.
Qed.
