(** Refinement: with NumChunks = 1 the cache model IS the FIFO queue of FifoSpec.v, step by step. *)
From Coq Require Import List NArith ZArith Bool Lia PeanoNat ZifyN ZifyNat ZifyBool.
From Verif Require Import Base.BStr Immunity.Chunk Immunity.Cache Immunity.FifoSpec
  Immunity.Chunk_proofs Immunity.Cache_proofs Immunity.Immunity_proofs.
Import ListNotations.
Local Open Scope nat_scope.

Definition fc_of_cc (cc : chunk_cfg) : fifo_cfg := mkFC (cc_maxItems cc) (cc_maxBytes cc) (cc_evict cc).

(** abstraction of a chunk: forget the flags and the byte counter *)
Definition abs_chunk (c : chunk) : fifo := mkFifo (map strip (ch_items c)) (ch_immune c).

Lemma strip_find k l : q_find k (map strip l) = option_map strip (find_item k l).
Proof.
  induction l as [|x r IH]; simpl; [reflexivity|]. unfold e_key, strip at 1. simpl.
  destruct (beqb k (i_key x)); [reflexivity|exact IH].
Qed.

Lemma q_bytes_strip l : q_bytes (map strip l) = sum_sizes l.
Proof. induction l as [|x r IH]; simpl; [reflexivity|]. rewrite IH. reflexivity. Qed.

Lemma reached_exceeded P c : chunk_inv P c -> reached (fc_of_cc (ch_cfg c)) (map strip (ch_items c)) = is_exceeded c.
Proof.
  intros Hinv. unfold reached, is_exceeded. simpl. rewrite map_length, q_bytes_strip, (ci_bytes _ _ Hinv). reflexivity.
Qed.

Lemma drop_refines imm : forall l n nb kept rm nb',
  (forall it, In it l -> i_immune it = bmem (i_key it) imm) ->
  remove_oldest l n nb = (kept, rm, nb') ->
  drop_oldest imm (map strip l) n = (map strip kept, N.of_nat (length rm)).
Proof.
  induction l as [|it r IH]; intros n nb kept rm nb' Hfl H; simpl in H.
  - inversion H; subst. reflexivity.
  - cbn [map drop_oldest]. destruct (n =? 0)%N eqn:En.
    + inversion H; subst. reflexivity.
    + change (e_key (strip it)) with (i_key it). rewrite <- (Hfl it (or_introl eq_refl)).
      assert (Hfl' : forall x, In x r -> i_immune x = bmem (i_key x) imm) by (intros; apply Hfl; right; assumption).
      destruct (i_immune it).
      * destruct (remove_oldest r n nb) as [[k1 r1] n1] eqn:E. inversion H; subst.
        rewrite (IH _ _ _ _ _ Hfl' E). reflexivity.
      * destruct (remove_oldest r (n - 1)%N (track_remove nb it)) as [[k1 r1] n1] eqn:E. inversion H; subst.
        rewrite (IH _ _ _ _ _ Hfl' E). simpl length. f_equal. lia.
Qed.

Lemma chunk_drop_refines P c n c1 r1 : chunk_inv P c -> chunk_remove_oldest c n = (c1, r1) ->
  drop_oldest (ch_immune c) (map strip (ch_items c)) n = (map strip (ch_items c1), r1) /\ ch_immune c1 = ch_immune c.
Proof.
  intros Hinv H. unfold chunk_remove_oldest in H.
  destruct (remove_oldest (ch_items c) n (ch_numBytes c)) as [[kept rm] nb] eqn:E. inversion H; subst. simpl.
  split; [|reflexivity]. eapply drop_refines; [apply (ci_flag _ _ Hinv)|eassumption].
Qed.

Lemma loop_refines P : forall fuel c last tot c' tot', chunk_inv P c ->
  evict_loop fuel c last tot = Some (c', tot') ->
  map strip (ch_items c') = more_batches fuel (fc_of_cc (ch_cfg c)) (ch_immune c) (map strip (ch_items c)) last /\
  ch_immune c' = ch_immune c /\ ch_cfg c' = ch_cfg c /\ chunk_inv P c'.
Proof.
  induction fuel as [|f IH]; intros c last tot c' tot' Hinv H; simpl in H; cbn [more_batches];
    rewrite (reached_exceeded P c Hinv); change (fc_batch (fc_of_cc (ch_cfg c))) with (cc_evict (ch_cfg c));
    destruct (is_exceeded c && (last =? cc_evict (ch_cfg c))%N).
  - discriminate.
  - inversion H; subst. auto.
  - destruct (chunk_remove_oldest c (cc_evict (ch_cfg c))) as [c1 r] eqn:E1.
    destruct (chunk_drop_refines P _ _ _ _ Hinv E1) as [Hd Hi]. rewrite Hd.
    destruct (chunk_remove_oldest_spec P _ _ _ _ Hinv E1) as (Hinv1 & _).
    pose proof (chunk_remove_oldest_cfg _ _ _ _ E1) as Hcfg.
    destruct (IH _ _ _ _ _ Hinv1 H) as (A1 & A2 & A3 & A4).
    rewrite Hcfg, Hi in *. auto.
  - inversion H; subst. auto.
Qed.

Definition abs_add_res (r : add_res) : fifo * bool * bool := (abs_chunk (ar_chunk r), ar_has r, ar_added r).

Lemma add_refines P c k p sz : chunk_inv P c ->
  abs_add_res (add_item c k p sz) = fifo_add (fc_of_cc (ch_cfg c)) (abs_chunk c) k p sz.
Proof.
  intros Hinv. unfold add_item, fifo_add. cbn [abs_chunk f_q f_imm].
  rewrite strip_find. destruct (find_item k (ch_items c)) as [it|] eqn:Ef; [reflexivity|]. cbn [option_map].
  rewrite (reached_exceeded P c Hinv). unfold evict_if_exceeded.
  destruct (is_exceeded c) eqn:Eex.
  - unfold evict_items. change (fc_batch (fc_of_cc (ch_cfg c))) with (cc_evict (ch_cfg c)).
    destruct (chunk_remove_oldest c (cc_evict (ch_cfg c))) as [c1 r1] eqn:E1.
    destruct (chunk_drop_refines P _ _ _ _ Hinv E1) as [Hd Hi]. rewrite Hd.
    destruct (chunk_remove_oldest_spec P _ _ _ _ Hinv E1) as (Hinv1 & _ & Hle & _ & Hsame & _).
    pose proof (chunk_remove_oldest_cfg _ _ _ _ E1) as Hcfg.
    destruct (r1 =? 0)%N eqn:E0.
    + apply N.eqb_eq in E0. rewrite (Hsame E0). reflexivity.
    + apply N.eqb_neq in E0.
      destruct (evict_loop_spec P (S (length (ch_items c1))) c1 r1 r1 Hinv1) as (c2 & tot & Hl & Hinv2 & Hsh2).
      * rewrite Hcfg. lia.
      * intros _. lia.
      * rewrite Hl. destruct (loop_refines P _ _ _ _ _ _ Hinv1 Hl) as (A1 & A2 & A3 & _).
        unfold abs_add_res, abs_chunk. cbn [ar_chunk ar_has ar_added ch_items ch_immune].
        rewrite map_app, A1, map_length, Hcfg, Hi, A2, Hi. reflexivity.
  - unfold abs_add_res, abs_chunk. cbn [ar_chunk ar_has ar_added ch_items ch_immune].
    rewrite map_app. reflexivity.
Qed.

Lemma filter_absent k r : ~ In k (item_keys r) -> filter (fun e => negb (beqb k (e_key e))) (map strip r) = map strip r.
Proof.
  induction r as [|y r' IH]; simpl; intros Hn; [reflexivity|].
  change (e_key (strip y)) with (i_key y). destruct (beqb_spec k (i_key y)) as [E2|E2].
  - exfalso. apply Hn. left. symmetry; assumption.
  - simpl. f_equal. apply IH. intros H. apply Hn. right; assumption.
Qed.

Lemma remove_key_filter k l : NoDup (item_keys l) ->
  map strip (remove_key k l) = filter (fun e => negb (beqb k (e_key e))) (map strip l).
Proof.
  induction l as [|x r IH]; simpl; intros Hnd; [reflexivity|].
  inversion Hnd as [|? ? Hx Hr]; subst. change (e_key (strip x)) with (i_key x).
  destruct (beqb_spec k (i_key x)) as [E|E]; simpl.
  - symmetry. apply filter_absent. rewrite E. assumption.
  - rewrite (IH Hr). reflexivity.
Qed.

Lemma remove_refines P c k : chunk_inv P c ->
  (abs_chunk (fst (remove_item c k)), snd (remove_item c k)) = fifo_remove (abs_chunk c) k.
Proof.
  intros Hinv. unfold remove_item, fifo_remove. cbn [abs_chunk f_q f_imm]. rewrite strip_find.
  destruct (find_item k (ch_items c)) as [it|] eqn:Ef; cbn [option_map fst snd abs_chunk ch_items ch_immune].
  - unfold abs_chunk. cbn [ch_items ch_immune]. rewrite remove_key_filter by apply (ci_nodup _ _ Hinv). reflexivity.
  - unfold abs_chunk. cbn [ch_items ch_immune]. apply find_item_none in Ef. rewrite (filter_absent k _ Ef). reflexivity.
Qed.

Lemma immunize_keys_immune P : forall keys c now fut, chunk_inv P c -> (forall k, In k keys -> P k) ->
  ch_immune (fst (fst (chunk_immunize_keys c keys now fut))) = fold_left (fun acc k => set_add k acc) keys (ch_immune c).
Proof.
  induction keys as [|k r IH]; intros c now fut Hinv HP; [reflexivity|].
  assert (Hinv1 : chunk_inv P (fst (immunize_key c k))) by (apply immunize_key_inv; [assumption|apply HP; left; reflexivity]).
  pose proof (immunize_key_spec P c k Hinv) as Hs.
  assert (Hstep : exists now' fut', chunk_immunize_keys c (k :: r) now fut = chunk_immunize_keys (fst (immunize_key c k)) r now' fut').
  { cbn [chunk_immunize_keys]. destruct (immunize_key c k) as [c1 b]. destruct b; cbn [fst]; eexists _, _; reflexivity. }
  destruct Hstep as (now' & fut' & ->). rewrite IH; [|assumption|intros; apply HP; right; assumption].
  rewrite Hs. reflexivity.
Qed.

(* ------------------------------------------------------------------ one chunk *)

Section OneChunk.
Variable s : cache.
Hypothesis Hinv : cache_inv s.
Hypothesis Hone : cf_numChunks (ca_cfg s) = 1%N.

Lemma one_index k : chunk_index (ca_cfg s) k = 0.
Proof. unfold chunk_index. rewrite Hone, N.mod_1_r. reflexivity. Qed.

Lemma one_length : length (ca_chunks s) = 1.
Proof. rewrite (cv_len _ Hinv), Hone. reflexivity. Qed.

Lemma one_chunks : ca_chunks s = [get_chunk s 0].
Proof.
  pose proof one_length as H. unfold get_chunk. destruct (ca_chunks s) as [|c [|c' r]]; simpl in *; try discriminate. reflexivity.
Qed.

Lemma one_inv : chunk_inv (routed (ca_cfg s) 0) (get_chunk s 0).
Proof. apply (cv_chunks _ Hinv 0). rewrite one_length. lia. Qed.

Lemma one_cfg : fc_of_cc (ch_cfg (get_chunk s 0)) = fifo_cfg_of (ca_cfg s).
Proof.
  destruct (cv_chunks _ Hinv 0 ltac:(rewrite one_length; lia)) as [_ ->].
  unfold chunk_config, fc_of_cc, fifo_cfg_of. simpl. rewrite Hone. change (N.max 1 1) with 1%N. rewrite !N.div_1_r. reflexivity.
Qed.

Definition abs (t : cache) : fifo := abs_chunk (get_chunk t 0).

Lemma set_chunk_0 c : get_chunk (set_chunk s 0 c) 0 = c.
Proof. apply get_set_same. rewrite one_length. lia. Qed.

Lemma one_add k p sz :
  (abs (add_state s k p sz), add_has s k p sz, add_added s k p sz) = fifo_add (fifo_cfg_of (ca_cfg s)) (abs s) k p sz.
Proof.
  unfold add_state, add_has, add_added, cache_add. cbn [fst snd]. rewrite one_index.
  unfold abs. rewrite set_chunk_0, <- one_cfg. apply (add_refines _ _ k p sz one_inv).
Qed.

Lemma one_remove k : (abs (fst (cache_remove s k)), snd (cache_remove s k)) = fifo_remove (abs s) k.
Proof.
  rewrite remove_unfold, one_index. cbn [fst snd]. unfold abs. rewrite set_chunk_0. apply (remove_refines _ _ k one_inv).
Qed.

Lemma one_group ks : group (ca_cfg s) ks 0 = ks.
Proof.
  unfold group. induction ks as [|k r IH]; simpl; [reflexivity|]. rewrite one_index. simpl. f_equal. assumption.
Qed.

Lemma one_count_immune : cache_count_immune s = N.of_nat (length (ch_immune (get_chunk s 0))).
Proof. unfold cache_count_immune. rewrite one_chunks. simpl. unfold chunk_count_immune. lia. Qed.

Lemma one_immunize ks : abs (fst (fst (cache_immunize s ks))) = fifo_immunize (cf_maxItems (ca_cfg s)) (abs s) ks.
Proof.
  rewrite cache_immunize_state. unfold immunize_refused, fifo_immunize. rewrite one_count_immune.
  cbn [abs abs_chunk f_imm f_q].
  destruct (cf_maxItems (ca_cfg s) <? N.of_nat (length (ch_immune (get_chunk s 0))) + N.of_nat (length ks))%N; [reflexivity|].
  unfold abs. rewrite immunized_get_chunk by (rewrite one_length; lia). rewrite one_group.
  destruct (chunk_immunize_keys_spec _ ks (get_chunk s 0) 0%N 0%N one_inv) as (_ & _ & A3 & _).
  { intros k _. apply one_index. }
  unfold abs_chunk. rewrite A3. f_equal.
  apply (immunize_keys_immune _ ks _ _ _ one_inv). intros k _. apply one_index.
Qed.

Lemma one_clear : abs (cache_clear s) = mkFifo [] [].
Proof. unfold abs, cache_clear, get_chunk, new_cache, init_chunks. simpl. rewrite Hone. reflexivity. Qed.

Lemma one_get k : cache_get s k = fifo_get (abs s) k.
Proof.
  rewrite cache_get_option. unfold cache_get_item, fifo_get, abs. rewrite one_index. cbn [abs_chunk f_q].
  rewrite strip_find. destruct (find_item k (ch_items (get_chunk s 0))); reflexivity.
Qed.

Lemma one_step o : abs (step s o) = fifo_step (fifo_cfg_of (ca_cfg s)) (cf_maxItems (ca_cfg s)) (abs s) o.
Proof.
  destruct o as [k p sz|k|ks|]; cbn [fifo_step].
  - rewrite step_add, <- one_add. reflexivity.
  - cbn [step]. rewrite <- one_remove. reflexivity.
  - rewrite step_immunize_eq. apply one_immunize.
  - apply one_clear.
Qed.
End OneChunk.

Lemma fifo_refines_from ops : forall s, cache_inv s -> cf_numChunks (ca_cfg s) = 1%N -> Forall op_ok ops ->
  abs (run_from s ops) = fold_left (fifo_step (fifo_cfg_of (ca_cfg s)) (cf_maxItems (ca_cfg s))) ops (abs s).
Proof.
  induction ops as [|o r IH]; intros s Hinv Hone Hok; [reflexivity|].
  inversion Hok; subst. rewrite run_from_cons. cbn [fold_left].
  rewrite <- (one_step s Hinv Hone o). rewrite <- (step_cfg s o).
  apply IH; [apply step_inv; assumption|rewrite step_cfg; assumption|assumption].
Qed.

Lemma fifo_refines cfg ops : cfg_valid cfg = true -> cf_numChunks cfg = 1%N -> Forall op_ok ops ->
  abs (run cfg ops) = fifo_run (fifo_cfg_of cfg) (cf_maxItems cfg) ops.
Proof.
  intros Hv Hone Hok. unfold run, fifo_run.
  rewrite (fifo_refines_from ops (new_cache cfg) (new_cache_inv cfg Hv) Hone Hok).
  f_equal. apply (one_clear (new_cache cfg)). assumption.
Qed.

(** the statement used by Props/C13.v: resident sequence, immune set, and every output agree *)
Lemma h_fifo cfg ops : cfg_valid cfg = true -> cf_numChunks cfg = 1%N -> Forall op_ok ops ->
  let s := run cfg ops in
  let f := fifo_run (fifo_cfg_of cfg) (cf_maxItems cfg) ops in
  map strip (cache_items s) = f_q f /\
  cache_immune_keys s = f_imm f /\
  (forall k, cache_get s k = fifo_get f k) /\
  (forall k p sz, (add_has s k p sz, add_added s k p sz) =
                  (snd (fst (fifo_add (fifo_cfg_of cfg) f k p sz)), snd (fifo_add (fifo_cfg_of cfg) f k p sz))) /\
  (forall k, snd (cache_remove s k) = snd (fifo_remove f k)).
Proof.
  intros Hv Hone Hok s f.
  pose proof (run_inv cfg ops Hv Hok) as Hinv. fold s in Hinv.
  assert (Hcfg : ca_cfg s = cfg) by (unfold s, run; apply run_from_cfg).
  assert (Hone' : cf_numChunks (ca_cfg s) = 1%N) by (rewrite Hcfg; assumption).
  pose proof (fifo_refines cfg ops Hv Hone Hok) as Habs. fold s in Habs. fold f in Habs.
  split; [|split; [|split; [|split]]].
  - unfold cache_items. rewrite (one_chunks s Hinv Hone'). simpl. rewrite app_nil_r. rewrite <- Habs. reflexivity.
  - unfold cache_immune_keys. rewrite (one_chunks s Hinv Hone'). simpl. rewrite app_nil_r. rewrite <- Habs. reflexivity.
  - intros k. rewrite (one_get s Hone'), Habs. reflexivity.
  - intros k p sz. pose proof (one_add s Hinv Hone' k p sz) as H. rewrite Hcfg, Habs in H. rewrite <- H. reflexivity.
  - intros k. pose proof (one_remove s Hinv Hone' k) as H. rewrite Habs in H. rewrite <- H. reflexivity.
Qed.
