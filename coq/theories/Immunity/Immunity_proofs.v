(** Property-level lemmas for C12 / C13 over the cache model. *)
From Coq Require Import List NArith ZArith Bool Lia PeanoNat ZifyN ZifyNat ZifyBool.
From Verif Require Import Base.BStr Immunity.Chunk Immunity.Cache Immunity.Chunk_proofs Immunity.Cache_proofs.
Import ListNotations.
Local Open Scope nat_scope.

(** projections of the result of HasOrAdd *)
Definition add_state (s : cache) k p sz : cache := fst (fst (fst (cache_add s k p sz))).
Definition add_has (s : cache) k p sz : bool := snd (fst (fst (cache_add s k p sz))).
Definition add_added (s : cache) k p sz : bool := snd (fst (cache_add s k p sz)).
Definition add_fuel_out (s : cache) k p sz : bool := snd (cache_add s k p sz).

Lemma cache_add_eta s k p sz : cache_add s k p sz = (add_state s k p sz, add_has s k p sz, add_added s k p sz, add_fuel_out s k p sz).
Proof. unfold add_state, add_has, add_added, add_fuel_out. destruct (cache_add s k p sz) as [[[a b] c] d]. reflexivity. Qed.

Lemma step_add s k p sz : step s (OAdd k p sz) = add_state s k p sz.
Proof. reflexivity. Qed.

Lemma cache_get_option s k : cache_get s k = option_map i_payload (cache_get_item s k).
Proof. unfold cache_get. destruct (cache_get_item s k); reflexivity. Qed.

Section AddFacts.
Variables (s : cache) (k p : bytes) (sz : Z).
Hypothesis Hinv : cache_inv s.
Let i := chunk_index (ca_cfg s) k.
Let c := get_chunk s i.

Lemma add_target_lt : i < length (ca_chunks s).
Proof. apply chunk_index_lt. assumption. Qed.

Lemma add_target_inv : chunk_inv (routed (ca_cfg s) i) c.
Proof. apply (cv_chunks _ Hinv _ add_target_lt). Qed.

Lemma add_unfold :
  add_state s k p sz = set_chunk s i (ar_chunk (add_item c k p sz)) /\
  add_has s k p sz = ar_has (add_item c k p sz) /\
  add_added s k p sz = ar_added (add_item c k p sz) /\
  add_fuel_out s k p sz = ar_fuel_out (add_item c k p sz).
Proof. repeat split. Qed.

(** the model never runs out of fuel *)
Lemma add_no_fuel_out : add_fuel_out s k p sz = false.
Proof. destruct add_unfold as (_ & _ & _ & ->). eapply add_item_no_fuel_out. apply add_target_inv. Qed.

(** an add that does not store leaves the cache exactly as it was *)
Lemma add_not_added_same : add_added s k p sz = false -> add_state s k p sz = s.
Proof.
  destruct add_unfold as (-> & _ & -> & _).
  destruct (add_item_spec _ c k p sz add_target_inv) as [it Hf|Hf _ _|c1 Hf _ _ _ _]; simpl; intros Hx; try discriminate;
    apply set_get_id, add_target_lt.
Qed.

Lemma has_find : cache_has s k = match find_item k (ch_items c) with Some _ => true | None => false end.
Proof. reflexivity. Qed.

(** truthful flags *)
Lemma add_has_spec : add_has s k p sz = cache_has s k.
Proof.
  destruct add_unfold as (_ & -> & _ & _). rewrite has_find.
  destruct (add_item_spec _ c k p sz add_target_inv) as [it Hf|Hf _ _|c1 Hf _ _ _ _]; rewrite Hf; reflexivity.
Qed.

Lemma shrunk_absent c1 : shrinks c c1 -> find_item k (ch_items c) = None -> ~ In k (item_keys (ch_items c1)).
Proof. intros Hsh Hf Hin. apply find_item_none in Hf. apply Hf. eapply shrinks_keys_incl; eassumption. Qed.

Lemma add_added_get : add_added s k p sz = true -> cache_get (add_state s k p sz) k = Some p.
Proof.
  destruct add_unfold as (-> & _ & -> & _).
  destruct (add_item_spec _ c k p sz add_target_inv) as [it Hf|Hf _ _|c1 Hf _ Hsh _ _]; simpl; intros Hx; try discriminate.
  rewrite cache_get_option, get_item_set_chunk by apply add_target_lt. simpl. fold i. rewrite Nat.eqb_refl. simpl.
  rewrite (find_item_app_new (ch_items c1) k (new_item c1 k p sz)); [reflexivity| |reflexivity].
  apply shrunk_absent; assumption.
Qed.

Lemma add_added_spec : add_added s k p sz = negb (cache_has s k) && cache_has (add_state s k p sz) k.
Proof.
  destruct (add_added s k p sz) eqn:Ea.
  - pose proof (add_added_get Ea) as Hg. rewrite (cache_get_has (add_state s k p sz)), Hg.
    rewrite <- add_has_spec. destruct add_unfold as (_ & -> & Hb & _). rewrite Hb in Ea.
    destruct (add_item_spec _ c k p sz add_target_inv) as [it Hf|Hf _ _|c1 Hf _ _ _ _]; simpl in *; try discriminate. reflexivity.
  - rewrite (add_not_added_same Ea). destruct (cache_has s k); reflexivity.
Qed.

(** a present key: the add reports has and changes nothing *)
Lemma add_present : cache_has s k = true -> cache_add s k p sz = (s, true, false, false).
Proof.
  intros Hh. rewrite cache_add_eta. rewrite add_has_spec, Hh, add_no_fuel_out.
  assert (Ea : add_added s k p sz = false).
  { rewrite add_added_spec, Hh. reflexivity. }
  rewrite Ea, (add_not_added_same Ea). reflexivity.
Qed.

(** all residents of the target chunk immune and capacity reached: refused, nothing changes *)
Lemma add_refused_all_immune : cache_has s k = false -> is_exceeded c = true ->
  (forall it, In it (ch_items c) -> In (i_key it) (cache_immune_keys s)) ->
  cache_add s k p sz = (s, false, false, false).
Proof.
  intros Hh Hex Himm. rewrite has_find in Hh.
  assert (Hall : Forall (fun it => i_immune it = true) (ch_items c)).
  { apply Forall_forall. intros it Hin. rewrite (ci_flag _ _ add_target_inv _ Hin). apply bmem_In.
    pose proof (Himm _ Hin) as H. apply cache_immune_routed in H; [|assumption].
    pose proof (ci_route_items _ _ add_target_inv _ Hin) as Hr. unfold routed in Hr. rewrite Hr in H. exact H. }
  unfold cache_add. fold i. fold c. unfold add_item.
  destruct (find_item k (ch_items c)); [discriminate|].
  unfold evict_if_exceeded. rewrite Hex, (evict_items_all_immune _ c add_target_inv Hall). simpl.
  rewrite set_get_id by apply add_target_lt. reflexivity.
Qed.

(** items of other keys: an add removes only non-immune ones *)
Lemma add_keeps_immune it : In it (cache_items s) -> In (i_key it) (cache_immune_keys s) ->
  In it (cache_items (add_state s k p sz)).
Proof.
  intros Hin Himm. apply cache_items_routed in Hin; [|assumption]. apply cache_immune_routed in Himm; [|assumption].
  set (j := chunk_index (ca_cfg s) (i_key it)) in *.
  unfold cache_items. apply (in_concat_map_nth ch_items _ (dflt s)). exists j.
  destruct add_unfold as (-> & _). simpl. rewrite replace_nth_length.
  split; [apply chunk_index_lt; assumption|].
  change (In it (ch_items (get_chunk (set_chunk s i (ar_chunk (add_item c k p sz))) j))).
  destruct (Nat.eq_dec j i) as [E|E].
  - rewrite E, get_set_same by apply add_target_lt. rewrite E in Hin, Himm. fold c in Hin, Himm.
    destruct (add_item_spec _ c k p sz add_target_inv) as [x Hf|Hf _ _|c1 Hf _ Hsh _ _]; simpl; try assumption.
    apply in_app_iff. left. apply (sh_immune_stay _ _ Hsh); [assumption|].
    rewrite (ci_flag _ _ add_target_inv _ Hin). apply bmem_In. assumption.
  - rewrite get_set_other by assumption. assumption.
Qed.

(** an add never changes the payload of a present key *)
Lemma add_no_overwrite k' q q' : cache_get s k' = Some q -> cache_get (add_state s k p sz) k' = Some q' -> q' = q.
Proof.
  destruct add_unfold as (-> & _). rewrite !cache_get_option, get_item_set_chunk by apply add_target_lt.
  fold i. destruct (Nat.eqb_spec (chunk_index (ca_cfg s) k') i) as [E|E]; [|congruence].
  unfold cache_get_item. rewrite E. fold c.
  destruct (add_item_spec _ c k p sz add_target_inv) as [x Hf|Hf _ _|c1 Hf Hinv1 Hsh _ _]; simpl; try congruence.
  destruct (find_item k' (ch_items c)) as [a|] eqn:Ha; [|discriminate].
  destruct (find_item k' (ch_items c1 ++ [new_item c1 k p sz])) as [b|] eqn:Hb; [|discriminate].
  simpl. intros Hq Hq'. inversion Hq; inversion Hq'; subst.
  apply find_item_some in Ha. destruct Ha as [Ha Hka]. apply find_item_some in Hb. destruct Hb as [Hb Hkb].
  apply in_app_iff in Hb. destruct Hb as [Hb|[Hb|[]]].
  - f_equal. apply (same_key_same_item (ch_items c)); [apply (ci_nodup _ _ add_target_inv)|apply (sh_incl _ _ Hsh); assumption|assumption|congruence].
  - exfalso. rewrite <- Hb in Hkb. simpl in Hkb. rewrite <- Hkb in Hka. apply find_item_none in Hf. apply Hf.
    rewrite <- Hka. apply in_map. assumption.
Qed.

(** the set of immune keys is not touched by an add *)
Lemma add_immune_keys : cache_immune_keys (add_state s k p sz) = cache_immune_keys s.
Proof.
  destruct add_unfold as (-> & _). unfold cache_immune_keys. simpl. f_equal.
  apply (map_replace_same ch_immune _ _ (dflt s)); [apply add_target_lt|].
  apply (add_item_immune _ _ _ _ _ add_target_inv).
Qed.

(** a resident whose key is immune stays retrievable, same payload, through any add *)
Lemma add_survive k' q : In k' (cache_immune_keys s) -> cache_get s k' = Some q -> cache_get (add_state s k p sz) k' = Some q.
Proof.
  intros Himm Hg. rewrite cache_get_option in Hg. destruct (cache_get_item s k') as [it|] eqn:Hit; [|discriminate].
  simpl in Hg. inversion Hg; subst q. unfold cache_get_item in Hit. apply find_item_some in Hit. destruct Hit as [Hin Hk].
  subst k'.
  destruct add_unfold as (Hst & _).
  rewrite cache_get_option, Hst, get_item_set_chunk by apply add_target_lt. fold i.
  destruct (Nat.eqb_spec (chunk_index (ca_cfg s) (i_key it)) i) as [E|E].
  - rewrite E in Hin. fold c in Hin.
    assert (Himmc : In (i_key it) (ch_immune c)).
    { apply cache_immune_routed in Himm; [|assumption]. rewrite E in Himm. exact Himm. }
    destruct (add_item_spec _ c k p sz add_target_inv) as [x Hf|Hf _ _|c1 Hf Hinv1 Hsh _ _]; simpl.
    + rewrite (find_item_in _ _ (ci_nodup _ _ add_target_inv) Hin). reflexivity.
    + rewrite (find_item_in _ _ (ci_nodup _ _ add_target_inv) Hin). reflexivity.
    + assert (Hin1 : In it (ch_items c1)).
      { apply (sh_immune_stay _ _ Hsh); [assumption|]. rewrite (ci_flag _ _ add_target_inv _ Hin). apply bmem_In. assumption. }
      assert (Hne : i_key it <> k).
      { intros Hek. apply find_item_none in Hf. apply Hf. rewrite <- Hek. apply in_map. assumption. }
      assert (Hfa : forall l, find_item (i_key it) (l ++ [new_item c1 k p sz]) = find_item (i_key it) l).
      { induction l as [|y r IH]; simpl.
        - destruct (beqb_spec (i_key it) k); [contradiction|reflexivity].
        - destruct (beqb (i_key it) (i_key y)); [reflexivity|assumption]. }
      rewrite Hfa. rewrite (find_item_in _ _ (ci_nodup _ _ Hinv1) Hin1). reflexivity.
  - unfold cache_get_item.
    pose proof (ci_nodup _ _ (proj1 (cv_chunks _ Hinv _ (chunk_index_lt s (i_key it) Hinv)))) as Hnd.
    rewrite (find_item_in _ _ Hnd Hin). reflexivity.
Qed.
End AddFacts.

(* ------------------------------------------------------------------ Remove *)

Lemma find_item_remove_other k k' l : k' <> k -> find_item k' (remove_key k l) = find_item k' l.
Proof.
  intros Hne. induction l as [|x r IH]; simpl; [reflexivity|].
  destruct (beqb_spec k (i_key x)) as [E|E].
  - destruct (beqb_spec k' (i_key x)) as [E'|E']; [congruence|reflexivity].
  - simpl. rewrite IH. reflexivity.
Qed.

Section RemoveFacts.
Variables (s : cache) (k : bytes).
Hypothesis Hinv : cache_inv s.
Let i := chunk_index (ca_cfg s) k.
Let c := get_chunk s i.

Lemma remove_unfold : cache_remove s k = (set_chunk s i (fst (remove_item c k)), snd (remove_item c k)).
Proof. unfold cache_remove. fold i. fold c. destruct (remove_item c k); reflexivity. Qed.

Lemma remove_result : snd (cache_remove s k) = cache_has s k.
Proof. rewrite remove_unfold. simpl. rewrite remove_item_result. reflexivity. Qed.

Lemma remove_gone : cache_get (fst (cache_remove s k)) k = None.
Proof.
  rewrite remove_unfold. simpl. rewrite cache_get_option, get_item_set_chunk by (apply chunk_index_lt; assumption).
  fold i. rewrite Nat.eqb_refl.
  destruct (find_item k (ch_items (fst (remove_item c k)))) as [it|] eqn:E; [|reflexivity].
  apply find_item_some in E. destruct E as [Hin Hk].
  apply (remove_item_items (routed (ca_cfg s) i)) in Hin; [tauto|].
  apply (cv_chunks _ Hinv _ (chunk_index_lt s k Hinv)).
Qed.

Lemma remove_other k' : k' <> k -> cache_get (fst (cache_remove s k)) k' = cache_get s k'.
Proof.
  intros Hne. rewrite remove_unfold. simpl. rewrite !cache_get_option, get_item_set_chunk by (apply chunk_index_lt; assumption).
  fold i. destruct (Nat.eqb_spec (chunk_index (ca_cfg s) k') i) as [E|E]; [|reflexivity].
  unfold cache_get_item. rewrite E. fold c. unfold remove_item.
  destruct (find_item k (ch_items c)); simpl; [rewrite find_item_remove_other by assumption|]; reflexivity.
Qed.

Lemma remove_immune x : In x (cache_immune_keys (fst (cache_remove s k))) <-> In x (cache_immune_keys s) /\ x <> k.
Proof.
  pose proof (cache_remove_inv s k Hinv) as Hinv'.
  rewrite cache_immune_routed by assumption. rewrite (cache_immune_routed s) by assumption.
  rewrite remove_unfold in *. simpl in *.
  destruct (Nat.eq_dec (chunk_index (ca_cfg s) x) i) as [E|E].
  - rewrite E, get_set_same by (apply chunk_index_lt; assumption). fold c.
    rewrite remove_item_immune, del_key_In. reflexivity.
  - rewrite get_set_other by assumption. split; [|tauto]. intros H. split; [assumption|].
    intros ->. apply E. reflexivity.
Qed.
End RemoveFacts.

(* ------------------------------------------------------------------ ImmunizeKeys *)

Lemma map_nth_ext {A B} (f g : A -> B) : forall (l l' : list A) (d : A), length l = length l' ->
  (forall j, j < length l -> f (nth j l d) = g (nth j l' d)) -> map f l = map g l'.
Proof.
  induction l as [|x r IH]; intros [|y r'] d Hl H; simpl in *; try discriminate; [reflexivity|].
  f_equal; [apply (H 0); lia|]. apply (IH r' d); [lia|]. intros j Hj. apply (H (S j)). lia.
Qed.

Section ImmunizeFacts.
Variables (s : cache) (ks : list bytes).
Hypothesis Hinv : cache_inv s.

Lemma immunized_chunk_spec j : j < length (ca_chunks s) ->
  map strip (ch_items (get_chunk (immunized_cache s ks) j)) = map strip (ch_items (get_chunk s j)) /\
  (forall x, In x (ch_immune (get_chunk (immunized_cache s ks) j)) <-> In x (ch_immune (get_chunk s j)) \/ In x (group (ca_cfg s) ks j)).
Proof.
  intros Hj. rewrite immunized_get_chunk by assumption.
  destruct (cv_chunks _ Hinv _ Hj) as [Hc _].
  destruct (chunk_immunize_keys_spec (routed (ca_cfg s) j) (group (ca_cfg s) ks j) (get_chunk s j) 0%N 0%N Hc)
    as (_ & _ & A3 & _ & A5).
  - intros x Hx. apply group_routed in Hx. apply Hx.
  - split; assumption.
Qed.

Lemma immunized_get k : cache_get (immunized_cache s ks) k = cache_get s k.
Proof.
  rewrite !cache_get_option. unfold cache_get_item. change (ca_cfg (immunized_cache s ks)) with (ca_cfg s).
  destruct (immunized_chunk_spec (chunk_index (ca_cfg s) k) (chunk_index_lt s k Hinv)) as [H _].
  apply find_item_strip. assumption.
Qed.

Lemma immunized_immune x : In x (cache_immune_keys (immunized_cache s ks)) <-> In x (cache_immune_keys s) \/ In x ks.
Proof.
  pose proof (immunized_cache_inv s ks Hinv) as Hinv'.
  rewrite cache_immune_routed by assumption. rewrite (cache_immune_routed s) by assumption.
  change (ca_cfg (immunized_cache s ks)) with (ca_cfg s).
  destruct (immunized_chunk_spec (chunk_index (ca_cfg s) x) (chunk_index_lt s x Hinv)) as [_ H].
  rewrite H, group_routed. tauto.
Qed.

Lemma immunized_items_strip : map strip (cache_items (immunized_cache s ks)) = map strip (cache_items s).
Proof.
  unfold cache_items. rewrite !concat_map, !map_map.
  f_equal. apply (map_nth_ext _ _ _ _ (dflt s)).
  - simpl. apply immunize_chunks_length.
  - intros j Hj. simpl in Hj. rewrite immunize_chunks_length in Hj. apply (immunized_chunk_spec j Hj).
Qed.
End ImmunizeFacts.

(* ------------------------------------------------------------------ Clear *)

Lemma new_cache_items cfg : cache_items (new_cache cfg) = [].
Proof. unfold cache_items, new_cache, init_chunks. simpl. induction (N.to_nat (cf_numChunks cfg)); simpl; auto. Qed.

Lemma new_cache_immune cfg : cache_immune_keys (new_cache cfg) = [].
Proof. unfold cache_immune_keys, new_cache, init_chunks. simpl. induction (N.to_nat (cf_numChunks cfg)); simpl; auto. Qed.

(* ------------------------------------------------------------------ C12: survival *)

Lemma run_from_cons s o r : run_from s (o :: r) = run_from (step s o) r.
Proof. reflexivity. Qed.

Definition no_withdraw (k : bytes) (o : op) : Prop := o <> OClear /\ o <> ORemove k.

Lemma survive_step s o k q : cache_inv s -> no_withdraw k o ->
  In k (cache_immune_keys s) -> cache_get s k = Some q ->
  In k (cache_immune_keys (step s o)) /\ cache_get (step s o) k = Some q.
Proof.
  intros Hinv [Hnc Hnr] Himm Hg. destruct o as [k2 p2 sz2|k2|ks|].
  - rewrite step_add. split; [rewrite add_immune_keys; assumption|apply add_survive; assumption].
  - simpl. assert (k <> k2) by congruence. split.
    + apply remove_immune; [assumption|]. split; assumption.
    + rewrite remove_other; assumption.
  - rewrite step_immunize_eq, cache_immunize_state. destruct (immunize_refused s ks); [split; assumption|].
    split; [apply immunized_immune; [assumption|left; assumption]|rewrite immunized_get; assumption].
  - congruence.
Qed.

Lemma survive_run ops : forall s k q, cache_inv s -> Forall op_ok ops -> Forall (no_withdraw k) ops ->
  In k (cache_immune_keys s) -> cache_get s k = Some q ->
  In k (cache_immune_keys (run_from s ops)) /\ cache_get (run_from s ops) k = Some q.
Proof.
  induction ops as [|o r IH]; intros s k q Hinv Hok Hnw Himm Hg; simpl; [split; assumption|].
  inversion Hok; subst. inversion Hnw; subst.
  destruct (survive_step s o k q Hinv H3 Himm Hg) as [H5 H6].
  apply IH; auto. apply step_inv; assumption.
Qed.

(** a key accepted by ImmunizeKeys stays in the immune set until Remove/Clear *)
Lemma immune_stays_step s o k : cache_inv s -> no_withdraw k o -> In k (cache_immune_keys s) -> In k (cache_immune_keys (step s o)).
Proof.
  intros Hinv [Hnc Hnr] Himm. destruct o as [k2 p2 sz2|k2|ks|].
  - rewrite step_add, add_immune_keys; assumption.
  - simpl. apply remove_immune; [assumption|]. split; [assumption|congruence].
  - rewrite step_immunize_eq, cache_immunize_state. destruct (immunize_refused s ks); [assumption|].
    apply immunized_immune; [assumption|left; assumption].
  - congruence.
Qed.

Lemma immune_stays_run ops : forall s k, cache_inv s -> Forall op_ok ops -> Forall (no_withdraw k) ops ->
  In k (cache_immune_keys s) -> In k (cache_immune_keys (run_from s ops)).
Proof.
  induction ops as [|o r IH]; intros s k Hinv Hok Hnw Himm; simpl; [assumption|].
  inversion Hok; subst. inversion Hnw; subst.
  apply IH; auto; [apply step_inv; assumption|apply immune_stays_step; assumption].
Qed.

(** ImmunizeKeys accepted (the capacity gate let it through) *)
Definition accepted (s : cache) (ks : list bytes) : Prop := immunize_refused s ks = false.

Lemma accepted_immune s ks k : cache_inv s -> accepted s ks -> In k ks -> In k (cache_immune_keys (step s (OImmunize ks))).
Proof.
  intros Hinv Hacc Hin. rewrite step_immunize_eq, cache_immunize_state. unfold accepted in Hacc. rewrite Hacc.
  apply immunized_immune; [assumption|right; assumption].
Qed.

(** C12_survives, item already present when the key is immunised *)
Lemma survives_present cfg ops1 ks ops3 k q :
  cfg_valid cfg = true -> Forall op_ok ops1 -> Forall op_ok ops3 ->
  accepted (run cfg ops1) ks -> In k ks ->
  cache_get (run cfg ops1) k = Some q ->
  Forall (no_withdraw k) ops3 ->
  cache_get (run cfg (ops1 ++ OImmunize ks :: ops3)) k = Some q.
Proof.
  intros Hv Hok1 Hok3 Hacc Hin Hg Hnw. unfold run. rewrite run_from_app, run_from_cons.
  fold (run cfg ops1). pose proof (run_inv cfg ops1 Hv Hok1) as Hinv.
  apply survive_run; auto.
  - apply step_inv; [assumption|exact I].
  - apply accepted_immune; assumption.
  - rewrite step_immunize_eq, cache_immunize_state. unfold accepted in Hacc. rewrite Hacc, immunized_get; assumption.
Qed.

(** C12_survives, item added after the key was immunised (future immunity) *)
Lemma survives_later cfg ops1 ks ops2 k p sz ops3 :
  cfg_valid cfg = true -> Forall op_ok ops1 -> Forall op_ok ops2 -> Forall op_ok ops3 -> (0 <= sz)%Z ->
  accepted (run cfg ops1) ks -> In k ks ->
  Forall (no_withdraw k) ops2 ->
  add_added (run cfg (ops1 ++ OImmunize ks :: ops2)) k p sz = true ->
  Forall (no_withdraw k) ops3 ->
  cache_get (run cfg (ops1 ++ OImmunize ks :: ops2 ++ OAdd k p sz :: ops3)) k = Some p.
Proof.
  intros Hv Hok1 Hok2 Hok3 Hsz Hacc Hin Hnw2 Hadd Hnw3.
  pose proof (run_inv cfg ops1 Hv Hok1) as Hinv1.
  assert (Hinv1' : cache_inv (step (run cfg ops1) (OImmunize ks))) by (apply step_inv; [assumption|exact I]).
  assert (E2 : run cfg (ops1 ++ OImmunize ks :: ops2) = run_from (step (run cfg ops1) (OImmunize ks)) ops2).
  { unfold run. rewrite run_from_app. reflexivity. }
  assert (Hinv2 : cache_inv (run cfg (ops1 ++ OImmunize ks :: ops2))).
  { rewrite E2. apply run_from_inv; assumption. }
  assert (Himm2 : In k (cache_immune_keys (run cfg (ops1 ++ OImmunize ks :: ops2)))).
  { rewrite E2. apply immune_stays_run; auto. apply accepted_immune; assumption. }
  replace (ops1 ++ OImmunize ks :: ops2 ++ OAdd k p sz :: ops3) with ((ops1 ++ OImmunize ks :: ops2) ++ OAdd k p sz :: ops3)
    by (rewrite <- app_assoc; reflexivity).
  unfold run. rewrite run_from_app. fold (run cfg (ops1 ++ OImmunize ks :: ops2)). rewrite run_from_cons, step_add.
  apply survive_run; auto.
  - rewrite <- step_add. apply step_inv; assumption.
  - rewrite add_immune_keys; assumption.
  - apply add_added_get; assumption.
Qed.

(* ------------------------------------------------------------------ C13: immune count *)

Definition imm_spec_step (maxItems : N) (S : list bytes) (o : op) : list bytes :=
  match o with
  | OAdd _ _ _ => S
  | ORemove k => del_key k S
  | OImmunize ks =>
      if (maxItems <? N.of_nat (length S) + N.of_nat (length ks))%N then S
      else fold_left (fun acc k => add_key k acc) ks S
  | OClear => []
  end.

(** the set of accepted immune keys not since removed, as a function of the history alone *)
Definition imm_spec (maxItems : N) (ops : list op) : list bytes := fold_left (imm_spec_step maxItems) ops [].

Lemma fold_add_key_In ks : forall S x, In x (fold_left (fun acc k => add_key k acc) ks S) <-> In x S \/ In x ks.
Proof.
  induction ks as [|k r IH]; intros S x; simpl; [tauto|]. rewrite IH, add_key_In. intuition.
Qed.

Lemma fold_add_key_nodup ks : forall S, NoDup S -> NoDup (fold_left (fun acc k => add_key k acc) ks S).
Proof. induction ks as [|k r IH]; intros S H; simpl; [assumption|]. apply IH, add_key_nodup, H. Qed.

Lemma same_set_length (a b : list bytes) : NoDup a -> NoDup b -> (forall x, In x a <-> In x b) -> length a = length b.
Proof.
  intros Ha Hb H. apply Nat.le_antisymm; apply NoDup_incl_length; auto; intros x Hx; apply H; assumption.
Qed.

Definition imm_rel (s : cache) (S : list bytes) : Prop := NoDup S /\ forall x, In x (cache_immune_keys s) <-> In x S.

Lemma imm_rel_count s S : cache_inv s -> imm_rel s S -> cache_count_immune s = N.of_nat (length S).
Proof.
  intros Hinv [Hnd H]. rewrite cache_count_immune_keys. f_equal.
  apply same_set_length; auto. apply cache_immune_nodup. assumption.
Qed.

Lemma imm_rel_step s S o : cache_inv s -> imm_rel s S -> imm_rel (step s o) (imm_spec_step (cf_maxItems (ca_cfg s)) S o).
Proof.
  intros Hinv Hrel. pose proof (imm_rel_count s S Hinv Hrel) as Hcnt. destruct Hrel as [Hnd H].
  destruct o as [k p sz|k|ks|]; simpl imm_spec_step.
  - rewrite step_add. split; [assumption|]. rewrite add_immune_keys by assumption. assumption.
  - simpl. split; [apply del_key_nodup; assumption|]. intros x. rewrite remove_immune by assumption.
    rewrite del_key_In, H. reflexivity.
  - rewrite step_immunize_eq, cache_immunize_state. unfold immunize_refused. rewrite Hcnt.
    destruct (cf_maxItems (ca_cfg s) <? N.of_nat (length S) + N.of_nat (length ks))%N.
    + split; assumption.
    + split; [apply fold_add_key_nodup; assumption|]. intros x.
      rewrite immunized_immune by assumption. rewrite fold_add_key_In, H. reflexivity.
  - split; [constructor|]. intros x. cbn [step]. unfold cache_clear. rewrite new_cache_immune. tauto.
Qed.

Lemma imm_rel_run ops : forall s S, cache_inv s -> Forall op_ok ops -> imm_rel s S ->
  imm_rel (run_from s ops) (fold_left (imm_spec_step (cf_maxItems (ca_cfg s))) ops S).
Proof.
  induction ops as [|o r IH]; intros s S Hinv Hok Hrel; simpl; [assumption|].
  inversion Hok; subst. rewrite <- (step_cfg s o). apply IH; [apply step_inv; assumption|assumption|].
  rewrite step_cfg. apply imm_rel_step; assumption.
Qed.

Lemma immune_count cfg ops : cfg_valid cfg = true -> Forall op_ok ops ->
  cache_count_immune (run cfg ops) = N.of_nat (length (imm_spec (cf_maxItems cfg) ops)) /\
  (forall x, In x (cache_immune_keys (run cfg ops)) <-> In x (imm_spec (cf_maxItems cfg) ops)).
Proof.
  intros Hv Hok. pose proof (new_cache_inv cfg Hv) as Hinv0.
  assert (H0 : imm_rel (new_cache cfg) []).
  { split; [constructor|]. rewrite new_cache_immune. tauto. }
  pose proof (imm_rel_run ops (new_cache cfg) [] Hinv0 Hok H0) as Hrel. simpl in Hrel.
  split; [apply imm_rel_count; [apply run_inv; assumption|exact Hrel]|apply Hrel].
Qed.

(* ------------------------------------------------------------------ C13: Remove withdraws immunity *)

Definition no_immunize (k : bytes) (o : op) : Prop := match o with OImmunize ks => ~ In k ks | _ => True end.

Lemma not_immune_step s o k : cache_inv s -> no_immunize k o -> ~ In k (cache_immune_keys s) -> ~ In k (cache_immune_keys (step s o)).
Proof.
  intros Hinv Hni Hn. destruct o as [k2 p2 sz2|k2|ks|].
  - rewrite step_add, add_immune_keys; assumption.
  - simpl. rewrite remove_immune by assumption. tauto.
  - rewrite step_immunize_eq, cache_immunize_state. destruct (immunize_refused s ks); [assumption|].
    rewrite immunized_immune by assumption. simpl in Hni. tauto.
  - cbn [step]. unfold cache_clear. rewrite new_cache_immune. tauto.
Qed.

Lemma not_immune_run ops : forall s k, cache_inv s -> Forall op_ok ops -> Forall (no_immunize k) ops ->
  ~ In k (cache_immune_keys s) -> ~ In k (cache_immune_keys (run_from s ops)).
Proof.
  induction ops as [|o r IH]; intros s k Hinv Hok Hni Hn; simpl; [assumption|].
  inversion Hok; subst. inversion Hni; subst.
  apply IH; auto; [apply step_inv; assumption|apply not_immune_step; assumption].
Qed.

(** every resident item carries the flag that its key's membership in the immune set dictates *)
Lemma flag_iff_immune s it : cache_inv s -> In it (cache_items s) -> (i_immune it = true <-> In (i_key it) (cache_immune_keys s)).
Proof.
  intros Hinv Hin. apply cache_items_routed in Hin; [|assumption].
  rewrite cache_immune_routed by assumption.
  destruct (cv_chunks _ Hinv _ (chunk_index_lt s (i_key it) Hinv)) as [Hc _].
  rewrite (ci_flag _ _ Hc _ Hin). apply bmem_In.
Qed.

Lemma remove_withdraws cfg ops1 k ops2 :
  cfg_valid cfg = true -> Forall op_ok ops1 -> Forall op_ok ops2 -> Forall (no_immunize k) ops2 ->
  let s := run cfg (ops1 ++ ORemove k :: ops2) in
  ~ In k (cache_immune_keys s) /\ (forall it, In it (cache_items s) -> i_key it = k -> i_immune it = false).
Proof.
  intros Hv Hok1 Hok2 Hni s.
  pose proof (run_inv cfg ops1 Hv Hok1) as Hinv1.
  assert (Es : s = run_from (step (run cfg ops1) (ORemove k)) ops2).
  { unfold s, run. rewrite run_from_app. reflexivity. }
  assert (Hinv1' : cache_inv (step (run cfg ops1) (ORemove k))) by (apply step_inv; [assumption|exact I]).
  assert (Hinv : cache_inv s) by (rewrite Es; apply run_from_inv; assumption).
  assert (Hn : ~ In k (cache_immune_keys s)).
  { rewrite Es. apply not_immune_run; auto. simpl. rewrite remove_immune by assumption. tauto. }
  split; [assumption|]. intros it Hin Hk.
  destruct (i_immune it) eqn:E; [|reflexivity]. exfalso. apply Hn. rewrite <- Hk. apply flag_iff_immune; assumption.
Qed.

(* ------------------------------------------------------------------ C12: only non-immune items leave on an add *)

Lemma add_evicts_only_non_immune s k p sz it : cache_inv s ->
  In it (cache_items s) -> ~ In it (cache_items (add_state s k p sz)) ->
  ~ In (i_key it) (cache_immune_keys s) /\ i_immune it = false.
Proof.
  intros Hinv Hin Hout.
  assert (Hn : ~ In (i_key it) (cache_immune_keys s)).
  { intros Himm. apply Hout. apply add_keeps_immune; assumption. }
  split; [assumption|]. destruct (i_immune it) eqn:E; [|reflexivity].
  exfalso. apply Hn. apply flag_iff_immune; assumption.
Qed.

(* ------------------------------------------------------------------ provenance of residents *)

Lemma in_strip_map l l' it : map strip l' = map strip l -> In it l' -> exists it0, In it0 l /\ strip it0 = strip it.
Proof.
  intros E Hin. apply (in_map strip) in Hin. rewrite E in Hin. apply in_map_iff in Hin.
  destruct Hin as (it0 & H1 & H2). exists it0. split; assumption.
Qed.

(** a resident of the state after [o] was resident before (same key, payload, size) or is what [o] adds *)
Lemma resident_step s o it : cache_inv s -> In it (cache_items (step s o)) ->
  (exists it0, In it0 (cache_items s) /\ strip it0 = strip it) \/ o = OAdd (i_key it) (i_payload it) (i_size it).
Proof.
  intros Hinv Hin. destruct o as [k p sz|k|ks|].
  - rewrite step_add in Hin. destruct (add_unfold s k p sz) as (Hst & _). rewrite Hst in Hin.
    set (i := chunk_index (ca_cfg s) k) in *. set (c := get_chunk s i) in *.
    pose proof (add_target_lt s k Hinv) as Hi. fold i in Hi.
    unfold cache_items in Hin. apply (in_concat_map_nth ch_items _ (dflt s)) in Hin.
    destruct Hin as (j & Hj & Hin). simpl in Hj. rewrite replace_nth_length in Hj.
    change (In it (ch_items (get_chunk (set_chunk s i (ar_chunk (add_item c k p sz))) j))) in Hin.
    assert (Hback : forall x, In x (ch_items (get_chunk s j)) -> In x (cache_items s)).
    { intros x Hx. unfold cache_items. apply (in_concat_map_nth ch_items _ (dflt s)). exists j. split; assumption. }
    destruct (Nat.eq_dec j i) as [E|E].
    + rewrite E, get_set_same in Hin by assumption. rewrite E in Hback. fold c in Hback.
      destruct (add_item_spec _ c k p sz (add_target_inv s k Hinv)) as [x Hf|Hf _ _|c1 Hf _ Hsh _ _]; simpl in Hin.
      * left. exists it. split; [apply Hback; assumption|reflexivity].
      * left. exists it. split; [apply Hback; assumption|reflexivity].
      * apply in_app_iff in Hin. destruct Hin as [Hin|[Hin|[]]].
        -- left. exists it. split; [apply Hback, (sh_incl _ _ Hsh); assumption|reflexivity].
        -- right. subst it. reflexivity.
    + rewrite get_set_other in Hin by assumption. left. exists it. split; [apply Hback; assumption|reflexivity].
  - left. exists it. split; [|reflexivity]. cbn [step] in Hin.
    pose proof (cache_remove_inv s k Hinv) as Hinv'.
    apply cache_items_routed in Hin; [|assumption]. apply cache_items_routed; [assumption|].
    rewrite remove_unfold in Hin. cbn [fst] in Hin. change (ca_cfg (set_chunk s _ _)) with (ca_cfg s) in Hin.
    destruct (Nat.eq_dec (chunk_index (ca_cfg s) (i_key it)) (chunk_index (ca_cfg s) k)) as [E|E].
    + rewrite E in *. rewrite get_set_same in Hin by (apply chunk_index_lt; assumption).
      apply (remove_item_items (routed (ca_cfg s) (chunk_index (ca_cfg s) k))) in Hin; [tauto|].
      apply (cv_chunks _ Hinv _ (chunk_index_lt s k Hinv)).
    + rewrite get_set_other in Hin by assumption. assumption.
  - left. rewrite step_immunize_eq, cache_immunize_state in Hin.
    destruct (immunize_refused s ks); [exists it; split; [assumption|reflexivity]|].
    apply (in_strip_map _ _ _ (immunized_items_strip s ks Hinv) Hin).
  - cbn [step] in Hin. unfold cache_clear in Hin. rewrite new_cache_items in Hin. contradiction.
Qed.

Lemma resident_run ops : forall s it, cache_inv s -> Forall op_ok ops -> In it (cache_items (run_from s ops)) ->
  (exists it0, In it0 (cache_items s) /\ strip it0 = strip it) \/ In (OAdd (i_key it) (i_payload it) (i_size it)) ops.
Proof.
  induction ops as [|o r IH]; intros s it Hinv Hok Hin.
  - left. exists it. split; [assumption|reflexivity].
  - inversion Hok; subst. rewrite run_from_cons in Hin.
    destruct (IH (step s o) it (step_inv s o Hinv H1) H2 Hin) as [(it0 & Hin0 & E0)|Hr].
    + destruct (resident_step s o it0 Hinv Hin0) as [(it1 & Hin1 & E1)|Ho].
      * left. exists it1. split; [assumption|congruence].
      * right. left. unfold strip in E0. inversion E0. subst o. congruence.
    + right. right. assumption.
Qed.

(** every resident was put there by an add of this history, with this payload and this size *)
Lemma resident_provenance cfg ops it : cfg_valid cfg = true -> Forall op_ok ops ->
  In it (cache_items (run cfg ops)) -> In (OAdd (i_key it) (i_payload it) (i_size it)) ops.
Proof.
  intros Hv Hok Hin. destruct (resident_run ops (new_cache cfg) it (new_cache_inv cfg Hv) Hok Hin) as [(it0 & H0 & _)|H]; [|assumption].
  rewrite new_cache_items in H0. contradiction.
Qed.

Lemma get_resident s k q : cache_inv s -> cache_get s k = Some q ->
  exists it, In it (cache_items s) /\ i_key it = k /\ i_payload it = q.
Proof.
  intros Hinv Hg. rewrite cache_get_option in Hg. destruct (cache_get_item s k) as [it|] eqn:E; [|discriminate].
  inversion Hg; subst. unfold cache_get_item in E. apply find_item_some in E. destruct E as [Hin Hk].
  exists it. split; [|split; [assumption|reflexivity]]. apply cache_items_routed; [assumption|]. rewrite Hk. assumption.
Qed.

(* ------------------------------------------------------------------ history-level statements (used by Props/C12.v, C13.v) *)

Section Reachable.
Variables (cfg : cache_cfg) (ops : list op).
Hypothesis Hv : cfg_valid cfg = true.
Hypothesis Hok : Forall op_ok ops.
Let s := run cfg ops.
Let Hinv : cache_inv s := run_inv cfg ops Hv Hok.

Lemma h_flag_iff_immune it : In it (cache_items s) -> (i_immune it = true <-> In (i_key it) (cache_immune_keys s)).
Proof. apply flag_iff_immune, Hinv. Qed.

Lemma h_only_non_immune_evicted k p sz it : In it (cache_items s) -> ~ In it (cache_items (step s (OAdd k p sz))) ->
  ~ In (i_key it) (cache_immune_keys s) /\ i_immune it = false.
Proof. apply add_evicts_only_non_immune, Hinv. Qed.

Lemma h_no_overwrite k p sz k' q q' : cache_get s k' = Some q -> cache_get (step s (OAdd k p sz)) k' = Some q' -> q' = q.
Proof. apply add_no_overwrite, Hinv. Qed.

Lemma h_add_present k p sz : cache_has s k = true -> cache_add s k p sz = (s, true, false, false).
Proof. apply add_present, Hinv. Qed.

Lemma h_refused_unchanged k p sz :
  cache_has s k = false -> is_exceeded (get_chunk s (chunk_index (ca_cfg s) k)) = true ->
  (forall it, In it (ch_items (get_chunk s (chunk_index (ca_cfg s) k))) -> In (i_key it) (cache_immune_keys s)) ->
  cache_add s k p sz = (s, false, false, false).
Proof. apply add_refused_all_immune, Hinv. Qed.

Lemma h_not_added_unchanged k p sz : add_added s k p sz = false -> step s (OAdd k p sz) = s.
Proof. apply add_not_added_same, Hinv. Qed.

Lemma h_payload_is_original k q : cache_get s k = Some q -> exists sz, In (OAdd k q sz) ops.
Proof.
  intros Hg. destruct (get_resident _ _ _ Hinv Hg) as (it & Hin & Hk & Hp).
  exists (i_size it). rewrite <- Hk, <- Hp. apply (resident_provenance cfg ops it Hv Hok Hin).
Qed.

Lemma h_fuel_suffices k p sz : add_fuel_out s k p sz = false.
Proof. apply add_no_fuel_out, Hinv. Qed.

Lemma h_bound : (cache_count s <= cf_numChunks cfg * (cf_maxItems cfg / cf_numChunks cfg))%N /\
  (cf_numChunks cfg * (cf_maxItems cfg / cf_numChunks cfg) <= cf_maxItems cfg)%N.
Proof.
  split.
  - pose proof (cache_count_bound s Hinv) as H. unfold s in H at 2 3 4. unfold run in H. rewrite run_from_cfg in H. exact H.
  - pose proof (cfg_valid_nc _ Hv). apply N.mul_div_le. lia.
Qed.

Lemma h_views :
  cache_count s = N.of_nat (length (cache_keys s)) /\
  cache_keys s = map i_key (cache_items s) /\
  NoDup (cache_keys s) /\
  (forall k, cache_has s k = true <-> In k (cache_keys s)) /\
  (forall k, cache_has s k = true <-> exists q, cache_get s k = Some q).
Proof.
  split; [apply cache_count_keys|]. split; [apply cache_keys_items|]. split; [apply cache_keys_nodup, Hinv|].
  split; [intros k; apply cache_has_keys, Hinv|].
  intros k. rewrite cache_get_has. destruct (cache_get s k) as [q|]; split; intros H; eauto; try discriminate.
  destruct H as (q & H); discriminate.
Qed.

Lemma h_bytes : cache_num_bytes s = sum_sizes (cache_items s) /\
  (forall it, In it (cache_items s) -> In (OAdd (i_key it) (i_payload it) (i_size it)) ops /\ (0 <= i_size it)%Z).
Proof.
  split; [apply cache_bytes_sum, Hinv|]. intros it Hin.
  pose proof (resident_provenance cfg ops it Hv Hok Hin) as Hp. split; [assumption|].
  apply (proj1 (Forall_forall op_ok ops) Hok _ Hp).
Qed.

Lemma h_flags k p sz :
  add_has s k p sz = cache_has s k /\
  add_added s k p sz = negb (cache_has s k) && cache_has (step s (OAdd k p sz)) k /\
  (add_added s k p sz = true -> cache_get (step s (OAdd k p sz)) k = Some p).
Proof.
  split; [apply add_has_spec, Hinv|]. split; [apply add_added_spec, Hinv|]. apply add_added_get, Hinv.
Qed.

Lemma h_remove k :
  snd (cache_remove s k) = cache_has s k /\
  cache_get (step s (ORemove k)) k = None /\
  ~ In k (cache_immune_keys (step s (ORemove k))) /\
  (forall k', k' <> k -> cache_get (step s (ORemove k)) k' = cache_get s k' /\
                         (In k' (cache_immune_keys (step s (ORemove k))) <-> In k' (cache_immune_keys s))).
Proof.
  split; [apply remove_result|]. split; [apply remove_gone, Hinv|]. cbn [step].
  split; [rewrite remove_immune by apply Hinv; tauto|].
  intros k' Hne. split; [apply remove_other; [apply Hinv|assumption]|]. rewrite remove_immune by apply Hinv. tauto.
Qed.
End Reachable.
