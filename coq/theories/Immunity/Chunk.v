(** Operational model of immunitycache/chunk.go + cacheItem.go (C12, C13).
    Definitions only.  The chunk keeps
      - [ch_items]   : itemsAsList (front = head, PushBack = append); the map [items] is derived
                       from it ([find_item] = map lookup),
      - [ch_immune]  : the key set [immuneKeys] (current or future immunity),
      - [ch_numBytes]: the SEPARATE byte counter the code maintains (with its max(.,0) clamp),
      - [ch_cfg]     : immunityChunkConfig.
    Each function follows the Go function of the same name: same tests, same order, same exits. *)
From Coq Require Import List NArith ZArith Bool.
From Verif Require Import Base.BStr.
Import ListNotations.

(** cacheItem: payload, key, size (Go int), isImmune flag *)
Record item : Type := mkItem { i_key : bytes; i_payload : bytes; i_size : Z; i_immune : bool }.

(** immunityChunkConfig (uint32 fields) *)
Record chunk_cfg : Type := mkCC { cc_maxItems : N; cc_maxBytes : N; cc_evict : N }.

Record chunk : Type := mkChunk {
  ch_cfg : chunk_cfg;
  ch_items : list item;
  ch_immune : list bytes;
  ch_numBytes : Z
}.

Definition new_chunk (cfg : chunk_cfg) : chunk := mkChunk cfg [] [] 0%Z.

Definition bmem (k : bytes) (l : list bytes) : bool := existsb (beqb k) l.

(** chunk.items[key] *)
Fixpoint find_item (k : bytes) (l : list item) : option item :=
  match l with
  | [] => None
  | it :: r => if beqb k (i_key it) then Some it else find_item k r
  end.

Definition item_keys (l : list item) : list bytes := map i_key l.

(** item.immunizeAgainstEviction() on the item the map holds for [k] *)
Definition immunized (it : item) : item := mkItem (i_key it) (i_payload it) (i_size it) true.
Fixpoint set_immune (k : bytes) (l : list item) : list item :=
  match l with
  | [] => []
  | it :: r => if beqb k (i_key it) then immunized it :: r else it :: set_immune k r
  end.

(** one iteration of the loop of immunityChunk.ImmunizeKeys *)
Definition immunize_key (c : chunk) (k : bytes) : chunk * bool :=
  let present := match find_item k (ch_items c) with Some _ => true | None => false end in
  (mkChunk (ch_cfg c)
           (if present then set_immune k (ch_items c) else ch_items c)
           (if bmem k (ch_immune c) then ch_immune c else ch_immune c ++ [k])
           (ch_numBytes c),
   present).

(** immunityChunk.ImmunizeKeys: (chunk, numNow, numFuture) *)
Fixpoint chunk_immunize_keys (c : chunk) (keys : list bytes) (numNow numFuture : N) : chunk * N * N :=
  match keys with
  | [] => (c, numNow, numFuture)
  | k :: r =>
      let '(c', now) := immunize_key c k in
      if now then chunk_immunize_keys c' r (numNow + 1)%N numFuture
      else chunk_immunize_keys c' r numNow (numFuture + 1)%N
  end.

(** isCapacityExceededNoLock *)
Definition is_exceeded (c : chunk) : bool :=
  (cc_maxItems (ch_cfg c) <=? N.of_nat (length (ch_items c)))%N
  || (Z.of_N (cc_maxBytes (ch_cfg c)) <=? ch_numBytes c)%Z.

(** trackNumBytesOnRemoveNoLock *)
Definition track_remove (nb : Z) (it : item) : Z := Z.max (nb - i_size it) 0.

(** removeOldestNoLock on (itemsAsList, numBytes): walks from the front, skips immune
    items, removes (removeNoLock) until [n] were removed.
    Result: (kept list, removed items in order of removal, numBytes). *)
Fixpoint remove_oldest (l : list item) (n : N) (nb : Z) : list item * list item * Z :=
  match l with
  | [] => ([], [], nb)
  | it :: r =>
      if (n =? 0)%N then (l, [], nb)
      else if i_immune it then
        let '(kept, rm, nb') := remove_oldest r n nb in (it :: kept, rm, nb')
      else
        let '(kept, rm, nb') := remove_oldest r (n - 1)%N (track_remove nb it) in (kept, it :: rm, nb')
  end.

(** chunk.removeOldestNoLock(numToRemove) -> (chunk, numRemoved) *)
Definition chunk_remove_oldest (c : chunk) (n : N) : chunk * N :=
  let '(kept, rm, nb) := remove_oldest (ch_items c) n (ch_numBytes c) in
  (mkChunk (ch_cfg c) kept (ch_immune c) nb, N.of_nat (length rm)).

(** the [for] loop of evictItemsNoLock; [None] = out of fuel (excluded by lemma
    [evict_loop_fuel]: fuel > number of items suffices) *)
Fixpoint evict_loop (fuel : nat) (c : chunk) (lastStep total : N) : option (chunk * N) :=
  if is_exceeded c && (lastStep =? cc_evict (ch_cfg c))%N then
    match fuel with
    | O => None
    | S f =>
        let '(c', r) := chunk_remove_oldest c (cc_evict (ch_cfg c)) in
        evict_loop f c' r (total + r)%N
    end
  else Some (c, total).

Inductive evict_res : Type :=
| EvOk (c : chunk) (numRemoved : N)
| EvErr (c : chunk)                   (* ErrFailedCacheEviction *)
| EvFuel.                             (* model artefact, never produced *)

(** evictItemsNoLock *)
Definition evict_items (c : chunk) : evict_res :=
  let n := cc_evict (ch_cfg c) in
  let '(c1, r1) := chunk_remove_oldest c n in
  if (r1 =? 0)%N then EvErr c1
  else match evict_loop (S (length (ch_items c1))) c1 r1 r1 with
       | Some (c2, tot) => EvOk c2 tot
       | None => EvFuel
       end.

(** evictItemsIfCapacityExceededNoLock *)
Definition evict_if_exceeded (c : chunk) : evict_res :=
  if is_exceeded c then evict_items c else EvOk c 0%N.

Record add_res : Type := mkAR { ar_chunk : chunk; ar_has : bool; ar_added : bool; ar_fuel_out : bool }.

(** AddItem (as of the tree under verification: duplicate test first, then eviction) *)
Definition add_item (c : chunk) (k p : bytes) (sz : Z) : add_res :=
  match find_item k (ch_items c) with
  | Some _ => mkAR c true false false
  | None =>
      match evict_if_exceeded c with
      | EvErr c1 => mkAR c1 false false false
      | EvFuel => mkAR c false false true
      | EvOk c1 _ =>
          (* addItemNoLock; immunizeItemOnAddNoLock; trackNumBytesOnAddNoLock *)
          let it := mkItem k p sz (bmem k (ch_immune c1)) in
          mkAR (mkChunk (ch_cfg c1) (ch_items c1 ++ [it]) (ch_immune c1) (ch_numBytes c1 + i_size it)%Z)
               false true false
      end
  end.

(** removal of the list element the map holds for [k] *)
Fixpoint remove_key (k : bytes) (l : list item) : list item :=
  match l with
  | [] => []
  | it :: r => if beqb k (i_key it) then r else it :: remove_key k r
  end.

Definition del_key (k : bytes) (l : list bytes) : list bytes := filter (fun x => negb (beqb k x)) l.

(** RemoveItem: delete(immuneKeys, key) first, then the item if present *)
Definition remove_item (c : chunk) (k : bytes) : chunk * bool :=
  let imm := del_key k (ch_immune c) in
  match find_item k (ch_items c) with
  | None => (mkChunk (ch_cfg c) (ch_items c) imm (ch_numBytes c), false)
  | Some it => (mkChunk (ch_cfg c) (remove_key k (ch_items c)) imm (track_remove (ch_numBytes c) it), true)
  end.

Definition chunk_count (c : chunk) : N := N.of_nat (length (ch_items c)).
Definition chunk_count_immune (c : chunk) : N := N.of_nat (length (ch_immune c)).
Definition chunk_keys (c : chunk) : list bytes := item_keys (ch_items c).
