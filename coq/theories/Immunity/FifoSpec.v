(** The specification C13 names for a single chunk: a FIFO queue of (key, payload, size) plus the
    SET of immune keys.  No per-item flag, no byte counter, no chunks, no hashing: immunity is
    looked up in the set, the byte total is the sum of the sizes in the queue.
    An add of an absent key that finds item or byte capacity reached drops batches of the [n] oldest
    non-immune entries (refused when the first batch drops nothing; further batches while capacity is
    still reached and the previous batch was full), then appends.  Definitions only. *)
From Coq Require Import List NArith ZArith Bool.
From Verif Require Import Base.BStr Immunity.Chunk Immunity.Cache.
Import ListNotations.

Definition entry : Type := (bytes * bytes * Z)%type.
Definition e_key (e : entry) : bytes := fst (fst e).
Definition e_payload (e : entry) : bytes := snd (fst e).
Definition e_size (e : entry) : Z := snd e.

Record fifo : Type := mkFifo { f_q : list entry; f_imm : list bytes }.

Record fifo_cfg : Type := mkFC { fc_maxItems : N; fc_maxBytes : N; fc_batch : N }.

Definition q_bytes (q : list entry) : Z := fold_right (fun e a => (e_size e + a)%Z) 0%Z q.

Definition reached (cfg : fifo_cfg) (q : list entry) : bool :=
  (fc_maxItems cfg <=? N.of_nat (length q))%N || (Z.of_N (fc_maxBytes cfg) <=? q_bytes q)%Z.

(** drop the [n] oldest entries whose key is not immune: (remaining queue, number dropped) *)
Fixpoint drop_oldest (imm : list bytes) (q : list entry) (n : N) : list entry * N :=
  match q with
  | [] => ([], 0%N)
  | e :: r =>
      if (n =? 0)%N then (q, 0%N)
      else if bmem (e_key e) imm then let '(k, d) := drop_oldest imm r n in (e :: k, d)
      else let '(k, d) := drop_oldest imm r (n - 1)%N in (k, (d + 1)%N)
  end.

(** further batches: while capacity is still reached and the previous batch was full *)
Fixpoint more_batches (fuel : nat) (cfg : fifo_cfg) (imm : list bytes) (q : list entry) (last : N) : list entry :=
  if reached cfg q && (last =? fc_batch cfg)%N then
    match fuel with
    | O => q
    | S f => let '(q', d) := drop_oldest imm q (fc_batch cfg) in more_batches f cfg imm q' d
    end
  else q.

Definition q_find (k : bytes) (q : list entry) : option entry := find (fun e => beqb k (e_key e)) q.

(** HasOrAdd: (state, has, added) *)
Definition fifo_add (cfg : fifo_cfg) (f : fifo) (k p : bytes) (sz : Z) : fifo * bool * bool :=
  match q_find k (f_q f) with
  | Some _ => (f, true, false)
  | None =>
      if reached cfg (f_q f) then
        let '(q1, d) := drop_oldest (f_imm f) (f_q f) (fc_batch cfg) in
        if (d =? 0)%N then (f, false, false)
        else (mkFifo (more_batches (S (length q1)) cfg (f_imm f) q1 d ++ [(k, p, sz)]) (f_imm f), false, true)
      else (mkFifo (f_q f ++ [(k, p, sz)]) (f_imm f), false, true)
  end.

Definition fifo_remove (f : fifo) (k : bytes) : fifo * bool :=
  (mkFifo (filter (fun e => negb (beqb k (e_key e))) (f_q f)) (del_key k (f_imm f)),
   match q_find k (f_q f) with Some _ => true | None => false end).

Definition set_add (k : bytes) (l : list bytes) : list bytes := if bmem k l then l else l ++ [k].

Definition fifo_immunize (maxNumItems : N) (f : fifo) (ks : list bytes) : fifo :=
  if (maxNumItems <? N.of_nat (length (f_imm f)) + N.of_nat (length ks))%N then f
  else mkFifo (f_q f) (fold_left (fun acc k => set_add k acc) ks (f_imm f)).

Definition fifo_get (f : fifo) (k : bytes) : option bytes := option_map e_payload (q_find k (f_q f)).

(** one step of the specification over the operations of a history *)
Definition fifo_step (cfg : fifo_cfg) (maxNumItems : N) (f : fifo) (o : op) : fifo :=
  match o with
  | OAdd k p sz => fst (fst (fifo_add cfg f k p sz))
  | ORemove k => fst (fifo_remove f k)
  | OImmunize ks => fifo_immunize maxNumItems f ks
  | OClear => mkFifo [] []
  end.

Definition fifo_run (cfg : fifo_cfg) (maxNumItems : N) (ops : list op) : fifo :=
  fold_left (fifo_step cfg maxNumItems) ops (mkFifo [] []).

(** the configuration of the queue for a one-chunk cache *)
Definition fifo_cfg_of (cfg : cache_cfg) : fifo_cfg := mkFC (cf_maxItems cfg) (cf_maxBytes cfg) (cf_evict cfg).
