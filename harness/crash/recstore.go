package crash

// Recording wrapper around goleveldb's storage.Storage, and the crash-image materialiser.
//
// The persisters of /repo are opened (through leveldb.VerifSetOpenHook) over a recStorage that wraps a
// MemStorage and appends one event per Create / Write / Sync / Remove / Rename / SetMeta to a log, together
// with the bytes written.  The state of every file (content, synced length) at ANY event index is rebuilt by
// replaying the log, so crash images are produced after the workload has run (the workload itself is never
// slowed down, which matters for the timer-triggered flushes).

import (
	"errors"
	"crypto/sha256"
	"fmt"
	"os"
	"path/filepath"
	"sort"
	"sync"
	"time"

	"github.com/syndtr/goleveldb/leveldb/storage"
	"sync/atomic"
)

type evKind int

const (
	evCreate evKind = iota
	evWrite
	evSync
	evRemove
	evRename
	evSetMeta
)

func (k evKind) String() string {
	return [...]string{"create", "write", "sync", "remove", "rename", "setmeta"}[k]
}

type event struct {
	kind evKind
	fd   storage.FileDesc
	fd2  storage.FileDesc // rename target
	data []byte           // evWrite
	op   int              // index of the operation during which the event happened (-1: first open)
	at   time.Time
}

func fdName(fd storage.FileDesc) string {
	switch fd.Type {
	case storage.TypeManifest:
		return fmt.Sprintf("MANIFEST-%06d", fd.Num)
	case storage.TypeJournal:
		return fmt.Sprintf("%06d.log", fd.Num)
	case storage.TypeTable:
		return fmt.Sprintf("%06d.ldb", fd.Num)
	case storage.TypeTemp:
		return fmt.Sprintf("%06d.tmp", fd.Num)
	}
	return fmt.Sprintf("unknown-%d-%d", fd.Type, fd.Num)
}

func (e event) String() string {
	switch e.kind {
	case evWrite:
		return fmt.Sprintf("write %s %dB", fdName(e.fd), len(e.data))
	case evRename:
		return fmt.Sprintf("rename %s %s", fdName(e.fd), fdName(e.fd2))
	}
	return fmt.Sprintf("%s %s", e.kind, fdName(e.fd))
}

type recStorage struct {
	storage.Storage
	mu     sync.Mutex
	events []event
	curOp  int
	// failSyncOnce: the next Sync of a journal file fails (once), as a momentary I/O error would make it
	failSyncOnce atomic.Bool
}

func newRecStorage() *recStorage {
	return &recStorage{Storage: storage.NewMemStorage(), curOp: -1}
}

func (s *recStorage) add(e event) {
	s.mu.Lock()
	e.op = s.curOp
	e.at = time.Now()
	s.events = append(s.events, e)
	s.mu.Unlock()
}

func (s *recStorage) setOp(i int) {
	s.mu.Lock()
	s.curOp = i
	s.mu.Unlock()
}

func (s *recStorage) numEvents() int {
	s.mu.Lock()
	defer s.mu.Unlock()
	return len(s.events)
}

var errInjectedSync = errors.New("injected: journal fsync failed")

type recWriter struct {
	storage.Writer
	fd storage.FileDesc
	s  *recStorage
}

func (w *recWriter) Write(p []byte) (int, error) {
	n, err := w.Writer.Write(p)
	if n > 0 {
		w.s.add(event{kind: evWrite, fd: w.fd, data: append([]byte(nil), p[:n]...)})
	}
	return n, err
}

func (w *recWriter) Sync() error {
	if w.fd.Type == storage.TypeJournal && w.s.failSyncOnce.CompareAndSwap(true, false) {
		return errInjectedSync
	}
	err := w.Writer.Sync()
	if err == nil {
		w.s.add(event{kind: evSync, fd: w.fd})
	}
	return err
}

func (s *recStorage) Create(fd storage.FileDesc) (storage.Writer, error) {
	w, err := s.Storage.Create(fd)
	if err != nil {
		return nil, err
	}
	s.add(event{kind: evCreate, fd: fd})
	return &recWriter{Writer: w, fd: fd, s: s}, nil
}

func (s *recStorage) Remove(fd storage.FileDesc) error {
	err := s.Storage.Remove(fd)
	if err == nil {
		s.add(event{kind: evRemove, fd: fd})
	}
	return err
}

func (s *recStorage) Rename(a, b storage.FileDesc) error {
	err := s.Storage.Rename(a, b)
	if err == nil {
		s.add(event{kind: evRename, fd: a, fd2: b})
	}
	return err
}

func (s *recStorage) SetMeta(fd storage.FileDesc) error {
	err := s.Storage.SetMeta(fd)
	if err == nil {
		s.add(event{kind: evSetMeta, fd: fd})
	}
	return err
}

// ---------------------------------------------------------------- replay of the event log

type fileState struct {
	data       []byte
	synced     int
	firstDirty int // index of the event that wrote the first unsynced byte
}

type diskState struct {
	files   map[storage.FileDesc]*fileState
	meta    storage.FileDesc
	hasMeta bool
}

func newDiskState() *diskState { return &diskState{files: map[storage.FileDesc]*fileState{}} }

func (d *diskState) apply(idx int, e event) {
	switch e.kind {
	case evCreate:
		d.files[e.fd] = &fileState{}
	case evWrite:
		f := d.files[e.fd]
		if f == nil {
			f = &fileState{}
			d.files[e.fd] = f
		}
		if len(f.data) == f.synced {
			f.firstDirty = idx
		}
		f.data = append(f.data, e.data...)
	case evSync:
		if f := d.files[e.fd]; f != nil {
			f.synced = len(f.data)
		}
	case evRemove:
		delete(d.files, e.fd)
	case evRename:
		if f := d.files[e.fd]; f != nil {
			d.files[e.fd2] = f
			delete(d.files, e.fd)
		}
	case evSetMeta:
		d.meta = e.fd
		d.hasMeta = true
	}
}

// unsyncedBytes is the total length of the unsynced tails.
func (d *diskState) unsyncedBytes() int {
	n := 0
	for _, f := range d.files {
		n += len(f.data) - f.synced
	}
	return n
}

// tail choices of a crash image
const (
	tailNone = 0 // every unsynced byte is lost
	tailTorn = 1 // the first `keep` unsynced bytes (in write order) survive
	tailAll  = 2 // every written byte survives
)

var tailNames = [...]string{"none", "torn", "all"}

type image struct {
	names   []string          // sorted file names
	content map[string][]byte // name -> bytes
}

// image builds the crash image of the current state.
func (d *diskState) image(tail int, keep int) *image {
	img := &image{content: map[string][]byte{}}
	type ft struct {
		fd storage.FileDesc
		f  *fileState
	}
	var fl []ft
	for fd, f := range d.files {
		fl = append(fl, ft{fd, f})
	}
	// unsynced tails survive in the order they were written
	sort.Slice(fl, func(i, j int) bool {
		if fl[i].f.firstDirty != fl[j].f.firstDirty {
			return fl[i].f.firstDirty < fl[j].f.firstDirty
		}
		return fdName(fl[i].fd) < fdName(fl[j].fd)
	})
	budget := keep
	for _, x := range fl {
		n := x.f.synced
		switch tail {
		case tailAll:
			n = len(x.f.data)
		case tailTorn:
			u := len(x.f.data) - x.f.synced
			if u > budget {
				u = budget
			}
			budget -= u
			n += u
		}
		img.content[fdName(x.fd)] = x.f.data[:n]
	}
	if d.hasMeta {
		img.content["CURRENT"] = []byte(fdName(d.meta) + "\n")
	}
	for n := range img.content {
		img.names = append(img.names, n)
	}
	sort.Strings(img.names)
	return img
}

func (img *image) digest() [32]byte {
	h := sha256.New()
	for _, n := range img.names {
		fmt.Fprintf(h, "%s:%d:", n, len(img.content[n]))
		h.Write(img.content[n])
	}
	var out [32]byte
	copy(out[:], h.Sum(nil))
	return out
}

// materialise writes the image as plain files into dir (created).
func (img *image) materialise(dir string) error {
	if err := os.MkdirAll(dir, 0o700); err != nil {
		return err
	}
	for _, n := range img.names {
		if err := os.WriteFile(filepath.Join(dir, n), img.content[n], 0o600); err != nil {
			return err
		}
	}
	return nil
}

func (img *image) describe() string {
	s := ""
	for _, n := range img.names {
		s += fmt.Sprintf("%s(%dB) ", n, len(img.content[n]))
	}
	return s
}
