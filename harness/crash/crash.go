// Package crash: crash-consistency of the LevelDB persisters of /repo (C10).
//
// A workload (Put / Remove / Tick / Close+reopen on leveldb.NewDB or leveldb.NewSerialDB, unmodified) runs over a
// recording storage.Storage (recstore.go; installed through leveldb.VerifSetOpenHook). Afterwards, at EVERY recorded
// storage event and every operation boundary, crash images are materialised as plain files for each choice of the
// unsynced tail (none / torn at a seeded random byte offset / all), reopened with the unmodified constructor (no hook:
// the path is not registered) and read back in full (RangeKeys + Get).
//
// Two judges:
//   - monitors (this file, from the property text only): the recovered map must be the map after exactly j flushes for some
//     j in [completed, started] at that crash point; flush boundaries are computed by harness-side bookkeeping
//     (MaxBatchSize acknowledged writes since the last flush / Tick / Close);
//   - the Coq model Persist/Crash.v through CrashComp.v (differential run): per operation the model predicts the recovered
//     map at the boundary for both extreme tails, the sequence of maps over the crash points inside the operation, the number
//     of journal records / fsyncs, and judges the torn-tail maps (inserted op 9) against the set its theorems allow.
//
// config: kind (0 DB, 1 SerialDB) maxBatchSize sync(1) batchDelaySeconds
// ops: 1 Put k v | 2 Remove k | 3 Get k | 4 Has k | 5 Tick | 6 Cycle (Close + reopen) | 9 Judge (inserted)
package crash

import (
	"bytes"
	"errors"
	"fmt"
	"math/rand"
	"os"
	"runtime"
	"sort"
	"strings"
	"sync"
	"sync/atomic"
	"time"

	logger "github.com/multiversx/mx-chain-logger-go"
	"github.com/multiversx/mx-chain-storage-go/leveldb"
	"github.com/multiversx/mx-chain-storage-go/types"
	gldb "github.com/syndtr/goleveldb/leveldb"
	"github.com/syndtr/goleveldb/leveldb/opt"
	"github.com/syndtr/goleveldb/leveldb/storage"
	"verifharness/core"
)

type comp struct{}

func init() {
	core.Register(comp{})
	_ = logger.SetLogLevel("*:NONE")
}

func (comp) Name() string { return "crash" }

const (
	opPut    = 1
	opRemove = 2
	opGet    = 3
	opHas    = 4
	opTick   = 5
	opCycle  = 6
	opJudge  = 9
)

const noTimerDelay = 100000

// paths opened over a recording storage; every other path falls through to leveldb.OpenFile
var registry sync.Map

func openHook(path string, options *opt.Options) (*gldb.DB, bool, error) {
	v, ok := registry.Load(path)
	if !ok {
		return nil, false, nil
	}
	db, err := gldb.Open(v.(*recStorage), options)
	return db, true, err
}

// ---------------------------------------------------------------- workloads

type wop struct {
	code int
	key  []byte
	val  []byte
}

func (o wop) String() string {
	switch o.code {
	case opPut:
		if o.val == nil {
			return fmt.Sprintf("Put %x nil", o.key)
		}
		return fmt.Sprintf("Put %x %x", o.key, o.val)
	case opRemove:
		return fmt.Sprintf("Remove %x", o.key)
	case opGet:
		return fmt.Sprintf("Get %x", o.key)
	case opHas:
		return fmt.Sprintf("Has %x", o.key)
	case opTick:
		return "Tick"
	case opCycle:
		return "Close+Reopen"
	}
	return fmt.Sprintf("op%d", o.code)
}

type workload struct {
	kind, max, delay int
	ops              []wop
}

func (w *workload) kindName() string {
	if w.kind == 0 {
		return "DB"
	}
	return "SerialDB"
}

func (w *workload) String() string {
	s := make([]string, len(w.ops))
	for i, o := range w.ops {
		s[i] = fmt.Sprintf("#%d %s", i, o)
	}
	return fmt.Sprintf("persister=%s MaxBatchSize=%d BatchDelaySeconds=%d ops=[%s]", w.kindName(), w.max, w.delay, strings.Join(s, "; "))
}

func (w *workload) history() *core.History {
	h := &core.History{}
	h.SetConfig(core.N(uint64(w.kind)), core.I(int64(w.max)), core.N(1), core.N(uint64(w.delay)))
	for _, o := range w.ops {
		switch o.code {
		case opPut:
			h.Add(opPut, "Put", core.B(o.key), core.OB(o.val))
		case opRemove, opGet, opHas:
			h.Add(o.code, "", core.B(o.key))
		default:
			h.Add(o.code, o.String())
		}
	}
	return h
}

func workloadOf(h *core.History) *workload {
	cfg := core.ParseArgs(h.Config)
	w := &workload{kind: cfg[0].Int(), max: cfg[1].Int(), delay: noTimerDelay}
	if len(cfg) > 3 {
		w.delay = cfg[3].Int()
	}
	for _, op := range h.Ops {
		a := op.Parsed()
		o := wop{code: op.Code}
		if len(a) > 0 {
			o.key = a[0].Bytes()
		}
		if op.Code == opPut && len(a) > 1 {
			o.val = a[1].Bytes()
		}
		w.ops = append(w.ops, o)
	}
	return w
}

var keyPool = [][]byte{[]byte("a"), []byte("b"), []byte("c"), []byte("d"), []byte("aa"), {0x00}, {0xff}, []byte("key-e")}
var valPool = [][]byte{nil, {}, {0x01}, {0x02}, {0x03}, []byte("hello"), {0xff, 0x00}}

// a value beyond 64 KiB (one write in thirty): large records take other paths in storage engines and invite "write-through" shortcuts
var longCrashValue = bytes.Repeat([]byte{0x5c}, 70000)

func genWorkload(rng *rand.Rand, timer bool) *workload {
	w := &workload{kind: rng.Intn(2), max: core.Pick(rng, []int{1, 2, 2, 3, 3, 5, 1, 2, 3, 0, -1}), delay: noTimerDelay} // MaxBatchSize <= 0: every write is flushed at once
	nk := 3 + rng.Intn(3)
	perm := rng.Perm(len(keyPool))
	var alpha [][]byte
	for _, i := range perm[:nk] {
		alpha = append(alpha, keyPool[i])
	}
	nops := 8 + rng.Intn(23)
	ticks := 0
	if timer {
		w.delay = 1
		nops = 6 + rng.Intn(8)
		ticks = 1 + rng.Intn(2)
	}
	cycles := 0
	pend := 0
	write := func() {
		k := core.Pick(rng, alpha)
		if rng.Intn(100) < 72 {
			v := core.Pick(rng, valPool)
			if rng.Intn(30) == 0 {
				v = longCrashValue
			}
			w.ops = append(w.ops, wop{code: opPut, key: k, val: v})
		} else {
			w.ops = append(w.ops, wop{code: opRemove, key: k})
		}
		pend++
		if pend >= w.max {
			pend = 0
		}
	}
	for len(w.ops) < nops {
		r := rng.Intn(100)
		switch {
		case ticks > 0 && r < 12:
			// a timer flush, mostly with something pending
			if pend == 0 && rng.Intn(4) != 0 && w.max > 1 {
				write()
			}
			w.ops = append(w.ops, wop{code: opTick})
			ticks--
			pend = 0
		case r < 84:
			write()
		case r < 88:
			w.ops = append(w.ops, wop{code: core.Pick(rng, []int{opGet, opHas}), key: core.Pick(rng, alpha)})
		case r < 94 && cycles < 2 && !timer:
			w.ops = append(w.ops, wop{code: opCycle})
			cycles++
			pend = 0
		default:
			// a burst that certainly crosses a flush boundary
			for n := 0; n < w.max && len(w.ops) < nops; n++ {
				write()
			}
		}
	}
	for ; ticks > 0; ticks-- {
		if w.max > 1 && pend == 0 {
			write()
		}
		w.ops = append(w.ops, wop{code: opTick})
		pend = 0
	}
	return w
}

var genCount int64

func (comp) Gen(prop string, rng *rand.Rand, tier string) *core.History {
	idx := atomic.AddInt64(&genCount, 1)
	return genWorkload(rng, idx%10 == 3).history()
}

// Exhaustive: every sequence of a fixed length over {Put a 01, Put b 02, Put a 03, Remove a, Close+Reopen},
// MaxBatchSize in {1,2,3}, both persisters.
func (comp) Exhaustive(prop string, tier string, yield func(*core.History)) {
	ka, kb := []byte("a"), []byte("b")
	alphabet := []wop{
		{code: opPut, key: ka, val: []byte{1}}, {code: opPut, key: kb, val: []byte{2}}, {code: opPut, key: ka, val: []byte{3}},
		{code: opRemove, key: ka}, {code: opCycle},
	}
	length := 3
	if tier == "thorough" {
		length = 4
	}
	for kind := 0; kind < 2; kind++ {
		for _, max := range []int{1, 2, 3} {
			idx := make([]int, length)
			for {
				w := &workload{kind: kind, max: max, delay: noTimerDelay}
				for _, i := range idx {
					w.ops = append(w.ops, alphabet[i])
				}
				yield(w.history())
				p := length - 1
				for p >= 0 {
					idx[p]++
					if idx[p] < len(alphabet) {
						break
					}
					idx[p] = 0
					p--
				}
				if p < 0 {
					break
				}
			}
		}
	}
}

// ---------------------------------------------------------------- running a workload over the recording storage

func openPersister(kind int, path string, delay, max int) (types.Persister, error) {
	if kind == 0 {
		return leveldb.NewDB(path, delay, max, 10)
	}
	return leveldb.NewSerialDB(path, delay, max, 10)
}

type recording struct {
	w        *workload
	events   []event
	boundary []int // boundary[j+1] = number of events when op j had returned; boundary[0]: the first open had returned
	ackAt    []time.Time
	opErr    []error
	hazard   bool
}

func record(w *workload, dir string) (*recording, error) {
	// the hook is process-global; it is (re)installed here rather than in init() so that another component
	// using the same hook in another run of the binary is not disturbed. Unregistered paths fall through.
	leveldb.VerifSetOpenHook(openHook)
	rs := newRecStorage()
	path := dir + "/live"
	registry.Store(path, rs)
	defer registry.Delete(path)
	defer os.RemoveAll(path)

	rec := &recording{w: w}
	t0a := time.Now()
	p, err := openPersister(w.kind, path, w.delay, w.max)
	t0b := time.Now()
	if err != nil {
		return nil, fmt.Errorf("cannot open the persister over the recording storage: %w", err)
	}
	fires := 0
	lower := func(k int) time.Time { return t0a.Add(time.Duration(k)*time.Second - 30*time.Millisecond) }
	upper := func(k int) time.Time {
		return t0b.Add(time.Duration(k)*time.Second + 300*time.Millisecond + time.Duration(k)*100*time.Millisecond)
	}
	hazardCheck := func() {
		if w.delay == 1 && !time.Now().Before(lower(fires+1)) {
			rec.hazard = true
		}
	}
	rec.boundary = append(rec.boundary, rs.numEvents())
	probe := []byte("zz-not-a-key-of-any-workload")
	for i, op := range w.ops {
		rs.setOp(i)
		if op.code != opTick {
			hazardCheck()
		}
		var err error
		switch op.code {
		case opPut:
			err = p.Put(op.key, op.val)
		case opRemove:
			err = p.Remove(op.key)
		case opGet:
			_, _ = p.Get(op.key)
		case opHas:
			_ = p.Has(op.key)
		case opTick:
			if w.delay == 1 {
				time.Sleep(time.Until(upper(fires + 1)))
				fires++
				// Has takes the read lock of the batch: it returns once a flush in progress has reset the batch
				_ = p.Has(probe)
			}
		case opCycle:
			err = p.Close()
			if err == nil {
				t0a = time.Now()
				p, err = openPersister(w.kind, path, w.delay, w.max)
				t0b = time.Now()
				fires = 0
				if err != nil {
					return nil, fmt.Errorf("cannot reopen the persister over the recording storage: %w", err)
				}
			}
		}
		if op.code != opTick {
			hazardCheck()
		}
		rec.opErr = append(rec.opErr, err)
		rec.ackAt = append(rec.ackAt, time.Now())
		rec.boundary = append(rec.boundary, rs.numEvents())
	}
	rs.setOp(len(w.ops))
	n := rs.numEvents()
	_ = p.Close()
	rs.mu.Lock()
	rec.events = append([]event(nil), rs.events[:n]...)
	rs.mu.Unlock()
	return rec, nil
}

// recordRetry repeats a timer workload whose operations overlapped a possible timer firing.
func recordRetry(w *workload, dir string) (*recording, int, error) {
	attempts := 1
	if w.delay == 1 {
		attempts = 4
	}
	var rec *recording
	var err error
	for a := 0; a < attempts; a++ {
		rec, err = record(w, fmt.Sprintf("%s/a%d", dir, a))
		if err != nil || !rec.hazard {
			return rec, a, err
		}
	}
	return rec, attempts, err
}

// ---------------------------------------------------------------- the property text as bookkeeping

type kv = map[string][]byte

func cloneMap(m kv) kv {
	c := kv{}
	for k, v := range m {
		c[k] = v
	}
	return c
}

func canon(v []byte) []byte {
	if v == nil {
		return []byte{}
	}
	return v
}

func sameMap(a, b kv) bool {
	if len(a) != len(b) {
		return false
	}
	for k, v := range a {
		w, ok := b[k]
		if !ok || !bytes.Equal(v, w) {
			return false
		}
	}
	return true
}

func showMap(m kv) string {
	ks := make([]string, 0, len(m))
	for k := range m {
		ks = append(ks, k)
	}
	sort.Strings(ks)
	p := make([]string, len(ks))
	for i, k := range ks {
		p[i] = fmt.Sprintf("%x=%x", k, m[k])
	}
	return "{" + strings.Join(p, " ") + "}"
}

func mapTok(m kv) string {
	if m == nil {
		return "-"
	}
	ks := make([]string, 0, len(m))
	for k := range m {
		ks = append(ks, k)
	}
	sort.Strings(ks)
	t := make([]string, 0, 2*len(ks))
	for _, k := range ks {
		t = append(t, core.B([]byte(k)), core.B(m[k]))
	}
	return core.L(t...)
}

// flush boundaries of a workload by the property text: a flush when MaxBatchSize acknowledged writes have
// accumulated since the last one, when the timer fires (Tick), and at Close.
type book struct {
	snaps     []kv  // snaps[j] = the map after exactly j flushes
	completed []int // completed[j+1] = flushes completed before op j starts (index 0: the first open)
	started   []int // started[j+1]   = flushes started by the time op j returns
	flushes   []bool
	bySize    []bool
	batchKeys []int // number of distinct keys in the batch op j flushes
	pendAt    []int // index of the oldest unflushed write when op j starts (-1: none)
}

func bookkeeping(w *workload) *book {
	b := &book{snaps: []kv{{}}, completed: []int{0}, started: []int{0}}
	cur := kv{}
	pend := 0
	oldest := -1
	keys := map[string]bool{}
	for i, o := range w.ops {
		b.completed = append(b.completed, len(b.snaps)-1)
		b.pendAt = append(b.pendAt, oldest)
		flush, size := false, false
		switch o.code {
		case opPut:
			cur[string(o.key)] = canon(o.val)
			keys[string(o.key)] = true
			if oldest < 0 {
				oldest = i
			}
			pend++
			flush = pend >= w.max
			size = flush
		case opRemove:
			delete(cur, string(o.key))
			keys[string(o.key)] = true
			if oldest < 0 {
				oldest = i
			}
			pend++
			flush = pend >= w.max
			size = flush
		case opTick, opCycle:
			flush = true
		}
		b.batchKeys = append(b.batchKeys, len(keys))
		if flush {
			b.snaps = append(b.snaps, cloneMap(cur))
			pend = 0
			oldest = -1
			keys = map[string]bool{}
		}
		b.flushes = append(b.flushes, flush)
		b.bySize = append(b.bySize, size)
		b.started = append(b.started, len(b.snaps)-1)
	}
	return b
}

// ---------------------------------------------------------------- reading crash images

type readResult struct {
	m   kv
	err error
}

func readImage(img *image, dir string, kind int) readResult {
	defer os.RemoveAll(dir)
	if err := img.materialise(dir); err != nil {
		return readResult{err: err}
	}
	p, err := openPersister(kind, dir, noTimerDelay, 10)
	if err != nil {
		return readResult{err: fmt.Errorf("reopening the crash image failed: %w", err)}
	}
	defer p.Close()
	m := kv{}
	dup := false
	p.RangeKeys(func(k, v []byte) bool {
		if _, ok := m[string(k)]; ok {
			dup = true
		}
		m[string(k)] = append([]byte{}, v...)
		return true
	})
	if dup {
		return readResult{err: errors.New("RangeKeys visited a key twice")}
	}
	for k, v := range m {
		g, err := p.Get([]byte(k))
		if err != nil || !bytes.Equal(canon(g), v) {
			return readResult{err: fmt.Errorf("Get(%x) = %x,%v disagrees with RangeKeys value %x", k, g, err, v)}
		}
	}
	return readResult{m: m}
}

// ---------------------------------------------------------------- evaluation of every crash point

type obsPoint struct {
	nev      int // number of events that happened before the crash
	op       int // operation in progress or just returned (-1: the first open)
	boundary bool
	res      [3]*readResult // tail none / (first) torn / all (nil: not evaluated)
	keep     int            // torn: number of unsynced bytes kept (first torn image)
	more     []tornResult   // further torn images of the same point (thorough tier)
	unsynced int
}

type tornResult struct {
	keep int
	res  *readResult
	desc string
}

type evalStats struct {
	counts      map[string]int
	evaluations int
	distinct    int
	fails       []core.Fail
	replays     []string
	samples     []string
}

type evaluation struct {
	rec    *recording
	bk     *book
	points []*obsPoint
	byOp   map[int][]*obsPoint // op -> its crash points in order (inside points, then the boundary)
	st     *evalStats
}

func isJournal(e event) bool { return e.fd.Type == storage.TypeJournal }

func evaluate(rec *recording, scratch string, rng *rand.Rand, tornPerPoint int) *evaluation {
	w := rec.w
	ev := &evaluation{rec: rec, bk: bookkeeping(w), byOp: map[int][]*obsPoint{}, st: &evalStats{counts: map[string]int{}}}
	st := ev.st
	cache := map[[32]byte]*readResult{}
	disk := newDiskState()
	applied := 0
	advance := func(n int) {
		for applied < n {
			disk.apply(applied, rec.events[applied])
			applied++
		}
	}
	imgNo := 0
	read := func(tail, keep int) (*readResult, string) {
		img := disk.image(tail, keep)
		d := img.digest()
		st.evaluations++
		if r, ok := cache[d]; ok {
			return r, img.describe()
		}
		imgNo++
		r := readImage(img, fmt.Sprintf("%s/img%d", scratch, imgNo), w.kind)
		cache[d] = &r
		st.distinct++
		return &r, img.describe()
	}
	hit := func(s string) { st.counts[s]++ }

	for j := -1; j < len(w.ops); j++ {
		lo := 0
		if j >= 0 {
			lo = rec.boundary[j]
		}
		hi := rec.boundary[j+1]
		first := lo + 1
		if j == -1 {
			first = 0 // the empty directory is a crash point of the first open
		}
		var nevs []int
		for n := first; n < hi; n++ {
			nevs = append(nevs, n)
		}
		nevs = append(nevs, hi)
		journalWritten := false
		for idx, n := range nevs {
			advance(n)
			pt := &obsPoint{nev: n, op: j, boundary: idx == len(nevs)-1, unsynced: disk.unsyncedBytes()}
			if n > lo && n > 0 && rec.events[n-1].kind == evWrite && isJournal(rec.events[n-1]) {
				journalWritten = true
			}
			cLo, cHi := ev.bk.completed[j+1], ev.bk.started[j+1]
			if pt.boundary {
				cLo = cHi
			}
			var descr [3]string
			for tail := 0; tail < 3; tail++ {
				keep := 0
				if tail == tailTorn {
					if pt.unsynced < 2 {
						hit("torn-skipped(unsynced-tail<2B)")
						continue
					}
					keep = 1 + rng.Intn(pt.unsynced-1)
					pt.keep = keep
				}
				pt.res[tail], descr[tail] = read(tail, keep)
				hit("tail-" + tailNames[tail])
				if tail == tailTorn {
					for x := 1; x < tornPerPoint && pt.unsynced > 2; x++ {
						k2 := 1 + rng.Intn(pt.unsynced-1)
						r2, d2 := read(tailTorn, k2)
						pt.more = append(pt.more, tornResult{keep: k2, res: r2, desc: d2})
						hit("tail-torn")
					}
				}
				if tail == tailNone && pt.unsynced > 0 {
					hit("all-unsynced-lost(with-unsynced-data-present)")
				}
			}
			// situations
			switch {
			case j == -1:
				hit("crash-during-first-open")
			case pt.boundary:
				hit("crash-at-operation-boundary")
			case w.ops[j].code == opCycle:
				hit("crash-inside-close-or-reopen")
			case journalWritten:
				hit("crash-inside-flush")
				if ev.bk.batchKeys[j] >= 2 {
					hit("crash-inside-flush-of-batch-with>=2-keys")
				}
				if w.ops[j].code == opTick {
					hit("crash-inside-timer-flush")
				}
			default:
				hit("crash-inside-operation")
			}
			if !pt.boundary && pt.res[tailTorn] != nil && pt.res[tailAll] != nil && pt.res[tailTorn].err == nil && pt.res[tailAll].err == nil &&
				!sameMap(pt.res[tailTorn].m, pt.res[tailAll].m) {
				hit("torn-record-dropped(torn!=all)")
			}
			// monitor: the recovered map is the map after exactly i flushes, completed <= i <= started
			type judged struct {
				tail, keep int
				r          *readResult
				desc       string
			}
			var js []judged
			for tail := 0; tail < 3; tail++ {
				if pt.res[tail] != nil {
					js = append(js, judged{tail, pt.keep, pt.res[tail], descr[tail]})
				}
			}
			for _, t := range pt.more {
				js = append(js, judged{tailTorn, t.keep, t.res, t.desc})
			}
			for _, jd := range js {
				r := jd.r
				ok := false
				if r.err == nil {
					for i := cLo; i <= cHi; i++ {
						if sameMap(r.m, ev.bk.snaps[i]) {
							ok = true
							if cLo != cHi {
								if i == cLo {
									hit("in-flight-flush-recovered-old-boundary")
								} else {
									hit("in-flight-flush-recovered-new-boundary")
								}
							}
						}
					}
				}
				if !ok {
					ev.fail(pt, jd.tail, jd.keep, r, cLo, cHi, jd.desc)
				}
			}
			ev.points = append(ev.points, pt)
			ev.byOp[j] = append(ev.byOp[j], pt)
		}
		if j >= 0 {
			switch {
			case w.ops[j].code == opTick:
				hit("timer-flush-op")
			case w.ops[j].code == opCycle:
				hit("close-reopen-op")
			case ev.bk.bySize[j]:
				hit("size-flush-op")
			}
		}
	}
	ev.timerBound()
	st.counts["workloads"]++
	st.counts["workloads-"+w.kindName()]++
	st.counts[fmt.Sprintf("workloads-MaxBatchSize-%d", w.max)]++
	if w.delay == 1 {
		st.counts["workloads-with-timer"]++
	}
	st.counts["operations"] += len(w.ops)
	st.counts["storage-events"] += len(rec.events)
	st.counts["crash-points"] += len(ev.points)
	return ev
}

func (ev *evaluation) eventDescr(pt *obsPoint) string {
	if pt.nev == 0 {
		return "before the first storage event"
	}
	return fmt.Sprintf("after storage event #%d (%s)", pt.nev-1, ev.rec.events[pt.nev-1])
}

func (ev *evaluation) fail(pt *obsPoint, tail, keep int, r *readResult, cLo, cHi int, files string) {
	w := ev.rec.w
	where := "during the first open"
	if pt.op >= 0 {
		if pt.boundary {
			where = fmt.Sprintf("between operation #%d (%s) and the next", pt.op, w.ops[pt.op])
		} else {
			where = fmt.Sprintf("inside operation #%d (%s)", pt.op, w.ops[pt.op])
		}
	}
	var allowed []string
	for i := cLo; i <= cHi; i++ {
		allowed = append(allowed, fmt.Sprintf("after %d flushes %s", i, showMap(ev.bk.snaps[i])))
	}
	var got, diag string
	if r.err != nil {
		got = "ERROR " + r.err.Error()
		diag = "the crash image cannot be reopened / read"
	} else {
		got = showMap(r.m)
		diag = "the recovered map is not the state at any flush boundary (a batch applied partially or out of order)"
		for i, s := range ev.bk.snaps {
			if sameMap(r.m, s) {
				if i < cLo {
					diag = fmt.Sprintf("a completed flush was lost: the recovered map is the state after %d flushes but %d flushes had completed", i, cLo)
				} else {
					diag = fmt.Sprintf("the recovered map is the state after %d flushes but only %d had been started", i, cHi)
				}
				break
			}
		}
	}
	tailD := tailNames[tail]
	if tail == tailTorn {
		tailD = fmt.Sprintf("torn (first %d of %d unsynced bytes survive)", keep, pt.unsynced)
	}
	msg := fmt.Sprintf("crash %s, %s, unsynced tail: %s: %s; recovered %s; allowed: %s", where, ev.eventDescr(pt), tailD, diag, got, strings.Join(allowed, " | "))
	step := pt.op
	if step < 0 {
		step = 0
	}
	ev.st.fails = append(ev.st.fails, core.Fail{Property: "C10", Step: step, Msg: msg})
	ev.st.replays = append(ev.st.replays, fmt.Sprintf("workload: %s || crash point: %d storage events done, %s || tail choice: %s || image files: %s || expected one of: %s || observed: %s",
		w, pt.nev, ev.eventDescr(pt), tailD, files, strings.Join(allowed, " | "), got))
}

// the real-time half of the exposure bound: a timer flush reaches the journal (fsync) at most BatchDelaySeconds
// (+ 1 s scheduling slack) after the oldest write it contains was acknowledged
func (ev *evaluation) timerBound() {
	w := ev.rec.w
	if w.delay != 1 || ev.rec.hazard {
		return
	}
	for j, o := range w.ops {
		if o.code != opTick || ev.bk.pendAt[j] < 0 {
			continue
		}
		var syncAt time.Time
		found := false
		for n := ev.rec.boundary[j]; n < ev.rec.boundary[j+1]; n++ {
			e := ev.rec.events[n]
			if e.kind == evSync && isJournal(e) {
				syncAt, found = e.at, true
			}
		}
		ev.st.counts["timer-flush-with-pending-writes"]++
		if !found {
			ev.st.fails = append(ev.st.fails, core.Fail{Property: "C10", Step: j, Msg: fmt.Sprintf("operation #%d (Tick): the timer did not write and fsync the pending batch within BatchDelaySeconds=1 (+0.4 s) of the expected firing", j)})
			ev.st.replays = append(ev.st.replays, "workload: "+w.String()+" || no journal fsync during the Tick")
			continue
		}
		d := syncAt.Sub(ev.rec.ackAt[ev.bk.pendAt[j]])
		if d > 2*time.Second {
			ev.st.fails = append(ev.st.fails, core.Fail{Property: "C10", Step: j, Msg: fmt.Sprintf("operation #%d (Tick): the oldest pending write was fsync'ed %v after its acknowledgement; BatchDelaySeconds=1", j, d)})
			ev.st.replays = append(ev.st.replays, "workload: "+w.String()+" || late timer flush")
		} else {
			ev.st.counts["timer-flush-within-BatchDelaySeconds+1s"]++
		}
	}
}

// ---------------------------------------------------------------- differential run

// counters of the evaluation that describe a situation a history went through (the rest are totals)
func isSituation(s string) bool {
	for _, p := range []string{"workloads", "operations", "storage-events", "crash-points", "tail-", "torn-skipped"} {
		if strings.HasPrefix(s, p) {
			return false
		}
	}
	return true
}

func dedupConsecutive(ms []kv) []kv {
	var out []kv
	for i, m := range ms {
		if i+1 < len(ms) && ms[i+1] != nil && m != nil && sameMap(m, ms[i+1]) {
			continue
		}
		out = append(out, m)
	}
	return out
}

func resMap(r *readResult) kv {
	if r == nil || r.err != nil {
		return nil
	}
	return r.m
}

func (comp) Run(h *core.History, scratch string) *core.Result {
	res := &core.Result{}
	w := workloadOf(h)
	if err := os.MkdirAll(scratch, 0o700); err != nil {
		panic(err)
	}
	defer os.RemoveAll(scratch)
	rec, retries, err := recordRetry(w, scratch)
	if err != nil {
		panic(err)
	}
	if rec.hazard {
		res.Hit("timer-hazard-unresolved")
	} else if retries > 0 {
		res.Hit("timer-hazard-retried")
	}
	seed := int64(len(h.Ops))*7919 + int64(w.max)*31 + int64(w.kind)
	ev := evaluate(rec, scratch, rand.New(rand.NewSource(seed)), 1)
	for s := range ev.st.counts {
		if isSituation(s) {
			res.Hit(s)
		}
	}
	res.Fails = append(res.Fails, ev.st.fails...)

	prevBoundary := ev.byOp[-1][len(ev.byOp[-1])-1]
	for j := range w.ops {
		pts := ev.byOp[j]
		b := pts[len(pts)-1]
		if rec.opErr[j] != nil {
			res.Failf("C10", j, "operation #%d (%s) on an open persister failed: %v", j, w.ops[j], rec.opErr[j])
		}
		var seqNone, seqAll, torn []kv
		seqNone = append(seqNone, resMap(prevBoundary.res[tailNone]))
		seqAll = append(seqAll, resMap(prevBoundary.res[tailAll]))
		for _, p := range pts {
			seqNone = append(seqNone, resMap(p.res[tailNone]))
			seqAll = append(seqAll, resMap(p.res[tailAll]))
			var tr []*readResult
			if p.res[tailTorn] != nil {
				tr = append(tr, p.res[tailTorn])
			}
			for _, t := range p.more {
				tr = append(tr, t.res)
			}
			for _, r := range tr {
				m := resMap(r)
				dup := false
				for _, t := range torn {
					if t != nil && m != nil && sameMap(t, m) {
						dup = true
					}
				}
				if !dup {
					torn = append(torn, m)
				}
			}
		}
		toks := func(ms []kv) string {
			t := make([]string, len(ms))
			for i, m := range ms {
				t[i] = mapTok(m)
			}
			return core.L(t...)
		}
		// journal records written / synced by this operation. A record longer than a journal block (32 KiB) reaches the file in several
		// Write calls: consecutive journal writes not separated by a sync are one record (every one of them is still a crash point above)
		jw, js := 0, 0
		inRecord := false
		for n := rec.boundary[j]; n < rec.boundary[j+1]; n++ {
			e := rec.events[n]
			if isJournal(e) && e.kind == evWrite {
				if !inRecord {
					jw++
				}
				inRecord = true
			}
			if isJournal(e) && e.kind == evSync {
				js++
				inRecord = false
			}
		}
		res.AddObs(core.Lbl(1, core.N(0)), core.Lbl(3, mapTok(resMap(b.res[tailNone]))), core.Lbl(4, mapTok(resMap(b.res[tailAll]))),
			core.Lbl(5, toks(dedupConsecutive(seqNone))), core.Lbl(6, toks(dedupConsecutive(seqAll))),
			core.Lbl(7, core.N(uint64(jw))), core.Lbl(8, core.N(uint64(js))))
		if len(torn) > 0 {
			res.Insert(j, core.NewOp(opJudge, "maps recovered from torn-tail images of the previous op", toks(torn)), core.Lbl(1, core.N(1)))
		}
		prevBoundary = b
	}
	return res
}

// ---------------------------------------------------------------- the sweep (Extra)

func (comp) Extra(prop string, tier string, seed int64, scratch string) *core.ExtraResult {
	out := &core.ExtraResult{Counts: map[string]int{}}
	n, tornPerPoint := 40, 1
	if tier == "thorough" {
		n, tornPerPoint = 500, 4
	}
	out.Rule = fmt.Sprintf("%d seeded workloads (persister DB / SerialDB, MaxBatchSize in {1,2,3,5}, 8-30 operations Put/Remove (+ a few Get/Has, "+
		"up to 2 Close+reopen) over 3-5 keys and values {nil, empty, 1 byte, longer}; 1 workload in 10 runs with BatchDelaySeconds=1, 6-13 operations and 1-2 "+
		"timer flushes awaited with real sleeps; plus 2 fixed timer workloads with idle timer periods before and between the writes) over a recording storage.Storage; crash points: EVERY recorded storage event (Create/Write/Sync/Remove/Rename/SetMeta, "+
		"first open and reopen included) and every operation boundary; per point crash images for the unsynced tail: none / torn after a seeded random number of bytes (%d offsets per point) / all, "+
		"materialised as plain files, reopened with the unmodified constructor and read with RangeKeys + Get; the recovered map must be the harness-side state after exactly "+
		"j flushes, completed <= j <= started (boundary: j = completed = started). evaluations = images judged, distinct = distinct image contents actually reopened", n, tornPerPoint)
	if err := os.MkdirAll(scratch, 0o700); err != nil {
		panic(err)
	}
	defer os.RemoveAll(scratch)
	// a flush that FAILS once (the journal fsync reports an error) while the handle stays in use: nothing acknowledged may be lost
	// for the reads that follow (C08, C11: also their extra)
	for kind := 0; kind < 2; kind++ {
		for _, f := range flushFailsOnce(kind, fmt.Sprintf("%s/flushfail%d", scratch, kind), prop) {
			out.Fails = append(out.Fails, f)
			out.Replays = append(out.Replays, "harness extra -component crash -prop "+prop+"   # a size-triggered flush whose journal fsync fails once")
		}
		out.Counts["flush-fails-once-runs"]++
		out.Evaluations++
	}
	if prop == "C08" || prop == "C11" {
		out.Rule = "a size-triggered flush whose journal fsync fails once (recording storage, DB and SerialDB, MaxBatchSize 3): every acknowledged Put / Remove is still what Get / Has answer afterwards"
		return out
	}
	rng := rand.New(rand.NewSource(seed))
	type job struct {
		i    int
		w    *workload
		sub  int64
		rec  *recording
		err  error
		eval *evaluation
	}
	jobs := make([]*job, n)
	for i := range jobs {
		sub := rng.Int63()
		jobs[i] = &job{i: i, sub: sub, w: genWorkload(rand.New(rand.NewSource(sub)), i%10 == 3)}
	}
	// fixed timer workloads: the persister sits idle across a whole timer period (a tick that finds nothing pending), then
	// acknowledges writes below MaxBatchSize -- the NEXT tick must still flush them (and so must the one after a second quiet period)
	for kind := 0; kind < 2; kind++ {
		ka, kb := keyPool[0], keyPool[1]
		w := &workload{kind: kind, max: 5, delay: 1, ops: []wop{
			{code: opTick}, {code: opPut, key: ka, val: []byte{1}}, {code: opTick}, {code: opTick},
			{code: opPut, key: kb, val: []byte{2}}, {code: opRemove, key: ka}, {code: opTick}}}
		jobs = append(jobs, &job{i: len(jobs), sub: int64(7000 + kind), w: w})
	}
	// the exposure bound under a TRICKLE of writes (spaced closer than BatchDelaySeconds, far fewer than MaxBatchSize): runs beside the workloads
	trickleDone := make(chan []core.Fail, 2)
	for kind := 0; kind < 2; kind++ {
		go func(kind int) { trickleDone <- trickleExposure(kind, fmt.Sprintf("%s/trickle%d", scratch, kind)) }(kind)
	}
	defer func() {
		for kind := 0; kind < 2; kind++ {
			for _, f := range <-trickleDone {
				out.Fails = append(out.Fails, f)
				out.Replays = append(out.Replays, "harness extra -component crash -prop C10   # trickle exposure: 9 Puts 300 ms apart, BatchDelaySeconds=1, MaxBatchSize=1000")
			}
			out.Counts["trickle-exposure-runs"]++
			out.Evaluations += 9
		}
	}()
	workers := runtime.NumCPU()
	runAll := func(f func(*job)) {
		var wg sync.WaitGroup
		ch := make(chan *job)
		for k := 0; k < workers; k++ {
			wg.Add(1)
			go func() {
				defer wg.Done()
				for j := range ch {
					f(j)
				}
			}()
		}
		for _, j := range jobs {
			ch <- j
		}
		close(ch)
		wg.Wait()
	}
	// phase 1: run the workloads (fast; the timer workloads sleep) -- nothing else loads the machine
	runAll(func(j *job) {
		defer func() {
			if r := recover(); r != nil {
				j.err = fmt.Errorf("panic: %v", r)
			}
		}()
		var retries int
		j.rec, retries, j.err = recordRetry(j.w, fmt.Sprintf("%s/w%d", scratch, j.i))
		_ = retries
	})
	// phase 2: crash images
	runAll(func(j *job) {
		if j.err != nil || j.rec == nil {
			return
		}
		defer func() {
			if r := recover(); r != nil {
				j.err = fmt.Errorf("panic: %v", r)
			}
		}()
		j.eval = evaluate(j.rec, fmt.Sprintf("%s/e%d", scratch, j.i), rand.New(rand.NewSource(j.sub^0x5eed)), tornPerPoint)
	})
	for _, j := range jobs {
		if j.err != nil {
			out.Fails = append(out.Fails, core.Fail{Property: "C10", Step: -1, Msg: fmt.Sprintf("workload %d could not be run: %v", j.i, j.err)})
			out.Replays = append(out.Replays, fmt.Sprintf("seed=%d workload #%d: %s", seed, j.i, j.w))
			continue
		}
		st := j.eval.st
		out.Evaluations += st.evaluations
		out.Distinct += st.distinct
		for k, v := range st.counts {
			out.Counts[k] += v
		}
		if j.rec.hazard {
			out.Counts["timer-hazard-unresolved"]++
		}
		for k, f := range st.fails {
			if len(out.Fails) >= 20 {
				out.Counts["failures-not-listed"]++
				continue
			}
			f.Msg = fmt.Sprintf("workload #%d (%s MaxBatchSize=%d): %s", j.i, j.w.kindName(), j.w.max, f.Msg)
			out.Fails = append(out.Fails, f)
			out.Replays = append(out.Replays, fmt.Sprintf("seed=%d workload #%d || %s", seed, j.i, st.replays[k]))
		}
		for e, oe := range j.rec.opErr {
			if oe != nil && len(out.Fails) < 20 {
				out.Fails = append(out.Fails, core.Fail{Property: "C10", Step: e, Msg: fmt.Sprintf("workload #%d: operation #%d (%s) on an open persister failed: %v", j.i, e, j.w.ops[e], oe)})
				out.Replays = append(out.Replays, fmt.Sprintf("seed=%d workload #%d: %s", seed, j.i, j.w))
			}
		}
		if len(out.Samples) < 3 {
			// a crash point inside a flush with both outcomes, as a sample
			for _, p := range j.eval.points {
				if !p.boundary && p.op >= 0 && p.res[tailNone] != nil && p.res[tailAll] != nil && p.res[tailNone].err == nil && p.res[tailAll].err == nil &&
					!sameMap(p.res[tailNone].m, p.res[tailAll].m) {
					out.Samples = append(out.Samples, fmt.Sprintf("workload #%d %s MaxBatchSize=%d, crash inside op #%d (%s) %s: tail none -> %s, tail all -> %s",
						j.i, j.w.kindName(), j.w.max, p.op, j.w.ops[p.op], j.eval.eventDescr(p), showMap(p.res[tailNone].m), showMap(p.res[tailAll].m)))
					break
				}
			}
		}
	}
	return out
}

// trickleExposure: one client writes 9 keys 300 ms apart through a persister with BatchDelaySeconds=1 and MaxBatchSize=1000 (the size
// trigger never fires), then stays quiet for 1.6 s. Every acknowledged write must reach a journal fsync at most BatchDelaySeconds
// (+ 1 s of scheduling slack) after its acknowledgement: the timer period runs from the previous firing, not from the last write.
func trickleExposure(kind int, dir string) (fails []core.Fail) {
	defer func() {
		if r := recover(); r != nil {
			fails = append(fails, core.Fail{Property: "C10", Step: -1, Msg: fmt.Sprintf("trickle exposure run panicked: %v", r)})
		}
	}()
	leveldb.VerifSetOpenHook(openHook)
	rs := newRecStorage()
	path := dir + "/live"
	registry.Store(path, rs)
	defer registry.Delete(path)
	defer os.RemoveAll(dir)
	p, err := openPersister(kind, path, 1, 1000)
	if err != nil {
		return []core.Fail{{Property: "C10", Step: -1, Msg: "trickle exposure: cannot open the persister over the recording storage: " + err.Error()}}
	}
	const n = 9
	acks := make([]time.Time, 0, n)
	for i := 0; i < n; i++ {
		rs.setOp(i)
		if err := p.Put([]byte(fmt.Sprintf("trickle-%d", i)), []byte{byte(i)}); err != nil {
			return []core.Fail{{Property: "C10", Step: i, Msg: "trickle exposure: Put failed: " + err.Error()}}
		}
		acks = append(acks, time.Now())
		time.Sleep(300 * time.Millisecond)
	}
	time.Sleep(1600 * time.Millisecond)
	end := time.Now()
	rs.mu.Lock()
	events := append([]event(nil), rs.events...)
	rs.mu.Unlock()
	_ = p.Close()
	name := []string{"leveldb.DB", "leveldb.SerialDB"}[kind]
	for i, a := range acks {
		var first time.Time
		found := false
		for _, e := range events {
			if e.kind == evSync && isJournal(e) && e.at.After(a) {
				first, found = e.at, true
				break
			}
		}
		age := end.Sub(a)
		if found {
			age = first.Sub(a)
		}
		if age > 2*time.Second {
			what := fmt.Sprintf("was first followed by a journal fsync %v after its acknowledgement", age.Round(time.Millisecond))
			if !found {
				what = fmt.Sprintf("was followed by no journal fsync at all in the %v until the end of the run", age.Round(time.Millisecond))
			}
			fails = append(fails, core.Fail{Property: "C10", Step: i, Msg: fmt.Sprintf("trickle exposure (%s, BatchDelaySeconds=1, MaxBatchSize=1000, one Put every 300 ms): write #%d %s; a crash in between loses a write older than BatchDelaySeconds", name, i, what)})
			break
		}
	}
	return fails
}

// flushFailsOnce: see Extra. The operation that triggers the failing flush may return the error (then it is not acknowledged and its
// key is left out of the comparison); everything acknowledged before and after must survive.
func flushFailsOnce(kind int, dir string, prop string) (fails []core.Fail) {
	name := []string{"leveldb.DB", "leveldb.SerialDB"}[kind]
	fail := func(format string, a ...interface{}) {
		if len(fails) < 4 {
			fails = append(fails, core.Fail{Property: prop, Step: -1, Msg: "flush failing once (" + name + ", MaxBatchSize 3): " + fmt.Sprintf(format, a...)})
		}
	}
	defer func() {
		if r := recover(); r != nil {
			fail("panic: %v", r)
		}
	}()
	leveldb.VerifSetOpenHook(openHook)
	rs := newRecStorage()
	path := dir + "/live"
	registry.Store(path, rs)
	defer registry.Delete(path)
	defer os.RemoveAll(dir)
	p, err := openPersister(kind, path, noTimerDelay, 3)
	if err != nil {
		fail("open: %v", err)
		return
	}
	ack := map[string][]byte{} // key -> latest acknowledged value; nil = acknowledged Remove
	undecided := map[string]bool{}
	put := func(k, v string) {
		if e := p.Put([]byte(k), []byte(v)); e == nil {
			ack[k] = []byte(v)
			delete(undecided, k)
		} else {
			undecided[k] = true
		}
	}
	remove := func(k string) {
		if e := p.Remove([]byte(k)); e == nil {
			ack[k] = nil
			delete(undecided, k)
		} else {
			undecided[k] = true
		}
	}
	check := func(q types.Persister, when string) {
		for k, want := range ack {
			if undecided[k] {
				continue
			}
			v, gerr := q.Get([]byte(k))
			herr := q.Has([]byte(k))
			switch {
			case want == nil && (gerr == nil || herr == nil):
				fail("%s: key %s answers (%q, %v) / Has %v although its Remove was acknowledged", when, k, v, gerr, herr)
			case want != nil && (gerr != nil || !bytes.Equal(v, want) || herr != nil):
				fail("%s: Get(%s) = (%q, %v), Has = %v; the latest acknowledged Put wrote %q", when, k, v, gerr, herr, want)
			}
		}
	}
	put("a", "1")
	put("b", "1")
	put("c", "1") // third write: flushed
	put("a", "2")
	remove("b")
	check(p, "with two writes pending")
	rs.failSyncOnce.Store(true)
	put("d", "1") // third write of the batch: the flush it triggers fails
	if rs.failSyncOnce.Load() {
		rs.failSyncOnce.Store(false)
		fail("the harness could not make the flush fail (no journal fsync during the third write)")
		return
	}
	check(p, "right after the failed flush")
	put("e", "1")
	put("f", "1")
	put("g", "1")
	remove("c")
	check(p, "after further writes")
	// (what a persister reopened afterwards holds is NOT compared: goleveldb retries the failed record under the same sequence numbers and
	// its journal recovery skips a record whose sequence number goes back -- observed: the key acknowledged right after the failure is
	// missing after a restart; a behaviour of the dependency under an injected fault, noted in DESIGN section 5, outside the properties)
	_ = p.Close()
	return
}
