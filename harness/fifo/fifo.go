// Package fifo drives fifocache.NewShardedCache (C20): generator, small-scope enumeration,
// implementation driver and the monitors of the property text.
package fifo

import (
	"bytes"
	"fmt"
	"math/rand"
	"runtime"
	"sort"
	"strings"
	"sync"
	"time"

	"github.com/multiversx/mx-chain-storage-go/fifocache"
	"verifharness/core"
)

type comp struct{}

func init() { core.Register(comp{}) }

func (comp) Name() string { return "fifo" }

// op codes (see coq/theories/Fifo/FifoComp.v)
const (
	opPut = 1 + iota
	opHasOrAdd
	opGet
	opHas
	opPeek
	opRemove
	opClear
	opRegister
	opUnregister
)

var configs = [][2]int{{2, 1}, {3, 1}, {5, 1}, {4, 2}, {7, 3}, {10, 4}}

// fnv32 as in the dependency; used ONLY to choose keys that spread over the shards and to
// label situations (wrap-around per shard) — never by a monitor.
func fnv32(key []byte) uint32 {
	h := uint32(2166136261)
	for _, b := range key {
		h *= 16777619
		h ^= uint32(b)
	}
	return h
}

func keyPool() [][]byte {
	var p [][]byte
	for c := byte('a'); c <= 'p'; c++ {
		p = append(p, []byte{c})
	}
	p = append(p, []byte("aa"), []byte("ab"), []byte{'a', 0}, []byte{0}, []byte{0xff, 0xff}, []byte("key-long-0001"), []byte("key-long-0002"))
	return p
}

func chooseAlphabet(rng *rand.Rand, n int, shards int) [][]byte {
	pool := keyPool()
	var best [][]byte
	for attempt := 0; attempt < 20; attempt++ {
		perm := rng.Perm(len(pool))
		a := make([][]byte, 0, n)
		for _, i := range perm[:n] {
			a = append(a, pool[i])
		}
		seen := map[uint32]int{}
		for _, k := range a {
			seen[fnv32(k)%uint32(shards)]++
		}
		best = a
		ok := len(seen) == shards
		for _, c := range seen {
			if c < 2 && n >= 2*shards {
				ok = false
			}
		}
		if ok {
			break
		}
	}
	return best
}

func (comp) Gen(prop string, rng *rand.Rand, tier string) *core.History {
	h := &core.History{}
	cfg := core.Pick(rng, configs)
	S, N := cfg[0], cfg[1]
	nkeys := 6 + rng.Intn(7)
	alpha := core.WithLongKeys(rng, chooseAlphabet(rng, nkeys, N), 12)
	hostile := prop == "C20" && core.Chance(rng, 1, 20)
	if hostile {
		alpha[rng.Intn(len(alpha))] = []byte{}
	}
	h.SetConfig(core.N(uint64(S)), core.N(uint64(N)), core.LB(alpha))
	// a history works mostly on a "hot" subset so that overwrites/removes of present keys are common
	hot := alpha[:3+rng.Intn(len(alpha)-2)]
	pickKey := func() []byte {
		if core.Chance(rng, 3, 4) {
			return core.Pick(rng, hot)
		}
		return core.Pick(rng, alpha)
	}
	values := [][]byte{{1}, {2}, {3}, {}, {0xaa, 0xbb}, {0xaa, 0xff}, []byte("ab"), []byte("AB"), core.NilValue, core.LongValue()} // incl. the untyped nil (the cache used as a set)
	ids := [][]byte{[]byte("h1"), []byte("h2"), []byte("h3")}
	tag := uint64(0)
	if core.Chance(rng, 1, 2) {
		tag++
		h.Add(opRegister, "register", core.B(ids[0]), core.N(tag))
	}
	nops := core.LongHistory(rng, 20+rng.Intn(41))
	for i := 0; i < nops; i++ {
		r := rng.Intn(100)
		switch {
		case r < 38:
			h.Add(opPut, "put", core.B(pickKey()), core.B(core.Pick(rng, values)))
		case r < 53:
			h.Add(opHasOrAdd, "hasoradd", core.B(pickKey()), core.B(core.Pick(rng, values)))
		case r < 60:
			h.Add(opGet, "get", core.B(pickKey()))
		case r < 64:
			h.Add(opHas, "has", core.B(pickKey()))
		case r < 68:
			h.Add(opPeek, "peek", core.B(pickKey()))
		case r < 83:
			h.Add(opRemove, "remove", core.B(pickKey()))
		case r < 87:
			h.Add(opClear, "clear")
		case r < 94:
			tag++
			h.Add(opRegister, "register", core.B(core.Pick(rng, ids)), core.N(tag))
		default:
			h.Add(opUnregister, "unregister", core.B(core.Pick(rng, ids)))
		}
	}
	return h
}

// Exhaustive: one shard, S in {2,3}, three keys, every sequence of the maximal length (all prefixes are
// observed step by step, so the shorter sequences are covered too):
//
//	quick:    length 5 over Put/HasOrAdd/Remove (Get/Has/Peek of every key are observed after every
//	          step anyway) and length 4 over Put/HasOrAdd/Remove/Get;
//	thorough: length 6 over Put/HasOrAdd/Remove/Get.
//
// Sequences are enumerated up to renaming of the keys (a key not used before is always the smallest
// unused one). The value written by the i-th op is the byte i, so every overwrite is visible.
func (comp) Exhaustive(prop string, tier string, yield func(*core.History)) {
	if strings.HasSuffix(prop, ":scale") {
		// MONITOR-ONLY scale histories: rings of more than 1024 / 4096 slots filled past their capacity
		for _, N := range []int{1, 3} {
			for _, S := range []int{1100} {
				n := S + 200
				name := func(j int) []byte { return []byte(fmt.Sprintf("k%05d", j)) }
				all := make([][]byte, n)
				for j := range all {
					all[j] = name(j)
				}
				h := &core.History{}
				h.SetConfig(core.N(uint64(S)), core.N(uint64(N)), core.LB(all))
				for j := 0; j < n; j++ {
					h.Add(opPut, "put", core.B(name(j)), core.B([]byte{byte(j >> 8), byte(j)}))
				}
				h.Add(opGet, "get", core.B(name(n-1)))
				yield(h)
			}
		}
		return
	}
	// LARGE-POPULATION histories (beyond the small scope): rings of several hundred slots filled past their capacity, one and three shards
	for _, N := range []int{1, 3} {
		S, n := 300, 360
		if tier == "thorough" {
			S, n = 520, 640
		}
		name := func(j int) []byte { return []byte(fmt.Sprintf("k%04d", j)) }
		h := &core.History{}
		all := make([][]byte, n) // the monitors follow the keys of the alphabet: all of them
		for j := range all {
			all[j] = name(j)
		}
		h.SetConfig(core.N(uint64(S)), core.N(uint64(N)), core.LB(all))
		for j := 0; j < n; j++ {
			h.Add(opPut, "put", core.B(name(j)), core.B([]byte{byte(j >> 8), byte(j)}))
		}
		h.Add(opGet, "get", core.B(name(n-1)))
		h.Add(opGet, "get", core.B(name(0)))
		yield(h)
	}
	type scope struct {
		L     int
		kinds []int
	}
	scopes := []scope{{5, []int{opPut, opHasOrAdd, opRemove}}, {4, []int{opPut, opHasOrAdd, opRemove, opGet}}}
	if tier == "thorough" {
		scopes = []scope{{6, []int{opPut, opHasOrAdd, opRemove}}, {5, []int{opPut, opHasOrAdd, opRemove, opGet}}}
	}
	keys := [][]byte{[]byte("a"), []byte("b"), []byte("c")}
	for _, sc := range scopes {
		for _, S := range []int{2, 3} {
			type step struct{ kind, key int }
			seq := make([]step, 0, sc.L)
			var rec func(used int)
			rec = func(used int) {
				if len(seq) == sc.L {
					h := &core.History{}
					h.SetConfig(core.N(uint64(S)), core.N(1), core.LB(keys))
					for i, st := range seq {
						switch st.kind {
						case opPut, opHasOrAdd:
							h.Add(st.kind, "", core.B(keys[st.key]), core.B([]byte{byte(i + 1)}))
						default:
							h.Add(st.kind, "", core.B(keys[st.key]))
						}
					}
					yield(h)
					return
				}
				for _, kd := range sc.kinds {
					for k := 0; k < len(keys) && k <= used; k++ {
						seq = append(seq, step{kd, k})
						nu := used
						if k == used {
							nu = used + 1
						}
						rec(nu)
						seq = seq[:len(seq)-1]
					}
				}
			}
			rec(0)
		}
	}
}

type recorder struct {
	mu    sync.Mutex
	calls [][]byte
}

func encCall(id []byte, tag uint64, key []byte, val []byte) []byte {
	out := []byte{byte(len(id))}
	out = append(out, id...)
	out = append(out, byte(tag), byte(len(key)>>8), byte(len(key))) // two length bytes: keys of several hundred bytes are generated
	out = append(out, key...)
	out = append(out, val...)
	return out
}

func (r *recorder) handler(id []byte, tag uint64) func(key []byte, value interface{}) {
	return func(key []byte, value interface{}) {
		v, _ := core.FromValue(value)
		e := encCall(id, tag, key, v)
		r.mu.Lock()
		r.calls = append(r.calls, e)
		r.mu.Unlock()
	}
}

func (r *recorder) count() int {
	r.mu.Lock()
	defer r.mu.Unlock()
	return len(r.calls)
}

// drain waits until at least `expected` invocations were recorded (handlers run as goroutines),
// with a timeout, lets stragglers run, then returns and resets what was recorded.
func (r *recorder) drain(expected int) [][]byte {
	deadline := time.Now().Add(2 * time.Second)
	for spins := 0; r.count() < expected; spins++ {
		if spins < 200 {
			runtime.Gosched()
		} else {
			time.Sleep(20 * time.Microsecond)
			if time.Now().After(deadline) {
				break
			}
		}
	}
	runtime.Gosched()
	runtime.Gosched()
	r.mu.Lock()
	out := r.calls
	r.calls = nil
	r.mu.Unlock()
	return out
}

func asBytes(v interface{}, ok bool) []byte {
	if !ok {
		return nil
	}
	b, _ := core.FromValue(v)
	if b == nil {
		b = []byte{}
	}
	return b
}

func (comp) Run(h *core.History, scratch string) *core.Result {
	res := &core.Result{}
	cfg := core.ParseArgs(h.Config)
	S, N := cfg[0].Int(), cfg[1].Int()
	var alpha [][]byte
	inAlpha := map[string]bool{}
	for _, a := range cfg[2].List {
		alpha = append(alpha, a.Bytes())
		inAlpha[string(a.Bytes())] = true
	}
	c, err := fifocache.NewShardedCache(S, N)
	if err != nil {
		for range h.Ops {
			res.AddObs("!err")
		}
		return res
	}
	m := (S + N - 1) / N // ceil(S/N), the figure of the property text
	rec := &recorder{}

	// harness-side bookkeeping for the monitors (never the model)
	prevHas := map[string]bool{}
	prevVal := map[string][]byte{}
	since := map[string]int{}        // insertions (cache-wide) completed after the entry's latest insertion
	var order []string               // one shard: entries believed present, oldest insertion first
	regs := map[string]uint64{}      // registered handlers: id -> tag
	removedOnce := map[string]bool{} // situations only
	shardIns := map[uint32]int{}     // situations only

	for i, op := range h.Ops {
		res.Scribble() // the key buffers handed to the previous call are reused by their caller
		a := op.Parsed()
		var key, val []byte
		if len(a) > 0 {
			key = a[0].Bytes()
		}
		emptyInvolved := prevHas[""]
		fail := func(format string, args ...interface{}) {
			msg := fmt.Sprintf(format, args...)
			if emptyInvolved {
				msg += " [empty key involved: the dependency's empty-slot sentinel collides with it]"
			}
			res.Failf("C20", i, "%s", msg)
		}
		var obs []string
		inserted := false
		retHas, retAdded := false, false
		switch op.Code {
		case opPut:
			val = a[1].Bytes()
			ev := c.Put(res.CallerKey(key), core.ToValue(val), len(val))
			obs = append(obs, core.Lbl(1, core.Bool(ev)))
			inserted = true
			if prevHas[string(key)] {
				res.Hit("overwrite")
				if !bytes.Equal(prevVal[string(key)], val) {
					res.Hit("overwrite-new-value")
				}
			}
		case opHasOrAdd:
			val = a[1].Bytes()
			retHas, retAdded = c.HasOrAdd(res.CallerKey(key), core.ToValue(val), len(val))
			obs = append(obs, core.Lbl(1, core.Bool(retHas)), core.Lbl(2, core.Bool(retAdded)))
			inserted = retAdded
			if !retAdded {
				res.Hit("hasoradd-refused")
			}
		case opGet:
			v, ok := c.Get(key)
			obs = append(obs, core.Lbl(1, core.Bool(ok)), core.Lbl(3, core.OB(asBytes(v, ok))))
			if ok {
				res.Hit("get-hit")
			}
		case opHas:
			obs = append(obs, core.Lbl(1, core.Bool(c.Has(key))))
		case opPeek:
			v, ok := c.Peek(key)
			obs = append(obs, core.Lbl(1, core.Bool(ok)), core.Lbl(3, core.OB(asBytes(v, ok))))
		case opRemove:
			c.Remove(key)
			if prevHas[string(key)] {
				res.Hit("remove-present")
				removedOnce[string(key)] = true
			}
		case opClear:
			c.Clear()
			for _, x := range alpha {
				if prevHas[string(x)] {
					res.Hit("clear-nonempty")
					removedOnce[string(x)] = true
				}
			}
		case opRegister:
			tag := a[1].U64()
			if _, dup := regs[string(key)]; dup {
				res.Hit("reregister-same-id")
			}
			c.RegisterHandler(rec.handler(key, tag), string(key))
			regs[string(key)] = tag
		case opUnregister:
			if _, present := regs[string(key)]; present {
				res.Hit("unregister")
			}
			c.UnRegisterHandler(string(key))
			delete(regs, string(key))
		}
		if (op.Code == opPut || op.Code == opHasOrAdd) && len(key) == 0 {
			emptyInvolved = true
			res.Hit("empty-key")
		}

		// handler invocations of this step
		expectedCalls := 0
		if inserted {
			expectedCalls = len(regs)
		}
		calls := rec.drain(expectedCalls)

		// observation of the state
		ln := c.Len()
		keys := res.OwnKeys("C20", i, "Keys()", c.Keys())
		has := map[string]bool{}
		peek := map[string][]byte{}
		hasToks := make([]string, len(alpha))
		peekToks := make([]string, len(alpha))
		for j, x := range alpha {
			hx := c.Has(x)
			pv, pok := c.Peek(x)
			gv, gok := c.Get(x)
			has[string(x)] = hx
			if pok {
				peek[string(x)] = asBytes(pv, pok)
			}
			hasToks[j] = core.Bool(hx)
			peekToks[j] = core.OB(asBytes(pv, pok))
			// monitor: Get, Has, Peek agree
			if hx != pok || hx != gok || !bytes.Equal(asBytes(pv, pok), asBytes(gv, gok)) {
				if len(x) == 0 {
					emptyInvolved = true
				}
				fail("Has/Peek/Get disagree on key %x: Has=%v Peek=(%x,%v) Get=(%x,%v)", x, hx, asBytes(pv, pok), pok, asBytes(gv, gok), gok)
			}
		}
		if has[""] {
			emptyInvolved = true
			res.Hit("empty-key-entry-alive")
		}
		obs = append(obs, core.Lbl(10, core.N(uint64(ln))), core.Lbl(11, core.SortedLB(keys)))
		if N == 1 {
			obs = append(obs, core.Lbl(12, core.LB(keys)))
		}
		obs = append(obs, core.Lbl(13, core.L(hasToks...)), core.Lbl(14, core.L(peekToks...)),
			core.Lbl(15, core.SortedLB(calls)), core.Lbl(16, core.N(uint64(c.MaxSize()))))
		res.AddObs(obs...)

		// ---- monitors: the property text ----
		// "never holds more than S entries"
		if ln > S {
			fail("Len() = %d exceeds the size S = %d", ln, S)
		}
		// "Get, Has, Peek, Keys and Len agree with each other"
		if ln != len(keys) {
			fail("Len() = %d but Keys() has %d elements", ln, len(keys))
		}
		keySet := map[string]bool{}
		for _, k := range keys {
			if keySet[string(k)] {
				fail("Keys() lists %x twice", k)
			}
			keySet[string(k)] = true
			if !inAlpha[string(k)] && !c.Has(k) {
				fail("Keys() lists %x but Has says absent", k)
			}
		}
		for _, x := range alpha {
			if has[string(x)] != keySet[string(x)] {
				if len(x) == 0 {
					emptyInvolved = true
				}
				fail("Has(%x) = %v but Keys() membership = %v", x, has[string(x)], keySet[string(x)])
			}
		}
		// "always contains the entry just inserted"
		if inserted {
			pv, ok := peek[string(key)]
			if !has[string(key)] || !ok || !bytes.Equal(pv, val) {
				fail("the entry just inserted (%x -> %x) is not present: Has=%v Peek=(%x,%v)", key, val, has[string(key)], pv, ok)
			}
		}
		// "HasOrAdd inserts only when the key is absent"
		if op.Code == opHasOrAdd {
			was := prevHas[string(key)]
			if retHas != was || retAdded == was {
				fail("HasOrAdd(%x) returned (has=%v, added=%v) but the key was present=%v before", key, retHas, retAdded, was)
			}
			if was && !bytes.Equal(peek[string(key)], prevVal[string(key)]) {
				fail("HasOrAdd(%x) on a present key changed its value from %x to %x", key, prevVal[string(key)], peek[string(key)])
			}
		}
		// entries dropped by this step (not removed on request)
		var victims []string
		for _, x := range alpha {
			sx := string(x)
			if !prevHas[sx] || has[sx] {
				continue
			}
			if op.Code == opClear || (op.Code == opRemove && bytes.Equal(key, x)) || (inserted && bytes.Equal(key, x)) {
				continue
			}
			victims = append(victims, sx)
		}
		if len(victims) > 0 {
			res.Hit("eviction")
			if N > 1 {
				res.Hit("multi-shard-eviction")
			}
			if op.Code == opPut && prevHas[string(key)] {
				res.Hit("overwrite-evicts")
			}
		}
		// "never drops an entry before at least ceil(S/N)-2 further insertions have happened"
		for _, v := range victims {
			if since[v] < m-2 {
				if len(v) == 0 {
					emptyInvolved = true
				}
				fail("entry %x was dropped after only %d further insertions (guaranteed: ceil(S/N)-2 = %d)", v, since[v], m-2)
			}
		}
		// "with one shard it evicts strictly in insertion order, an overwrite counting as a fresh insertion"
		if N == 1 {
			o1 := order[:0:0]
			for _, x := range order {
				if inserted && x == string(key) {
					continue
				}
				o1 = append(o1, x)
			}
			vict := map[string]bool{}
			for _, v := range victims {
				vict[v] = true
			}
			n := 0
			for n < len(o1) && vict[o1[n]] {
				n++
			}
			if n != len(victims) {
				older := ""
				if n < len(o1) {
					older = o1[n]
				}
				fail("eviction out of insertion order: dropped %x while the older entry %x stays (insertion order %x)", victims, older, o1)
			}
			order = order[:0]
			for _, x := range o1 {
				if has[x] {
					order = append(order, x)
				}
			}
			if inserted && has[string(key)] {
				order = append(order, string(key))
			}
		}
		// "added-data handlers fire exactly once per insertion"
		var want [][]byte
		if inserted {
			for id, tag := range regs {
				want = append(want, encCall([]byte(id), tag, key, val))
			}
		}
		sort.Slice(want, func(x, y int) bool { return bytes.Compare(want[x], want[y]) < 0 })
		got := append([][]byte(nil), calls...)
		sort.Slice(got, func(x, y int) bool { return bytes.Compare(got[x], got[y]) < 0 })
		same := len(want) == len(got)
		for j := 0; same && j < len(want); j++ {
			same = bytes.Equal(want[j], got[j])
		}
		if !same {
			fail("handler invocations %x differ from one call per registered handler %x (inserted=%v)", got, want, inserted)
		}
		if len(got) > 0 {
			res.Hit("handler-fired")
		}
		if len(got) > 1 {
			res.Hit("two-handlers-fired")
		}

		// ---- bookkeeping for the next step ----
		if inserted {
			if removedOnce[string(key)] {
				res.Hit("remove-then-readd")
			}
			sh := fnv32(key) % uint32(N)
			shardIns[sh]++
			if shardIns[sh] == m {
				res.Hit("ring-wrap-around")
			}
			for _, x := range alpha {
				if has[string(x)] && !bytes.Equal(x, key) {
					since[string(x)]++
				}
			}
			since[string(key)] = 0
		}
		if ln == S || ln == N*(m-1) {
			res.Hit("full")
		}
		for _, x := range alpha {
			prevHas[string(x)] = has[string(x)]
			if has[string(x)] {
				prevVal[string(x)] = peek[string(x)]
			} else {
				delete(prevVal, string(x))
			}
		}
	}
	// stragglers after the last step
	time.Sleep(50 * time.Microsecond)
	if extra := rec.drain(0); len(extra) > 0 {
		res.Failf("C20", len(h.Ops)-1, "handler invocations after the last step: %x", extra)
	}
	return res
}
