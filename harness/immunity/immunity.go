// Package immunity drives immunitycache.ImmunityCache and txcache.CrossTxCache (C12, C13).
//
// Wire format (see coq/theories/Immunity/ImmunityComp.v):
//
//	config kind numChunks maxNumItems maxNumBytes numItemsToPreemptivelyEvict [ universe ]
//	o 1 key payload size  HasOrAdd/AddTx -> 1=has 2=added
//	o 2 key payload size  Put            -> 3=evicted
//	o 3 key               Get            -> 4=payload|- 5=ok
//	o 4 key               Has            -> 6=has
//	o 5 key               Peek           -> 4 5
//	o 6 key               RemoveWithResult/RemoveTxByHash -> 9=removed
//	o 7 [ keys ]          ImmunizeKeys/ImmunizeTxsAgainstEviction -> 10=numNow 11=numFuture (kind 0)
//	o 8                   Clear
//	after every op: 12=Count 13=Len 14=NumBytes 15=CountImmune 16=sorted Keys 17=sorted ForEachItem keys
//	                20=[Get k | k in universe] 21=[Has k | k in universe]
//
// The monitors below are written from the texts of C12 and C13; they use only the
// outputs of the implementation and the arguments of the history (never the Coq model).
package immunity

import (
	"bytes"
	"fmt"
	"math/rand"
	"sort"
	"strings"

	"github.com/multiversx/mx-chain-core-go/data/transaction"
	logger "github.com/multiversx/mx-chain-logger-go"
	"github.com/multiversx/mx-chain-storage-go/immunitycache"
	"github.com/multiversx/mx-chain-storage-go/txcache"
	"verifharness/core"
)

type comp struct{}

func init() {
	core.Register(comp{})
	// the cache warns on every refused ImmunizeKeys; the text of the log is not an observable
	_ = logger.SetLogLevel("*:NONE")
}

func (comp) Name() string { return "immunity" }

const (
	opHasOrAdd = 1
	opPut      = 2
	opGet      = 3
	opHas      = 4
	opPeek     = 5
	opRemove   = 6
	opImmunize = 7
	opClear    = 8
)

// ---------------------------------------------------------------- generator

// keyName: mostly one-letter keys; two of them exercise the hash on the empty key and on bytes >= 0x80.
func keyName(i int) []byte {
	switch i {
	case 4:
		return []byte{}
	case 5:
		return []byte{0xff, 0x80, 0x01}
	case 6:
		return []byte{0xca, 0x01, 0xb2, 0xe0, 0x5c, 0x79, 0x24, 0x8b} // keys 6 and 7: same 32-bit FNV-1 hash (0x4e9a355a), hence the same chunk for every chunk count
	case 7:
		return []byte{0x44, 0x79, 0xca, 0xa2, 0x38, 0xb7, 0x74, 0xe5}
	}
	if i >= 20 {
		return []byte(fmt.Sprintf("k%05d", i)) // large-population histories
	}
	return []byte{byte('a' + i)}
}

func universeTok(n int) string {
	ks := make([][]byte, n)
	for i := range ks {
		ks[i] = keyName(i)
	}
	return core.LB(ks)
}

func payloadFor(step int, rng *rand.Rand) []byte {
	return []byte{byte(step >> 8), byte(step), byte(rng.Intn(256))}
}

func (comp) Gen(prop string, rng *rand.Rand, tier string) *core.History {
	h := &core.History{}
	kind := rng.Intn(2)
	chunks := core.Pick(rng, []uint64{1, 1, 2, 4, 3, 5, 7}) // also counts that are not powers of two: routing is hash MOD count
	if prop == "C13" && core.Chance(rng, 1, 3) {
		chunks = 1 // the FIFO clause is about one chunk
	}
	maxItems := core.Pick(rng, []uint64{4, 5, 8})
	batch := core.Pick(rng, []uint64{1, 2, 3})
	// the property guards: >= 1 item and >= 1 evictable item per chunk; mostly respected
	if !core.Chance(rng, 1, 8) {
		if maxItems < chunks {
			maxItems = chunks
		}
		batch *= chunks
	}
	maxBytes := core.Pick(rng, []uint64{4, 8, 12, 20, 30, 45, 100, 1 << 20})
	nkeys := 6 + rng.Intn(5)
	if core.Chance(rng, 1, 60) {
		// a configuration the constructor must reject
		switch rng.Intn(5) {
		case 0:
			chunks = core.Pick(rng, []uint64{0, 129})
		case 1:
			maxItems = uint64(rng.Intn(4))
		case 2:
			maxBytes = uint64(rng.Intn(4))
		case 3:
			maxBytes = 1<<30 + 1
		case 4:
			batch = 0
		}
	}
	if core.Chance(rng, 1, 60) {
		// configurations ON the accepting side of the constructor's bounds
		switch rng.Intn(3) {
		case 0:
			chunks, maxItems, batch = 128, core.Pick(rng, []uint64{128, 256}), 128
		case 1:
			maxBytes = 1 << 30
		case 2:
			maxItems, maxBytes = 4, 4
			if chunks > 4 {
				chunks = 4
			}
		}
	}
	h.SetConfig(core.N(uint64(kind)), core.N(chunks), core.N(maxItems), core.N(maxBytes), core.N(batch), universeTok(nkeys))

	sizes := []int64{0, 1, 1, 2, 3, 10, 10, int64(maxBytes) + 1}
	if maxBytes > 1000 {
		sizes = []int64{0, 1, 1, 2, 3, 10, 10, 1000}
	}
	if core.Chance(rng, 1, 12) {
		// sizes at the edge of the 32-bit types the limits are declared in (the byte counter is an int)
		sizes = append(sizes, 1<<31, 1<<32, 1<<32+3, 1<<40)
	}
	pickKey := func() []byte { return keyName(rng.Intn(nkeys)) }
	nops := core.LongHistory(rng, 15+rng.Intn(45))
	// phase 0: immunise first (future immunity) in some histories
	if core.Chance(rng, 1, 3) {
		var ks []string
		for i, n := 0, 1+rng.Intn(3); i < n; i++ {
			ks = append(ks, core.B(pickKey()))
		}
		h.Add(opImmunize, "immunise before insertion", core.L(ks...))
	}
	immW := 12
	if prop == "C12" {
		immW = 18
	}
	for i := 0; i < nops; i++ {
		r := rng.Intn(100)
		switch {
		case r < 45:
			k := pickKey()
			h.Add(opHasOrAdd, "HasOrAdd", core.B(k), core.B(payloadFor(i, rng)), core.I(core.Pick(rng, sizes)))
		case r < 52:
			k := pickKey()
			h.Add(opPut, "Put", core.B(k), core.B(payloadFor(i, rng)), core.I(core.Pick(rng, sizes)))
		case r < 52+immW:
			n := core.Pick(rng, []int{1, 1, 1, 2, 2, 3})
			if core.Chance(rng, 1, 10) {
				n = int(maxItems) + rng.Intn(2) // trips (or just passes) the capacity gate
			}
			if core.Chance(rng, 1, 25) {
				n = 0
			}
			var ks []string
			for j := 0; j < n; j++ {
				ks = append(ks, core.B(pickKey()))
			}
			if nkeys >= 8 && core.Chance(rng, 1, 6) {
				ks = append(ks, core.B(keyName(6)), core.B(keyName(7))) // two different keys with one 32-bit hash in ONE batch
			}
			h.Add(opImmunize, "ImmunizeKeys", core.L(ks...))
		case r < 52+immW+12:
			h.Add(opRemove, "Remove", core.B(pickKey()))
		case r < 52+immW+14:
			h.Add(opClear, "Clear")
		case r < 52+immW+20:
			h.Add(opGet, "Get", core.B(pickKey()))
		case r < 52+immW+25:
			h.Add(opHas, "Has", core.B(pickKey()))
		default:
			h.Add(opPeek, "Peek", core.B(pickKey()))
		}
	}
	return h
}

// Exhaustive: one chunk, three keys, every sequence of a fixed length over a small op alphabet
// (every shorter sequence is a prefix of one of them and is checked after each op).
func (comp) Exhaustive(prop string, tier string, yield func(*core.History)) {
	if strings.HasSuffix(prop, ":scale") {
		// MONITOR-ONLY scale histories (the reference queue of the monitor is the oracle): more than 1024 / 4096 immune items at
		// the head of the insertion order, evictable ones behind them, then adds at capacity: the walk must reach the evictable ones
		for kind := 0; kind < 2; kind++ {
			for _, nImm := range []int{1100} {
				nOther := 40
				first := 20
				h := &core.History{}
				h.SetConfig(core.N(uint64(kind)), core.N(1), core.N(uint64(nImm+10)), core.N(1<<30), core.N(2), universeTok(first+nImm+nOther))
				var imm []string
				for j := 0; j < nImm; j++ {
					imm = append(imm, core.B(keyName(first+j)))
				}
				h.Add(opImmunize, fmt.Sprintf("immunize %d keys in one call", nImm), core.L(imm...))
				for j := 0; j < nImm; j++ {
					h.Add(opHasOrAdd, "", core.B(keyName(first+j)), core.B([]byte{byte(j >> 8), byte(j)}), core.I(2))
				}
				for j := 0; j < nOther; j++ {
					h.Add(opHasOrAdd, "", core.B(keyName(first+nImm+j)), core.B([]byte{0xee, byte(j)}), core.I(2))
				}
				yield(h)
			}
		}
		return
	}
	// LARGE-POPULATION histories (beyond the small scope): one ImmunizeKeys / ImmunizeTxsAgainstEviction call with more than 512 keys
	// (a block's worth), all of them added, then enough other items to force evictions: every immunized item must stay. A threshold or
	// batch boundary inside the immunisation path shows here and nowhere else.
	for kind := 0; kind < 2; kind++ {
		nImm, nOther := 520, 24
		if tier == "thorough" {
			nImm, nOther = 1100, 60
		}
		first := 20 // keyName(i) for i >= 20 is "k%04d"
		h := &core.History{}
		h.SetConfig(core.N(uint64(kind)), core.N(1), core.N(uint64(nImm+8)), core.N(1<<30), core.N(3), universeTok(first+nImm+nOther))
		var imm []string
		for j := 0; j < nImm; j++ {
			imm = append(imm, core.B(keyName(first+j)))
		}
		h.Add(opImmunize, fmt.Sprintf("immunize %d keys in one call", nImm), core.L(imm...))
		for j := 0; j < nImm; j++ {
			h.Add(opHasOrAdd, "", core.B(keyName(first+j)), core.B([]byte{byte(j >> 8), byte(j)}), core.I(2))
		}
		for j := 0; j < nOther; j++ {
			h.Add(opHasOrAdd, "", core.B(keyName(first+nImm+j)), core.B([]byte{0xee, byte(j)}), core.I(2))
		}
		h.Add(opGet, "", core.B(keyName(first+511)))
		yield(h)
	}
	type xop struct {
		code int
		key  int
		size int64
	}
	alphabet := []xop{
		{opHasOrAdd, 0, 2}, {opHasOrAdd, 1, 2}, {opHasOrAdd, 2, 3},
		{opImmunize, 0, 0}, {opImmunize, 1, 0},
		{opRemove, 0, 0}, {opRemove, 1, 0}, {opClear, 0, 0},
	}
	type scope struct {
		length int
		batch  uint64
		kind   uint64
		nops   int // size of the op alphabet used
	}
	// quick: 8^5 + 8^4 = 36864 histories; thorough: 8^6 + 9^5 = 321193 histories
	scopes := []scope{{5, 1, 0, 8}, {4, 2, 1, 8}}
	if tier == "thorough" {
		alphabet = append(alphabet, xop{opImmunize, 2, 0})
		scopes = []scope{{6, 1, 0, 8}, {5, 2, 1, 9}}
	}
	for _, sc := range scopes {
		idx := make([]int, sc.length)
		for {
			h := &core.History{}
			// byte capacity 4: a(2)+b(2) reaches it, c(3) alone does not; count capacity 4 is never reached by 3 keys
			h.SetConfig(core.N(sc.kind), core.N(1), core.N(4), core.N(4), core.N(sc.batch), universeTok(3))
			for step, ai := range idx {
				o := alphabet[ai]
				switch o.code {
				case opHasOrAdd:
					h.Add(opHasOrAdd, "", core.B(keyName(o.key)), core.B([]byte{byte(step + 1)}), core.I(o.size))
				case opImmunize:
					h.Add(opImmunize, "", core.L(core.B(keyName(o.key))))
				case opRemove:
					h.Add(opRemove, "", core.B(keyName(o.key)))
				case opClear:
					h.Add(opClear, "")
				}
			}
			yield(h)
			p := sc.length - 1
			for p >= 0 {
				idx[p]++
				if idx[p] < sc.nops {
					break
				}
				idx[p] = 0
				p--
			}
			if p < 0 {
				break
			}
		}
	}
}

// ---------------------------------------------------------------- implementation driver

type api struct {
	hasOrAdd    func(k, p []byte, size int) (bool, bool)
	put         func(k, p []byte, size int) bool
	get         func(k []byte) ([]byte, bool)
	peek        func(k []byte) ([]byte, bool)
	has         func(k []byte) bool
	remove      func(k []byte) bool
	immunize    func(keys [][]byte) (int, int, bool)
	clear       func()
	count       func() int
	length      func() int
	numBytes    func() int
	countImmune func() int
	keys        func() [][]byte
	forEach     func(k *core.Keeper)
}

func newImmunityCache(nc, mi, mb, ev uint32) (*api, error) {
	c, err := immunitycache.NewImmunityCache(immunitycache.CacheConfig{Name: "verif", NumChunks: nc, MaxNumItems: mi, MaxNumBytes: mb, NumItemsToPreemptivelyEvict: ev})
	if err != nil {
		return nil, err
	}
	unwrap := func(v interface{}, ok bool) ([]byte, bool) {
		if !ok {
			return nil, false
		}
		return v.([]byte), true
	}
	return &api{
		hasOrAdd: func(k, p []byte, size int) (bool, bool) { return c.HasOrAdd(k, p, size) },
		put:      func(k, p []byte, size int) bool { return c.Put(k, p, size) },
		get:      func(k []byte) ([]byte, bool) { return unwrap(c.Get(k)) },
		peek:     func(k []byte) ([]byte, bool) { return unwrap(c.Peek(k)) },
		has:      c.Has,
		remove:   c.RemoveWithResult,
		immunize: func(keys [][]byte) (int, int, bool) {
			a, b := c.ImmunizeKeys(keys)
			return a, b, true
		},
		clear: c.Clear, count: c.Count, length: c.Len, numBytes: c.NumBytes, countImmune: c.CountImmune, keys: c.Keys,
		forEach: func(k *core.Keeper) {
			c.ForEachItem(func(key []byte, _ interface{}) { k.See(key) })
		},
	}, nil
}

func newCrossTxCache(nc, mi, mb, ev uint32) (*api, error) {
	c, err := txcache.NewCrossTxCache(txcache.ConfigDestinationMe{Name: "verif", NumChunks: nc, MaxNumItems: mi, MaxNumBytes: mb, NumItemsToPreemptivelyEvict: ev})
	if err != nil {
		return nil, err
	}
	wrap := func(k, p []byte, size int) *txcache.WrappedTransaction {
		return &txcache.WrappedTransaction{Tx: &transaction.Transaction{Data: p}, TxHash: append([]byte{}, k...), Size: int64(size)} // the transaction owns its hash
	}
	unwrap := func(v interface{}, ok bool) ([]byte, bool) {
		if !ok {
			return nil, false
		}
		return v.(*transaction.Transaction).Data, true
	}
	return &api{
		hasOrAdd: func(k, p []byte, size int) (bool, bool) { return c.AddTx(wrap(k, p, size)) },
		put:      func(k, p []byte, size int) bool { return c.Put(k, wrap(k, p, size), size) },
		get: func(k []byte) ([]byte, bool) {
			// GetByTxHash and Get must tell the same story
			w, ok1 := c.GetByTxHash(k)
			p, ok2 := unwrap(c.Get(k))
			if ok1 != ok2 || (ok1 && (!bytes.Equal(w.TxHash, k) || !bytes.Equal(w.Tx.GetData(), p))) {
				panic(fmt.Sprintf("CrossTxCache.GetByTxHash and Get disagree on %x", k))
			}
			return p, ok2
		},
		peek:   func(k []byte) ([]byte, bool) { return unwrap(c.Peek(k)) },
		has:    c.Has,
		remove: c.RemoveTxByHash,
		immunize: func(keys [][]byte) (int, int, bool) {
			c.ImmunizeTxsAgainstEviction(keys)
			return 0, 0, false
		},
		clear: c.Clear, count: c.Count, length: c.Len, numBytes: c.NumBytes, countImmune: c.CountImmune, keys: c.Keys,
		forEach: func(k *core.Keeper) {
			c.ForEachTransaction(func(txHash []byte, _ *txcache.WrappedTransaction) { k.See(txHash) })
		},
	}, nil
}

// ---------------------------------------------------------------- monitors

type resident struct {
	payload []byte
	size    int
}

// refQueue is the FIFO queue of the text of C13 (one chunk): entries in insertion order; an add that
// finds item or byte capacity reached evicts batches of the oldest non-immune entries.
type refEntry struct {
	key  string
	size int
}

type monitor struct {
	res                       *core.Result
	kind, chunks              uint64
	maxItems, maxBytes, batch uint64
	universe                  [][]byte
	immune                    map[string]bool     // accepted immune keys not since removed / cleared
	present                   map[string]resident // what the implementation showed after the previous op (Get on the universe)
	sizeAt                    map[string]int      // size given at the insertion that made the key resident
	queue                     []refEntry          // reference FIFO queue (meaningful when chunks == 1)
	guardOK                   bool                // >= 1 item and >= 1 evictable item per chunk
}

func (m *monitor) refBytes() int {
	t := 0
	for _, e := range m.queue {
		t += e.size
	}
	return t
}

func (m *monitor) refReached() bool {
	return uint64(len(m.queue)) >= m.maxItems || m.refBytes() >= int(m.maxBytes)
}

func (m *monitor) refEvictBatch() int {
	removed := 0
	var kept []refEntry
	for _, e := range m.queue {
		if removed < int(m.batch) && !m.immune[e.key] {
			removed++
			continue
		}
		kept = append(kept, e)
	}
	m.queue = kept
	return removed
}

// refAdd returns whether the key became resident in the reference queue.
func (m *monitor) refAdd(key string, size int) bool {
	for _, e := range m.queue {
		if e.key == key {
			return false
		}
	}
	if m.refReached() {
		n := m.refEvictBatch()
		if n == 0 {
			return false
		}
		for m.refReached() && n == int(m.batch) {
			n = m.refEvictBatch()
		}
	}
	m.queue = append(m.queue, refEntry{key, size})
	return true
}

func (m *monitor) refRemove(key string) {
	for i, e := range m.queue {
		if e.key == key {
			m.queue = append(m.queue[:i:i], m.queue[i+1:]...)
			return
		}
	}
}

func sortedCopy(ks [][]byte) [][]byte {
	c := make([][]byte, len(ks))
	copy(c, ks)
	sort.Slice(c, func(i, j int) bool { return bytes.Compare(c[i], c[j]) < 0 })
	return c
}

// Run executes one history.
func (comp) Run(h *core.History, scratch string) *core.Result {
	res := &core.Result{}
	cfg := core.ParseArgs(h.Config)
	kind, nc, mi, mb, ev := cfg[0].U64(), cfg[1].U64(), cfg[2].U64(), cfg[3].U64(), cfg[4].U64()
	var universe [][]byte
	for _, a := range cfg[5].List {
		universe = append(universe, a.Bytes())
	}
	var c *api
	var err error
	if kind == 0 {
		c, err = newImmunityCache(uint32(nc), uint32(mi), uint32(mb), uint32(ev))
	} else {
		c, err = newCrossTxCache(uint32(nc), uint32(mi), uint32(mb), uint32(ev))
	}
	if err != nil {
		res.Obs = append(res.Obs, "init-rejected")
		for range h.Ops {
			res.Obs = append(res.Obs, "r !nostate")
		}
		res.Hit("config-rejected")
		return res
	}
	m := &monitor{res: res, kind: kind, chunks: nc, maxItems: mi, maxBytes: mb, batch: ev, universe: universe,
		immune: map[string]bool{}, present: map[string]resident{}, sizeAt: map[string]int{}}
	m.guardOK = mi/nc >= 1 && ev/nc >= 1
	if nc > 1 {
		res.Hit("multi-chunk")
	}
	if !m.guardOK {
		res.Hit("config-outside-guard(no evictable item per chunk)")
	}

	for i, op := range h.Ops {
		res.Scribble() // the key buffers handed to the previous call are reused by their caller
		a := op.Parsed()
		var toks []string
		before := m.present
		countBefore, bytesBefore, immuneBefore := c.count(), c.numBytes(), c.countImmune()
		_ = bytesBefore
		switch op.Code {
		case opHasOrAdd, opPut:
			k, p, size := a[0].Bytes(), a[1].Bytes(), int(a[2].I64())
			ks := string(k)
			_, wasPresent := before[ks]
			var has, added bool
			if op.Code == opHasOrAdd {
				has, added = c.hasOrAdd(res.CallerKey(k), p, size)
				toks = append(toks, core.Lbl(1, core.Bool(has)), core.Lbl(2, core.Bool(added)))
			} else {
				ev := c.put(res.CallerKey(k), p, size)
				toks = append(toks, core.Lbl(3, core.Bool(ev)))
			}
			nowP, nowPresent := c.get(k)
			if op.Code == opHasOrAdd {
				// C13: has = true exactly when the key was present; added = true exactly when it became present
				if has != wasPresent {
					res.Failf("C13", i, "HasOrAdd(%x) returned has=%v but the key was present=%v before the call", k, has, wasPresent)
				}
				if added != (!wasPresent && nowPresent) {
					res.Failf("C13", i, "HasOrAdd(%x) returned added=%v; present before=%v, present after=%v", k, added, wasPresent, nowPresent)
				}
				if added && !bytes.Equal(nowP, p) {
					res.Failf("C13", i, "HasOrAdd(%x) reported added but Get returns %x, not the payload %x just given", k, nowP, p)
				}
			}
			// C12: adds never overwrite the payload of a key that is already present
			if wasPresent && nowPresent && !bytes.Equal(nowP, before[ks].payload) {
				res.Failf("C12", i, "add of present key %x changed its payload from %x to %x", k, before[ks].payload, nowP)
			}
			if wasPresent {
				res.Hit("duplicate-add")
			} else if nowPresent {
				m.sizeAt[ks] = size
				if m.immune[ks] {
					res.Hit("future-immunity-applied-on-add")
				}
				if uint64(size) > mb/nc {
					res.Hit("oversize-item-added")
				}
			} else {
				res.Hit("refused-add")
			}
			// reference FIFO queue (text of C13, one chunk)
			if nc == 1 {
				if refAdded := m.refAdd(ks, size); refAdded != (!wasPresent && nowPresent) {
					res.Failf("C13", i, "one chunk: the FIFO queue of the property says add(%x) stores=%v, the cache says %v", k, refAdded, !wasPresent && nowPresent)
				}
			}
			m.afterAdd(i, c, k, wasPresent, nowPresent, countBefore, bytesBefore, immuneBefore)
		case opGet, opPeek:
			k := a[0].Bytes()
			var v []byte
			var ok bool
			if op.Code == opGet {
				v, ok = c.get(k)
			} else {
				v, ok = c.peek(k)
			}
			if ok {
				toks = append(toks, core.Lbl(4, core.B(v)), core.Lbl(5, core.Bool(true)))
			} else {
				toks = append(toks, core.Lbl(4, "-"), core.Lbl(5, core.Bool(false)))
			}
			if r, was := before[string(k)]; was != ok || (ok && !bytes.Equal(r.payload, v)) {
				res.Failf("C13", i, "Get/Peek(%x) = (%x,%v) but the previous observation of the cache was (%x,%v)", k, v, ok, r.payload, was)
			}
		case opHas:
			k := a[0].Bytes()
			b := c.has(k)
			toks = append(toks, core.Lbl(6, core.Bool(b)))
			if _, was := before[string(k)]; was != b {
				res.Failf("C13", i, "Has(%x) = %v but the previous observation of the cache was %v", k, b, was)
			}
		case opRemove:
			k := a[0].Bytes()
			ks := string(k)
			_, wasPresent := before[ks]
			b := c.remove(k)
			toks = append(toks, core.Lbl(9, core.Bool(b)))
			if b != wasPresent {
				res.Failf("C13", i, "Remove(%x) returned %v but the key was present=%v", k, b, wasPresent)
			}
			if c.has(k) {
				res.Failf("C13", i, "Remove(%x): the key is still present", k)
			}
			// C13: removing a key also withdraws its current or future immunity
			if m.immune[ks] {
				if wasPresent {
					res.Hit("remove-withdraws-current-immunity")
				} else {
					res.Hit("remove-withdraws-future-immunity")
				}
			}
			delete(m.immune, ks)
			delete(m.sizeAt, ks)
			m.refRemove(ks)
		case opImmunize:
			var keys [][]byte
			for _, x := range a[0].List {
				keys = append(keys, res.CallerKeyKept(x.Bytes()))
			}
			now, fut, hasRes := c.immunize(keys)
			if hasRes {
				toks = append(toks, core.Lbl(10, core.N(uint64(now))), core.Lbl(11, core.N(uint64(fut))))
			}
			// was the call accepted?  (the text speaks of "accepted" keys: with results, every key is counted
			// now or future; without results (CrossTxCache) CountImmune tells)
			union := map[string]bool{}
			for k := range m.immune {
				union[k] = true
			}
			for _, k := range keys {
				union[string(k)] = true
			}
			accepted := false
			ci := c.countImmune()
			if hasRes {
				accepted = len(keys) > 0 && now+fut == len(keys)
				if !accepted && now+fut != 0 {
					res.Failf("C13", i, "ImmunizeKeys(%d keys) returned numNow=%d numFuture=%d: neither all nor none", len(keys), now, fut)
				}
			} else {
				switch {
				case ci == len(union):
					accepted = true
				case ci == len(m.immune):
					accepted = false
				default:
					res.Failf("C13", i, "ImmunizeTxsAgainstEviction: CountImmune=%d is neither %d (accepted) nor %d (refused)", ci, len(union), len(m.immune))
				}
			}
			if accepted {
				m.immune = union
				for _, k := range keys {
					if _, ok := before[string(k)]; ok {
						res.Hit("immunise-resident-item")
					} else {
						res.Hit("immunise-future-item")
					}
				}
			} else if len(keys) > 0 {
				res.Hit("immunize-refused(capacity gate)")
			}
		case opClear:
			c.clear()
			m.immune = map[string]bool{}
			m.sizeAt = map[string]int{}
			m.queue = nil
			res.Hit("clear")
		}

		// ---- observers after every op
		count, length, nb, ci := c.count(), c.length(), c.numBytes(), c.countImmune()
		keys := res.OwnKeys("C13", i, "Keys()", c.keys())
		var keeper core.Keeper
		c.forEach(&keeper)
		fe := keeper.Done(res, "C13", i, "ForEachItem", true)
		gets := make([]string, len(universe))
		hass := make([]string, len(universe))
		after := map[string]resident{}
		for j, k := range universe {
			v, ok := c.get(k)
			hb := c.has(k)
			hass[j] = core.Bool(hb)
			if ok {
				gets[j] = core.B(v)
				after[string(k)] = resident{payload: v}
			} else {
				gets[j] = "-"
			}
			// C13: Get and Has describe the same set
			if ok != hb {
				res.Failf("C13", i, "Get(%x) ok=%v but Has=%v", k, ok, hb)
			}
		}
		toks = append(toks, core.Lbl(12, core.I(int64(count))), core.Lbl(13, core.I(int64(length))), core.Lbl(14, core.I(int64(nb))),
			core.Lbl(15, core.I(int64(ci))), core.Lbl(16, core.SortedLB(keys)), core.Lbl(17, core.SortedLB(fe)),
			core.Lbl(20, core.L(gets...)), core.Lbl(21, core.L(hass...)))
		res.AddObs(toks...)
		m.present = after

		// ---- C13: the views describe the same set
		if count != length || count != len(keys) || count != len(fe) || count != len(after) {
			res.Failf("C13", i, "views disagree: Count=%d Len=%d len(Keys)=%d ForEachItem=%d resident keys by Get=%d", count, length, len(keys), len(fe), len(after))
		}
		sk, sf := sortedCopy(keys), sortedCopy(fe)
		for j := range sk {
			if j > 0 && bytes.Equal(sk[j], sk[j-1]) {
				res.Failf("C13", i, "Keys lists %x twice", sk[j])
			}
			if _, ok := after[string(sk[j])]; !ok {
				res.Failf("C13", i, "Keys lists %x but Get does not find it", sk[j])
			}
			if j < len(sf) && !bytes.Equal(sk[j], sf[j]) {
				res.Failf("C13", i, "Keys and ForEachItem differ: %x vs %x", sk[j], sf[j])
			}
		}
		// ---- C13: never more than MaxNumItems
		if uint64(count) > mi {
			res.Failf("C13", i, "Count=%d exceeds MaxNumItems=%d", count, mi)
		}
		// ---- C13: NumBytes = sum of the sizes given at insertion of the residents
		sum := 0
		for k := range after {
			sum += m.sizeAt[k]
		}
		if nb != sum {
			res.Failf("C13", i, "NumBytes=%d but the sizes given at insertion of the residents add up to %d", nb, sum)
		}
		// ---- C13: CountImmune = number of accepted immune keys not since removed
		if ci != len(m.immune) {
			res.Failf("C13", i, "CountImmune=%d but %d accepted immune keys have not been removed since", ci, len(m.immune))
		}
		// ---- C12: an accepted immune key that was stored stays retrievable with its original payload
		//           until it is removed or the cache is cleared (checked step by step)
		if op.Code != opClear {
			for k, r := range before {
				if !m.immune[k] {
					continue
				}
				if op.Code == opRemove && string(a[0].Bytes()) == k {
					continue
				}
				now, ok := after[k]
				if !ok {
					res.Failf("C12", i, "immune key %x was stored with payload %x and is gone without Remove/Clear", k, r.payload)
				} else if !bytes.Equal(now.payload, r.payload) {
					res.Failf("C12", i, "immune key %x changed payload from %x to %x", k, r.payload, now.payload)
				}
			}
		}
		// ---- every op: a key disappears only by Remove of that key, Clear, or eviction by an add; payloads never change
		for k, r := range before {
			now, ok := after[k]
			if ok && !bytes.Equal(now.payload, r.payload) {
				res.Failf("C12", i, "key %x changed payload from %x to %x", k, r.payload, now.payload)
			}
			if !ok {
				legit := op.Code == opClear || (op.Code == opRemove && string(a[0].Bytes()) == k) || op.Code == opHasOrAdd || op.Code == opPut
				if !legit {
					res.Failf("C13", i, "key %x disappeared during an operation that neither removes nor adds", k)
				}
				delete(m.sizeAt, k)
			}
		}
		for k := range after {
			if _, was := before[k]; !was && !(op.Code == opHasOrAdd || op.Code == opPut) {
				res.Failf("C13", i, "key %x appeared during an operation that is not an add", k)
			}
		}
		// ---- C13: with one chunk the resident set is that of the FIFO queue of the text
		if nc == 1 {
			if len(m.queue) != len(after) {
				res.Failf("C13", i, "one chunk: FIFO queue of the property holds %d keys, the cache %d", len(m.queue), len(after))
			} else {
				for _, e := range m.queue {
					if _, ok := after[e.key]; !ok {
						res.Failf("C13", i, "one chunk: FIFO queue of the property holds %x, the cache does not", e.key)
					}
				}
			}
		}
	}
	return res
}

// afterAdd evaluates the clauses of C12 about one add, from the observations before and after it.
func (m *monitor) afterAdd(i int, c *api, k []byte, wasPresent, nowPresent bool, countBefore, bytesBefore, immuneBefore int) {
	res := m.res
	before := m.present
	evicted, evictedImmune, immuneResident := 0, 0, 0
	for _, u := range m.universe {
		us := string(u)
		r, was := before[us]
		if !was {
			continue
		}
		if m.immune[us] {
			immuneResident++
		}
		v, ok := c.get(u)
		if !ok {
			evicted++
			if m.immune[us] {
				evictedImmune++
				res.Failf("C12", i, "add(%x) evicted the immune key %x", k, u)
			}
		} else if !bytes.Equal(v, r.payload) {
			res.Failf("C12", i, "add(%x) changed the payload of present key %x from %x to %x", k, u, r.payload, v)
		}
	}
	if evicted > 0 {
		res.Hit("eviction")
		if immuneResident > 0 {
			res.Hit("eviction-spares-immune-resident")
		}
		if uint64(countBefore) < m.maxItems/m.chunks {
			res.Hit("eviction-by-byte-pressure")
		}
		if m.chunks == 1 && uint64(evicted) > m.batch {
			res.Hit("eviction-of-several-batches")
		}
		if wasPresent {
			res.Failf("C12", i, "add of the present key %x evicted %d item(s)", k, evicted)
		}
		if !nowPresent {
			res.Failf("C12", i, "add(%x) was refused but evicted %d item(s): a refused add must leave the cache unchanged", k, evicted)
		}
	}
	if !wasPresent && !nowPresent {
		// refused: the cache is unchanged
		if c.count() != countBefore || c.numBytes() != bytesBefore || c.countImmune() != immuneBefore {
			res.Failf("C12", i, "refused add(%x) changed the cache: Count %d->%d NumBytes %d->%d CountImmune %d->%d", k,
				countBefore, c.count(), bytesBefore, c.numBytes(), immuneBefore, c.countImmune())
		}
		if immuneResident == len(before) && len(before) > 0 {
			res.Hit("refused-add-all-residents-immune")
		}
	}
	// one chunk, all residents immune, item capacity reached: the add of an absent key must be refused
	if m.chunks == 1 && !wasPresent && len(before) > 0 && immuneResident == len(before) && uint64(len(before)) >= m.maxItems {
		if nowPresent {
			res.Failf("C12", i, "all %d residents are immune and the chunk is full, yet add(%x) was accepted", len(before), k)
		}
	}
}
