package persist

import (
	"bytes"
	"fmt"
	"math/rand"
	"os"
	"path/filepath"
	"strings"
	"sync"

	"github.com/multiversx/mx-chain-storage-go/sharded"
	"github.com/multiversx/mx-chain-storage-go/types"

	"verifharness/core"
)

// Extra (C09): C09 quantifies over sequential histories; a seeded change (a flush that reads the pending batch before taking the
// batch lock) showed that overlapping flushes can drop acknowledged writes for good. Here several goroutines write their OWN keys
// (so the final map is determined: the last acknowledged write of each key), with a small MaxBatchSize so that size-triggered
// flushes of different goroutines overlap; then Close, a fresh persister on the same path, and the whole map is compared through
// Get, Has and RangeKeys. Validation beyond the property's quantifier, not proof.
func (comp) Extra(prop string, tier string, seed int64, scratch string) *core.ExtraResult {
	res := &core.ExtraResult{Counts: map[string]int{}}
	if prop == "C19" {
		failedShardOpen(res, prop, scratch)
		res.Rule = "a sharded persister (4 shards over SerialDB) holding data is closed; a second constructor call on the same path FAILS because the creator cannot open one shard; the handles it did open are closed; a third constructor call then finds every key (Get, Has, RangeKeys)"
		return res
	}
	if prop == "C08" || prop == "C11" {
		closedHandleReuse(res, prop, scratch)
		// C08 at scale only (the concurrent / reused-buffer rounds below are about C09's clause)
		scalePersist(res, prop, tier, scratch)
		res.Rule = "scale rounds (monitor only): 20 000 distinct keys pending in ONE batch (MaxBatchSize 50 000) of leveldb.DB and leveldb.SerialDB; every Put is read back at once by Get and Has, and a sample again with all of them pending"
		return res
	}
	// a refused SECOND open of a directory that a live persister holds must leave that persister's data alone (runs beside the rounds:
	// the refusal takes the constructor's retries, about 11 s)
	second := make(chan []core.Fail, 2)
	for kind := 0; kind < 2; kind++ {
		go func(kind int) {
			second <- refusedSecondOpen(kind, filepath.Join(scratch, fmt.Sprintf("c09-second-open-%d", kind)))
		}(kind)
	}
	defer func() {
		for kind := 0; kind < 2; kind++ {
			for _, f := range <-second {
				res.Fails = append(res.Fails, f)
				res.Replays = append(res.Replays, "harness extra -component persist -prop C09 -tier "+tier+"   # refused second open of a live directory")
			}
			res.Counts["refused_second_open_rounds"]++
			res.Evaluations++
		}
	}()
	rounds := 90
	if tier == "thorough" {
		rounds = 900
	}
	rng := rand.New(rand.NewSource(seed*7919 + 17))
	for r := 0; r < rounds && len(res.Fails) == 0; r++ {
		kind := r % 3 // 0 leveldb.DB, 1 leveldb.SerialDB, 2 memory-less variant does not exist: use 0/1 and the sharded persister over SerialDB
		openK := []int{0, 1, 4}[kind]
		max := []int{1, 2, 3, 5}[rng.Intn(4)]
		writers := 2 + rng.Intn(5)
		perWriter := 40 + rng.Intn(80)
		dir := filepath.Join(scratch, fmt.Sprintf("c09x-%d", r))
		_ = os.RemoveAll(dir)
		p, err := openForExtra(openK, dir, max)
		if err != nil {
			res.Fails = append(res.Fails, core.Fail{Property: "C09", Step: -1, Msg: fmt.Sprintf("round %d: open: %v", r, err)})
			break
		}
		want := make([]map[string][]byte, writers)
		var wg sync.WaitGroup
		for w := 0; w < writers; w++ {
			want[w] = map[string][]byte{}
			wr := rand.New(rand.NewSource(seed*131 + int64(r)*17 + int64(w)))
			wg.Add(1)
			go func(w int, wr *rand.Rand) {
				defer wg.Done()
				for i := 0; i < perWriter; i++ {
					k := fmt.Sprintf("w%d-k%d", w, wr.Intn(12))
					if wr.Intn(5) == 0 {
						if err := p.Remove([]byte(k)); err == nil {
							delete(want[w], k)
						}
					} else {
						v := []byte(fmt.Sprintf("%s=%d", k, i))
						if err := p.Put([]byte(k), v); err == nil {
							want[w][k] = v
						}
					}
				}
			}(w, wr)
		}
		wg.Wait()
		res.Counts["acknowledged_writes"] += writers * perWriter
		if err := p.Close(); err != nil {
			res.Counts["close_errors"]++
			_ = os.RemoveAll(dir)
			continue
		}
		q, err := openForExtra(openK, dir, max)
		if err != nil {
			res.Fails = append(res.Fails, core.Fail{Property: "C09", Step: -1, Msg: fmt.Sprintf("round %d: reopen: %v", r, err)})
			break
		}
		all := map[string][]byte{}
		for w := range want {
			for k, v := range want[w] {
				all[k] = v
			}
		}
		descr := fmt.Sprintf("round %d (%s, MaxBatchSize=%d, %d concurrent writers x %d writes on own keys, then Close and reopen)", r, []string{"leveldb.DB", "leveldb.SerialDB", "sharded over SerialDB"}[kind], max, writers, perWriter)
		for w := 0; w < writers; w++ {
			for i := 0; i < 12; i++ {
				k := fmt.Sprintf("w%d-k%d", w, i)
				res.Evaluations++
				v, gerr := q.Get([]byte(k))
				wv, present := all[k]
				if present && (gerr != nil || !bytes.Equal(v, wv)) {
					res.Fails = append(res.Fails, core.Fail{Property: "C09", Step: -1, Msg: fmt.Sprintf("%s: acknowledged Put(%s,%q) lost: Get after reopen = (%q, %v)", descr, k, wv, v, gerr)})
				} else if !present && gerr == nil {
					res.Fails = append(res.Fails, core.Fail{Property: "C09", Step: -1, Msg: fmt.Sprintf("%s: key %s resurrected: its last acknowledged write was a Remove, Get after reopen = %q", descr, k, v)})
				}
				if herr := q.Has([]byte(k)); (herr == nil) != present {
					res.Fails = append(res.Fails, core.Fail{Property: "C09", Step: -1, Msg: fmt.Sprintf("%s: Has(%s) after reopen = %v, acknowledged presence = %v", descr, k, herr, present)})
				}
				if len(res.Fails) > 3 {
					break
				}
			}
		}
		seen := map[string]int{}
		q.RangeKeys(func(k, v []byte) bool {
			seen[string(k)]++
			if wv, ok := all[string(k)]; !ok || !bytes.Equal(wv, v) {
				res.Fails = append(res.Fails, core.Fail{Property: "C09", Step: -1, Msg: fmt.Sprintf("%s: RangeKeys after reopen visits (%s,%q), acknowledged map has (%q,%v)", descr, k, v, wv, ok)})
				return false
			}
			return true
		})
		if len(res.Fails) == 0 && len(seen) != len(all) {
			res.Fails = append(res.Fails, core.Fail{Property: "C09", Step: -1, Msg: fmt.Sprintf("%s: RangeKeys after reopen visits %d keys, the acknowledged map has %d", descr, len(seen), len(all))})
		}
		for range res.Fails {
			res.Replays = append(res.Replays, fmt.Sprintf("harness extra -component persist -prop C09 -tier %s -seed %d   # %s", tier, seed, descr))
		}
		_ = q.Close()
		_ = os.RemoveAll(dir)
		res.Distinct++
		res.Counts[fmt.Sprintf("rounds_kind_%d", kind)]++
	}
	reusedValueBuffer(res, tier, seed, scratch)
	failedShardOpen(res, prop, scratch)
	scalePersist(res, prop, tier, scratch)
	res.Rule = "validation beyond the property's (sequential) quantifier: rounds of 2-6 goroutines writing their own keys (Put/Remove) through one persister with MaxBatchSize in {1,2,3,5}, so that " +
		"size-triggered flushes overlap; then Close, a fresh persister on the same path; Get/Has of every key and RangeKeys must give exactly the last acknowledged write of every key. " +
		"Plus sequential rounds in which the caller builds every value in ONE buffer that it overwrites after each Put (keys staged several times per batch, no read before Close): after Close and reopen every key holds the bytes of its last acknowledged Put"
	return res
}

// openForExtra: kind 0 leveldb.DB, 1 leveldb.SerialDB, 4 sharded (3 shards) over SerialDB; timer off.
func openForExtra(kind int, path string, max int) (types.Persister, error) {
	if kind < 3 {
		return openBase(kind, path, noTimerDelay, max)
	}
	sp, err := sharded.NewShardIDProvider(3)
	if err != nil {
		return nil, err
	}
	return sharded.NewShardedPersister(path, &creator{kind: kind - 3, delay: noTimerDelay, max: max}, sp)
}

// reusedValueBuffer: a caller that serialises every value into one scratch buffer. Put must have taken what it needs by the time it
// returns (goleveldb's batch copies the value); what is durable after Close must be the bytes the buffer held DURING the acknowledged
// call, not what it holds at flush time. Reads of still-pending data are deliberately not made here: the library's pending-batch
// cache keeps the caller's slice by reference (C08's domain excludes callers that mutate a value they passed), but C09's clause about
// Close and reopen does not depend on that.
func reusedValueBuffer(res *core.ExtraResult, tier string, seed int64, scratch string) {
	rounds := 15
	if tier == "thorough" {
		rounds = 300
	}
	rng := rand.New(rand.NewSource(seed*104729 + 5))
	for r := 0; r < rounds && len(res.Fails) == 0; r++ {
		kind := []int{0, 1, 4}[r%3]
		max := []int{2, 3, 5, 8, 50}[rng.Intn(5)]
		dir := filepath.Join(scratch, fmt.Sprintf("c09v-%d", r))
		_ = os.RemoveAll(dir)
		p, err := openForExtra(kind, dir, max)
		if err != nil {
			res.Fails = append(res.Fails, core.Fail{Property: "C09", Step: -1, Msg: fmt.Sprintf("reused-buffer round %d: open: %v", r, err)})
			return
		}
		buf := make([]byte, 64)
		want := map[string][]byte{}
		nops := 20 + rng.Intn(60)
		for i := 0; i < nops; i++ {
			k := fmt.Sprintf("account-%02d", rng.Intn(6))
			if rng.Intn(6) == 0 {
				if p.Remove([]byte(k)) == nil {
					delete(want, k)
				}
				continue
			}
			n := 1 + rng.Intn(40)
			for j := 0; j < n; j++ {
				buf[j] = byte(rng.Intn(256))
			}
			if p.Put([]byte(k), buf[:n]) == nil {
				want[k] = append([]byte{}, buf[:n]...)
			}
			for j := range buf {
				buf[j] = 0xDB // the caller reuses its buffer
			}
		}
		res.Counts["reused_buffer_writes"] += nops
		if p.Close() != nil {
			_ = os.RemoveAll(dir)
			continue
		}
		q, err := openForExtra(kind, dir, max)
		if err != nil {
			res.Fails = append(res.Fails, core.Fail{Property: "C09", Step: -1, Msg: fmt.Sprintf("reused-buffer round %d: reopen: %v", r, err)})
			return
		}
		descr := fmt.Sprintf("reused-buffer round %d (%s, MaxBatchSize=%d, %d sequential writes on 6 keys, every value built in one buffer that is overwritten after each Put, then Close and reopen)",
			r, []string{"leveldb.DB", "leveldb.SerialDB", "", "", "sharded over SerialDB"}[kind], max, nops)
		for i := 0; i < 6; i++ {
			k := fmt.Sprintf("account-%02d", i)
			res.Evaluations++
			v, gerr := q.Get([]byte(k))
			wv, present := want[k]
			if present && (gerr != nil || !bytes.Equal(v, wv)) {
				res.Fails = append(res.Fails, core.Fail{Property: "C09", Step: -1, Msg: fmt.Sprintf("%s: key %s holds %x (err %v), its last acknowledged Put carried %x", descr, k, v, gerr, wv)})
				res.Replays = append(res.Replays, fmt.Sprintf("harness extra -component persist -prop C09 -tier %s -seed %d   # %s", tier, seed, descr))
			} else if !present && gerr == nil {
				res.Fails = append(res.Fails, core.Fail{Property: "C09", Step: -1, Msg: fmt.Sprintf("%s: key %s resurrected with %x", descr, k, v)})
				res.Replays = append(res.Replays, fmt.Sprintf("harness extra -component persist -prop C09 -tier %s -seed %d   # %s", tier, seed, descr))
			}
		}
		_ = q.Close()
		_ = os.RemoveAll(dir)
		res.Counts["reused_buffer_rounds"]++
	}
}

// scalePersist: populations beyond the powers of two at which caches and iterators are typically bounded (4096, 16384).
// (a) C08 at scale: many distinct keys pending in one batch; every Put is read back at once (Get and Has), and all of them again at
// the end, before any flush. (b) C09 at scale: thousands of flushed keys, some of which extend others; RangeKeys visits every key
// exactly once with its value, on the open persister and after Close / reopen.
func scalePersist(res *core.ExtraResult, prop string, tier string, scratch string) {
	for _, kind := range []int{0, 1} {
		name := []string{"leveldb.DB", "leveldb.SerialDB"}[kind]
		val := func(i int) []byte { return []byte(fmt.Sprintf("value-%d", i)) }
		if prop == "C08" || prop == "C11" {
			scalePending(res, prop, kind, name, scratch, val)
			continue
		}
		// (b)
		dir := filepath.Join(scratch, fmt.Sprintf("scale-b-%d", kind))
		_ = os.RemoveAll(dir)
		p, err := openForExtra(kind, dir, 500)
		if err != nil {
			return
		}
		want := map[string][]byte{}
		put := func(k string, i int) {
			if p.Put([]byte(k), val(i)) == nil {
				want[k] = val(i)
			}
		}
		// every key k comes with k\x00 and k\x00\x00: wherever an iterator is re-created (after 1024, 4096, 8192 ... visits), the
		// key it stopped at is, two times out of three, a proper prefix of the next ones
		for i := 0; i < 2800; i++ {
			k := fmt.Sprintf("k%06d", i)
			put(k, i)
			put(k+"\x00", i+1)
			put(k+"\x00\x00", i+2)
			if i%512 == 511 {
				put(k+"7", i+3)
				put(k+"/child", i+4)
				put(k+"\xff", i+5)
			}
		}
		// values and one key longer than 128 KiB / 1 MiB: compared in full through RangeKeys, Get after the reopen
		for n, size := range []int{1 << 17, 1<<17 + 1, 200000, 1<<20 + 1} {
			long := bytes.Repeat([]byte{byte(0x61 + n)}, size)
			long[size-1], long[size/2] = 0x7e, 0x7d
			if p.Put([]byte(fmt.Sprintf("long-value-%d", size)), long) == nil {
				want[fmt.Sprintf("long-value-%d", size)] = long
			}
		}
		longKey := string(bytes.Repeat([]byte("K"), 1<<17+5)) + "-end"
		put(longKey, 77)
		walk := func(q interface {
			RangeKeys(func(key []byte, val []byte) bool)
		}, when string) {
			seen := map[string]int{}
			bad := ""
			q.RangeKeys(func(k, v []byte) bool {
				seen[string(k)]++
				if wv, ok := want[string(k)]; (!ok || !bytes.Equal(wv, v)) && bad == "" {
					bad = fmt.Sprintf("visits (%.60q.. [%d bytes], %.60q.. [%d bytes]), the acknowledged map has (%.60q.. [%d bytes], %v)", k, len(k), v, len(v), wv, len(wv), ok)
				}
				return true
			})
			res.Evaluations++
			for k := range want {
				if seen[k] != 1 && bad == "" {
					bad = fmt.Sprintf("visits key %.60q %d times (of %d flushed keys, %d visited)", k, seen[k], len(want), len(seen))
				}
			}
			if bad != "" {
				res.Fails = append(res.Fails, core.Fail{Property: "C09", Step: -1, Msg: fmt.Sprintf("scale (%s, %d keys, some extending others): RangeKeys %s %s", name, len(want), when, bad)})
			}
		}
		if p.Close() == nil {
			if q, err := openForExtra(kind, dir, 500); err == nil {
				walk(q, "after Close and reopen")
				_ = q.Close()
			}
		}
		_ = os.RemoveAll(dir)
		res.Counts["scale_rounds"]++
	}
	for range res.Fails {
		if len(res.Replays) < len(res.Fails) {
			res.Replays = append(res.Replays, "harness extra -component persist -prop C09 -tier "+tier+"   # scale rounds")
		}
	}
}

// scalePending: C08 with many distinct keys pending in one batch (see scalePersist)
func scalePending(res *core.ExtraResult, prop string, kind int, name string, scratch string, val func(int) []byte) {
	dir := filepath.Join(scratch, fmt.Sprintf("scale-a-%d", kind))
	_ = os.RemoveAll(dir)
	p, err := openForExtra(kind, dir, 50000)
	if err != nil {
		res.Fails = append(res.Fails, core.Fail{Property: prop, Step: -1, Msg: "scale: open: " + err.Error()})
		return
	}
	const nPending = 20000
	for i := 0; i < nPending && len(res.Fails) == 0; i++ {
		k := []byte(fmt.Sprintf("pending-%06d", i))
		if p.Put(k, val(i)) != nil {
			continue
		}
		res.Evaluations++
		if v, gerr := p.Get(k); gerr != nil || !bytes.Equal(v, val(i)) {
			res.Fails = append(res.Fails, core.Fail{Property: prop, Step: -1, Msg: fmt.Sprintf("scale (%s, MaxBatchSize 50000): Get right after Put #%d (%d keys pending in the batch) returns (%q, %v)", name, i, i+1, v, gerr)})
		}
		if herr := p.Has(k); herr != nil {
			res.Fails = append(res.Fails, core.Fail{Property: prop, Step: -1, Msg: fmt.Sprintf("scale (%s): Has right after Put #%d (%d keys pending) = %v", name, i, i+1, herr)})
		}
	}
	for i := 0; i < nPending && len(res.Fails) == 0; i += 97 {
		k := []byte(fmt.Sprintf("pending-%06d", i))
		if v, gerr := p.Get(k); gerr != nil || !bytes.Equal(v, val(i)) {
			res.Fails = append(res.Fails, core.Fail{Property: prop, Step: -1, Msg: fmt.Sprintf("scale (%s): with %d keys pending, Get of pending key #%d returns (%q, %v)", name, nPending, i, v, gerr)})
		}
	}
	// a value of a mebibyte put over a pending Remove, and over a pending Put, must be what the next read returns
	for _, size := range []int{1<<17 + 1, 1 << 20, 1<<20 + 1} {
		long := bytes.Repeat([]byte{0x4c}, size)
		long[0], long[size-1] = 1, 2
		kr := []byte(fmt.Sprintf("long-over-remove-%d", size))
		_ = p.Put(kr, []byte("old"))
		_ = p.Remove(kr)
		if p.Put(kr, long) == nil {
			res.Evaluations++
			if v, gerr := p.Get(kr); gerr != nil || !bytes.Equal(v, long) {
				res.Fails = append(res.Fails, core.Fail{Property: prop, Step: -1, Msg: fmt.Sprintf("scale (%s): Put(k, %d bytes) after a pending Remove(k): Get returns %d bytes (err %v)", name, size, len(v), gerr)})
			}
			if p.Has(kr) != nil {
				res.Fails = append(res.Fails, core.Fail{Property: prop, Step: -1, Msg: fmt.Sprintf("scale (%s): Put(k, %d bytes) after a pending Remove(k): Has says absent", name, size)})
			}
		}
	}
	res.Counts["scale_pending_rounds"]++
	_ = p.Close()
	// a value read from DISK belongs to the caller (goleveldb hands out a private copy): overwriting it must not change the next read.
	// (A value read from the pending batch is the slice the batch holds; that is the unchanged tree's behaviour and is not tested.)
	if q, err := openForExtra(kind, dir, 50000); err == nil {
		for i := 0; i < 2000; i += 37 {
			k := []byte(fmt.Sprintf("pending-%06d", i))
			v1, e1 := q.Get(k)
			if e1 != nil {
				continue
			}
			keep := append([]byte{}, v1...)
			for j := range v1 {
				v1[j] = 0xEE
			}
			res.Evaluations++
			if v2, e2 := q.Get(k); e2 != nil || !bytes.Equal(v2, keep) {
				res.Fails = append(res.Fails, core.Fail{Property: prop, Step: -1, Msg: fmt.Sprintf("scale (%s): after the caller overwrote the slice a Get of flushed key %s returned, the next Get returns %q (err %v) instead of %q", name, k, v2, e2, keep)})
				break
			}
		}
		_ = q.Close()
	}
	_ = os.RemoveAll(dir)
}

// refusedSecondOpen: P1 holds a directory with acknowledged writes (some flushed, some pending); a second constructor call on the same
// path is refused (LevelDB's file lock); P1 goes on, is closed, and a persister opened afterwards must hold exactly P1's acknowledged map.
func refusedSecondOpen(kind int, dir string) (fails []core.Fail) {
	name := []string{"leveldb.DB", "leveldb.SerialDB"}[kind]
	fail := func(format string, a ...interface{}) {
		fails = append(fails, core.Fail{Property: "C09", Step: -1, Msg: "refused second open (" + name + "): " + fmt.Sprintf(format, a...)})
	}
	defer func() {
		if r := recover(); r != nil {
			fail("panic: %v", r)
		}
		_ = os.RemoveAll(dir)
	}()
	_ = os.RemoveAll(dir)
	p1, err := openForExtra(kind, dir, 3)
	if err != nil {
		fail("first open: %v", err)
		return
	}
	want := map[string][]byte{}
	for i := 0; i < 7; i++ {
		k, v := fmt.Sprintf("held-%d", i), []byte(fmt.Sprintf("value-%d", i))
		if p1.Put([]byte(k), v) == nil {
			want[k] = v
		}
	}
	if p1.Remove([]byte("held-2")) == nil {
		delete(want, "held-2")
	}
	if p2, err2 := openForExtra(kind, dir, 3); err2 == nil {
		// not refused: nothing the property says; the intruder is closed again and the check goes on
		_ = p2.Close()
	}
	for i := 7; i < 9; i++ {
		k, v := fmt.Sprintf("held-%d", i), []byte(fmt.Sprintf("value-%d", i))
		if p1.Put([]byte(k), v) == nil {
			want[k] = v
		}
	}
	if err := p1.Close(); err != nil {
		fail("Close of the first persister failed after the refused second open: %v", err)
		return
	}
	q, err := openForExtra(kind, dir, 3)
	if err != nil {
		fail("reopen after Close: %v", err)
		return
	}
	defer q.Close()
	for k, v := range want {
		if got, gerr := q.Get([]byte(k)); gerr != nil || !bytes.Equal(got, v) {
			fail("after Close (nil) and reopen, Get(%s) = (%q, %v); acknowledged value %q", k, got, gerr, v)
			break
		}
	}
	seen := 0
	q.RangeKeys(func(k, v []byte) bool {
		seen++
		if wv, ok := want[string(k)]; !ok || !bytes.Equal(wv, v) {
			fail("after Close and reopen RangeKeys visits (%q, %q), not in the acknowledged map", k, v)
			return false
		}
		return true
	})
	if seen != len(want) && len(fails) == 0 {
		fail("after Close and reopen RangeKeys visits %d keys, the acknowledged map has %d", seen, len(want))
	}
	return
}

// ---- two handles

// flakyCreator opens SerialDB shards, remembers what it handed out, and fails once for the shard directory with the given suffix
type flakyCreator struct {
	failSuffix string
	handed     []types.Persister
}

func (c *flakyCreator) CreateBasePersister(path string) (types.Persister, error) {
	if c.failSuffix != "" && strings.HasSuffix(path, c.failSuffix) {
		c.failSuffix = ""
		return nil, fmt.Errorf("injected: cannot open %s", path)
	}
	p, err := openBase(1, path, noTimerDelay, 3)
	if err == nil {
		c.handed = append(c.handed, p)
	}
	return p, err
}
func (c *flakyCreator) IsInterfaceNil() bool { return c == nil }

// failedShardOpen: see Extra (prop C19). A constructor call that fails half-way must leave the data of the shards it did open alone.
func failedShardOpen(res *core.ExtraResult, prop string, scratch string) {
	fail := func(format string, a ...interface{}) {
		res.Fails = append(res.Fails, core.Fail{Property: prop, Step: -1, Msg: "failed open of one shard: " + fmt.Sprintf(format, a...)})
		res.Replays = append(res.Replays, "harness extra -component persist -prop "+prop+"   # failed open of one shard of an existing sharded persister")
	}
	defer func() {
		if r := recover(); r != nil {
			fail("panic: %v", r)
		}
	}()
	dir := filepath.Join(scratch, "failed-shard-open")
	_ = os.RemoveAll(dir)
	defer os.RemoveAll(dir)
	sp, err := sharded.NewShardIDProvider(4)
	if err != nil {
		fail("provider: %v", err)
		return
	}
	p1, err := sharded.NewShardedPersister(dir, &flakyCreator{}, sp)
	if err != nil {
		fail("first open: %v", err)
		return
	}
	want := map[string][]byte{}
	for i := 0; i < 40; i++ {
		k, v := []byte(fmt.Sprintf("key-%02d-%c", i, byte(i*7))), []byte(fmt.Sprintf("value-%d", i))
		if p1.Put(k, v) == nil {
			want[string(k)] = v
		}
	}
	if err := p1.Close(); err != nil {
		fail("Close: %v", err)
		return
	}
	flaky := &flakyCreator{failSuffix: "/2"}
	if p2, err2 := sharded.NewShardedPersister(dir, flaky, sp); err2 == nil {
		_ = p2.Close() // not refused: nothing to see
	}
	for _, h := range flaky.handed {
		_ = h.Close() // the constructor does not close what it opened before the failure; the caller's creator does
	}
	p3, err := sharded.NewShardedPersister(dir, &flakyCreator{}, sp)
	if err != nil {
		fail("third open: %v", err)
		return
	}
	defer p3.Close()
	res.Evaluations++
	res.Counts["failed_shard_open_rounds"]++
	for k, v := range want {
		if got, gerr := p3.Get([]byte(k)); gerr != nil || !bytes.Equal(got, v) || p3.Has([]byte(k)) != nil {
			fail("after a constructor call that failed at shard 2, Get(%q) = (%q, %v): the acknowledged value %q of a closed persister is gone", k, got, gerr, v)
			return
		}
	}
	n := 0
	p3.RangeKeys(func(k, v []byte) bool { n++; return true })
	if n != len(want) {
		fail("RangeKeys visits %d keys, the closed persister held %d", n, len(want))
	}
}

// closedHandleReuse: a CLOSED DB handle that is used again (Destroy on a closed database is part of the interface; late Put / Remove
// return without effect on anything else) while another persister, created later in another directory, has writes pending
func closedHandleReuse(res *core.ExtraResult, prop string, scratch string) {
	fail := func(format string, a ...interface{}) {
		res.Fails = append(res.Fails, core.Fail{Property: prop, Step: -1, Msg: "late use of a closed handle: " + fmt.Sprintf(format, a...)})
		res.Replays = append(res.Replays, "harness extra -component persist -prop "+prop+"   # a closed persister used again while another one has writes pending")
	}
	defer func() {
		if r := recover(); r != nil {
			fail("panic: %v", r)
		}
	}()
	for kind := 0; kind < 2; kind++ {
		name := []string{"leveldb.DB", "leveldb.SerialDB"}[kind]
		d1, d2 := filepath.Join(scratch, fmt.Sprintf("closed-handle-a-%d", kind)), filepath.Join(scratch, fmt.Sprintf("closed-handle-b-%d", kind))
		_ = os.RemoveAll(d1)
		_ = os.RemoveAll(d2)
		p1, err := openForExtra(kind, d1, 50)
		if err != nil {
			fail("%s: open: %v", name, err)
			return
		}
		_ = p1.Put([]byte("old"), []byte("x"))
		_ = p1.Close()
		p2, err := openForExtra(kind, d2, 50)
		if err != nil {
			fail("%s: second open: %v", name, err)
			return
		}
		_ = p2.Put([]byte("mine"), []byte("v1"))
		_ = p1.DestroyClosed()
		res.Evaluations++
		if v, gerr := p2.Get([]byte("mine")); gerr != nil || string(v) != "v1" {
			fail("%s: after DestroyClosed() of ANOTHER, closed persister, Get of a pending key = (%q, %v)", name, v, gerr)
		}
		_ = p1.Put([]byte("stray"), []byte("z"))
		_ = p1.Remove([]byte("mine"))
		if v, gerr := p2.Get([]byte("stray")); gerr == nil {
			fail("%s: a key put through ANOTHER, closed persister is returned (%q)", name, v)
		}
		if v, gerr := p2.Get([]byte("mine")); gerr != nil || string(v) != "v1" {
			fail("%s: after a Remove through ANOTHER, closed persister, Get of a pending key = (%q, %v)", name, v, gerr)
		}
		_ = p2.Close()
		if q, err := openForExtra(kind, d2, 50); err == nil {
			if v, gerr := q.Get([]byte("mine")); gerr != nil || string(v) != "v1" {
				fail("%s: after Close and reopen Get(mine) = (%q, %v)", name, v, gerr)
			}
			if _, gerr := q.Get([]byte("stray")); gerr == nil {
				fail("%s: after Close and reopen the stray key of the other persister is stored", name)
			}
			_ = q.Close()
		}
		_ = os.RemoveAll(d1)
		_ = os.RemoveAll(d2)
		res.Counts["closed_handle_rounds"]++
	}
}
