// Package persist drives the persisters of /repo on real LevelDB directories (C08, C09, sharded half of C19).
//
// config: kind maxBatchSize numShards batchDelaySeconds [ alphabet ]
//
//	kind 0 leveldb.NewDB, 1 leveldb.NewSerialDB, 2 memorydb.New, 3/4/5 sharded.NewShardedPersister over 0/1/2
//
// ops: 1 Put k v | 2 Remove k | 3 Get k | 4 Has k | 5 Tick | 6 Close | 7 Reopen | 8 RangeKeys
//
//	9 RangeKeys with a handler answering `calls so far < n` | 10 Destroy | 11 DestroyClosed (refused, class 3, unless
//	Close or Destroy was called on the current object) | 12 Judge n [visits] (inserted by this driver after every op 9)
//
// answer (after every op): 1 class, 2 bytes of Get, 3 [Get classes over the alphabet], 4 [Get bytes ...],
//
//	5 [Has classes ...], 6 (op 8) sorted pairs, 7 (op 9, unsharded kinds) number of handler calls,
//	8 (op 9, DB / SerialDB) the pairs in call order, 9 (op 12) 1 = the model can explain the visits
package persist

import (
	"bytes"
	"errors"
	"fmt"
	"math/rand"
	"os"
	"sort"
	"strings"
	"sync/atomic"
	"time"

	logger "github.com/multiversx/mx-chain-logger-go"
	"github.com/multiversx/mx-chain-storage-go/common"
	"github.com/multiversx/mx-chain-storage-go/leveldb"
	"github.com/multiversx/mx-chain-storage-go/memorydb"
	"github.com/multiversx/mx-chain-storage-go/sharded"
	"github.com/multiversx/mx-chain-storage-go/types"
	"verifharness/core"
)

type comp struct{}

func init() {
	core.Register(comp{})
	_ = logger.SetLogLevel("*:NONE")
}

func (comp) Name() string { return "persist" }

const (
	opPut = 1 + iota
	opRemove
	opGet
	opHas
	opTick
	opClose
	opReopen
	opRange
	opRangeStop
	opDestroy
	opDestroyClosed
	opJudge
)

const noTimerDelay = 100000 // seconds: the timer never fires within a run

// ---------------------------------------------------------------- generator

var keyPool = [][]byte{
	[]byte("a"), []byte("b"), []byte("c"), []byte("d"), []byte("aa"), []byte("ba"), {0x00}, {0x01, 0x00}, {0xff}, {0x10, 0x03}, []byte("key-e"),
	{}, // the empty key: legal for goleveldb, the memory map and the shard router
	[]byte("0123456789abcdef0123456789abcdef"), // a hash-sized key
}

var otherValues = [][]byte{{0xab, 0xcd}, {0, 0, 0}, []byte("hello"), []byte("HELLO"), []byte("Hello"), {0xff, 0x00, 0xff, 0x00}, {0x80, 0x00, 0x80, 0x00}, core.LongValue()}
var oneByteValues = [][]byte{{0x01}, {0x00}, {0x7f}, {0x80}, {0xff}} // 0x80 / 0xff: equal under any text-minded comparison

func valTok(v []byte) string { return core.OB(v) }

func randVal(rng *rand.Rand) []byte {
	switch rng.Intn(8) {
	case 0:
		return nil
	case 1:
		return []byte{}
	case 2, 3, 4:
		return core.Pick(rng, oneByteValues)
	default:
		return core.Pick(rng, otherValues)
	}
}

var genCount int64

type gen struct {
	rng    *rand.Rand
	h      *core.History
	kind   int
	max    int
	nsh    int
	alpha  [][]byte
	sp     types.ShardIDProvider
	pend   []int // generator's own idea of the number of pending writes per shard (only to aim the patterns)
	closed bool
	ticks  int
	tickOK bool
}

func (g *gen) shard(k []byte) int {
	if g.sp == nil {
		return 0
	}
	return int(g.sp.ComputeId(k))
}

func (g *gen) key() []byte { return core.Pick(g.rng, g.alpha) }

// a key of the alphabet living in the same shard as k
func (g *gen) sameShardKey(k []byte) []byte {
	var c [][]byte
	for _, a := range g.alpha {
		if g.shard(a) == g.shard(k) {
			c = append(c, a)
		}
	}
	return core.Pick(g.rng, c)
}

func (g *gen) wrote(k []byte) {
	if g.closed {
		return
	}
	i := g.shard(k)
	g.pend[i]++
	if g.pend[i] >= g.max {
		g.pend[i] = 0
	}
}

func (g *gen) put(k, v []byte) {
	g.h.Add(opPut, "Put", core.B(k), valTok(v))
	g.wrote(k)
}
func (g *gen) remove(k []byte) {
	g.h.Add(opRemove, "Remove", core.B(k))
	g.wrote(k)
}
func (g *gen) get(k []byte) { g.h.Add(opGet, "Get", core.B(k)) }
func (g *gen) has(k []byte) { g.h.Add(opHas, "Has", core.B(k)) }
func (g *gen) rangeKeys()   { g.h.Add(opRange, "RangeKeys") }
func (g *gen) closeP()      { g.h.Add(opClose, "Close"); g.closed = true }
func (g *gen) rangeStop() {
	n := core.Pick(g.rng, []int{0, 1, 1, 2, 2, 3, 4, 6})
	g.h.Add(opRangeStop, fmt.Sprintf("RangeKeys, handler stops after %d visits", n), core.N(uint64(n)))
}
func (g *gen) destroy() {
	g.h.Add(opDestroy, "Destroy")
	g.closed = true
	for i := range g.pend {
		g.pend[i] = 0
	}
}
func (g *gen) destroyClosed() { g.h.Add(opDestroyClosed, "DestroyClosed") }

// operations on an object on which Close / Destroy / DestroyClosed has been called
func (g *gen) opsOnDeadObject() {
	for n := 1 + g.rng.Intn(4); n > 0; n-- {
		switch g.rng.Intn(9) {
		case 0:
			g.put(g.key(), randVal(g.rng))
		case 1:
			g.remove(g.key())
		case 2:
			g.get(g.key())
		case 3:
			g.has(g.key())
		case 4:
			g.rangeKeys()
		case 5:
			g.rangeStop()
		case 6:
			g.closeP()
		case 7:
			g.destroyClosed()
		default:
			g.destroy()
		}
	}
}

// Destroy on the open persister, or Close then DestroyClosed; sometimes operations on the destroyed object;
// then the constructor on the same path and a look at what it holds
func (g *gen) destroyCycle() {
	if g.rng.Intn(2) == 0 {
		g.destroy()
	} else {
		g.closeP()
		g.destroyClosed()
	}
	if g.rng.Intn(3) == 0 {
		g.opsOnDeadObject()
	}
	g.reopen()
	switch g.rng.Intn(3) {
	case 0:
		g.rangeKeys()
	case 1:
		g.rangeStop()
	}
}
func (g *gen) tick() {
	g.h.Add(opTick, "Tick")
	g.ticks++
	for i := range g.pend {
		g.pend[i] = 0
	}
}
func (g *gen) reopen() {
	g.h.Add(opReopen, "Reopen")
	g.closed = false
	g.ticks = 0
	for i := range g.pend {
		g.pend[i] = 0
	}
}

// pad writes to keys of k's shard until that shard's batch has just been flushed by size
func (g *gen) padToFlush(k []byte) {
	i := g.shard(k)
	for n := 0; n < 6 && g.pend[i] != 0; n++ {
		g.put(g.sameShardKey(k), randVal(g.rng))
	}
}

// a timer flush, mostly with something in the pending batch, and a look at the result
func (g *gen) tickPattern() {
	k := g.key()
	switch g.rng.Intn(4) {
	case 0:
	case 1:
		g.remove(k)
	default:
		g.put(k, randVal(g.rng))
	}
	g.tick()
	switch g.rng.Intn(3) {
	case 0:
		g.rangeKeys()
	case 1:
		g.get(k)
	}
}

func (g *gen) cycle() {
	g.closeP()
	switch g.rng.Intn(10) {
	case 0: // operations on the closed persister
		for n := 1 + g.rng.Intn(3); n > 0; n-- {
			switch g.rng.Intn(5) {
			case 0:
				g.put(g.key(), randVal(g.rng))
			case 1:
				g.remove(g.key())
			case 2:
				g.get(g.key())
			case 3:
				g.rangeKeys()
			default:
				g.closeP()
			}
		}
	case 1:
		g.closeP()
	}
	g.reopen()
	switch g.rng.Intn(5) {
	case 0, 1:
		g.rangeKeys()
	case 2:
		g.rangeStop()
	}
}

func (g *gen) pattern() {
	k := g.key()
	switch g.rng.Intn(9) {
	case 0: // overwrite after flush
		g.put(k, randVal(g.rng))
		g.padToFlush(k)
		g.put(k, randVal(g.rng))
		g.get(k)
	case 1: // remove then put inside one batch
		g.padToFlush(k)
		g.remove(k)
		g.put(k, randVal(g.rng))
		g.get(k)
	case 2: // put then remove inside one batch
		g.padToFlush(k)
		g.put(k, randVal(g.rng))
		g.remove(k)
		g.get(k)
	case 3: // removal of a flushed key is the last partial batch
		g.put(k, randVal(g.rng))
		g.padToFlush(k)
		g.remove(k)
		g.cycle()
	case 4: // nil / empty over a flushed value
		g.put(k, core.Pick(g.rng, otherValues))
		g.padToFlush(k)
		if g.rng.Intn(2) == 0 {
			g.put(k, nil)
		} else {
			g.put(k, []byte{})
		}
		g.get(k)
		g.has(k)
	case 5: // nil / empty for a fresh key
		g.remove(k)
		g.padToFlush(k)
		g.put(k, nil)
		g.get(k)
	case 6: // last partial batch: only puts
		g.padToFlush(k)
		g.put(k, randVal(g.rng))
		if g.rng.Intn(2) == 0 {
			g.put(g.key(), randVal(g.rng))
		}
		g.cycle()
	case 7: // last partial batch: remove + put of one key / put + remove of one key
		g.put(k, randVal(g.rng))
		g.padToFlush(k)
		if g.rng.Intn(2) == 0 {
			g.remove(k)
			g.put(k, randVal(g.rng))
		} else {
			g.put(k, randVal(g.rng))
			g.remove(k)
		}
		g.cycle()
	default: // empty last batch
		g.put(k, randVal(g.rng))
		g.padToFlush(k)
		g.cycle()
	}
}

func pickKind(prop string, rng *rand.Rand) int {
	r := rng.Intn(100)
	switch prop {
	case "C09":
		switch {
		case r < 32:
			return 0
		case r < 64:
			return 1
		case r < 78:
			return 3
		case r < 92:
			return 4
		case r < 96: // no path, no Close: only RangeKeys (early stop) and Destroy say something here
			return 2
		default:
			return 5
		}
	case "C19":
		switch {
		case r < 35:
			return 3
		case r < 70:
			return 4
		default:
			return 5
		}
	default:
		switch {
		case r < 30:
			return 0
		case r < 60:
			return 1
		case r < 70:
			return 2
		case r < 82:
			return 3
		case r < 94:
			return 4
		default:
			return 5
		}
	}
}

func (comp) Gen(prop string, rng *rand.Rand, tier string) *core.History {
	idx := atomic.AddInt64(&genCount, 1)
	every := int64(200)
	if tier == "thorough" {
		every = 40
	}
	tickHist := idx%every == 7

	g := &gen{rng: rng, h: &core.History{}}
	g.kind = pickKind(prop, rng)
	if tickHist && (g.kind == 2 || g.kind == 5) {
		g.kind = rng.Intn(2) // timers exist only in the LevelDB persisters
		if prop == "C19" {
			g.kind += 3
		}
	}
	g.max = core.Pick(rng, []int{1, 2, 2, 3, 3, 5, 1, 2, 3, 5, 0, -1}) // MaxBatchSize <= 0: every write is flushed at once
	g.nsh = core.Pick(rng, []int{2, 3, 4, 5})
	if prop == "C19" {
		g.nsh = core.Pick(rng, []int{2, 3, 4, 5, 7, 8})
	}
	nk := 3 + rng.Intn(3)
	perm := rng.Perm(len(keyPool))
	for _, i := range perm[:nk] {
		g.alpha = append(g.alpha, keyPool[i])
	}
	g.alpha = core.WithLongKeys(rng, g.alpha, 12)
	if rng.Intn(12) == 0 {
		g.alpha[0] = []byte{} // the empty key
	}
	if g.kind >= 3 {
		sp, err := sharded.NewShardIDProvider(int32(g.nsh))
		if err != nil {
			panic(err)
		}
		g.sp = sp
		g.pend = make([]int, g.nsh)
	} else {
		g.pend = make([]int, 1)
	}
	delay := noTimerDelay
	nops := core.LongHistory(rng, 10+rng.Intn(41))
	if tickHist {
		delay = 1
		nops = 8 + rng.Intn(10)
	}
	toks := make([]string, len(g.alpha))
	for i, k := range g.alpha {
		toks[i] = core.B(k)
	}
	g.h.SetConfig(core.N(uint64(g.kind)), core.I(int64(g.max)), core.N(uint64(g.nsh)), core.N(uint64(delay)), core.L(toks...))

	cycleW, destroyW := 6, 3
	if prop == "C09" {
		cycleW, destroyW = 12, 7
	}
	for len(g.h.Ops) < nops {
		if g.closed {
			g.reopen()
			continue
		}
		r := rng.Intn(100)
		switch {
		case tickHist && r < 14 && g.ticks < 3:
			g.tickPattern()
		case r < 40:
			g.put(g.key(), randVal(rng))
		case r < 54:
			g.remove(g.key())
		case r < 64:
			g.get(g.key())
		case r < 69:
			g.has(g.key())
		case r < 73:
			g.rangeKeys()
		case r < 78:
			g.rangeStop()
		case r < 78+cycleW:
			if tickHist && len(g.h.Ops) > nops-4 {
				g.put(g.key(), randVal(rng))
			} else {
				g.cycle()
			}
		case r < 78+cycleW+destroyW:
			if tickHist {
				g.put(g.key(), randVal(rng))
			} else {
				g.destroyCycle()
			}
		default:
			if tickHist {
				g.put(g.key(), randVal(rng))
			} else {
				g.pattern()
			}
		}
	}
	if g.closed {
		g.reopen()
	}
	if tickHist && g.ticks == 0 {
		g.tickPattern()
	}
	switch rng.Intn(8) {
	case 0, 1, 2:
		g.closeP()
		g.reopen()
		g.rangeKeys()
	case 3:
		g.closeP()
		g.reopen()
		g.rangeStop()
	case 4:
		if !tickHist {
			g.destroyCycle()
		}
	}
	return g.h
}

// Exhaustive: all op sequences of a fixed length (every prefix is observed too) over 2 keys x 2 values.
func (comp) Exhaustive(prop string, tier string, yield func(*core.History)) {
	// LARGE-POPULATION histories (beyond the small scope): several hundred keys through one persister (many batches), then RangeKeys,
	// Close / reopen / RangeKeys; a few keys are probed after every operation
	for _, kind := range []int{0, 1, 4} {
		n := 140
		if tier == "thorough" {
			n = 300
		}
		name := func(j int) []byte { return []byte(fmt.Sprintf("key-%04d", j)) }
		h := &core.History{}
		var all []string // the monitors follow the keys of the alphabet: all of them
		for j := 0; j < n; j++ {
			all = append(all, core.B(name(j)))
		}
		h.SetConfig(core.N(uint64(kind)), core.I(7), core.N(3), core.N(noTimerDelay), core.L(all...))
		for j := 0; j < n; j++ {
			h.Add(opPut, "", core.B(name(j)), valTok([]byte{byte(j >> 8), byte(j)}))
			if j%97 == 5 {
				h.Add(opRemove, "", core.B(name(j-3)))
			}
		}
		h.Add(opRange, "")
		h.Add(opClose, "")
		h.Add(opReopen, "")
		h.Add(opRange, "")
		h.Add(opRangeStop, "", core.N(uint64(n/2+1)))
		yield(h)
	}
	ka, kb := []byte("a"), []byte("b")
	v1, v2 := []byte{0x01}, []byte{}
	type mk func(h *core.History)
	writes := []mk{
		func(h *core.History) { h.Add(opPut, "", core.B(ka), valTok(v1)) },
		func(h *core.History) { h.Add(opPut, "", core.B(ka), valTok(v2)) },
		func(h *core.History) { h.Add(opPut, "", core.B(kb), valTok(v1)) },
		func(h *core.History) { h.Add(opPut, "", core.B(kb), valTok(v2)) },
		func(h *core.History) { h.Add(opRemove, "", core.B(ka)) },
		func(h *core.History) { h.Add(opRemove, "", core.B(kb)) },
	}
	gets := []mk{
		func(h *core.History) { h.Add(opGet, "", core.B(ka)) },
		func(h *core.History) { h.Add(opGet, "", core.B(kb)) },
	}
	cyc := []mk{
		func(h *core.History) { h.Add(opClose, ""); h.Add(opReopen, ""); h.Add(opRange, "") },
	}
	// early-stopping RangeKeys; Destroy / Close;DestroyClosed, then the constructor again and a look at the content
	stops := []mk{
		func(h *core.History) { h.Add(opRangeStop, "", core.N(1)) },
		func(h *core.History) { h.Add(opRangeStop, "", core.N(2)) },
	}
	dcyc := []mk{
		func(h *core.History) { h.Add(opDestroy, ""); h.Add(opReopen, ""); h.Add(opRange, "") },
		func(h *core.History) {
			h.Add(opClose, "")
			h.Add(opDestroyClosed, "")
			h.Add(opGet, "", core.B(ka))
			h.Add(opReopen, "")
			h.Add(opRangeStop, "", core.N(1))
		},
	}
	all := append(append([]mk{}, writes...), gets...)
	// enum yields every sequence of `length` ops of the alphabet; with `first` > 0 the first op is taken among
	// the first `first` entries only (the two keys are interchangeable for the unsharded persisters, so the
	// sequences starting with a write to key b are renamings of the ones starting with key a)
	enum := func(kind, max, nsh, length int, alphabet []mk, first int) {
		idx := make([]int, length)
		for {
			h := &core.History{}
			h.SetConfig(core.N(uint64(kind)), core.N(uint64(max)), core.N(uint64(nsh)), core.N(noTimerDelay), core.L(core.B(ka), core.B(kb)))
			for _, i := range idx {
				alphabet[i](h)
			}
			yield(h)
			p := length - 1
			for p >= 0 {
				idx[p]++
				lim := len(alphabet)
				if p == 0 && first > 0 {
					lim = first
				}
				if idx[p] < lim {
					break
				}
				idx[p] = 0
				p--
			}
			if p < 0 {
				return
			}
		}
	}
	// key a first: Put a v1, Put a v2, Remove a (+ the rest of the alphabet that is not a write to b)
	writesA := []mk{writes[0], writes[1], writes[4], writes[2], writes[3], writes[5]}
	thorough := tier == "thorough"
	switch prop {
	case "C09":
		// writes and Close;Reopen;RangeKeys cycles at every point
		wc := append(append([]mk{}, cyc...), writesA...)
		for _, kind := range []int{0, 1} {
			if thorough {
				enum(kind, 2, 2, 5, wc, 0)
				enum(kind, 3, 2, 4, wc, 0)
			} else {
				enum(kind, 2, 2, 4, wc, 4)
				enum(kind, 3, 2, 3, wc, 0)
			}
		}
		enum(3, 2, 2, 3, wc, 0)
		enum(4, 2, 2, 3, wc, 0)
		// early stop and destroy: Put a v1, Put b v1, Put b empty, Remove a + the two stops + the two destroy cycles
		wd := append(append(append([]mk{}, dcyc...), stops...), writes[0], writes[2], writes[3], writes[4])
		for _, kind := range []int{0, 1} {
			if thorough {
				enum(kind, 2, 2, 4, wd, 0)
			} else {
				enum(kind, 2, 2, 3, wd, 0)
			}
		}
		// MaxBatchSize 1: every write is flushed at once, so the two shards both hold something to visit
		for _, kind := range []int{3, 4, 5, 2} {
			enum(kind, 1, 2, 3, wd, 0)
		}
	case "C19":
		// keys a (0x61 -> shard 1 of 2) and b (0x62 -> shard 0 of 2): sharded over memorydb (long), over LevelDB (short)
		enum(5, 1, 2, 5, all, 0)
		enum(5, 1, 3, 4, all, 0)
		enum(3, 2, 2, 3, writes, 0)
		enum(4, 2, 2, 3, writes, 0)
	default:
		// Get ops are read-only on both sides and every key is probed after every op anyway: the long
		// scope enumerates the writes, the short one the full alphabet with the Get ops
		for _, kind := range []int{0, 1} {
			if thorough {
				enum(kind, 2, 2, 6, writesA, 3)
				enum(kind, 3, 2, 4, all, 0)
				enum(kind, 1, 2, 4, all, 0)
			} else {
				enum(kind, 2, 2, 5, writesA, 3)
				enum(kind, 3, 2, 3, all, 0)
				enum(kind, 1, 2, 3, all, 0)
			}
		}
		if thorough {
			enum(2, 1, 2, 6, all, 0)
		} else {
			enum(2, 1, 2, 5, all, 0)
		}
	}
}

// ---------------------------------------------------------------- implementation driver

type creator struct {
	kind, delay, max int
}

func (c *creator) CreateBasePersister(path string) (types.Persister, error) {
	return openBase(c.kind, path, c.delay, c.max)
}
func (c *creator) IsInterfaceNil() bool { return c == nil }

func openBase(kind int, path string, delay, max int) (types.Persister, error) {
	switch kind {
	case 0:
		return leveldb.NewDB(path, delay, max, 10)
	case 1:
		return leveldb.NewSerialDB(path, delay, max, 10)
	case 2:
		return memorydb.New(), nil
	}
	return nil, fmt.Errorf("bad kind %d", kind)
}

func classOf(err error) int {
	switch {
	case err == nil:
		return 0
	case errors.Is(err, common.ErrKeyNotFound):
		return 1
	case errors.Is(err, common.ErrDBIsClosed):
		return 2
	case strings.Contains(err.Error(), "not found"): // memorydb's ad-hoc errors
		return 1
	}
	return 3
}

func canon(v []byte) []byte {
	if v == nil {
		return []byte{}
	}
	return v
}

type pair struct{ k, v []byte }

type world struct {
	curRes                *core.Result // the result and step of the operation being executed (for checks made inside helpers)
	curStep               int
	kind, max, nsh, delay int
	alpha                 [][]byte
	root                  string
	p                     types.Persister
	sp                    types.ShardIDProvider
	closedCalled          bool // Close or Destroy was called on the current object
	closeOK               bool
	destroyed             bool // Destroy / DestroyClosed returned nil on the current object (or on its path)
	levelDB               bool // batching persister (kinds 0,1,3,4)
	shardedKind           bool

	// reference data of the monitors: what the property text defines, never the model
	ref      map[string][]byte // acknowledged writes (Put/Remove that returned nil on an open persister)
	flushed  map[string][]byte // what must be in LevelDB: ref as of the last flush of the key's shard
	pend     []int             // acknowledged writes since the last flush, per shard
	pendPut  map[string]bool   // key was put in the current batch
	pendRem  map[string]bool   // key was removed in the current batch
	everUsed map[int]bool      // shards that received a write

	// timer bookkeeping (delay == 1 only)
	t0a, t0b time.Time
	fires    int
	hazard   bool
}

func (w *world) props(tags ...string) []string {
	if w.shardedKind {
		return append(tags, "C19")
	}
	return tags
}

func failAll(res *core.Result, props []string, step int, format string, a ...interface{}) {
	for _, p := range props {
		res.Failf(p, step, format, a...)
	}
}

func (w *world) shard(k []byte) int {
	if w.sp == nil {
		return 0
	}
	return int(w.sp.ComputeId(k))
}

func (w *world) open() error {
	w.t0a = time.Now()
	var err error
	if w.kind < 3 {
		w.p, err = openBase(w.kind, w.root, w.delay, w.max)
	} else {
		w.p, err = sharded.NewShardedPersister(w.root, &creator{kind: w.kind - 3, delay: w.delay, max: w.max}, w.sp)
	}
	w.t0b = time.Now()
	w.fires = 0
	w.closedCalled = false
	w.destroyed = false
	return err
}

func (w *world) lowerBound(k int) time.Time {
	return w.t0a.Add(time.Duration(k)*time.Second - 30*time.Millisecond)
}
func (w *world) upperBound(k int) time.Time {
	return w.t0b.Add(time.Duration(k)*time.Second + 300*time.Millisecond + time.Duration(k)*100*time.Millisecond)
}

// the busy period since the last Tick (or open) must end before the next timer firing can happen
func (w *world) checkHazard() {
	if w.delay != 1 || !w.levelDB || w.closedCalled {
		return
	}
	if !time.Now().Before(w.lowerBound(w.fires + 1)) {
		w.hazard = true
	}
}

func (w *world) flushShard(i int) {
	for _, k := range w.alpha {
		if w.shard(k) != i {
			continue
		}
		if v, ok := w.ref[string(k)]; ok {
			w.flushed[string(k)] = v
		} else {
			delete(w.flushed, string(k))
		}
		delete(w.pendPut, string(k))
		delete(w.pendRem, string(k))
	}
	w.pend[i] = 0
}

func (w *world) flushAll() {
	for i := range w.pend {
		w.flushShard(i)
	}
}

func (w *world) rangePairs() []pair {
	var out []pair
	var kk, kv core.Keeper
	w.p.RangeKeys(func(k, v []byte) bool {
		kk.See(k)
		kv.See(v)
		ck, cv := append([]byte{}, k...), append([]byte{}, v...)
		out = append(out, pair{ck, cv})
		// a handler that derives another key from the one it was given (append) must not thereby change the value it was given along
		if w.levelDB && w.curRes != nil {
			_ = append(k, 0xE1, 0xE2, 0xE3, 0xE4, 0xE5, 0xE6, 0xE7, 0xE8)
			if !bytes.Equal(v, cv) {
				failAll(w.curRes, w.props("C09"), w.curStep, "RangeKeys: appending to the key %x handed to the handler changed the value handed along with it from %x to %x", ck, cv, v)
			}
		}
		return true
	})
	// the handler keeps the slices it was given: a later visit must not overwrite them (keys are then used as scratch; values are
	// left alone: memorydb hands out the stored slice itself, which the unchanged tree does and the property does not forbid)
	if w.curRes != nil {
		kk.Done(w.curRes, "C09", w.curStep, "RangeKeys (keys)", true)
		kv.Done(w.curRes, "C09", w.curStep, "RangeKeys (values)", false)
	}
	sort.Slice(out, func(i, j int) bool {
		if c := bytes.Compare(out[i].k, out[j].k); c != 0 {
			return c < 0
		}
		return bytes.Compare(out[i].v, out[j].v) < 0
	})
	return out
}

// RangeKeys with a handler that answers `calls so far < n`; the pairs in the order of the calls
func (w *world) stopVisits(n int) []pair {
	var out []pair
	w.p.RangeKeys(func(k, v []byte) bool {
		out = append(out, pair{append([]byte{}, k...), append([]byte{}, v...)})
		return len(out) < n
	})
	return out
}

// the directories of the persister (one per shard) that still exist
func (w *world) dirsLeft() []string {
	if !w.levelDB {
		return nil
	}
	dirs := []string{w.root}
	if w.shardedKind {
		dirs = dirs[:0]
		for i := 0; i < w.nsh; i++ {
			dirs = append(dirs, fmt.Sprintf("%s/%d", w.root, i))
		}
	}
	var left []string
	for _, d := range dirs {
		if _, err := os.Stat(d); err == nil {
			left = append(left, d)
		}
	}
	return left
}

// everything acknowledged so far is gone with the storage medium
func (w *world) forgetAll() {
	w.ref = map[string][]byte{}
	w.flushed = map[string][]byte{}
	w.pendPut = map[string]bool{}
	w.pendRem = map[string]bool{}
	for i := range w.pend {
		w.pend[i] = 0
	}
}

// the early-stop half of C09, from the text: every visited pair is a flushed pair, no key twice; an unsharded persister
// stops for good at the first `false` (exactly min(max(n,1), flushed) visits), LevelDB visits in ascending key order.
// The sharded persister hands the handler to every shard in turn: a `false` ends the shard that received it only.
func (w *world) checkStopVisits(n int, vs []pair, want map[string][]byte) string {
	seen := map[string]bool{}
	for _, p := range vs {
		if seen[string(p.k)] {
			return fmt.Sprintf("key %x visited twice", p.k)
		}
		seen[string(p.k)] = true
		v, ok := want[string(p.k)]
		if !ok {
			return fmt.Sprintf("key %x visited with value %x but it is not a flushed key", p.k, p.v)
		}
		if !bytes.Equal(canon(v), canon(p.v)) {
			return fmt.Sprintf("key %x visited with value %x, its flushed value is %x", p.k, p.v, v)
		}
	}
	nEff := n
	if nEff < 1 {
		nEff = 1
	}
	least := nEff
	if len(want) < least {
		least = len(want)
	}
	if len(vs) < least {
		return fmt.Sprintf("%d visits, but the handler asked to stop after %d and %d keys are flushed", len(vs), nEff, len(want))
	}
	// runs of consecutive visits in one shard (an unsharded persister is one shard)
	type run struct {
		shard      int
		start, end int
	}
	var runs []run
	for j, p := range vs {
		sh := w.shard(p.k)
		if len(runs) > 0 && runs[len(runs)-1].shard == sh {
			runs[len(runs)-1].end = j + 1
			continue
		}
		for _, r := range runs {
			if r.shard == sh {
				return fmt.Sprintf("visit %d (key %x) returns to shard %d after another shard was visited", j+1, p.k, sh)
			}
		}
		runs = append(runs, run{sh, j, j + 1})
	}
	for _, r := range runs {
		// call number t (1-based) is answered t < n: after a `false` the same shard must not be iterated any further
		for t := r.start + 1; t < r.end; t++ {
			if t >= nEff {
				return fmt.Sprintf("the handler answered false at call %d, call %d (key %x) continues the iteration of the same persister", t, t+1, vs[t].k)
			}
		}
		if w.levelDB {
			// ascending key order: the run is the first len(run) flushed keys of that shard
			var keys [][]byte
			for k := range want {
				if w.shard([]byte(k)) == r.shard {
					keys = append(keys, []byte(k))
				}
			}
			sort.Slice(keys, func(a, b int) bool { return bytes.Compare(keys[a], keys[b]) < 0 })
			for t := r.start; t < r.end; t++ {
				if !bytes.Equal(keys[t-r.start], vs[t].k) {
					return fmt.Sprintf("visit %d is key %x; in ascending key order it is %x", t+1, vs[t].k, keys[t-r.start])
				}
			}
		}
	}
	if !w.shardedKind && len(vs) != least {
		return fmt.Sprintf("%d visits; the handler asked to stop after %d and %d keys are flushed", len(vs), nEff, len(want))
	}
	if w.shardedKind {
		// every shard is walked: a shard holding flushed keys is visited at least once
		visited := map[int]bool{}
		for _, r := range runs {
			visited[r.shard] = true
		}
		for k := range want {
			if !visited[w.shard([]byte(k))] {
				return fmt.Sprintf("shard %d holds the flushed key %x but was not visited", w.shard([]byte(k)), k)
			}
		}
	}
	return ""
}

// pairs must present `want` exactly: every binding once with its value, nothing else
func comparePairs(got []pair, want map[string][]byte) string {
	seen := map[string]bool{}
	for _, p := range got {
		if seen[string(p.k)] {
			return fmt.Sprintf("key %x visited twice", p.k)
		}
		seen[string(p.k)] = true
		v, ok := want[string(p.k)]
		if !ok {
			return fmt.Sprintf("key %x visited with value %x but it is not in the expected map", p.k, p.v)
		}
		if !bytes.Equal(canon(v), canon(p.v)) {
			return fmt.Sprintf("key %x visited with value %x, expected %x", p.k, p.v, v)
		}
	}
	for k, v := range want {
		if !seen[k] {
			return fmt.Sprintf("key %x (value %x) not visited", k, v)
		}
	}
	return ""
}

func (comp) Run(h *core.History, scratch string) *core.Result {
	cfg := core.ParseArgs(h.Config)
	tickHist := len(cfg) > 3 && cfg[3].Int() == 1
	attempts := 1
	if tickHist {
		attempts = 4
	}
	var res *core.Result
	for a := 0; a < attempts; a++ {
		var hazard bool
		res, hazard = runOnce(h, fmt.Sprintf("%s/a%d", scratch, a))
		if !hazard {
			if a > 0 {
				res.Hit("timer-hazard-retried")
			}
			return res
		}
	}
	res.Hit("timer-hazard-unresolved")
	return res
}

func runOnce(h *core.History, scratch string) (*core.Result, bool) {
	res := &core.Result{}
	cfg := core.ParseArgs(h.Config)
	w := &world{kind: cfg[0].Int(), max: cfg[1].Int(), nsh: cfg[2].Int(), delay: cfg[3].Int(), root: scratch + "/db",
		ref: map[string][]byte{}, flushed: map[string][]byte{}, pendPut: map[string]bool{}, pendRem: map[string]bool{}, everUsed: map[int]bool{}}
	for _, a := range cfg[4].List {
		w.alpha = append(w.alpha, a.Bytes())
	}
	w.levelDB = w.kind != 2 && w.kind != 5
	w.shardedKind = w.kind >= 3
	w.pend = make([]int, 1)
	if w.shardedKind {
		sp, err := sharded.NewShardIDProvider(int32(w.nsh))
		if err != nil {
			res.AddObs("!init")
			return res, false
		}
		w.sp = sp
		w.pend = make([]int, w.nsh)
	}
	if w.levelDB {
		if err := os.MkdirAll(scratch, 0o700); err != nil {
			panic(err)
		}
	}
	if err := w.open(); err != nil {
		panic(fmt.Sprintf("cannot open persister: %v", err))
	}
	defer func() {
		if w.p != nil {
			_ = w.p.Close()
		}
		if w.levelDB {
			_ = os.RemoveAll(scratch)
		}
	}()

	c08 := w.props("C08")
	c09 := w.props("C09")

	for i, op := range h.Ops {
		res.Scribble() // the key buffers handed to the previous call are reused by their caller
		w.curRes, w.curStep = res, i
		a := op.Parsed()
		var key []byte
		if len(a) > 0 {
			key = a[0].Bytes()
		}
		open := !w.closedCalled
		class := 0
		ret := "-"
		extra := ""
		var judge *core.Op
		if op.Code != opTick {
			w.checkHazard()
		}
		switch op.Code {
		case opPut:
			val := a[1].Bytes()
			err := w.p.Put(res.CallerKey(key), val)
			class = classOf(err)
			if open {
				if err != nil {
					failAll(res, c08, i, "Put(%x,%x) on an open persister failed: %v", key, val, err)
				} else {
					ks := string(key)
					if val == nil {
						res.Hit("nil-value")
					} else if len(val) == 0 {
						res.Hit("empty-value")
					}
					if w.levelDB {
						if fv, ok := w.flushed[ks]; ok && !w.pendPut[ks] && !w.pendRem[ks] && !bytes.Equal(canon(fv), canon(val)) {
							res.Hit("overwrite-after-flush")
						}
						if w.pendRem[ks] {
							res.Hit("remove-then-put-in-batch")
						}
						if w.pendPut[ks] {
							res.Hit("overwrite-in-batch")
						}
					}
					w.ref[ks] = canon(val)
					w.acknowledged(res, key, true)
				}
			} else {
				res.Hit("op-on-closed")
				if err == nil && w.levelDB {
					res.Hit("put-on-closed-acknowledged")
				}
			}
		case opRemove:
			err := w.p.Remove(res.CallerKey(key))
			class = classOf(err)
			if open {
				if err != nil {
					failAll(res, c08, i, "Remove(%x) on an open persister failed: %v", key, err)
				} else {
					ks := string(key)
					if w.levelDB {
						if w.pendPut[ks] {
							res.Hit("put-then-remove-in-batch")
						}
						if _, ok := w.flushed[ks]; ok && !w.pendPut[ks] {
							res.Hit("remove-of-flushed-key")
						}
					}
					if _, ok := w.ref[ks]; !ok {
						res.Hit("remove-of-absent-key")
					}
					delete(w.ref, ks)
					w.acknowledged(res, key, false)
				}
			} else {
				res.Hit("op-on-closed")
			}
		case opGet:
			v, err := w.p.Get(res.CallerKey(key))
			class = classOf(err)
			if err == nil {
				ret = core.B(canon(v))
			}
			if open && w.levelDB {
				ks := string(key)
				switch {
				case w.pendPut[ks]:
					res.Hit("read-from-batch")
				case w.pendRem[ks]:
					res.Hit("read-removed-in-batch")
				default:
					if _, ok := w.flushed[ks]; ok {
						res.Hit("read-from-disk")
					} else {
						res.Hit("read-absent")
					}
				}
			}
			if !open {
				res.Hit("op-on-closed")
			}
		case opHas:
			class = classOf(w.p.Has(res.CallerKey(key)))
		case opTick:
			if w.delay == 1 && w.levelDB && open {
				// sleep until the next firing of every timer has certainly happened
				pending := false
				for _, n := range w.pend {
					if n > 0 {
						pending = true
					}
				}
				now := time.Now()
				k := w.fires + 1
				if !now.Before(w.lowerBound(k)) {
					// already inside the window of firing k: it happens after the last write either way (Tick is idempotent)
				}
				time.Sleep(time.Until(w.upperBound(k)))
				w.fires = k
				if pending {
					res.Hit("tick-flush")
				} else {
					res.Hit("tick-empty-batch")
				}
				w.flushAll()
			}
		case opClose:
			if open && w.levelDB {
				pending, onlyPut, onlyRem := 0, true, true
				for _, n := range w.pend {
					pending += n
				}
				for range w.pendPut {
					onlyRem = false
				}
				for range w.pendRem {
					onlyPut = false
				}
				switch {
				case pending == 0:
					res.Hit("close-with-empty-batch")
				case onlyPut:
					res.Hit("close-with-partial-batch-puts")
				case onlyRem:
					res.Hit("close-with-partial-batch-removals")
				default:
					res.Hit("close-with-partial-batch-mixed")
				}
			}
			err := w.p.Close()
			class = classOf(err)
			if open {
				w.closeOK = err == nil
				w.flushAll()
			} else {
				res.Hit("double-close")
			}
			w.closedCalled = true
		case opReopen:
			if !w.closedCalled {
				class = 3
				break
			}
			wasDestroyed := w.destroyed
			if err := w.open(); err != nil {
				panic(fmt.Sprintf("cannot reopen persister: %v", err))
			}
			how := "Close+reopen"
			if wasDestroyed {
				how = "Destroy+reopen"
			}
			if !w.levelDB {
				// memorydb has no path: a new object is a new empty map (C09 does not speak about it)
				w.ref = map[string][]byte{}
				w.flushed = map[string][]byte{}
			} else if w.closeOK {
				if wasDestroyed {
					// nothing resurrected: the persister opened on a destroyed path is empty (w.ref is empty)
					res.Hit("reopen-after-destroy")
				} else {
					res.Hit("reopen")
				}
				// C09: exactly the acknowledged map, via Get, Has and RangeKeys
				for _, k := range w.alpha {
					v, err := w.p.Get(res.CallerKey(k))
					herr := w.p.Has(res.CallerKey(k))
					want, ok := w.ref[string(k)]
					switch {
					case ok && err != nil:
						failAll(res, c09, i, "after %s Get(%x) fails with %v; acknowledged value %x was lost", how, k, err, want)
					case ok && !bytes.Equal(canon(v), want):
						failAll(res, c09, i, "after %s Get(%x) = %x; the acknowledged value is %x", how, k, v, want)
					case !ok && classOf(err) != 1:
						failAll(res, c09, i, "after %s Get(%x) = %x,%v; the key was never put, was removed or was destroyed (resurrected)", how, k, v, err)
					}
					if (herr == nil) != ok {
						failAll(res, c09, i, "after %s Has(%x) = %v; key acknowledged present: %v", how, k, herr, ok)
					}
				}
				if msg := comparePairs(w.rangePairs(), w.ref); msg != "" {
					failAll(res, c09, i, "after %s RangeKeys does not present the acknowledged map: %s", how, msg)
				}
			}
		case opRange:
			ps := w.rangePairs()
			toks := make([]string, 0, 2*len(ps))
			for _, p := range ps {
				toks = append(toks, core.B(p.k), core.B(p.v))
			}
			extra = core.Lbl(6, core.L(toks...))
			if open {
				want := w.flushed
				if !w.levelDB {
					want = w.ref
				}
				if msg := comparePairs(ps, want); msg != "" {
					failAll(res, c09, i, "RangeKeys on an open persister does not visit every flushed key exactly once with its flushed value: %s", msg)
				}
				if len(ps) > 0 {
					res.Hit("range-nonempty")
				}
				if w.levelDB && len(w.pendPut)+len(w.pendRem) > 0 {
					res.Hit("range-with-pending-batch")
				}
				if w.shardedKind {
					sh := map[int]bool{}
					for _, p := range ps {
						sh[w.shard(p.k)] = true
					}
					if len(sh) >= 2 {
						res.Hit("range-union-of-shards")
					}
				}
			} else if w.levelDB && len(ps) > 0 {
				failAll(res, c09, i, "RangeKeys on a closed persister visited %d pairs", len(ps))
			}
		case opRangeStop:
			n := a[0].Int()
			vs := w.stopVisits(n)
			toks := make([]string, 0, 2*len(vs))
			for _, p := range vs {
				toks = append(toks, core.B(p.k), core.B(p.v))
			}
			if !w.shardedKind {
				extra = core.Lbl(7, core.N(uint64(len(vs))))
				if w.levelDB {
					extra += " " + core.Lbl(8, core.L(toks...))
				}
			}
			jop := core.NewOp(opJudge, "what the handler of the previous op was given, in call order", core.N(uint64(n)), core.L(toks...))
			judge = &jop
			if open {
				want := w.flushed
				if !w.levelDB {
					want = w.ref
				}
				if msg := w.checkStopVisits(n, vs, want); msg != "" {
					failAll(res, c09, i, "RangeKeys with a handler that stops after %d visits: %s", n, msg)
				}
				nEff := n
				if nEff < 1 {
					nEff = 1
				}
				switch {
				case len(vs) < len(want):
					res.Hit("range-early-stop")
				case len(want) > 0 && nEff > len(want):
					res.Hit("range-stop-not-reached")
				}
				if w.shardedKind && len(vs) > nEff {
					res.Hit("range-stop-continued-in-next-shard")
				}
			} else {
				res.Hit("range-stop-on-closed")
				if w.levelDB && len(vs) > 0 {
					failAll(res, c09, i, "RangeKeys on a closed / destroyed persister visited %d pairs", len(vs))
				}
			}
		case opDestroy:
			err := w.p.Destroy()
			class = classOf(err)
			if open {
				res.Hit("destroy-open")
				if w.levelDB && len(w.pendPut)+len(w.pendRem) > 0 {
					res.Hit("destroy-with-pending-batch")
				}
			} else {
				res.Hit("destroy-on-closed")
			}
			if err != nil {
				failAll(res, c09, i, "Destroy failed: %v", err)
			} else {
				if left := w.dirsLeft(); len(left) > 0 {
					failAll(res, c09, i, "Destroy returned nil but the stored data is still there: %v", left)
				}
				w.forgetAll()
				w.destroyed = true
				w.closeOK = true
			}
			w.closedCalled = true
			if !w.levelDB && err == nil {
				// memorydb: Destroy empties the map, the object lives on
				for _, k := range w.alpha {
					if _, gerr := w.p.Get(res.CallerKey(k)); gerr == nil || w.p.Has(res.CallerKey(k)) == nil {
						failAll(res, c09, i, "after Destroy key %x is still present", k)
					}
				}
				if ps := w.rangePairs(); len(ps) > 0 {
					failAll(res, c09, i, "after Destroy RangeKeys still visits %d pairs", len(ps))
				}
			}
		case opDestroyClosed:
			if !w.closedCalled {
				class = 3
				break
			}
			err := w.p.DestroyClosed()
			class = classOf(err)
			res.Hit("destroy-closed")
			if err != nil {
				failAll(res, c09, i, "DestroyClosed failed: %v", err)
			} else {
				if left := w.dirsLeft(); len(left) > 0 {
					failAll(res, c09, i, "DestroyClosed returned nil but the stored data is still there: %v", left)
				}
				w.forgetAll()
				w.destroyed = true
				w.closeOK = true
			}
		case opJudge:
			// only ever inserted by this driver; a history that carries one is answered like an accepted judgement
			extra = core.Lbl(9, core.N(1))
		}

		// probes: Get / Has of every key of the alphabet
		gc := make([]string, len(w.alpha))
		gb := make([]string, len(w.alpha))
		hc := make([]string, len(w.alpha))
		for j, k := range w.alpha {
			v, err := w.p.Get(res.CallerKey(k))
			herr := w.p.Has(res.CallerKey(k))
			gc[j] = core.N(uint64(classOf(err)))
			gb[j] = "-"
			if err == nil {
				gb[j] = core.B(canon(v))
			}
			hc[j] = core.N(uint64(classOf(herr)))
			if !w.closedCalled {
				// C08 (and the single-map half of C19): the latest acknowledged write, whatever the batching state
				want, ok := w.ref[string(k)]
				switch {
				case ok && err != nil:
					failAll(res, c08, i, "Get(%x) fails with %v; the latest acknowledged Put wrote %x", k, err, want)
				case ok && !bytes.Equal(canon(v), want):
					failAll(res, c08, i, "Get(%x) = %x; the latest acknowledged Put wrote %x", k, v, want)
				case !ok && err == nil:
					failAll(res, c08, i, "Get(%x) = %x; the key was never put or has been removed", k, v)
				case !ok && classOf(err) != 1:
					failAll(res, c08, i, "Get(%x) of an absent key fails with %v instead of a not-found error", k, err)
				}
				if (herr == nil) != (err == nil) || classOf(herr) != classOf(err) {
					failAll(res, c08, i, "Has(%x) = %v disagrees with Get = %v", k, herr, err)
				}
			}
		}
		toks := []string{core.Lbl(1, core.N(uint64(class))), core.Lbl(2, ret)}
		if extra != "" {
			toks = append(toks, extra)
		}
		probes := []string{core.Lbl(3, core.L(gc...)), core.Lbl(4, core.L(gb...)), core.Lbl(5, core.L(hc...))}
		toks = append(toks, probes...)
		res.AddObs(toks...)
		if judge != nil {
			res.Insert(i, *judge, append([]string{core.Lbl(1, core.N(0)), core.Lbl(2, "-"), core.Lbl(9, core.N(1))}, probes...)...)
		}
	}
	w.checkHazard()
	if w.shardedKind && len(w.everUsed) >= 2 {
		res.Hit("writes-in-several-shards")
	}
	return res, w.hazard
}

// an acknowledged write on an open persister: the flush discipline of the documentation
// (a batch is written when MaxBatchSize writes have been acknowledged since the last flush)
func (w *world) acknowledged(res *core.Result, key []byte, isPut bool) {
	i := w.shard(key)
	w.everUsed[i] = true
	if !w.levelDB {
		return
	}
	ks := string(key)
	if isPut {
		w.pendPut[ks] = true
		delete(w.pendRem, ks)
	} else {
		w.pendRem[ks] = true
		delete(w.pendPut, ks)
	}
	w.pend[i]++
	if w.pend[i] >= w.max {
		w.flushShard(i)
		res.Hit("flush-by-size")
	}
}
