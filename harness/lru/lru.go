// Package lru drives lrucache.NewCache (kind 0: hashicorp LRU behind simpleLRUCacheAdapter) and
// lrucache.NewCacheWithSizeInBytes (kind 1: capacityLRU) for property C15.
//
// History format (see coq/theories/Lru/LruComp.v):
//
//	config kind cap maxBytes [ keys ]
//	o 1 key value size  Put       o 2 key value size  HasOrAdd   o 3 key Get   o 4 key Peek   o 5 key Has
//	o 6 key Remove      o 7 Clear  o 8 id isnil RegisterHandler   o 9 id UnRegisterHandler
//
// The monitors compare the implementation with a reference LRU (type refLRU below) written from the
// text of C15, not from the Coq model.
package lru

import (
	"bytes"
	"fmt"
	"math/rand"
	"runtime"
	"sort"
	"strings"
	"sync/atomic"
	"time"

	logger "github.com/multiversx/mx-chain-logger-go"
	"github.com/multiversx/mx-chain-storage-go/lrucache"
	"github.com/multiversx/mx-chain-storage-go/types"
	"verifharness/core"
)

type comp struct{}

func init() {
	core.Register(comp{})
	// the caches log every rejected negative size at ERROR level: silence the logger (output only, no behaviour)
	_ = logger.SetLogLevel("*:NONE")
}

func (comp) Name() string { return "lru" }

const (
	opPut = iota + 1
	opHasOrAdd
	opGet
	opPeek
	opHas
	opRemove
	opClear
	opRegister
	opUnRegister
)

var allKeys = [][]byte{[]byte("a"), []byte("b"), {}, []byte("c"), []byte("aa"), []byte("d"), []byte("e")}                          // the empty key is legal
var allVals = [][]byte{[]byte("v1"), []byte("v2"), []byte("V1"), []byte("w"), {0x80}, {0xff}, {}, core.NilValue, core.LongValue()} // incl. the untyped nil (negative-caching marker)
var allIDs = [][]byte{[]byte("h1"), []byte("h2"), []byte("h3")}

const hugeBytes = int64(1) << 40

func setConfig(h *core.History, kind int, capacity int, maxBytes int64, keys [][]byte) {
	h.SetConfig(core.N(uint64(kind)), core.N(uint64(capacity)), core.N(uint64(maxBytes)), core.LB(keys))
}

func addPut(h *core.History, code int, k, v []byte, sz int64) {
	name := "Put"
	if code == opHasOrAdd {
		name = "HasOrAdd"
	}
	h.Add(code, fmt.Sprintf("%s(%s,%s,%d)", name, k, v, sz), core.B(k), core.B(v), core.I(sz))
}

func addKeyOp(h *core.History, code int, k []byte) {
	names := map[int]string{opGet: "Get", opPeek: "Peek", opHas: "Has", opRemove: "Remove"}
	h.Add(code, fmt.Sprintf("%s(%s)", names[code], k), core.B(k))
}

// Gen: one random history. Every choice from rng.
func (comp) Gen(prop string, rng *rand.Rand, tier string) *core.History {
	h := &core.History{}
	kind := 1
	if core.Chance(rng, 1, 3) {
		kind = 0
	}
	capacity := core.Pick(rng, []int{1, 2, 3, 5})
	maxBytes := core.Pick(rng, []int64{1, 30, 100, hugeBytes})
	nkeys := 3 + rng.Intn(4)
	keys := core.WithLongKeys(rng, allKeys[:nkeys], 12)
	setConfig(h, kind, capacity, maxBytes, keys)
	sizes := []int64{-1, 0, 1, 40, 40, 90, 150, maxBytes + 1}
	if maxBytes == hugeBytes {
		sizes = []int64{-1, 0, 1, 40, 40, 90, 150}
	}
	if core.Chance(rng, 1, 12) {
		sizes = append(sizes, 1<<31, 1<<32, 1<<32+5) // edge of the 32-bit range (sizes are ints, the byte counter an int64)
	}
	nops := core.LongHistory(rng, 20+rng.Intn(41))
	for i := 0; i < nops; i++ {
		k := core.Pick(rng, keys)
		r := rng.Intn(100)
		switch {
		case r < 32:
			addPut(h, opPut, k, core.Pick(rng, allVals), core.Pick(rng, sizes))
		case r < 47:
			addPut(h, opHasOrAdd, k, core.Pick(rng, allVals), core.Pick(rng, sizes))
		case r < 60:
			addKeyOp(h, opGet, k)
		case r < 66:
			addKeyOp(h, opPeek, k)
		case r < 72:
			addKeyOp(h, opHas, k)
		case r < 81:
			addKeyOp(h, opRemove, k)
		case r < 83:
			h.Add(opClear, "Clear")
		case r < 93:
			id := core.Pick(rng, allIDs)
			isnil := core.Chance(rng, 1, 10)
			h.Add(opRegister, fmt.Sprintf("RegisterHandler(%s,nil=%v)", id, isnil), core.B(id), core.Bool(isnil))
		default:
			id := core.Pick(rng, allIDs)
			h.Add(opUnRegister, fmt.Sprintf("UnRegisterHandler(%s)", id), core.B(id))
		}
	}
	return h
}

type xop struct {
	code int
	k, v []byte
	sz   int64
	nilh bool
}

func (x xop) addTo(h *core.History) {
	switch x.code {
	case opPut, opHasOrAdd:
		addPut(h, x.code, x.k, x.v, x.sz)
	case opGet, opPeek, opHas, opRemove:
		addKeyOp(h, x.code, x.k)
	case opClear:
		h.Add(opClear, "Clear")
	case opRegister:
		h.Add(opRegister, fmt.Sprintf("RegisterHandler(%s)", x.k), core.B(x.k), core.Bool(x.nilh))
	case opUnRegister:
		h.Add(opUnRegister, fmt.Sprintf("UnRegisterHandler(%s)", x.k), core.B(x.k))
	}
}

// Exhaustive: every op sequence of a fixed length (prefixes are covered because observables are
// printed after every op) over three alphabets of 10 op instances on 3 keys.
func (comp) Exhaustive(prop string, tier string, yield func(*core.History)) {
	if strings.HasSuffix(prop, ":scale") {
		// MONITOR-ONLY scale histories (the model is not run: the reference LRU of the monitor is the oracle): populations beyond
		// the powers of two at which batching / in-place thresholds are typically placed (1024, 4096), then Clear, then a refill
		for kind := 0; kind < 2; kind++ {
			for _, capacity := range []int{1100} {
				n := capacity + 150
				name := func(j int) []byte { return []byte(fmt.Sprintf("k%05d", j)) }
				all := make([][]byte, n)
				for j := range all {
					all[j] = name(j)
				}
				h := &core.History{}
				setConfig(h, kind, capacity, int64(capacity)*100+5000, all[:8])
				for j := 0; j < n; j++ {
					addPut(h, opPut, name(j), []byte("v1"), 100)
				}
				h.Add(opClear, "Clear")
				for j := 0; j < 40; j++ {
					addPut(h, opPut, name(j), []byte("v2"), 100)
				}
				h.Add(opGet, "Get", core.B(name(0)))
				yield(h)
			}
		}
		return
	}
	// LARGE-POPULATION histories (beyond the small scope): a cache of several hundred entries filled past its capacity; a threshold
	// or batch boundary inside the eviction path shows here and nowhere else
	for kind := 0; kind < 2; kind++ {
		capacity, n := 530, 700
		if tier == "thorough" {
			capacity, n = 1100, 1500
		}
		name := func(j int) []byte { return []byte(fmt.Sprintf("k%04d", j)) }
		h := &core.History{}
		setConfig(h, kind, capacity, int64(capacity)+40, [][]byte{name(0), name(1), name(100), name(n - capacity - 1), name(n - capacity), name(511), name(512), name(n - 1)})
		for j := 0; j < n; j++ {
			addPut(h, opPut, name(j), []byte("v1"), 1)
			if j == 300 {
				h.Add(opGet, "Get(k0100)", core.B(name(100))) // refreshed: survives longer than its neighbours
			}
		}
		h.Add(opGet, "Get(k0100)", core.B(name(100)))
		h.Add(opHas, "Has", core.B(name(n-capacity)))
		yield(h)
	}
	a, b, c := []byte("a"), []byte("b"), []byte("c")
	v1, v2 := []byte("v1"), []byte("v2")
	h1, h2 := []byte("h1"), []byte("h2")
	keys := [][]byte{a, b, c}
	type scope struct {
		kind, capacity int
		maxBytes       int64
		prefix         []xop
		ops            []xop
	}
	scopes := []scope{
		{1, 2, 100, nil, []xop{
			{code: opPut, k: a, v: v1, sz: 40}, {code: opPut, k: b, v: v1, sz: 40}, {code: opPut, k: c, v: v2, sz: 90},
			{code: opPut, k: a, v: v2, sz: 90}, {code: opPut, k: b, v: v2, sz: 1}, {code: opPut, k: c, v: v1, sz: -1},
			{code: opHasOrAdd, k: a, v: v1, sz: 40}, {code: opHasOrAdd, k: c, v: v1, sz: -1},
			{code: opGet, k: a}, {code: opRemove, k: b}}},
		{0, 2, 100, nil, []xop{
			{code: opPut, k: a, v: v1, sz: 40}, {code: opPut, k: b, v: v1, sz: -1}, {code: opPut, k: c, v: v2, sz: 90},
			{code: opPut, k: a, v: v2, sz: 90}, {code: opHasOrAdd, k: a, v: v1, sz: 40}, {code: opHasOrAdd, k: c, v: v1, sz: -1},
			{code: opGet, k: a}, {code: opGet, k: b}, {code: opRemove, k: a}, {code: opClear}}},
		{1, 3, 100, []xop{{code: opRegister, k: h1}}, []xop{
			{code: opPut, k: a, v: v1, sz: 40}, {code: opPut, k: b, v: v1, sz: 40}, {code: opPut, k: c, v: v1, sz: 40},
			{code: opPut, k: a, v: v2, sz: 150}, {code: opHasOrAdd, k: b, v: v2, sz: 90}, {code: opGet, k: a},
			{code: opRemove, k: a}, {code: opClear}, {code: opRegister, k: h2}, {code: opUnRegister, k: h1}}},
	}
	length := 4
	if tier == "thorough" {
		length = 5
	}
	for _, sc := range scopes {
		idx := make([]int, length)
		for {
			h := &core.History{}
			setConfig(h, sc.kind, sc.capacity, sc.maxBytes, keys)
			for _, x := range sc.prefix {
				x.addTo(h)
			}
			for _, i := range idx {
				sc.ops[i].addTo(h)
			}
			yield(h)
			p := length - 1
			for p >= 0 {
				idx[p]++
				if idx[p] < len(sc.ops) {
					break
				}
				idx[p] = 0
				p--
			}
			if p < 0 {
				break
			}
		}
	}
}

// ---- reference LRU, from the text of C15 ----
//
// "Keys lists residents from least to most recently used, where only Put, an inserting HasOrAdd and
// Get refresh recency; the least recently used entries are evicted when the item capacity - or, for
// the sized variant, the byte capacity - is exceeded, except that the most recently written entry
// always stays. ... negative sizes (rejected)"

type refEntry struct {
	key  string
	val  []byte
	size int64
}

type refLRU struct {
	sized    bool
	capacity int
	maxBytes int64
	ents     []refEntry // least recently used first
}

func (r *refLRU) find(k string) int {
	for i := range r.ents {
		if r.ents[i].key == k {
			return i
		}
	}
	return -1
}

func (r *refLRU) bytes() int64 {
	var s int64
	for _, e := range r.ents {
		s += e.size
	}
	return s
}

func (r *refLRU) drop(i int) { r.ents = append(r.ents[:i:i], r.ents[i+1:]...) }

// write makes (k,v,size) the most recently used entry and evicts; returns whether anything was evicted
func (r *refLRU) write(k string, v []byte, size int64) (evicted bool) {
	if i := r.find(k); i >= 0 {
		r.drop(i)
	}
	r.ents = append(r.ents, refEntry{k, v, size})
	for len(r.ents) > 1 && (len(r.ents) > r.capacity || (r.sized && r.bytes() > r.maxBytes)) {
		r.drop(0)
		evicted = true
	}
	return evicted
}

func (r *refLRU) put(k string, v []byte, size int64) (accepted, evicted bool) {
	if r.sized && size < 0 {
		return false, false
	}
	return true, r.write(k, v, size)
}

func (r *refLRU) hasOrAdd(k string, v []byte, size int64) (has, added bool) {
	if r.find(k) >= 0 {
		return true, false
	}
	if r.sized && size < 0 {
		return false, false
	}
	r.write(k, v, size)
	return false, true
}

func (r *refLRU) get(k string) ([]byte, bool) {
	i := r.find(k)
	if i < 0 {
		return nil, false
	}
	e := r.ents[i]
	r.drop(i)
	r.ents = append(r.ents, e)
	return e.val, true
}

func (r *refLRU) peek(k string) ([]byte, bool) {
	i := r.find(k)
	if i < 0 {
		return nil, false
	}
	return r.ents[i].val, true
}

func (r *refLRU) remove(k string) {
	if i := r.find(k); i >= 0 {
		r.drop(i)
	}
}

func (r *refLRU) keys() []string {
	out := make([]string, len(r.ents))
	for i, e := range r.ents {
		out[i] = e.key
	}
	return out
}

var oneShotBroken atomic.Bool

// ---- handler invocations ----

type invocation struct {
	id, key string
	val     []byte
	valOK   bool
	gen     int // which registration of this id the invoked function belongs to
}

func invLess(a, b invocation) bool {
	if a.id != b.id {
		return a.id < b.id
	}
	if a.key != b.key {
		return a.key < b.key
	}
	return bytes.Compare(a.val, b.val) < 0
}

// collect waits until `expect` invocations arrived (or the time-out passed), then gives late or
// surplus goroutines a chance to run and drains whatever else arrived.
func collect(ch chan invocation, expect int) []invocation {
	var got []invocation
	if expect > 0 {
		deadline := time.After(3 * time.Second)
	wait:
		for len(got) < expect {
			select {
			case x := <-ch:
				got = append(got, x)
			case <-deadline:
				break wait
			}
		}
	}
	for i := 0; i < 2; i++ {
		runtime.Gosched()
	drain:
		for {
			select {
			case x := <-ch:
				got = append(got, x)
			default:
				break drain
			}
		}
	}
	sort.Slice(got, func(i, j int) bool { return invLess(got[i], got[j]) })
	return got
}

func asBytes(v interface{}, ok bool) ([]byte, bool) {
	if !ok {
		return nil, false
	}
	b, isB := core.FromValue(v)
	if !isB {
		return nil, false
	}
	return b, true
}

func keyStrings(ks [][]byte) []string {
	out := make([]string, len(ks))
	for i, k := range ks {
		out[i] = string(k)
	}
	return out
}

func sameStrings(a, b []string) bool {
	if len(a) != len(b) {
		return false
	}
	for i := range a {
		if a[i] != b[i] {
			return false
		}
	}
	return true
}

// victimsAreLRUPrefix: the keys that left (other than by the op's own key) are the oldest ones of `before`
func victimsAreLRUPrefix(before, after []string, written string) (victims []string, ok bool) {
	in := map[string]bool{}
	for _, k := range after {
		in[k] = true
	}
	var rest []string // before, without the written key
	for _, k := range before {
		if k != written {
			rest = append(rest, k)
		}
	}
	ok = true
	gone := true // still in the evicted prefix
	for _, k := range rest {
		if !in[k] {
			victims = append(victims, k)
			if !gone {
				ok = false // a younger entry left while an older one stayed
			}
		} else {
			gone = false
		}
	}
	return victims, ok
}

func (comp) Run(h *core.History, scratch string) *core.Result {
	res := &core.Result{}
	cfg := core.ParseArgs(h.Config)
	kind, capacity, maxBytes := cfg[0].Int(), cfg[1].Int(), cfg[2].I64()
	var alpha [][]byte
	for _, a := range cfg[3].List {
		alpha = append(alpha, a.Bytes())
	}
	var cache types.Cacher
	var err error
	if kind == 0 {
		cache, err = lrucache.NewCache(capacity)
	} else {
		cache, err = lrucache.NewCacheWithSizeInBytes(capacity, maxBytes)
	}
	if err != nil {
		res.Obs = append(res.Obs, "init-rejected")
		return res
	}
	ref := &refLRU{sized: kind == 1, capacity: capacity, maxBytes: maxBytes}
	registered := map[string]bool{}
	ch := make(chan invocation, 256)
	// every registration creates a NEW function (a re-created component registering its new closure under its old id): an invocation
	// must come from the function registered LAST under that id
	gens := map[string]int{}
	mkHandler := func(id string) func(key []byte, value interface{}) {
		gens[id]++
		gen := gens[id]
		return func(key []byte, value interface{}) {
			b, ok := core.FromValue(value)
			ch <- invocation{id: id, key: string(key), val: b, valOK: ok, gen: gen}
		}
	}

	for i, op := range h.Ops {
		res.Scribble() // the key buffers handed to the previous call are reused by their caller
		a := op.Parsed()
		var toks []string
		before := keyStrings(cache.Keys())
		expectInv := 0
		inserting := false // a successful insertion per the reference
		var wKey string
		var wVal []byte
		isWrite := false
		var retPut, retHas, retAdded bool
		switch op.Code {
		case opPut:
			k, v, sz := a[0].Bytes(), a[1].Bytes(), a[2].I64()
			evicted := cache.Put(res.CallerKey(k), core.ToValue(v), int(sz))
			retPut = evicted
			toks = append(toks, core.Lbl(1, core.Bool(evicted)))
			prevSize, hadPrev := int64(0), false
			if j := ref.find(string(k)); j >= 0 {
				prevSize, hadPrev = ref.ents[j].size, true
			}
			accepted, refEv := ref.put(string(k), v, sz)
			if accepted && hadPrev && kind == 1 {
				if sz > prevSize {
					res.Hit("overwrite-grow")
				} else if sz < prevSize {
					res.Hit("overwrite-shrink")
				}
			}
			if evicted != refEv {
				res.Failf("C15", i, "Put(%s,size %d) returned evicted=%v, the reference LRU says %v", k, sz, evicted, refEv)
			}
			expectInv = len(registered) // the implementation starts the handlers on every Put
			inserting = accepted
			isWrite, wKey, wVal = true, string(k), v
			if !accepted {
				res.Hit("put-rejected-negative-size")
			} else {
				if refEv {
					res.Hit("put-evicts")
				}
				if kind == 1 && sz > maxBytes {
					res.Hit("oversized-single-item")
				}
			}
		case opHasOrAdd:
			k, v, sz := a[0].Bytes(), a[1].Bytes(), a[2].I64()
			has, added := cache.HasOrAdd(res.CallerKey(k), core.ToValue(v), int(sz))
			retHas, retAdded = has, added
			toks = append(toks, core.Lbl(2, core.Bool(has)), core.Lbl(3, core.Bool(added)))
			rHas, rAdded := ref.hasOrAdd(string(k), v, sz)
			if has != rHas || added != rAdded {
				res.Failf("C15", i, "HasOrAdd(%s,size %d) returned (has=%v, added=%v), the reference LRU says (%v, %v)", k, sz, has, added, rHas, rAdded)
			}
			if added {
				expectInv = len(registered)
			}
			inserting = rAdded
			isWrite, wKey, wVal = true, string(k), v
			if rHas {
				res.Hit("hasoradd-present")
			} else if rAdded {
				res.Hit("hasoradd-inserts")
			} else {
				res.Hit("hasoradd-rejected-negative-size")
			}
		case opGet:
			k := a[0].Bytes()
			v, ok := asBytes(cache.Get(k))
			toks = append(toks, core.Lbl(4, core.OB(nilIfNot(ok, v))), core.Lbl(5, core.Bool(ok)))
			rv, rok := ref.get(string(k))
			if ok != rok || (ok && !bytes.Equal(v, rv)) {
				res.Failf("C15", i, "Get(%s) = (%x,%v), the reference LRU says (%x,%v)", k, v, ok, rv, rok)
			}
			if ok {
				res.Hit("get-refreshes")
			}
		case opPeek:
			k := a[0].Bytes()
			v, ok := asBytes(cache.Peek(k))
			toks = append(toks, core.Lbl(6, core.OB(nilIfNot(ok, v))), core.Lbl(7, core.Bool(ok)))
			rv, rok := ref.peek(string(k))
			if ok != rok || (ok && !bytes.Equal(v, rv)) {
				res.Failf("C15", i, "Peek(%s) = (%x,%v), the reference LRU says (%x,%v)", k, v, ok, rv, rok)
			}
		case opHas:
			k := a[0].Bytes()
			has := cache.Has(k)
			toks = append(toks, core.Lbl(8, core.Bool(has)))
			if _, rok := ref.peek(string(k)); has != rok {
				res.Failf("C15", i, "Has(%s) = %v, the reference LRU says %v", k, has, rok)
			}
		case opRemove:
			k := a[0].Bytes()
			cache.Remove(k)
			ref.remove(string(k))
		case opClear:
			cache.Clear()
			ref.ents = nil
		case opRegister:
			id, isnil := string(a[0].Bytes()), a[1].Bool()
			if isnil {
				cache.RegisterHandler(nil, id)
			} else {
				cache.RegisterHandler(mkHandler(id), id)
				registered[id] = true
			}
		case opUnRegister:
			id := string(a[0].Bytes())
			cache.UnRegisterHandler(id)
			delete(registered, id)
		}

		// ---- observables after the op
		keys := res.OwnKeys("C15", i, "Keys()", cache.Keys())
		after := keyStrings(keys)
		length := cache.Len()
		size := cache.SizeInBytesContained()
		invs := collect(ch, expectInv)
		invToks := make([]string, len(invs))
		for _, x := range invs {
			if x.gen != gens[x.id] {
				res.Failf("C15", i, "the function registered under id %q at its registration #%d was invoked; the id was registered again since (#%d): a replaced handler still fires", x.id, x.gen, gens[x.id])
			}
		}
		for j, x := range invs {
			invToks[j] = core.L(core.B([]byte(x.id)), core.B([]byte(x.key)), core.B(x.val))
		}
		peeks := make([]string, len(alpha))
		hass := make([]string, len(alpha))
		for j, k := range alpha {
			v, ok := asBytes(cache.Peek(k))
			peeks[j] = core.OB(nilIfNot(ok, v))
			hass[j] = core.Bool(cache.Has(k))
		}
		toks = append(toks,
			core.Lbl(10, core.LB(keys)), core.Lbl(11, core.N(uint64(length))), core.Lbl(12, core.N(size)),
			core.Lbl(13, core.L(invToks...)), core.Lbl(14, core.L(peeks...)), core.Lbl(15, core.L(hass...)))
		res.AddObs(toks...)

		// ---- monitors (text of C15)
		if rk := ref.keys(); !sameStrings(after, rk) {
			res.Failf("C15", i, "Keys() = %q, the reference LRU holds %q (least to most recently used)", after, rk)
		}
		if length != len(ref.ents) {
			res.Failf("C15", i, "Len() = %d, the reference LRU holds %d", length, len(ref.ents))
		}
		if kind == 1 && size != uint64(ref.bytes()) {
			res.Failf("C15", i, "SizeInBytesContained() = %d, the sum of the resident sizes is %d", size, ref.bytes())
		}
		for _, k := range alpha {
			v, ok := asBytes(cache.Peek(k))
			rv, rok := ref.peek(string(k))
			if ok != rok || (ok && !bytes.Equal(v, rv)) || cache.Has(k) != rok {
				res.Failf("C15", i, "contents differ at key %s: Peek=(%x,%v) Has=%v, reference (%x,%v)", k, v, ok, cache.Has(k), rv, rok)
			}
		}
		if isWrite {
			victims, okPrefix := victimsAreLRUPrefix(before, after, wKey)
			if !okPrefix {
				res.Failf("C15", i, "entries %q left the cache although older ones stayed: before %q, after %q", victims, before, after)
			}
			// the flags against what is observed through Keys() alone (no reference involved)
			wasIn, isIn := indexOf(before, wKey) >= 0, indexOf(after, wKey) >= 0
			if op.Code == opPut && retPut != (len(victims) > 0) {
				res.Failf("C15", i, "Put(%s) returned evicted=%v but the entries that left are %q (before %q, after %q)", wKey, retPut, victims, before, after)
			}
			if op.Code == opHasOrAdd && (retHas != wasIn || retAdded != (!wasIn && isIn)) {
				res.Failf("C15", i, "HasOrAdd(%s) returned (has=%v, added=%v) but the key was resident before: %v, after: %v", wKey, retHas, retAdded, wasIn, isIn)
			}
			if inserting {
				if len(after) == 0 || after[len(after)-1] != wKey {
					res.Failf("C15", i, "the entry just written (%s) is not the most recently used one: Keys() = %q", wKey, after)
				}
				if v, ok := asBytes(cache.Peek([]byte(wKey))); !ok || !bytes.Equal(v, wVal) {
					res.Failf("C15", i, "the entry just written (%s) is not served: Peek = (%x,%v)", wKey, v, ok)
				}
				if len(victims) > 0 {
					over := indexOf(before, wKey) < 0 && len(before)+1 > capacity
					if over {
						res.Hit("eviction-by-count")
					} else {
						res.Hit("eviction-by-bytes")
					}
					if len(victims) > 1 {
						res.Hit("eviction-of-several")
					}
				}
				if idx := indexOf(before, wKey); idx >= 0 && op.Code == opPut && kind == 1 {
					res.Hit("overwrite")
					if len(victims) > 0 {
						res.Hit("overwrite-grow-evicts")
					}
				}
			} else if len(victims) > 0 {
				res.Failf("C15", i, "a write that inserted nothing removed %q", victims)
			}
		} else if op.Code != opRemove && op.Code != opClear {
			if len(after) != len(before) {
				res.Failf("C15", i, "a read changed the residents: before %q, after %q", before, after)
			}
		}
		// handlers: exactly one invocation per registered handler for a successful insertion, with key and value
		if inserting {
			want := make([]invocation, 0, len(registered))
			for id := range registered {
				want = append(want, invocation{id: id, key: wKey, val: wVal, valOK: true})
			}
			sort.Slice(want, func(x, y int) bool { return invLess(want[x], want[y]) })
			if !sameInvs(invs, want) {
				res.Failf("C15", i, "handler invocations %s, expected exactly one per registered handler: %s", fmtInvs(invs), fmtInvs(want))
			}
			if len(want) > 0 {
				res.Hit("handler-fired")
			}
			if len(want) > 1 {
				res.Hit("several-handlers-fired")
			}
		} else if len(invs) > 0 {
			if op.Code == opPut {
				// a rejected Put still starts the handlers; C15 constrains insertions only
				res.Hit("handler-fired-on-rejected-put")
			} else {
				res.Failf("C15", i, "handler invocations %s by an operation that inserted nothing", fmtInvs(invs))
			}
		}
		if kind == 1 && length == 1 && size > uint64(maxBytes) {
			res.Hit("single-resident-over-byte-capacity")
		}
	}
	// late invocations
	time.Sleep(200 * time.Microsecond)
	if late := collect(ch, 0); len(late) > 0 {
		res.Failf("C15", -1, "handler invocations after the history ended: %s", fmtInvs(late))
	}
	// a one-shot handler: it unregisters ITSELF from inside its invocation (and reads the cache); afterwards the registry still answers
	// (once this has failed in a run of the binary it is not tried again: every further history would wait for the watchdog)
	if !oneShotBroken.Load() {
		const oneShot = "verif-one-shot"
		done := make(chan struct{}, 4)
		cache.RegisterHandler(func(key []byte, value interface{}) {
			cache.UnRegisterHandler(oneShot)
			_ = cache.Has(key)
			done <- struct{}{}
		}, oneShot)
		cache.Put([]byte("verif-probe-key"), core.ToValue([]byte{1}), 1)
		alive := true
		select {
		case <-done:
		case <-time.After(3 * time.Second):
			alive = false
		}
		if alive {
			fin := make(chan struct{})
			go func() {
				cache.RegisterHandler(func([]byte, interface{}) {}, "verif-after")
				cache.UnRegisterHandler("verif-after")
				close(fin)
			}()
			select {
			case <-fin:
			case <-time.After(3 * time.Second):
				alive = false
			}
		}
		if !alive {
			oneShotBroken.Store(true)
			res.Failf("C15", -1, "a handler that calls UnRegisterHandler on itself from inside its invocation never returned, or RegisterHandler / UnRegisterHandler did not return afterwards (handlers invoked while the registry is locked)")
		}
	}
	return res
}

func nilIfNot(ok bool, v []byte) []byte {
	if !ok {
		return nil
	}
	if v == nil {
		return []byte{}
	}
	return v
}

func indexOf(l []string, s string) int {
	for i, x := range l {
		if x == s {
			return i
		}
	}
	return -1
}

func sameInvs(a, b []invocation) bool {
	if len(a) != len(b) {
		return false
	}
	for i := range a {
		if a[i].id != b[i].id || a[i].key != b[i].key || !bytes.Equal(a[i].val, b[i].val) || a[i].valOK != b[i].valOK {
			return false
		}
	}
	return true
}

func fmtInvs(l []invocation) string {
	s := "["
	for i, x := range l {
		if i > 0 {
			s += " "
		}
		s += fmt.Sprintf("%s(%s,%s)", x.id, x.key, x.val)
	}
	return s + "]"
}
