package pool

import (
	"fmt"
	"math/big"
	"time"

	"github.com/multiversx/mx-chain-storage-go/txcache"
	"verifharness/core"
)

// Extra (C01, C02): one selection over a pool of more than 65 536 accounts — a block's worth of senders and then some — judged by the
// same monitors as every other selection (the property text as Go predicates; the model is not run at this scale). Two fee payers
// (a sender with two nonces, a relayer shared by two senders) have a balance that covers the first of their fees only; tens of
// thousands of other accounts are looked up between their two transactions. Any per-selection state that is bounded, recycled or
// re-created from the session along the way shows as an over-commitment.
func (comp) Extra(prop string, tier string, seed int64, scratch string) *core.ExtraResult {
	out := &core.ExtraResult{Counts: map[string]int{}}
	nOthers := 70000
	if tier == "thorough" {
		nOthers = 140000
	}
	hst := &host{byHash: map[string]*txSpec{}}
	cfg := txcache.ConfigSourceMe{Name: "verif", NumChunks: 16, EvictionEnabled: false, NumBytesThreshold: 1 << 30, NumBytesPerSenderThreshold: 1 << 24,
		CountThreshold: 1 << 30, CountPerSenderThreshold: 1 << 20, NumItemsToPreemptivelyEvict: 1}
	cache, err := txcache.NewTxCache(cfg, hst)
	if err != nil {
		out.Fails = append(out.Fails, core.Fail{Property: prop, Step: -1, Msg: "scale: NewTxCache: " + err.Error()})
		return out
	}
	sess := &session{accts: map[string]acctState{}, guarded: map[string]bool{}}
	gl := uint64(50000)
	add := func(hash, sender string, nonce, gp uint64, relayer string) {
		t := &txSpec{hash: []byte(hash), sender: []byte(sender), nonce: nonce, gasLimit: gl, gasPrice: gp,
			fee: new(big.Int).Mul(new(big.Int).SetUint64(gp), new(big.Int).SetUint64(gl)), value: big.NewInt(0), relayer: []byte(relayer), size: 100}
		hst.byHash[hash] = t
		cache.AddTx(t.wrapped())
	}
	rich := new(big.Int).Exp(big.NewInt(10), big.NewInt(22), nil)
	feeOf := func(gp uint64) *big.Int { return new(big.Int).Mul(new(big.Int).SetUint64(gp), new(big.Int).SetUint64(gl)) }
	// alice: nonce 0 at a high price (selected first), nonce 1 at the lowest price (selected last); balance = first fee + half the second
	add("alice-0", "alice", 0, 1000, "")
	add("alice-1", "alice", 1, 100, "")
	sess.accts["alice"] = acctState{nonce: 0, balance: new(big.Int).Add(feeOf(1000), new(big.Int).Div(feeOf(100), big.NewInt(2)))}
	// a relayer paying for bob (high price) and carol (lowest price), with a balance for one of the two fees only
	add("bob-0", "bob", 0, 900, "relayer")
	add("carol-0", "carol", 0, 101, "relayer")
	sess.accts["bob"] = acctState{nonce: 0, balance: rich}
	sess.accts["carol"] = acctState{nonce: 0, balance: rich}
	sess.accts["relayer"] = acctState{nonce: 0, balance: new(big.Int).Add(feeOf(900), big.NewInt(1))}
	for i := 0; i < nOthers; i++ {
		a := fmt.Sprintf("acct-%06d", i)
		add("h-"+a, a, 0, 200+uint64(i%50), "")
		sess.accts[a] = acctState{nonce: 0, balance: rich}
	}
	before := takeView(cache, nil)
	t0 := time.Now()
	txs, accGas := cache.SelectTransactions(sess, ^uint64(0), 1<<30, time.Hour)
	out.Counts["select_ms"] = int(time.Since(t0).Milliseconds())
	out.Counts["selected"] = len(txs)
	out.Counts["accounts_looked_up"] = nOthers + 4
	res := &core.Result{}
	monitorSelect(res, 0, hst.byHash, sess, ^uint64(0), 1<<30, txs, accGas, before, takeView(cache, nil))
	out.Evaluations = len(txs)
	out.Distinct = 1
	for _, f := range res.Fails {
		if f.Property == prop || prop == "" {
			f.Msg = fmt.Sprintf("scale (one selection over %d accounts): %s", nOthers+4, f.Msg)
			out.Fails = append(out.Fails, f)
			out.Replays = append(out.Replays, fmt.Sprintf("harness extra -component pool -prop %s -tier %s -seed %d   # %s", prop, tier, seed, f.Msg))
		}
	}
	out.Rule = fmt.Sprintf("monitor only: one SelectTransactions over a pool of %d accounts (alice with two nonces and a relayer shared by two senders, each with a balance for the first fee only; "+
		"%d other accounts looked up in between); the C01/C02 monitors of the history runs judge the result", nOthers+4, nOthers)
	return out
}
