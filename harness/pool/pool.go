// Package pool drives txcache.TxCache (C01–C07): generator, implementation driver, monitors.
package pool

import (
	"bytes"
	"errors"
	"fmt"
	"math"
	"math/big"
	"math/rand"
	"sort"
	"strings"
	"time"

	"github.com/multiversx/mx-chain-core-go/data"
	"github.com/multiversx/mx-chain-core-go/data/transaction"
	"github.com/multiversx/mx-chain-storage-go/txcache"
	"github.com/multiversx/mx-chain-storage-go/types"
	"verifharness/core"
)

type comp struct{}

func init() { core.Register(comp{}) }

func (comp) Name() string { return "pool" }

// ---------------------------------------------------------------- transactions of a history

type txSpec struct {
	hash, sender, relayer     []byte
	nonce, gasLimit, gasPrice uint64
	size                      int64
	fee                       *big.Int
	value                     *big.Int // may be nil
}

func (t *txSpec) feePayer() []byte {
	if len(t.relayer) > 0 {
		return t.relayer
	}
	return t.sender
}

func (t *txSpec) ppu() uint64 {
	if t.gasLimit == 0 {
		return 0
	}
	q := new(big.Int).Div(t.fee, new(big.Int).SetUint64(t.gasLimit))
	if q.IsUint64() {
		return q.Uint64()
	}
	return math.MaxUint64
}

func (t *txSpec) args() []string {
	return []string{core.B(t.hash), core.B(t.sender), core.N(t.nonce), core.N(t.gasLimit), core.N(t.gasPrice),
		core.I(t.size), core.Z(t.fee), core.Z(t.value), core.B(t.relayer)}
}

func txFromArgs(a []core.Arg) *txSpec {
	t := &txSpec{hash: a[0].Bytes(), sender: a[1].Bytes(), nonce: a[2].U64(), gasLimit: a[3].U64(), gasPrice: a[4].U64(),
		size: a[5].I64(), fee: a[6].Num, relayer: a[8].Bytes()}
	if !a[7].IsNil() {
		t.value = a[7].Num
	}
	return t
}

// host answers fee / value from the table of the history
type host struct{ byHash map[string]*txSpec }

func (h *host) ComputeTxFee(tx data.TransactionWithFeeHandler) *big.Int {
	t := h.byHash[string(tx.(*transaction.Transaction).Data)]
	return new(big.Int).Set(t.fee)
}
func (h *host) GetTransferredValue(tx data.TransactionHandler) *big.Int {
	t := h.byHash[string(tx.(*transaction.Transaction).Data)]
	if t.value == nil {
		return nil
	}
	return new(big.Int).Set(t.value)
}
func (h *host) IsInterfaceNil() bool { return h == nil }

func (t *txSpec) wrapped() *txcache.WrappedTransaction {
	// the hash is carried in Data so that the host / session stubs can find the spec
	return &txcache.WrappedTransaction{
		Tx: &transaction.Transaction{Nonce: t.nonce, SndAddr: t.sender, GasLimit: t.gasLimit, GasPrice: t.gasPrice,
			RelayerAddr: t.relayer, Data: t.hash, Value: big.NewInt(0)},
		TxHash: t.hash,
		Size:   t.size,
	}
}

type acctState struct {
	nonce   uint64
	balance *big.Int
}

type session struct {
	accts   map[string]acctState
	guarded map[string]bool
}

func (s *session) GetAccountState(k []byte) (*types.AccountState, error) {
	a, ok := s.accts[string(k)]
	if !ok {
		return nil, errors.New("account not found")
	}
	return &types.AccountState{Nonce: a.nonce, Balance: new(big.Int).Set(a.balance)}, nil
}
func (s *session) IsIncorrectlyGuarded(tx data.TransactionHandler) bool {
	return s.guarded[string(tx.(*transaction.Transaction).Data)]
}
func (s *session) IsInterfaceNil() bool { return s == nil }

func (s *session) nonceOf(a []byte) uint64 { return s.accts[string(a)].nonce }
func (s *session) balanceOf(a []byte) *big.Int {
	if st, ok := s.accts[string(a)]; ok {
		return st.balance
	}
	return big.NewInt(0)
}

// ---------------------------------------------------------------- generator

var senderAlphabet = [][]byte{[]byte("A"), []byte("B"), []byte("C"), []byte("D")}
var relayerAlphabet = [][]byte{[]byte("R"), []byte("A"), []byte("B")}
var hashPool = []string{"a", "aa", "ab", "b", "ba", "bb", "c", "ca", "cb", "d", "da", "e", "f", "g", "h", "i", "j", "k", "l", "m", "n", "o", "p", "q"}

func pow2(k uint) *big.Int { return new(big.Int).Lsh(big.NewInt(1), k) }

type cfgT struct {
	evict                                                  bool
	numBytes, bytesPerSender, count, countPerSender, batch uint32
	chunks                                                 uint32
	senders                                                [][]byte // the sender alphabet of the history (nil = senderAlphabet)
}

// addresses that collide when truncated to, or zero-padded up to, 32 bytes: two short ones differing by a trailing 0x00 and two of
// 33 bytes sharing their first 32
var collidingSenders = func() [][]byte {
	p := bytes.Repeat([]byte{0x5a}, 32)
	return [][]byte{[]byte("A"), {'A', 0x00}, append(append([]byte{}, p...), 'x'), append(append([]byte{}, p...), 'y')}
}()

func (c cfgT) senderList() [][]byte {
	if c.senders != nil {
		return c.senders
	}
	return senderAlphabet
}

func (c cfgT) tokens() []string {
	al := make([]string, len(c.senderList()))
	for i, s := range c.senderList() {
		al[i] = core.B(s)
	}
	return []string{core.Bool(c.evict), core.N(uint64(c.numBytes)), core.N(uint64(c.bytesPerSender)), core.N(uint64(c.count)),
		core.N(uint64(c.countPerSender)), core.N(uint64(c.batch)), core.N(uint64(c.chunks)), core.L(al...)}
}

func genConfig(prop string, rng *rand.Rand) cfgT {
	c := cfgT{numBytes: 1 << 28, bytesPerSender: 1 << 24, count: 1 << 20, countPerSender: 1 << 20, batch: 1}
	c.chunks = core.Pick(rng, []uint32{1, 2, 16, 128, 3, 7, 100})
	base, variant := prop, ""
	if i := strings.IndexByte(prop, ':'); i >= 0 {
		base, variant = prop[:i], prop[i+1:]
	}
	perSender := func() {
		c.countPerSender = core.Pick(rng, []uint32{1, 2, 3, 3, 1 << 20})
		c.bytesPerSender = core.Pick(rng, []uint32{99, 100, 300, 300, 700, 700, 1000, 1 << 24})
	}
	evict := func() {
		c.evict = true
		c.count = core.Pick(rng, []uint32{4, 5, 6, 6, 1 << 20})
		c.numBytes = core.Pick(rng, []uint32{250, 400, 650, 900, 1 << 28, 1 << 28})
		c.batch = core.Pick(rng, []uint32{1, 1, 2, 3, 7})
	}
	switch base {
	case "C04":
		perSender()
	case "C05", "C06":
		if variant == "evict" {
			evict()
			if core.Chance(rng, 1, 2) {
				perSender()
			}
		} else {
			perSender()
		}
	case "C07":
		evict()
		if core.Chance(rng, 1, 4) {
			perSender()
		}
	case "C03":
		if core.Chance(rng, 1, 5) {
			perSender()
		}
		if core.Chance(rng, 1, 6) {
			evict()
		}
	default: // C01, C02: no eviction, so that a change of eviction order (C07) does not reach these checks
		if core.Chance(rng, 1, 5) {
			perSender()
		}
	}
	// C05/C06 quantify over "all configurations accepted by NewTxCache": one history in sixteen sets one field to a value on
	// either side of the boundary of config.verify(); the model's constructor (TxTypes.verify_config) must give the same verdict
	if (base == "C05" || base == "C06" || base == "C04") && core.Chance(rng, 1, 16) {
		switch rng.Intn(6) {
		case 0:
			c.chunks = core.Pick(rng, []uint32{0, 1, 128, 129})
		case 1:
			c.numBytes = core.Pick(rng, []uint32{0, 3, 4, 1 << 30, 1<<30 + 1})
		case 2:
			c.bytesPerSender = core.Pick(rng, []uint32{0, 1, 1 << 25, 1<<25 + 1})
		case 3:
			c.count = core.Pick(rng, []uint32{0, 3, 4})
		case 4:
			c.countPerSender = core.Pick(rng, []uint32{0, 1})
		default:
			c.batch = core.Pick(rng, []uint32{0, 1})
		}
	}
	if core.Chance(rng, 1, 10) {
		c.senders = collidingSenders
	}
	return c
}

type gen struct {
	senders   [][]byte
	edgeSizes bool // a few transactions have sizes >= 2^31
	nonceBase uint64 // all ordinary nonces (transactions and accounts) are shifted by this: 0, or just above 2^31 / 2^32 / 2^53 / 2^63
	uniform   bool // all transactions have the same size (one drop always suffices: no F4)
	rng       *rand.Rand
	known     map[string]*txSpec // hash determines content
	order     []string
}

func (g *gen) newTx(base string) *txSpec {
	rng := g.rng
	var h string
	for tries := 0; ; tries++ {
		h = core.Pick(rng, hashPool)
		if tries > 6 {
			h = h + string(rune('r'+rng.Intn(8))) + string(rune('a'+rng.Intn(26)))
		}
		if _, ok := g.known[h]; !ok {
			break
		}
	}
	t := &txSpec{hash: []byte(h)}
	t.sender = core.Pick(rng, g.senders)
	t.nonce = g.nonceBase + core.Pick(rng, []uint64{0, 0, 1, 1, 2, 2, 3, 3, 4, 5})
	if core.Chance(rng, 1, 40) {
		t.nonce = core.Pick(rng, []uint64{math.MaxUint64, math.MaxUint64 - 1})
	}
	t.gasPrice = core.Pick(rng, []uint64{100, 200, 200, 300})
	if core.Chance(rng, 1, 25) {
		t.gasPrice = core.Pick(rng, []uint64{1 << 63, 1<<63 + 200, math.MaxUint64}) // prices 2^63 apart from the ordinary ones
	}
	t.gasLimit = core.Pick(rng, []uint64{50000, 50000, 50000, 75000, 100000})
	if core.Chance(rng, 1, 30) {
		t.gasLimit = core.Pick(rng, []uint64{0, 1 << 63, (1 << 63) + 5, math.MaxUint64})
	}
	// fee: ppu target with forced ties, plus boundary fees around 2^64
	target := core.Pick(rng, []uint64{1, 2, 2, 3, 3, 1000})
	fee := new(big.Int).Mul(new(big.Int).SetUint64(target), new(big.Int).SetUint64(t.gasLimit))
	if core.Chance(rng, 1, 3) {
		fee.Add(fee, big.NewInt(int64(rng.Intn(40000))))
	}
	if core.Chance(rng, 1, 12) {
		fee = core.Pick(rng, []*big.Int{big.NewInt(0), big.NewInt(1), new(big.Int).SetUint64(math.MaxUint64), pow2(64),
			new(big.Int).Add(pow2(64), big.NewInt(100000)), pow2(70), new(big.Int).Mul(pow2(64), big.NewInt(50000)), pow2(130)})
	}
	t.fee = fee
	switch rng.Intn(6) {
	case 0:
		t.value = nil
	case 1:
		t.value = big.NewInt(0)
	case 2:
		t.value = big.NewInt(1)
	case 3:
		t.value = new(big.Int).Exp(big.NewInt(10), big.NewInt(18), nil)
	case 4:
		t.value = pow2(64)
	default:
		t.value = big.NewInt(int64(rng.Intn(1000000)))
	}
	if core.Chance(rng, 1, 5) {
		t.relayer = core.Pick(rng, relayerAlphabet)
		if bytes.Equal(t.relayer, t.sender) {
			t.relayer = []byte("R")
		}
	} else {
		t.relayer = []byte{}
	}
	t.size = core.Pick(rng, []int64{0, 1, 50, 99, 100, 100, 100, 128, 128, 128})
	if core.Chance(rng, 1, 25) {
		t.size = core.Pick(rng, []int64{600, 900})
	}
	if g.edgeSizes && core.Chance(rng, 1, 6) {
		// sizes at the edge of the 32-bit types the thresholds are declared in (Size is an int64, the counters are ints / atomics)
		t.size = core.Pick(rng, []int64{1 << 31, 1 << 32, 1<<32 + 7, 1 << 40})
	}
	if g.uniform {
		t.size = 100
	}
	g.known[h] = t
	g.order = append(g.order, h)
	return t
}

func (g *gen) sessionArgs(gasTable []uint64, maxTable []uint64) []string {
	rng := g.rng
	var accts []string
	addrs := append(append([][]byte{}, g.senders...), []byte("R"))
	for _, a := range addrs {
		if core.Chance(rng, 1, 7) {
			continue // lookup failure
		}
		nonce := g.nonceBase + core.Pick(rng, []uint64{0, 0, 0, 1, 1, 2, 3})
		if core.Chance(rng, 1, 40) {
			nonce = math.MaxUint64 - 1
		}
		bal := core.Pick(rng, []*big.Int{big.NewInt(0), big.NewInt(120000), big.NewInt(400000), new(big.Int).Exp(big.NewInt(10), big.NewInt(15), nil),
			new(big.Int).Exp(big.NewInt(10), big.NewInt(22), nil), new(big.Int).Exp(big.NewInt(10), big.NewInt(22), nil), pow2(64), new(big.Int).Add(pow2(64), big.NewInt(150000)), pow2(140)})
		accts = append(accts, core.L(core.B(a), core.N(nonce), core.Z(bal)))
	}
	var guarded []string
	for _, h := range g.order {
		if core.Chance(rng, 1, 12) {
			guarded = append(guarded, core.B([]byte(h)))
		}
	}
	gas := core.Pick(rng, gasTable)
	mx := core.Pick(rng, maxTable)
	return []string{core.N(gas), core.N(mx), core.L(accts...), core.L(guarded...)}
}

var gasTable = []uint64{0, 50000, 120000, 200000, 10_000_000_000, 10_000_000_000, 10_000_000_000, (1 << 63) + 10, math.MaxUint64}
var maxTable = []uint64{0, 1, 2, 5, 30000, 30000, 30000}

func (comp) Gen(prop string, rng *rand.Rand, tier string) *core.History {
	base := prop
	if i := strings.IndexByte(prop, ':'); i >= 0 {
		base = prop[:i]
	}
	h := &core.History{}
	cfg := genConfig(prop, rng)
	h.SetConfig(cfg.tokens()...)
	g := &gen{rng: rng, known: map[string]*txSpec{}, uniform: core.Chance(rng, 3, 5), edgeSizes: core.Chance(rng, 1, 15), senders: cfg.senderList()}
	if core.Chance(rng, 1, 10) {
		// nonces beyond what a float64, an int64 or a 32-bit integer holds exactly
		g.nonceBase = core.Pick(rng, []uint64{1<<53 + 1, 1<<53 + 1, 1<<63 - 2, 1<<32 - 2, 1<<31 - 2, 1<<24 + 1})
	}
	n := core.LongHistory(rng, 12+rng.Intn(40))
	selW, remW := 22, 12
	switch base {
	case "C04", "C05", "C06", "C07":
		selW, remW = 5, 14
	}
	for i := 0; i < n; i++ {
		r := rng.Intn(100)
		switch {
		case r < selW:
			h.Add(4, "select", g.sessionArgs(gasTable, maxTable)...)
		case r < selW+remW && len(g.order) > 0:
			hh := core.Pick(rng, g.order)
			h.Add(2, "remove "+hh, core.B([]byte(hh)))
		case r < selW+remW+2:
			h.Add(3, "clear")
		case r < selW+remW+10 && len(g.order) > 0:
			// re-add a known hash (same content)
			t := g.known[core.Pick(rng, g.order)]
			h.Add(1, fmt.Sprintf("re-add %s %s/%d", t.hash, t.sender, t.nonce), t.args()...)
		default:
			t := g.newTx(base)
			h.Add(1, fmt.Sprintf("add %s %s/%d gp=%d gl=%d", t.hash, t.sender, t.nonce, t.gasPrice, t.gasLimit), t.args()...)
		}
	}
	if base == "C01" || base == "C02" || base == "C03" {
		h.Add(4, "select", g.sessionArgs(gasTable, maxTable)...)
	}
	return h
}

// Exhaustive: all pools of <= K transactions from a small alphabet x a few sessions/limits (selection),
// all short add/remove sequences (pool contents).
func (comp) Exhaustive(prop string, tier string, yield func(*core.History)) {
	base := prop
	if i := strings.IndexByte(prop, ':'); i >= 0 {
		base = prop[:i]
	}
	// LARGE-POPULATION history (beyond the small scope): 40 senders x 14 nonces = 560 transactions (a block's worth), selections with
	// count and gas budgets in the hundreds, removals in the middle of the lists, a second round of selections
	if !strings.Contains(prop, ":") && (base == "C01" || base == "C03" || base == "C04" || base == "C05") {
		nS, nN := 40, 14
		if tier == "thorough" {
			nS, nN = 60, 30
		}
		var senders [][]byte
		for i := 0; i < nS; i++ {
			senders = append(senders, []byte(fmt.Sprintf("S%02d", i)))
		}
		cfg := cfgT{numBytes: 1 << 28, bytesPerSender: 1 << 24, count: 1 << 20, countPerSender: 1 << 20, batch: 1, chunks: 16, senders: senders}
		h := &core.History{}
		h.SetConfig(cfg.tokens()...)
		var accts []string
		for i, sd := range senders {
			accts = append(accts, core.L(core.B(sd), core.N(uint64(i%3)), core.Z(new(big.Int).Exp(big.NewInt(10), big.NewInt(22), nil))))
		}
		sel := func(gas uint64, mx uint64) {
			h.Add(4, "select", core.N(gas), core.N(mx), core.L(accts...), core.L())
		}
		for n := 0; n < nN; n++ {
			for i, sd := range senders {
				gp := uint64(100 + 7*((i*31+n*17)%23))
				gl := uint64(50000 + 1000*((i+n)%5))
				t := &txSpec{hash: []byte(fmt.Sprintf("h-%02d-%02d", i, n)), sender: sd, nonce: uint64(n), gasLimit: gl, gasPrice: gp,
					fee: new(big.Int).Mul(new(big.Int).SetUint64(gp), new(big.Int).SetUint64(gl)), value: big.NewInt(1), relayer: []byte{}, size: 100}
				h.Add(1, "", t.args()...)
			}
		}
		if base == "C01" || base == "C02" || base == "C03" || base == "C04" || base == "C05" {
			sel(math.MaxUint64, 30000)
			sel(10_000_000, 30000)
			sel(math.MaxUint64, 257)
			for i := 0; i < nS; i += 3 {
				h.Add(2, "", core.B([]byte(fmt.Sprintf("h-%02d-%02d", i, nN/2))))
			}
			sel(math.MaxUint64, 30000)
		}
		yield(h)
	}
	// MANY ALTERNATIVES FOR ONE NONCE (beyond the small scope): a sender re-sending one nonce 300 times with an ever higher gas price,
	// then duplicates of the cheapest and of the dearest one, a removal, and a selection (any bound on the backward scan shows)
	if !strings.Contains(prop, ":") && (base == "C04" || base == "C05" || base == "C03") {
		senders := [][]byte{[]byte("A"), []byte("B")}
		cfg := cfgT{numBytes: 1 << 28, bytesPerSender: 1 << 24, count: 1 << 20, countPerSender: 1 << 20, batch: 1, chunks: 3, senders: senders}
		h := &core.History{}
		h.SetConfig(cfg.tokens()...)
		mkAlt := func(j int) *txSpec {
			gp := uint64(1000 + j)
			return &txSpec{hash: []byte(fmt.Sprintf("alt-%03d", j)), sender: []byte("A"), nonce: 7, gasLimit: 50000, gasPrice: gp,
				fee: new(big.Int).Mul(new(big.Int).SetUint64(gp), big.NewInt(50000)), value: big.NewInt(1), relayer: []byte{}, size: 100}
		}
		for j := 0; j < 300; j++ {
			h.Add(1, "", mkAlt(j).args()...)
		}
		h.Add(1, "re-add the dearest", mkAlt(299).args()...)
		h.Add(1, "re-add the cheapest", mkAlt(0).args()...)
		h.Add(1, "re-add one in the middle", mkAlt(20).args()...)
		h.Add(2, "", core.B([]byte("alt-150")))
		if base == "C03" {
			h.Add(4, "select", core.N(math.MaxUint64), core.N(1000), core.L(core.L(core.B([]byte("A")), core.N(7), core.Z(new(big.Int).Exp(big.NewInt(10), big.NewInt(22), nil)))), core.L())
		}
		yield(h)
	}
	// MANY-PASS eviction (beyond the small scope): one large, valuable transaction pushes the pool far over NumBytesThreshold; the next
	// insertion must evict some 240 cheap transactions in more than a hundred batches of two (any bound on the number of passes shows)
	if base == "C06" || base == "C07" {
		var senders [][]byte
		for i := 0; i < 8; i++ {
			senders = append(senders, []byte(fmt.Sprintf("S%02d", i)))
		}
		senders = append(senders, []byte("BIG"))
		cfg := cfgT{evict: true, numBytes: 40000, bytesPerSender: 1 << 24, count: 1 << 20, countPerSender: 1 << 20, batch: 2, chunks: 16, senders: senders}
		h := &core.History{}
		h.SetConfig(cfg.tokens()...)
		add := func(hash string, sd []byte, nonce uint64, gp uint64, size int64) {
			t := &txSpec{hash: []byte(hash), sender: sd, nonce: nonce, gasLimit: 50000, gasPrice: gp,
				fee: new(big.Int).Mul(new(big.Int).SetUint64(gp), big.NewInt(50000)), value: big.NewInt(1), relayer: []byte{}, size: size}
			h.Add(1, "", t.args()...)
		}
		for n := 0; n < 45; n++ {
			for i := 0; i < 8; i++ {
				add(fmt.Sprintf("c-%02d-%02d", i, n), senders[i], uint64(n), uint64(100+((i*7+n*3)%11)), 100)
			}
		}
		add("big-0", []byte("BIG"), 0, 100000, 30000)
		add("late-0", []byte("BIG"), 1, 100000, 100)
		add("late-1", []byte("BIG"), 2, 100000, 100)
		yield(h)
	}
	mk := func(h, s string, nonce, gl, gp uint64, fee int64, size int64, relayer string) *txSpec {
		return &txSpec{hash: []byte(h), sender: []byte(s), nonce: nonce, gasLimit: gl, gasPrice: gp, fee: big.NewInt(fee), value: big.NewInt(1),
			relayer: []byte(relayer), size: size}
	}
	alpha := []*txSpec{
		mk("a", "A", 0, 50000, 100, 100000, 100, ""), mk("b", "A", 1, 50000, 100, 150000, 100, ""), mk("c", "A", 1, 50000, 200, 100000, 128, ""),
		mk("d", "A", 3, 50000, 100, 100000, 100, ""), mk("e", "B", 0, 50000, 100, 100000, 100, ""), mk("f", "B", 0, 75000, 100, 150000, 600, ""),
		mk("g", "B", 1, 50000, 100, 50000, 100, "R"), mk("h", "C", 2, 50000, 100, 150000, 100, ""), mk("i", "C", 3, 100000, 300, 200000, 100, "A"),
		mk("j", "A", 2, 50000, 100, 100000, 100, ""),
	}
	sessions := []string{
		core.L(core.L(core.B([]byte("A")), core.N(0), core.N(1_000_000_000)), core.L(core.B([]byte("B")), core.N(0), core.N(1_000_000_000)), core.L(core.B([]byte("C")), core.N(2), core.N(1_000_000_000)), core.L(core.B([]byte("R")), core.N(0), core.N(60000))),
		core.L(core.L(core.B([]byte("A")), core.N(1), core.N(260000)), core.L(core.B([]byte("B")), core.N(0), core.N(100000))),
	}
	limits := [][2]uint64{{10_000_000_000, 30000}, {120000, 30000}, {10_000_000_000, 2}}
	depth := 3
	if tier == "thorough" {
		depth = 4
	}
	seldepth := depth + 1
	switch base {
	case "C01", "C02", "C03":
		cfg := cfgT{numBytes: 1 << 28, bytesPerSender: 1 << 24, count: 1 << 20, countPerSender: 1 << 20, batch: 1, chunks: 2}
		var rec func(start int, chosen []*txSpec)
		rec = func(start int, chosen []*txSpec) {
			if len(chosen) > 0 {
				h := &core.History{}
				h.SetConfig(cfg.tokens()...)
				for _, t := range chosen {
					h.Add(1, "", t.args()...)
				}
				for _, s := range sessions {
					for _, l := range limits {
						g := core.L()
						if len(chosen) > 1 {
							g = core.L(core.B(chosen[1].hash))
						}
						h.Add(4, "", core.N(l[0]), core.N(l[1]), s, g)
					}
				}
				yield(h)
			}
			if len(chosen) == seldepth {
				return
			}
			for i := start; i < len(alpha); i++ {
				rec(i+1, append(chosen, alpha[i]))
			}
		}
		rec(0, nil)
	default:
		// pool contents: every sequence of <= depth ops over adds of 6 txs and removes of 3 hashes, two configs
		cfgs := []cfgT{
			{numBytes: 1 << 28, bytesPerSender: 300, count: 1 << 20, countPerSender: 2, batch: 1, chunks: 1},
			{evict: true, numBytes: 250, bytesPerSender: 1 << 24, count: 4, countPerSender: 1 << 20, batch: 1, chunks: 4},
		}
		variant := ""
		if i := strings.IndexByte(prop, ':'); i >= 0 {
			variant = prop[i+1:]
		}
		if base == "C04" || ((base == "C05" || base == "C06") && variant != "evict") {
			cfgs = cfgs[:1]
		}
		if base == "C07" || variant == "evict" {
			cfgs = cfgs[1:]
		}
		small := []*txSpec{alpha[0], alpha[1], alpha[2], alpha[4], alpha[5], alpha[9]}
		type opk struct {
			code int
			args []string
		}
		var ops []opk
		for _, t := range small {
			ops = append(ops, opk{1, t.args()})
		}
		for _, hh := range []string{"a", "c", "f"} {
			ops = append(ops, opk{2, []string{core.B([]byte(hh))}})
		}
		d := depth + 1
		for _, cfg := range cfgs {
			var rec func(seq []opk)
			rec = func(seq []opk) {
				if len(seq) == d {
					h := &core.History{}
					h.SetConfig(cfg.tokens()...)
					for _, o := range seq {
						h.Add(o.code, "", o.args...)
					}
					yield(h)
					return
				}
				for _, o := range ops {
					rec(append(seq, o))
				}
			}
			rec(nil)
		}
	}
}

// ---------------------------------------------------------------- implementation driver + monitors

type view struct {
	countTx, numBytes, countSenders uint64
	lenV                            int
	keys                            [][]byte
	lists                           map[string][]*txcache.WrappedTransaction
}

func takeView(c *txcache.TxCache, senders [][]byte) *view {
	v := &view{countTx: c.CountTx(), numBytes: uint64(c.NumBytes()), countSenders: c.CountSenders(), lenV: c.Len(), keys: ownKeys(c.Keys()),
		lists: map[string][]*txcache.WrappedTransaction{}}
	for _, s := range senders {
		got := c.GetTransactionsPoolForSender(string(s))
		v.lists[string(s)] = append([]*txcache.WrappedTransaction(nil), got...)
		if got == nil {
			v.lists[string(s)] = nil
		}
		// the returned slice is the caller's: it is rewritten in place (a filter with the got[:0] idiom), which the pool must not
		// notice at its next selection
		// (the shape matters: [n, n+1, n] passes the selection's own gap / duplicate / lower-nonce tests, a reversed list does not)
		if len(got) > 1 {
			got[len(got)-1] = got[0]
		}
	}
	return v
}

func (v *view) tokens(senders [][]byte) []string {
	per := make([]string, len(senders))
	for i, s := range senders {
		hs := make([][]byte, len(v.lists[string(s)]))
		for k, t := range v.lists[string(s)] {
			hs[k] = t.TxHash
		}
		per[i] = core.LB(hs)
	}
	return []string{core.Lbl(10, core.N(v.countTx)), core.Lbl(11, core.N(v.numBytes)), core.Lbl(12, core.N(v.countSenders)),
		core.Lbl(13, core.SortedLB(v.keys)), core.Lbl(14, core.L(per...))}
}

func (v *view) hashesOf(s string) []string {
	out := make([]string, len(v.lists[s]))
	for i, t := range v.lists[s] {
		out[i] = string(t.TxHash)
	}
	return out
}

func (v *view) allListed() map[string]bool {
	m := map[string]bool{}
	for _, l := range v.lists {
		for _, t := range l {
			m[string(t.TxHash)] = true
		}
	}
	return m
}

// precedes: nonce asc, gas price desc, hash asc (the order the property text gives)
func precedes(a, b *txSpec) bool {
	if a.nonce != b.nonce {
		return a.nonce < b.nonce
	}
	if a.gasPrice != b.gasPrice {
		return a.gasPrice > b.gasPrice
	}
	return bytes.Compare(a.hash, b.hash) < 0
}

// moreValuable: ppu desc, gas limit desc, hash asc
func moreValuable(a, b *txSpec) bool {
	if a.ppu() != b.ppu() {
		return a.ppu() > b.ppu()
	}
	if a.gasLimit != b.gasLimit {
		return a.gasLimit > b.gasLimit
	}
	return bytes.Compare(a.hash, b.hash) < 0
}

func parseSession(a []core.Arg) (*session, uint64, int) {
	s := &session{accts: map[string]acctState{}, guarded: map[string]bool{}}
	for _, e := range a[2].List {
		s.accts[string(e.List[0].Bytes())] = acctState{nonce: e.List[1].U64(), balance: e.List[2].Num}
	}
	for _, g := range a[3].List {
		s.guarded[string(g.Bytes())] = true
	}
	mx := a[1].U64()
	if mx > 1<<30 {
		mx = 1 << 30
	}
	return s, a[0].U64(), int(mx)
}

func (comp) Run(h *core.History, scratch string) *core.Result {
	res := &core.Result{}
	ca := core.ParseArgs(h.Config)
	cfg := txcache.ConfigSourceMe{Name: "verif", NumChunks: uint32(ca[6].U64()), EvictionEnabled: ca[0].Bool(),
		NumBytesThreshold: uint32(ca[1].U64()), NumBytesPerSenderThreshold: uint32(ca[2].U64()), CountThreshold: uint32(ca[3].U64()),
		CountPerSenderThreshold: uint32(ca[4].U64()), NumItemsToPreemptivelyEvict: uint32(ca[5].U64())}
	var senders [][]byte
	for _, s := range ca[7].List {
		senders = append(senders, s.Bytes())
	}
	hst := &host{byHash: map[string]*txSpec{}}
	cache, err := txcache.NewTxCache(cfg, hst)
	if err != nil {
		// same convention as the model driver: the constructor's refusal is an observation of its own
		res.Obs = append(res.Obs, "init-rejected")
		for range h.Ops {
			res.Obs = append(res.Obs, "r !nostate")
		}
		res.Hit("config-rejected")
		return res
	}
	// harness bookkeeping for the monitors (from the property texts, not from the model)
	specs := hst.byHash
	onlyAdds := true // no removal / clear / drop / eviction so far (C03 insertion-order independence)
	var added []*txSpec

	for i, op := range h.Ops {
		a := op.Parsed()
		before := takeView(cache, senders)
		switch op.Code {
		case 1:
			t := txFromArgs(a)
			if old, ok := specs[string(t.hash)]; ok {
				t = old
			} else {
				specs[string(t.hash)] = t
			}
			wasPooled := cache.Has(t.hash)
			w := t.wrapped()
			if i%3 == 1 {
				// an object that has been through another pool (or this one, before a Clear): the precomputed fields carry stale values,
				// which AddTx must recompute from its own host
				// (a stale fee of 1: a payer who cannot afford the real fee can afford this one)
				w.Fee, w.TransferredValue, w.FeePayer = big.NewInt(1), big.NewInt(0), []byte("stale-payer")
				if i%6 == 1 {
					w.FeePayer = t.feePayer() // ... and here the payer is the right one, only the amounts are stale
				}
				if t.gasLimit != 0 {
					w.PricePerUnit = 77 // (with a gas limit of 0 precomputeFields leaves PricePerUnit alone: a fresh object has 0 there, so has this one)
				}
			}
			ok, addedFlag := cache.AddTx(w)
			after := takeView(cache, senders)
			res.AddObs(append([]string{core.Lbl(1, core.L(core.Bool(ok), core.Bool(addedFlag)))}, after.tokens(senders)...)...)
			res.Insert(i, judgeViews(after, senders, true), core.Lbl(30, "n1"), core.Lbl(31, "n1"), core.Lbl(32, "n1"))
			monitorAdd(res, i, cfg, specs, t, wasPooled, addedFlag, before, after, cache)
			if !wasPooled && after.allListed()[string(t.hash)] && len(after.keys) == len(before.keys)+1 {
				added = append(added, t)
			} else if !wasPooled {
				onlyAdds = false
			}
			monitorViews(res, i, specs, after, cache)
		case 2:
			hh := a[0].Bytes()
			removed := cache.RemoveTxByHash(hh)
			after := takeView(cache, senders)
			res.AddObs(append([]string{core.Lbl(1, core.Bool(removed))}, after.tokens(senders)...)...)
			res.Insert(i, judgeViews(after, senders, false), core.Lbl(30, "n1"), core.Lbl(31, "n1"), core.Lbl(32, "n1"))
			monitorRemove(res, i, specs, hh, removed, before, after)
			monitorViews(res, i, specs, after, cache)
			onlyAdds = false
		case 3:
			cache.Clear()
			after := takeView(cache, senders)
			res.AddObs(after.tokens(senders)...)
			res.Insert(i, judgeViews(after, senders, false), core.Lbl(30, "n1"), core.Lbl(31, "n1"), core.Lbl(32, "n1"))
			if after.countTx != 0 || after.numBytes != 0 || after.countSenders != 0 || len(after.keys) != 0 {
				res.Failf("C05", i, "after Clear: CountTx=%d NumBytes=%d CountSenders=%d |Keys|=%d, all must be 0", after.countTx, after.numBytes, after.countSenders, len(after.keys))
			}
			monitorViews(res, i, specs, after, cache)
			onlyAdds = false
			res.Hit("clear")
		case 4:
			sess, gas, mx := parseSession(a)
			txs, accGas := cache.SelectTransactions(sess, gas, mx, time.Hour)
			after := takeView(cache, senders)
			hs := make([][]byte, len(txs))
			for k, t := range txs {
				hs[k] = t.TxHash
			}
			res.AddObs(append([]string{core.Lbl(1, core.LB(hs)), core.Lbl(2, core.N(accGas))}, after.tokens(senders)...)...)
			// feed the result back to the model's executable property checkers
			judge := core.NewOp(5, "judge selection result", core.N(gas), core.N(uint64(mx)), strings.Join(tokensOf(op.Args, 2), " "), core.LB(hs), core.N(accGas))
			res.Insert(i, judge, core.Lbl(20, "n1"), core.Lbl(21, "n1"), core.Lbl(22, "n1"), core.Lbl(23, "n1"), core.Lbl(24, "n1"), core.Lbl(25, "n1"), core.Lbl(26, "n1"))
			monitorSelect(res, i, specs, sess, gas, mx, txs, accGas, before, after)
			monitorSelectSpec(res, i, cfg, specs, sess, gas, mx, txs, accGas, before, cache, senders, onlyAdds, added)
		}
	}
	return res
}

// judgeViews feeds the implementation's views back to the model's executable C05/C06 predicates.
func judgeViews(v *view, senders [][]byte, afterAdd bool) core.Op {
	toks := v.tokens(senders) // 10=cnt 11=bytes 12=senders 13=keys 14=lists
	strip := func(t string) string { return t[strings.IndexByte(t, '=')+1:] }
	return core.NewOp(6, "judge views", strip(toks[0]), strip(toks[1]), strip(toks[2]), strip(toks[3]), strip(toks[4]), core.Bool(afterAdd))
}

// tokensOf returns the raw tokens of the arguments from position `from` (argument index) on.
func tokensOf(toks []string, from int) []string {
	// split top-level args
	var args [][]string
	depth := 0
	var cur []string
	for _, t := range toks {
		cur = append(cur, t)
		if t == "[" {
			depth++
		} else if t == "]" {
			depth--
		}
		if depth == 0 {
			args = append(args, cur)
			cur = nil
		}
	}
	var out []string
	for _, a := range args[from:] {
		out = append(out, a...)
	}
	return out
}

func sortedExpected(list []*txSpec) []*txSpec {
	c := append([]*txSpec{}, list...)
	sort.SliceStable(c, func(i, j int) bool { return precedes(c[i], c[j]) })
	return c
}

func specsOf(specs map[string]*txSpec, l []*txcache.WrappedTransaction) []*txSpec {
	out := make([]*txSpec, len(l))
	for i, t := range l {
		out[i] = specs[string(t.TxHash)]
	}
	return out
}

func sumSize(l []*txSpec) int64 {
	var s int64
	for _, t := range l {
		s += t.size
	}
	return s
}

func hashesStr(l []*txSpec) string {
	var sb strings.Builder
	for _, t := range l {
		sb.WriteString(string(t.hash) + " ")
	}
	return sb.String()
}

// monitorAdd: C04 (add semantics, limits), C06 (limits), C07 (eviction), C03 (ppu)
func monitorAdd(res *core.Result, i int, cfg txcache.ConfigSourceMe, specs map[string]*txSpec, t *txSpec, wasPooled, addedFlag bool,
	before, after *view, cache *txcache.TxCache) {
	s := string(t.sender)
	if wasPooled {
		res.Hit("duplicate-add")
	}
	// --- pool-wide eviction expected by the documented procedure (C07), evaluated on the view before
	evicted := map[string]bool{}
	evictionRan := false
	if cfg.EvictionEnabled {
		over := func(nb int64, ns, nt int) bool {
			return nb > int64(cfg.NumBytesThreshold) || ns > int(cfg.CountThreshold) || nt > int(cfg.CountThreshold)
		}
		lists := map[string][]*txSpec{}
		nt := 0
		var nb int64
		for sn, l := range before.lists {
			if len(l) > 0 {
				lists[sn] = specsOf(specs, l)
				nt += len(l)
				nb += sumSize(lists[sn])
			}
		}
		if over(nb, len(lists), nt) {
			evictionRan = true
			res.Hit("eviction")
			// walks from the highest-ordered end
			type walk struct {
				sender string
				rem    []*txSpec // reversed remaining
			}
			var walks []*walk
			for sn, l := range lists {
				r := make([]*txSpec, len(l))
				for k := range l {
					r[k] = l[len(l)-1-k]
				}
				walks = append(walks, &walk{sn, r})
			}
			passes := 0
			for over(nb, len(lists), nt) {
				took := 0
				for took < int(cfg.NumItemsToPreemptivelyEvict) {
					var bw *walk
					for _, w := range walks {
						if len(w.rem) == 0 {
							continue
						}
						if bw == nil || moreValuable(bw.rem[0], w.rem[0]) {
							bw = w
						}
					}
					if bw == nil {
						break
					}
					victim := bw.rem[0]
					bw.rem = bw.rem[1:]
					took++
					// the victim and every transaction of that sender with the same or a higher nonce go
					var keep []*txSpec
					for _, x := range lists[bw.sender] {
						if x.nonce >= victim.nonce {
							if !evicted[string(x.hash)] {
								evicted[string(x.hash)] = true
								nt--
								nb -= x.size
							}
						} else {
							keep = append(keep, x)
						}
					}
					if len(keep) == 0 {
						delete(lists, bw.sender)
					} else {
						lists[bw.sender] = keep
					}
				}
				if took == 0 {
					break
				}
				passes++
			}
			if passes >= 2 {
				res.Hit("eviction-multi-batch")
			}
		}
	}
	// --- expected per-sender list after the insertion (C04)
	var base []*txSpec
	for _, x := range specsOf(specs, before.lists[s]) {
		if !evicted[string(x.hash)] {
			base = append(base, x)
		}
	}
	pooledAfterEviction := wasPooled && !evicted[string(t.hash)]
	if addedFlag == pooledAfterEviction {
		res.Failf("C04", i, "AddTx(%s) reported added=%v although the hash was pooled=%v at insertion", t.hash, addedFlag, pooledAfterEviction)
	}
	exp := base
	if !pooledAfterEviction {
		exp = sortedExpected(append(append([]*txSpec{}, base...), t))
	}
	fits := func(l []*txSpec) bool {
		return len(l) <= int(cfg.CountPerSenderThreshold) && sumSize(l) <= int64(cfg.NumBytesPerSenderThreshold)
	}
	drops := 0
	for !fits(exp) && len(exp) > 0 {
		exp = exp[:len(exp)-1]
		drops++
	}
	if drops > 0 {
		res.Hit("per-sender-limit-drop")
	}
	if drops > 1 {
		res.Hit("per-sender-limit-needs-several-drops")
	}
	got := after.hashesOf(s)
	if !sameHashes(got, exp) {
		res.Failf("C04", i, "after AddTx(%s) sender %s holds [%s], the reference rules give [%s] (limits count=%d bytes=%d)", t.hash, s,
			strings.Join(got, " "), strings.TrimSpace(hashesStr(exp)), cfg.CountPerSenderThreshold, cfg.NumBytesPerSenderThreshold)
	}
	// other senders: only eviction may have touched them
	for sn, l := range before.lists {
		if sn == s {
			continue
		}
		var e []*txSpec
		for _, x := range specsOf(specs, l) {
			if !evicted[string(x.hash)] {
				e = append(e, x)
			}
		}
		if !sameHashes(after.hashesOf(sn), e) {
			prop := "C04"
			if evictionRan {
				prop = "C07"
			}
			res.Failf(prop, i, "after AddTx(%s) sender %s holds [%s], expected [%s]", t.hash, sn, strings.Join(after.hashesOf(sn), " "), strings.TrimSpace(hashesStr(e)))
		}
	}
	if evictionRan && drops == 0 && !sameHashes(got, exp) {
		res.Failf("C07", i, "eviction before AddTx(%s): sender %s holds [%s], the documented procedure gives [%s]", t.hash, s, strings.Join(got, " "), strings.TrimSpace(hashesStr(exp)))
	}
	if !cfg.EvictionEnabled || !evictionRan {
		// C07: nothing is evicted while the pool is within thresholds; C06: nothing dropped for pool-wide reasons when disabled
		for sn, l := range before.lists {
			if sn == s {
				continue
			}
			if len(after.lists[sn]) != len(l) {
				prop := "C07"
				if !cfg.EvictionEnabled {
					prop = "C06"
				}
				res.Failf(prop, i, "AddTx(%s) changed sender %s although no pool-wide eviction was due", t.hash, sn)
			}
		}
	}
	// evicted transactions disappear from every view
	for hh := range evicted {
		if hh == string(t.hash) {
			continue
		}
		if cache.Has([]byte(hh)) {
			res.Failf("C07", i, "evicted transaction %s is still reachable by hash", hh)
		}
	}
	// --- C06 bounds
	for sn, l := range after.lists {
		sp := specsOf(specs, l)
		if len(sp) > int(cfg.CountPerSenderThreshold) {
			res.Failf("C06", i, "sender %s holds %d transactions > CountPerSenderThreshold %d", sn, len(sp), cfg.CountPerSenderThreshold)
		}
		if sumSize(sp) > int64(cfg.NumBytesPerSenderThreshold) {
			res.Failf("C06", i, "sender %s holds %d bytes > NumBytesPerSenderThreshold %d", sn, sumSize(sp), cfg.NumBytesPerSenderThreshold)
		}
	}
	if cfg.EvictionEnabled {
		if after.countTx > uint64(cfg.CountThreshold)+1 {
			res.Failf("C06", i, "CountTx %d exceeds CountThreshold %d by more than the transaction just added", after.countTx, cfg.CountThreshold)
		}
		if after.countSenders > uint64(cfg.CountThreshold)+1 {
			res.Failf("C06", i, "CountSenders %d exceeds CountThreshold %d by more than one", after.countSenders, cfg.CountThreshold)
		}
		if int64(after.numBytes) > int64(cfg.NumBytesThreshold)+t.size {
			res.Failf("C06", i, "NumBytes %d exceeds NumBytesThreshold %d by more than the transaction just added (%d)", after.numBytes, cfg.NumBytesThreshold, t.size)
		}
	}
	// --- C03: the stored price per unit is floor(fee / gasLimit)
	if w, ok := cache.GetByTxHash(t.hash); ok && !wasPooled {
		q := new(big.Int)
		if t.gasLimit != 0 {
			q.Div(t.fee, new(big.Int).SetUint64(t.gasLimit))
		}
		if q.IsUint64() {
			if w.PricePerUnit != q.Uint64() {
				res.Failf("C03", i, "PricePerUnit of %s is %d, floor(fee/gasLimit) = %s (fee %s, gasLimit %d)", t.hash, w.PricePerUnit, q, t.fee, t.gasLimit)
			}
			if t.fee.BitLen() > 64 {
				res.Hit("fee-beyond-2^64")
			}
		} else {
			res.Hit("ppu-unrepresentable")
		}
	}
}

func sameHashes(got []string, exp []*txSpec) bool {
	if len(got) != len(exp) {
		return false
	}
	for i := range got {
		if got[i] != string(exp[i].hash) {
			return false
		}
	}
	return true
}

func monitorRemove(res *core.Result, i int, specs map[string]*txSpec, hh []byte, removed bool, before, after *view) {
	t, known := specs[string(hh)]
	wasPooled := false
	for _, k := range before.keys {
		if bytes.Equal(k, hh) {
			wasPooled = true
		}
	}
	if removed != wasPooled {
		res.Failf("C04", i, "RemoveTxByHash(%s) returned %v although pooled=%v", hh, removed, wasPooled)
	}
	for sn, l := range before.lists {
		var e []*txSpec
		for _, x := range specsOf(specs, l) {
			if wasPooled && known && sn == string(t.sender) && x.nonce <= t.nonce {
				continue
			}
			e = append(e, x)
		}
		if !sameHashes(after.hashesOf(sn), e) {
			res.Failf("C04", i, "after RemoveTxByHash(%s) sender %s holds [%s], expected [%s]", hh, sn, strings.Join(after.hashesOf(sn), " "), strings.TrimSpace(hashesStr(e)))
		}
		if wasPooled && known && sn == string(t.sender) && len(e) < len(l)-1 {
			res.Hit("remove-drops-lower-nonces")
		}
	}
	if !wasPooled {
		res.Hit("remove-absent")
	}
}

// monitorViews: C04 (ordering, lookups), C05 (indexes and counters)
func monitorViews(res *core.Result, i int, specs map[string]*txSpec, v *view, cache *txcache.TxCache) {
	listed := v.allListed()
	keys := map[string]bool{}
	for _, k := range v.keys {
		if keys[string(k)] {
			res.Failf("C04", i, "Keys() lists %s twice", k)
		}
		keys[string(k)] = true
	}
	for k := range keys {
		if !listed[k] {
			res.Failf("C05", i, "hash %s is reachable by hash but is in no sender list (can be neither selected nor evicted)", k)
		}
	}
	for k := range listed {
		if !keys[k] {
			res.Failf("C05", i, "hash %s is in a sender list but not reachable by hash", k)
		}
	}
	var total int64
	nSenders := 0
	nListed := 0
	for sn, l := range v.lists {
		if len(l) > 0 {
			nSenders++
		}
		sp := specsOf(specs, l)
		seen := map[string]bool{}
		for k := range sp {
			nListed++
			total += sp[k].size
			if string(sp[k].sender) != sn {
				res.Failf("C04", i, "transaction %s of sender %s is in the list of %s", sp[k].hash, sp[k].sender, sn)
			}
			if seen[string(sp[k].hash)] {
				res.Failf("C04", i, "hash %s twice in the list of %s", sp[k].hash, sn)
			}
			seen[string(sp[k].hash)] = true
			if k > 0 && !precedes(sp[k-1], sp[k]) {
				res.Failf("C04", i, "list of %s is not ordered by nonce asc / gas price desc / hash asc at %s, %s", sn, sp[k-1].hash, sp[k].hash)
			}
			if k > 0 && sp[k-1].nonce == sp[k].nonce {
				res.Hit("same-nonce-alternatives")
			}
		}
	}
	if v.countTx != uint64(len(keys)) || v.lenV != len(keys) {
		res.Failf("C05", i, "CountTx=%d Len=%d but %d hashes are reachable", v.countTx, v.lenV, len(keys))
	}
	if v.countTx != uint64(nListed) {
		res.Failf("C05", i, "CountTx=%d but the sender lists hold %d transactions", v.countTx, nListed)
	}
	if int64(v.numBytes) != total {
		res.Failf("C05", i, "NumBytes=%d but the pooled transactions total %d bytes", v.numBytes, total)
	}
	if v.countSenders != uint64(nSenders) {
		res.Failf("C05", i, "CountSenders=%d but %d senders own a pooled transaction", v.countSenders, nSenders)
	}
	// lookups agree with the lists
	n := 0
	var keeper core.Keeper
	var visited []*txcache.WrappedTransaction
	cache.ForEachTransaction(func(h []byte, w *txcache.WrappedTransaction) {
		n++
		keeper.See(h)
		visited = append(visited, w)
		if !listed[string(h)] {
			res.Failf("C04", i, "ForEachTransaction visits %s which is in no list", h)
		}
	})
	// the handler keeps the hashes it was given and uses them as scratch afterwards (they are copies: the pool must not notice)
	for j, h := range keeper.Done(res, "C04", i, "ForEachTransaction", true) {
		if j < len(visited) && visited[j] != nil && !bytes.Equal(visited[j].TxHash, h) {
			res.Failf("C04", i, "ForEachTransaction handed the hash %s along with the transaction %s", h, visited[j].TxHash)
		}
	}
	if n != len(listed) {
		res.Failf("C04", i, "ForEachTransaction visits %d transactions, the lists hold %d", n, len(listed))
	}
	for hh := range specs {
		w, ok := cache.GetByTxHash([]byte(hh))
		_, ok2 := cache.Get([]byte(hh))
		_, ok3 := cache.Peek([]byte(hh))
		if ok != listed[hh] || cache.Has([]byte(hh)) != listed[hh] || ok2 != ok || ok3 != ok {
			res.Failf("C04", i, "lookups of %s disagree with the lists (listed=%v GetByTxHash=%v Has=%v Get=%v Peek=%v)", hh, listed[hh], ok, cache.Has([]byte(hh)), ok2, ok3)
		}
		if ok && !bytes.Equal(w.TxHash, []byte(hh)) {
			res.Failf("C04", i, "GetByTxHash(%s) returned %s", hh, w.TxHash)
		}
	}
}

// monitorSelect: C01, C02 on the implementation's result, from the property texts
func monitorSelect(res *core.Result, i int, specs map[string]*txSpec, sess *session, gas uint64, mx int, txs []*txcache.WrappedTransaction, accGas uint64, before, after *view) {
	sel := specsOf(specs, txs)
	// C01
	per := map[string][]uint64{}
	for _, t := range sel {
		per[string(t.sender)] = append(per[string(t.sender)], t.nonce)
	}
	for sn, ns := range per {
		if ns[0] != sess.nonceOf([]byte(sn)) {
			res.Failf("C01", i, "sender %s: lowest selected nonce %d differs from the account nonce %d", sn, ns[0], sess.nonceOf([]byte(sn)))
		}
		for k := 1; k < len(ns); k++ {
			if ns[k] != ns[k-1]+1 || ns[k] < ns[k-1] {
				res.Failf("C01", i, "sender %s: selected nonces %v are not strictly consecutive in order", sn, ns)
				break
			}
		}
		if len(ns) > 1 {
			res.Hit("multi-nonce-run")
		}
	}
	// C02
	seen := map[string]bool{}
	pooled := map[string]bool{}
	for _, k := range before.keys {
		pooled[string(k)] = true
	}
	sum := new(big.Int)
	committed := map[string]*big.Int{}
	get := func(a []byte) *big.Int {
		if committed[string(a)] == nil {
			committed[string(a)] = new(big.Int)
		}
		return committed[string(a)]
	}
	for _, t := range sel {
		if seen[string(t.hash)] {
			res.Failf("C02", i, "transaction %s selected twice", t.hash)
		}
		seen[string(t.hash)] = true
		if !pooled[string(t.hash)] {
			res.Failf("C02", i, "selected transaction %s is not a member of the pool", t.hash)
		}
		sum.Add(sum, new(big.Int).SetUint64(t.gasLimit))
		if sess.guarded[string(t.hash)] {
			res.Failf("C02", i, "selected transaction %s is reported incorrectly guarded by the session", t.hash)
		}
		need := new(big.Int).Add(get(t.feePayer()), t.fee)
		if need.Cmp(sess.balanceOf(t.feePayer())) > 0 {
			res.Failf("C02", i, "fee payer %s of %s has balance %s, needs %s (fee %s on top of %s already committed)", t.feePayer(), t.hash,
				sess.balanceOf(t.feePayer()), need, t.fee, get(t.feePayer()))
		}
		get(t.feePayer()).Add(get(t.feePayer()), t.fee)
		if t.value != nil {
			get(t.sender).Add(get(t.sender), t.value)
		}
		if len(t.relayer) > 0 {
			res.Hit("relayed-selected")
		}
	}
	if len(sel) > mx {
		res.Failf("C02", i, "%d transactions selected, maxNum = %d", len(sel), mx)
	}
	if sum.Cmp(new(big.Int).SetUint64(accGas)) != 0 {
		res.Failf("C02", i, "gas limits of the result sum to %s, returned accumulated gas is %d", sum, accGas)
	}
	if accGas > gas {
		res.Failf("C02", i, "accumulated gas %d exceeds gasRequested %d", accGas, gas)
	}
	// C03: the pool is unchanged by a selection
	if strings.Join(before.tokens(nil), " ") != strings.Join(after.tokens(nil), " ") || !sameLists(before, after) {
		res.Failf("C03", i, "SelectTransactions changed the pool")
	}
	if len(sel) > 0 {
		res.Hit("non-empty-selection")
	}
	if len(sel) == mx && mx > 0 {
		res.Hit("count-budget-hit")
	}
}

func sameLists(a, b *view) bool {
	for s := range a.lists {
		if strings.Join(a.hashesOf(s), " ") != strings.Join(b.hashesOf(s), " ") {
			return false
		}
	}
	return true
}

// referenceSelect: the documented procedure (README + property text of C03), written independently of the model
func referenceSelect(lists map[string][]*txSpec, sess *session, gas uint64, mx int) ([]*txSpec, uint64) {
	type cur struct {
		sender string
		rem    []*txSpec
		latest *uint64
	}
	var cs []*cur
	for sn, l := range lists {
		if len(l) > 0 {
			cs = append(cs, &cur{sender: sn, rem: l})
		}
	}
	committed := map[string]*big.Int{}
	get := func(a []byte) *big.Int {
		if committed[string(a)] == nil {
			committed[string(a)] = new(big.Int)
		}
		return committed[string(a)]
	}
	var out []*txSpec
	acc := uint64(0)
	for {
		// most valuable among the next pending transaction of every sender still in play
		bi := -1
		for k, c := range cs {
			if bi < 0 || moreValuable(c.rem[0], cs[bi].rem[0]) {
				bi = k
			}
		}
		if bi < 0 {
			break
		}
		c := cs[bi]
		t := c.rem[0]
		if t.gasLimit > gas-acc { // would break the gas budget
			break
		}
		if len(out) >= mx {
			break
		}
		drop := func() { cs = append(cs[:bi], cs[bi+1:]...) }
		an := sess.nonceOf([]byte(c.sender))
		// gaps and unaffordable fee drop the sender
		if c.latest == nil && t.nonce > an {
			drop()
			continue
		}
		if c.latest != nil && t.nonce > *c.latest+1 {
			drop()
			continue
		}
		if new(big.Int).Add(get(t.feePayer()), t.fee).Cmp(sess.balanceOf(t.feePayer())) > 0 {
			drop()
			continue
		}
		skip := t.nonce < an || sess.guarded[string(t.hash)] || (c.latest != nil && t.nonce == *c.latest)
		if !skip {
			out = append(out, t)
			acc += t.gasLimit
			n := t.nonce
			c.latest = &n
			get(t.feePayer()).Add(get(t.feePayer()), t.fee)
			if t.value != nil {
				get(t.sender).Add(get(t.sender), t.value)
			}
		}
		c.rem = c.rem[1:]
		if len(c.rem) == 0 {
			drop()
		}
	}
	return out, acc
}

// monitorSelectSpec: C03 — exact sequence, repeatability, prefix under lower limits, insertion order / chunk count independence
func monitorSelectSpec(res *core.Result, i int, cfg txcache.ConfigSourceMe, specs map[string]*txSpec, sess *session, gas uint64, mx int,
	txs []*txcache.WrappedTransaction, accGas uint64, before *view, cache *txcache.TxCache, senders [][]byte, onlyAdds bool, added []*txSpec) {
	lists := map[string][]*txSpec{}
	for sn, l := range before.lists {
		lists[sn] = specsOf(specs, l)
	}
	exp, expGas := referenceSelect(lists, sess, gas, mx)
	got := make([]string, len(txs))
	for k, t := range txs {
		got[k] = string(t.TxHash)
	}
	if !sameHashes(got, exp) || accGas != expGas {
		res.Failf("C03", i, "selection is [%s] gas %d, the documented greedy merge gives [%s] gas %d", strings.Join(got, " "), accGas, strings.TrimSpace(hashesStr(exp)), expGas)
	}
	// ties on ppu among heads
	for a := range lists {
		for b := range lists {
			if a < b && len(lists[a]) > 0 && len(lists[b]) > 0 && lists[a][0].ppu() == lists[b][0].ppu() {
				res.Hit("ppu-tie-between-senders")
			}
		}
	}
	// repeatable
	txs2, gas2 := cache.SelectTransactions(sess, gas, mx, time.Hour)
	if len(txs2) != len(txs) || gas2 != accGas {
		res.Failf("C03", i, "a second identical SelectTransactions returned %d transactions / gas %d instead of %d / %d", len(txs2), gas2, len(txs), accGas)
	} else {
		for k := range txs {
			if !bytes.Equal(txs[k].TxHash, txs2[k].TxHash) {
				res.Failf("C03", i, "a second identical SelectTransactions returned a different sequence at position %d", k)
				break
			}
		}
	}
	// lowering maxNum / gasRequested / the time budget yields a prefix
	isPrefix := func(p []*txcache.WrappedTransaction) bool {
		if len(p) > len(txs) {
			return false
		}
		for k := range p {
			if !bytes.Equal(p[k].TxHash, txs[k].TxHash) {
				return false
			}
		}
		return true
	}
	if mx > 0 {
		p, _ := cache.SelectTransactions(sess, gas, mx/2, time.Hour)
		if !isPrefix(p) {
			res.Failf("C03", i, "lowering maxNum from %d to %d does not yield a prefix", mx, mx/2)
		}
	}
	if gas > 0 {
		p, _ := cache.SelectTransactions(sess, gas/2, mx, time.Hour)
		if !isPrefix(p) {
			res.Failf("C03", i, "lowering gasRequested from %d to %d does not yield a prefix", gas, gas/2)
		}
	}
	p, _ := cache.SelectTransactions(sess, gas, mx, 0)
	if !isPrefix(p) {
		res.Failf("C03", i, "a zero time budget does not yield a prefix")
	}
	// ... and the largest budget there is ("no time limit") yields the whole of it
	if pmax, gmax := cache.SelectTransactions(sess, gas, mx, time.Duration(math.MaxInt64)); len(pmax) != len(txs) || !isPrefix(pmax) || gmax != accGas {
		res.Failf("C03", i, "with the time budget time.Duration(MaxInt64) the selection has %d transactions / gas %d, with one hour %d / %d", len(pmax), gmax, len(txs), accGas)
	}
	// insertion order and chunk count independence (only when the pool is exactly the set of added transactions)
	if onlyAdds && len(added) > 1 && len(added) <= 40 {
		cfg2 := cfg
		cfg2.NumChunks = cfg.NumChunks%128 + 1
		cfg2.EvictionEnabled = false
		hst := &host{byHash: specs}
		c2, err := txcache.NewTxCache(cfg2, hst)
		if err == nil {
			for k := len(added) - 1; k >= 0; k-- {
				c2.AddTx(added[k].wrapped())
			}
			same := c2.CountTx() == cache.CountTx()
			if same {
				t2, g2 := c2.SelectTransactions(sess, gas, mx, time.Hour)
				if len(t2) != len(txs) || g2 != accGas {
					res.Failf("C03", i, "the same transaction set inserted in reverse order with %d chunks selects %d transactions / gas %d instead of %d / %d", cfg2.NumChunks, len(t2), g2, len(txs), accGas)
				} else {
					for k := range txs {
						if !bytes.Equal(txs[k].TxHash, t2[k].TxHash) {
							res.Failf("C03", i, "the same transaction set inserted in reverse order with %d chunks selects a different sequence", cfg2.NumChunks)
							break
						}
					}
				}
				res.Hit("insertion-order-checked")
			}
		}
	}
}

// ownKeys: the caller of Keys() owns the listing (see core.OwnKeys); here without a Result at hand: copy, then overwrite the original
func ownKeys(keys [][]byte) [][]byte {
	cp := make([][]byte, len(keys))
	for i, k := range keys {
		cp[i] = append([]byte{}, k...)
		_ = append(k, 0xE1, 0xE2, 0xE3, 0xE4)
	}
	for i, k := range keys {
		if !bytes.Equal(k, cp[i]) {
			cp[i] = append([]byte{}, k...) // appending to an earlier entry reached this one: keep what the listing now says (shows as a mismatch)
		}
		for j := range k {
			k[j] ^= 0x5A
		}
	}
	return cp
}
