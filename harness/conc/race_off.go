//go:build !race

package conc

// raceEnabled reports that this binary was built with the race detector.
const raceEnabled = false
