package conc

import (
	"fmt"
	"sort"
	"strings"
)

// A per-key register linearizability checker (Wing & Gong's search with Lowe's memoisation).
// The sequential specification is a register holding "absent" or a byte string:
//   Put(v) sets it to v, Remove sets it to absent, Get returns its content, Has its presence.
// Every Put of a history writes a unique value, so the search almost never branches; Removes
// all write "absent", which is why a search is used instead of a closed-form test.

const (
	kPut = iota
	kRemove
	kGet
	kHas
)

var kindNames = []string{"Put", "Remove", "Get", "Has"}

// opRec is one completed operation of a recorded history.
type opRec struct {
	ID      int
	G       string // goroutine (role)
	Kind    int
	Key     string
	Val     string // value written (Put) or returned (Get, when Found)
	Found   bool   // Get/Has: the key was reported present
	Call    int64  // logical clock (atomic counter) read before the call
	Ret     int64  // logical clock read after the return
	CallNs  int64  // monotonic clock, ns since the start of the history
	RetNs   int64
	Err     string // unexpected error (anything but nil / ErrKeyNotFound)
	Pending bool   // never returned (only when a scenario hung)
}

func (o opRec) String() string {
	res := ""
	switch o.Kind {
	case kPut:
		res = fmt.Sprintf("Put(%s,%s)", o.Key, o.Val)
	case kRemove:
		res = fmt.Sprintf("Remove(%s)", o.Key)
	case kGet:
		if o.Found {
			res = fmt.Sprintf("Get(%s)=%s", o.Key, o.Val)
		} else {
			res = fmt.Sprintf("Get(%s)=notfound", o.Key)
		}
	case kHas:
		res = fmt.Sprintf("Has(%s)=%v", o.Key, o.Found)
	}
	if o.Err != "" {
		res += " ERR " + o.Err
	}
	ret := fmt.Sprintf("%d", o.Ret)
	if o.Pending {
		ret = "pending"
	}
	return fmt.Sprintf("[%d..%s] %s %s", o.Call, ret, o.G, res)
}

const absent = "A"

func present(v string) string { return "P" + v }

// stepReg applies op to the register state; ok=false when the recorded answer is impossible in that state.
func stepReg(state string, o *opRec) (bool, string) {
	switch o.Kind {
	case kPut:
		return true, present(o.Val)
	case kRemove:
		return true, absent
	case kGet:
		if o.Found {
			return state == present(o.Val), state
		}
		return state == absent, state
	default: // kHas
		return o.Found == (state != absent), state
	}
}

type node struct {
	prev, next *node
	id         int
	isCall     bool
	op         *opRec
	match      *node // for a call: its return node
}

type bitset []uint64

func (b bitset) clone() bitset { c := make(bitset, len(b)); copy(c, b); return c }
func (b bitset) set(i int)     { b[i/64] |= 1 << uint(i%64) }
func (b bitset) clear(i int)   { b[i/64] &^= 1 << uint(i%64) }
func (b bitset) key(state string) string {
	var sb strings.Builder
	for _, w := range b {
		fmt.Fprintf(&sb, "%x.", w)
	}
	sb.WriteString(state)
	return sb.String()
}

// linearizableKey decides whether the operations on ONE key form a linearizable register history
// starting from the given initial state. Pending operations: a pending write may or may not have
// taken effect (its return is placed at +infinity), pending reads are dropped.
func linearizableKey(ops []opRec, init string) bool {
	type ev struct {
		t      int64
		isCall bool
		idx    int
	}
	var use []*opRec
	for i := range ops {
		o := &ops[i]
		if o.Pending && (o.Kind == kGet || o.Kind == kHas) {
			continue
		}
		use = append(use, o)
	}
	n := len(use)
	if n == 0 {
		return true
	}
	const inf = int64(1) << 62
	evs := make([]ev, 0, 2*n)
	for i, o := range use {
		ret := o.Ret
		if o.Pending {
			ret = inf
		}
		evs = append(evs, ev{o.Call, true, i}, ev{ret, false, i})
	}
	sort.SliceStable(evs, func(a, b int) bool {
		if evs[a].t != evs[b].t {
			return evs[a].t < evs[b].t
		}
		return evs[a].isCall && !evs[b].isCall
	})
	head := &node{id: -1}
	cur := head
	rets := make([]*node, n)
	calls := make([]*node, n)
	for _, e := range evs {
		nd := &node{id: e.idx, isCall: e.isCall, op: use[e.idx]}
		if e.isCall {
			calls[e.idx] = nd
		} else {
			rets[e.idx] = nd
		}
		cur.next = nd
		nd.prev = cur
		cur = nd
	}
	for i := 0; i < n; i++ {
		calls[i].match = rets[i]
	}
	lift := func(c *node) {
		c.prev.next = c.next
		if c.next != nil {
			c.next.prev = c.prev
		}
		r := c.match
		r.prev.next = r.next
		if r.next != nil {
			r.next.prev = r.prev
		}
	}
	unlift := func(c *node) {
		r := c.match
		r.prev.next = r
		if r.next != nil {
			r.next.prev = r
		}
		c.prev.next = c
		if c.next != nil {
			c.next.prev = c
		}
	}
	type frame struct {
		c     *node
		state string
	}
	var stack []frame
	lin := make(bitset, (n+63)/64)
	cache := map[string]bool{}
	state := init
	entry := head.next
	for head.next != nil {
		if entry == nil {
			// ran off the end without finding a call to linearize: only pending returns (at +inf) remain
			return true
		}
		if entry.isCall {
			ok, ns := stepReg(state, entry.op)
			if ok {
				nl := lin.clone()
				nl.set(entry.id)
				k := nl.key(ns)
				if !cache[k] {
					cache[k] = true
					stack = append(stack, frame{entry, state})
					state = ns
					lin = nl
					lift(entry)
					entry = head.next
					continue
				}
			}
			entry = entry.next
		} else {
			if entry.op.Pending {
				// every remaining operation is a pending write that need not take effect
				return true
			}
			if len(stack) == 0 {
				return false
			}
			top := stack[len(stack)-1]
			stack = stack[:len(stack)-1]
			state = top.state
			lin.clear(top.c.id)
			unlift(top.c)
			entry = top.c.next
		}
	}
	return true
}

// judge checks every key of a history. It returns the keys whose sub-history is not linearizable,
// each with a minimal failing prefix (operations ordered by call).
func judge(ops []opRec, initial map[string]string) (bad []string, detail map[string][]opRec) {
	byKey := map[string][]opRec{}
	for _, o := range ops {
		byKey[o.Key] = append(byKey[o.Key], o)
	}
	detail = map[string][]opRec{}
	keys := make([]string, 0, len(byKey))
	for k := range byKey {
		keys = append(keys, k)
	}
	sort.Strings(keys)
	for _, k := range keys {
		init := absent
		if v, ok := initial[k]; ok {
			init = present(v)
		}
		sub := byKey[k]
		if linearizableKey(sub, init) {
			continue
		}
		bad = append(bad, k)
		detail[k] = minimalPrefix(sub, init)
	}
	return bad, detail
}

// minimalPrefix returns the shortest prefix (in order of return) of a non-linearizable per-key
// history that is already non-linearizable; operations still running at the cut are kept as pending.
func minimalPrefix(sub []opRec, init string) []opRec {
	rets := make([]int64, 0, len(sub))
	for _, o := range sub {
		if !o.Pending {
			rets = append(rets, o.Ret)
		}
	}
	sort.Slice(rets, func(i, j int) bool { return rets[i] < rets[j] })
	cut := func(t int64) []opRec {
		var out []opRec
		for _, o := range sub {
			if o.Call > t {
				continue
			}
			c := o
			if o.Pending || o.Ret > t {
				c.Pending = true
			}
			out = append(out, c)
		}
		sort.Slice(out, func(i, j int) bool { return out[i].Call < out[j].Call })
		return out
	}
	lo, hi := 0, len(rets)-1
	for lo < hi {
		mid := (lo + hi) / 2
		if linearizableKey(cut(rets[mid]), init) {
			lo = mid + 1
		} else {
			hi = mid
		}
	}
	if len(rets) == 0 {
		return sub
	}
	return cut(rets[lo])
}

func renderOps(ops []opRec, max int) string {
	var sb strings.Builder
	for i, o := range ops {
		if i >= max {
			fmt.Fprintf(&sb, " ; ... (%d more)", len(ops)-max)
			break
		}
		if i > 0 {
			sb.WriteString(" ; ")
		}
		sb.WriteString(o.String())
	}
	return sb.String()
}
