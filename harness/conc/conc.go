// Package conc validates C11 (concurrent persister operations are linearizable) on the REAL
// leveldb.DB and leveldb.SerialDB of /repo (real LevelDB directories):
//
//	(a) forced schedules: the verif pause hook parks chosen goroutines at chosen pause points until
//	    the harness releases them (the witnesses of the pre-fix defects F11/F14, the windows of the
//	    flush paths, and seeded random park/release schedules over all pause points);
//	(b) randomised stress: N goroutines x M operations over 2-4 keys, small batch sizes, with and
//	    without seeded yields/sleeps at the pause points, with and without a 1 s timer flush;
//	(c) every recorded history (call/return stamps from one atomic counter, plus the monotonic clock)
//	    is judged per key by a register linearizability checker (checker.go). Every Put of a history
//	    writes a unique value.
//
// The same Extra runs in the race-detector binary (harness-race): there stderr is captured and any
// "WARNING: DATA RACE" is reported as a failure (data-race freedom is the premise under which the
// Coq model's "one critical section = one atomic action" abstraction is sound).
package conc

import (
	"bytes"
	"errors"
	"fmt"
	"hash/fnv"
	"math/rand"
	"os"
	"path/filepath"
	"runtime"
	"sort"
	"strconv"
	"strings"
	"sync"
	"sync/atomic"
	"syscall"
	"time"

	logger "github.com/multiversx/mx-chain-logger-go"
	"github.com/multiversx/mx-chain-storage-go/common"
	"github.com/multiversx/mx-chain-storage-go/leveldb"
	"verifharness/core"
)

type comp struct{}

func init() {
	core.Register(comp{})
	_ = logger.SetLogLevel("*:NONE")
}

func (comp) Name() string { return "conc" }

// Gen / Exhaustive / Run: C11 has no sequential history part (that is C08); everything is in Extra.
func (comp) Gen(prop string, rng *rand.Rand, tier string) *core.History     { return nil }
func (comp) Exhaustive(prop string, tier string, yield func(*core.History)) {}
func (comp) Run(h *core.History, scratch string) *core.Result               { return &core.Result{} }

// ---------------------------------------------------------------- persisters

type persister interface {
	Put(key, val []byte) error
	Get(key []byte) ([]byte, error)
	Has(key []byte) error
	Remove(key []byte) error
	Close() error
}

const (
	kindDB     = 0
	kindSerial = 1
)

var kindName = []string{"DB", "SerialDB"}

const noTimer = 100000 // BatchDelaySeconds: the timer never fires within a run

func open(kind int, dir string, delay, maxBatch int) (persister, error) {
	if kind == kindDB {
		return leveldb.NewDB(dir, delay, maxBatch, 10)
	}
	return leveldb.NewSerialDB(dir, delay, maxBatch, 10)
}

// ---------------------------------------------------------------- pause hook control

var pausePoints = []string{
	"db.put.afterBatchPut", "db.get.beforeDiskRead", "db.has.beforeDiskRead", "db.flush.betweenWriteAndReset",
	"serial.put.afterBatchPut", "serial.get.beforeDiskRead", "serial.has.beforeDiskRead",
	"serial.putBatch.beforeWrite", "serial.putBatch.afterWrite",
	// not in /repo at present (see the component report): only fire in a tree that has them
	"db.get.afterIsRemoved", "serial.get.afterIsRemoved",
}

func isFlushPoint(p string) bool {
	return p == "db.flush.betweenWriteAndReset" || p == "serial.putBatch.beforeWrite"
}

func goid() int64 {
	var buf [64]byte
	n := runtime.Stack(buf[:], false)
	// "goroutine 123 [running]:..."
	f := bytes.Fields(buf[:n])
	if len(f) < 2 {
		return -1
	}
	id, _ := strconv.ParseInt(string(f[1]), 10, 64)
	return id
}

type gate struct {
	name     string
	arrived  chan struct{}
	release  chan struct{}
	armed    bool
	released bool
}

type parked struct {
	role, point string
	release     chan struct{}
}

// ctl is the controller of one history: roles of goroutines, gates, random parking, delay plan.
type ctl struct {
	mu     sync.Mutex
	roles  map[int64]string
	gates  map[string]*gate
	hits   map[string]int
	rec    *recorder
	flush  []int64 // logical stamps of flush pause points
	parkP  int     // random parking: park a harness goroutine with probability parkP/8 (0 = off)
	parkBg bool    // ... background goroutines (timer) too
	rng    *rand.Rand
	parked []*parked
	nPark  int
	delay  int // 0 none, 1 Gosched w.p. 1/2, 2 sleep 0-300us w.p. 1/3
	dseed  uint64
	dctr   uint64
}

var current atomic.Pointer[ctl]
var hookOnce sync.Once

func installHook() {
	hookOnce.Do(func() {
		leveldb.VerifSetPauseHook(func(point string) {
			c := current.Load()
			if c != nil {
				c.onPause(point)
			}
		})
	})
}

func newCtl(rec *recorder) *ctl {
	return &ctl{roles: map[int64]string{}, gates: map[string]*gate{}, hits: map[string]int{}, rec: rec}
}

func (c *ctl) register(role string) {
	c.mu.Lock()
	c.roles[goid()] = role
	c.mu.Unlock()
}

func (c *ctl) gate(role, point string) *gate {
	g := &gate{name: role + "@" + point, arrived: make(chan struct{}), release: make(chan struct{}), armed: true}
	c.mu.Lock()
	c.gates[g.name] = g
	c.mu.Unlock()
	return g
}

func (g *gate) waitArrived(d time.Duration) bool {
	select {
	case <-g.arrived:
		return true
	case <-time.After(d):
		return false
	}
}

func (c *ctl) open(g *gate) {
	c.mu.Lock()
	if !g.released {
		g.released = true
		close(g.release)
	}
	g.armed = false
	c.mu.Unlock()
}

func (c *ctl) openAll() {
	c.mu.Lock()
	for _, g := range c.gates {
		if !g.released {
			g.released = true
			close(g.release)
		}
		g.armed = false
	}
	c.parkP = 0
	ps := c.parked
	c.parked = nil
	c.mu.Unlock()
	for _, p := range ps {
		close(p.release)
	}
}

func splitmix(x uint64) uint64 {
	x += 0x9e3779b97f4a7c15
	x = (x ^ (x >> 30)) * 0xbf58476d1ce4e5b9
	x = (x ^ (x >> 27)) * 0x94d049bb133111eb
	return x ^ (x >> 31)
}

func (c *ctl) onPause(point string) {
	id := goid()
	c.mu.Lock()
	c.hits[point]++
	if isFlushPoint(point) {
		c.flush = append(c.flush, c.rec.seq.Add(1))
	}
	role, known := c.roles[id]
	if !known {
		role = "bg"
		if isFlushPoint(point) {
			c.hits["timer-flush"]++
		}
	}
	if g := c.gates[role+"@"+point]; g != nil && g.armed {
		g.armed = false
		c.mu.Unlock()
		close(g.arrived)
		<-g.release
		return
	}
	if c.parkP > 0 && (known || c.parkBg) && c.rng.Intn(8) < c.parkP {
		p := &parked{role: role, point: point, release: make(chan struct{})}
		c.parked = append(c.parked, p)
		c.nPark++
		c.mu.Unlock()
		<-p.release
		return
	}
	delay := c.delay
	var r uint64
	if delay != 0 {
		c.dctr++
		r = splitmix(c.dseed ^ c.dctr)
	}
	c.mu.Unlock()
	switch delay {
	case 1:
		if r&1 == 0 {
			runtime.Gosched()
		}
	case 2:
		if r%3 == 0 {
			time.Sleep(time.Duration((r>>8)%300) * time.Microsecond)
		} else if r%3 == 1 {
			runtime.Gosched()
		}
	}
}

// releaseRandom releases one parked goroutine chosen by rng; false when nobody is parked.
func (c *ctl) releaseRandom(rng *rand.Rand) bool {
	c.mu.Lock()
	if len(c.parked) == 0 {
		c.mu.Unlock()
		return false
	}
	i := rng.Intn(len(c.parked))
	p := c.parked[i]
	c.parked = append(c.parked[:i], c.parked[i+1:]...)
	c.mu.Unlock()
	close(p.release)
	return true
}

// ---------------------------------------------------------------- recording

type recorder struct {
	mu   sync.Mutex
	ops  []opRec
	seq  atomic.Int64
	base time.Time
	nval atomic.Int64
}

func newRecorder() *recorder { return &recorder{base: time.Now()} }

// uniq returns a value never written before in this history.
func (r *recorder) uniq() string { return fmt.Sprintf("v%d", r.nval.Add(1)) }

func (r *recorder) do(p persister, g string, kind int, key, val string) opRec {
	o := opRec{G: g, Kind: kind, Key: key, Val: val}
	o.CallNs = int64(time.Since(r.base))
	o.Call = r.seq.Add(1)
	switch kind {
	case kPut:
		if err := p.Put([]byte(key), []byte(val)); err != nil {
			o.Err = err.Error()
		}
	case kRemove:
		if err := p.Remove([]byte(key)); err != nil {
			o.Err = err.Error()
		}
	case kGet:
		data, err := p.Get([]byte(key))
		switch {
		case err == nil:
			o.Found, o.Val = true, string(data)
		case errors.Is(err, common.ErrKeyNotFound):
		default:
			o.Err = err.Error()
		}
	case kHas:
		err := p.Has([]byte(key))
		switch {
		case err == nil:
			o.Found = true
		case errors.Is(err, common.ErrKeyNotFound):
		default:
			o.Err = err.Error()
		}
	}
	o.Ret = r.seq.Add(1)
	o.RetNs = int64(time.Since(r.base))
	r.mu.Lock()
	o.ID = len(r.ops)
	r.ops = append(r.ops, o)
	r.mu.Unlock()
	return o
}

func (r *recorder) snapshot() []opRec {
	r.mu.Lock()
	defer r.mu.Unlock()
	out := make([]opRec, len(r.ops))
	copy(out, r.ops)
	return out
}

// ---------------------------------------------------------------- one history

type hist struct {
	name    string
	kind    int
	max     int
	delay   int
	p       persister
	rec     *recorder
	c       *ctl
	wg      sync.WaitGroup
	mu      sync.Mutex
	running map[string]*opRec // ops started asynchronously that have not returned
	notes   []string
	blocked int // async operations observed still running after the settle time (held back by a lock)
	noGate  int // gates that were never reached
}

type handle struct{ done chan struct{} }

func (h *handle) returned(d time.Duration) bool {
	select {
	case <-h.done:
		return true
	case <-time.After(d):
		return false
	}
}

func newHist(name string, kind int, dir string, delay, max int) (*hist, error) {
	p, err := open(kind, dir, delay, max)
	if err != nil {
		return nil, err
	}
	rec := newRecorder()
	h := &hist{name: name, kind: kind, max: max, delay: delay, p: p, rec: rec, c: newCtl(rec), running: map[string]*opRec{}}
	h.c.register("main")
	current.Store(h.c)
	return h, nil
}

// sync runs an operation in the calling goroutine (role "main").
func (h *hist) sync(kind int, key, val string) opRec { return h.rec.do(h.p, "main", kind, key, val) }
func (h *hist) put(key string) opRec                 { return h.sync(kPut, key, h.rec.uniq()) }

type step struct {
	kind int
	key  string
}

// async runs a program in a new goroutine with the given role.
func (h *hist) async(role string, prog ...step) *handle {
	return h.asyncFn(role, func(do func(kind int, key string)) {
		for _, s := range prog {
			do(s.kind, s.key)
		}
	})
}

// asyncFn runs body in a new goroutine with the given role; body performs operations through do.
func (h *hist) asyncFn(role string, body func(do func(kind int, key string))) *handle {
	hd := &handle{done: make(chan struct{})}
	h.wg.Add(1)
	started := make(chan struct{})
	go func() {
		defer h.wg.Done()
		defer close(hd.done)
		h.c.register(role)
		close(started)
		body(func(kind int, key string) {
			val := ""
			if kind == kPut {
				val = h.rec.uniq()
			}
			call := h.rec.seq.Load()
			h.mu.Lock()
			h.running[role] = &opRec{G: role, Kind: kind, Key: key, Val: val, Call: call + 1, Pending: true}
			h.mu.Unlock()
			h.rec.do(h.p, role, kind, key, val)
			h.mu.Lock()
			delete(h.running, role)
			h.mu.Unlock()
		})
	}()
	<-started
	return hd
}

const settle = 25 * time.Millisecond

// settleAsync gives an asynchronous operation time to get as far as it can; it records whether it was held back.
func (h *hist) settleAsync(hd *handle) bool {
	if hd.returned(settle) {
		return true
	}
	h.blocked++
	return false
}

func (h *hist) arrive(g *gate, d time.Duration) bool {
	if g.waitArrived(d) {
		return true
	}
	h.noGate++
	h.notes = append(h.notes, "gate never reached: "+g.name)
	h.c.open(g)
	return false
}

// finish releases everything, waits for all goroutines and closes the persister.
// It returns the recorded operations (with pending ones when the history hung).
func (h *hist) finish() (ops []opRec, hung bool) {
	h.c.openAll()
	done := make(chan struct{})
	go func() { h.wg.Wait(); close(done) }()
	select {
	case <-done:
	case <-time.After(20 * time.Second):
		hung = true
	}
	current.Store(nil)
	ops = h.rec.snapshot()
	if hung {
		h.mu.Lock()
		for _, o := range h.running {
			ops = append(ops, *o)
		}
		h.mu.Unlock()
	} else {
		_ = h.p.Close()
	}
	return ops, hung
}

// ---------------------------------------------------------------- forced scenarios

type scenario struct {
	name  string
	kind  int
	max   int
	delay int
	pre   func(dir string) (map[string]string, error) // initial LevelDB content written through a separate, closed persister
	run   func(h *hist)
}

func pfx(kind int) string {
	if kind == kindDB {
		return "db"
	}
	return "serial"
}

func scenarios(withTimer bool) []scenario {
	var out []scenario
	long := 3 * time.Second

	// F14 (a): a Put has returned; the next Put fills the batch and hands it over; a reader runs while
	// the hand-over is parked before the write. Pre-fix: the reader sees an empty batch and LevelDB
	// without the first Put -> notfound after the Put returned.
	out = append(out, scenario{name: "serial/F14a-read-during-handover", kind: kindSerial, max: 2, delay: noTimer, run: func(h *hist) {
		h.put("a")
		g := h.c.gate("W", "serial.putBatch.beforeWrite")
		w := h.async("W", step{kPut, "b"})
		h.arrive(g, long)
		r := h.async("R", step{kGet, "a"}, step{kHas, "a"})
		h.settleAsync(r)
		h.c.open(g)
		w.returned(long)
		r.returned(long)
		h.sync(kGet, "a", "")
		h.sync(kGet, "b", "")
	}})

	// F14 (c): two hand-overs in flight, written in the wrong order. Pre-fix: LevelDB ends with the
	// older value although a reader had already seen the newer one.
	out = append(out, scenario{name: "serial/F14c-two-handovers-out-of-order", kind: kindSerial, max: 1, delay: noTimer, run: func(h *hist) {
		g1 := h.c.gate("A", "serial.put.afterBatchPut")
		a := h.async("A", step{kPut, "k"})
		h.arrive(g1, long)
		h.sync(kGet, "k", "") // the value is visible in the batch: A's Put is linearised
		g2 := h.c.gate("A", "serial.putBatch.beforeWrite")
		h.c.open(g1)
		h.arrive(g2, long)
		b := h.async("B", step{kPut, "k"})
		h.settleAsync(b)
		r := h.async("R", step{kGet, "k"})
		h.settleAsync(r)
		h.c.open(g2)
		a.returned(long)
		b.returned(long)
		r.returned(long)
		h.sync(kGet, "k", "")
		h.sync(kHas, "k", "")
	}})

	for _, kind := range []int{kindDB, kindSerial} {
		kind := kind
		p := pfx(kind)
		flushPoint := "db.flush.betweenWriteAndReset"
		if kind == kindSerial {
			flushPoint = "serial.putBatch.afterWrite"
		}
		// a flusher parked inside its critical section, after the write: readers and writers of every kind arrive
		out = append(out, scenario{name: p + "/flush-parked-after-write", kind: kind, max: 2, delay: noTimer, run: func(h *hist) {
			h.put("a")
			g := h.c.gate("W", flushPoint)
			w := h.async("W", step{kPut, "b"})
			h.arrive(g, long)
			r1 := h.async("R1", step{kGet, "a"}, step{kGet, "b"})
			r2 := h.async("R2", step{kHas, "b"}, step{kGet, "c"})
			p1 := h.async("P", step{kRemove, "a"}, step{kPut, "c"})
			h.settleAsync(r1)
			h.settleAsync(r2)
			h.settleAsync(p1)
			h.c.open(g)
			for _, x := range []*handle{w, r1, r2, p1} {
				x.returned(long)
			}
			h.sync(kGet, "a", "")
			h.sync(kGet, "b", "")
			h.sync(kGet, "c", "")
		}})
		// a reader parked between its batch miss and its LevelDB read while flushes move its key
		out = append(out, scenario{name: p + "/reader-parked-before-disk-read", kind: kind, max: 1, delay: noTimer, run: func(h *hist) {
			g := h.c.gate("R", p+".get.beforeDiskRead")
			r := h.async("R", step{kGet, "k"})
			h.arrive(g, long)
			h.put("k")
			h.put("k")
			h.c.open(g)
			r.returned(long)
			h.sync(kGet, "k", "")
		}})
		out = append(out, scenario{name: p + "/has-parked-before-disk-read-then-remove", kind: kind, max: 1, delay: noTimer, run: func(h *hist) {
			h.put("k")
			h.sync(kRemove, "k", "")
			g := h.c.gate("R", p+".has.beforeDiskRead")
			r := h.async("R", step{kHas, "k"})
			h.arrive(g, long)
			h.put("k")
			h.sync(kRemove, "k", "")
			h.put("k")
			h.c.open(g)
			r.returned(long)
			h.sync(kHas, "k", "")
		}})
		// the write is visible from its batch mutation on, before Put returns (its linearization point)
		out = append(out, scenario{name: p + "/put-visible-before-return", kind: kind, max: 3, delay: noTimer, run: func(h *hist) {
			g := h.c.gate("W", p+".put.afterBatchPut")
			w := h.async("W", step{kPut, "k"})
			h.arrive(g, long)
			h.sync(kGet, "k", "")
			h.sync(kHas, "k", "")
			r := h.async("X", step{kRemove, "k"}, step{kGet, "k"})
			h.settleAsync(r)
			h.c.open(g)
			w.returned(long)
			r.returned(long)
			h.sync(kGet, "k", "")
		}})
		// two goroutines reach the flush threshold together
		out = append(out, scenario{name: p + "/two-flushers", kind: kind, max: 1, delay: noTimer, run: func(h *hist) {
			fp := "db.flush.betweenWriteAndReset"
			if kind == kindSerial {
				fp = "serial.putBatch.beforeWrite"
			}
			g := h.c.gate("A", fp)
			a := h.async("A", step{kPut, "k"}, step{kGet, "k"})
			h.arrive(g, long)
			b := h.async("B", step{kPut, "k"}, step{kGet, "k"})
			c := h.async("C", step{kRemove, "k"}, step{kHas, "k"})
			h.settleAsync(b)
			h.settleAsync(c)
			h.c.open(g)
			for _, x := range []*handle{a, b, c} {
				x.returned(long)
			}
			h.sync(kGet, "k", "")
		}})
		if withTimer {
			tp := "db.flush.betweenWriteAndReset"
			if kind == kindSerial {
				tp = "serial.putBatch.beforeWrite"
			}
			out = append(out, scenario{name: p + "/timer-flush-parked", kind: kind, max: 100, delay: 1, run: func(h *hist) {
				h.put("a")
				g := h.c.gate("bg", tp)
				h.arrive(g, 4*time.Second)
				r := h.async("R", step{kGet, "a"}, step{kHas, "a"})
				w := h.async("W", step{kPut, "a"}, step{kRemove, "b"})
				h.settleAsync(r)
				h.settleAsync(w)
				h.c.open(g)
				r.returned(long)
				w.returned(long)
				h.sync(kGet, "a", "")
			}})
		}
	}

	// F11 (b): LevelDB holds an older value of k, the batch a newer one; a Get is parked between
	// IsRemoved and batch.Get while Remove(k) runs. Needs the pause point <p>.get.afterIsRemoved
	// (not in /repo at present): without it the scenario runs unforced.
	// Pre-fix (no RLock around the two batch reads): the Get returns the older value.
	// Current code: the parked reader holds the RLock, the Remove waits.
	// (Has cannot expose this window: with one Remove both of its answers are justified.)
	for _, kind := range []int{kindDB, kindSerial} {
		kind := kind
		p := pfx(kind)
		out = append(out, scenario{name: p + "/F11-get-parked-between-isremoved-and-batchget", kind: kind, max: 3, delay: noTimer, run: func(h *hist) {
			h.put("k")
			h.put("x")
			h.put("y") // third entry: flush, k's first value is in LevelDB
			h.put("k") // newer value pending in the batch (the Remove below is the second entry: no flush)
			g := h.c.gate("R", p+".get.afterIsRemoved")
			r := h.async("R", step{kGet, "k"})
			if g.waitArrived(60 * time.Millisecond) {
				x := h.async("X", step{kRemove, "k"})
				h.settleAsync(x)
				h.c.open(g)
				x.returned(long)
			} else {
				h.noGate++
				h.c.open(g)
				h.sync(kRemove, "k", "")
			}
			r.returned(long)
			h.sync(kGet, "k", "")
		}})
	}
	return out
}

// randomForced: a seeded random park/release schedule. Every harness goroutine reaching ANY pause
// point is parked with probability 1/2; the controller releases parked goroutines in random order
// at random moments while 2-3 goroutines run short random programs over 2 keys.
func randomForced(rng *rand.Rand, kind int) scenario {
	max := 1 + rng.Intn(3)
	nG := 2 + rng.Intn(2)
	keys := []string{"a", "b"}
	progs := make([][]step, nG)
	for i := range progs {
		n := 2 + rng.Intn(3)
		for j := 0; j < n; j++ {
			progs[i] = append(progs[i], step{kind: []int{kPut, kPut, kRemove, kGet, kGet, kHas}[rng.Intn(6)], key: keys[rng.Intn(len(keys))]})
		}
	}
	seed2 := rng.Int63()
	name := fmt.Sprintf("%s/random-forced max=%d %s", pfx(kind), max, renderProgs(progs))
	return scenario{name: name, kind: kind, max: max, delay: noTimer, run: func(h *hist) {
		r2 := rand.New(rand.NewSource(seed2))
		h.c.mu.Lock()
		h.c.rng = rand.New(rand.NewSource(seed2 + 1))
		h.c.parkP = 4
		h.c.mu.Unlock()
		var hs []*handle
		for i, p := range progs {
			hs = append(hs, h.async(fmt.Sprintf("G%d", i), p...))
		}
		deadline := time.Now().Add(2 * time.Second)
		for time.Now().Before(deadline) {
			alldone := true
			for _, x := range hs {
				select {
				case <-x.done:
				default:
					alldone = false
				}
			}
			if alldone {
				break
			}
			time.Sleep(time.Duration(200+r2.Intn(1500)) * time.Microsecond)
			if r2.Intn(3) != 0 {
				h.c.releaseRandom(r2)
			}
		}
	}}
}

func renderProgs(progs [][]step) string {
	var parts []string
	for _, p := range progs {
		var s []string
		for _, st := range p {
			s = append(s, kindNames[st.kind]+"("+st.key+")")
		}
		parts = append(parts, "["+strings.Join(s, ",")+"]")
	}
	return strings.Join(parts, " ")
}

// ---------------------------------------------------------------- stress

type stressCfg struct {
	kind, max, delay, nG, nOps, nKeys, plan int
	seed                                    int64
	lastMs                                  int // > 0: every goroutine keeps going (one operation, a 2-6 ms sleep) for this long
}

func (c stressCfg) String() string {
	return fmt.Sprintf("stress %s max=%d delay=%ds goroutines=%d ops=%d keys=%d plan=%d lastMs=%d seed=%d",
		kindName[c.kind], c.max, c.delay, c.nG, c.nOps, c.nKeys, c.plan, c.lastMs, c.seed)
}

func stressScenario(cfg stressCfg) scenario {
	return scenario{name: cfg.String(), kind: cfg.kind, max: cfg.max, delay: cfg.delay, run: func(h *hist) {
		h.c.mu.Lock()
		h.c.delay = cfg.plan
		h.c.dseed = uint64(cfg.seed)
		h.c.mu.Unlock()
		keys := []string{"a", "b", "c", "d"}[:cfg.nKeys]
		var hs []*handle
		kinds := []int{kPut, kPut, kPut, kRemove, kGet, kGet, kGet, kHas}
		for g := 0; g < cfg.nG; g++ {
			rng := rand.New(rand.NewSource(cfg.seed*131 + int64(g)))
			if cfg.lastMs > 0 {
				end := time.Now().Add(time.Duration(cfg.lastMs) * time.Millisecond)
				hs = append(hs, h.asyncFn(fmt.Sprintf("G%d", g), func(do func(int, string)) {
					for time.Now().Before(end) {
						do(kinds[rng.Intn(8)], keys[rng.Intn(len(keys))])
						time.Sleep(time.Duration(2000+rng.Intn(4000)) * time.Microsecond)
					}
				}))
				continue
			}
			prog := make([]step, cfg.nOps)
			for i := range prog {
				prog[i] = step{kind: kinds[rng.Intn(8)], key: keys[rng.Intn(len(keys))]}
			}
			hs = append(hs, h.async(fmt.Sprintf("G%d", g), prog...))
		}
		for _, x := range hs {
			x.returned(60 * time.Second)
		}
	}}
}

// ---------------------------------------------------------------- Extra

type tally struct {
	res      *core.ExtraResult
	distinct map[uint64]bool
	samples  int
}

func histHash(ops []opRec) uint64 {
	s := make([]opRec, len(ops))
	copy(s, ops)
	sort.Slice(s, func(i, j int) bool { return s[i].Call < s[j].Call })
	f := fnv.New64a()
	for _, o := range s {
		fmt.Fprintf(f, "%s|%d|%s|%s|%v;", o.G, o.Kind, o.Key, o.Val, o.Found)
	}
	return f.Sum64()
}

func (t *tally) runScenario(sc scenario, scratch string, idx int, class string) {
	dir := filepath.Join(scratch, fmt.Sprintf("h%d", idx))
	defer os.RemoveAll(dir)
	initial := map[string]string{}
	if sc.pre != nil {
		var err error
		initial, err = sc.pre(dir)
		if err != nil {
			t.fail(sc.name, "cannot prepare the LevelDB directory: "+err.Error(), "")
			return
		}
	}
	h, err := newHist(sc.name, sc.kind, dir, sc.delay, sc.max)
	if err != nil {
		t.fail(sc.name, "cannot open the persister: "+err.Error(), "")
		return
	}
	sc.run(h)
	ops, hung := h.finish()
	r := t.res
	r.Evaluations++
	r.Counts[class]++
	r.Counts["ops"] += len(ops)
	hh := histHash(ops)
	if !t.distinct[hh] {
		t.distinct[hh] = true
		r.Distinct++
	}
	h.c.mu.Lock()
	for _, p := range []string{"db.flush.betweenWriteAndReset", "serial.putBatch.afterWrite"} {
		r.Counts["flushes_observed"] += h.c.hits[p]
	}
	for p, n := range h.c.hits {
		if p == "timer-flush" {
			r.Counts["timer_flushes_observed"] += n
		} else {
			r.Counts["pause_hits"] += n
		}
	}
	stamps := append([]int64(nil), h.c.flush...)
	r.Counts["parked_by_random_schedule"] += h.c.nPark
	h.c.mu.Unlock()
	sort.Slice(stamps, func(i, j int) bool { return stamps[i] < stamps[j] })
	for _, o := range ops {
		if o.Kind != kGet && o.Kind != kHas {
			continue
		}
		i := sort.Search(len(stamps), func(i int) bool { return stamps[i] > o.Call })
		if i < len(stamps) && stamps[i] < o.Ret {
			r.Counts["reads_during_flush"]++
		}
	}
	r.Counts["operations_held_back_by_parked_lock_holder"] += h.blocked
	r.Counts["gates_never_reached"] += h.noGate
	if hung {
		t.fail(sc.name, "the history did not terminate within 20 s after every parked goroutine was released (deadlock?)", renderOps(ops, 60))
	}
	for _, o := range ops {
		if o.Err != "" {
			t.fail(sc.name, "unexpected error from the persister: "+o.String(), "")
			break
		}
	}
	bad, detail := judge(ops, initial)
	r.Counts["keys_judged"] += countKeys(ops)
	for _, k := range bad {
		t.fail(sc.name, fmt.Sprintf("NOT LINEARIZABLE (%s MaxBatchSize=%d) key %q", kindName[sc.kind], sc.max, k), renderOps(detail[k], 120))
	}
	if len(bad) == 0 && t.samples < 3 && class == "forced_schedules" && (strings.Contains(sc.name, "F14a") || strings.Contains(sc.name, "flush-parked") && t.samples < 2) {
		s := make([]opRec, len(ops))
		copy(s, ops)
		sort.Slice(s, func(i, j int) bool { return s[i].Call < s[j].Call })
		r.Samples = append(r.Samples, sc.name+": "+renderOps(s, 12))
		t.samples++
	}
}

func countKeys(ops []opRec) int {
	m := map[string]bool{}
	for _, o := range ops {
		m[o.Key] = true
	}
	return len(m)
}

func (t *tally) fail(name, msg, history string) {
	r := t.res
	if len(r.Fails) >= 12 && name != "race detector" {
		r.Counts["fails_not_listed"]++
		return
	}
	full := "[" + name + "] " + msg
	if history != "" {
		full += " -- per-key history (logical call..return stamps): " + history
	}
	r.Fails = append(r.Fails, core.Fail{Property: "C11", Step: -1, Msg: full})
	r.Replays = append(r.Replays, "harness extra -component conc -prop C11 (scenario/seed in brackets) "+full)
}

// Extra runs forced schedules, random forced schedules and stress; see the package comment.
func (comp) Extra(prop string, tier string, seed int64, scratch string) *core.ExtraResult {
	res := &core.ExtraResult{Counts: map[string]int{}}
	t := &tally{res: res, distinct: map[uint64]bool{}}
	if scratch == "" {
		scratch = filepath.Join(os.TempDir(), "conc-extra")
	}
	_ = os.MkdirAll(scratch, 0o755)
	defer os.RemoveAll(scratch)
	installHook()
	restore := captureStderr(scratch)

	start := time.Now()
	nRandom, stressFor := 300, 8*time.Second
	if tier == "thorough" {
		nRandom, stressFor = 1500, 120*time.Second
	}
	if raceEnabled {
		res.Counts["race_detector"] = 1
	}
	idx := 0
	// (a) forced schedules
	for _, sc := range scenarios(true) {
		t.runScenario(sc, scratch, idx, "forced_schedules")
		idx++
	}
	rng := rand.New(rand.NewSource(seed))
	for i := 0; i < nRandom; i++ {
		sub := rand.New(rand.NewSource(rng.Int63()))
		t.runScenario(randomForced(sub, i%2), scratch, idx, "random_forced_schedules")
		idx++
		if tier != "thorough" && time.Since(start) > 25*time.Second {
			break
		}
	}
	// (b) stress, time-bounded (the same bound in the race binary, where fewer histories fit)
	stressEnd := time.Now().Add(stressFor)
	for i := 0; time.Now().Before(stressEnd); i++ {
		cfg := stressCfg{kind: i % 2, max: []int{1, 2, 3, 8, 50}[(i/2)%5], delay: noTimer, // also batches that stay pending for many operations (values on disk under a pending Remove)
			nG: 3 + rng.Intn(6), nOps: 20 + rng.Intn(40),
			nKeys: 2 + rng.Intn(3), plan: (i / 6) % 3, seed: rng.Int63()}
		if i == 2 || i == 3 || (tier == "thorough" && i%40 >= 38) {
			// the timer takes part: BatchDelaySeconds = 1, a batch too large to fill, the history lasts 1.4 s
			cfg.delay, cfg.max, cfg.nG, cfg.lastMs = 1, 50, 3, 1400
		}
		t.runScenario(stressScenario(cfg), scratch, idx, "stress_histories")
		idx++
	}
	races := restore()
	if races != "" {
		res.Counts["data_race_reports"] = strings.Count(races, "WARNING: DATA RACE")
		t.fail("race detector", "WARNING: DATA RACE reported while running the histories", strings.ReplaceAll(truncate(races, 1500), "\n", " | "))
	}
	res.Rule = fmt.Sprintf("real leveldb.DB and leveldb.SerialDB on LevelDB directories, MaxBatchSize 1-3 (100 for the timer cases), every Put writes a unique value; "+
		"(a) %d forced schedules through the verif pause hook (park a goroutine at a pause point, run the others, release): the pre-fix witnesses F14a/F14c/F11, "+
		"a flusher parked inside its critical section, a reader parked between batch miss and LevelDB read, a Put parked after its batch mutation, two flushers, the 1 s timer flush parked; "+
		"%d seeded random park/release schedules (2-3 goroutines, 2-4 ops each, 2 keys, every pause point parks w.p. 1/2); "+
		"(b) %d stress histories (3-8 goroutines x 20-60 ops, 2-4 keys, delay plans none/Gosched/sleep at the pause points; some lasting 1.4 s with BatchDelaySeconds=1 so that the timer flushes), time-bounded %.0f s; "+
		"(c) every history judged per key by a register linearizability checker (WGL search) on atomic-counter call/return stamps. race detector: %v",
		res.Counts["forced_schedules"], res.Counts["random_forced_schedules"], res.Counts["stress_histories"], stressFor.Seconds(), raceEnabled)
	res.Counts["wall_ms"] = int(time.Since(start) / time.Millisecond)
	return res
}

func truncate(s string, n int) string {
	if len(s) <= n {
		return s
	}
	return s[:n] + "..."
}

// captureStderr (race binary only) redirects fd 2 to a file so that race reports of the runtime can be
// found; restore puts fd 2 back, replays the captured text on it and returns it if it holds a race report.
func captureStderr(scratch string) func() string {
	if !raceEnabled {
		return func() string { return "" }
	}
	path := filepath.Join(scratch, "stderr.txt")
	f, err := os.Create(path)
	if err != nil {
		return func() string { return "" }
	}
	saved, err := syscall.Dup(2)
	if err != nil {
		f.Close()
		return func() string { return "" }
	}
	if err := syscall.Dup3(int(f.Fd()), 2, 0); err != nil {
		f.Close()
		return func() string { return "" }
	}
	return func() string {
		_ = syscall.Dup3(saved, 2, 0)
		_ = syscall.Close(saved)
		f.Close()
		data, _ := os.ReadFile(path)
		if len(data) > 0 {
			os.Stderr.Write(data)
		}
		if bytes.Contains(data, []byte("WARNING: DATA RACE")) {
			return string(data)
		}
		return ""
	}
}
