package stress

import (
	"fmt"
	"math/rand"
	"sync"
	"sync/atomic"
	"time"

	"github.com/multiversx/mx-chain-storage-go/lrucache/capacity"
	"github.com/multiversx/mx-chain-storage-go/memorydb"
	"github.com/multiversx/mx-chain-storage-go/storageCacherAdapter"
	"github.com/multiversx/mx-chain-storage-go/types"
)

// ---------------------------------------------------------------- storageCacherAdapter under concurrency (C17 / C14)

type blobC struct{ b []byte }

func (v *blobC) GetSerialized() []byte  { return v.b }
func (v *blobC) SetSerialized(b []byte) { v.b = append([]byte{}, b...) }
func (v *blobC) IsInterfaceNil() bool   { return v == nil }

var _ types.SerializedStoredData = (*blobC)(nil)

type blobFactory struct{}

func (blobFactory) CreateEmpty() interface{} { return &blobC{} }
func (blobFactory) IsInterfaceNil() bool     { return false }

type noMarshal struct{}

func (noMarshal) Marshal(obj interface{}) ([]byte, error) {
	return nil, fmt.Errorf("marshaller must not be reached")
}
func (noMarshal) Unmarshal(obj interface{}, b []byte) error {
	return fmt.Errorf("marshaller must not be reached")
}
func (noMarshal) IsInterfaceNil() bool { return false }

// slowDB delays Put a little so that a Put holding the adapter's lock overlaps with other operations
type slowDB struct {
	types.Persister
	n atomic.Int64
}

func (s *slowDB) Put(k, v []byte) error {
	if s.n.Add(1)%3 == 0 {
		time.Sleep(200 * time.Microsecond)
	}
	return s.Persister.Put(k, v)
}

// phaseAdapter: every key whose Put has RETURNED must be found by Has and Get at every later instant
// (keys are never removed; each key bound to one immutable non-empty value), whatever other Puts are in flight.
func phaseAdapter(c *collector, rs int64, scale int) {
	p := c.newPhase("storage-cacher-adapter", rs, scale)
	r := p.rng()
	capItems := []int{2, 4, 8}[r.Intn(3)]
	lru, err := capacity.NewCapacityLRU(capItems, int64(capItems)*40)
	if err != nil {
		p.failf("monitor", "NewCapacityLRU: %v", err)
		return
	}
	db := &slowDB{Persister: memorydb.New()}
	ad, err := storageCacherAdapter.NewStorageCacherAdapter(lru, db, blobFactory{}, noMarshal{})
	if err != nil {
		p.failf("monitor", "NewStorageCacherAdapter: %v", err)
		return
	}
	const writers = 6
	perWriter := 150 * scale
	var acked sync.Map // key -> value, recorded AFTER Put returned
	var ackedList [writers][]string
	var ackedMu [writers]sync.Mutex
	var nOps atomic.Int64
	p.worker(writers, "adapter Put", func(id int, rr *rand.Rand) {
		for i := 0; i < perWriter; i++ {
			k := fmt.Sprintf("w%d-%04d", id, i)
			v := []byte("value-" + k)
			ad.Put([]byte(k), &blobC{b: v}, 10+rr.Intn(30))
			acked.Store(k, string(v))
			ackedMu[id].Lock()
			ackedList[id] = append(ackedList[id], k)
			ackedMu[id].Unlock()
			nOps.Add(1)
			if rr.Intn(4) == 0 {
				// re-put an older key of its own with another size (the value is immutable)
				j := rr.Intn(i + 1)
				k2 := fmt.Sprintf("w%d-%04d", id, j)
				ad.Put([]byte(k2), &blobC{b: []byte("value-" + k2)}, 10+rr.Intn(60))
				nOps.Add(1)
			}
		}
	})
	p.background(6, "adapter Has/Get of acknowledged keys", func(id int, rr *rand.Rand) {
		w := rr.Intn(writers)
		ackedMu[w].Lock()
		n := len(ackedList[w])
		var k string
		if n > 0 {
			k = ackedList[w][rr.Intn(n)]
		}
		ackedMu[w].Unlock()
		if n == 0 {
			return
		}
		nOps.Add(1)
		c.eval("probe_adapter_acked_key_found")
		if rr.Intn(2) == 0 {
			if !ad.Has([]byte(k)) {
				p.failf("monitor", "storageCacherAdapter.Has(%s) = false although Put(%s) had returned (the entry is in neither tier)", k, k)
			}
		} else {
			v, ok := ad.Get([]byte(k))
			want, _ := acked.Load(k)
			if !ok {
				p.failf("monitor", "storageCacherAdapter.Get(%s) misses although Put(%s) had returned", k, k)
			} else if b, isB := v.(*blobC); !isB || string(b.b) != want.(string) {
				p.failf("monitor", "storageCacherAdapter.Get(%s) returned a foreign value", k)
			}
		}
	})
	if !p.join() {
		return
	}
	c.add("ops_adapter", nOps.Load())
	// quiescent: every acknowledged key is found
	acked.Range(func(k, v interface{}) bool {
		c.eval("quiescent_adapter_no_loss")
		if !ad.Has([]byte(k.(string))) {
			p.failf("monitor", "quiescent: storageCacherAdapter lost key %s", k)
			return false
		}
		return true
	})
}
