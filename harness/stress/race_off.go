//go:build !race

package stress

const raceEnabled = false
