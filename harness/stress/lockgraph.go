package stress

// Lock-order graph of /repo, extracted from the CURRENT source on every run with go/parser + go/ast
// only (no type checker): which mutex fields are acquired while which others are held, directly
// or through the static call graph.  Conservative by construction:
//   - a mutex is identified by the struct FIELD that holds it (all instances of a type are one node),
//     an embedded sync.(RW)Mutex by "<Type>.RWMutex"; Lock and RLock are not distinguished;
//   - a deferred Unlock keeps the mutex held to the end of the function; an explicit Unlock releases it;
//   - branches are merged by union; a call made while H is held adds H x acquires*(callee), where
//     acquires* is the transitive closure over the call graph (function literals passed as arguments
//     are assumed to run while everything the callee acquires is held);
//   - a receiver whose type cannot be resolved syntactically falls back to every method of that name
//     in the package; a receiver of interface type to every method of that name in all packages.
// The graph is written as a standalone Coq file that Requires Conc/LockOrder_proofs.v; acyclicity is
// decided INSIDE Coq (acyclicb + acyclicb_sound) by one coqc call.  Scope: circular waits among
// sync.Mutex / sync.RWMutex fields of the repository; channels, WaitGroups, callbacks into user code
// and the dependencies' own locks are out of scope.

import (
	"fmt"
	"go/ast"
	"go/parser"
	"go/token"
	"os"
	"os/exec"
	"path/filepath"
	"sort"
	"strings"
)

type lgType struct {
	pkg  string   // package directory (relative to the repo root) in which the expression is written
	expr ast.Expr // a type expression
}

type lgFunc struct {
	pkg, recv, name string
	decl            *ast.FuncDecl
	imports         map[string]string // alias -> package dir
	direct          map[string]bool   // mutexes acquired somewhere in the body
	callees         map[*lgFunc]bool
	star            map[string]bool // acquires*
}

func (f *lgFunc) String() string {
	if f.recv != "" {
		return f.pkg + ".(" + f.recv + ")." + f.name
	}
	return f.pkg + "." + f.name
}

type lgStruct struct {
	pkg      string
	name     string
	fields   map[string]ast.Expr
	embedded []ast.Expr
	imports  map[string]string
}

type lgAnalyzer struct {
	root    string
	module  string
	structs map[string]*lgStruct         // pkg + "." + name
	ifaces  map[string]bool              // pkg + "." + name
	ifaceM  map[string][]string          // interface -> method names
	ifaceE  map[string][]lgType          // interface -> embedded interfaces
	ifaceI  map[string]map[string]string // interface -> imports of the declaring file
	named   map[string]lgType            // pkg + "." + name -> underlying (non-struct named types)
	funcs   map[string]*lgFunc           // pkg + "." + recv + "." + name
	byName  map[string][]*lgFunc         // method name -> all methods
	edges   map[[2]string]string         // (held, acquired) -> witness
	nodes   map[string]bool
	fset    *token.FileSet
	pkgName map[string]string
	dynamic bool // resolve calls through interface-typed receivers to every implementer
}

func isMutexType(e ast.Expr) bool {
	if s, ok := e.(*ast.StarExpr); ok {
		e = s.X
	}
	sel, ok := e.(*ast.SelectorExpr)
	if !ok {
		return false
	}
	x, ok := sel.X.(*ast.Ident)
	return ok && x.Name == "sync" && (sel.Sel.Name == "Mutex" || sel.Sel.Name == "RWMutex")
}

func (a *lgAnalyzer) load() error {
	a.fset = token.NewFileSet()
	return filepath.Walk(a.root, func(path string, info os.FileInfo, err error) error {
		if err != nil {
			return err
		}
		if info.IsDir() {
			if n := info.Name(); path != a.root && (strings.HasPrefix(n, ".") || n == "testscommon" || n == "vendor") {
				return filepath.SkipDir
			}
			return nil
		}
		if !strings.HasSuffix(path, ".go") || strings.HasSuffix(path, "_test.go") {
			return nil
		}
		file, err := parser.ParseFile(a.fset, path, nil, 0)
		if err != nil {
			return err
		}
		dir, _ := filepath.Rel(a.root, filepath.Dir(path))
		a.pkgName[dir] = file.Name.Name
		imports := map[string]string{}
		for _, im := range file.Imports {
			p := strings.Trim(im.Path.Value, "\"")
			if !strings.HasPrefix(p, a.module) {
				continue
			}
			rel := strings.TrimPrefix(strings.TrimPrefix(p, a.module), "/")
			if rel == "" {
				rel = "."
			}
			alias := filepath.Base(p)
			if im.Name != nil {
				alias = im.Name.Name
			}
			imports[alias] = rel
		}
		for _, d := range file.Decls {
			switch d := d.(type) {
			case *ast.GenDecl:
				for _, sp := range d.Specs {
					ts, ok := sp.(*ast.TypeSpec)
					if !ok {
						continue
					}
					key := dir + "." + ts.Name.Name
					switch t := ts.Type.(type) {
					case *ast.StructType:
						st := &lgStruct{pkg: dir, name: ts.Name.Name, fields: map[string]ast.Expr{}, imports: imports}
						for _, f := range t.Fields.List {
							if len(f.Names) == 0 {
								st.embedded = append(st.embedded, f.Type)
								continue
							}
							for _, n := range f.Names {
								st.fields[n.Name] = f.Type
							}
						}
						a.structs[key] = st
					case *ast.InterfaceType:
						a.ifaces[key] = true
						a.ifaceI[key] = imports
						for _, m := range t.Methods.List {
							if len(m.Names) == 0 {
								a.ifaceE[key] = append(a.ifaceE[key], lgType{dir, m.Type})
								continue
							}
							for _, n := range m.Names {
								a.ifaceM[key] = append(a.ifaceM[key], n.Name)
							}
						}
					default:
						a.named[key] = lgType{dir, ts.Type}
					}
				}
			case *ast.FuncDecl:
				if d.Body == nil {
					continue
				}
				f := &lgFunc{pkg: dir, name: d.Name.Name, decl: d, imports: imports, direct: map[string]bool{}, callees: map[*lgFunc]bool{}, star: map[string]bool{}}
				if d.Recv != nil && len(d.Recv.List) == 1 {
					f.recv = baseTypeName(d.Recv.List[0].Type)
				}
				a.funcs[dir+"."+f.recv+"."+f.name] = f
				if f.recv != "" {
					a.byName[f.name] = append(a.byName[f.name], f)
				}
			}
		}
		return nil
	})
}

func baseTypeName(e ast.Expr) string {
	for {
		switch t := e.(type) {
		case *ast.StarExpr:
			e = t.X
		case *ast.ParenExpr:
			e = t.X
		case *ast.IndexExpr: // generic receiver
			e = t.X
		case *ast.Ident:
			return t.Name
		default:
			return ""
		}
	}
}

// resolveNamed: (package, type name) a type expression denotes, looking through pointers
func (a *lgAnalyzer) resolveNamed(t lgType, imports map[string]string) (string, string) {
	e := t.expr
	for {
		switch x := e.(type) {
		case *ast.StarExpr:
			e = x.X
			continue
		case *ast.ParenExpr:
			e = x.X
			continue
		case *ast.Ident:
			return t.pkg, x.Name
		case *ast.SelectorExpr:
			if id, ok := x.X.(*ast.Ident); ok {
				if dir, ok := imports[id.Name]; ok {
					return dir, x.Sel.Name
				}
			}
			return "", ""
		}
		return "", ""
	}
}

type lgEnv struct {
	fn   *lgFunc
	vars map[string]lgType
}

// fieldType: type of field `name` of struct (pkg, s), looking through one level of embedding
func (a *lgAnalyzer) fieldType(pkg, s, name string, depth int) (lgType, *lgStruct, bool) {
	st, ok := a.structs[pkg+"."+s]
	if !ok || depth > 3 {
		return lgType{}, nil, false
	}
	if ft, ok := st.fields[name]; ok {
		return lgType{pkg, ft}, st, true
	}
	for _, emb := range st.embedded {
		p2, n2 := a.resolveNamed(lgType{pkg, emb}, st.imports)
		if n2 == "" {
			continue
		}
		if t, s2, ok := a.fieldType(p2, n2, name, depth+1); ok {
			return t, s2, true
		}
	}
	return lgType{}, nil, false
}

// methodsOf: the method `name` of (pkg, s), with promotion through embedded fields
func (a *lgAnalyzer) methodOf(pkg, s, name string, depth int) *lgFunc {
	if f, ok := a.funcs[pkg+"."+s+"."+name]; ok {
		return f
	}
	st, ok := a.structs[pkg+"."+s]
	if !ok || depth > 3 {
		return nil
	}
	for _, emb := range st.embedded {
		p2, n2 := a.resolveNamed(lgType{pkg, emb}, st.imports)
		if n2 == "" {
			continue
		}
		if f := a.methodOf(p2, n2, name, depth+1); f != nil {
			return f
		}
	}
	return nil
}

func (a *lgAnalyzer) importsFor(t lgType, env *lgEnv) map[string]string {
	if t.pkg == env.fn.pkg {
		return env.fn.imports
	}
	// imports of some file of that package: use any struct's table (aliases are conventional in this repo)
	for _, st := range a.structs {
		if st.pkg == t.pkg {
			return st.imports
		}
	}
	return map[string]string{}
}

func (a *lgAnalyzer) typeOf(e ast.Expr, env *lgEnv) (lgType, bool) {
	switch x := e.(type) {
	case *ast.Ident:
		t, ok := env.vars[x.Name]
		return t, ok
	case *ast.ParenExpr:
		return a.typeOf(x.X, env)
	case *ast.StarExpr:
		return a.typeOf(x.X, env)
	case *ast.UnaryExpr:
		return a.typeOf(x.X, env)
	case *ast.TypeAssertExpr:
		if x.Type == nil {
			return lgType{}, false
		}
		return lgType{env.fn.pkg, x.Type}, true
	case *ast.CompositeLit:
		if x.Type == nil {
			return lgType{}, false
		}
		return lgType{env.fn.pkg, x.Type}, true
	case *ast.SelectorExpr:
		bt, ok := a.typeOf(x.X, env)
		if !ok {
			return lgType{}, false
		}
		p, n := a.resolveNamed(bt, a.importsFor(bt, env))
		if n == "" {
			return lgType{}, false
		}
		ft, _, ok := a.fieldType(p, n, x.Sel.Name, 0)
		return ft, ok
	case *ast.IndexExpr:
		bt, ok := a.typeOf(x.X, env)
		if !ok {
			return lgType{}, false
		}
		return a.elemOf(bt, env)
	case *ast.CallExpr:
		fs := a.resolveCall(x, env)
		if len(fs) == 1 && fs[0].decl.Type.Results != nil && len(fs[0].decl.Type.Results.List) > 0 {
			return lgType{fs[0].pkg, fs[0].decl.Type.Results.List[0].Type}, true
		}
		// conversions / make / new
		if id, ok := x.Fun.(*ast.Ident); ok && (id.Name == "make" || id.Name == "new") && len(x.Args) > 0 {
			return lgType{env.fn.pkg, x.Args[0]}, true
		}
	}
	return lgType{}, false
}

func (a *lgAnalyzer) elemOf(t lgType, env *lgEnv) (lgType, bool) {
	e := t.expr
	for i := 0; i < 4; i++ {
		switch x := e.(type) {
		case *ast.StarExpr:
			e = x.X
		case *ast.ArrayType:
			return lgType{t.pkg, x.Elt}, true
		case *ast.MapType:
			return lgType{t.pkg, x.Value}, true
		case *ast.Ident:
			if nt, ok := a.named[t.pkg+"."+x.Name]; ok {
				e = nt.expr
				continue
			}
			return lgType{}, false
		default:
			return lgType{}, false
		}
	}
	return lgType{}, false
}

// resolveCall: the repo functions a call may reach
func (a *lgAnalyzer) resolveCall(c *ast.CallExpr, env *lgEnv) []*lgFunc {
	switch fun := c.Fun.(type) {
	case *ast.Ident:
		if f, ok := a.funcs[env.fn.pkg+".."+fun.Name]; ok {
			return []*lgFunc{f}
		}
	case *ast.SelectorExpr:
		name := fun.Sel.Name
		if id, ok := fun.X.(*ast.Ident); ok {
			if _, isVar := env.vars[id.Name]; !isVar {
				if dir, ok := env.fn.imports[id.Name]; ok {
					if f, ok := a.funcs[dir+".."+name]; ok {
						return []*lgFunc{f}
					}
					return nil
				}
			}
		}
		if bt, ok := a.typeOf(fun.X, env); ok {
			p, n := a.resolveNamed(bt, a.importsFor(bt, env))
			if n != "" {
				if a.ifaces[p+"."+n] {
					if !a.dynamic {
						return nil
					}
					return a.implementers(p+"."+n, name) // interface: that method of every type with the interface's method names
				}
				if f := a.methodOf(p, n, name, 0); f != nil {
					return []*lgFunc{f}
				}
				if _, known := a.structs[p+"."+n]; known {
					return nil // a field of function type or a method of a dependency
				}
				if _, known := a.named[p+"."+n]; known {
					return nil
				}
			}
			if n == "" {
				return nil // the receiver has a type of a dependency / a builtin type: no repository code behind it
			}
		}
		// unresolved receiver: every method of that name in this package
		var out []*lgFunc
		for _, f := range a.byName[name] {
			if f.pkg == env.fn.pkg {
				out = append(out, f)
			}
		}
		return out
	}
	return nil
}

// methodNames: the method names an interface of the repository requires (embedded interfaces flattened)
func (a *lgAnalyzer) methodNames(key string, depth int) []string {
	out := append([]string{}, a.ifaceM[key]...)
	if depth > 4 {
		return out
	}
	for _, e := range a.ifaceE[key] {
		p, n := a.resolveNamed(e, a.ifaceI[key])
		if n != "" && a.ifaces[p+"."+n] {
			out = append(out, a.methodNames(p+"."+n, depth+1)...)
		}
	}
	return out
}

// implementers: method `name` of every struct type of the repository that has all the interface's method names
func (a *lgAnalyzer) implementers(iface string, name string) []*lgFunc {
	need := a.methodNames(iface, 0)
	var out []*lgFunc
	for _, f := range a.byName[name] {
		ok := true
		for _, m := range need {
			if a.methodOf(f.pkg, f.recv, m, 0) == nil {
				ok = false
				break
			}
		}
		if ok {
			out = append(out, f)
		}
	}
	return out
}

// mutexOf: the mutex nodes a Lock/RLock/Unlock/RUnlock call operates on
func (a *lgAnalyzer) mutexOf(c *ast.CallExpr, env *lgEnv) (op string, ids []string) {
	sel, ok := c.Fun.(*ast.SelectorExpr)
	if !ok || len(c.Args) != 0 {
		return "", nil
	}
	switch sel.Sel.Name {
	case "Lock", "RLock":
		op = "lock"
	case "Unlock", "RUnlock":
		op = "unlock"
	default:
		return "", nil
	}
	// X.field.Lock()
	if fs, ok := sel.X.(*ast.SelectorExpr); ok {
		if bt, ok := a.typeOf(fs.X, env); ok {
			p, n := a.resolveNamed(bt, a.importsFor(bt, env))
			if ft, st, ok := a.fieldType(p, n, fs.Sel.Name, 0); ok && isMutexType(ft.expr) {
				return op, []string{st.pkg + "." + st.name + "." + fs.Sel.Name}
			}
		}
		// fallback: every struct of the package with a mutex field of that name
		for _, st := range a.structs {
			if st.pkg == env.fn.pkg {
				if ft, ok := st.fields[fs.Sel.Name]; ok && isMutexType(ft) {
					ids = append(ids, st.pkg+"."+st.name+"."+fs.Sel.Name)
				}
			}
		}
		sort.Strings(ids)
		return op, ids
	}
	// X.Lock() with X of a struct type that embeds a mutex, or a mutex variable
	if bt, ok := a.typeOf(sel.X, env); ok {
		if isMutexType(bt.expr) {
			if id, ok := sel.X.(*ast.Ident); ok {
				return op, []string{env.fn.String() + "#" + id.Name}
			}
		}
		p, n := a.resolveNamed(bt, a.importsFor(bt, env))
		if st, ok := a.structs[p+"."+n]; ok {
			for _, emb := range st.embedded {
				if isMutexType(emb) {
					return op, []string{p + "." + n + ".RWMutex"}
				}
			}
			// a method named Lock of a repo type: a regular call
			return "", nil
		}
	}
	return "", nil
}

func (a *lgAnalyzer) newEnv(f *lgFunc) *lgEnv {
	env := &lgEnv{fn: f, vars: map[string]lgType{}}
	addFields := func(fl *ast.FieldList) {
		if fl == nil {
			return
		}
		for _, fld := range fl.List {
			for _, n := range fld.Names {
				env.vars[n.Name] = lgType{f.pkg, fld.Type}
			}
		}
	}
	addFields(f.decl.Recv)
	addFields(f.decl.Type.Params)
	addFields(f.decl.Type.Results)
	return env
}

// bind: record the types of the variables a statement declares
func (a *lgAnalyzer) bind(s ast.Stmt, env *lgEnv) {
	switch st := s.(type) {
	case *ast.AssignStmt:
		if st.Tok != token.DEFINE && st.Tok != token.ASSIGN {
			return
		}
		for i, lhs := range st.Lhs {
			id, ok := lhs.(*ast.Ident)
			if !ok || id.Name == "_" {
				continue
			}
			if _, exists := env.vars[id.Name]; exists && st.Tok == token.ASSIGN {
				continue
			}
			if len(st.Rhs) == len(st.Lhs) {
				if t, ok := a.typeOf(st.Rhs[i], env); ok {
					env.vars[id.Name] = t
				}
			} else if len(st.Rhs) == 1 {
				switch r := st.Rhs[0].(type) {
				case *ast.CallExpr:
					fs := a.resolveCall(r, env)
					if len(fs) == 1 && fs[0].decl.Type.Results != nil {
						var flat []ast.Expr
						for _, fld := range fs[0].decl.Type.Results.List {
							k := len(fld.Names)
							if k == 0 {
								k = 1
							}
							for j := 0; j < k; j++ {
								flat = append(flat, fld.Type)
							}
						}
						if i < len(flat) {
							env.vars[id.Name] = lgType{fs[0].pkg, flat[i]}
						}
					}
				case *ast.IndexExpr, *ast.TypeAssertExpr:
					if i == 0 {
						if t, ok := a.typeOf(r, env); ok {
							env.vars[id.Name] = t
						}
					}
				}
			}
		}
	case *ast.DeclStmt:
		if gd, ok := st.Decl.(*ast.GenDecl); ok {
			for _, sp := range gd.Specs {
				if vs, ok := sp.(*ast.ValueSpec); ok && vs.Type != nil {
					for _, n := range vs.Names {
						env.vars[n.Name] = lgType{env.fn.pkg, vs.Type}
					}
				}
			}
		}
	case *ast.RangeStmt:
		if bt, ok := a.typeOf(st.X, env); ok {
			if et, ok := a.elemOf(bt, env); ok {
				if id, ok := st.Value.(*ast.Ident); ok && id.Name != "_" {
					env.vars[id.Name] = et
				}
			}
		}
	}
}

type heldSet map[string]bool

func (h heldSet) clone() heldSet {
	c := heldSet{}
	for k := range h {
		c[k] = true
	}
	return c
}
func (h heldSet) union(o heldSet) {
	for k := range o {
		h[k] = true
	}
}

// pass 1: direct acquisitions and callees (anywhere in the body, closures included)
func (a *lgAnalyzer) collect(f *lgFunc) {
	env := a.newEnv(f)
	ast.Inspect(f.decl.Body, func(n ast.Node) bool {
		if s, ok := n.(ast.Stmt); ok {
			a.bind(s, env)
		}
		if fl, ok := n.(*ast.FuncLit); ok {
			for _, fld := range fl.Type.Params.List {
				for _, nm := range fld.Names {
					env.vars[nm.Name] = lgType{f.pkg, fld.Type}
				}
			}
		}
		c, ok := n.(*ast.CallExpr)
		if !ok {
			return true
		}
		if op, ids := a.mutexOf(c, env); op != "" {
			if op == "lock" {
				for _, id := range ids {
					f.direct[id] = true
					a.nodes[id] = true
				}
			}
			return true
		}
		for _, g := range a.resolveCall(c, env) {
			f.callees[g] = true
		}
		return true
	})
}

func (a *lgAnalyzer) closure() {
	for _, f := range a.funcs {
		for m := range f.direct {
			f.star[m] = true
		}
	}
	for changed := true; changed; {
		changed = false
		for _, f := range a.funcs {
			for g := range f.callees {
				for m := range g.star {
					if !f.star[m] {
						f.star[m] = true
						changed = true
					}
				}
			}
		}
	}
}

func (a *lgAnalyzer) edge(from, to, why string) {
	k := [2]string{from, to}
	if _, ok := a.edges[k]; !ok {
		a.edges[k] = why
	}
	a.nodes[from], a.nodes[to] = true, true
}

// pass 2: walk with the set of held mutexes
func (a *lgAnalyzer) walkFunc(f *lgFunc) {
	env := a.newEnv(f)
	var deferred []*ast.CallExpr
	ever := heldSet{}
	held := a.walkBlock(f.decl.Body.List, heldSet{}, env, &deferred, ever)
	_ = held
	for _, c := range deferred {
		a.calls(c, ever.clone(), env, &deferred, ever)
	}
}

func (a *lgAnalyzer) walkBlock(stmts []ast.Stmt, held heldSet, env *lgEnv, deferred *[]*ast.CallExpr, ever heldSet) heldSet {
	for _, s := range stmts {
		held = a.walkStmt(s, held, env, deferred, ever)
	}
	return held
}

func (a *lgAnalyzer) walkStmt(s ast.Stmt, held heldSet, env *lgEnv, deferred *[]*ast.CallExpr, ever heldSet) heldSet {
	a.bind(s, env)
	switch st := s.(type) {
	case *ast.BlockStmt:
		return a.walkBlock(st.List, held, env, deferred, ever)
	case *ast.DeferStmt:
		if op, _ := a.mutexOf(st.Call, env); op == "unlock" {
			return held // held until the function returns
		}
		*deferred = append(*deferred, st.Call)
		return held
	case *ast.GoStmt:
		// a new goroutine holds nothing
		a.exprCalls(st.Call, heldSet{}, env, deferred, heldSet{})
		return held
	case *ast.IfStmt:
		if st.Init != nil {
			held = a.walkStmt(st.Init, held, env, deferred, ever)
		}
		held = a.exprCalls(st.Cond, held, env, deferred, ever)
		h1 := a.walkBlock(st.Body.List, held.clone(), env, deferred, ever)
		h2 := held.clone()
		if st.Else != nil {
			h2 = a.walkStmt(st.Else, held.clone(), env, deferred, ever)
		}
		h1.union(h2)
		return h1
	case *ast.ForStmt:
		if st.Init != nil {
			held = a.walkStmt(st.Init, held, env, deferred, ever)
		}
		if st.Cond != nil {
			held = a.exprCalls(st.Cond, held, env, deferred, ever)
		}
		h := a.walkBlock(st.Body.List, held.clone(), env, deferred, ever)
		if st.Post != nil {
			h = a.walkStmt(st.Post, h, env, deferred, ever)
		}
		held.union(h)
		return held
	case *ast.RangeStmt:
		held = a.exprCalls(st.X, held, env, deferred, ever)
		h := a.walkBlock(st.Body.List, held.clone(), env, deferred, ever)
		held.union(h)
		return held
	case *ast.SwitchStmt:
		if st.Init != nil {
			held = a.walkStmt(st.Init, held, env, deferred, ever)
		}
		if st.Tag != nil {
			held = a.exprCalls(st.Tag, held, env, deferred, ever)
		}
		return a.clauses(st.Body, held, env, deferred, ever)
	case *ast.TypeSwitchStmt:
		if st.Init != nil {
			held = a.walkStmt(st.Init, held, env, deferred, ever)
		}
		held = a.walkStmt(st.Assign, held, env, deferred, ever)
		return a.clauses(st.Body, held, env, deferred, ever)
	case *ast.SelectStmt:
		return a.clauses(st.Body, held, env, deferred, ever)
	case *ast.LabeledStmt:
		return a.walkStmt(st.Stmt, held, env, deferred, ever)
	default:
		// expression / assignment / return / send / inc-dec / decl: every call inside, in source order
		return a.exprCalls(s, held, env, deferred, ever)
	}
}

func (a *lgAnalyzer) clauses(body *ast.BlockStmt, held heldSet, env *lgEnv, deferred *[]*ast.CallExpr, ever heldSet) heldSet {
	out := held.clone()
	for _, cl := range body.List {
		var list []ast.Stmt
		switch c := cl.(type) {
		case *ast.CaseClause:
			list = c.Body
		case *ast.CommClause:
			if c.Comm != nil {
				list = append([]ast.Stmt{c.Comm}, c.Body...)
			} else {
				list = c.Body
			}
		}
		out.union(a.walkBlock(list, held.clone(), env, deferred, ever))
	}
	return out
}

// exprCalls: handle every call expression inside a node, innermost first, left to right
func (a *lgAnalyzer) exprCalls(n ast.Node, held heldSet, env *lgEnv, deferred *[]*ast.CallExpr, ever heldSet) heldSet {
	if n == nil {
		return held
	}
	var visit func(n ast.Node)
	visit = func(n ast.Node) {
		ast.Inspect(n, func(m ast.Node) bool {
			switch x := m.(type) {
			case *ast.FuncLit:
				return false // closures are handled where they are passed or called
			case *ast.CallExpr:
				for _, arg := range x.Args {
					if _, isLit := arg.(*ast.FuncLit); !isLit {
						visit(arg)
					}
				}
				if sel, ok := x.Fun.(*ast.SelectorExpr); ok {
					visit(sel.X)
				}
				held = a.calls(x, held, env, deferred, ever)
				return false
			}
			return true
		})
	}
	visit(n)
	return held
}

func (a *lgAnalyzer) calls(c *ast.CallExpr, held heldSet, env *lgEnv, deferred *[]*ast.CallExpr, ever heldSet) heldSet {
	pos := a.fset.Position(c.Pos())
	where := fmt.Sprintf("%s (%s:%d)", env.fn, filepath.Base(pos.Filename), pos.Line)
	if op, ids := a.mutexOf(c, env); op != "" {
		for _, id := range ids {
			if op == "lock" {
				for h := range held {
					a.edge(h, id, where+": acquired directly")
				}
				held[id] = true
				ever[id] = true
			} else {
				delete(held, id)
			}
		}
		return held
	}
	callees := a.resolveCall(c, env)
	during := held.clone()
	for _, g := range callees {
		for m := range g.star {
			for h := range held {
				a.edge(h, m, where+": through the call of "+g.String())
			}
			during[m] = true
		}
	}
	// function literals: called immediately, or passed to a callee that may run them under its own locks
	lits := []*ast.FuncLit{}
	if fl, ok := c.Fun.(*ast.FuncLit); ok {
		lits = append(lits, fl)
	}
	for _, arg := range c.Args {
		if fl, ok := arg.(*ast.FuncLit); ok {
			lits = append(lits, fl)
		}
	}
	for _, fl := range lits {
		for _, fld := range fl.Type.Params.List {
			for _, nm := range fld.Names {
				env.vars[nm.Name] = lgType{env.fn.pkg, fld.Type}
			}
		}
		a.walkBlock(fl.Body.List, during.clone(), env, deferred, ever)
	}
	return held
}

// LockGraph is the result of the extraction.
type LockGraph struct {
	Nodes []string
	Edges [][2]int
	Why   []string
	Funcs int
}

func extractLockGraph(root string, dynamic bool) (*LockGraph, error) {
	a := &lgAnalyzer{dynamic: dynamic, root: root, module: "github.com/multiversx/mx-chain-storage-go", structs: map[string]*lgStruct{}, ifaces: map[string]bool{}, ifaceM: map[string][]string{}, ifaceE: map[string][]lgType{}, ifaceI: map[string]map[string]string{},
		named: map[string]lgType{}, funcs: map[string]*lgFunc{}, byName: map[string][]*lgFunc{}, edges: map[[2]string]string{}, nodes: map[string]bool{}, pkgName: map[string]string{}}
	if err := a.load(); err != nil {
		return nil, err
	}
	names := make([]string, 0, len(a.funcs))
	for k := range a.funcs {
		names = append(names, k)
	}
	sort.Strings(names)
	for _, k := range names {
		a.collect(a.funcs[k])
	}
	a.closure()
	for _, k := range names {
		a.walkFunc(a.funcs[k])
	}
	g := &LockGraph{Funcs: len(a.funcs)}
	for n := range a.nodes {
		g.Nodes = append(g.Nodes, n)
	}
	sort.Strings(g.Nodes)
	idx := map[string]int{}
	for i, n := range g.Nodes {
		idx[n] = i
	}
	keys := make([][2]string, 0, len(a.edges))
	for k := range a.edges {
		keys = append(keys, k)
	}
	sort.Slice(keys, func(i, j int) bool {
		if keys[i][0] != keys[j][0] {
			return keys[i][0] < keys[j][0]
		}
		return keys[i][1] < keys[j][1]
	})
	for _, k := range keys {
		g.Edges = append(g.Edges, [2]int{idx[k[0]], idx[k[1]]})
		g.Why = append(g.Why, a.edges[k])
	}
	return g, nil
}

// merged: the two graphs over one numbering of the mutexes. The dynamic graph (calls through
// interface-typed receivers resolved to every implementer) loses the self-loops that only exist
// through interface dispatch: at the level of TYPES a wrapper (storageCacherAdapter -> Persister ->
// lruDB -> Cacher -> storageCacherAdapter) may wrap another INSTANCE of its own type; they are listed.
func mergeGraphs(gs, gd *LockGraph) (nodes []string, static, dynamic *LockGraph, dropped []string) {
	set := map[string]bool{}
	for _, n := range gs.Nodes {
		set[n] = true
	}
	for _, n := range gd.Nodes {
		set[n] = true
	}
	for n := range set {
		nodes = append(nodes, n)
	}
	sort.Strings(nodes)
	idx := map[string]int{}
	for i, n := range nodes {
		idx[n] = i
	}
	static = &LockGraph{Nodes: nodes, Funcs: gs.Funcs}
	inStatic := map[[2]int]bool{}
	for i, e := range gs.Edges {
		k := [2]int{idx[gs.Nodes[e[0]]], idx[gs.Nodes[e[1]]]}
		static.Edges = append(static.Edges, k)
		static.Why = append(static.Why, gs.Why[i])
		inStatic[k] = true
	}
	dynamic = &LockGraph{Nodes: nodes, Funcs: gd.Funcs}
	for i, e := range gd.Edges {
		k := [2]int{idx[gd.Nodes[e[0]]], idx[gd.Nodes[e[1]]]}
		if k[0] == k[1] && !inStatic[k] {
			dropped = append(dropped, nodes[k[0]]+" ["+gd.Why[i]+"]")
			continue
		}
		dynamic.Edges = append(dynamic.Edges, k)
		dynamic.Why = append(dynamic.Why, gd.Why[i])
	}
	return
}

func coqList(g *LockGraph) string {
	var sb strings.Builder
	sb.WriteString("[")
	for i, e := range g.Edges {
		if i > 0 {
			sb.WriteString("; ")
		}
		fmt.Fprintf(&sb, "(%d, %d)", e[0], e[1])
	}
	sb.WriteString("]")
	return sb.String()
}

func coqFile(nodes []string, static, dynamic *LockGraph, dropped []string) string {
	var sb strings.Builder
	sb.WriteString("(* generated by harness/stress/lockgraph.go from the current source of the repository; do not edit *)\n")
	sb.WriteString("From Coq Require Import List Arith Bool.\nFrom Verif Require Import Conc.LockOrder Conc.LockOrder_proofs.\nImport ListNotations.\n\n(* mutexes:\n")
	for i, n := range nodes {
		fmt.Fprintf(&sb, "   %d = %s\n", i, n)
	}
	sb.WriteString("   static edges (held -> acquired while held; concrete receivers only):\n")
	for i, e := range static.Edges {
		fmt.Fprintf(&sb, "   %s -> %s   [%s]\n", nodes[e[0]], nodes[e[1]], strings.ReplaceAll(static.Why[i], "*)", "* )"))
	}
	sb.WriteString("   dynamic edges (calls through interfaces resolved to every implementer):\n")
	for i, e := range dynamic.Edges {
		fmt.Fprintf(&sb, "   %s -> %s   [%s]\n", nodes[e[0]], nodes[e[1]], strings.ReplaceAll(dynamic.Why[i], "*)", "* )"))
	}
	sb.WriteString("   type-level self-loops that exist only through interface dispatch (dropped from the dynamic graph):\n")
	for _, d := range dropped {
		fmt.Fprintf(&sb, "   %s\n", strings.ReplaceAll(d, "*)", "* )"))
	}
	fmt.Fprintf(&sb, "*)\n\nDefinition lock_graph_static : graph :=\n  %s.\n\nDefinition lock_graph_dynamic : graph :=\n  %s.\n\n", coqList(static), coqList(dynamic))
	fmt.Fprintf(&sb, "Theorem extracted_static_lock_graph_acyclic : no_cycle lock_graph_static.\nProof. apply (acyclicb_sound lock_graph_static %d). vm_compute. reflexivity. Qed.\n\n", len(nodes))
	fmt.Fprintf(&sb, "Theorem extracted_dynamic_lock_graph_acyclic : no_cycle lock_graph_dynamic.\nProof. apply (acyclicb_sound lock_graph_dynamic %d). vm_compute. reflexivity. Qed.\n\n", len(nodes))
	sb.WriteString("Print Assumptions extracted_static_lock_graph_acyclic.\nPrint Assumptions extracted_dynamic_lock_graph_acyclic.\n")
	return sb.String()
}

// findCycle: only for the failure message (the verdict is Coq's)
func (g *LockGraph) findCycle() []int {
	adj := map[int][]int{}
	for _, e := range g.Edges {
		adj[e[0]] = append(adj[e[0]], e[1])
	}
	color := map[int]int{}
	var stack []int
	var cyc []int
	var dfs func(u int) bool
	dfs = func(u int) bool {
		color[u] = 1
		stack = append(stack, u)
		for _, v := range adj[u] {
			if color[v] == 1 {
				for i := len(stack) - 1; i >= 0; i-- {
					cyc = append([]int{stack[i]}, cyc...)
					if stack[i] == v {
						break
					}
				}
				return true
			}
			if color[v] == 0 && dfs(v) {
				return true
			}
		}
		color[u] = 2
		stack = stack[:len(stack)-1]
		return false
	}
	for i := range g.Nodes {
		if color[i] == 0 && dfs(i) {
			return cyc
		}
	}
	return nil
}

func envOr(name, def string) string {
	if v := os.Getenv(name); v != "" {
		return v
	}
	return def
}

// phaseLockOrder: extract, emit, let Coq decide
func phaseLockOrder(c *collector, scratch string) {
	p := c.newPhase("lock-order", 0, 1)
	root := envOr("VERIF_REPO", "/repo")
	theories := envOr("VERIF_COQ_THEORIES", "/verif/coq/theories")
	gs, err := extractLockGraph(root, false)
	if err != nil {
		p.failf("monitor", "lock-order extraction failed: %v", err)
		return
	}
	gd, err := extractLockGraph(root, true)
	if err != nil {
		p.failf("monitor", "lock-order extraction failed: %v", err)
		return
	}
	nodes, static, dynamic, dropped := mergeGraphs(gs, gd)
	c.add("lockgraph_functions", int64(gs.Funcs))
	c.add("lockgraph_mutexes", int64(len(nodes)))
	c.add("lockgraph_static_edges", int64(len(static.Edges)))
	c.add("lockgraph_dynamic_edges", int64(len(dynamic.Edges)))
	c.add("lockgraph_type_level_self_loops_via_interfaces", int64(len(dropped)))
	if len(nodes) < 10 || len(static.Edges) < 5 {
		p.failf("monitor", "lock-order extraction found only %d mutexes / %d edges under %s: the extractor no longer understands the source", len(nodes), len(static.Edges), root)
		return
	}
	if scratch == "" {
		scratch = os.TempDir()
	}
	_ = os.MkdirAll(scratch, 0o755)
	file := filepath.Join(scratch, "LockGraphGenerated.v")
	if err := os.WriteFile(file, []byte(coqFile(nodes, static, dynamic, dropped)), 0o644); err != nil {
		p.failf("monitor", "cannot write %s: %v", file, err)
		return
	}
	if _, err := os.Stat(filepath.Join(theories, "Conc", "LockOrder_proofs.vo")); err != nil {
		c.add("lockgraph_coq_skipped", 1)
		c.sample(fmt.Sprintf("lock-order: %d mutexes, %d static edges extracted; Conc/LockOrder_proofs.vo not compiled under %s, Coq check skipped", len(nodes), len(static.Edges), theories))
		return
	}
	cmd := exec.Command("coqc", "-Q", theories, "Verif", file)
	cmd.Dir = scratch
	out, err := cmd.CombinedOutput()
	c.eval("lockgraph_coq_checks")
	if err != nil || strings.Count(string(out), "Closed under the global context") != 2 {
		msg := strings.ReplaceAll(string(out), "\n", " | ")
		if len(msg) > 600 {
			msg = msg[:600]
		}
		bad := static
		cyc := static.findCycle()
		if cyc == nil {
			bad = dynamic
			cyc = dynamic.findCycle()
		}
		var names, wit []string
		for _, i := range cyc {
			names = append(names, nodes[i])
		}
		for i, e := range bad.Edges {
			for k := range cyc {
				if e[0] == cyc[k] && e[1] == cyc[(k+1)%len(cyc)] {
					wit = append(wit, nodes[e[0]]+" -> "+nodes[e[1]]+" at "+bad.Why[i])
				}
			}
		}
		p.failf("monitor", "lock-order graph: Coq does not accept acyclicity (circular wait possible): cycle %s | %s | coqc: %v %s", strings.Join(names, " -> "), strings.Join(wit, " ; "), err, msg)
		return
	}
	var es []string
	for i, e := range static.Edges {
		if strings.HasPrefix(nodes[e[0]], "txcache") && len(es) < 5 {
			es = append(es, nodes[e[0]]+" -> "+nodes[e[1]])
		}
		_ = i
	}
	c.sample(fmt.Sprintf("lock-order: %d functions parsed, %d mutex fields, %d static + %d dynamic held->acquired edges (e.g. %s), %d type-level self-loops via interfaces set aside; Coq: both extracted graphs acyclic, closed under the global context",
		gs.Funcs, len(nodes), len(static.Edges), len(dynamic.Edges), strings.Join(es, "; "), len(dropped)))
}
