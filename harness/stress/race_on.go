//go:build race

package stress

const raceEnabled = true
