package stress

import (
	"bytes"
	"fmt"
	"math/rand"
	"runtime"
	"sync/atomic"
	"time"

	"github.com/multiversx/mx-chain-storage-go/lrucache"
	"github.com/multiversx/mx-chain-storage-go/memorydb"
	"github.com/multiversx/mx-chain-storage-go/storageUnit"
	"github.com/multiversx/mx-chain-storage-go/types"
)

// ---------------------------------------------------------------- storageUnit.Unit under concurrency (C16 extra)
//
// C16 quantifies over operation SEQUENCES; this phase looks at what concurrent callers can leave behind: at every
// instant where no operation is in flight the cache must not hold, for any key, a value that differs from what the
// persister holds (write-through unit), and Get/Has must answer like the persister.

// yieldDB widens the windows inside Unit's critical sections: reads and writes of the persister give up the processor
type yieldDB struct {
	types.Persister
	n atomic.Int64
}

func (s *yieldDB) Get(k []byte) ([]byte, error) {
	v, err := s.Persister.Get(k)
	runtime.Gosched()
	if s.n.Add(1)%5 == 0 {
		time.Sleep(30 * time.Microsecond)
	}
	return v, err
}

func (s *yieldDB) Put(k, v []byte) error {
	runtime.Gosched()
	return s.Persister.Put(k, v)
}

func (s *yieldDB) Remove(k []byte) error {
	runtime.Gosched()
	if s.n.Add(1)%3 == 0 {
		time.Sleep(20 * time.Microsecond)
	}
	return s.Persister.Remove(k)
}

func (s *yieldDB) Has(k []byte) error {
	err := s.Persister.Has(k)
	runtime.Gosched()
	return err
}

func phaseStorageUnit(c *collector, rs int64, scale int) {
	p := c.newPhase("storage-unit", rs, scale)
	r := p.rng()
	cacheSize := []int{2, 3, 6}[r.Intn(3)]
	cacher, err := lrucache.NewCache(cacheSize)
	if err != nil {
		p.failf("monitor", "lrucache.NewCache: %v", err)
		return
	}
	db := &yieldDB{Persister: memorydb.New()}
	u, err := storageUnit.NewStorageUnit(cacher, db)
	if err != nil {
		p.failf("monitor", "NewStorageUnit: %v", err)
		return
	}
	keys := [][]byte{[]byte("ka"), []byte("kb"), []byte("kc"), []byte("kd")}
	const workers = 6
	epochs := 25 * scale
	var nOps atomic.Int64
	valueOf := func(k []byte, id, epoch, i int) []byte { return []byte(fmt.Sprintf("%s/w%d/e%d/%d", k, id, epoch, i)) }
	for epoch := 0; epoch < epochs && !p.failed.Load(); epoch++ {
		ep := epoch
		// make cache misses likely at the start of the epoch: the refill path of Get is the interesting one
		if r.Intn(2) == 0 {
			u.ClearCache()
		}
		p.worker(workers, "storageUnit ops", func(id int, rr *rand.Rand) {
			for i := 0; i < 12; i++ {
				k := keys[rr.Intn(len(keys))]
				nOps.Add(1)
				switch rr.Intn(10) {
				case 0, 1, 2:
					if err := u.Put(k, valueOf(k, id, ep, i)); err != nil {
						p.failf("monitor", "storageUnit.Put over memorydb failed: %v", err)
					}
				case 3, 4:
					_ = u.Remove(k)
				case 5:
					u.ClearCache()
				case 6:
					_ = u.Has(k)
				default:
					v, err := u.Get(k)
					c.eval("probe_unit_get_value_of_key")
					if err == nil && !bytes.HasPrefix(v, append(append([]byte{}, k...), '/')) {
						p.failf("monitor", "storageUnit.Get(%s) returned %q, a value never written under that key", k, v)
					}
				}
			}
		})
		if !waitTimeout(&p.main, c.watchdog) {
			p.mainTimedOut = true
			p.join()
			return
		}
		// quiescent instant: nothing in flight
		for _, k := range keys {
			c.eval("quiescent_unit_cache_agrees_with_persister")
			pv, perr := db.Persister.Get(k)
			if cv, ok := cacher.Peek(k); ok {
				cb, _ := cv.([]byte)
				if perr != nil {
					p.failf("monitor", "quiescent (epoch %d): the cache of the storage unit holds %q for key %s which the persister does not hold (removed from one layer only, or refilled with a stale value)", ep, cb, k)
				} else if !bytes.Equal(cb, pv) {
					p.failf("monitor", "quiescent (epoch %d): the cache of the storage unit serves %q for key %s while the persister holds %q", ep, cb, k, pv)
				}
			}
			gv, gerr := u.Get(k)
			if (gerr == nil) != (perr == nil) || (gerr == nil && !bytes.Equal(gv, pv)) {
				p.failf("monitor", "quiescent (epoch %d): storageUnit.Get(%s) = (%q, %v) while the persister answers (%q, %v)", ep, k, gv, gerr, pv, perr)
			}
			if herr := u.Has(k); (herr == nil) != (perr == nil) {
				p.failf("monitor", "quiescent (epoch %d): storageUnit.Has(%s) = %v while the persister answers %v", ep, k, herr, perr)
			}
		}
	}
	if !p.join() {
		return
	}
	c.add("ops_storage_unit", nOps.Load())
}
