// Package stress: concurrent workloads over every public operation of the caches, meant to run
// under the race detector (C14). It is an `Extra` only: Gen / Exhaustive / Run are stubs.
//
// What it VALIDATES (not proves): no data race (race detector), no panic (recovered, reported), no
// deadlock (watchdog on completion), and the monitors of the property text evaluated on the
// concurrent runs: every concurrent SelectTransactions result satisfies C01 and C02; transactions
// added by concurrent AddTx calls in add-only phases are all present and each sender list is
// correctly ordered; immunized items survive; size bounds hold at every probe instant; once all
// goroutines have finished CountTx = number of hashes reachable and NumBytes = their total Size.
//
// Build:   go build -race -tags verif -o bin/harness-race ./cmd/harness
// Run:     GORACE="halt_on_error=1 exitcode=66" bin/harness-race extra -component stress -prop C14 ...
// A detected race makes the process exit with status 66 (the report goes to stderr), which the
// orchestrator reports as "extra check crashed". Without -race everything but race detection works.
package stress

import (
	"fmt"
	"math/rand"
	"runtime"
	"sort"
	"strings"
	"sync"
	"sync/atomic"
	"time"

	logger "github.com/multiversx/mx-chain-logger-go"
	"github.com/multiversx/mx-chain-storage-go/txcache"
	"verifharness/core"
)

type comp struct{}

func init() { core.Register(comp{}) }

func (comp) Name() string { return "stress" }

// Gen / Exhaustive / Run: the component has no history-based check.
func (comp) Gen(prop string, rng *rand.Rand, tier string) *core.History     { return nil }
func (comp) Exhaustive(prop string, tier string, yield func(*core.History)) {}
func (comp) Run(h *core.History, scratch string) *core.Result               { return &core.Result{} }

// ---------------------------------------------------------------- result collection

type collector struct {
	mu       sync.Mutex
	res      *core.ExtraResult
	seed     int64
	tier     string
	prop     string
	round    int
	procs    int
	perKind  map[string]int
	evals    atomic.Int64
	aborted  atomic.Bool
	counts   sync.Map // string -> *atomic.Int64
	samples  []string
	phaseSet map[string]bool
	watchdog time.Duration
}

func (c *collector) add(key string, n int64) {
	v, ok := c.counts.Load(key)
	if !ok {
		v, _ = c.counts.LoadOrStore(key, new(atomic.Int64))
	}
	v.(*atomic.Int64).Add(n)
}

// eval counts one evaluation of a monitor.
func (c *collector) eval(key string) {
	c.evals.Add(1)
	c.add(key, 1)
}

func (c *collector) sample(s string) {
	c.mu.Lock()
	if len(c.samples) < 12 {
		c.samples = append(c.samples, s)
	}
	c.mu.Unlock()
}

// failf records a failure: kind in {monitor, panic, watchdog}; at most 3 per (phase, kind, headline).
func (c *collector) failf(phase, kind, format string, a ...interface{}) {
	msg := fmt.Sprintf(format, a...)
	head := msg
	if i := strings.IndexAny(head, ":("); i > 0 {
		head = head[:i]
	}
	key := phase + "|" + kind + "|" + head
	c.mu.Lock()
	defer c.mu.Unlock()
	c.perKind[key]++
	if c.perKind[key] > 2 || len(c.res.Fails) >= 24 {
		return
	}
	full := fmt.Sprintf("[%s] phase=%s round=%d GOMAXPROCS=%d: %s", kind, phase, c.round, c.procs, msg)
	c.res.Fails = append(c.res.Fails, core.Fail{Property: c.prop, Step: -1, Msg: full})
	c.res.Replays = append(c.res.Replays, fmt.Sprintf("harness-race extra -component stress -prop %s -tier %s -seed %d   # round %d, phase %s (GOMAXPROCS=%d): %s",
		c.prop, c.tier, c.seed, c.round, phase, c.procs, msg))
}

// ---------------------------------------------------------------- phases, goroutines, watchdog

type phase struct {
	c      *collector
	name   string
	seed   int64
	scale  int
	main   sync.WaitGroup // workers with a finite plan
	bg     sync.WaitGroup // readers / probers / selectors: run until stop
	stop   atomic.Bool
	nGo    int
	sub    int64
	failed atomic.Bool
	// set when an epoch already waited in vain for the workers
	mainTimedOut bool
}

func (c *collector) newPhase(name string, roundSeed int64, scale int) *phase {
	h := int64(0)
	for _, ch := range name {
		h = h*131 + int64(ch)
	}
	c.mu.Lock()
	c.phaseSet[name] = true
	c.mu.Unlock()
	c.add("phases", 1)
	return &phase{c: c, name: name, seed: roundSeed*1000003 + h, scale: scale}
}

func (p *phase) rng() *rand.Rand {
	p.sub++
	return rand.New(rand.NewSource(p.seed*7919 + p.sub))
}

func (p *phase) failf(kind, format string, a ...interface{}) {
	p.failed.Store(true)
	p.c.failf(p.name, kind, format, a...)
}

func (p *phase) guard(label string) {
	if r := recover(); r != nil {
		buf := make([]byte, 6000)
		n := runtime.Stack(buf, false)
		p.failf("panic", "panic in %s: %v | %s", label, r, strings.ReplaceAll(string(buf[:n]), "\n", " | "))
	}
}

// worker starts n goroutines with a finite plan.
func (p *phase) worker(n int, label string, f func(id int, rng *rand.Rand)) {
	for i := 0; i < n; i++ {
		r := p.rng()
		p.main.Add(1)
		p.nGo++
		go func(id int) {
			defer p.main.Done()
			defer p.guard(label)
			f(id, r)
		}(i)
	}
}

// background starts n goroutines that loop until the workers have finished.
func (p *phase) background(n int, label string, f func(id int, rng *rand.Rand)) {
	for i := 0; i < n; i++ {
		r := p.rng()
		p.bg.Add(1)
		p.nGo++
		go func(id int) {
			defer p.bg.Done()
			defer p.guard(label)
			for !p.stop.Load() {
				f(id, r)
				runtime.Gosched()
			}
		}(i)
	}
}

func waitTimeout(wg *sync.WaitGroup, d time.Duration) bool {
	ch := make(chan struct{})
	go func() { wg.Wait(); close(ch) }()
	select {
	case <-ch:
		return true
	case <-time.After(d):
		return false
	}
}

// join waits for the workers, stops the background goroutines, waits for them: the watchdog.
func (p *phase) join() bool {
	limit := p.c.watchdog
	ok := !p.mainTimedOut && waitTimeout(&p.main, limit)
	p.stop.Store(true)
	if ok {
		ok = waitTimeout(&p.bg, limit)
	}
	p.c.add("goroutines", int64(p.nGo))
	if !ok {
		buf := make([]byte, 1<<16)
		n := runtime.Stack(buf, true)
		dump := string(buf[:n])
		if len(dump) > 5000 {
			dump = dump[:5000]
		}
		p.failf("watchdog", "goroutines did not finish within %s (deadlock or livelock) | %s", limit, strings.ReplaceAll(dump, "\n", " | "))
		p.c.aborted.Store(true)
	}
	return ok
}

// ---------------------------------------------------------------- seeded delay plan at the txcache pause points

var pausePoints = []string{"txcache.addtx.afterUnlock", "txcache.evict.afterSnapshot", "txcache.evict.betweenIndexes", "txcache.remove.betweenIndexes"}

type delayPlan struct {
	seed   uint64
	n      atomic.Uint64
	hits   [4]atomic.Int64
	weight uint64 // out of 64: how often a pause point acts
}

func mix(a, b uint64) uint64 {
	x := a*0x9E3779B97F4A7C15 ^ (b + 0xD1B54A32D192ED03)
	x ^= x >> 29
	x *= 0xBF58476D1CE4E5B9
	x ^= x >> 32
	return x
}

func (d *delayPlan) hook(point string) {
	idx := 0
	for i, s := range pausePoints {
		if s == point {
			idx = i
		}
	}
	d.hits[idx].Add(1)
	h := mix(d.seed+uint64(idx)*977, d.n.Add(1))
	if h%64 >= d.weight {
		return
	}
	switch (h >> 8) % 4 {
	case 0, 1:
		runtime.Gosched()
	case 2:
		for i := 0; i < 5; i++ {
			runtime.Gosched()
		}
	default:
		time.Sleep(time.Duration(20+(h>>16)%300) * time.Microsecond)
	}
}

func (d *delayPlan) install() { txcache.VerifSetPauseHook(d.hook) }
func uninstallHook()          { txcache.VerifSetPauseHook(func(string) {}) }

// yield: harness-side yields inside host / session / iteration callbacks.
var yieldCtr atomic.Uint64

func maybeYield() {
	if yieldCtr.Add(1)%3 == 0 {
		runtime.Gosched()
	}
}

// ---------------------------------------------------------------- Extra

func (comp) Extra(prop string, tier string, seed int64, scratch string) *core.ExtraResult {
	res := &core.ExtraResult{Counts: map[string]int{}}
	c := &collector{res: res, seed: seed, tier: tier, prop: prop, perKind: map[string]int{}, phaseSet: map[string]bool{}}
	if c.prop == "" {
		c.prop = "C14"
	}
	_ = logger.SetLogLevel("*:NONE")
	start := time.Now()
	rounds, scale, budget := 10, 1, 36*time.Second
	if prop != "C14" && prop != "" {
		rounds, budget = 12, 12*time.Second
		if prop == "C05" {
			budget = 20 * time.Second
		}
	}
	c.watchdog = 25 * time.Second
	if tier == "thorough" {
		rounds, scale, budget = 60, 3, 9*time.Minute
		c.watchdog = 120 * time.Second
		if prop != "C14" && prop != "" {
			// the per-property subsets of the engine (extras of C01 C02 C05 C06 C12 C13 C15 C16 C17 C20): a third of C14's budget each
			rounds, scale, budget = 30, 3, 3*time.Minute
		}
	}
	if raceEnabled {
		c.add("race_detector_on", 1)
	}
	oldProcs := runtime.GOMAXPROCS(0)
	defer runtime.GOMAXPROCS(oldProcs)
	defer uninstallHook()
	procsTable := []int{runtime.NumCPU(), 2, 4, 1, 3, 8}
	done := 0
	// no circular wait among the repository's mutexes: graph re-extracted from the source, decided by Coq
	if c.prop == "C14" {
		phaseLockOrder(c, scratch)
		obsEvictReadd(c)
	}
	for r := 0; r < rounds; r++ {
		if time.Since(start) > budget || c.aborted.Load() {
			break
		}
		c.round = r
		c.procs = procsTable[r%len(procsTable)]
		runtime.GOMAXPROCS(c.procs)
		c.add(fmt.Sprintf("rounds_gomaxprocs_%d", c.procs), 1)
		rs := seed*1_000_003 + int64(r)
		steps := []func(*collector, int64, int){
			phaseTxAddOnly, phaseTxMixed, phaseTxLimits, phaseTxEvict, phaseTxClear, phaseTxAddClear, phaseTxDiagnose,
			phaseImmunity, phaseCrossTx, phaseImmunityClear, phaseLRU, phaseCapacityLRU, phaseAdapter, phaseFifo, phaseTimeCache, phaseConcurrentMap,
		}
		switch c.prop {
		case "C17": // the spilling adapter under concurrent use: acknowledged keys are always found
			steps = []func(*collector, int64, int){phaseAdapter}
		case "C06": // pool limits after concurrent use: eviction keeps running
			steps = []func(*collector, int64, int){phaseTxEvict, phaseTxLimits}
		case "C12", "C13": // immunity cache / CrossTxCache under concurrent use: immune items survive, bounds hold at every probe
			steps = []func(*collector, int64, int){phaseImmunity, phaseCrossTx, phaseImmunityClear}
		case "C15": // both LRU caches under concurrent use: Len <= capacity at every probe, no lost update of a resident key
			steps = []func(*collector, int64, int){phaseLRU, phaseCapacityLRU}
		case "C20": // FIFO sharded cache under concurrent use
			steps = []func(*collector, int64, int){phaseFifo}
		case "C05": // the two indexes and the counters at quiescent instants of concurrent histories
			steps = []func(*collector, int64, int){phaseTxLimits, phaseTxMixed, phaseTxEvict, phaseTxAddOnly, phaseTxClear, phaseTxAddClear, phaseConcurrentMap}
		case "C01", "C02": // selections concurrent with insertions and removals: every result judged by the C01/C02 monitors
			steps = []func(*collector, int64, int){phaseTxAddOnly, phaseTxMixed, phaseTxLimits}
		case "C16": // the storage unit after concurrent use: cache and persister agree at every quiescent instant
			steps = []func(*collector, int64, int){phaseStorageUnit}
		}
		for _, f := range steps {
			if c.aborted.Load() {
				break
			}
			f(c, rs, scale)
		}
		done++
	}
	runtime.GOMAXPROCS(oldProcs)
	c.add("rounds", int64(done))
	c.counts.Range(func(k, v interface{}) bool {
		res.Counts[k.(string)] = int(v.(*atomic.Int64).Load())
		return true
	})
	res.Counts["wall_ms"] = int(time.Since(start).Milliseconds())
	res.Evaluations = int(c.evals.Load())
	res.Distinct = res.Counts["phases"]
	var names []string
	for n := range c.phaseSet {
		names = append(names, n)
	}
	sort.Strings(names)
	res.Rule = "validation, not proof: " + fmt.Sprint(done) + " rounds x phases [" + strings.Join(names, " ") + "], each phase = many goroutines over all public operations of one cache " +
		"(GOMAXPROCS varied per round, seeded delays at the 4 txcache pause points, yields inside host/session/iteration callbacks), watchdog on completion, recovered panics; " +
		"monitors: C01+C02 on every concurrent SelectTransactions result; add-only phases: every added transaction present, every sender list = the sorted set; " +
		"immunized items (ImmunizeKeys then HasOrAdd/AddTx returned has|added) answer Get with their payload at every later probe; Count<=MaxNumItems, per-sender count<=limit, LRU/FIFO Len<=capacity at every probe; " +
		"at every instant where no writer is in flight (after each epoch and after all goroutines finished; phases without Clear): CountTx = |Keys|, NumBytes = sum of Size over Keys; " +
		"phases with only AddTx/RemoveTxByHash (no eviction, limits not hit): the two indexes hold the same set at those instants; " +
		"lock-order: the held->acquired graph of the repository's mutex fields is re-extracted from the source (go/parser) and its acyclicity is decided by Coq (acyclicb_sound). Data races are reported by the race detector (exit status 66), not by this JSON."
	if !raceEnabled {
		res.Rule += " THIS RUN WAS NOT BUILT WITH -race: data races were not looked for."
	}
	res.Samples = c.samples
	return res
}
