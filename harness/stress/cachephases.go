package stress

import (
	"bytes"
	"fmt"
	"math/rand"
	"runtime"
	"sync/atomic"
	"time"

	chaincore "github.com/multiversx/mx-chain-core-go/core"
	"github.com/multiversx/mx-chain-storage-go/fifocache"
	"github.com/multiversx/mx-chain-storage-go/immunitycache"
	"github.com/multiversx/mx-chain-storage-go/lrucache"
	"github.com/multiversx/mx-chain-storage-go/lrucache/capacity"
	"github.com/multiversx/mx-chain-storage-go/timecache"
	"github.com/multiversx/mx-chain-storage-go/txcache"
	"github.com/multiversx/mx-chain-storage-go/txcache/maps"
	"github.com/multiversx/mx-chain-storage-go/types"
)

func keyOf(i int) []byte        { return []byte(fmt.Sprintf("k%04d", i)) }
func payloadOf(k []byte) []byte { return append([]byte("v:"), k...) }

// ---------------------------------------------------------------- ImmunityCache

type immCache interface {
	HasOrAdd(key []byte, value interface{}, sizeInBytes int) (has, added bool)
	Put(key []byte, value interface{}, sizeInBytes int) (evicted bool)
	Get(key []byte) (value interface{}, ok bool)
	Peek(key []byte) (value interface{}, ok bool)
	Has(key []byte) bool
	Remove(key []byte)
	RemoveWithResult(key []byte) bool
	ImmunizeKeys(keys [][]byte) (numNowTotal, numFutureTotal int)
	Keys() [][]byte
	ForEachItem(function types.ForEachItem)
	Len() int
	Count() int
	CountImmune() int
	NumBytes() int
	MaxSize() int
	SizeInBytesContained() uint64
	Diagnose(deep bool)
	Clear()
	RemoveOldest()
	RegisterHandler(func(key []byte, value interface{}), string)
	UnRegisterHandler(id string)
	Close() error
}

func immunityWorkload(c *collector, p *phase, cache immCache, maxItems int, withClear bool, opsKey string) {
	rng := p.rng()
	nKeys := 300
	nProtected := 8
	protected := make([][]byte, nProtected)
	established := make([]atomic.Bool, nProtected)
	for i := range protected {
		protected[i] = []byte(fmt.Sprintf("P%02d-%d", i, rng.Intn(1000)))
	}
	var nOps, nProbe, nSurv atomic.Int64
	iters := 1500 * p.scale
	p.worker(6, "HasOrAdd/Put", func(id int, r *rand.Rand) {
		for i := 0; i < iters; i++ {
			k := keyOf(r.Intn(nKeys))
			if r.Intn(3) == 0 {
				cache.Put(k, payloadOf(k), 1+r.Intn(100))
			} else {
				has, added := cache.HasOrAdd(k, payloadOf(k), 1+r.Intn(100))
				if has && added {
					p.failf("monitor", "HasOrAdd(%s) returned has and added", k)
				}
			}
			nOps.Add(1)
		}
	})
	p.worker(2, "Remove", func(id int, r *rand.Rand) {
		for i := 0; i < iters/2; i++ {
			k := keyOf(r.Intn(nKeys)) // never a protected key
			if r.Intn(2) == 0 {
				cache.Remove(k)
			} else {
				cache.RemoveWithResult(k)
			}
			nOps.Add(1)
		}
	})
	p.worker(2, "ImmunizeKeys", func(id int, r *rand.Rand) {
		for round := 0; round < 3; round++ {
			for i := id; i < nProtected; i += 2 {
				time.Sleep(time.Duration(r.Intn(400)) * time.Microsecond)
				k := protected[i]
				now, fut := cache.ImmunizeKeys([][]byte{k, k}[:1+r.Intn(2)])
				nOps.Add(1)
				if now+fut == 0 {
					continue // refused by the capacity gate
				}
				has, added := cache.HasOrAdd(k, payloadOf(k), 10)
				nOps.Add(1)
				if has || added {
					established[i].Store(true)
				}
			}
		}
	})
	if withClear {
		p.worker(1, "Clear", func(id int, r *rand.Rand) {
			for i := 0; i < 8*p.scale; i++ {
				time.Sleep(time.Duration(100+r.Intn(900)) * time.Microsecond)
				cache.Clear()
				nOps.Add(1)
			}
		})
	}
	// watchers: an immunized item, once present, answers Get with its payload at every later instant
	p.background(2, "immunity watcher", func(id int, r *rand.Rand) {
		for i := range protected {
			if withClear || !established[i].Load() {
				continue
			}
			v, ok := cache.Get(protected[i])
			nSurv.Add(1)
			c.eval("probe_immunized_survives")
			if !ok {
				p.failf("monitor", "immunized item %s (ImmunizeKeys accepted, then HasOrAdd returned has|added) is gone", protected[i])
			} else if b, isB := v.([]byte); !isB || !bytes.Equal(b, payloadOf(protected[i])) {
				p.failf("monitor", "immunized item %s no longer holds its original payload", protected[i])
			}
			if !cache.Has(protected[i]) {
				p.failf("monitor", "immunized item %s: Has = false", protected[i])
			}
		}
	})
	p.background(3, "readers", func(id int, r *rand.Rand) {
		nOps.Add(1)
		switch r.Intn(7) {
		case 0, 1:
			n := cache.Count()
			nProbe.Add(1)
			c.eval("probe_immunity_count_bound")
			if n > maxItems {
				p.failf("monitor", "at a probe instant Count() = %d > MaxNumItems = %d", n, maxItems)
			}
		case 2:
			keys := cache.Keys()
			seen := map[string]bool{}
			for _, k := range keys {
				if seen[string(k)] {
					p.failf("monitor", "Keys() lists %s twice", k)
				}
				seen[string(k)] = true
			}
		case 3:
			cache.ForEachItem(func(key []byte, value interface{}) {
				maybeYield()
				if b, ok := value.([]byte); !ok || !bytes.Equal(b, payloadOf(key)) {
					p.failf("monitor", "ForEachItem: key %s holds a foreign payload", key)
				}
			})
		case 4:
			k := keyOf(r.Intn(nKeys))
			if v, ok := cache.Get(k); ok {
				if b, isB := v.([]byte); !isB || !bytes.Equal(b, payloadOf(k)) {
					p.failf("monitor", "Get(%s) returned a foreign payload", k)
				}
			}
			cache.Peek(k)
			cache.Has(k)
		case 5:
			_ = cache.Len()
			_ = cache.CountImmune()
			_ = cache.NumBytes()
			_ = cache.MaxSize()
			_ = cache.SizeInBytesContained()
		default:
			cache.Diagnose(false)
			cache.RemoveOldest()
			cache.RegisterHandler(nil, "")
			cache.UnRegisterHandler("")
		}
	})
	if !p.join() {
		return
	}
	c.add(opsKey, nOps.Load())
	n := cache.Count()
	c.eval("probe_immunity_count_bound")
	if n > maxItems || cache.Len() != n || len(cache.Keys()) != n {
		p.failf("monitor", "quiescent: Count=%d Len=%d |Keys|=%d MaxNumItems=%d", n, cache.Len(), len(cache.Keys()), maxItems)
	}
	est := 0
	for i := range protected {
		if established[i].Load() {
			est++
			if !withClear {
				c.eval("probe_immunized_survives")
				if v, ok := cache.Get(protected[i]); !ok || !bytes.Equal(v.([]byte), payloadOf(protected[i])) {
					p.failf("monitor", "quiescent: immunized item %s is gone or altered", protected[i])
				}
			}
		}
	}
	c.add("immunized_established", int64(est))
	_ = cache.Close()
	if !p.failed.Load() && c.round == 0 && !withClear {
		c.sample(fmt.Sprintf("%s round 0: %d goroutines, %d operations, %d Count<=MaxNumItems probes, %d of %d protected keys established and found by %d survival probes; final Count=%d of %d",
			p.name, p.nGo, nOps.Load(), nProbe.Load(), est, nProtected, nSurv.Load(), n, maxItems))
	}
}

func immCfg(rng *rand.Rand) immunitycache.CacheConfig {
	return immunitycache.CacheConfig{Name: "stress", NumChunks: []uint32{1, 4, 16}[rng.Intn(3)], MaxNumItems: []uint32{64, 128}[rng.Intn(2)],
		MaxNumBytes: []uint32{4000, 1 << 20}[rng.Intn(2)], NumItemsToPreemptivelyEvict: []uint32{16, 32, 64}[rng.Intn(3)]}
}

func phaseImmunity(c *collector, rs int64, scale int) {
	p := c.newPhase("immunity", rs, scale)
	cfg := immCfg(p.rng())
	cache, err := immunitycache.NewImmunityCache(cfg)
	if err != nil {
		p.failf("monitor", "NewImmunityCache: %v", err)
		return
	}
	immunityWorkload(c, p, cache, int(cfg.MaxNumItems), false, "ops_immunitycache")
}

func phaseImmunityClear(c *collector, rs int64, scale int) {
	p := c.newPhase("immunity-clear", rs, scale)
	cfg := immCfg(p.rng())
	cache, err := immunitycache.NewImmunityCache(cfg)
	if err != nil {
		p.failf("monitor", "NewImmunityCache: %v", err)
		return
	}
	immunityWorkload(c, p, cache, int(cfg.MaxNumItems), true, "ops_immunitycache")
}

// ---------------------------------------------------------------- CrossTxCache

func phaseCrossTx(c *collector, rs int64, scale int) {
	p := c.newPhase("crosstxcache", rs, scale)
	rng := p.rng()
	ic := immCfg(rng)
	cfg := txcache.ConfigDestinationMe{Name: "stress", NumChunks: ic.NumChunks, MaxNumItems: ic.MaxNumItems, MaxNumBytes: ic.MaxNumBytes,
		NumItemsToPreemptivelyEvict: ic.NumItemsToPreemptivelyEvict}
	cache, err := txcache.NewCrossTxCache(cfg)
	if err != nil {
		p.failf("monitor", "NewCrossTxCache: %v", err)
		return
	}
	u := makeUniverse(rng, 6, 50, false)
	nProtected := 8
	protected := make([]*txSpec, nProtected)
	established := make([]atomic.Bool, nProtected)
	for i := range protected {
		protected[i] = &txSpec{hash: []byte(fmt.Sprintf("P%02d", i)), sender: []byte("SP"), size: 10}
	}
	var nOps, nProbe atomic.Int64
	iters := 1200 * scale
	p.worker(6, "CrossTxCache.AddTx", func(id int, r *rand.Rand) {
		for i := 0; i < iters; i++ {
			t := u.txs[r.Intn(len(u.txs))]
			has, added := cache.AddTx(t.wrapped())
			if has && added {
				p.failf("monitor", "AddTx(%s) returned has and added", t.hash)
			}
			nOps.Add(1)
		}
	})
	p.worker(2, "CrossTxCache.RemoveTxByHash", func(id int, r *rand.Rand) {
		for i := 0; i < iters/2; i++ {
			cache.RemoveTxByHash(u.txs[r.Intn(len(u.txs))].hash)
			nOps.Add(1)
		}
	})
	p.worker(2, "ImmunizeTxsAgainstEviction", func(id int, r *rand.Rand) {
		for i := id; i < nProtected; i += 2 {
			time.Sleep(time.Duration(r.Intn(400)) * time.Microsecond)
			t := protected[i]
			// at most 8 keys are ever immunized, far below MaxNumItems: the gate always lets the call through
			cache.ImmunizeTxsAgainstEviction([][]byte{t.hash})
			has, added := cache.AddTx(t.wrapped())
			nOps.Add(2)
			if has || added {
				established[i].Store(true)
			}
		}
	})
	p.background(2, "immunity watcher", func(id int, r *rand.Rand) {
		for i := range protected {
			if !established[i].Load() {
				continue
			}
			w, ok := cache.GetByTxHash(protected[i].hash)
			c.eval("probe_immunized_survives")
			if !ok || !bytes.Equal(w.TxHash, protected[i].hash) {
				p.failf("monitor", "immunized transaction %s (ImmunizeTxsAgainstEviction, then AddTx returned has|added) is gone", protected[i].hash)
			}
		}
	})
	p.background(3, "readers", func(id int, r *rand.Rand) {
		nOps.Add(1)
		switch r.Intn(6) {
		case 0, 1:
			n := cache.Count()
			nProbe.Add(1)
			c.eval("probe_immunity_count_bound")
			if n > int(cfg.MaxNumItems) {
				p.failf("monitor", "at a probe instant Count() = %d > MaxNumItems = %d", n, cfg.MaxNumItems)
			}
		case 2:
			cache.ForEachTransaction(func(h []byte, w *txcache.WrappedTransaction) {
				maybeYield()
				if !bytes.Equal(h, w.TxHash) {
					p.failf("monitor", "ForEachTransaction: key %s holds %s", h, w.TxHash)
				}
			})
		case 3:
			t := u.txs[r.Intn(len(u.txs))]
			cache.GetByTxHash(t.hash)
			cache.Get(t.hash)
			cache.Peek(t.hash)
			cache.Has(t.hash)
		case 4:
			_ = cache.Keys()
			_ = cache.Len()
			_ = cache.GetTransactionsPoolForSender("S00")
		default:
			cache.Diagnose(false)
			_ = cache.CountImmune()
			_ = cache.NumBytes()
		}
	})
	if !p.join() {
		return
	}
	c.add("ops_crosstxcache", nOps.Load())
	for i := range protected {
		if established[i].Load() {
			c.eval("probe_immunized_survives")
			if _, ok := cache.GetByTxHash(protected[i].hash); !ok {
				p.failf("monitor", "quiescent: immunized transaction %s is gone", protected[i].hash)
			}
		}
	}
	if n := cache.Count(); n > int(cfg.MaxNumItems) || n != len(cache.Keys()) {
		p.failf("monitor", "quiescent: Count=%d |Keys|=%d MaxNumItems=%d", n, len(cache.Keys()), cfg.MaxNumItems)
	}
}

// ---------------------------------------------------------------- lrucache (both kinds, handlers), capacityLRU

func cacherWorkload(c *collector, p *phase, cache types.Cacher, capItems int, opsKey string, boundKey string, withHandlers bool) {
	nKeys := capItems * 3
	var nOps, nProbe, handled atomic.Int64
	iters := 1500 * p.scale
	p.worker(6, "Put/HasOrAdd/Get/Remove", func(id int, r *rand.Rand) {
		for i := 0; i < iters; i++ {
			k := keyOf(r.Intn(nKeys))
			switch r.Intn(8) {
			case 0, 1:
				cache.Put(k, payloadOf(k), 1+r.Intn(60))
			case 2:
				has, added := cache.HasOrAdd(k, payloadOf(k), 1+r.Intn(60))
				if has && added {
					p.failf("monitor", "HasOrAdd(%s) returned has and added", k)
				}
			case 3, 4:
				if v, ok := cache.Get(k); ok {
					if b, isB := v.([]byte); !isB || !bytes.Equal(b, payloadOf(k)) {
						p.failf("monitor", "Get(%s) returned a foreign payload", k)
					}
				}
			case 5:
				cache.Peek(k)
				cache.Has(k)
			case 6:
				cache.Remove(k)
			default:
				if r.Intn(40) == 0 {
					cache.Clear()
				}
			}
			nOps.Add(1)
		}
	})
	if withHandlers {
		p.worker(2, "RegisterHandler/UnRegisterHandler", func(id int, r *rand.Rand) {
			for i := 0; i < iters/10; i++ {
				hid := fmt.Sprintf("h%d-%d", id, i%3)
				cache.RegisterHandler(func(key []byte, value interface{}) {
					runtime.Gosched()
					handled.Add(1)
				}, hid)
				time.Sleep(time.Duration(r.Intn(200)) * time.Microsecond)
				cache.UnRegisterHandler(hid)
				nOps.Add(2)
			}
			cache.RegisterHandler(nil, "nil-handler")
		})
	}
	p.background(2, "readers", func(id int, r *rand.Rand) {
		nOps.Add(1)
		switch r.Intn(3) {
		case 0:
			n := cache.Len()
			nProbe.Add(1)
			c.eval(boundKey)
			if n > capItems {
				p.failf("monitor", "at a probe instant Len() = %d > capacity %d", n, capItems)
			}
		case 1:
			keys := cache.Keys()
			seen := map[string]bool{}
			for _, k := range keys {
				if seen[string(k)] {
					p.failf("monitor", "Keys() lists %s twice", k)
				}
				seen[string(k)] = true
			}
			if len(keys) > capItems {
				p.failf("monitor", "at a probe instant Keys() lists %d keys > capacity %d", len(keys), capItems)
			}
		default:
			_ = cache.SizeInBytesContained()
			_ = cache.MaxSize()
		}
	})
	if !p.join() {
		return
	}
	c.add(opsKey, nOps.Load())
	c.add("handler_calls", handled.Load())
	c.eval(boundKey)
	if n := cache.Len(); n > capItems || n != len(cache.Keys()) {
		p.failf("monitor", "quiescent: Len=%d |Keys|=%d capacity=%d", n, len(cache.Keys()), capItems)
	}
	_ = cache.Close()
	if !p.failed.Load() && c.round == 0 {
		c.sample(fmt.Sprintf("%s round 0: %d goroutines, %d operations, %d Len<=capacity probes (capacity %d), %d handler calls", p.name, p.nGo, nOps.Load(), nProbe.Load(), capItems, handled.Load()))
	}
}

func phaseLRU(c *collector, rs int64, scale int) {
	{
		p := c.newPhase("lru-simple", rs, scale)
		capItems := []int{8, 32, 100}[p.rng().Intn(3)]
		cache, err := lrucache.NewCache(capItems)
		if err != nil {
			p.failf("monitor", "NewCache: %v", err)
			return
		}
		cacherWorkload(c, p, cache, capItems, "ops_lrucache", "probe_lru_len_bound", true)
	}
	if c.aborted.Load() {
		return
	}
	{
		p := c.newPhase("lru-sized", rs, scale)
		capItems := []int{8, 32, 100}[p.rng().Intn(3)]
		cache, err := lrucache.NewCacheWithSizeInBytes(capItems, int64(capItems)*20)
		if err != nil {
			p.failf("monitor", "NewCacheWithSizeInBytes: %v", err)
			return
		}
		cacherWorkload(c, p, cache, capItems, "ops_lrucache", "probe_lru_len_bound", true)
	}
	if c.aborted.Load() {
		return
	}
	{
		p := c.newPhase("lru-evict-callback", rs, scale)
		capItems := 16
		var evicted atomic.Int64
		cache, err := lrucache.NewCacheWithEviction(capItems, func(key interface{}, value interface{}) {
			runtime.Gosched()
			evicted.Add(1)
		})
		if err != nil {
			p.failf("monitor", "NewCacheWithEviction: %v", err)
			return
		}
		cacherWorkload(c, p, cache, capItems, "ops_lrucache", "probe_lru_len_bound", true)
		c.add("lru_evict_callbacks", evicted.Load())
	}
}

func phaseCapacityLRU(c *collector, rs int64, scale int) {
	p := c.newPhase("capacity-lru", rs, scale)
	capItems := []int{8, 32}[p.rng().Intn(2)]
	maxBytes := int64(capItems) * 25
	cache, err := capacity.NewCapacityLRU(capItems, maxBytes)
	if err != nil {
		p.failf("monitor", "NewCapacityLRU: %v", err)
		return
	}
	nKeys := capItems * 3
	var nOps atomic.Int64
	iters := 2000 * scale
	p.worker(6, "capacityLRU ops", func(id int, r *rand.Rand) {
		for i := 0; i < iters; i++ {
			k := string(keyOf(r.Intn(nKeys)))
			switch r.Intn(9) {
			case 0, 1:
				cache.AddSized(k, k, int64(1+r.Intn(60)))
			case 2:
				ev := cache.AddSizedAndReturnEvicted(k, k, int64(1+r.Intn(60)))
				for ek, evv := range ev {
					if ek != evv {
						p.failf("monitor", "AddSizedAndReturnEvicted returned key %v with foreign value %v", ek, evv)
					}
				}
			case 3:
				cache.AddSizedIfMissing(k, k, int64(1+r.Intn(60)))
			case 4, 5:
				if v, ok := cache.Get(k); ok && v != k {
					p.failf("monitor", "Get(%s) returned a foreign value", k)
				}
			case 6:
				cache.Peek(k)
				cache.Contains(k)
			case 7:
				cache.Remove(k)
			default:
				if r.Intn(50) == 0 {
					cache.Purge()
				}
			}
			nOps.Add(1)
		}
	})
	p.background(2, "readers", func(id int, r *rand.Rand) {
		nOps.Add(1)
		n := cache.Len()
		c.eval("probe_lru_len_bound")
		if n > capItems {
			p.failf("monitor", "at a probe instant capacityLRU.Len() = %d > capacity %d", n, capItems)
		}
		c.eval("probe_lru_bytes_bound")
		if b := cache.SizeInBytesContained(); int64(b) > maxBytes+60 {
			// the entry just written always stays, so the byte bound may be exceeded by one entry
			p.failf("monitor", "at a probe instant capacityLRU.SizeInBytesContained() = %d > byte capacity %d + one entry", b, maxBytes)
		}
		_ = cache.Keys()
	})
	if !p.join() {
		return
	}
	c.add("ops_capacitylru", nOps.Load())
	if n := cache.Len(); n > capItems || n != len(cache.Keys()) {
		p.failf("monitor", "quiescent: capacityLRU Len=%d |Keys|=%d capacity=%d", n, len(cache.Keys()), capItems)
	}
}

// ---------------------------------------------------------------- fifocache

func phaseFifo(c *collector, rs int64, scale int) {
	p := c.newPhase("fifo-sharded", rs, scale)
	r := p.rng()
	shards := []int{1, 2, 4}[r.Intn(3)]
	size := shards * []int{8, 25}[r.Intn(2)]
	cache, err := fifocache.NewShardedCache(size, shards)
	if err != nil {
		p.failf("monitor", "NewShardedCache: %v", err)
		return
	}
	cacherWorkload(c, p, cache, size, "ops_fifocache", "probe_fifo_len_bound", true)
}

// ---------------------------------------------------------------- timecache: TimeCache, peerTimeCache, timeCacher with Sweep

func phaseTimeCache(c *collector, rs int64, scale int) {
	timecache.VerifSilenceLog()
	p := c.newPhase("timecache", rs, scale)
	tc := timecache.NewTimeCache(time.Hour)
	inner := timecache.NewTimeCache(time.Hour)
	peer, err := timecache.NewPeerTimeCache(inner)
	if err != nil {
		p.failf("monitor", "NewPeerTimeCache: %v", err)
		return
	}
	cacher, err := timecache.NewTimeCacher(timecache.ArgTimeCacher{DefaultSpan: time.Hour, CacheExpiry: time.Second})
	if err != nil {
		p.failf("monitor", "NewTimeCacher: %v", err)
		return
	}
	nKeys := 120
	var nOps atomic.Int64
	// long-lived keys: added with a span of one hour, never removed: present at every probe whatever sweeps run
	longKeys := make([]string, 10)
	longDone := make([]atomic.Bool, len(longKeys))
	for i := range longKeys {
		longKeys[i] = fmt.Sprintf("long-%02d", i)
	}
	iters := 1200 * scale
	p.worker(4, "TimeCache ops", func(id int, r *rand.Rand) {
		for i := 0; i < iters; i++ {
			k := string(keyOf(r.Intn(nKeys)))
			switch r.Intn(6) {
			case 0:
				_ = tc.Add(k)
			case 1:
				_ = tc.AddWithSpan(k, time.Duration(r.Intn(300))*time.Microsecond)
			case 2:
				_ = tc.Upsert(k, time.Duration(r.Intn(300))*time.Microsecond)
			case 3:
				tc.Has(k)
				_ = tc.Len()
			case 4:
				_ = peer.Upsert(chaincore.PeerID(k), time.Duration(r.Intn(300))*time.Microsecond)
				peer.Has(chaincore.PeerID(k))
			default:
				_ = tc.Add("") // rejected key
			}
			nOps.Add(1)
		}
	})
	p.worker(1, "long-lived keys", func(id int, r *rand.Rand) {
		for i, k := range longKeys {
			time.Sleep(time.Duration(r.Intn(300)) * time.Microsecond)
			_ = tc.AddWithSpan(k, time.Hour)
			_ = peer.Upsert(chaincore.PeerID(k), time.Hour)
			cacher.Put([]byte(k), payloadOf([]byte(k)), 0)
			longDone[i].Store(true)
			nOps.Add(3)
		}
	})
	p.worker(3, "timeCacher ops", func(id int, r *rand.Rand) {
		for i := 0; i < iters; i++ {
			k := keyOf(r.Intn(nKeys))
			switch r.Intn(8) {
			case 0, 1:
				cacher.Put(k, payloadOf(k), 0)
			case 2:
				cacher.HasOrAdd(k, payloadOf(k), 0)
			case 3:
				if v, ok := cacher.Get(k); ok {
					if b, isB := v.([]byte); !isB || !bytes.Equal(b, payloadOf(k)) {
						p.failf("monitor", "timeCacher.Get(%s) returned a foreign payload", k)
					}
				}
			case 4:
				cacher.Peek(k)
				cacher.Has(k)
			case 5:
				cacher.Remove(k)
			case 6:
				_ = cacher.Keys()
				_ = cacher.Len()
				_ = cacher.MaxSize()
				_ = cacher.SizeInBytesContained()
			default:
				hid := fmt.Sprintf("h%d", i%3)
				cacher.RegisterHandler(func(key []byte, value interface{}) { runtime.Gosched() }, hid)
				cacher.UnRegisterHandler(hid)
			}
			nOps.Add(1)
		}
	})
	p.background(2, "Sweep", func(id int, r *rand.Rand) {
		tc.Sweep()
		peer.Sweep()
		cacher.VerifCore().VerifSweep()
		nOps.Add(3)
		time.Sleep(time.Duration(r.Intn(100)) * time.Microsecond)
	})
	p.background(2, "long-lived watcher", func(id int, r *rand.Rand) {
		for i, k := range longKeys {
			if !longDone[i].Load() {
				continue
			}
			c.eval("probe_timecache_keeps_unexpired")
			if !tc.Has(k) || !peer.Has(chaincore.PeerID(k)) || !cacher.Has([]byte(k)) {
				p.failf("monitor", "key %s added with a span of one hour is reported absent while sweeps run (TimeCache %v, peer %v, cacher %v)", k, tc.Has(k), peer.Has(chaincore.PeerID(k)), cacher.Has([]byte(k)))
			}
		}
	})
	if !p.join() {
		return
	}
	// expired short-span keys go at the next sweep; the long ones stay
	time.Sleep(time.Millisecond)
	tc.Sweep()
	for _, k := range longKeys {
		c.eval("probe_timecache_keeps_unexpired")
		if !tc.Has(k) {
			p.failf("monitor", "quiescent: key %s (span one hour) is gone", k)
		}
	}
	cacher.Clear()
	if cacher.Len() != 0 {
		p.failf("monitor", "quiescent: timeCacher.Len() = %d after Clear", cacher.Len())
	}
	_ = cacher.Close()
	_ = cacher.Close()
	c.add("ops_timecache", nOps.Load())
}

// ---------------------------------------------------------------- txcache/maps.ConcurrentMap

func phaseConcurrentMap(c *collector, rs int64, scale int) {
	p := c.newPhase("concurrent-map", rs, scale)
	r0 := p.rng()
	m := maps.NewConcurrentMap([]uint32{0, 1, 4, 16}[r0.Intn(4)])
	nKeys := 200
	var nOps atomic.Int64
	// exclusive keys: only SetIfAbsent, never removed: exactly one caller wins
	nExcl := 64
	wins := make([]atomic.Int64, nExcl)
	iters := 2500 * scale
	p.worker(6, "ConcurrentMap ops", func(id int, r *rand.Rand) {
		for i := 0; i < iters; i++ {
			k := string(keyOf(r.Intn(nKeys)))
			switch r.Intn(8) {
			case 0, 1:
				m.Set(k, k)
			case 2:
				m.SetIfAbsent(k, k)
			case 3, 4:
				if v, ok := m.Get(k); ok && v != k {
					p.failf("monitor", "ConcurrentMap.Get(%s) returned a foreign value", k)
				}
				m.Has(k)
			case 5:
				if v, ok := m.Remove(k); ok && v != k {
					p.failf("monitor", "ConcurrentMap.Remove(%s) returned a foreign value", k)
				}
			case 6:
				e := r.Intn(nExcl)
				if m.SetIfAbsent(fmt.Sprintf("excl-%d", e), e) {
					wins[e].Add(1)
				}
			default:
				if r.Intn(3) == 0 {
					_ = m.Count()
				}
			}
			nOps.Add(1)
		}
	})
	p.background(2, "iterators", func(id int, r *rand.Rand) {
		nOps.Add(1)
		switch r.Intn(3) {
		case 0:
			keys := m.Keys()
			seen := map[string]bool{}
			for _, k := range keys {
				if seen[k] {
					p.failf("monitor", "ConcurrentMap.Keys() lists %s twice", k)
				}
				seen[k] = true
			}
		case 1:
			m.IterCb(func(key string, v interface{}) { maybeYield() })
		default:
			_ = m.Count()
		}
	})
	if !p.join() {
		return
	}
	c.add("ops_concurrentmap", nOps.Load())
	for e := range wins {
		c.eval("setifabsent_exclusive")
		if w := wins[e].Load(); w > 1 {
			p.failf("monitor", "SetIfAbsent(excl-%d) succeeded %d times although the key was never removed", e, w)
		}
	}
	if m.Count() != len(m.Keys()) {
		p.failf("monitor", "quiescent: ConcurrentMap.Count()=%d, |Keys()|=%d", m.Count(), len(m.Keys()))
	}
	// a last phase with Clear racing everything: safety only
	p2 := c.newPhase("concurrent-map-clear", rs, scale)
	p2.worker(4, "ConcurrentMap ops + Clear", func(id int, r *rand.Rand) {
		for i := 0; i < iters/2; i++ {
			k := string(keyOf(r.Intn(nKeys)))
			switch r.Intn(6) {
			case 0, 1:
				m.Set(k, k)
			case 2:
				m.SetIfAbsent(k, k)
			case 3:
				m.Get(k)
			case 4:
				m.Remove(k)
			default:
				if r.Intn(20) == 0 {
					m.Clear()
				}
			}
		}
	})
	p2.background(1, "iterators", func(id int, r *rand.Rand) {
		m.IterCb(func(key string, v interface{}) {})
		_ = m.Keys()
	})
	p2.join()
}
